(* Proofs/C09Holders.v — the CP-ALS sweep theorems over the PROVED mttkrp algorithm models of C02 (end-to-end chain code -> model):
   the `mk` argument of the sweep (input_tensor.mttkrp(U, n)) is instantiated with
     mk_dense   = tensor.mttkrp    (Model/C02Dense.v   impl_mttkrp_dense: the three reshape / Khatri-Rao / matmul branches),
     mk_sparse  = sptensor.mttkrp  (Model/C02SpKernels.v impl_mttkrp_sp: accumulation over the stored entries),
     mk_kruskal = ktensor.mttkrp   (Model/C02Kruskal.v impl_mttkrp_k: A_n @ (w * Hadamard of A_i^T U_i)),
     mk_sum     = sumtensor.mttkrp (entrywise sum of the parts' results),
   and C02's correctness theorems are bridged to the MTTKRP of the denotation that the C09 theorems speak about
   (spec_mttkrp with unit weights = mttkrp_den).  What remains an oracle is only LAPACK's solve (contract A . Y = P on the
   matrices it is actually given) and the column scaling (sqrt / max).  ttensor.mttkrp has no algorithm model in C02 (correspondence-only). *)
From Coq Require Import List Arith Lia Bool Ring.
From PV Require Import Base.Index Base.Sum Np.Array Model.Sparse Model.Repr Model.C02Spec Model.C02Dense Model.C02Kruskal
  Model.C02SpKernels Model.C09Als.
From PV Require Proofs.C14Sums Proofs.C14Split.
From PV Require Import Proofs.C02DenseProofs Proofs.C02SparseProofs Proofs.C02MttkrpProofs Proofs.C02SpKernelsProofs
  Proofs.C02KruskalProofs Proofs.C09Identity Proofs.C09Monotone Proofs.C09Reported Proofs.C09Norm.
Import ListNotations.

Section Holders.
Variable V : Type.
Variables (v0 v1 : V) (vadd vmul vsub : V -> V -> V) (vopp : V -> V).
Hypothesis Vring : ring_theory v0 v1 vadd vmul vsub vopp (@eq V).
Add Ring Vr9h : Vring.

Local Notation mx := (@matrix V).
Local Notation "x + y" := (vadd x y).
Local Notation "x * y" := (vmul x y).
Local Notation SUM := (sum_over v0 vadd).
Local Notation SUMN := (sum_n v0 vadd).
Local Notation mg := (mget v0).
Local Notation kpr := (kprod v0 v1 vmul).
Local Notation kex := (kprod_ex v0 v1 vmul).
Local Notation mtk := (mttkrp_den v0 v1 vadd vmul).
Local Notation mtkmat := (mttkrp_mat v0 v1 vadd vmul).

(* ---------------------------------------------------------------- bridge: C02's spec_mttkrp (unit weights) = C09's mttkrp_den *)
Lemma nth_repeat_lt (a d : V) R r : r < R -> nth r (repeat a R) d = a.
Proof. revert r; induction R as [|R IH]; intros [|r] H; cbn; try lia; auto. apply IH. lia. Qed.

Lemma kex_insert n : forall (Us : list mx) (j : idx) x r, n < length Us -> n <= length j ->
  kex n Us (C02Spec.insert_at n x j) r = kpr (remove_at n Us) j r.
Proof.
  induction n as [|n IH]; intros [|A Us] j x r Hn Hj; cbn in Hn; try lia.
  - reflexivity.
  - destruct j as [|y j]; cbn in Hj; [lia|].
    change (C02Spec.insert_at (S n) x (y :: j)) with (y :: C02Spec.insert_at n x j).
    change (remove_at (S n) (A :: Us)) with (A :: remove_at n Us).
    cbn [kprod_ex kprod]. rewrite IH by lia. reflexivity.
Qed.

Theorem spec_mttkrp_den (f : idx -> V) (s : shape) n (Us : list mx) R x r :
  n < length s -> length Us = length s -> x < nth n s 0 -> r < R ->
  spec_mttkrp v0 v1 vadd vmul f s n (repeat v1 R) Us x r = mtk s f Us n x r.
Proof.
  intros Hn HL Hx Hr. unfold spec_mttkrp, mttkrp_den.
  rewrite <- (C14Split.sum_allsubs_fix V v0 v1 vadd vmul vsub vopp Vring s n x (fun i => f i * kex n Us i r) Hn Hx).
  apply sum_over_ext. intros j Hj. apply in_allsubs, inb_length in Hj.
  change (C14Nvecs.remove_nth n s) with (remove_at n s) in Hj.
  pose proof (remove_at_length n s Hn) as HR.
  change (C14Nvecs.insert_at n x j) with (C02Spec.insert_at n x j).
  rewrite kex_insert by lia. rewrite nth_repeat_lt by auto. ring.
Qed.

Lemma tabmx_ext I R (f g : nat -> nat -> V) : (forall j r, j < I -> r < R -> f j r = g j r) -> tabmx I R f = tabmx I R g.
Proof.
  intros H. unfold tabmx. apply map_ext_in. intros j Hj. apply in_seq in Hj.
  apply map_ext_in. intros r Hr. apply in_seq in Hr. apply H; lia.
Qed.

(* ---------------------------------------------------------------- the data holders' mttkrp as the sweep's `mk` *)
Variable R : nat.

Definition mk_dense (X : dense V) (U : list mx) (n : nat) : mx :=
  tabmx (nth n (dshape X) 0) R (fun j r => den_dense v0 (impl_mttkrp_dense v0 vadd vmul X U n R) [j; r]).
Definition mk_sparse (S : sparse V) (U : list mx) (n : nat) : mx :=
  tabmx (nth n (sshape S) 0) R (impl_mttkrp_sp v0 v1 vadd vmul S U n).
Definition mk_kruskal (K : ktensor V) (U : list mx) (n : nat) : mx :=
  tabmx (nth n (kshape K) 0) R (impl_mttkrp_k v0 vadd vmul K U n).
(* sumtensor.mttkrp: result = parts[0].mttkrp(U, n); for part in parts[1:]: result += part.mttkrp(U, n) *)
Definition mk_sum (s : shape) (mks : list (list mx -> nat -> mx)) (U : list mx) (n : nat) : mx :=
  tabmx (nth n s 0) R (fun j r => SUM mks (fun mk => mg (mk U n) j r)).

(* "mk is the MTTKRP of the denotation X on every admissible factor list" (good = the holder's own side conditions on U) *)
Definition holder_ok (s : shape) (X : idx -> V) (mk : list mx -> nat -> mx) (good : list mx -> nat -> Prop) : Prop :=
  forall U n, map (@nrows V) U = s -> n < length s -> good U n -> mk U n = mtkmat s X U n R.

Definition good_dense (U : list mx) (n : nat) : Prop := Forall (wf_cols V R) (remove_at n U).
Definition good_any (U : list mx) (n : nat) : Prop := True.

Lemma map_nrows_length (U : list mx) s : map (@nrows V) U = s -> length U = length s.
Proof. intros <-. now rewrite map_length. Qed.

Theorem holder_dense (X : dense V) : wf_dense X -> 2 <= length (dshape X) ->
  holder_ok (dshape X) (den_dense v0 X) (mk_dense X) good_dense.
Proof.
  intros W HN U n HU Hn HG. unfold mk_dense, mttkrp_mat. apply tabmx_ext. intros j r Hj Hr.
  pose proof (map_nrows_length U _ HU) as HL.
  assert (Hrows : map (@length _) (remove_at n U) = remove_at n (dshape X)).
  { rewrite map_remove_at. f_equal. exact HU. }
  destruct (impl_mttkrp_dense_correct V v0 v1 vadd vmul vsub vopp Vring X U R n W HN Hn HL HG Hrows) as (_ & _ & D).
  rewrite (D j r Hj Hr). apply spec_mttkrp_den; auto.
Qed.

Variable isz : V -> bool.

Theorem holder_sparse (S : sparse V) : wf_sp isz S ->
  holder_ok (sshape S) (den_sp v0 S) (mk_sparse S) good_any.
Proof.
  intros W U n HU Hn _. unfold mk_sparse, mttkrp_mat. apply tabmx_ext. intros j r Hj Hr.
  rewrite (impl_mttkrp_sp_correct V v0 v1 vadd vmul vsub vopp Vring isz S U n R j r W Hn Hj Hr).
  apply spec_mttkrp_den; auto. now apply map_nrows_length.
Qed.

Theorem holder_kruskal (K : ktensor V) :
  holder_ok (kshape K) (den_k v0 v1 vadd vmul K) (mk_kruskal K) good_any.
Proof.
  intros U n HU Hn _. unfold mk_kruskal, mttkrp_mat. apply tabmx_ext. intros j r Hj Hr.
  assert (HnK : n < length (kfactors K)) by (now rewrite <- kshape_length).
  assert (Hrows : map (@length _) (remove_at n U) = remove_at n (kshape K)).
  { rewrite map_remove_at. f_equal. exact HU. }
  rewrite (impl_mttkrp_k_correct V v0 v1 vadd vmul vsub vopp Vring K U n R j r HnK Hj Hr Hrows).
  apply spec_mttkrp_den; auto. now apply map_nrows_length.
Qed.

(* the MTTKRP of a sum of arrays is the sum of the MTTKRPs *)
Lemma mtk_den_sum (s : shape) (Xs : list (idx -> V)) U n j r :
  mtk s (den_sum v0 vadd Xs) U n j r = SUM Xs (fun X => mtk s X U n j r).
Proof.
  unfold mttkrp_den, den_sum.
  transitivity (SUM (allsubs s) (fun i => SUM Xs (fun X => if Nat.eqb (nth n i 0) j then X i * kex n U i r else v0))).
  - apply sum_over_ext. intros i _. destruct (Nat.eqb (nth n i 0) j).
    + now rewrite (sum_over_scale_r V v0 v1 vadd vmul vsub vopp Vring).
    + symmetry. apply (sum_over_zero V v0 v1 vadd vmul vsub vopp Vring). reflexivity.
  - apply (sum_over_swap V v0 v1 vadd vmul vsub vopp Vring).
Qed.

(* sum tensor: parts = (denotation, mttkrp function, side condition), each tied; the sum holder is tied under all side conditions *)
Theorem holder_sum (s : shape) (parts : list ((idx -> V) * (list mx -> nat -> mx) * (list mx -> nat -> Prop))) :
  Forall (fun p => holder_ok s (fst (fst p)) (snd (fst p)) (snd p)) parts ->
  holder_ok s (den_sum v0 vadd (map (fun p => fst (fst p)) parts)) (mk_sum s (map (fun p => snd (fst p)) parts))
            (fun U n => Forall (fun p => snd p U n) parts).
Proof.
  intros HP U n HU Hn HG. unfold mk_sum, mttkrp_mat. apply tabmx_ext. intros j r Hj Hr.
  rewrite mtk_den_sum. unfold sum_over. rewrite !map_map. f_equal.
  apply map_ext_in. intros p Hp.
  rewrite Forall_forall in HP, HG. rewrite (HP p Hp U n HU Hn (HG p Hp)).
  unfold mttkrp_mat. now apply (mget_tabmx V v0).
Qed.

(* ---------------------------------------------------------------- the sweep over a tied holder *)
Variables (solve : mx -> mx -> mx) (scale : nat -> mx -> list V * mx).
Variables (s : shape) (X : idx -> V) (mk : list mx -> nat -> mx) (good : list mx -> nat -> Prop).
Hypothesis Hok : holder_ok s X mk good.

Local Notation mkX := (fun U m => mtkmat s X U m R).
Local Notation updC := (als_update v0 v1 vadd vmul mk solve scale R).
Local Notation updX := (als_update v0 v1 vadd vmul mkX solve scale R).
Local Notation sweepC := (als_sweep v0 v1 vadd vmul mk solve scale R).
Local Notation iterC := (als_iter v0 v1 vadd vmul mk solve scale R).

Lemma update_code_eq it st n : st_wf V R s st -> n < length s -> good (st_U st) n -> updC it st n = updX it st n.
Proof. intros [_ Hs] Hn HG. unfold als_update. now rewrite (Hok (st_U st) n Hs Hn HG). Qed.

(* code-level contract of ONE update: the holder's side condition on the current factors, LAPACK's solve returned A with
   A . Y = P for the matrices Y = ymat and P = mk(U, n) it was given, and the scaling divides the columns by the weights *)
Definition update_code_contract (it : nat) (st : als_state V) (n : nat) : Prop :=
  let U := st_U st in
  let A := solve (ymat v0 v1 vadd vmul n U R) (mk U n) in
  let wa := scale it A in
  n < length s /\ good U n /\
  (forall j t, j < nth n s 0 -> t < R ->
     SUMN R (fun r => mg A j r * mg (ymat v0 v1 vadd vmul n U R) r t) = mg (mk U n) j t) /\
  length (fst wa) = R /\ nrows (snd wa) = nth n s 0 /\
  (forall j r, nth r (fst wa) v0 * mg (snd wa) j r = mg A j r).

Fixpoint sweep_code_contract (it : nat) (dims : list nat) (st : als_state V) : Prop :=
  match dims with
  | [] => True
  | n :: ds => update_code_contract it st n /\ sweep_code_contract it ds (updC it st n)
  end.
Fixpoint iter_code_contract (k : nat) (dims : list nat) (st : als_state V) : Prop :=
  match k with
  | O => True
  | S k' => iter_code_contract k' dims st /\ sweep_code_contract k' dims (iterC k' dims st)
  end.

Lemma update_code_ok it st n : st_wf V R s st -> update_code_contract it st n ->
  update_contract V v0 v1 vadd vmul mk solve scale R X s it st n.
Proof.
  intros [Hw Hs] (Hn & HG & HS & HwR & Hrows & Hsc).
  split; [exact Hn|]. split; [|split; [exact HwR|split; [exact Hrows|exact Hsc]]].
  intros j t Hj Ht. specialize (HS j t Hj Ht).
  assert (E : mg (mk (st_U st) n) j t = mtk s X (st_U st) n j t).
  { rewrite (Hok (st_U st) n Hs Hn HG). unfold mttkrp_mat. now apply (mget_tabmx V v0). }
  rewrite <- E, <- HS.
  apply sum_n_ext. intros r Hr. unfold ymat. now rewrite (mget_tabmx V v0) by auto.
Qed.

Section Ordered.
Variable vle : V -> V -> Prop.
Hypothesis le_refl : forall x, vle x x.
Hypothesis le_trans : forall x y z, vle x y -> vle y z -> vle x z.
Hypothesis le_add_nonneg : forall x y, vle v0 y -> vle x (x + y).
Hypothesis add_nonneg : forall x y, vle v0 x -> vle v0 y -> vle v0 (x + y).
Hypothesis sq_nonneg : forall x, vle v0 (x * x).

Lemma sweep_code_ok it dims : forall st, st_wf V R s st -> sweep_code_contract it dims st ->
  sweep_contract V v0 v1 vadd vmul mk solve scale R X s it dims st.
Proof.
  induction dims as [|n ds IH]; intros st Hwf HC; cbn [sweep_contract]; [exact I|].
  destruct HC as [HC1 HC2]. pose proof (update_code_ok it st n Hwf HC1) as U1. split; [exact U1|].
  apply IH; [|exact HC2].
  exact (proj1 (update_wf_den V v0 v1 vadd vmul vsub vopp Vring mk solve scale R X s it st n Hwf U1)).
Qed.

Lemma iter_code_ok dims st : st_wf V R s st -> forall k, iter_code_contract k dims st ->
  iter_contract V v0 v1 vadd vmul mk solve scale R X s k dims st /\ st_wf V R s (iterC k dims st).
Proof.
  intros Hwf. induction k as [|k IH]; intros HC; cbn [iter_contract als_iter]; [split; [exact I|exact Hwf]|].
  destruct HC as [HC1 HC2]. destruct (IH HC1) as [I1 W1].
  pose proof (sweep_code_ok k dims _ W1 HC2) as S1. split; [split; [exact I1|exact S1]|].
  exact (proj1 (sweep_monotone V v0 v1 vadd vmul vsub vopp Vring vle le_refl le_trans le_add_nonneg add_nonneg sq_nonneg
                  mk solve scale R X s k dims _ W1 S1)).
Qed.

(* monotone residual with the holder's own mttkrp algorithm inside the sweep *)
Theorem code_monotone dims st k : st_wf V R s st -> iter_code_contract (S k) dims st ->
  st_wf V R s (iterC (S k) dims st) /\
  vle (resid_den v0 vadd vmul vsub s X (st_den V v0 v1 vadd vmul (iterC (S k) dims st)))
      (resid_den v0 vadd vmul vsub s X (st_den V v0 v1 vadd vmul (iterC k dims st))).
Proof.
  intros Hwf HC.
  exact (iter_monotone V v0 v1 vadd vmul vsub vopp Vring vle le_refl le_trans le_add_nonneg add_nonneg sq_nonneg
           mk solve scale R X s dims st k Hwf (proj1 (iter_code_ok dims st Hwf (S k) HC))).
Qed.
End Ordered.

(* the factor updated last satisfies its normal equations w.r.t. the denotation of the data *)
Theorem code_normal_eq it st n : st_wf V R s st -> update_code_contract it st n ->
  normal_eq v0 v1 vadd vmul s X n (st_U (updC it st n)) R
    (fun j r => nth r (st_w (updC it st n)) v0 * mg (nth n (st_U (updC it st n)) []) j r).
Proof.
  intros Hwf HC.
  exact (last_update_normal_eq V v0 v1 vadd vmul mk solve scale R X s it st n Hwf (update_code_ok it st n Hwf HC)).
Qed.

(* the reported residual: computed from the matrix the holder's mttkrp RETURNED for the mode updated last (saved in st_P), the new
   factor and weights and ktensor.norm's own Gram formula = ||X - M||^2 of the new state's model *)
Theorem code_reported_residual it st n : st_wf V R s st -> n < length s -> good (st_U st) n ->
  length (st_w (updC it st n)) = R -> nrows (nth n (st_U (updC it st n)) []) = nth n s 0 ->
  let st' := updC it st n in
  let ip := iprod_saved v0 vadd vmul R (nth n s 0) (st_w st') (nth n (st_U st') []) (fun j r => mg (st_P st') j r) in
  vsub (vadd (normsq_den v0 vadd vmul s X) (knormsq_code V v0 vadd vmul (st_model st'))) (vadd ip ip)
  = resid_den v0 vadd vmul vsub s X (st_den V v0 v1 vadd vmul st').
Proof.
  intros Hwf Hn HG. rewrite (update_code_eq it st n Hwf Hn HG). intros HwR Hrows.
  exact (reported_residual_code V v0 v1 vadd vmul vsub vopp Vring solve scale R X s it st n Hwf Hn HwR Hrows).
Qed.

End Holders.
