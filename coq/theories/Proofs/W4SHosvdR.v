(* Proofs/W4SHosvdR.v — C10_rank_choice over the GENERATED mode loop of hosvd (Gen/GenHosvd.v), exact real arithmetic:
   one pass of the generated loop body for a mode whose entry of `ranks` is 0 stores r = the number of leading columns kept,
   the discarded eigenvalue energy is <= the budget, no smaller count meets the budget, and the factor is V[:, pi[0:r]]. *)
From Coq Require Import String List Arith Bool Lia Reals Lra.
From PV Require Import Np.NpR Model.W4SPrelude Gen.GenHosvd Model.C10Tucker Proofs.C10Proofs Proofs.W4SHosvd.
Import ListNotations.
Local Open Scope nat_scope.

Definition Rleb (x y : R) : bool := negb (Rltb y x).        (* x <= y *)

Lemma lt_of_Rleb a b : lt_of Rleb a b = Rltb a b.
Proof. unfold lt_of, Rleb. apply negb_involutive. Qed.

Lemma auto_rank_ext {V} (v0 : V) vadd (f g : V -> V -> bool) :
  (forall a b, f a b = g a b) -> forall eig t, auto_rank v0 vadd f eig t = auto_rank v0 vadd g eig t.
Proof.
  intros H eig t. unfold auto_rank, last_above, where_gt. erewrite filter_ext; [reflexivity|]. intros a. apply H.
Qed.

Lemma sk_set_nth_error_same {A} (l l' : list A) i v : sk_set l i v = Some l' -> nth_error l' i = Some v.
Proof.
  unfold sk_set. destruct (i <? length l) eqn:E; [|discriminate]. apply Nat.ltb_lt in E. intros H. inversion H.
  rewrite nth_error_app2; rewrite firstn_length; [|lia]. replace (i - Nat.min i (length l)) with 0 by lia. reflexivity.
Qed.

Section RankChoice.
Variables T_Tensor T_Mat : Type.
Variable k_unfold : T_Tensor -> nat -> T_Mat.
Variable k_gram : T_Mat -> T_Mat.
Variable k_eigh : T_Mat -> list R * T_Mat.
Variable k_argsort_desc : list R -> list nat.
Variable k_take : list R -> list nat -> list R.
Variable k_select_cols : T_Mat -> list nat -> T_Mat.
Variable k_shrink : T_Tensor -> list T_Mat -> nat -> T_Tensor.

Notation gloopR := (GenHosvd.hosvd_modes_loop1 R T_Tensor T_Mat Rleb 0%R Rplus k_unfold k_gram k_eigh k_argsort_desc k_take
  k_select_cols k_shrink).
Notation spectrum := (mode_spectrum R T_Tensor T_Mat k_unfold k_gram k_eigh k_argsort_desc k_take).

Theorem gen_rank_choice : forall (t : R) sq k Y fm ranks Y' fm' ranks',
  gloopR t sq [k] (Y, fm, ranks) = Some (Y', fm', ranks') ->
  nth_error ranks k = Some 0 ->
  let '(eig, p, Vm) := spectrum Y k in
  Forall (fun x => 0 <= x)%R eig -> (0 <= t)%R ->
  exists r, nth_error ranks' k = Some r /\ 0 < r <= length eig /\ (sumR (skipn r eig) <= t)%R /\
            (forall r', r' < r -> (t < sumR (skipn r' eig))%R) /\
            nth_error fm' k = Some (k_select_cols Vm (firstn r p)) /\
            (length p = length eig -> length (firstn r p) = r).
Proof.
  intros t sq k Y fm ranks Y' fm' ranks' H Hrk.
  rewrite hosvd_loop_bridge in H. cbn [h_loop] in H.
  destruct (spectrum Y k) as [[eig p] Vm]. intros Hpos Ht.
  unfold h_rank_step in H. rewrite Hrk in H. cbn [Nat.eqb] in H.
  rewrite (auto_rank_ext 0%R Rplus (lt_of Rleb) Rltb lt_of_Rleb) in H.
  destruct (auto_rank 0%R Rplus Rltb eig t) as [r|] eqn:Er; [|discriminate].
  destruct (sk_set ranks k r) as [ranks1|] eqn:Es; [|discriminate].
  rewrite (sk_set_nth_error_same _ _ _ _ Es) in H.
  destruct (sk_set fm k _) as [fm1|] eqn:Ef; [|discriminate].
  inversion H. subst fm1 ranks1.
  destruct (rank_choice eig t r Hpos Ht Er) as (Hr & Hlen & Hsum & Hmin).
  exists r. split; [exact (sk_set_nth_error_same _ _ _ _ Es)|]. split; [exact Hr|]. split; [exact Hsum|]. split; [exact Hmin|].
  split; [exact (sk_set_nth_error_same _ _ _ _ Ef)|]. intros Hl. apply (Hlen _ p Hl).
Qed.
End RankChoice.
