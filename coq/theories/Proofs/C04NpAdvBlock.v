(* Proofs/C04NpAdvBlock.v — C04, wave 5: numpy's advanced indexing and the outer product COINCIDE on keys whose advanced elements are
   ONE index list with integers directly next to it (an adjacent advanced block), every other element a slice: the second half of the
   exactness of the A-16 trigger (the first half, no integers, is C04_np_adv_single_list). *)
From Coq Require Import List Arith ZArith Lia Bool.
From PV Require Import Base.Index Np.Array Model.Sparse Model.Harness Model.C04Model Model.C04Harness Model.C04Mat Model.C04Extra
  Proofs.C04Dense Proofs.C04Sparse Proofs.C04NpAdvExact.
Import ListNotations.

Definition sing (k : nat) : list nat := [k].
Definition ints_fl (I : list nat) : list (bool * list nat) := map (fun k => (true, [k])) I.

Lemma cartF_sing I X : cartF (map sing I ++ X) = map (app I) (cartF X).
Proof.
  induction I as [|k I IH]; cbn [map app cartF].
  - rewrite <- (map_id (cartF X)) at 1. apply map_ext. reflexivity.
  - rewrite IH. rewrite flat_map_map. cbn [sing map]. clear IH.
    induction (cartF X) as [|t T IHT]; cbn; [reflexivity|]. now rewrite IHT.
Qed.

Lemma adv_build_ints I rest j sv : adv_build (ints_fl I ++ rest) j sv = I ++ adv_build rest j sv.
Proof. induction I as [|k I IH]; cbn [ints_fl map app adv_build length Nat.eqb nth]; [reflexivity|]. f_equal. exact IH. Qed.

Lemma np_block_positions (A B : list (list nat)) (I1 I2 l : list nat) :
  map (rebuild (length A) (slices_fl A ++ ints_fl I1 ++ (true, l) :: ints_fl I2 ++ slices_fl B)) (cartF (A ++ seq 0 (length l) :: B))
  = cartF (A ++ map sing I1 ++ l :: map sing I2 ++ B).
Proof.
  induction A as [|a A IH].
  - cbn [app length slices_fl map]. rewrite cartF_sing. cbn [cartF]. rewrite cartF_sing.
    rewrite flat_map_map. rewrite !map_flat_map. apply flat_map_ext_in'. intros t Ht.
    rewrite !map_map. rewrite <- (map_map (fun x => x :: I2 ++ t) (app I1)). rewrite <- map_nth_sel. rewrite map_map.
    apply map_ext. intros j. unfold rebuild. cbn [nth firstn skipn app].
    rewrite adv_build_ints. cbn [adv_build]. rewrite adv_build_ints. fold (slices_fl B).
    rewrite adv_build_slices by (now apply in_cartF_len). reflexivity.
  - cbn [app length cartF]. rewrite map_flat_map. rewrite <- IH. rewrite flat_map_map. apply flat_map_ext_in'. intros t Ht.
    rewrite map_map. apply map_ext. intros x. unfold rebuild. cbn [slices_fl map app nth firstn skipn adv_build]. reflexivity.
Qed.

Definition block_fl (I1 I2 l : list nat) : list (bool * list nat) := ints_fl I1 ++ (true, l) :: ints_fl I2.

Lemma combine_rep {X} (b : bool) (L : list X) : combine (repeat b (length L)) L = map (pair b) L.
Proof. induction L; cbn; [reflexivity|]. now f_equal. Qed.

Lemma combine_app_len {X Y} (a1 a2 : list X) (b1 b2 : list Y) : length a1 = length b1 ->
  combine (a1 ++ a2) (b1 ++ b2) = combine a1 b1 ++ combine a2 b2.
Proof. revert b1; induction a1 as [|x a1 IH]; intros [|y b1] H; cbn in *; try discriminate; [reflexivity|]. f_equal. apply IH. lia. Qed.

Lemma combine_block (A B : list (list nat)) I1 I2 l :
  combine (repeat false (length A) ++ repeat true (length I1 + 1 + length I2) ++ repeat false (length B))
          (A ++ map sing I1 ++ l :: map sing I2 ++ B)
  = slices_fl A ++ block_fl I1 I2 l ++ slices_fl B.
Proof.
  rewrite combine_app_len by (now rewrite repeat_length). rewrite combine_rep. f_equal.
  replace (map sing I1 ++ l :: map sing I2 ++ B) with ((map sing I1 ++ l :: map sing I2) ++ B) by (rewrite <- app_assoc; reflexivity).
  rewrite combine_app_len by (rewrite repeat_length, app_length; cbn [length]; rewrite !map_length; lia).
  rewrite combine_rep. f_equal.
  replace (length I1 + 1 + length I2)%nat with (length I1 + S (length I2))%nat by lia. rewrite repeat_app.
  rewrite combine_app_len by (now rewrite repeat_length, map_length). unfold block_fl, ints_fl. f_equal.
  - rewrite <- (map_length sing I1), combine_rep, map_map. reflexivity.
  - cbn [repeat combine]. f_equal. rewrite <- (map_length sing I2), combine_rep, map_map. reflexivity.
Qed.

Lemma filter_fst_slices X : filter (fun x : bool * list nat => fst x) (slices_fl X) = [].
Proof. induction X as [|x X IH]; [reflexivity|]. exact IH. Qed.
Lemma filter_fst_ints I : filter (fun x : bool * list nat => fst x) (ints_fl I) = ints_fl I.
Proof. induction I as [|k I IH]; [reflexivity|]. cbn [ints_fl map filter fst]. f_equal. exact IH. Qed.
Lemma filter_neg_ints I : filter (fun x : bool * list nat => negb (fst x)) (ints_fl I) = [].
Proof. induction I as [|k I IH]; [reflexivity|]. exact IH. Qed.
Lemma filter_neg_slices X : map snd (filter (fun x : bool * list nat => negb (fst x)) (slices_fl X)) = X.
Proof. induction X as [|x X IH]; [reflexivity|]. cbn [slices_fl map filter fst negb snd]. f_equal. exact IH. Qed.

Lemma lead_all {X} (f : X -> bool) (P Q : list X) : forallb f P = true -> lead_len f (P ++ Q) = (length P + lead_len f Q)%nat.
Proof. induction P as [|x P IH]; intros H; cbn in *; [reflexivity|]. apply andb_true_iff in H as [H1 H2]. rewrite H1. f_equal. now apply IH. Qed.

Lemma block_all_adv I1 I2 l : forallb (fun x : bool * list nat => fst x) (block_fl I1 I2 l) = true.
Proof.
  unfold block_fl. rewrite forallb_app. cbn [forallb fst andb].
  assert (H : forall I, forallb (fun x : bool * list nat => fst x) (ints_fl I) = true) by (induction I; cbn; auto).
  now rewrite !H.
Qed.

Lemma block_len I1 I2 l : length (block_fl I1 I2 l) = (length I1 + 1 + length I2)%nat.
Proof. unfold block_fl, ints_fl. rewrite app_length. cbn [length]. rewrite !map_length. lia. Qed.

Lemma lead_fst_slices B : lead_len (fun x : bool * list nat => fst x) (slices_fl B) = 0%nat.
Proof. destruct B; reflexivity. Qed.

Theorem np_adv_list_with_ints (s : shape) (es : list kelem) ls (A B : list (list nat)) (I1 I2 l : list nat) :
  s <> [] -> region_lists s es = Some ls -> l <> [] ->
  map is_adv es = repeat false (length A) ++ repeat true (length I1 + 1 + length I2) ++ repeat false (length B) ->
  map snd ls = A ++ map sing I1 ++ l :: map sing I2 ++ B ->
  map fst ls = repeat true (length A) ++ repeat false (length I1) ++ true :: repeat false (length I2) ++ repeat true (length B) ->
  np_adv_positions s es = Some (kept_shape ls, cartF (map snd ls)).
Proof.
  intros Hs Hrl Hl Hadv Hsnd Hfst. unfold np_adv_positions. destruct s as [|d s']; [congruence|]. rewrite Hrl. cbv zeta.
  rewrite Hadv, Hsnd, combine_block.
  assert (Hadvl : map snd (filter (fun x : bool * list nat => fst x) (slices_fl A ++ block_fl I1 I2 l ++ slices_fl B))
                  = map sing I1 ++ l :: map sing I2).
  { rewrite !filter_app, !filter_fst_slices, app_nil_r. cbn [app]. unfold block_fl. rewrite filter_app. cbn [filter fst].
    rewrite !filter_fst_ints, map_app. cbn [map snd]. unfold ints_fl. rewrite !map_map. reflexivity. }
  rewrite Hadvl.
  assert (HL : fold_right Nat.max 0%nat (map (@length nat) (map sing I1 ++ l :: map sing I2)) = length l).
  { assert (G : forall I, (fold_right Nat.max 0 (map (@length nat) (map sing I)) <= 1)%nat) by (induction I as [|k I IHI]; cbn [map fold_right sing length]; [lia|]; lia).
    rewrite map_app, fold_right_app. cbn [map fold_right]. destruct l as [|x l]; [congruence|]. cbn [length].
    pose proof (G I2). set (m2 := fold_right Nat.max 0%nat (map (@length nat) (map sing I2))) in *.
    assert (G1 : forall I a, (1 <= a)%nat -> fold_right Nat.max a (map (@length nat) (map sing I)) = a) by (induction I as [|k I IHI]; intros a Ha; cbn [map fold_right sing length]; auto; rewrite IHI by lia; lia).
    rewrite G1 by lia. lia. }
  rewrite HL.
  assert (Hok : forallb (fun l0 : list nat => Nat.eqb (length l0) (length l) || Nat.eqb (length l0) 1) (map sing I1 ++ l :: map sing I2) = true).
  { rewrite forallb_app. cbn [forallb]. rewrite Nat.eqb_refl. cbn [orb].
    assert (G : forall I, forallb (fun l0 : list nat => Nat.eqb (length l0) (length l) || Nat.eqb (length l0) 1) (map sing I) = true)
      by (induction I; cbn; auto; now rewrite orb_true_r).
    now rewrite !G. }
  rewrite Hok.
  assert (Hnpre : lead_len (fun x : bool * list nat => negb (fst x)) (slices_fl A ++ block_fl I1 I2 l ++ slices_fl B) = length A).
  { apply lead_nonadv. unfold block_fl. destruct I1; cbn; exact I. }
  rewrite Hnpre, skipn_slices.
  rewrite (lead_all _ _ _ (block_all_adv I1 I2 l)), lead_fst_slices, Nat.add_0_r.
  rewrite skipn_app_len, forallb_slices.
  assert (Hsl : map snd (filter (fun x : bool * list nat => negb (fst x)) (slices_fl A ++ block_fl I1 I2 l ++ slices_fl B)) = A ++ B).
  { rewrite !filter_app, !map_app, !filter_neg_slices. unfold block_fl. rewrite filter_app. cbn [filter fst negb]. rewrite !filter_neg_ints. reflexivity. }
  rewrite Hsl, firstn_app_len, skipn_app_len. f_equal. f_equal.
  - unfold kept_shape. rewrite !map_app. cbn [map]. rewrite seq_length.
    assert (Hc : ls = combine (map fst ls) (map snd ls)).
    { clear. induction ls as [|[b x] ls IH]; cbn; [reflexivity|]. now f_equal. }
    rewrite Hc, Hfst, Hsnd.
    rewrite combine_app_len by (now rewrite repeat_length). rewrite combine_rep.
    replace (map sing I1 ++ l :: map sing I2 ++ B) with (map sing I1 ++ (l :: map sing I2 ++ B)) by reflexivity.
    rewrite combine_app_len by (now rewrite repeat_length, map_length).
    rewrite <- (map_length sing I1) at 1. rewrite combine_rep. cbn [combine].
    rewrite combine_app_len by (now rewrite repeat_length, map_length).
    rewrite <- (map_length sing I2) at 1. rewrite !combine_rep.
    rewrite !filter_app. cbn [filter fst].
    assert (Ft : forall (X : list (list nat)), filter (fun x : bool * list nat => fst x) (map (pair true) X) = map (pair true) X)
      by (induction X as [|x X IHX]; cbn; auto; now f_equal).
    assert (Ff : forall (X : list (list nat)), filter (fun x : bool * list nat => fst x) (map (pair false) X) = [])
      by (induction X as [|x X IHX]; cbn; auto).
    rewrite !filter_app, !Ft, !Ff. cbn [app]. rewrite !map_app. cbn [map snd]. rewrite !map_map. cbn [snd app]. reflexivity.
  - unfold block_fl. rewrite <- app_assoc. cbn [app]. apply (np_block_positions A B I1 I2 l).
Qed.

Example np_adv_list_with_ints_example :
  np_adv_positions [3; 4; 4; 5] [KSlice None None (Some 2%Z); KInt 1; KList [3; 0]%Z; KSlice None None None]
  = Some ([2; 2; 5], cartF [[0; 2]; [1]; [3; 0]; [0; 1; 2; 3; 4]]).
Proof. vm_compute. reflexivity. Qed.
