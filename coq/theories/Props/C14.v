(* Props/C14.v — leading mode-n vectors (nvecs). Only statements, `exact`, Print Assumptions.
   Partial by design (DESIGN §C14): the eigen solvers are certificate-checked oracles in the correspondence. *)
From Coq Require Import List Arith Bool Reals Ring Permutation Sorted.
From PV Require Import Base.Index Base.Sum Np.Array Model.Sparse Model.Repr Np.NpR Model.C14Nvecs Proofs.C14Sums Proofs.C14Post.
Import ListNotations.

Section C14_ring.
Variable V : Type.
Variables (v0 v1 : V) (vadd vmul vsub : V -> V -> V) (vopp : V -> V).
Hypothesis Vring : ring_theory v0 v1 vadd vmul vsub vopp (@eq V).

(* dense: (Xn Xn^T)[a,b] = sum_{i : rest} X(a,i) X(b,i)  — for every shape, mode and ring *)
Theorem C14_gram_dense : forall (X : dense V) (n a b : nat),
  a < nth n (dshape X) 0 -> b < nth n (dshape X) 0 ->
  mget v0 (gram_dense_impl v0 vadd vmul X n) a b = gram_spec v0 vadd vmul (dshape X) (den_dense v0 X) n a b.
Proof. exact (gram_dense V v0 vadd vmul). Qed.

(* Kruskal: (A_n (l l^T o o_{m<>n} A_m^T A_m) A_n^T)[a,b] = the same function of the denotation den_k *)
Theorem C14_gram_kruskal : forall (K : ktensor V) (n a b : nat),
  n < length (kfactors K) -> a < nrows (nth n (kfactors K) []) -> b < nrows (nth n (kfactors K) []) ->
  mget v0 (gram_k_impl v0 vadd vmul K n) a b = gram_spec v0 vadd vmul (kshape K) (den_k v0 v1 vadd vmul K) n a b.
Proof. exact (gram_kruskal V v0 v1 vadd vmul vsub vopp Vring). Qed.
End C14_ring.
Print Assumptions C14_gram_dense.
Print Assumptions C14_gram_kruskal.

Example C14_example_gram :
  gram_k_impl 0%nat Nat.add Nat.mul (mkK [2; 1] [[[1; 0]; [1; 2]]; [[3; 1]; [0; 1]; [1; 0]]]) 0 = [[40; 52]; [52; 72]]
  /\ gram_dense_impl 0%nat Nat.add Nat.mul (mkDense [2; 3] [6; 8; 0; 2; 2; 2]) 0 = [[40; 52]; [52; 72]].
Proof. split; reflexivity. Qed.

Local Open Scope R_scope.
(* selection: for ANY solver output (w, columns) the code returns the columns of the r largest |w| in decreasing order *)
Theorem C14_postprocess : forall (w : list R) (cols : list (list R)) (r : nat),
  let p := argsort_desc_abs Rabs Rltb w in
  Permutation p (seq 0 (length w)) /\
  StronglySorted (desc_abs w) p /\
  (forall k k', In k (firstn r p) -> In k' (skipn r p) -> Rabs (nth k' w 0) <= Rabs (nth k w 0)) /\
  postprocess 0 Rabs Ropp Rltb w cols r false = map (fun k => nth k cols []) (firstn r p) /\
  postprocess 0 Rabs Ropp Rltb w cols r true = map (fun k => flip_col 0 Rabs Ropp Rltb (nth k cols [])) (firstn r p) /\
  length (postprocess 0 Rabs Ropp Rltb w cols r true) = Nat.min r (length w).
Proof. exact postprocess_spec. Qed.
Print Assumptions C14_postprocess.

(* sign rule: the entry of largest magnitude of a flipped column is non-negative and dominates all entries *)
Theorem C14_sign_rule : forall c : list R,
  let c' := flip_col 0 Rabs Ropp Rltb c in
  let i := argmax_abs Rabs Rltb c in
  (c' = c \/ c' = map Ropp c) /\ 0 <= nth i c' 0 /\ forall j, Rabs (nth j c' 0) <= nth i c' 0.
Proof. exact flip_col_spec. Qed.
Print Assumptions C14_sign_rule.

Example C14_example :
  argsort_desc_abs Rabs Rltb [1; -5; 3] = [1; 2; 0]%nat /\ flip_col 0 Rabs Ropp Rltb [1; -2] = [-1; 2].
Proof. exact postprocess_example. Qed.
