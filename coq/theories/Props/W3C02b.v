(* Props/W3C02b.v — partial-MTTKRP contractions mttv_left / mttv_mid used by tensor.mttkrps (property C02), stated over
   Gen/GenKernels3.v as regenerated from /repo/pyttb/tensor.py at run time (mttv_mid calls the generated khatrirao of
   Gen/GenKernels.v).  Only statements, `exact`, Print Assumptions. *)
From Coq Require Import List ZArith Bool.
From PV Require Import Np.NpZ Np.NpZ2 Np.NpZ3 Np.NpZ3c Gen.GenKernels Gen.GenKernels3 Proofs.W3Kernels3.
Import ListNotations.
Local Open Scope Z_scope.

Theorem C02_gen_mttv_left_bridge : forall W U1 : mat, rows_have U1 (np_ncols U1) = true -> mttv_left W U1 = H_mttv_left W U1.
Proof. exact mttv_left_bridge. Qed.
Print Assumptions C02_gen_mttv_left_bridge.

Theorem C02_gen_mttv_mid_bridge : forall (W : mat) (Us : list mat), mttv_mid W Us = H_mttv_mid W Us.
Proof. exact mttv_mid_bridge. Qed.
Print Assumptions C02_gen_mttv_mid_bridge.

(* mttv_left contracts the leading (fastest) mode of the partial result W (n1 * n2 rows, component columns) with the factor
   U1 (n1 rows): out[b][j] = sum_a W[a + n1 * b][j] * U1[a][j] *)
Theorem C02_gen_mttv_left_entries : forall (W U1 : mat) (n2 : nat),
  U1 <> [] -> rows_have U1 (np_ncols U1) = true -> rows_have W (np_ncols U1) = true -> np_ncols U1 <> 0 ->
  zlen W = np_nrows U1 * Z.of_nat n2 ->
  exists out, mttv_left W U1 = Ok out /\ length out = n2 /\
    forall b, (b < n2)%nat -> length (nth b out []) = Z.to_nat (np_ncols U1) /\
      forall j, (j < Z.to_nat (np_ncols U1))%nat ->
        nth j (nth b out []) 0 = left_entry W U1 (Z.of_nat b) (Z.of_nat j).
Proof. exact mttv_left_entries. Qed.
Print Assumptions C02_gen_mttv_left_entries.

Example C02_gen_mttv_left_example :
  mttv_left [[1; 2]; [3; 4]; [5; 6]; [7; 8]] [[1; 10]; [2; 20]] = Ok [[1 * 1 + 3 * 2; 2 * 10 + 4 * 20]; [5 * 1 + 7 * 2; 6 * 10 + 8 * 20]].
Proof. reflexivity. Qed.

(* mttv_mid contracts the trailing modes with K = khatrirao(U_mid, reverse) (n2 rows): out[a][j] = sum_b W[a + n1 * b][j] * K[b][j] *)
Theorem C02_gen_mttv_mid_entries : forall (W : mat) (Us : list mat) (K : mat) (n1 : nat),
  Us <> [] -> khatrirao Us true = Ok K -> K <> [] -> rows_have W (np_ncols K) = true ->
  zlen W = Z.of_nat n1 * np_nrows K ->
  exists out, mttv_mid W Us = Ok out /\ length out = n1 /\
    forall a, (a < n1)%nat -> length (nth a out []) = Z.to_nat (np_ncols K) /\
      forall j, (j < Z.to_nat (np_ncols K))%nat ->
        nth j (nth a out []) 0 = mid_entry W K (Z.of_nat n1) (Z.of_nat a) (Z.of_nat j).
Proof. exact mttv_mid_entries. Qed.
Print Assumptions C02_gen_mttv_mid_entries.

Theorem C02_gen_mttv_mid_none : forall W : mat, mttv_mid W [] = Ok W.
Proof. exact mttv_mid_none. Qed.
Print Assumptions C02_gen_mttv_mid_none.

Example C02_gen_mttv_mid_example :
  mttv_mid [[1; 2]; [3; 4]; [5; 6]; [7; 8]] [[[1; 10]; [2; 20]]] = Ok [[1 * 1 + 5 * 2; 2 * 10 + 6 * 20]; [3 * 1 + 7 * 2; 4 * 10 + 8 * 20]].
Proof. reflexivity. Qed.
