(* Proofs/C10Ttm.v — mode-n products along DIFFERENT modes commute (ring-generic, on denotations): the core
   X x_1 U_1^T ... x_d U_d^T does not depend on the order in which hosvd (dimorder, sequential shrink) or tucker_als
   applies the factors. *)
From Coq Require Import List Arith Lia Bool Ring.
From PV Require Import Base.Index Base.Sum Np.Array Model.Sparse Model.Repr Model.C10Tucker.
Import ListNotations.

Lemma set_nth_cons_S n b x (i : list nat) : set_nth (S n) b (x :: i) = x :: set_nth n b i.
Proof. reflexivity. Qed.

Lemma nth_set_nth n : forall (i : list nat) b k, n < length i ->
  nth k (set_nth n b i) 0 = if Nat.eqb k n then b else nth k i 0.
Proof.
  induction n as [|n IH]; intros [|x i] b k H; cbn in H; try lia.
  - destruct k; reflexivity.
  - rewrite set_nth_cons_S. destruct k as [|k]; [reflexivity|]. cbn [nth]. rewrite IH by lia. reflexivity.
Qed.

Lemma length_set_nth n : forall (i : list nat) b, n < length i -> length (set_nth n b i) = length i.
Proof.
  induction n as [|n IH]; intros [|x i] b H; cbn in H; try lia.
  - reflexivity.
  - rewrite set_nth_cons_S. cbn. now rewrite IH by lia.
Qed.

Lemma set_nth_comm m n a b (i : list nat) : m <> n -> m < length i -> n < length i ->
  set_nth m a (set_nth n b i) = set_nth n b (set_nth m a i).
Proof.
  intros Hne Hm Hn. apply (nth_ext _ _ 0 0).
  - rewrite !length_set_nth; auto; rewrite length_set_nth; auto.
  - intros k _. rewrite !nth_set_nth; auto; try (rewrite length_set_nth; auto).
    destruct (Nat.eqb_spec k m), (Nat.eqb_spec k n); auto. lia.
Qed.

Section TtmComm.
Variable V : Type.
Variables (v0 v1 : V) (vadd vmul vsub : V -> V -> V) (vopp : V -> V).
Hypothesis Vring : ring_theory v0 v1 vadd vmul vsub vopp (@eq V).
Add Ring Vr10 : Vring.

Notation ttmd := (ttm_den v0 vadd vmul).

Theorem ttm_den_comm (X : idx -> V) (Im In m n : nat) (A B : list (list V)) (i : idx) :
  m <> n -> m < length i -> n < length i ->
  ttmd (ttmd X Im m A) In n B i = ttmd (ttmd X In n B) Im m A i.
Proof.
  intros Hne Hm Hn. unfold ttm_den.
  rewrite (sum_n_ext _ _ _ _ _ (fun b => sum_n v0 vadd Im (fun a =>
     vmul (vmul (mget v0 B (nth n i 0) b) (mget v0 A (nth m i 0) a)) (X (set_nth m a (set_nth n b i)))))).
  2:{ intros b _. unfold sum_n. rewrite <- (sum_over_scale_l V v0 v1 vadd vmul vsub vopp Vring).
      apply sum_over_ext. intros a _. rewrite nth_set_nth by auto.
      destruct (Nat.eqb_spec m n); [contradiction|]. ring. }
  rewrite (sum_n_ext V v0 vadd Im _ (fun a => sum_n v0 vadd In (fun b =>
     vmul (vmul (mget v0 B (nth n i 0) b) (mget v0 A (nth m i 0) a)) (X (set_nth m a (set_nth n b i)))))).
  2:{ intros a _. unfold sum_n. rewrite <- (sum_over_scale_l V v0 v1 vadd vmul vsub vopp Vring).
      apply sum_over_ext. intros b _. rewrite nth_set_nth by auto.
      destruct (Nat.eqb_spec n m); [exfalso; auto|]. rewrite (set_nth_comm m n a b i) by auto. ring. }
  unfold sum_n. apply (sum_over_swap V v0 v1 vadd vmul vsub vopp Vring).
Qed.
End TtmComm.
