(* Proofs/C06Ctor.v — wave 4: the aggregating constructors are independent of the ORDER OF THEIR INPUT.
   sptenmat.__init__ (copy=True; Model/C01Unique.v stm_ctor = gather_wrap_dims, the two bound checks, then stm_norm = np.unique rows +
   accumarray(sum) + drop zeros) and sptenmat.from_array of a scipy matrix (Model/C01Coo.v from_array_coo): two lists of triples that
   are re-orderings of each other (repeated, cancelling and zero triples allowed) give LITERALLY the same object — accepted or
   refused alike.  Well-formedness of that object for arbitrary input is C01's stm_ctor_converse / from_array_coo_correct
   (re-exported in Props/C06W4.v).  Values: any commutative ring with decidable zero. *)
From Coq Require Import List Arith Lia Bool Permutation Ring.
From PV Require Import Base.Index Base.Perm Base.Sum Np.Array Model.Sparse Model.Repr Model.C07Ops Model.C01Conv
                       Model.C01Unique Model.C01Coo Proofs.C01Unique Proofs.C01Converse.
Import ListNotations.

Lemma forallb_perm {A} (f : A -> bool) l l' : Permutation l l' -> forallb f l = forallb f l'.
Proof.
  induction 1 as [|x l l' _ IH|x y l|l l' l'' _ IH1 _ IH2]; cbn; auto.
  - now rewrite IH.
  - destruct (f x), (f y); auto.
  - congruence.
Qed.

Section C06Ctor.
Variable V : Type.
Variables (v0 v1 : V) (vadd vmul vsub : V -> V -> V) (vopp : V -> V) (isz : V -> bool).
Hypothesis Vring : ring_theory v0 v1 vadd vmul vsub vopp (@eq V).
Hypothesis isz_spec : forall v, isz v = true <-> v = v0.
Notation ent := (idx * V)%type.
Notation keys := (map (@fst idx V)).
Notation stmn := (stm_norm vadd isz).
Notation ctor := (stm_ctor vadd isz).
Notation vsum := (vsum_at v0 vadd).

(* a strictly sorted list of (row, value) pairs is determined by its set of pairs *)
Lemma sorted_perm_eq (l l' : list ent) : ssorted (keys l) -> ssorted (keys l') -> Permutation l l' -> l = l'.
Proof.
  revert l'. induction l as [|e r IH]; intros l' S S' P.
  - apply Permutation_nil in P. now subst.
  - destruct l' as [|e' r']; [apply Permutation_sym, Permutation_nil in P; discriminate|].
    cbn [map ssorted] in S, S'. destruct S as [F S], S' as [F' S'].
    assert (E : e = e').
    { assert (H1 : In e (e' :: r')) by (eapply Permutation_in; [exact P|now left]).
      assert (H2 : In e' (e :: r)) by (eapply Permutation_in; [symmetry; exact P|now left]).
      destruct H1 as [H1|H1]; [now symmetry|]. destruct H2 as [H2|H2]; [exact H2|].
      rewrite Forall_forall in F, F'.
      pose proof (F (fst e') (in_map fst _ _ H2)) as A. pose proof (F' (fst e) (in_map fst _ _ H1)) as B.
      apply idx_ltb_asym in A. congruence. }
    subst e'. f_equal. apply IH; auto. now apply Permutation_cons_inv in P.
Qed.

Lemma entries_stmn (M : sptenmat V) : stm_entries V (stmn M) = norm_triples vadd isz (stm_subs M) (stm_vals M).
Proof. unfold stm_entries, stm_norm. cbn [stm_subs stm_vals]. apply combine_fst_snd. Qed.

(* np.unique + accumarray + nonzero of two re-orderings of one list of triples: the same triples in the same (sorted) order *)
Theorem stm_norm_perm subs vals subs' vals' r c ts k :
  length subs = length vals -> length subs' = length vals' -> Forall (fun rc => length rc = k) subs ->
  Permutation (combine subs vals) (combine subs' vals') ->
  stmn (mkSTM subs vals r c ts) = stmn (mkSTM subs' vals' r c ts).
Proof.
  intros HL HL' Hk P.
  assert (Ps : Permutation subs subs').
  { rewrite <- (keys_combine V subs vals HL), <- (keys_combine V subs' vals' HL'). now apply Permutation_map. }
  assert (Hk' : Forall (fun rc => length rc = k) subs').
  { rewrite Forall_forall in *. intros rc Hrc. apply Hk. eapply Permutation_in; [symmetry; exact Ps|exact Hrc]. }
  set (M := mkSTM subs vals r c ts). set (M' := mkSTM subs' vals' r c ts).
  destruct (stm_norm_correct V v0 v1 vadd vmul vsub vopp isz Vring isz_spec M k HL Hk)
    as (_ & _ & _ & L1 & S1 & N1 & Z1 & _ & D1 & _).
  destruct (stm_norm_correct V v0 v1 vadd vmul vsub vopp isz Vring isz_spec M' k HL' Hk')
    as (_ & _ & _ & L2 & S2 & N2 & Z2 & _ & D2 & _).
  assert (Dq : forall rc, den_sp v0 (stm_sp (stmn M)) rc = den_sp v0 (stm_sp (stmn M')) rc).
  { intros rc. rewrite D1, D2. apply (vsum_perm V v0 v1 vadd vmul vsub vopp Vring). exact P. }
  (* membership of a pair in the normalised list, by the denotation *)
  assert (Hin : forall (X : sptenmat V), length (stm_subs X) = length (stm_vals X) -> NoDup (stm_subs X) ->
                 Forall (fun v => isz v = false) (stm_vals X) ->
                 forall i v, In (i, v) (stm_entries V X) <-> den_sp v0 (stm_sp X) i = v /\ v <> v0).
  { intros X LX NX ZX i v. unfold den_sp, entries, stm_sp, stm_entries. cbn [ssubs svals]. split.
    - intros H. split.
      + apply last_match_in; auto. now rewrite keys_combine.
      + apply in_combine_r in H. rewrite Forall_forall in ZX. specialize (ZX v H). intros ->.
        rewrite (proj2 (isz_spec v0) eq_refl) in ZX. discriminate.
    - intros [E Hv]. destruct (in_dec (list_eq_dec Nat.eq_dec) i (stm_subs X)) as [Hi|Hi].
      + rewrite <- (keys_combine V _ _ LX) in Hi. apply in_map_iff in Hi as ([j w] & Ej & Hjw). cbn in Ej. subst j.
        rewrite (last_match_in i w) in E; [now subst|now rewrite keys_combine|exact Hjw].
      + rewrite last_match_notin in E; [congruence|]. intros e He Hf. apply Hi. rewrite <- Hf.
        rewrite <- (keys_combine V _ _ LX). now apply in_map. }
  assert (Pn : Permutation (stm_entries V (stmn M)) (stm_entries V (stmn M'))).
  { apply NoDup_Permutation.
    - apply (NoDup_map_inv fst). unfold stm_entries. now rewrite keys_combine.
    - apply (NoDup_map_inv fst). unfold stm_entries. now rewrite keys_combine.
    - intros [i v]. rewrite (Hin (stmn M)), (Hin (stmn M')) by auto. now rewrite Dq. }
  rewrite !entries_stmn in Pn. cbn [stm_subs stm_vals M M'] in Pn.
  assert (Eq : norm_triples vadd isz subs vals = norm_triples vadd isz subs' vals').
  { apply sorted_perm_eq; [exact S1|exact S2|exact Pn]. }
  unfold stm_norm. cbn [stm_subs stm_vals stm_r stm_c stm_tshape M M']. now rewrite Eq.
Qed.

(* sptenmat.__init__(subs, vals, rdims, cdims, tshape) with copy=True: the answer (the object, or the refusal) is the same for
   every order in which the caller lists the triples; subs is an n x 2 array *)
Theorem stm_ctor_indep subs vals subs' vals' rd cd ts :
  length subs = length vals -> length subs' = length vals' -> Forall (fun rc => length rc = 2) subs ->
  Permutation (combine subs vals) (combine subs' vals') ->
  ctor (Some subs) (Some vals) rd cd ts = ctor (Some subs') (Some vals') rd cd ts.
Proof.
  intros HL HL' H2 P.
  assert (Ps : Permutation subs subs').
  { rewrite <- (keys_combine V subs vals HL), <- (keys_combine V subs' vals' HL'). now apply Permutation_map. }
  unfold stm_ctor. cbn [olist].
  assert (G : match gather_wrap_dims (length ts) rd cd None with
              | Some (r, c) => if negb (is_permb (r ++ c) (length ts)) then None
                  else if negb (forallb (fun rc => nth 0 rc 0 <? size (pick 0 r ts)) subs) then None
                  else if negb (forallb (fun rc => nth 1 rc 0 <? size (pick 0 c ts)) subs) then None
                  else Some (stmn (mkSTM subs vals r c ts))
              | None => None end =
              match gather_wrap_dims (length ts) rd cd None with
              | Some (r, c) => if negb (is_permb (r ++ c) (length ts)) then None
                  else if negb (forallb (fun rc => nth 0 rc 0 <? size (pick 0 r ts)) subs') then None
                  else if negb (forallb (fun rc => nth 1 rc 0 <? size (pick 0 c ts)) subs') then None
                  else Some (stmn (mkSTM subs' vals' r c ts))
              | None => None end).
  { destruct (gather_wrap_dims (length ts) rd cd None) as [[r c]|]; [|reflexivity].
    rewrite (forallb_perm (fun rc => nth 0 rc 0 <? size (pick 0 r ts)) subs subs' Ps).
    rewrite (forallb_perm (fun rc => nth 1 rc 0 <? size (pick 0 c ts)) subs subs' Ps).
    now rewrite (stm_norm_perm subs vals subs' vals' r c ts 2 HL HL' H2 P). }
  destruct rd, cd; auto.
Qed.

Lemma perm_filter {A} (p : A -> bool) l l' : Permutation l l' -> Permutation (filter p l) (filter p l').
Proof.
  induction 1 as [|x l l' _ IH|x y l|l l' l'' _ IH1 _ IH2]; cbn; auto.
  - destruct (p x); auto.
  - destruct (p x), (p y); auto. apply perm_swap.
  - eapply Permutation_trans; eauto.
Qed.

(* sptenmat.from_array(scipy matrix): the same object for every order of the matrix's stored triples (an "assembled" coo matrix
   may list a position several times, cancelling pairs and explicit zeros included) *)
Theorem from_array_coo_indep (C C' : coo V) rd cd ts :
  length (coo_subs C) = length (coo_data C) -> length (coo_subs C') = length (coo_data C') ->
  Forall (fun rc => length rc = 2) (coo_subs C) ->
  Permutation (coo_entries C) (coo_entries C') ->
  from_array_coo vadd isz C rd cd ts = from_array_coo vadd isz C' rd cd ts.
Proof.
  intros HL HL' H2 P. unfold from_array_coo.
  set (es := filter (fun e : ent => negb (isz (snd e))) (coo_entries C)).
  set (es' := filter (fun e : ent => negb (isz (snd e))) (coo_entries C')).
  assert (Pe : Permutation es es') by (now apply perm_filter).
  apply stm_ctor_indep.
  - now rewrite !map_length.
  - now rewrite !map_length.
  - rewrite Forall_forall in *. intros rc Hin. apply in_map_iff in Hin as ([a b] & <- & Hin). apply filter_In in Hin as [Hin _].
    unfold coo_entries in Hin. apply in_combine_l in Hin. auto.
  - now rewrite !combine_fst_snd.
Qed.

End C06Ctor.
