(* Model/C02Modes.v — tensor.ttv / tensor.ttm as the CALLER sees them: a mode request (dims in any order, or exclude_dims)
   and a list of multiplicands of length |dims| or N, resolved by the GENERATED tt_dimscheck (Gen/GenUtils.v, translated
   from pyttb/pyttb_utils.py on every run) and then handed to the kernels of Model/C02Dense.v exactly as tensor.py does:
       dims, vidx = tt_dimscheck(self.ndims, len(vector), dims, exclude_dims);  ... vector[vidx[i]] ... dims[i] ...
   Definitions only; the alignment theorems are in Proofs/C02ModesProofs.v. *)
From Coq Require Import List ZArith Arith Bool Lia.
From PV Require Import Base.Index Base.Perm Base.Sum Np.NpZ Np.Array Model.Sparse Model.Repr Model.C02Spec Model.C02Dense
                       Gen.GenUtils.
Import ListNotations.

Definition nats (l : vec) : list nat := map Z.to_nat l.

(* the modes a request designates, in the caller's order (docstring of tt_dimscheck): listed dims as given; all modes
   not excluded, ascending; all modes when neither is given *)
Definition req_modes (N : Z) (dims excl : option vec) : vec :=
  match dims, excl with
  | Some d, _ => d
  | None, Some e => filter (fun x => negb (zmem x e)) (np_arange 0 N)
  | None, None => np_arange 0 N
  end.

(* the multiplicand the CALLER attaches to mode m: with one multiplicand per designated mode, the j-th multiplicand belongs
   to the j-th designated mode (d[j]); with one per tensor mode, multiplicand m belongs to mode m *)
Definition attach {A} (dflt : A) (d : vec) (ms : list A) (m : nat) : A :=
  if Nat.eqb (length ms) (length d) then nth (index_of m (nats d)) ms dflt else nth m ms dflt.

Section Modes.
Context {V : Type} (v0 v1 : V) (vadd vmul : V -> V -> V).

(* tensor.ttv (tensor.py): dims, vidx = tt_dimscheck(ndims, len(vector), dims, exclude_dims); c.dot(vector[vidx[i]]) for
   i = P-1 .. 0 on the array permuted to (remdims, dims) *)
Definition impl_ttv_req (X : dense V) (dims excl : option vec) (vs : list (list V)) : res (dense V) :=
  match tt_dimscheck (Z.of_nat (length (dshape X))) (Some (zlen vs)) dims excl with
  | Ok (sdims, Some vidx) =>
      Ok (impl_ttv_dense v0 vadd vmul X (nats sdims) (map (znth [] vs) vidx))
  | _ => Err
  end.

(* tensor.ttm, list form: Y = self.ttm(matrix[vidx[0]], dims[0]); for k in 1..: Y = Y.ttm(matrix[vidx[k]], dims[k]).
   A multiplicand is (J, U): J = matrix.shape[0] (plain) or matrix.shape[1] (transposed). *)
Definition ttm_dflt : nat * @matrix V := (0, []).
Fixpoint ttm_seq (X : dense V) (nUs : list (nat * (nat * @matrix V))) (tr : bool) : dense V :=
  match nUs with
  | [] => X
  | (n, (J, U)) :: r => ttm_seq (impl_ttm_dense v0 vadd vmul X n U J tr) r tr
  end.

Definition impl_ttm_req (X : dense V) (dims excl : option vec) (ms : list (nat * @matrix V)) (tr : bool) : res (dense V) :=
  match tt_dimscheck (Z.of_nat (length (dshape X))) (Some (zlen ms)) dims excl with
  | Ok ([], _) => Err                                                       (* dims[0] raises IndexError *)
  | Ok (sdims, Some vidx) =>
      Ok (ttm_seq X (combine (nats sdims) (map (znth ttm_dflt ms) vidx)) tr)
  | _ => Err
  end.

End Modes.
