"""C09 — CP-ALS returns a model consistent with everything it reports (DESIGN §C09; level: proof, PARTIAL).

Theorems (Props/C09.v) are exact-arithmetic statements for all inputs about the model in Model/C09Als.v / C09Loop.v.
This module ties that model to pyttb on sampled real runs: pyttb's returned floats are passed as exact rationals into Coq,
which recomputes with Qc arithmetic (Model/C09Exec.v): denotation of the model against the exact ALS sweep, reported
fit/residual against ||X-M||, normal equations of the mode updated last, every recorded mode update (certificate chain),
normal form, monotone trace, iteration count / stop rule, returned initial guess, data and guess not written."""
import contextlib
import io
import itertools
import math
from fractions import Fraction as F

from vcheck import Case, gz, gzlist, gnlist, gq, gbool
import tgen
from props import c09_util as U9

PROP = "C09"
LEVEL = "proof"
INCLUDE = ['w4s_c09', 'w4s_c09b']   # wave 4 (lead, integration): generated skeleton of the cp_als main loop (Gen/GenCpAls.v): bridge theorem + replay stream sk_cpals
GEN_UNITS = ["GenCpAls", "GenCpAlsPre"]
COQ_TARGETS = ["Props/C09.vo", "Props/C09b.vo", "Props/C09c.vo", "Props/C09d.vo", "Props/C09e.vo", "Props/C09W8.vo", "Model/C09Exec.vo", "Model/C09Init.vo", "Model/C09Replay.vo",
               "Model/C09InnerExec.vo", "Model/Harness.vo"]
THEOREM_FILES = ["Props/C09.v", "Props/C09b.v", "Props/C09c.v", "Props/C09d.v", "Props/C09e.v", "Props/C09W8.v"]
COQ_IMPORTS = ("From Coq Require Import List ZArith QArith Qcanon Bool.\n"
               "From PV Require Import Base.Index Np.Array Model.Sparse Model.Repr Model.Harness Model.C09Als Model.C09Exec Model.C09Init Model.C09Replay Model.C09InnerExec.\n")
RULE = ("integer data tensors 3x3x2 .. 4x3x2, 2-way and 4-way (<= 24 entries) held as dense / sparse (3 stored orders) / Tucker / "
        "sum tensors; ranks 1-2; given integer starts (with and without weights), seeded random starts and init='nvecs' (dense / sparse / "
        "Tucker data); PLANTED rank-3 (3x3x3, 4x3x3, 3x4x3) and rank-4 (4x4x4) problems = exact integer Kruskal structure + small integer "
        "noise, started at the planted factors, with the planted component strengths chosen so that the final descending-weight sort of "
        "ktensor.arrange needs EACH of the 6 permutations of 3 components (both 3-cycles included; the needed permutation is predicted "
        "with an exact Fraction sweep in the generator) and non-involutive permutations of 4 components, held as dense / sparse / "
        "Tucker (superdiagonal core) / sum (Kruskal part + sparse noise part) data, maxiters 1-2; printitn 0 (mostly) or 1-2; every mode order, "
        "optdims subsets; maxiters 1..3 from the same start (truncated runs = per-iteration trace); stoptol in {0, 1e-4, 0.05, 0.5}; "
        "fixsigns on/off; data whose unfoldings all have exact rank >= the requested rank (Fractions), or all-zero data; non-trivial = data not all-equal; distinct = distinct (op,args). Cases whose exact Gram-Hadamard matrix has "
        "|det|/prod(diag) < 1e-3 in the first exact sweep are skipped (ill-conditioned: float drift, not a defect; a LinAlgError on such a start "
        "is skipped too). Tolerance 1e-6 relative. Wave 3: every holder class (sum tensors with dense / sparse / Kruskal / Tucker parts) with its "
        "stored arrays re-assigned C-ordered or as non-contiguous views, starts with C-ordered / non-contiguous factor matrices; data multiplied "
        "by 2^k (k = -30..40; observations mapped back exactly before the recomputation); very sparse data (1-5 entries confined to half of a "
        "mode, negative values, stored zeros), an empty sptensor, rank 1 with 2-3 silent sweeps; 4-way data on every holder; non-identity "
        "dimorder x proper optdims subsets (requested order ending with a non-optimised mode); maxiters 0 (every holder, dimorder / optdims / "
        "printitn 0,1,3 / fixsigns off / negative start weights) and 1; printitn in {0,1,2,3,5,7}; EVERY run repeated on the same data object "
        "with the returned guess object as explicit start (identical model / fit / residual / iters / guess required); seeded starts compared "
        "in Coq with the captured-stream model init_random. Wave 4: the recorded mttkrp arguments of EVERY sweep replayed forward through "
        "the model's update in exact rationals (one update per sweep with rotating mode position; every update + the returned model in one "
        "case of 8 / 6; an update whose exact Gram-Hadamard conditioning ratio is < 1e-3 is only certified backward); dense data stored as "
        "uint8 / int8 / int16 / int32 / int64 / float32 / float64 with sums of squares beyond the narrow type's range (alone, inside a sum "
        "tensor, printing on / off, maxiters 0). Wave 5: sparse data with a LONG, THINLY POPULATED mode and colliding entries (at most half "
        "as many stored entries as the mode is long, two or three of them on one index of that mode; 2x3x8, 8x2x3, 2x9x2, 3x2x10, 2x2x2x8, "
        "2x2x12, 10x3x2, thorough also 4x5x30 / 30x4x5; alone and as the sparse part of a sum tensor; the long mode updated last in two "
        "cases of three; starts that do not silence a stored entry); on EVERY run pyttb's X.norm() and, on the runs in which cp_als itself calls it (printing runs, maxiters = 0), X.innerprod(M) "
        "(data object, returned model) compared in Coq with the algorithm models of every holder class (holder_inner_ok; theorems Props/C09d.v).")
TOL = "tol6"
SHARD = 2
COND_MIN = F(1, 1000)
REPLAY = True


# ------------------------------------------------------------------------------------------ generation
SHAPES3 = [[3, 3, 2], [4, 3, 2], [3, 2, 4], [2, 4, 3], [3, 4, 2]]
SHAPES_OTHER = [[4, 3], [3, 5], [2, 3, 2, 2], [3, 1, 4]]


def _rand_factors(rng, shape, R, lo=-2, hi=3):
    for _ in range(50):
        fs = [[[rng.randint(lo, hi) for _ in range(R)] for _ in range(d)] for d in shape]
        # full column rank and not too correlated: exact Gram conditioning
        ok = True
        for A in fs:
            G = U9.gram([[F(x) for x in row] for row in A], R)
            if U9.cond_ratio(G) < F(1, 4):
                ok = False
        if ok:
            return fs
    return fs


def _data_spec(rng, kind, shape):
    n = math.prod(shape)
    if kind in ("dense", "sparse"):
        fill = 1.0 if kind == "dense" else rng.choice([0.5, 0.8])
        data = tgen.rand_dense(rng, shape, fill, lo=-3, hi=5)
        if kind == "dense":
            return {"kind": "dense", "shape": shape, "data": data}
        subs, vals = tgen.dense_to_sparse(shape, data, rng, rng.choice(["sorted", "reversed", "random"]))
        return {"kind": "sparse", "shape": shape, "subs": subs, "vals": vals}
    if kind == "vsparse":
        # very sparse data: entries confined to at most half of the subscripts of one mode (sptensor.ttv keeps the MTTKRP column sparse
        # there: the <= 50 % switch), mostly negative values, optionally an explicitly stored zero
        m = rng.randrange(len(shape))
        keep = rng.sample(range(shape[m]), max(1, shape[m] // 2))
        cand = [i for i in U9.all_subs(shape) if i[m] in keep]
        k = rng.randint(1, max(1, min(len(cand), 5)))
        subs = rng.sample(cand, k)
        vals = [rng.choice([-3, -2, -1, -1, 1, 2]) for _ in subs]
        if rng.random() < 0.3:
            rest = [i for i in U9.all_subs(shape) if i not in subs]
            subs.append(rng.choice(rest))
            vals.append(0)                                   # a stored zero handed to the plain constructor
        return {"kind": "sparse", "shape": shape, "subs": subs, "vals": vals}
    if kind == "ttensor":
        cs = [min(2, d) for d in shape]
        core = tgen.rand_dense(rng, cs, 0.8, lo=-2, hi=3)
        fs = [[[rng.randint(-2, 2) for _ in range(c)] for _ in range(d)] for d, c in zip(shape, cs)]
        return {"kind": "ttensor", "shape": shape, "core_shape": cs, "core": core, "factors": fs}
    if kind == "sum":
        p1 = _data_spec(rng, "dense", shape)
        p2 = _data_spec(rng, rng.choice(["sparse", "ktensor", "ttensor", "vsparse"]), shape)
        return {"kind": "sum", "shape": shape, "parts": [p1, p2]}
    if kind == "ktensor":
        return {"kind": "ktensor", "shape": shape, "weights": [rng.randint(1, 2)],
                "factors": [[[rng.randint(-1, 2)] for _ in range(d)] for d in shape]}
    raise ValueError(kind)


def _thin_spec(rng, shape, m):
    """sparse data with a LONG, THINLY POPULATED mode m: at most shape[m] // 2 stored entries (so every one-mode result of sptensor.ttv
    for that mode — the MTTKRP column of mode m — has fewer stored candidates than half of its length), at least two of them sharing
    their mode-m index (the MTTKRP row of that index accumulates several products), the others on distinct mode-m indices; non-zero
    integer values of both signs, random stored order"""
    L = shape[m]
    k = rng.randint(2, max(2, L // 2))
    idxs = rng.sample(range(L), k - 1)
    col = [idxs[0]] + idxs                                       # k entries, one mode-m index used twice ...
    if k >= 4 and rng.random() < 0.5:
        col[-1] = idxs[1 % len(idxs)]                            # ... or two indices used twice / one used three times
    rest_shape = [d for q, d in enumerate(shape) if q != m]
    subs = []
    for x in col:
        for _ in range(50):
            o = [rng.randrange(d) for d in rest_shape]
            sub = o[:m] + [x] + o[m:]
            if sub not in subs:
                subs.append(sub)
                break
    vals = [rng.choice([-3, -2, -1, 1, 2, 3, 4, 5]) for _ in subs]
    order = list(range(len(subs)))
    rng.shuffle(order)
    return {"kind": "sparse", "shape": shape, "subs": [subs[q] for q in order], "vals": [vals[q] for q in order]}


def _sort_perm(keys):
    """np.argsort(w)[::-1] for distinct keys: positions of the keys in descending order"""
    return sorted(range(len(keys)), key=lambda r: keys[r], reverse=True)


def _planted(rng, shape, R, target, kind, mode_order=None):
    """exactly rank-R integer Kruskal structure (+ small integer noise) whose ALS iterate, started at the planted factors, has its
    weights in the order `target` (target[k] = component that must end up at position k after the descending sort).
    Returns (data spec, init, predicted sort permutation after one exact sweep) or None."""
    N = len(shape)
    for _ in range(60):
        fs = _rand_factors(rng, shape, R, -1, 2)
        nu2 = [math.prod(sum(row[r] ** 2 for row in A) for A in fs) for r in range(R)]
        if min(nu2) == 0:
            continue
        # strengths: smallest integers in 1..6 with s_r^2 * nu2_r ordered as target, consecutive ratio >= 2.25
        best = None
        for sv in itertools.product(range(1, 7), repeat=R):
            lam2 = [sv[r] ** 2 * nu2[r] for r in range(R)]
            if all(4 * lam2[target[k]] >= 9 * lam2[target[k + 1]] for k in range(R - 1)):
                if best is None or sum(sv) < sum(best):
                    best = sv
        if best is None:
            continue
        kt = {"kind": "ktensor", "shape": shape, "weights": list(best), "factors": fs}
        base = U9.dense_of(kt)
        n = len(base)
        noise = [0] * n
        for pos in rng.sample(range(n), 3):
            noise[pos] = rng.choice([-1, 1])
        if kind == "dense":
            spec = {"kind": "dense", "shape": shape, "data": [b + e for b, e in zip(base, noise)]}
        elif kind == "sparse":
            subs, vals = tgen.dense_to_sparse(shape, [b + e for b, e in zip(base, noise)], rng, rng.choice(["sorted", "reversed", "random"]))
            spec = {"kind": "sparse", "shape": shape, "subs": subs, "vals": vals}
        elif kind == "ttensor":
            cs = [R] * N
            core = [best[j[0]] if len(set(j)) == 1 else 0 for j in U9.all_subs(cs)]
            spec = {"kind": "ttensor", "shape": shape, "core_shape": cs, "core": core, "factors": fs}
        else:
            subs, vals = tgen.dense_to_sparse(shape, noise, rng, "random")
            spec = {"kind": "sum", "shape": shape, "parts": [kt, {"kind": "sparse", "shape": shape, "subs": subs, "vals": vals}]}
        X = U9.dense_of(spec)
        if min(U9.unfolding_ranks(shape, X)) < R:
            continue
        init = {"w": [1] * R, "f": [[row[:] for row in A] for A in fs]}
        dims = list(mode_order) if mode_order is not None else list(range(N))
        Ue, worst, ok = U9.exact_sweep(shape, X, [[[F(x) for x in row] for row in A] for A in fs], dims, R)
        if not ok or worst < F(1, 20):
            continue
        lam2 = [math.prod(sum(row[r] ** 2 for row in A) for A in Ue) for r in range(R)]
        srt = sorted(lam2, reverse=True)
        if any(4 * srt[k] < 5 * srt[k + 1] for k in range(R - 1)):
            continue                     # too close to a tie: the order could flip in floating point / in the second sweep
        p = _sort_perm(lam2)
        if p != list(target):
            continue
        return spec, init, p
    return None


def _unit_factors(rng, shape, R):
    """factor matrices whose columns are signed unit vectors (+-e_i, distinct rows): a start that is ALREADY column-normalised, so that
    only the sign repair / sorting part of the final arrange has work to do; None if some mode is smaller than R"""
    if any(d < R for d in shape):
        return None
    fs = []
    for d in shape:
        rows = rng.sample(range(d), R)
        A = [[0] * R for _ in range(d)]
        for r, i in enumerate(rows):
            A[i][r] = rng.choice([1, -1])
        fs.append(A)
    return fs


def _variant(rng, p):
    """with probability p: a non-default memory layout of the data / the start and / or a power-of-two data scale"""
    ex = {}
    if rng.random() < p:
        ex["layout"] = rng.choice(["C", "view"])
    if rng.random() < p:
        ex["init_layout"] = rng.choice(["C", "view"])
    if rng.random() < p / 2:
        ex["scale_exp"] = rng.choice([-20, -10, 10, 20])
    return ex


def gen_cases(rng, tier):
    big = tier == "thorough"
    cases = []

    def add(spec, R, init, dimorder, optdims, maxit, stoptol, fixsigns, printitn=0, extra=None):
        X = U9.dense_of(spec)
        nt = len(set(X)) > 1
        if any(X) and min(U9.unfolding_ranks(spec["shape"], X)) < R:
            return          # outside the property's quantifier: an unfolding has rank below the requested rank
        args = {"data": spec, "rank": R, "init": init, "dimorder": dimorder, "optdims": optdims,
                "maxiters": maxit, "stoptol": stoptol, "fixsigns": fixsigns, "printitn": printitn}
        if extra:
            args.update(extra)
        # wave 4: forward replay of the recorded updates — one update per sweep (rotating mode), every update for one case in
        # six (thorough) / eight (quick); decided by the case's position, no draw from rng
        args["replay_salt"] = len(cases) % 7
        args["replay"] = "all" if len(cases) % (6 if big else 8) == 3 else "one"
        cases.append(Case("cp_als", args, nt))

    kinds = ["dense", "sparse", "ttensor", "sum"]
    # all mode orders on one 3-way shape per data kind
    for kind in kinds:
        shape = rng.choice(SHAPES3)
        spec = _data_spec(rng, kind, shape)
        for perm in itertools.permutations(range(3)):
            if not big and kind != "dense" and rng.random() < 0.5:
                continue
            R = rng.choice([1, 2])
            init = {"w": [1] * R, "f": _rand_factors(rng, shape, R)}
            add(spec, R, init, list(perm), None, [1, 2, 3], rng.choice([0.0, 1e-4]), rng.random() < 0.5)
    # random stream
    for _ in range(900 if big else 34):
        kind = rng.choice(kinds)
        shape = rng.choice(SHAPES3 if rng.random() < 0.75 else SHAPES_OTHER)
        N = len(shape)
        spec = _data_spec(rng, kind, shape)
        R = rng.choice([1, 2])
        r = rng.random()
        if r < 0.55:
            init = {"w": [1] * R, "f": _rand_factors(rng, shape, R)}
        elif r < 0.7:
            init = {"w": [rng.choice([2, 3, -1]) for _ in range(R)], "f": _rand_factors(rng, shape, R)}   # weights of the start
        elif r < 0.88 or kind == "sum":
            init = {"seed": rng.randrange(1000)}
        else:
            init = {"nvecs": True}                                   # leading mode-n vectors of the data (not for sum tensors)
        dimorder = None if rng.random() < 0.3 else rng.sample(range(N), N)
        optdims = None
        if rng.random() < 0.3 and N >= 2:
            k = rng.randint(1, N - 1)
            optdims = rng.sample(range(N), k)                        # any order (optdims is a set of modes)
        add(spec, R, init, dimorder, optdims, [1, 2, 3], rng.choice([0.0, 1e-4, 0.05, 0.5]), rng.random() < 0.6,
            printitn=rng.choice([0, 0, 0, 1, 2, 3, 7]), extra=_variant(rng, 0.35))
    # ---- wave 3: input classes named in README-wave3 ----
    # (i) memory layout: every holder class (sum and Tucker included) with C-ordered / non-contiguous stored arrays, and starts whose
    #     factor matrices are C-ordered / non-contiguous views (assigned after construction, as a user may do)
    for kind in kinds + ["vsparse"]:
        for lay in (["C", "view"] if big or kind in ("ttensor", "sum") else [rng.choice(["C", "view"])]):
            shape = rng.choice(SHAPES3 + [[2, 3, 2, 2]])
            R = 1 if kind == "vsparse" else rng.choice([1, 2])
            add(_data_spec(rng, kind, shape), R, {"w": [1] * R, "f": _rand_factors(rng, shape, R)},
                rng.sample(range(len(shape)), len(shape)), None, [1, 2], 0.0, rng.random() < 0.5,
                extra={"layout": lay, "init_layout": rng.choice(["C", "view"])})
    # 4-way data on every holder whose mttkrp has mode-dependent branches (two or more modes to the left of an interior mode)
    for kind in (kinds if big else ["dense", rng.choice(["sparse", "ttensor", "sum"])]):
        shape = rng.choice([[2, 3, 2, 2], [2, 2, 3, 2]])
        R = rng.choice([1, 2])
        add(_data_spec(rng, kind, shape), R, {"w": [1] * R, "f": _rand_factors(rng, shape, R)},
            None if rng.random() < 0.5 else rng.sample(range(4), 4), None, [1, 2], 0.0, rng.random() < 0.5)
    # (ii) non-identity dimorder together with a proper subset of optimised modes: the mode updated last is the last OPTIMISED mode
    #      of the order; half of the cases end the requested order with a mode that is not optimised
    for rep_ in range(12 if big else 4):
        shape = rng.choice(SHAPES3)
        R = rng.choice([1, 2])
        perm = rng.choice([q for q in itertools.permutations(range(3)) if list(q) != [0, 1, 2]])
        k = rng.choice([1, 2])
        od = rng.sample(list(perm[:-1]) if rep_ % 2 == 0 else list(perm), k)
        add(_data_spec(rng, kinds[rep_ % 4], shape), R, {"w": [rng.choice([1, 2, -3]) for _ in range(R)], "f": _rand_factors(rng, shape, R, -3, 3)},
            list(perm), od, [1, 2, 3], rng.choice([0.0, 1e-4]), rng.random() < 0.5, printitn=rng.choice([0, 0, 2]))
    # (iii) magnitudes: the same integer problems with the data multiplied by 2^k (exact in binary floating point); the returned
    #       weights / residual norm are divided by 2^k before the exact recomputation, so the tolerance stays relative
    for rep_, k in enumerate([-20, 20, -7, 23, -30, 40] if big else [-20, 20]):
        for kind in (kinds if big else [kinds[rep_ % 4], kinds[(rep_ + 2) % 4]]):
            shape = rng.choice(SHAPES3)
            R = rng.choice([1, 2])
            init = {"w": [1] * R, "f": _rand_factors(rng, shape, R)} if rng.random() < 0.7 else {"seed": rng.randrange(1000)}
            add(_data_spec(rng, kind, shape), R, init, None if rng.random() < 0.5 else rng.sample(range(3), 3), None, [1, 2, 3],
                rng.choice([0.0, 1e-4]), rng.random() < 0.5, printitn=rng.choice([0, 0, 1]), extra={"scale_exp": k})
    # (iv) degenerate sparse operands: no stored entry, one entry, few entries confined to half of a mode (rank 1 is admissible for any
    #      non-zero data), singleton modes; rank-1 runs with >= 2 silent sweeps
    add({"kind": "sparse", "shape": [3, 2, 2], "subs": [], "vals": []}, 1, {"w": [1], "f": _rand_factors(rng, [3, 2, 2], 1)}, None, None,
        [1, 2], 1e-4, True)
    for rep_ in range(16 if big else 5):
        shape = rng.choice([[4, 3, 2], [2, 4, 3], [4, 4, 2], [3, 1, 4], [5, 2, 2]])
        init = {"w": [1], "f": _rand_factors(rng, shape, 1, -2, 3)} if rng.random() < 0.7 else {"seed": rng.randrange(1000)}
        add(_data_spec(rng, "vsparse", shape), 1, init, None if rng.random() < 0.5 else rng.sample(range(3), 3), None, [1, 2, 3],
            0.0, rng.random() < 0.5, printitn=0, extra=_variant(rng, 0.3))
    # (v) option corners: maxiters = 1 only, printing intervals beyond the limit, fixsigns off, on every holder
    for kind in kinds:
        shape = rng.choice(SHAPES3)
        R = rng.choice([1, 2])
        add(_data_spec(rng, kind, shape), R, {"w": [rng.choice([2, 3, -1]) for _ in range(R)], "f": _rand_factors(rng, shape, R)},
            None, None, [1], 1e-4, False, printitn=rng.choice([0, 1, 5]))
    # init="nvecs" on every admissible data kind (quick tier: one each)
    for kind in ["dense", "sparse", "ttensor"]:
        for _ in range(6 if big else 1):
            shape = rng.choice(SHAPES3)
            add(_data_spec(rng, kind, shape), rng.choice([1, 2]), {"nvecs": True}, None if rng.random() < 0.5 else rng.sample(range(3), 3),
                None, [1, 2], 1e-4, rng.random() < 0.5)
    # optdims a proper subset with a start whose columns are not unit (the fixed mode's guess must come back untouched)
    for _ in range(8 if big else 2):
        shape = rng.choice(SHAPES3)
        R = rng.choice([1, 2])
        od = sorted(rng.sample(range(3), rng.choice([1, 2])))
        add(_data_spec(rng, rng.choice(kinds), shape), R, {"w": [1] * R, "f": _rand_factors(rng, shape, R, -3, 3)}, None, od, [1, 2], 1e-4,
            rng.random() < 0.7)
    # (vi) wave 4 — storage dtype of dense data: the same kind of integer-valued problem held as uint8 / int8 / int16 / int32 / int64 /
    #      float32 / float64 (image / count data), with magnitudes such that the sum of squares exceeds the range of the narrow
    #      integer type; alone and as the dense part of a sum tensor; printing on and off; maxiters = 0 as well
    DT = [("uint8", [25, 50], True), ("int8", [11, 25], False), ("int16", [1000, 6000], False), ("int32", [10 ** 5, 10 ** 8], False),
          ("int64", [1, 10 ** 4], False), ("float32", [1, 7], False), ("float64", [3], False)]
    for rep_, (dt, mults, nonneg) in enumerate(DT * (3 if big else 1)):
        spec = None
        for _try in range(20):
            shape = rng.choice(SHAPES3 + [[4, 3], [2, 3, 2, 2]])
            cand = _data_spec(rng, "dense", shape)
            mlt = rng.choice(mults)
            cand["data"] = [(abs(v) if nonneg else v) * mlt for v in cand["data"]]
            cand["dtype"] = dt
            R = rng.choice([1, 2])
            if min(U9.unfolding_ranks(shape, cand["data"])) >= R:
                spec = cand
                break
        if spec is None:
            continue
        N = len(shape)
        if rep_ == 4 or (rep_ >= 7 and rep_ % 4 == 3):
            spec = {"kind": "sum", "shape": shape, "parts": [spec, _data_spec(rng, "vsparse", shape)]}
        init = {"w": [1] * R, "f": _rand_factors(rng, shape, R)} if rng.random() < 0.7 else {"seed": rng.randrange(1000)}
        add(spec, R, init, None if rng.random() < 0.5 else rng.sample(range(N), N), None, [1, 2], rng.choice([0.0, 1e-4]),
            rng.random() < 0.5, printitn=rep_ % 2)
        if rep_ % 3 == 0 and spec["kind"] == "dense":
            cases.append(Case("cp_als_maxiters0", {"data": spec, "rank": R, "init": {"w": [rng.choice([1, 2, -2]) for _ in range(R)],
                                                                                   "f": _rand_factors(rng, shape, R)},
                                                   "dimorder": None, "optdims": None, "maxiters": [0], "stoptol": 1e-4,
                                                   "fixsigns": True, "printitn": (rep_ // 3) % 2}, True))
    # planted rank-3 problems: the final arrange must apply EVERY permutation of 3 components (two of them are 3-cycles)
    r3kinds = ["dense", "sparse", "ttensor", "sum"]
    j = 0
    for target in itertools.permutations(range(3)):
        for rep_ in range(4 if big else 1):
            kind = r3kinds[j % 4]
            j += 1
            shape = rng.choice([[3, 3, 3], [4, 3, 3], [3, 4, 3]] if big else [[3, 3, 3]])
            dimorder = None if rng.random() < 0.6 else rng.sample(range(3), 3)
            got = _planted(rng, shape, 3, list(target), kind, dimorder)
            if got is None:
                continue
            spec, init, p = got
            add(spec, 3, init, dimorder, None, [1, 2], 0.0, rng.random() < 0.5, printitn=(1 if rep_ == 3 else 0),
                extra={"sortperm": p})
    # ... and rank 4 with non-involutive permutations (a 4-cycle, a 3-cycle + fixed point)
    for target in ([[1, 2, 3, 0], [2, 0, 1, 3], [3, 0, 2, 1], [0, 3, 1, 2]] if big else [[1, 2, 3, 0]]):
        got = _planted(rng, [4, 4, 4], 4, target, "dense")
        if got is not None:
            spec, init, p = got
            add(spec, 4, init, None, None, [1], 0.0, True, extra={"sortperm": p})
    # special: zero data; exactly low-rank data (fit 1, early stop); maxiters = 0 (A-30)
    shape = [3, 2, 2]
    add({"kind": "dense", "shape": shape, "data": [0] * 12}, 1, {"w": [1], "f": _rand_factors(rng, shape, 1)}, None, None, [1, 2], 1e-4, True)
    kt = {"kind": "ktensor", "shape": [3, 3, 2], "weights": [2], "factors": [[[1], [2], [-1]], [[1], [0], [3]], [[2], [1]]]}
    add({"kind": "dense", "shape": [3, 3, 2], "data": U9.dense_of(kt)}, 1, {"w": [1], "f": _rand_factors(rng, [3, 3, 2], 1, 1, 3)},
        None, None, [1, 2, 3], 1e-4, True)
    for kind in (kinds if not big else kinds + kinds + ["vsparse"]):
        shape = rng.choice(SHAPES3)
        spec = _data_spec(rng, kind, shape)
        Rz = rng.choice([1, 2])
        a0 = {"data": spec, "rank": Rz, "init": {"w": [rng.choice([1, 2, 3, -2]) for _ in range(Rz)], "f": _rand_factors(rng, shape, Rz)},
              "dimorder": None if rng.random() < 0.5 else rng.sample(range(3), 3),
              "optdims": None if rng.random() < 0.6 else rng.sample(range(3), 2), "maxiters": [0], "stoptol": 1e-4,
              "fixsigns": rng.random() < 0.6, "printitn": rng.choice([0, 1, 3])}
        a0.update(_variant(rng, 0.4))
        a0.pop("scale_exp", None)            # the model of the start does not scale with the data
        cases.append(Case("cp_als_maxiters0", a0, True))
        # the same request from a start that is already column-normalised (signed unit vectors) but has negative / unsorted weights:
        # the returned model must still be in normal form (sign repair and sort are all the final arrange has to do)
        uf = _unit_factors(rng, shape, Rz)
        if uf is not None:
            a1 = dict(a0)
            w1 = [rng.choice([-3, -2, 2, 5]) for _ in range(Rz)]
            w1[rng.randrange(Rz)] = -rng.choice([1, 4])
            a1["init"] = {"w": w1, "f": uf}
            a1["fixsigns"] = not a0["fixsigns"]
            cases.append(Case("cp_als_maxiters0", a1, True))
    # (vii) wave 5 — sparse data with a long, thinly populated mode and colliding entries (nnz <= half of the mode's length, two or
    #       more stored entries on one index of that mode): long mode first / interior / last, 3-way and 4-way, alone and as the sparse
    #       part of a sum tensor; ranks 1-2; silent and printing runs.  Appended LAST so that the draws of the blocks above are unchanged.
    #       The block draws from a CHILD generator seeded from rng's current state (rng itself is not advanced): the INCLUDEd module's
    #       stream (w4s_c09 shares rng and runs after this function) stays the committed one.
    import random as _random
    rng_outer = rng
    rng = _random.Random("C09-vii-%s-%s" % (tier, hash(rng_outer.getstate()[1][:16])))
    THIN = [([2, 3, 8], 2), ([8, 2, 3], 0), ([2, 9, 2], 1), ([3, 2, 10], 2), ([2, 2, 2, 8], 3), ([2, 2, 12], 2), ([10, 3, 2], 0)]
    if big:
        THIN = THIN * 3 + [([4, 5, 30], 2), ([4, 5, 30], 2), ([30, 4, 5], 0)]
    else:
        THIN = rng.sample(THIN, 4) + [([3, 2, 10], 2)]
    for rep_, (shape, m) in enumerate(THIN):
        N = len(shape)
        for _try in range(30):
            spec = _thin_spec(rng, shape, m)
            R = 1 if rep_ % 3 == 0 else rng.choice([1, 2])
            if min(U9.unfolding_ranks(shape, U9.dense_of(spec))) >= R:
                break
        else:
            continue
        if rep_ % 4 == 3 and math.prod(shape) <= 64:
            spec = {"kind": "sum", "shape": shape, "parts": [_data_spec(rng, "dense", shape), spec]}
        if rng.random() < 0.7:
            for _try in range(40):
                fs = _rand_factors(rng, shape, R)
                if all(any(x != 0 for x in fs[q][sub[q]]) for sub in (spec["subs"] if spec["kind"] == "sparse" else spec["parts"][1]["subs"])
                       for q in range(N)):
                    break                         # no stored entry is silenced by an all-zero row of the start
            init = {"w": [1] * R, "f": fs}
        else:
            init = {"seed": rng.randrange(1000)}
        # mode order: two cases of three update the long mode LAST (its normal equations and the reported fit are then built from the
        # MTTKRP of that mode), the others anywhere
        if rep_ % 3 != 2:
            others = [q for q in range(N) if q != m]
            rng.shuffle(others)
            dimorder = others + [m]
            if dimorder == list(range(N)) and rng.random() < 0.5:
                dimorder = None
        else:
            dimorder = rng.sample(range(N), N)
        add(spec, R, init, dimorder, None, [1, 2] if math.prod(shape) > 100 else [1, 2, 3],
            rng.choice([0.0, 1e-4]), rng.random() < 0.5, printitn=(1 if rep_ % 5 == 4 else 0))
    return cases


# ------------------------------------------------------------------------------------------ running pyttb
class _Recorder:
    """duck-typed wrapper around the data object: records (copies of) the factor lists passed to mttkrp"""

    def __init__(self, inner, np):
        self._inner = inner
        self._np = np
        self.calls = []

    @property
    def ndims(self):
        return self._inner.ndims

    @property
    def shape(self):
        return self._inner.shape

    def norm(self):
        return self._inner.norm()

    def innerprod(self, other):
        return self._inner.innerprod(other)

    def mttkrp(self, U, n):
        self.calls.append((int(n), [self._np.array(u, copy=True) for u in U]))
        return self._inner.mttkrp(U, n)

    def nvecs(self, n, r):
        return self._inner.nvecs(n, r)


def _relayout_arr(np, arr, layout):
    """the same logical array in another memory layout: C-contiguous, or a non-contiguous view (every second element of a larger
    C-ordered buffer along every axis)"""
    arr = np.asarray(arr)
    if layout == "C":
        return np.array(arr, order="C", copy=True)
    if layout == "view":
        big = np.full(tuple(2 * d + 1 for d in arr.shape), 7, dtype=arr.dtype, order="C")
        sl = tuple(slice(0, 2 * d, 2) for d in arr.shape)
        big[sl] = arr
        return big[sl]
    return arr


def _relayout(np, ttb, X, layout):
    """re-assign the stored arrays of a holder (values unchanged) in the given memory layout, as a user may do after construction"""
    if layout in (None, "F"):
        return X
    if isinstance(X, ttb.tensor):
        X.data = _relayout_arr(np, X.data, layout)
    elif isinstance(X, ttb.sptensor):
        X.subs = _relayout_arr(np, X.subs, layout)
        X.vals = _relayout_arr(np, X.vals, layout)
    elif isinstance(X, ttb.ttensor):
        _relayout(np, ttb, X.core, layout)
        X.factor_matrices = [_relayout_arr(np, f, layout) for f in X.factor_matrices]
    elif isinstance(X, ttb.ktensor):
        X.factor_matrices = [_relayout_arr(np, f, layout) for f in X.factor_matrices]
        X.weights = _relayout_arr(np, X.weights, layout)
    elif isinstance(X, ttb.sumtensor):
        for part in X.parts:
            _relayout(np, ttb, part, layout)
    return X


def _scaled_spec(spec, c):
    """the data spec with every value multiplied by the float c (a power of two: exact)"""
    kind = spec["kind"]
    out = dict(spec)
    if kind == "dense":
        out["data"] = [c * v for v in spec["data"]]
    elif kind == "sparse":
        out["vals"] = [c * v for v in spec["vals"]]
    elif kind == "ttensor":
        out["core"] = [c * v for v in spec["core"]]
    elif kind == "ktensor":
        out["weights"] = [c * v for v in spec["weights"]]
    elif kind == "sum":
        out["parts"] = [_scaled_spec(q, c) for q in spec["parts"]]
    return out


def _mk_data(ttb, np, a):
    k = int(a.get("scale_exp", 0))
    spec = a["data"] if k == 0 else _scaled_spec(a["data"], 2.0 ** k)
    return _relayout(np, ttb, U9.mk_data(ttb, np, spec), a.get("layout"))


def _mk_init(ttb, np, a):
    i = a["init"]
    K = ttb.ktensor([np.array(f, dtype=float) for f in i["f"]], np.array(i["w"], dtype=float), copy=True)
    return _relayout(np, ttb, K, a.get("init_layout"))


def _one_run(ttb, np, a, m, record=False):
    X = _mk_data(ttb, np, a)
    before = U9.obs_data(np, ttb, X)
    kw = dict(stoptol=a["stoptol"], maxiters=m, printitn=int(a.get("printitn", 0)), fixsigns=a["fixsigns"])
    if a["dimorder"] is not None:
        kw["dimorder"] = list(a["dimorder"])
    if a["optdims"] is not None:
        kw["optdims"] = list(a["optdims"])
    given = None
    if "seed" in a["init"]:
        np.random.seed(a["init"]["seed"])
        kw["init"] = "random"
    elif "nvecs" in a["init"]:
        kw["init"] = "nvecs"
    else:
        given = _mk_init(ttb, np, a)
        kw["init"] = given
    target = _Recorder(X, np) if record else X
    with contextlib.redirect_stdout(io.StringIO()):
        M, Minit, out = ttb.cp_als(target, a["rank"], **kw)
    o = {"m": m, "model": tgen.obs_ktensor(np, M), "init": tgen.obs_ktensor(np, Minit),
         "iters": int(out["iters"]), "fit": tgen.exact(out["fit"]), "normres": tgen.exact(out["normresidual"]),
         "data_same": U9.obs_data(np, ttb, X) == before,
         "shape": [int(d) for d in M.shape]}
    if given is not None:
        o["given_after"] = tgen.obs_ktensor(np, given)
        o["init_is_given"] = Minit is given
    elif "seed" in a["init"]:
        # what the documented procedure draws under this seed
        np.random.seed(a["init"]["seed"])
        o["expected_init"] = [tgen.obs_matrix(np, np.random.uniform(0, 1, (d, a["rank"]))) for d in a["data"]["shape"]]
        # the generator's output captured as ONE flat stream (for the stream model Model/C09Init.v, theorem C09_init_random_entry)
        np.random.seed(a["init"]["seed"])
        o["stream"] = [tgen.exact(x) for x in np.random.uniform(0, 1, sum(a["data"]["shape"]) * a["rank"] + 3)]
    # second call on the SAME data object with the RETURNED guess object as explicit start: must reproduce the run (the returned guess
    # is the one used; nothing was written to the data, the guess or hidden state by the first call)
    kw2 = dict(kw)
    kw2["init"] = Minit
    with contextlib.redirect_stdout(io.StringIO()):
        M2, Minit2, out2 = ttb.cp_als(X, a["rank"], **kw2)
    o["rerun"] = tgen.obs_ktensor(np, M2)
    o["rerun_fit"] = tgen.exact(out2["fit"])
    o["rerun_normres"] = tgen.exact(out2["normresidual"])
    o["rerun_iters"] = int(out2["iters"])
    o["rerun_init"] = tgen.obs_ktensor(np, Minit2)
    # wave 5: the holder's own innerprod / norm — the calls of cp_als's set-up, printing branch and maxiters = 0 branch — on the data
    # object and the returned model (compared in Coq with the ALGORITHM models of Proofs/C09Inner.v)
    import warnings
    with warnings.catch_warnings():
        warnings.simplefilter("ignore")
        o["ip"] = tgen.exact(X.innerprod(M))
        o["nrm"] = tgen.exact(X.norm())
    o["data_same"] = o["data_same"] and U9.obs_data(np, ttb, X) == before
    if record:
        rec = []
        for n, Us in target.calls:
            rec.append({"n": n, "U": [tgen.obs_matrix(np, u) for u in Us]})
        o["rec"] = rec
        # untrusted hints for the certificate chain: column scales of each update, recomputed in floating point
        hints = []
        for k, (n, Us) in enumerate(target.calls):
            if k + 1 < len(target.calls):
                after = target.calls[k + 1][1][n]
                P = np.asarray(X.mttkrp(Us, n)) if not isinstance(X, ttb.sumtensor) else np.asarray(X.mttkrp(Us, n))
                Y = np.ones((a["rank"], a["rank"]))
                for mm in range(len(Us)):
                    if mm != n:
                        Y = Y * (Us[mm].T @ Us[mm])
                try:
                    A = np.linalg.solve(Y.T, P.T).T
                    w = []
                    for r in range(a["rank"]):
                        den = float(after[:, r] @ after[:, r])
                        w.append(float(A[:, r] @ after[:, r]) / den if den != 0 else 0.0)
                except Exception:
                    w = None
                if w is not None and not all(math.isfinite(x) for x in w):
                    w = None                 # (untrusted hint; a non-finite one is no hint)
                hints.append(w)
        o["hints"] = hints
    return o


def run_impl(c):
    import numpy as np
    import pyttb as ttb
    a = c.args
    try:
        runs = []
        ms = a["maxiters"]
        for m in ms:
            runs.append(_one_run(ttb, np, a, m, record=(m == ms[-1] and m > 0)))
        return {"runs": runs}
    except Exception as ex:
        return {"exc": type(ex).__name__, "msg": str(ex)[:200]}


# ------------------------------------------------------------------------------------------ Coq side
def _dims(a):
    N = len(a["data"]["shape"])
    d = list(a["dimorder"]) if a["dimorder"] is not None else list(range(N))
    o = set(a["optdims"]) if a["optdims"] is not None else set(range(N))
    return [x for x in d if x in o]


def _numeric(k):
    vals = list(k["weights"]) + [x for f in k["factors"] for row in f for x in row]
    return all(not isinstance(v, str) for v in vals)


def _descaled(a, o):
    """observations of a run on data multiplied by 2^k, mapped back to the unscaled integer problem (exact Fractions): weights and
    residual norm / 2^k (sum-tensor data: the reported ||M||^2 - 2<X,M> / 4^k), certificate hints / 2^k; factors, fit, counts unchanged"""
    k = int(a.get("scale_exp", 0))
    if k == 0 or "exc" in o:
        return o
    c = F(2) ** k
    is_sum = a["data"]["kind"] == "sum"

    def dv(x, by):
        return x if isinstance(x, str) else F(x) / by

    out = {"runs": []}
    for r in o["runs"]:
        r = dict(r)
        for key in ("model", "rerun"):
            if key in r:
                r[key] = {"weights": [dv(w, c) for w in r[key]["weights"]], "factors": r[key]["factors"]}
        for key in ("normres", "rerun_normres"):
            if key in r:
                r[key] = dv(r[key], c * c if is_sum else c)
        if is_sum:
            for key in ("fit", "rerun_fit"):
                if key in r:
                    r[key] = dv(r[key], c * c)
        if "hints" in r:
            r["hints"] = [None if w is None else [F(x) / c for x in w] for w in r["hints"]]
        if "ip" in r:
            r["ip"] = dv(r["ip"], c * c)             # <cX, M_c> with M_c's weights = c * (descaled weights)
            r["nrm"] = dv(r["nrm"], c)
        out["runs"].append(r)
    return out


def _eff_stoptol(a):
    """the stopping tolerance in the units of the descaled trace: the fit is scale-free except for sum-tensor data, whose reported
    ||M||^2 - 2<X,M> scales with 4^k"""
    k = int(a.get("scale_exp", 0))
    if k != 0 and a["data"]["kind"] == "sum":
        return F(a["stoptol"]) / (F(2) ** (2 * k))
    return F(a["stoptol"])


def _rerun_same(r):
    """the second call (same data object, returned guess object as explicit start) reproduces the first one exactly"""
    return (r["rerun"] == r["model"] and r["rerun_fit"] == r["fit"] and r["rerun_normres"] == r["normres"]
            and r["rerun_iters"] == r["iters"] and r["rerun_init"] == r["init"])


def _reference(a):
    """exact first sweep (pure Python): (conditioning ratio, ok)"""
    shape = a["data"]["shape"]
    X = U9.dense_of(a["data"])
    if "f" not in a["init"]:
        return None
    U0 = [[[F(x) for x in row] for row in f] for f in a["init"]["f"]]
    return U9.exact_sweep(shape, X, U0, _dims(a), a["rank"])


def _frmx(m):
    return [[F(x) for x in row] for row in m]


def _rec_numeric(rec):
    return all(not isinstance(x, str) for call in rec for f in call["U"] for row in f for x in row)


def _replay_parts(a, last_raw, dims):
    """wave 4: the recorded mode updates of EVERY sweep of the longest run replayed forward through the executable update of the
    model (Model/C09Replay.v: exact MTTKRP of the data's denotation, exact Gauss-Jordan solve, cp_als's own column scaling) and
    compared with the NEXT recorded factor list (the last one with the returned model).  args["replay"] = "all": every update of
    every sweep + the returned model; otherwise ONE update per sweep (the mode rotates with the sweep and the case's salt), so that
    every sweep of every case and, over the cases, every position of the mode order is replayed.  For an all-integer start the whole
    first sweep is chained through als_sweep as well (later sweeps start from floats: the chained rationals grow to > 10^4 bits).
    Runs on the data AS GIVEN to pyttb (2^k-scaled: the max(., 1) scaling of the later sweeps is not scale-free).  An update whose
    exact Gram-Hadamard matrix has conditioning ratio < COND_MIN is not compared forward (the backward certificate still is).
    Returns (list of Gallina conjuncts, number of replayed updates, number gated)."""
    rec = last_raw.get("rec")
    if not rec or not _rec_numeric(rec) or not _numeric(last_raw["model"]):
        return [], 0, 0
    R = a["rank"]
    D = len(dims)
    mode = a.get("replay", "one")
    salt = int(a.get("replay_salt", 0))
    k2 = int(a.get("scale_exp", 0))
    c = F(2) ** k2
    parts = []
    gated = 0
    done = 0
    K = U9.gqk(last_raw["model"]["weights"], last_raw["model"]["factors"])
    nsw = (len(rec) + D - 1) // D
    for k, call in enumerate(rec):
        it = k // D
        if mode != "all":
            pos = (it + salt) % D
            if it == nsw - 1 and pos == D - 1 and D > 1:
                pos = D - 2              # the last update of the run has no successor record: take its predecessor in the last sweep
            if k % D != pos:
                continue
        n = call["n"]
        Ub = [_frmx(f) for f in call["U"]]
        if U9.cond_ratio(U9.ymat(Ub, n, R)) < COND_MIN:
            gated += 1
            continue
        Ubs = "[" + "; ".join(U9.gqmx(f) for f in call["U"]) + "]"
        if k + 1 < len(rec):
            Uas = "[" + "; ".join(U9.gqmx(f) for f in rec[k + 1]["U"]) + "]"
            parts.append(f"update_replay_ok {TOL} s XR {R} {it} {Ubs} {Uas} {n}")
            done += 1
        elif mode == "all" or D == 1:
            parts.append(f"last_update_replay_ok {TOL} s XR {R} {it} {Ubs} {n} {K}")
            done += 1
    # the whole first sweep through als_sweep, from an all-integer start
    if "f" in a["init"] and len(rec) > D and len(rec) % D == 0:
        ref = _reference(a)
        if ref is not None and ref[2] and ref[1] >= COND_MIN:
            Ubs = "[" + "; ".join(U9.gqmx(f) for f in rec[0]["U"]) + "]"
            Uas = "[" + "; ".join(U9.gqmx(f) for f in rec[D]["U"]) + "]"
            parts.append(f"sweep_replay_ok {TOL} s XR {R} 0 {gnlist(dims)} {Ubs} {Uas}")
    if not parts:
        return [], done, gated
    xr = "X" if k2 == 0 else f"(memo s (xscale {gq(c)} X))"
    return [f"(let XR := {xr} in " + " && ".join(parts) + ")"], done, gated


def _inner_part(a, r, lead):
    """wave 5: pyttb's X.innerprod(M) / X.norm() on the data object and the returned model against the algorithm models of every
    holder class (Model/C09InnerExec.v holder_inner_ok; theorems Props/C09d.v)"""
    if "ip" not in r or isinstance(r["ip"], str) or isinstance(r["nrm"], str) or not _numeric(r["model"]):
        return ""
    K = U9.gqk(r["model"]["weights"], r["model"]["factors"])
    # the innerprod is compared on the runs in which cp_als itself calls it (printing runs, maxiters = 0): a mismatch there is a wrong
    # REPORT; the norm (normX) is used by every run
    chk_ip = int(a.get("printitn", 0)) > 0 or r["m"] == 0
    return (f"{lead}holder_inner_ok {TOL} {gbool(a['data']['kind'] == 'sum')} {gbool(chk_ip)} {U9.gparts(a['data'])} {K} "
            f"{gq(r['ip'])} {gq(r['nrm'])}")


def coq_check(c, o):
    a = c.args
    o_raw = o
    o = _descaled(a, o)
    if c.op == "cp_als_maxiters0":
        # maxiters = 0 is an admissible limit (theorem C09_maxiters0): no sweep; the returned model is the arranged start WITH its
        # weights, iters = 0, the report is the fit of that model, the start comes back untouched
        if "exc" in o:
            return "false"
        r = o["runs"][0]
        if not _numeric(r["model"]) or isinstance(r["fit"], str) or isinstance(r["normres"], str):
            return "false"
        K = U9.gqk(r["model"]["weights"], r["model"]["factors"])
        K0 = U9.gqk(a["init"]["w"], a["init"]["f"])
        fitfn = "fit_ok_sum" if a["data"]["kind"] == "sum" else "fit_ok"
        same = (r["iters"] == 0 and r["data_same"] and r["shape"] == a["data"]["shape"]
                and r["init"]["factors"] == a["init"]["f"] and r["init"]["weights"] == a["init"]["w"]
                and r["given_after"]["factors"] == a["init"]["f"] and r["given_after"]["weights"] == a["init"]["w"]
                and _rerun_same(r))
        return (f"let s := {gnlist(a['data']['shape'])} in let X := memo s {U9.gxden(a['data'])} in let K := {K} in "
                f"k_shape_ok s {a['rank']} K && {fitfn} {TOL} s X K {gq(r['normres'])} {gq(r['fit'])} && normal_form_ok {TOL} K && "
                f"den_close {TOL} s (qden_k K) (qden_k {K0}) && {gbool(same)}" + _inner_part(a, r, " && "))
    ref = _reference(a)
    if ref is not None and (not ref[2] or ref[1] < COND_MIN) and ("exc" not in o or o["exc"] == "LinAlgError"):
        return None                      # ill-conditioned / singular in exact arithmetic (numpy may raise LinAlgError): skipped deterministically
    if "exc" in o:
        return "false"
    shape = a["data"]["shape"]
    R = a["rank"]
    dims = _dims(a)
    nlast = dims[-1]
    is_sum = a["data"]["kind"] == "sum"
    parts = []
    sh = gnlist(shape)
    pre = f"let s := {sh} in let X := memo s {U9.gxden(a['data'])} in "
    fits = []
    for r in o["runs"]:
        if not _numeric(r["model"]) or isinstance(r["fit"], str) or isinstance(r["normres"], str):
            return "false"
        K = U9.gqk(r["model"]["weights"], r["model"]["factors"])
        fitfn = "fit_ok_sum" if is_sum else "fit_ok"
        parts.append(f"(let K := {K} in k_shape_ok s {R} K && {fitfn} {TOL} s X K {gq(r['normres'])} {gq(r['fit'])} && "
                     f"normal_eq_ok {TOL} s X K {nlast} && normal_form_ok {TOL} K)")
        fits.append(r["fit"])
        parts.append(gbool(r["data_same"] and r["shape"] == shape))
        # returned initial guess
        if "seed" in a["init"]:
            exp = r["expected_init"]
            parts.append(gbool(r["init"]["factors"] == exp and all(w == 1 for w in r["init"]["weights"])))
            if r is o["runs"][0] and _numeric(r["init"]):
                # the returned guess IS the start of the captured-stream model: modes in the order 0..N-1, row-major, unit weights
                parts.append(f"qk_eqb (init_random q1 s {R} {U9.gqrow(r['stream'])}) {U9.gqk(r['init']['weights'], r['init']['factors'])}")
        elif "nvecs" in a["init"]:
            # the returned guess has unit weights and the right shape and, supplied again as an explicit start, reproduces the run
            parts.append(gbool(all(w == 1 for w in r["init"]["weights"]) and [len(f) for f in r["init"]["factors"]] == shape
                               and all(len(row) == R for f in r["init"]["factors"] for row in f)))
        else:
            parts.append(gbool(r["init"]["factors"] == a["init"]["f"] and r["init"]["weights"] == a["init"]["w"]
                               and r["given_after"]["factors"] == a["init"]["f"] and r["given_after"]["weights"] == a["init"]["w"]))
        parts.append(gbool(_rerun_same(r)))
    # wave 5: innerprod / norm of the holder (algorithm models) on the returned model of the longest run
    ipart = _inner_part(a, o["runs"][-1], "")
    if ipart:
        parts.append(ipart)
    # monotone trace
    fl = "[" + "; ".join(gq(f) for f in fits) + "]"
    parts.append(f"nonincreasing {TOL} {fl}" if is_sum else f"nondecreasing {TOL} {fl}")
    # iteration count / stop rule
    its = "[" + "; ".join(str(r["iters"]) for r in o["runs"]) + "]%nat"
    ms = "[" + "; ".join(str(r["m"]) for r in o["runs"]) + "]%nat"
    parts.append(f"iters_ok {gq(_eff_stoptol(a))} {fl} {ms} {its}")
    # exact model: first sweep from the given start
    if ref is not None and o["runs"][0]["m"] == 1 and (R <= 2 or (R == 3 and a["data"]["kind"] in ("dense", "sparse"))):
        # (for rank >= 3 on Tucker / sum data and rank 4 the exact Gauss-Jordan sweep in Qc costs 10-90 s and is redundant with the
        # certificate chain below, which checks every recorded update against the exact normal equations)
        r1 = o["runs"][0]
        U0 = "[" + "; ".join(U9.gqmx(f) for f in a["init"]["f"]) + "]"
        K = U9.gqk(r1["model"]["weights"], r1["model"]["factors"])
        parts.append(f"model_close {TOL} s {K} (q_als s X {R} {gnlist(dims)} 1 {U0})")
    # certificate chain over the recorded mode updates of the longest run
    last = o["runs"][-1]
    if "rec" in last:
        rec = last["rec"]
        for k in range(len(rec) - 1):
            w = last["hints"][k]
            if w is None:
                continue
            n = rec[k]["n"]
            Ub = "[" + "; ".join(U9.gqmx(f) for f in rec[k]["U"]) + "]"
            Ua = "[" + "; ".join(U9.gqmx(f) for f in rec[k + 1]["U"]) + "]"
            parts.append(f"update_ok_rel {TOL} s X {R} {Ub} {Ua} {n} {U9.gqrow([F(x) for x in w])}")
        # the order of the recorded modes is the reduced dimorder, repeated
        want = [dims[k % len(dims)] for k in range(len(rec))]
        parts.append(gbool([x["n"] for x in rec] == want and len(rec) == len(dims) * (last["iters"] + 1)))
        # the returned initial guess is the one actually used: the factors of the first mttkrp call are the returned guess's factors
        parts.append(gbool(len(rec) > 0 and rec[0]["U"] == last["init"]["factors"]))
        if REPLAY:
            parts += _replay_parts(a, o_raw["runs"][-1], dims)[0]
    return pre + " && ".join(parts)


# ------------------------------------------------------------------------------------------ brute-force oracle
def oracle(c, o):
    """independent evaluation of the property on pyttb's own output (pure Python, Fractions, all subscripts)"""
    a = c.args
    if "exc" in o:
        ref = _reference(a) if c.op == "cp_als" else None
        if o["exc"] == "LinAlgError" and ref is not None and (not ref[2] or ref[1] < COND_MIN):
            return None                  # the exact sweep from this start is singular as well: outside the rank condition
        return f"admissible request raised {o['exc']}: {o.get('msg')}"
    o = _descaled(a, o)
    shape = a["data"]["shape"]
    X = [F(x) for x in U9.dense_of(a["data"])]
    R = a["rank"]
    nx2 = sum(x * x for x in X)
    dims = _dims(a)
    prev = None
    fits = [r["fit"] for r in o["runs"]]
    if all(not isinstance(f, str) for f in fits) and [r["m"] for r in o["runs"]] == list(range(1, len(fits) + 1)):
        stol = _eff_stoptol(a)
        for r in o["runs"]:
            exp = r["m"] - 1
            for kk in range(1, r["m"]):
                if abs(F(fits[kk - 1]) - F(fits[kk])) < stol:
                    exp = kk
                    break
            if r["iters"] != exp:
                return f"run limited to {r['m']} iterations reports iters={r['iters']} but the stop rule on the fit trace gives {exp}"
    for r in o["runs"]:
        k = r["model"]
        if not _numeric(k):
            return "non-finite numbers in the returned model"
        if isinstance(r["fit"], str) or isinstance(r["normres"], str):
            return f"reported fit / normresidual is not a finite number: fit={r['fit']} normresidual={r['normres']}"
        if len(k["weights"]) != R or [len(f) for f in k["factors"]] != shape:
            return "returned model has the wrong rank or shape"
        w = [F(x) for x in k["weights"]]
        Us = [[[F(x) for x in row] for row in f] for f in k["factors"]]
        M = U9.kfull(shape, w, Us)
        res2 = sum((x - m) ** 2 for x, m in zip(X, M))
        tol = F(1, 10 ** 6)
        if a["data"]["kind"] != "sum":
            if abs(F(r["normres"]) ** 2 - res2) > tol * max(1, nx2):
                return f"reported normresidual {float(r['normres'])} but ||X-M||^2 = {float(res2)}"
            if nx2 != 0 and abs((1 - F(r["fit"])) ** 2 * nx2 - res2) > tol * max(1, nx2):
                return f"reported fit {float(r['fit'])} inconsistent with ||X-M||/||X||"
            if prev is not None and F(r["fit"]) < prev - tol:
                return f"fit got worse: {float(prev)} -> {float(r['fit'])}"
            prev = F(r["fit"])
        else:
            val = sum(m * m for m in M) - 2 * sum(x * m for x, m in zip(X, M))
            sc = max(F(1), abs(val), sum(m * m for m in M))
            if abs(F(r["fit"]) - val) > tol * sc or abs(F(r["normres"]) - val) > tol * sc:
                return f"sum-tensor data: reported {float(r['fit'])} but ||M||^2 - 2<X,M> = {float(val)}"
            if prev is not None and F(r["fit"]) > prev + tol * max(1, abs(prev)):
                return f"||M||^2 - 2<X,M> increased: {float(prev)} -> {float(r['fit'])}"
            prev = F(r["fit"])
        if any(x < 0 for x in w) or any(w[i] < w[i + 1] for i in range(len(w) - 1)):
            return f"weights not non-negative decreasing: {[float(x) for x in w]}"
        for A in Us:
            for rr in range(R):
                cs = sum(row[rr] ** 2 for row in A)
                if cs != 0 and abs(cs - 1) > tol:
                    return f"factor column not unit: squared norm {float(cs)}"
        if r["iters"] > max(r["m"] - 1, 0):
            return "iteration count exceeds the limit"
        if r["m"] == 0:
            M0 = U9.kfull(shape, [F(x) for x in a["init"]["w"]], [[[F(x) for x in row] for row in f] for f in a["init"]["f"]])
            if any(abs(x - y) > tol * max(1, max(abs(v) for v in M0)) for x, y in zip(M, M0)):
                return "maxiters=0: the returned model is not the model of the initial guess"
            continue                      # no update ran: no normal equations to check
        if not r["data_same"]:
            return "data object was modified"
        if "f" in a["init"]:
            if r["given_after"]["factors"] != a["init"]["f"] or r["given_after"]["weights"] != a["init"]["w"]:
                return "the caller's initial guess was modified by the call"
            if r["init"]["factors"] != a["init"]["f"] or r["init"]["weights"] != a["init"]["w"]:
                return "the returned initial guess is not the guess that was supplied / used"
        if "rerun" in r and not _rerun_same(r):
            return ("a second call on the same data object with the returned initial guess as explicit start does not reproduce the run "
                    "(the returned guess is not the one used, or the first call left a trace in the data / guess / hidden state)")
        if r.get("rec") and r["rec"][0]["U"] != r["init"]["factors"]:
            return "the returned initial guess is not the one actually used: the first mttkrp call received different factor matrices"
        # normal equations of the mode updated last
        n = dims[-1]
        P = U9.mttkrp(shape, X, Us, n, R)
        Y = U9.ymat(Us, n, R)
        sc = max([F(1)] + [abs(x) for row in P for x in row])
        for j in range(shape[n]):
            for t in range(R):
                lhs = sum(w[q] * Us[n][j][q] * Y[q][t] for q in range(R))
                if abs(lhs - P[j][t]) > tol * sc * 10:
                    return f"normal equations of mode {n} violated at ({j},{t}): {float(lhs)} vs {float(P[j][t])}"
    return None


# ------------------------------------------------------------------------------------------ known findings
def _trig_sparse_nvecs(c):
    """sparse data, init='nvecs', and some mode takes sptensor.nvecs' iterative branch (r < I_n - 1): scipy eigs returns complex128"""
    a = c.args
    return (c.op == "cp_als" and a["data"]["kind"] == "sparse" and "nvecs" in a["init"]
            and any(a["rank"] < d - 1 for d in a["data"]["shape"]))


TRIGGERS = {"sparse_nvecs_iterative": _trig_sparse_nvecs}


def _wit_nvecs_sparse():
    import numpy as np
    import pyttb as ttb
    subs = np.array([[2, 0, 0], [0, 1, 0], [1, 1, 0], [2, 2, 0], [0, 1, 1]])
    vals = np.array([[2.0], [-1.0], [1.0], [4.0], [-3.0]])
    X = ttb.sptensor(subs, vals, (3, 3, 2), copy=True)
    try:
        with contextlib.redirect_stdout(io.StringIO()):
            ttb.cp_als(X, 1, init="nvecs", maxiters=2, printitn=0)
    except AssertionError as ex:
        return f"cp_als(sptensor 3x3x2, 1, init='nvecs') raises AssertionError: {ex}"
    except Exception as ex:
        return f"raises {type(ex).__name__}: {ex}"
    return None


WITNESSES = {"C09-NVECS-SPARSE": _wit_nvecs_sparse}
CORRESPONDENCE_ONLY = ["numpy's norm / argsort meeting the oracle contracts of C09_normal_form (normal form checked on every sampled output)",
                       "numpy.random.uniform delivering one sequential stream (init='random' itself is proved over a captured stream: "
                       "C09_init_random_*; the returned guess is compared in Coq with init_random of the captured stream)",
                       "init='nvecs' (returned guess = guess used; the vectors themselves are C14's)",
                       "LAPACK solve meeting A.Y = P and numpy's 2-norm / max / division / sqrt kernels (replayed forward and certified backward "
                       "on every sampled run); innerprod / norm of every holder inside cp_als (normX, the printing branch, maxiters = 0) are "
                       "PROVED since wave 5 (Props/C09d.v over C02's ttv / innerprod / norm algorithm models; the square root is an oracle) and "
                       "compared with pyttb's own X.innerprod(M) / X.norm() on every sampled run; "
                       "tensor / sptensor / ktensor / ttensor / sumtensor.mttkrp are PROVED (C02 algorithm models, bridged by C09_holder_*), "
                       "the inner and outer loops of cp_als are tied to the source through the generated skeleton (C09_gen_sweep_bridge, "
                       "W4S_C09_cpals_bridge)"]
ASSUMPTIONS = ["IEEE-754 rounding, LAPACK solve, sqrt and numpy.random are oracles: theorems are exact-arithmetic; real runs are sampled",
               "tolerance 1e-6 relative for the exact recomputation of sampled runs; ill-conditioned cases skipped (exact rule in RULE)"]
EXPLANATION = ("PARTIAL: the for-all-inputs part is carried by exact-arithmetic theorems about the CP-ALS model; pyttb's real runs are "
               "validated against that model by exact-rational recomputation in Coq on generated cases.")
