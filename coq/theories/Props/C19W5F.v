(* Props/C19W5F.v — C19 over the GENERATED classmethod ktensor.from_vector(data, shape, contains_weights) (Gen/GenKtensor4b.v,
   regenerated from pyttb/ktensor.py on every run): for a shape with at least one mode and positive sizes the generated method
   raises exactly when guard_from_vector rejects = exactly when len(data) is not a multiple of sum(shape) [+ 1]; after the length
   test nothing can fail (the blocks fit, the constructor accepts).  Only statements, `exact`, Print Assumptions. *)
From Coq Require Import List ZArith Bool.
From PV Require Import Np.NpZ Np.NpZ3 Np.NpZ4 Gen.GenKtensor4b Model.C19Guards Proofs.C19W5F.
Import ListNotations.
Local Open Scope Z_scope.

Theorem C19_from_vector_gen : forall (data shape : vec) (cw : bool),
  shape <> [] -> (forall x, In x shape -> 0 < x) ->
  okres (ktensor_from_vector tt data shape cw) = guard_from_vector (zlen data) shape cw /\
  okres (ktensor_from_vector tt data shape cw) = decide (pre_from_vector (zlen data) shape cw).
Proof. exact from_vector_gen_guard. Qed.
Print Assumptions C19_from_vector_gen.

Theorem C19_from_vector_gen_answers : forall (data shape : vec) (cw : bool),
  shape <> [] -> (forall x, In x shape -> 0 < x) -> pre_from_vector (zlen data) shape cw = true ->
  exists k, ktensor_from_vector tt data shape cw = Ok k.
Proof. exact from_vector_gen_answers. Qed.
Print Assumptions C19_from_vector_gen_answers.

Example C19_from_vector_gen_ex2 :
  okres (ktensor_from_vector tt [1; 2; 3; 4; 5; 6; 7; 8; 9; 10; 11; 12] [2; 3] true) = Ok tt /\
  okres (ktensor_from_vector tt [1; 2; 3; 4; 5; 6; 7; 8; 9; 10; 11] [2; 3] true) = Err /\
  okres (ktensor_from_vector tt [] [2; 3] false) = Ok tt.
Proof. repeat split; reflexivity. Qed.
