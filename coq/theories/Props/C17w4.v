(* Props/C17w4.v — C17, wave 4: np.argsort tie order as a theorem (audit E); exact request-level triggers of the open
   findings A-41 and C17-WRAP-UINT over the generated helpers. Only `exact` proofs here. *)
From Coq Require Import List ZArith Arith Bool Permutation Sorted.
From PV Require Import Base.Index Np.NpZ Np.NpZ2 Proofs.NpZProofs Gen.GenUtils Gen.GenUtils2 Proofs.RowsProofs Proofs.C03Rows
  Proofs.GenRows Proofs.C17Dup Proofs.GenWrapDims Proofs.C17Argsort Proofs.C17A41.
Import ListNotations.
Local Open Scope Z_scope.

(* np_argsort (the model of np.argsort(kind="stable") used by every generated helper): a permutation of the positions that
   sorts the keys, ordered by (key, position) — equal keys keep their order — and the only permutation ordered that way;
   for keys without repetition (every np.argsort call of pyttb_utils) it is the only valid argsort at all *)
Theorem C17_argsort_stable : forall l : vec,
  Permutation (np_argsort l) (map Z.of_nat (seq 0 (length l))) /\
  np_take 0 l (np_argsort l) = np_sort l /\ Sorted Z.le (np_sort l) /\
  StronglySorted (keylt l) (np_argsort l) /\
  (forall p, Permutation p (map Z.of_nat (seq 0 (length l))) -> StronglySorted (keylt l) p -> p = np_argsort l) /\
  (NoDup l -> forall p, valid_argsort l p -> p = np_argsort l).
Proof. exact argsort_stable_all. Qed.
Print Assumptions C17_argsort_stable.

Theorem C17_argsort_valid : forall l : vec, valid_argsort l (np_argsort l).
Proof. exact np_argsort_valid. Qed.
Print Assumptions C17_argsort_valid.

(* with repeated keys a valid argsort need not be the stable one (why the default kind is only checked for validity) *)
Theorem C17_argsort_ties_not_unique : valid_argsort [1; 1] [1; 0] /\ [1; 0] <> np_argsort [1; 1].
Proof. exact argsort_other_valid. Qed.
Print Assumptions C17_argsort_ties_not_unique.

(* A-41: the generated tt_intersect_rows meets its full contract (A[result] = distinct common rows in B's order) exactly on
   the requests outside a41_trigger *)
Theorem C17_a41_intersect_exact : forall A B : mat, okw A -> okw B ->
  ((exists idx, tt_intersect_rows A B = Ok idx /\ np_take [] A idx = filter (inrows A) (dedup B))
   <-> a41_trigger A B = false).
Proof. exact a41_intersect_exact. Qed.
Print Assumptions C17_a41_intersect_exact.

Theorem C17_a41_trigger_nodup : forall A B : mat, NoDup A -> okw A -> okw B -> a41_trigger A B = false.
Proof. exact a41_trigger_nodup. Qed.
Print Assumptions C17_a41_trigger_nodup.

(* ... and tt_setdiff_rows meets its full contract (A[result] = the distinct rows of A not in B) on every request outside it *)
Theorem C17_a41_setdiff_outside : forall A B : mat, okw A -> okw B -> a41_trigger A B = false ->
  exists idx, tt_setdiff_rows A B = Ok idx /\ np_take [] A idx = filter (fun r => negb (inrows B r)) (dedup A).
Proof. exact a41_setdiff_outside. Qed.
Print Assumptions C17_a41_setdiff_outside.

(* C17-WRAP-UINT: the request of the finding, answered over unbounded integers *)
Theorem C17_wrapdims_bc0 : forall N : Z, 1 <= N ->
  gather_wrap_dims N (Some [0]) None (Some CycBC) = Ok ([0], np_arange_down (N - 1) 0).
Proof. exact wrapdims_bc0. Qed.
Print Assumptions C17_wrapdims_bc0.
