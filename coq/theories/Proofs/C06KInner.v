(* Proofs/C06KInner.v — wave 4: innerprod of a sparse tensor with a Kruskal tensor (Model/C06W4.v impl_innerprod_sp_k: per component
   a sptensor.ttv over all modes, accumulated with the weights) does not depend on the stored order of the sparse operand. *)
From Coq Require Import List Arith Lia Bool Permutation Ring.
From PV Require Import Base.Index Base.Perm Base.Sum Np.Array Model.Sparse Model.Repr Model.C03Ops Model.C06Ops Model.C02Spec Model.C02SpMore Model.C06W4
                       Proofs.C06Kernels.
Import ListNotations.

Lemma fold_left_ext2 {A B} (f g : A -> B -> A) l a : (forall a b, f a b = g a b) -> fold_left f l a = fold_left g l a.
Proof. intros H. revert a. induction l as [|b l IH]; intros a; cbn; auto. now rewrite H, IH. Qed.

Section KInnerP.
Variable V : Type.
Variables (v0 v1 : V) (vadd vmul vsub : V -> V -> V) (vopp : V -> V).
Hypothesis Vring : ring_theory v0 v1 vadd vmul vsub vopp (@eq V).
Variable isz : V -> bool.

Theorem indep_innerprod_kruskal (S S' : sparse V) (K : ktensor V) : reordered V isz S S' ->
  impl_innerprod_sp_k v0 v1 vadd vmul S K = impl_innerprod_sp_k v0 v1 vadd vmul S' K.
Proof.
  intros (_ & _ & Hs & P). unfold impl_innerprod_sp_k. apply fold_left_ext2. intros acc r. do 2 f_equal.
  unfold impl_ttv_sp. rewrite Hs. apply (sum_over_perm V v0 v1 vadd vmul vsub vopp Vring). exact P.
Qed.
End KInnerP.
