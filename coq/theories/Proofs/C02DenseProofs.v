(* Proofs/C02DenseProofs.v — the dense kernels of Model/C02Dense.v equal the spec of Model/C02Spec.v
   applied to the denotation of their operand, for all shapes and all values of a commutative ring. *)
From Coq Require Import List Arith Lia Bool Permutation Ring.
From PV Require Import Base.Index Base.Perm Base.Sum Np.Array Model.Sparse Model.Repr Model.C02Spec Model.C02Dense.
Import ListNotations.

(* ---------------------------------------------------------------- index helpers (no ring) *)

Lemma sub2ind_snoc s B i b : length i = length s ->
  sub2ind (s ++ [B]) (i ++ [b]) = sub2ind s i + size s * b.
Proof. intros H. rewrite sub2ind_app by auto. cbn [sub2ind]. f_equal. f_equal. lia. Qed.

Lemma inb_snoc s B i b : length i = length s ->
  inb (s ++ [B]) (i ++ [b]) = inb s i && (b <? B).
Proof. intros H. rewrite inb_app by auto. cbn [inb]. now rewrite andb_true_r. Qed.

Lemma size_snoc s B : size (s ++ [B]) = size s * B.
Proof. rewrite size_app. cbn. lia. Qed.

Section P.
Variable V : Type.
Variables (v0 v1 : V) (vadd vmul vsub : V -> V -> V) (vopp : V -> V).
Hypothesis Vring : ring_theory v0 v1 vadd vmul vsub vopp (@eq V).
Add Ring Vr2 : Vring.

Local Notation "x + y" := (vadd x y).
Local Notation "x * y" := (vmul x y).
Local Notation den := (den_dense v0).
Local Notation Sn := (sum_n v0 vadd).
Local Notation smodes := (sum_modes v0 vadd vmul).

(* data list [data] read as an array of shape s *)
Definition dv (s : shape) (data : list V) (i : idx) : V := den (mkDense s data) i.

Lemma dv_in s data i : inb s i = true -> dv s data i = nth (sub2ind s i) data v0.
Proof. intros H. unfold dv, den_dense. cbn [dshape ddata]. now rewrite H. Qed.

(* ---------------------------------------------------------------- sum_modes *)

Lemma sum_modes_ext sizes : forall vs g g', length vs = length sizes ->
  (forall ks, inb sizes ks = true -> g ks = g' ks) -> smodes sizes vs g = smodes sizes vs g'.
Proof.
  induction sizes as [|d sizes IH]; intros [|v vs] g g' HL H; cbn in HL; try discriminate; cbn [sum_modes].
  - apply H. reflexivity.
  - apply sum_n_ext. intros k Hk. f_equal. apply IH; [lia|]. intros ks Hks. apply H.
    cbn [inb]. rewrite Hks. apply Nat.ltb_lt in Hk. now rewrite Hk.
Qed.

Lemma sum_modes_snoc sizes : forall vs d v g, length vs = length sizes ->
  smodes (sizes ++ [d]) (vs ++ [v]) g =
  smodes sizes vs (fun ks => Sn d (fun b => g (ks ++ [b]) * nth b v v0)).
Proof.
  induction sizes as [|d0 sizes IH]; intros [|w vs] d v g HL; cbn in HL; try discriminate.
  - reflexivity.
  - cbn [app sum_modes]. apply sum_n_ext. intros k _. f_equal. rewrite IH by lia. reflexivity.
Qed.

(* ---------------------------------------------------------------- matvec on the last mode *)

Lemma matvec_len (c : dense V) v : length (ddata (matvec v0 vadd vmul c v)) = nth 0 (dshape c) 0.
Proof. unfold matvec. cbn [ddata]. now rewrite map_length, seq_length. Qed.

Lemma matvec_nth A B data v a : a < A ->
  nth a (ddata (matvec v0 vadd vmul (mkDense [A; B] data) v)) v0 =
  Sn B (fun b => nth (a + A * b) data v0 * nth b v v0).
Proof.
  intros H. unfold matvec. cbn [dshape ddata nth].
  set (F := fun a0 => Sn B (fun b => nth (a0 + A * b) data v0 * nth b v v0)).
  rewrite (nth_indep _ v0 (F 0)) by (now rewrite map_length, seq_length).
  rewrite (map_nth F). now rewrite seq_nth.
Qed.

(* ---------------------------------------------------------------- the ttv loop *)

Lemma ttv_loop_spec : forall vs_rev sizes_rev s' (c : dense V),
  length sizes_rev = length vs_rev ->
  wf_dense c -> size (dshape c) = size (s' ++ rev sizes_rev) ->
  let r := ttv_loop v0 vadd vmul c (s' ++ rev sizes_rev) vs_rev in
  snd r = s' /\ length (ddata (fst r)) = size s' /\
  forall i', inb s' i' = true ->
    nth (sub2ind s' i') (ddata (fst r)) v0 =
    smodes (rev sizes_rev) (rev vs_rev) (fun ks => dv (s' ++ rev sizes_rev) (ddata c) (i' ++ ks)).
Proof.
  induction vs_rev as [|v r IH]; intros [|d sr] s' c HL W Hs; cbn in HL; try discriminate.
  - cbn [rev ttv_loop fst snd sum_modes]. rewrite app_nil_r in *. repeat split; auto.
    + unfold wf_dense in W. lia.
    + intros i' Hi. rewrite app_nil_r. now rewrite dv_in.
  - cbn [rev]. rewrite app_assoc. set (l := s' ++ rev sr).
    cbn [ttv_loop]. rewrite removelast_last, last_last.
    assert (Hsz : size [size l; d] = size (dshape c)).
    { rewrite Hs. cbn [rev]. rewrite app_assoc. fold l. rewrite size_snoc. cbn. lia. }
    set (c2 := np_reshapeF v0 c [size l; d]).
    assert (Hc2 : c2 = mkDense [size l; d] (ddata c)).
    { unfold c2. rewrite <- (np_reshapeF_data v0 c [size l; d] W Hsz). reflexivity. }
    rewrite Hc2.
    set (c3 := matvec v0 vadd vmul (mkDense [size l; d] (ddata c)) v).
    assert (W3 : wf_dense c3).
    { unfold wf_dense. unfold c3. rewrite matvec_len. unfold matvec. cbn. lia. }
    assert (Hs3 : size (dshape c3) = size (s' ++ rev sr)).
    { unfold c3, matvec. cbn. fold l. lia. }
    specialize (IH sr s' c3 ltac:(lia) W3 Hs3). cbn zeta in IH. unfold l.
    destruct IH as (E1 & E2 & E3). repeat split; auto.
    intros i' Hi. rewrite E3 by auto.
    rewrite sum_modes_snoc by (rewrite !rev_length; lia).
    apply sum_modes_ext; [rewrite !rev_length; lia|].
    intros ks Hks. fold l.
    assert (Hin : inb l (i' ++ ks) = true).
    { unfold l. rewrite inb_app by (now apply inb_length). now rewrite Hi, Hks. }
    assert (HLen : length (i' ++ ks) = length l) by (now apply inb_length).
    rewrite dv_in by auto. unfold c3. rewrite matvec_nth by (now apply sub2ind_lt).
    apply sum_n_ext. intros b Hb. f_equal.
    rewrite app_assoc.
    rewrite dv_in.
    + now rewrite sub2ind_snoc.
    + rewrite inb_snoc by auto. rewrite Hin. apply Nat.ltb_lt in Hb. now rewrite Hb.
Qed.

(* np.transpose of a 0-/1-way array along the only permutation is the identity *)
Lemma np_transpose_small (X : dense V) p : wf_dense X -> length (dshape X) <= 1 ->
  is_perm p (length (dshape X)) -> np_transpose v0 X p = X.
Proof.
  intros W HN Hp. destruct X as [s data]. cbn [dshape] in *.
  destruct s as [|d [|? ?]]; cbn [length] in *; try lia.
  - unfold is_perm in Hp. cbn [seq] in Hp. apply Permutation_sym, Permutation_nil in Hp. subst p.
    apply (dense_ext v0); [apply wf_tabulate|exact W|reflexivity|].
    intros i Hi. unfold np_transpose in *. cbn [dshape] in *. change (pick 0 [] (@nil nat)) with (@nil nat) in *.
    rewrite den_tabulate by auto.
    destruct i; [reflexivity|discriminate].
  - unfold is_perm in Hp. cbn [seq] in Hp. apply Permutation_sym, Permutation_length_1_inv in Hp. subst p.
    apply (dense_ext v0); [apply wf_tabulate|exact W|reflexivity|].
    intros i Hi. unfold np_transpose in *. cbn [dshape] in *. change (pick 0 [0] [d]) with [d] in *.
    rewrite den_tabulate by auto.
    rewrite dshape_tabulate in Hi.
    destruct i as [|x [|? ?]]; cbn [inb] in Hi; try discriminate; [reflexivity|].
    destruct (x <? d) in Hi; discriminate.
Qed.

(* ---------------------------------------------------------------- tensor.ttv *)

Theorem impl_ttv_dense_correct (X : dense V) dims vs :
  wf_dense X -> length vs = length dims ->
  is_perm (compl (length (dshape X)) dims ++ dims) (length (dshape X)) ->
  let Y := impl_ttv_dense v0 vadd vmul X dims vs in
  dshape Y = ttv_shape (dshape X) dims /\ wf_dense Y /\
  forall i', inb (ttv_shape (dshape X) dims) i' = true ->
    den Y i' = spec_ttv v0 vadd vmul (den X) (dshape X) dims vs i'.
Proof.
  intros W HL Hp. unfold impl_ttv_dense.
  set (N := length (dshape X)) in *. set (rem := compl N dims) in *.
  set (p := rem ++ dims) in *.
  assert (Hc : (if 1 <? N then np_transpose v0 X p else X) = np_transpose v0 X p).
  { destruct (Nat.ltb_spec 1 N); [reflexivity|]. symmetry. apply np_transpose_small; auto; unfold N in *; lia. }
  rewrite Hc. clear Hc.
  assert (Hsz : pick 0 p (dshape X) = ttv_shape (dshape X) dims ++ rev (rev (pick 0 dims (dshape X)))).
  { rewrite rev_involutive. unfold p, pick, ttv_shape. now rewrite map_app. }
  rewrite Hsz.
  pose proof (ttv_loop_spec (rev vs) (rev (pick 0 dims (dshape X))) (ttv_shape (dshape X) dims)
                (np_transpose v0 X p)) as L.
  assert (W0 : wf_dense (np_transpose v0 X p)) by apply wf_tabulate.
  specialize (L ltac:(rewrite !rev_length, pick_length; lia) W0).
  assert (Hs0 : size (dshape (np_transpose v0 X p)) =
                size (ttv_shape (dshape X) dims ++ rev (rev (pick 0 dims (dshape X))))).
  { unfold np_transpose. rewrite dshape_tabulate. now rewrite Hsz. }
  specialize (L Hs0). cbn zeta in L.
  destruct (ttv_loop v0 vadd vmul (np_transpose v0 X p) _ (rev vs)) as [c' sz'] eqn:E.
  cbn [fst snd] in L. destruct L as (-> & HLen & Hval).
  cbn zeta. split; [reflexivity|]. split; [apply wf_tabulate|].
  intros i' Hi. unfold np_reshapeF. rewrite den_tabulate by auto.
  rewrite Hval by auto. rewrite !rev_involutive. unfold spec_ttv.
  apply sum_modes_ext; [rewrite pick_length; lia|].
  intros ks Hks.
  assert (Hin : inb (pick 0 p (dshape X)) (i' ++ ks) = true).
  { rewrite Hsz, rev_involutive. rewrite inb_app by (now apply inb_length). now rewrite Hi, Hks. }
  rewrite <- (rev_involutive (pick 0 dims (dshape X))), <- Hsz.
  rewrite dv_in by auto.
  unfold np_transpose in *. cbn [ddata tabulate].
  change (map (fun k => den X (pick 0 (invperm p) (ind2sub (pick 0 p (dshape X)) k))) (seq 0 (size (pick 0 p (dshape X)))))
    with (ddata (tabulate (pick 0 p (dshape X)) (fun i => den X (pick 0 (invperm p) i)))).
  rewrite nth_tabulate by (now apply sub2ind_lt). rewrite ind2sub_sub2ind by auto. reflexivity.
Qed.

End P.
