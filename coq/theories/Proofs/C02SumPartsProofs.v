(* Proofs/C02SumPartsProofs.v — sumtensor.innerprod / mttkrp / ttv AS EXECUTED part by part (Model/C02SumParts.v), every part with the
   algorithm model of its own class, return the defining sum for the array the sumtensor denotes; and ktensor.innerprod with a dense / sparse /
   Tucker operand (weights[r] * other.ttv(columns r), the operand's own ttv model) is the inner product of the denoted arrays. *)
From Coq Require Import List Arith Lia Bool Ring Permutation.
From PV Require Import Base.Index Base.Perm Base.Sum Np.Array Model.Sparse Model.Repr Model.C02Spec Model.C02Dense Model.C02Sparse
                       Model.C02Kruskal Model.C02SpKernels Model.C02SpMore Model.C02KruskalMore Model.C02Tucker Model.C02TuckerFull
                       Model.C02SumParts
                       Proofs.C02DenseProofs Proofs.C02SparseProofs Proofs.C02ModesProofs Proofs.C02MttkrpProofs Proofs.C02KruskalProofs
                       Proofs.C02SpKernelsProofs Proofs.C02IndicatorProofs Proofs.C02AbsorbProofs Proofs.C02SpMoreProofs Proofs.C02KruskalMoreProofs Proofs.C02TuckerProofs
                       Proofs.C02TuckerTtvProofs Proofs.C02TuckerMttkrpProofs Proofs.C02TuckerFullProofs Proofs.C02KruskalAnyProofs
                       Proofs.C02TuckerSpProofs.
Import ListNotations.

Section P.
Variable V : Type.
Variables (v0 v1 : V) (vadd vmul vsub : V -> V -> V) (vopp : V -> V).
Hypothesis Vring : ring_theory v0 v1 vadd vmul vsub vopp (@eq V).
Variable isz : V -> bool.
Add Ring Vr_sumparts : Vring.

Local Notation sip := (spec_innerprod v0 vadd vmul).
Local Notation ipcomm := (spec_innerprod_comm V v0 v1 vadd vmul vsub vopp Vring).

Lemma fcols_kcols As r : fcols v0 As r = kcols V v0 As r.
Proof. reflexivity. Qed.

Lemma fcols_length As r : length (fcols v0 As r) = length As.
Proof. unfold fcols. now rewrite map_length. Qed.

Lemma kshape_length (K : ktensor V) : length (kshape K) = length (kfactors K).
Proof. unfold kshape. now rewrite map_length. Qed.

Lemma tshape_length (T : ttensor V) : length (tshape T) = length (tfactors T).
Proof. unfold tshape. now rewrite map_length. Qed.

Lemma ttv_shape_all s : ttv_shape s (seq 0 (length s)) = [].
Proof. unfold ttv_shape. now rewrite compl_all. Qed.

(* ---------------------------------------------------------------- ktensor.innerprod(other), other dense / sparse / Tucker *)
Lemma innerprod_k_via (K : ktensor V) (g : idx -> V) ttv0 :
  (forall r, r < krank K ->
     ttv0 (seq 0 (length (kfactors K))) (fcols v0 (kfactors K) r) =
     spec_ttv v0 vadd vmul g (kshape K) (seq 0 (length (kfactors K))) (fcols v0 (kfactors K) r) []) ->
  impl_innerprod_k_via v0 vadd vmul K ttv0 = sip g (den_k v0 v1 vadd vmul K) (kshape K).
Proof.
  intros H. unfold impl_innerprod_k_via.
  rewrite <- (innerprod_k_any V v0 v1 vadd vmul vsub vopp Vring K g).
  apply sum_n_ext. intros r Hr. now rewrite (H r Hr).
Qed.

Theorem impl_innerprod_k_dense_correct (K : ktensor V) (X : dense V) :
  wf_dense X -> dshape X = kshape K ->
  impl_innerprod_k_dense v0 vadd vmul K X = sip (den_k v0 v1 vadd vmul K) (den_dense v0 X) (kshape K).
Proof.
  intros W E. rewrite ipcomm. unfold impl_innerprod_k_dense. apply innerprod_k_via. intros r _.
  assert (EN : length (kfactors K) = length (dshape X)) by (now rewrite E, kshape_length).
  rewrite EN, <- E.
  destruct (impl_ttv_dense_correct V v0 vadd vmul X (seq 0 (length (dshape X))) (fcols v0 (kfactors K) r) W) as (_ & _ & D).
  - now rewrite fcols_length, seq_length.
  - apply compl_perm; [apply seq_NoDup|]. intros x Hx. apply in_seq in Hx. lia.
  - apply D. now rewrite ttv_shape_all.
Qed.

Theorem impl_innerprod_k_sp_correct (K : ktensor V) (S : sparse V) :
  wf_sp isz S -> sshape S = kshape K ->
  impl_innerprod_k_sp v0 v1 vadd vmul K S = sip (den_k v0 v1 vadd vmul K) (den_sp v0 S) (kshape K).
Proof.
  intros W E. rewrite ipcomm. unfold impl_innerprod_k_sp. apply innerprod_k_via. intros r _.
  assert (EN : length (kfactors K) = length (sshape S)) by (now rewrite E, kshape_length).
  rewrite EN, <- E.
  apply (impl_ttv_sp_correct V v0 v1 vadd vmul vsub vopp Vring isz); auto.
  - apply seq_NoDup.
  - intros x Hx. apply in_seq in Hx. lia.
  - now rewrite fcols_length, seq_length.
  - now rewrite ttv_shape_all.
Qed.

Theorem impl_innerprod_k_t_correct (K : ktensor V) (T : ttensor V) :
  wf_dense (tcore T) -> length (dshape (tcore T)) = length (tfactors T) -> tshape T = kshape K ->
  impl_innerprod_k_t v0 v1 vadd vmul K T = sip (den_k v0 v1 vadd vmul K) (den_t v0 v1 vadd vmul T) (kshape K).
Proof.
  intros W L E. rewrite ipcomm. unfold impl_innerprod_k_t. apply innerprod_k_via. intros r _.
  assert (EN : length (kfactors K) = length (tfactors T)) by (now rewrite <- tshape_length, E, kshape_length).
  rewrite EN, <- E.
  apply (impl_ttv_t_correct V v0 v1 vadd vmul vsub vopp Vring); auto.
  - apply seq_NoDup.
  - intros x Hx. apply in_seq in Hx. lia.
  - now rewrite fcols_length, seq_length.
  - rewrite <- tshape_length. now rewrite ttv_shape_all.
Qed.

(* ---------------------------------------------------------------- parts *)
Lemma sum_parts (parts : list (part (V := V))) (F : (idx -> V) -> V) (G : part -> V) :
  (forall p, In p parts -> G p = F (den_part v0 v1 vadd vmul p)) ->
  sum_over v0 vadd parts G = sum_over v0 vadd (map (den_part v0 v1 vadd vmul) parts) F.
Proof.
  intros H. rewrite (sum_over_map V v0 vadd). now apply sum_over_ext.
Qed.

(* sumtensor.innerprod(Y), Y dense *)
Theorem impl_innerprod_sum_dense_correct (parts : list part) (Y : dense V) s :
  Forall (wf_part isz s) parts -> wf_dense Y -> dshape Y = s ->
  impl_innerprod_sum_dense v0 vadd vmul parts Y =
  sip (den_parts v0 vadd (map (den_part v0 v1 vadd vmul) parts)) (den_dense v0 Y) s.
Proof.
  intros HW WY EY. rewrite (spec_innerprod_sum V v0 v1 vadd vmul vsub vopp Vring).
  unfold impl_innerprod_sum_dense. apply sum_parts. intros p Hp.
  rewrite Forall_forall in HW. destruct (HW p Hp) as (Es & Wp).
  destruct p as [X|A|K|T]; cbn [part_shape den_part impl_innerprod_part_dense] in *.
  - rewrite <- Es. apply (impl_innerprod_dense_correct V v0 vadd vmul); auto. congruence.
  - rewrite <- Es. now apply (impl_innerprod_sp_dense_correct V v0 v1 vadd vmul vsub vopp Vring isz).
  - rewrite <- Es. apply impl_innerprod_k_dense_correct; auto. congruence.
  - rewrite <- Es. destruct Wp as (Wc & Lc).
    apply (impl_innerprod_t_dense_correct V v0 v1 vadd vmul vsub vopp Vring); auto. congruence.
Qed.

(* sumtensor.innerprod(S), S sparse *)
Theorem impl_innerprod_sum_sp_correct (parts : list part) (S : sparse V) s :
  Forall (wf_part isz s) parts -> 1 <= length s -> wf_sp isz S -> sshape S = s ->
  impl_innerprod_sum_sp v0 v1 vadd vmul (impl_innerprod_t_sp V v0 vadd vmul) parts S =
  sip (den_parts v0 vadd (map (den_part v0 v1 vadd vmul) parts)) (den_sp v0 S) s.
Proof.
  intros HW Hs WS ES. rewrite (spec_innerprod_sum V v0 v1 vadd vmul vsub vopp Vring).
  unfold impl_innerprod_sum_sp. apply sum_parts. intros p Hp.
  rewrite Forall_forall in HW. destruct (HW p Hp) as (Es & Wp).
  destruct p as [X|A|K|T]; cbn [part_shape den_part impl_innerprod_part_sp] in *.
  - rewrite ipcomm, <- ES. now apply (impl_innerprod_sp_dense_correct V v0 v1 vadd vmul vsub vopp Vring isz).
  - rewrite <- Es. apply (impl_innerprod_sp_sp_correct V v0 v1 vadd vmul vsub vopp Vring isz); auto. congruence.
  - rewrite <- Es. apply impl_innerprod_k_sp_correct; auto. congruence.
  - rewrite <- Es. destruct Wp as (Wc & Lc).
    apply (impl_innerprod_t_sp_correct V v0 v1 vadd vmul vsub vopp Vring isz); auto; try congruence.
    rewrite <- tshape_length, Es. exact Hs.
Qed.

(* sumtensor.innerprod(K), K Kruskal *)
Theorem impl_innerprod_sum_k_correct (parts : list part) (K : ktensor V) s :
  Forall (wf_part isz s) parts -> kshape K = s ->
  impl_innerprod_sum_k v0 v1 vadd vmul parts K =
  sip (den_parts v0 vadd (map (den_part v0 v1 vadd vmul) parts)) (den_k v0 v1 vadd vmul K) s.
Proof.
  intros HW EK. rewrite (spec_innerprod_sum V v0 v1 vadd vmul vsub vopp Vring).
  unfold impl_innerprod_sum_k. apply sum_parts. intros p Hp.
  rewrite Forall_forall in HW. destruct (HW p Hp) as (Es & Wp).
  destruct p as [X|A|L|T]; cbn [part_shape den_part impl_innerprod_part_k] in *.
  - rewrite ipcomm, <- EK. apply impl_innerprod_k_dense_correct; auto. congruence.
  - rewrite ipcomm, <- EK. apply impl_innerprod_k_sp_correct; auto. congruence.
  - rewrite <- Es. apply (impl_innerprod_kk_correct V v0 v1 vadd vmul vsub vopp Vring). congruence.
  - rewrite ipcomm, <- EK. destruct Wp as (Wc & Lc). apply impl_innerprod_k_t_correct; auto. congruence.
Qed.

(* sumtensor.innerprod(T'), T' Tucker *)
Theorem impl_innerprod_sum_t_correct (parts : list part) (T' : ttensor V) s :
  Forall (wf_part isz s) parts -> 1 <= length s ->
  wf_dense (tcore T') -> length (dshape (tcore T')) = length (tfactors T') -> tshape T' = s ->
  impl_innerprod_sum_t v0 v1 vadd vmul (impl_innerprod_t_sp V v0 vadd vmul) parts T' =
  sip (den_parts v0 vadd (map (den_part v0 v1 vadd vmul) parts)) (den_t v0 v1 vadd vmul T') s.
Proof.
  intros HW Hs WT LT ET. rewrite (spec_innerprod_sum V v0 v1 vadd vmul vsub vopp Vring).
  unfold impl_innerprod_sum_t. apply sum_parts. intros p Hp.
  rewrite Forall_forall in HW. destruct (HW p Hp) as (Es & Wp).
  destruct p as [X|A|K|T]; cbn [part_shape den_part impl_innerprod_part_t] in *.
  - rewrite ipcomm, <- ET. apply (impl_innerprod_t_dense_correct V v0 v1 vadd vmul vsub vopp Vring); auto. congruence.
  - rewrite ipcomm, <- ET. apply (impl_innerprod_t_sp_correct V v0 v1 vadd vmul vsub vopp Vring isz); auto; try congruence.
    rewrite <- tshape_length, ET. exact Hs.
  - rewrite <- Es. apply impl_innerprod_k_t_correct; auto. congruence.
  - rewrite <- Es. destruct Wp as (Wc & Lc).
    apply (impl_innerprod_tt_correct V v0 v1 vadd vmul vsub vopp Vring); auto. congruence.
Qed.

(* sumtensor.mttkrp(Us, n), entry (x, r) *)
Theorem impl_mttkrp_sum_correct (parts : list part) (Us : list (@matrix V)) s n R x r :
  Forall (wf_part isz s) parts -> 2 <= length s -> n < length s -> length Us = length s ->
  Forall (wf_cols V R) (remove_at n Us) -> map (@length _) (remove_at n Us) = remove_at n s ->
  x < nth n s 0 -> r < R ->
  impl_mttkrp_sum v0 v1 vadd vmul parts Us n R x r =
  spec_mttkrp v0 v1 vadd vmul (den_parts v0 vadd (map (den_part v0 v1 vadd vmul) parts)) s n (repeat v1 R) Us x r.
Proof.
  intros HW H2 Hn HL HC HR Hx Hr. rewrite (spec_mttkrp_sum V v0 v1 vadd vmul vsub vopp Vring).
  unfold impl_mttkrp_sum. apply (sum_parts parts (fun f => spec_mttkrp v0 v1 vadd vmul f s n (repeat v1 R) Us x r)). intros p Hp.
  rewrite Forall_forall in HW. destruct (HW p Hp) as (Es & Wp).
  destruct p as [X|A|K|T]; cbn [part_shape den_part impl_mttkrp_part] in *; subst s.
  - destruct (impl_mttkrp_dense_correct V v0 v1 vadd vmul vsub vopp Vring X Us R n Wp H2 Hn HL HC HR) as (_ & _ & D).
    now apply D.
  - now apply (impl_mttkrp_sp_correct V v0 v1 vadd vmul vsub vopp Vring isz).
  - apply (impl_mttkrp_k_correct V v0 v1 vadd vmul vsub vopp Vring); auto. now rewrite <- kshape_length.
  - destruct Wp as (Wc & Lc). rewrite tshape_length in *.
    now apply (impl_mttkrp_t_correct V v0 v1 vadd vmul vsub vopp Vring).
Qed.

(* sumtensor.ttv(vs, dims): the value of the result (sumtensor of the parts' results, or the sum of the scalars) at the output subscript i' *)
Theorem impl_ttv_sum_correct (parts : list part) s dims (vs : list (list V)) i' :
  Forall (wf_part isz s) parts -> NoDup dims -> (forall x, In x dims -> x < length s) -> length vs = length dims ->
  inb (ttv_shape s dims) i' = true ->
  impl_ttv_sum v0 v1 vadd vmul parts dims vs i' =
  spec_ttv v0 vadd vmul (den_parts v0 vadd (map (den_part v0 v1 vadd vmul) parts)) s dims vs i'.
Proof.
  intros HW Hnd Hr HL Hi. rewrite (spec_ttv_sum V v0 v1 vadd vmul vsub vopp Vring).
  unfold impl_ttv_sum. apply (sum_parts parts (fun f => spec_ttv v0 vadd vmul f s dims vs i')). intros p Hp.
  rewrite Forall_forall in HW. destruct (HW p Hp) as (Es & Wp).
  destruct p as [X|A|K|T]; cbn [part_shape den_part impl_ttv_part] in *; subst s.
  - destruct (impl_ttv_dense_correct V v0 vadd vmul X dims vs Wp HL) as (_ & _ & D).
    + now apply compl_perm.
    + now apply D.
  - now apply (impl_ttv_sp_correct V v0 v1 vadd vmul vsub vopp Vring isz).
  - apply (impl_ttv_k_correct V v0 v1 vadd vmul vsub vopp Vring); auto. intros y Hy. rewrite <- kshape_length. now apply Hr.
  - destruct Wp as (Wc & Lc).
    apply (impl_ttv_t_correct V v0 v1 vadd vmul vsub vopp Vring); auto. intros y Hy. rewrite <- tshape_length. now apply Hr.
Qed.
End P.
