(* Model/C07Gen.v — sptensor.reshape transliterated over the GENERATED index helpers (Gen/GenUtils.v: tt_sub2ind,
   tt_ind2sub, regenerated from pyttb/pyttb_utils.py on every run).  Source anchor pyttb/sptensor.py reshape:
     size check; `if self.subs.size == 0:` empty result; inds = tt_sub2ind(old_shape, subs[:, old_modes]);
     new_subs = tt_ind2sub(new_shape, inds); sptensor(concatenate((subs[:, keep_modes], new_subs), axis=1), vals, keep ++ new).
   Definitions only; the bridge to the hand model (Model/C07Ops.v reshape_sp) is Proofs/C07Gen.v. *)
From Coq Require Import List ZArith Arith Bool.
From PV Require Import Base.Index Base.Perm Np.NpZ Proofs.NpZProofs Gen.GenUtils Model.Sparse Model.C07Ops.
Import ListNotations.

(* np.concatenate((a, b), axis=1) on row lists *)
Fixpoint hcat {A} (a b : list (list A)) : list (list A) :=
  match a, b with
  | x :: a', y :: b' => (x ++ y) :: hcat a' b'
  | _, _ => []
  end.

Definition res_opt {A} (r : res A) : option A := match r with Ok a => Some a | Err => None end.

Section Gen.
Context {V : Type}.

Definition reshape_sp_gen (S : sparse V) (s' : shape) (old : list nat) : res (sparse V) :=
  let s := sshape S in
  let keep := keep_modes (length s) old in
  if negb (Nat.eqb (size s') (size (pick 0 old s))) then Err
  else if Nat.eqb (length (ssubs S)) 0
  then Ok (mkSp (pick 0 keep s ++ s') [] [])
  else
    bind (tt_sub2ind (zs (pick 0 old s)) (zm (map (pick 0 old) (ssubs S))) OrdF) (fun inds =>
    bind (tt_ind2sub (zs s') inds OrdF) (fun new_subs =>
    Ok (mkSp (pick 0 keep s ++ s')
             (hcat (map (pick 0 keep) (ssubs S)) (map (map Z.to_nat) new_subs))
             (svals S)))).

End Gen.
