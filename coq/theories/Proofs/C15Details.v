(* Proofs/C15Details.v — wave 4: OLD issymmetric WITH details (Model/C15Details.v): itertools.permutations enumerates exactly
   the rearrangements (so the loop visits the same set of mode permutations as the model impl_issym_old), an entry of
   all_diffs is 0 exactly when the tensor is invariant under that row of all_perms, the answer (all_diffs == 0).all() is the
   answer of impl_issym_old (= the spec test), and all_perms has sum of |g|! rows. *)
From Coq Require Import List Arith ZArith Lia Bool Permutation.
From PV Require Import Base.Index Base.Perm Base.Sum Np.Array Model.Sparse Model.Repr Model.C15Sym Model.C15Impl Model.C15Details
  Proofs.C15Proofs Proofs.C15Orbit Proofs.C15ImplProofs Proofs.C15Old Proofs.C15Lin.
Import ListNotations.
Local Open Scope nat_scope.

Lemma remove_at_perm k l : k < length l -> Permutation l (nth k l 0 :: remove_at k l).
Proof.
  revert k; induction l as [|a l IH]; intros [|k] H; cbn in *; try lia; [reflexivity|].
  eapply perm_trans; [apply perm_skip, (IH k); lia|apply perm_swap].
Qed.

Lemma length_remove_at k l : k < length l -> length (remove_at k l) = length l - 1.
Proof.
  revert k; induction l as [|a l IH]; intros [|k] H; cbn in *; try lia. rewrite IH by lia. lia.
Qed.

(* itertools.permutations(l) lists exactly the rearrangements of l *)
Lemma iperms_f_in f : forall l y, length l = f -> (In y (iperms_f f l) <-> Permutation l y).
Proof.
  induction f as [|f IH]; intros l y HL.
  - destruct l; [|discriminate]. cbn. split.
    + intros [<-|[]]. constructor.
    + intros P. apply Permutation_nil in P. subst. now left.
  - destruct l as [|a l']; [discriminate|]. cbn [iperms_f]. rewrite in_flat_map. split.
    + intros (k & Hk & Hy). apply in_seq in Hk. apply in_map_iff in Hy as (y' & <- & Hy').
      apply IH in Hy'; [|rewrite length_remove_at by lia; cbn in *; lia].
      eapply perm_trans; [apply (remove_at_perm k); lia|]. now apply perm_skip.
    + intros P. destruct y as [|b y']; [apply Permutation_sym, Permutation_nil in P; discriminate|].
      assert (Hb : In b (a :: l')) by (eapply Permutation_in; [symmetry; exact P|now left]).
      destruct (In_nth _ _ 0 Hb) as (k & Hk & E). exists k. split; [apply in_seq; lia|].
      apply in_map_iff. exists y'. split; [now rewrite E|].
      apply IH; [rewrite length_remove_at by lia; cbn in *; lia|].
      apply (Permutation_cons_inv (a := b)). rewrite <- E at 1.
      eapply perm_trans; [symmetry; apply remove_at_perm; exact Hk|exact P].
Qed.

Lemma iperms_in l y : In y (iperms l) <-> In y (perms l).
Proof.
  unfold iperms. rewrite iperms_f_in by reflexivity. split; [apply perms_complete|apply perms_sound].
Qed.

Lemma iperms_spec l y : In y (iperms l) <-> Permutation l y.
Proof. unfold iperms. now apply iperms_f_in. Qed.

Lemma iperms_f_length f : forall l, length l = f -> length (iperms_f f l) = fact f.
Proof.
  induction f as [|f IH]; intros l HL; [reflexivity|]. destruct l as [|a l']; [discriminate|]. cbn [iperms_f].
  rewrite (length_flat_map_const _ _ (fact f)).
  - rewrite seq_length, HL. cbn [fact]. lia.
  - intros k Hk. apply in_seq in Hk. rewrite map_length. apply IH. rewrite length_remove_at by lia. lia.
Qed.

(* cnt = sum(factorial(len(x)) for x in grps) rows *)
Lemma old_rows_length N G : length (old_rows N G) = fold_right (fun g acc => fact (length g) + acc) 0 G.
Proof.
  unfold old_rows. induction G as [|g G IH]; [reflexivity|]. cbn [flat_map fold_right].
  rewrite app_length, map_length, IH. unfold iperms. now rewrite iperms_f_length.
Qed.

Lemma forallb_same_members {A} (f : A -> bool) l1 l2 : (forall x, In x l1 <-> In x l2) -> forallb f l1 = forallb f l2.
Proof. intros H. apply Bool.eq_iff_eq_true. rewrite !forallb_forall. split; intros E x Hx; apply E, H, Hx. Qed.

Lemma forallb_flat_map15 {A B} (f : B -> bool) (g : A -> list B) l :
  forallb f (flat_map g l) = forallb (fun a => forallb f (g a)) l.
Proof. induction l as [|a l IH]; cbn; auto. now rewrite forallb_app, IH. Qed.

Section DetP.
Variable V : Type.
Variables (v0 : V) (veqb : V -> V -> bool) (vdist vmax : V -> V -> V) (nn : V -> Prop).
Hypothesis veqb_spec : forall a b, veqb a b = true <-> a = b.
Hypothesis nn0 : nn v0.
Hypothesis nn_dist : forall a b, nn (vdist a b).
Hypothesis nn_max : forall a b, nn a -> nn b -> nn (vmax a b).
Hypothesis dist_zero : forall a b, vdist a b = v0 <-> a = b.
Hypothesis max_zero : forall a b, nn a -> nn b -> (vmax a b = v0 <-> a = v0 /\ b = v0).

Lemma fold_max_zero l : forall a, nn a -> Forall nn l ->
  nn (fold_left vmax l a) /\ (fold_left vmax l a = v0 <-> a = v0 /\ Forall (fun x => x = v0) l).
Proof.
  induction l as [|x l IH]; intros a Ha Hl; cbn [fold_left].
  - split; auto. split; [intros ->; auto|tauto].
  - inversion Hl as [|? ? Hx Hl']; subst. destruct (IH (vmax a x) (nn_max a x Ha Hx) Hl') as [N E]. split; auto.
    rewrite E, (max_zero a x Ha Hx). split.
    + intros [[-> ->] F]. auto.
    + intros [-> F]. inversion F; subst. auto.
Qed.

(* an entry of all_diffs is 0 exactly when the tensor equals its permuted copy at every in-bounds subscript *)
Theorem old_diff_zero s (X : idx -> V) p :
  veqb (old_diff v0 vdist vmax s X p) v0 = same_on veqb s X (permuted X p).
Proof.
  apply Bool.eq_iff_eq_true. rewrite veqb_spec, (same_on_spec V veqb veqb_spec). unfold old_diff.
  set (l := map (fun j => vdist (X j) (permuted X p j)) (allsubs s)).
  assert (Hl : Forall nn l) by (apply Forall_forall; intros x Hx; apply in_map_iff in Hx as (j & <- & _); apply nn_dist).
  destruct (fold_max_zero l v0 nn0 Hl) as [_ E]. rewrite E. split.
  - intros [_ F] j Hj. rewrite Forall_forall in F. apply dist_zero. apply F. apply in_map_iff. exists j. split; auto.
    now apply in_allsubs.
  - intros H. split; auto. apply Forall_forall. intros x Hx. apply in_map_iff in Hx as (j & <- & Hj).
    apply dist_zero. apply H. now apply in_allsubs.
Qed.

(* the answer returned together with the details is the answer of the OLD test without details *)
Theorem details_answer_correct s (X : idx -> V) G :
  details_answer (impl_issym_old_details v0 veqb vdist vmax s X G) = impl_issym_old veqb s X G.
Proof.
  unfold impl_issym_old_details, impl_issym_old. destruct (forallb (group_cubical s) G); cbn [details_answer andb]; auto.
  unfold old_diffs, old_rows. rewrite forallb_map_comm, forallb_flat_map15. apply forallb_ext_in15. intros g _.
  rewrite forallb_map_comm.
  transitivity (forallb (fun gp => same_on veqb s X (permuted X (mode_perm (length s) g gp))) (iperms g)).
  - apply forallb_ext_in15. intros gp _. apply old_diff_zero.
  - apply forallb_same_members. intros gp. apply iperms_in.
Qed.

(* ... hence the spec test: true exactly when the groups are cubical and the tensor is invariant under every within-group
   rearrangement (C15_issym_exact) *)
Theorem details_answer_spec s (X : idx -> V) G : (forall g, In g G -> okg (length s) g) ->
  details_answer (impl_issym_old_details v0 veqb vdist vmax s X G) = spec_issym veqb s X G.
Proof. intros HG. rewrite details_answer_correct. now apply (impl_issym_old_correct V veqb veqb_spec). Qed.
End DetP.

(* the instance used by the generated cases: integer data, |a - b| and max *)
Local Open Scope Z_scope.
Definition z_old_details (s : shape) (X : idx -> Z) (G : list (list nat)) :=
  impl_issym_old_details 0 Z.eqb (fun a b => Z.abs (a - b)) Z.max s X G.
Theorem z_details_answer_correct s (X : idx -> Z) G :
  details_answer (z_old_details s X G) = impl_issym_old Z.eqb s X G.
Proof.
  apply (details_answer_correct Z 0 Z.eqb (fun a b => Z.abs (a - b)) Z.max (fun x => 0 <= x)).
  - intros a b. apply Z.eqb_eq.
  - lia.
  - intros a b. lia.
  - intros a b Ha Hb. lia.
  - intros a b. lia.
  - intros a b Ha Hb. lia.
Qed.
