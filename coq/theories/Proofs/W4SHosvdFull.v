(* Proofs/W4SHosvdFull.v — the WHOLE function pyttb/hosvd.py::hosvd as generated (Gen/GenHosvdFull.v: argument checks on ranks /
   dimorder, defaults, threshold tol^2 ||X||^2 / d, the mode loop, the final core, the returned ttensor) bridged to: the argument
   checks + the hand loop `h_loop` of Proofs/W4SHosvd.v (which is bridged to Model/C10Tucker.v's rank rule) + the epilogue.
   Everything numeric is an arbitrary kernel. *)
From Coq Require Import String List Arith Bool Lia.
From PV Require Import Model.W4SPrelude Gen.GenHosvd Gen.GenHosvdFull Model.C10Tucker Proofs.W4SHosvd.
Import ListNotations.
Local Open Scope nat_scope.

Lemma sk_set_length {A} (l l' : list A) i v : sk_set l i v = Some l' -> length l' = length l.
Proof.
  unfold sk_set. destruct (i <? length l) eqn:E; [|discriminate]. intros H. injection H as <-.
  apply Nat.ltb_lt in E. rewrite app_length.
  change (length (firstn i l) + S (length (skipn (S i) l)) = length l).
  rewrite firstn_length. rewrite (skipn_length (S i) l). lia.
Qed.

Section Full.
Variables T_V T_X T_Tensor T_Mat T_TT : Type.
Variable c_leV : T_V -> T_V -> bool.
Variable c_zeroV : T_V.
Variable c_addV : T_V -> T_V -> T_V.
Variable c_emptyMat : T_Mat.
Variable k_ndims : T_X -> nat.
Variable k_not_permutation : nat -> list nat -> bool.
Variable k_normsqr : T_X -> T_V.
Variable k_thresh : T_V -> T_V -> nat -> T_V.
Variable k_as_tensor : T_X -> T_Tensor.
Variable k_unfold : T_Tensor -> nat -> T_Mat.
Variable k_gram : T_Mat -> T_Mat.
Variable k_eigh : T_Mat -> list T_V * T_Mat.
Variable k_argsort_desc : list T_V -> list nat.
Variable k_take : list T_V -> list nat -> list T_V.
Variable k_select_cols : T_Mat -> list nat -> T_Mat.
Variable k_shrink : T_Tensor -> list T_Mat -> nat -> T_Tensor.
Variable k_ttm_all_t : T_Tensor -> list T_Mat -> T_Tensor.
Variable k_ttensor : T_Tensor -> list T_Mat -> T_TT.

Notation gfull := (GenHosvdFull.hosvd_full T_V T_X T_Tensor T_Mat T_TT c_leV c_zeroV c_addV c_emptyMat k_ndims k_not_permutation
  k_normsqr k_thresh k_as_tensor k_unfold k_gram k_eigh k_argsort_desc k_take k_select_cols k_shrink k_ttm_all_t k_ttensor).
Notation floop := (GenHosvdFull.hosvd_full_loop1 T_V T_Tensor T_Mat c_leV c_zeroV c_addV k_unfold k_gram k_eigh k_argsort_desc k_take
  k_select_cols k_shrink).
Notation gloop := (GenHosvd.hosvd_modes_loop1 T_V T_Tensor T_Mat c_leV c_zeroV c_addV k_unfold k_gram k_eigh k_argsort_desc k_take
  k_select_cols k_shrink).
Notation hloop := (h_loop T_V T_Tensor T_Mat c_leV c_zeroV c_addV k_unfold k_gram k_eigh k_argsort_desc k_take k_select_cols k_shrink).

(* the loop generated inside the whole function is the loop generated from the region `for k in dimorder:` (unit GenHosvd) *)
Lemma full_loop_same t sq : forall xs st, floop t sq xs st = gloop t sq xs st.
Proof.
  induction xs as [|k xs IH]; intros [[Y fm] ranks]; [reflexivity|].
  cbn [GenHosvdFull.hosvd_full_loop1 GenHosvd.hosvd_modes_loop1].
  destruct (k_eigh (k_gram (k_unfold Y k))) as [D Vm].
  destruct (nth_error ranks k) as [rk|]; [|reflexivity].
  destruct (rk =? 0).
  - destruct (sk_last _) as [x|]; [|reflexivity].
    destruct (sk_set ranks k (x + 1)) as [ranks'|]; [|reflexivity].
    destruct (nth_error ranks' k) as [r|]; [|reflexivity].
    destruct (sk_set fm k _) as [fm'|]; [|reflexivity]. apply IH.
  - destruct (nth_error ranks k) as [r|]; [|reflexivity].
    destruct (sk_set fm k _) as [fm'|]; [|reflexivity]. apply IH.
Qed.

(* hand reference of the whole function *)
Definition h_order (d : nat) (dimorder : option (list nat)) : option (list nat) :=
  match dimorder with None => Some (seq 0 d) | Some o => if k_not_permutation d o then None else Some o end.
Definition h_hosvd (X : T_X) (tol : T_V) (dimorder : option (list nat)) (sq : bool) (ranks : option (list nat)) : option T_TT :=
  let d := k_ndims X in
  let rk := match ranks with None => repeat 0 d | Some r => r end in
  if negb (length rk =? d) then None else
  match h_order d dimorder with
  | None => None
  | Some o =>
    match hloop (k_thresh tol (k_normsqr X) d) sq o (k_as_tensor X, repeat c_emptyMat d, rk) with
    | None => None
    | Some (Y, fm, _) => Some (k_ttensor (if sq then Y else k_ttm_all_t Y fm) fm)
    end
  end.

Theorem hosvd_full_bridge X tol verb dimorder sq ranks : gfull X tol verb dimorder sq ranks = h_hosvd X tol dimorder sq ranks.
Proof.
  unfold GenHosvdFull.hosvd_full, h_hosvd, h_order.
  destruct (negb (length (match ranks with None => repeat 0 (k_ndims X) | Some r => r end) =? k_ndims X)); [reflexivity|].
  destruct dimorder as [o|].
  - destruct (k_not_permutation (k_ndims X) o); [reflexivity|].
    rewrite full_loop_same, (hosvd_loop_bridge T_V T_Tensor T_Mat).
    destruct (hloop _ sq o _) as [[[Y fm] rk]|]; [|reflexivity]. destruct sq; reflexivity.
  - rewrite full_loop_same, (hosvd_loop_bridge T_V T_Tensor T_Mat).
    destruct (hloop _ sq (seq 0 (k_ndims X)) _) as [[[Y fm] rk]|]; [|reflexivity]. destruct sq; reflexivity.
Qed.

(* the loop keeps the lengths of the factor list and of the rank vector *)
Lemma h_loop_lengths t sq : forall xs Y fm rk Y' fm' rk',
  hloop t sq xs (Y, fm, rk) = Some (Y', fm', rk') -> length fm' = length fm /\ length rk' = length rk.
Proof.
  induction xs as [|k xs IH]; intros Y fm rk Y' fm' rk' H.
  - inversion H. split; reflexivity.
  - cbn [h_loop] in H. destruct (mode_spectrum _ _ _ _ _ _ _ _ Y k) as [[eig p] Vm].
    destruct (h_rank_step _ _ _ _ rk k eig t) as [rk1|] eqn:E1; [|discriminate].
    destruct (nth_error rk1 k) as [r|]; [|discriminate].
    destruct (sk_set fm k _) as [fm1|] eqn:E2; [|discriminate].
    apply IH in H. destruct H as [H1 H2]. apply sk_set_length in E2.
    assert (length rk1 = length rk).
    { unfold h_rank_step in E1. destruct (nth_error rk k) as [x|]; [|discriminate]. destruct (x =? 0).
      - destruct (auto_rank _ _ _ eig t) as [a|]; [|discriminate]. now apply sk_set_length in E1.
      - now inversion E1. }
    split; congruence.
Qed.

(* ---- statements over the generated whole function ---- *)
(* rejected requests: a rank vector whose length is not the number of modes; a dimorder that is not a permutation of range(d) *)
Theorem hosvd_full_rejects X tol verb dimorder sq :
  (forall r, length r <> k_ndims X -> gfull X tol verb dimorder sq (Some r) = None) /\
  (forall o ranks, k_not_permutation (k_ndims X) o = true -> gfull X tol verb (Some o) sq ranks = None).
Proof.
  split.
  - intros r Hr. rewrite hosvd_full_bridge. unfold h_hosvd. apply Nat.eqb_neq in Hr. rewrite Hr. reflexivity.
  - intros o ranks Ho. rewrite hosvd_full_bridge. unfold h_hosvd, h_order. rewrite Ho.
    destruct (negb _); reflexivity.
Qed.

(* defaults: no dimorder = modes 0 .. d-1 in order (whatever the permutation test would say about it); no ranks = the automatic
   rule in every mode (rank vector of zeros); verbosity never changes the result *)
Theorem hosvd_full_defaults X tol verb verb' dimorder sq ranks :
  (k_not_permutation (k_ndims X) (seq 0 (k_ndims X)) = false ->
   gfull X tol verb None sq ranks = gfull X tol verb (Some (seq 0 (k_ndims X))) sq ranks) /\
  gfull X tol verb dimorder sq None = gfull X tol verb dimorder sq (Some (repeat 0 (k_ndims X))) /\
  gfull X tol verb dimorder sq ranks = gfull X tol verb' dimorder sq ranks.
Proof.
  split; [|split].
  - intros H. rewrite !hosvd_full_bridge. unfold h_hosvd, h_order. rewrite H. reflexivity.
  - rewrite !hosvd_full_bridge. reflexivity.
  - rewrite !hosvd_full_bridge. reflexivity.
Qed.

(* a returned ttensor: the mode loop ran over the (default) order from the input tensor, d empty factor slots and the given /
   zero ranks with the threshold k_thresh tol ||X||^2 d; the factor list and the final rank vector have d entries; the core is the
   shrunk tensor (sequential) or the input multiplied by all transposed factors *)
Theorem hosvd_full_result X tol verb dimorder sq ranks T :
  gfull X tol verb dimorder sq ranks = Some T ->
  exists o Y fm rk,
    h_order (k_ndims X) dimorder = Some o /\
    hloop (k_thresh tol (k_normsqr X) (k_ndims X)) sq o
          (k_as_tensor X, repeat c_emptyMat (k_ndims X), match ranks with None => repeat 0 (k_ndims X) | Some r => r end) = Some (Y, fm, rk) /\
    length fm = k_ndims X /\ length rk = k_ndims X /\
    T = k_ttensor (if sq then Y else k_ttm_all_t Y fm) fm.
Proof.
  rewrite hosvd_full_bridge. unfold h_hosvd.
  destruct (length _ =? k_ndims X) eqn:El; cbn [negb]; [|discriminate]. apply Nat.eqb_eq in El.
  destruct (h_order (k_ndims X) dimorder) as [o|]; [|discriminate].
  destruct (hloop _ sq o _) as [[[Y fm] rk]|] eqn:E; [|discriminate].
  intros H. inversion H. subst T. exists o, Y, fm, rk.
  destruct (h_loop_lengths _ _ _ _ _ _ _ _ _ E) as [L1 L2]. rewrite repeat_length in L1.
  repeat split; try assumption. congruence.
Qed.
End Full.
