(* Proofs/C15OldTable.v — wave 4: the permutation table that pyttb's OLD symmetrize builds (itertools.permutations per
   group, np.tile, ntimes / nelems / ncopies loops; Model/C15OldTable.v) is a rearrangement of the model's table sym_perms
   (every combination of within-group rearrangements exactly once), and the code-level execution (Y += X.permute(row),
   Y /= total_perms, max-fix rounds, one materialised array per round) over ANY rearrangement of sym_perms returns the
   tabulated spec average. *)
From Coq Require Import List Arith Lia Bool Permutation Ring.
From PV Require Import Base.Index Base.Perm Base.Sum Np.Array Model.Sparse Model.Repr Model.C15Sym Model.C15Impl Model.C15Dense
  Model.C15Details Model.C15OldTable Proofs.C15Proofs Proofs.C15Orbit Proofs.C15ImplProofs Proofs.C15Old Proofs.C15Dense
  Proofs.C15Lin Proofs.C15Details Np.NpZ Model.C15Lin Proofs.C15Code.
Import ListNotations.
Local Open Scope nat_scope.

(* ---- arithmetic / list helpers ---- *)
Lemma seq_shift_add a b : seq a b = map (fun t => a + t) (seq 0 b).
Proof.
  revert a; induction b as [|b IH]; intros a; cbn [seq map]; auto. f_equal; [lia|].
  rewrite (IH (S a)), <- seq_shift, map_map. apply map_ext. intros t. lia.
Qed.

Lemma map_seq_mul {A} (F : nat -> nat -> A) a b : b <> 0 ->
  map (fun r => F (r / b) (r mod b)) (seq 0 (a * b)) = flat_map (fun k => map (F k) (seq 0 b)) (seq 0 a).
Proof.
  intros Hb. induction a as [|a IH]; [reflexivity|].
  replace (S a * b) with (a * b + b) by lia. rewrite seq_app, map_app, IH, seq_S, flat_map_app. cbn [flat_map plus].
  rewrite app_nil_r. f_equal. rewrite (seq_shift_add (a * b) b), map_map. apply map_ext_in. intros t Ht. apply in_seq in Ht.
  rewrite Nat.div_add_l by exact Hb. rewrite (Nat.div_small t b) by lia. rewrite Nat.add_0_r.
  rewrite Nat.add_comm, Nat.mod_add by exact Hb. now rewrite Nat.mod_small by lia.
Qed.

Lemma flat_map_nth {A B} (f : A -> list B) (l : list A) d :
  flat_map (fun k => f (nth k l d)) (seq 0 (length l)) = flat_map f l.
Proof.
  induction l as [|a l IH]; [reflexivity|]. cbn [length seq flat_map nth]. f_equal.
  rewrite <- seq_shift, flat_map_concat_map, map_map, <- flat_map_concat_map. exact IH.
Qed.

Lemma flat_map_nil_inner {A B} (l : list A) : flat_map (fun _ : A => @nil B) l = [].
Proof. induction l; cbn; auto. Qed.

Lemma flat_map_swap_perm {A B C} (f : A -> B -> C) la lb :
  Permutation (flat_map (fun a => map (f a) lb) la) (flat_map (fun b => map (fun a => f a b) la) lb).
Proof.
  induction la as [|a la IH]; cbn [flat_map map].
  - now rewrite flat_map_nil_inner.
  - eapply perm_trans; [apply Permutation_app_head, IH|]. clear IH.
    induction lb as [|b lb IHb]; cbn [flat_map map app]; [reflexivity|].
    apply perm_skip.
    eapply perm_trans; [apply Permutation_app_swap_app|]. apply Permutation_app_head. exact IHb.
Qed.

Lemma flat_map_perm_inner {A B} (f g : A -> list B) l : (forall a, In a l -> Permutation (f a) (g a)) ->
  Permutation (flat_map f l) (flat_map g l).
Proof.
  induction l as [|a l IH]; intros H; cbn; auto. apply Permutation_app; [apply H; now left|]. apply IH.
  intros b Hb. apply H. now right.
Qed.

(* ---- itertools.permutations of a duplicate-free list is a rearrangement of the model's enumeration ---- *)
Lemma insert_all_length x l : length (insert_all x l) = S (length l).
Proof. induction l as [|y l IH]; cbn; auto. now rewrite map_length, IH. Qed.

Lemma perms_fact l : length (perms l) = fact (length l).
Proof.
  induction l as [|x l IH]; [reflexivity|]. cbn [perms length].
  rewrite (length_flat_map_const _ _ (S (length l))).
  - rewrite IH. cbn [fact]. lia.
  - intros y Hy. rewrite insert_all_length. f_equal. now apply perms_length.
Qed.

Lemma iperms_perms_perm g : NoDup g -> Permutation (iperms g) (perms g).
Proof.
  intros Hn. symmetry. apply NoDup_Permutation_bis.
  - now apply perms_NoDup.
  - unfold iperms. rewrite iperms_f_length by reflexivity. now rewrite perms_fact.
  - intros y Hy. now apply iperms_in.
Qed.

Lemma combo_len_pos g : combo_len g <> 0.
Proof. unfold combo_len, iperms. rewrite iperms_f_length by reflexivity. apply fact_neq_0. Qed.

Lemma total_perms_pos G : total_perms G <> 0.
Proof. induction G as [|g G IH]; cbn; [lia|]. apply Nat.neq_mul_0. split; [apply combo_len_pos|exact IH]. Qed.

Lemma nth_iperms_len g k : k < combo_len g -> length (nth k (iperms g) []) = length g.
Proof.
  intros Hk. symmetry. apply Permutation_length. apply iperms_spec. apply nth_In. exact Hk.
Qed.

(* ---- the rows of the code's table ---- *)
Lemma disjoint_sym g1 g2 : disjoint g1 g2 -> disjoint g2 g1.
Proof. intros D m H2 H1. exact (D m H1 H2). Qed.

Lemma length_code_row G : forall r p, length (code_row G r p) = length p.
Proof. induction G as [|h G IH]; intros r p; cbn [code_row]; auto. now rewrite IH, length_put. Qed.

(* a group disjoint from all later groups can be written first or last *)
Lemma code_row_put N G : forall r g c p, length p = N -> okg N g -> length c = length g ->
  (forall g', In g' G -> okg N g' /\ disjoint g g') ->
  code_row G r (put g c p) = put g c (code_row G r p).
Proof.
  induction G as [|h G IH]; intros r g c p Hp Hok Hc HG; cbn [code_row]; auto.
  destruct (HG h (or_introl eq_refl)) as [Hokh Dh].
  set (ch := nth ((r / total_perms G) mod combo_len h) (iperms h) []).
  assert (Hch : length ch = length h).
  { apply nth_iperms_len. apply Nat.mod_upper_bound, combo_len_pos. }
  rewrite (put_comm h g ch c p); try (rewrite Hp); auto; [|now apply disjoint_sym].
  apply IH; auto; [now rewrite length_put|]. intros g' Hg'. apply HG. now right.
Qed.

(* only r mod total_perms matters *)
Lemma code_row_mod G : forall r p, code_row G r p = code_row G (r mod total_perms G) p.
Proof.
  induction G as [|h G IH]; intros r p; cbn [code_row total_perms]; auto.
  set (T := total_perms G). set (n := combo_len h).
  assert (HT : T <> 0) by apply total_perms_pos. assert (Hn : n <> 0) by apply combo_len_pos.
  assert (Hm : r mod (n * T) = r mod T + T * ((r / T) mod n)).
  { rewrite (Nat.mul_comm n T). now apply Nat.mod_mul_r. }
  assert (E2 : (r mod (n * T)) mod T = r mod T).
  { rewrite Hm, (Nat.mul_comm T), Nat.mod_add by exact HT. now apply Nat.mod_mod. }
  assert (E1 : ((r mod (n * T)) / T) mod n = (r / T) mod n).
  { rewrite Hm, (Nat.mul_comm T), Nat.div_add by exact HT.
    rewrite (Nat.div_small (r mod T) T) by (now apply Nat.mod_upper_bound). cbn [plus]. now apply Nat.mod_mod. }
  rewrite E1, (IH (r mod (n * T))). fold T. rewrite E2. apply IH.
Qed.

(* the table of g :: G = every rearrangement of g (itertools order, slowest) written into every row of the table of G *)
Lemma code_table_cons N g G : okg N g -> (forall g', In g' G -> okg N g' /\ disjoint g g') ->
  code_table N (g :: G) = flat_map (fun gp => map (put g gp) (code_table N G)) (iperms g).
Proof.
  intros Hok HG. unfold code_table. cbn [total_perms code_row].
  set (T := total_perms G). set (n := combo_len g).
  assert (HT : T <> 0) by apply total_perms_pos. assert (Hn : n <> 0) by apply combo_len_pos.
  pose (F := fun k r' => put g (nth k (iperms g) []) (code_row G r' (seq 0 N))).
  transitivity (map (fun r => F (r / T) (r mod T)) (seq 0 (n * T))).
  - apply map_ext_in. intros r Hr. apply in_seq in Hr. unfold F.
    assert (Hq : r / T < n) by (apply Nat.div_lt_upper_bound; [exact HT|rewrite Nat.mul_comm; lia]).
    rewrite (Nat.mod_small (r / T) n Hq).
    rewrite (code_row_put N G r g); auto; [|apply seq_length|now apply nth_iperms_len].
    now rewrite (code_row_mod G r).
  - rewrite (map_seq_mul F n T HT). unfold n, combo_len.
    rewrite <- (flat_map_nth (fun gp => map (put g gp) (map (fun r => code_row G r (seq 0 N)) (seq 0 T))) (iperms g) []).
    apply flat_map_ext. intros k. unfold F. now rewrite map_map.
Qed.

(* THE TABLE: pyttb's loops enumerate every combination of within-group rearrangements exactly once *)
Theorem code_table_perm N G : groups_ok N G -> Permutation (code_table N G) (sym_perms N G).
Proof.
  induction G as [|g G IH]; intros HG; [reflexivity|]. destruct HG as (Hok & D & HG).
  rewrite code_table_cons; auto.
  2:{ intros g' Hg'. split; [now apply (groups_ok_okg nat 0 Nat.eqb N G)|now apply D]. }
  cbn [sym_perms].
  eapply perm_trans; [apply (flat_map_swap_perm (fun gp p => put g gp p))|].
  eapply perm_trans; [apply Permutation_flat_map, (IH HG)|].
  apply flat_map_perm_inner. intros p _. apply Permutation_map. apply iperms_perms_perm. exact (proj1 Hok).
Qed.

Lemma code_table_length N G : length (code_table N G) = total_perms G.
Proof. unfold code_table. now rewrite map_length, seq_length. Qed.

(* ---- the execution over a table ---- *)
Section OTP.
Variable V : Type.
Variables (v0 v1 : V) (vadd vmul vsub : V -> V -> V) (vopp vinv : V -> V).
Hypothesis Vring : ring_theory v0 v1 vadd vmul vsub vopp (@eq V).
Add Ring Vr15ot : Vring.
Notation "x + y" := (vadd x y).
Notation "x * y" := (vmul x y).
Notation ofn := (of_nat v0 v1 vadd).
Notation ssym := (spec_sym v0 v1 vadd vmul vinv).
Notation den := (den_dense v0).
Notation sumo := (sum_over v0 vadd).
Hypothesis char0 : forall n, n <> 0 -> ofn n <> v0.
Hypothesis vinv_l : forall x, x <> v0 -> vinv x * x = v1.

Lemma fold_add_sum {A} (h : A -> V) l : forall a, fold_left (fun acc p => acc + h p) l a = a + sumo l h.
Proof.
  unfold sum_over. induction l as [|p l IH]; intros a; cbn [fold_left map sumv]; [ring|]. rewrite IH. ring.
Qed.

Lemma fold_tab_sum s (f : list nat -> idx -> V) tbl : forall a : idx -> V,
  fold_left (fun Y p => tabulate s (fun i => den Y i + f p i)) tbl (tabulate s a) =
  tabulate s (fun i => fold_left (fun acc p => acc + f p i) tbl (a i)).
Proof.
  induction tbl as [|p tbl IH]; intros a; cbn [fold_left]; [reflexivity|].
  rewrite (tabulate_ext s (fun i => den (tabulate s a) i + f p i) (fun i => a i + f p i)).
  - apply IH.
  - intros i Hi. now rewrite den_tabulate.
Qed.

Section MaxFixT.
Variable vmax : V -> V -> V.
Hypothesis vmax_idem : forall a, vmax a a = a.

(* over ANY rearrangement of the model's table *)
Theorem sym_old_tbl_correct (T : dense V) G tbl : groups_ok (length (dshape T)) G ->
  (forall g, In g G -> group_cubical (dshape T) g = true) ->
  Permutation tbl (sym_perms (length (dshape T)) G) ->
  sym_old_tbl v0 v1 vadd vmul vinv vmax tbl T = tabulate (dshape T) (ssym (den T) G).
Proof.
  intros HG Hc P. unfold sym_old_tbl. set (s := dshape T) in *. set (N := length s) in *. set (Z := ssym (den T) G).
  rewrite (fold_tab_sum s (fun p i => permuted (den T) p i)).
  assert (H1 : tabulate s (fun i => den (tabulate s (fun i0 => fold_left (fun acc p => acc + permuted (den T) p i0) tbl v0)) i
                                     * vinv (ofn (length tbl))) = tabulate s Z).
  { apply tabulate_ext. intros i Hi. rewrite den_tabulate by exact Hi. rewrite fold_add_sum.
    rewrite (sum_over_perm V v0 v1 vadd vmul vsub vopp Vring _ _ _ P), (Permutation_length P).
    transitivity (sym_old_avg v0 v1 vadd vmul vinv N (den T) G i); [unfold sym_old_avg; ring|].
    apply (old_avg_spec V v0 v1 vadd vmul vsub vopp vinv Vring char0 vinv_l); auto. now apply inb_length. }
  rewrite H1.
  assert (Hrows : forall p, In p tbl -> forall i, inb s i = true -> inb s (put p i i) = true /\ Z (put p i i) = Z i).
  { intros p Hp i Hi. assert (Hp' : In p (sym_perms N G)) by (eapply Permutation_in; eauto).
    destruct (sym_perms_row_ok N G HG p Hp') as [Hperm _]. split.
    - apply inb_put_perm; auto. now apply (sym_perms_sizes s G).
    - apply (sym_row_invariant V N G HG); auto; [|now apply inb_length].
      intros g Hg. now apply (spec_sym_symmetric V v0 v1 vadd vmul vsub vopp vinv (fun _ _ => true) Vring N G HG). }
  clear H1 P. revert Hrows. generalize tbl. intros ps. induction ps as [|p ps IH]; intros Hrows; cbn [fold_left]; auto.
  assert (E : tabulate s (maxfix_step vmax (den (tabulate s Z)) p) = tabulate s Z).
  { apply tabulate_ext. intros i Hi. destruct (Hrows p (or_introl eq_refl) i Hi) as [Hb Hz].
    unfold maxfix_step, permuted. rewrite !den_tabulate by auto. rewrite Hz. apply vmax_idem. }
  rewrite E. apply IH. intros q Hq. apply Hrows. now right.
Qed.

(* OLD symmetrize AT CODE LEVEL (table construction included) returns the tabulated spec average *)
Theorem sym_old_code_correct (T : dense V) G : groups_ok (length (dshape T)) G ->
  (forall g, In g G -> group_cubical (dshape T) g = true) ->
  sym_old_code v0 v1 vadd vmul vinv vmax T G = tabulate (dshape T) (ssym (den T) G).
Proof. intros HG Hc. unfold sym_old_code. apply sym_old_tbl_correct; auto. now apply code_table_perm. Qed.

End MaxFixT.

(* "the two implementations of each dense operation agree with each other", both at code level: NEW over the generated
   index helpers returns the container that OLD (table construction, accumulation, division, max-fix rounds) returns *)
Theorem code_versions_agree (veqb : V -> V -> bool) : (forall a b, veqb a b = true <-> a = b) ->
  forall (vmax : V -> V -> V), (forall a, vmax a a = a) ->
  forall (T : dense V) G, wf_dense T -> dshape T <> [] -> groups_ok (length (dshape T)) G ->
  (forall g, In g G -> group_cubical (dshape T) g = true) ->
  sym_new_lin v0 v1 vadd vmul vinv veqb T G = Ok (sym_old_code v0 v1 vadd vmul vinv vmax T G).
Proof.
  intros Hveq vmax Hm T G W Hs HG Hc. rewrite (sym_old_code_correct vmax Hm) by auto.
  now apply (code_sym_new V v0 v1 vadd vmul vsub vopp vinv veqb Vring Hveq char0 vinv_l).
Qed.
End OTP.
