(* Model/C06Cont.v — the CONTAINERS pyttb returns for the multilinear kernels of a sparse tensor (pyttb/sptensor.py ttv, collapse,
   contract, ttm): transliteration of the result assembly (projected subscripts + scaled values handed to from_aggregator /
   accumarray / np.sum, the 50% sparse/dense switch), and of sptensor.extract.  The C02 models (Model/C02SpMore.v) give the VALUE
   of such a result at a subscript; here the object that holds it is modelled, so that its well-formedness can be stated.
   Definitions only; proofs in Proofs/C06Cont.v. *)
From Coq Require Import List Arith Lia Bool ZArith.
From PV Require Import Base.Index Base.Perm Base.Sum Np.Array Model.Sparse Model.Repr Model.Harness Model.C03Ops Model.C06Ops Model.C02Spec Model.C02SpMore.
Import ListNotations.

Section Cont.
Context {V : Type} (v0 v1 : V) (vadd vmul : V -> V -> V) (isz : V -> bool).
Local Notation "x * y" := (vmul x y).

(* what a kernel returns: an sptensor, a dense tensor / numpy vector, or a number *)
Inductive kres : Type := KSp (R : sparse V) | KDen (D : dense V) | KNum (x : V).

(* from_aggregator(newsubs, newvals, newshape) with the default reducer (sum) on a list of (subscript, value) pairs *)
Definition agg (s' : shape) (es : list (idx * V)) : sparse V :=
  from_aggregator isz (vsum v0 vadd) s' (map fst es) (map snd es).

(* accumarray(subs[:, rem].T[0], vals.T[0], size=n): position k holds the sum of the values whose (1-way) subscript is [k] *)
Definition accum (n : nat) (es : list (idx * V)) : list V :=
  map (fun k => vsum v0 vadd (collect [k] es)) (seq 0 n).

Definition count_nz (l : list V) : nat := length (filter (fun v => negb (isz v)) l).

(* `if c.nnz > 0.5 * prod(newsiz): c = c.to_tensor()` *)
Definition dense_if_half (c : sparse V) : kres :=
  if size (sshape c) <? 2 * nnz c then KDen (full v0 c) else KSp c.

(* ---- sptensor.ttv (sptensor.py:1996-2053), dims sorted, vs[k] the vector of mode dims[k] ----
     newvals = vals * w_1[subs[:, d_1]] * ... ; newsubs = subs[:, remdims]
     no mode left: np.sum(newvals);   one mode left: nothing stored -> sptensor(shape); c = accumarray(newsubs, newvals);
       count_nonzero(c) <= 0.5 * n -> from_aggregator(arange(n)[:, None], c, (n,)) else tensor(c)
     otherwise: c = from_aggregator(newsubs, newvals, newsiz), dense when more than half full *)
Definition ttv_entries (S : sparse V) (dims : list nat) (vs : list (list V)) : list (idx * V) :=
  let rem := compl (length (sshape S)) dims in
  map (fun e => (pick 0 rem (fst e), snd e * pprod v0 v1 vmul (combine dims vs) (fst e))) (entries S).

Definition cont_ttv (S : sparse V) (dims : list nat) (vs : list (list V)) : kres :=
  let s' := ttv_shape (sshape S) dims in
  let es := ttv_entries S dims vs in
  match s' with
  | [] => KNum (vsum v0 vadd (map snd es))
  | [n] => if Nat.eqb (nnz S) 0 then KSp (mkSp s' [] [])
           else let c := accum n es in
                if 2 * count_nz c <=? n
                then KSp (from_aggregator isz (vsum v0 vadd) s' (map (fun k => [k]) (seq 0 n)) c)
                else KDen (mkDense s' c)
  | _ => dense_if_half (agg s' es)
  end.

(* ---- sptensor.collapse with the default reducer sum (sptensor.py:496-524) ----
     no mode left: sum(vals);  one mode left: accumarray(...) / zeros(n) (a numpy vector);
     otherwise from_aggregator(subs[:, remdims], vals, newsize) / the empty sptensor — always sparse *)
Definition proj_entries (S : sparse V) (dims : list nat) (es : list (idx * V)) : list (idx * V) :=
  let rem := compl (length (sshape S)) dims in map (fun e => (pick 0 rem (fst e), snd e)) es.

Definition cont_collapse (S : sparse V) (dims : list nat) : kres :=
  let s' := ttv_shape (sshape S) dims in
  let es := proj_entries S dims (entries S) in
  match s' with
  | [] => KNum (vsum v0 vadd (map snd es))
  | [n] => KDen (mkDense s' (accum n es))
  | _ => KSp (agg s' es)
  end.

(* ---- sptensor.contract (sptensor.py:565-608) ----
     nothing stored: 0.0 (matrix) / sptensor(shape=remshape);  matrix: sum of the stored diagonal values;
     otherwise from_aggregator(subs[indx][:, remdims], vals[indx], newsize) over the stored entries with subs[:, i0] == subs[:, i1],
     dense when more than half full *)
Definition diag_entries (S : sparse V) (i1 i2 : nat) : list (idx * V) :=
  filter (fun e => Nat.eqb (nth i1 (fst e) 0) (nth i2 (fst e) 0)) (entries S).

Definition cont_contract (S : sparse V) (i1 i2 : nat) : kres :=
  let s' := ttv_shape (sshape S) [i1; i2] in
  let es := proj_entries S [i1; i2] (diag_entries S i1 i2) in
  if Nat.eqb (nnz S) 0 then match s' with [] => KNum v0 | _ => KSp (mkSp s' [] []) end
  else match s' with
       | [] => KNum (vsum v0 vadd (map snd es))
       | _ => dense_if_half (agg s' es)
       end.

(* ---- sptensor.ttm, one mode n, matrix with J rows after orientation (sptensor.py:3575-3611) ----
     Z = Xnt.double().dot(U.T);  Ynt = sptenmat.from_array(Z, rdims, cdims, siz).to_sptensor(): the nonzero positions of the product
     array, one entry each;  a numpy matrix U gives a numpy Z and the answer is Ynt.to_tensor(); a scipy matrix U gives a scipy Z
     and the answer is Ynt itself when it is at most half full *)
Definition ttm_shape (s : shape) (n J : nat) : shape := upd s n J.
Definition ttm_Ynt (S : sparse V) (n J : nat) (U : @matrix V) (tr : bool) : sparse V :=
  to_sptensor v0 isz (tabulate (ttm_shape (sshape S) n J) (impl_ttm_sp v0 vadd vmul S n U tr)).
Definition cont_ttm_ndarray (S : sparse V) (n J : nat) (U : @matrix V) (tr : bool) : kres :=
  KDen (full v0 (ttm_Ynt S n J U tr)).

(* ---- sptensor.extract(searchsubs) (sptensor.py:686-697): a = zeros(p); valid, loc = tt_ismember_rows(searchsubs, self.subs);
        a[valid] = self.vals[loc[valid]] — one value per requested row, in the order of the request ---- *)
Definition impl_extract (S : sparse V) (q : list idx) : list V := impl_mask_sp v0 S q.

(* denotation / well-formedness / sameness of a kernel result *)
Definition kden (r : kres) (i : idx) : V :=
  match r with KSp R => den_sp v0 R i | KDen D => den_dense v0 D i | KNum x => x end.
Definition kwf (r : kres) (s' : shape) : Prop :=
  match r with
  | KSp R => wf_sp isz R /\ sshape R = s'
  | KDen D => wf_dense D /\ dshape D = s'
  | KNum _ => s' = []
  end.
End Cont.

Arguments KSp {V} R.
Arguments KDen {V} D.
Arguments KNum {V} x.

(* correspondence (tools/props/c06.py): pyttb's raw result o, written as a kres literal, is the container the model computes —
   the same kind; sptensors: same shape, same number of entries, every model entry is an entry of o (o's own well-formedness is
   checked separately; the stored order is not pinned by the property); dense / number: equal *)
Definition kres_matches (r o : @kres Z) : bool :=
  match r, o with
  | KSp R, KSp R' => sp_perm_eqb R R'
  | KDen D, KDen D' => dense_eqb D D'
  | KNum x, KNum y => Z.eqb x y
  | _, _ => false
  end.
