(* Proofs/C18Optdims.v — C18 "relabelling ... of the mode order" for cp_als with `optdims` (a subset of the modes is optimised).
   cp_als.py: `dimorder = [int(d) for d in dimorder if d in optdims]` — the sweep order is the RESTRICTION of the user's dimorder to
   the optimised modes, in the user's sequence.  Proved: that restriction commutes with relabelling (the relabelled request has
   dimorder mapped by q and optdims = ANY list holding the images of the optimised modes, e.g. sorted), so C18_relabel applies to
   requests with optdims; and the restriction depends on optdims as a set only.  (Seeded change C18-H replaces the list
   comprehension by np.intersect1d, which sorts: the statement below is what it breaks.) *)
From Coq Require Import List Arith Lia Bool Ring Permutation.
From PV Require Import Base.Index Base.Perm Base.Sum Np.Array Model.Sparse Model.Repr Model.C09Als Proofs.C18Relabel.
Import ListNotations.

(* [d for d in dimorder if d in optdims] *)
Definition eff_order (dimorder optdims : list nat) : list nat := filter (fun d => existsb (Nat.eqb d) optdims) dimorder.

Lemma existsb_eqb_In d l : existsb (Nat.eqb d) l = true <-> In d l.
Proof.
  rewrite existsb_exists. split.
  - intros (x & Hx & E). apply Nat.eqb_eq in E. now subst.
  - intros H. exists d. split; [exact H|apply Nat.eqb_refl].
Qed.

Lemma eff_order_set dimorder o o' : (forall d, In d o <-> In d o') -> eff_order dimorder o = eff_order dimorder o'.
Proof.
  intros H. unfold eff_order. apply filter_ext. intros d.
  destruct (existsb (Nat.eqb d) o) eqn:E1, (existsb (Nat.eqb d) o') eqn:E2; try reflexivity.
  - apply existsb_eqb_In, H, existsb_eqb_In in E1. congruence.
  - apply existsb_eqb_In, H, existsb_eqb_In in E2. congruence.
Qed.

Lemma index_of_inj p N a b : is_perm p N -> a < N -> b < N -> index_of a p = index_of b p -> a = b.
Proof.
  intros Hp Ha Hb E.
  assert (Hia : In a p) by (apply (is_perm_In p N a Hp); exact Ha).
  assert (Hib : In b p) by (apply (is_perm_In p N b Hp); exact Hb).
  rewrite <- (nth_index_of a p Hia), <- (nth_index_of b p Hib). now rewrite E.
Qed.

(* the restriction commutes with relabelling; optdims' = any list with the same elements as the images (pyttb users pass any order;
   the harness passes them sorted) *)
Theorem eff_order_relabel p N dimorder optdims optdims' :
  is_perm p N -> Forall (fun d => d < N) dimorder -> Forall (fun d => d < N) optdims ->
  (forall d, In d optdims' <-> In d (map (fun m => index_of m p) optdims)) ->
  eff_order (map (fun m => index_of m p) dimorder) optdims' = map (fun m => index_of m p) (eff_order dimorder optdims).
Proof.
  intros Hp Hd Ho Hset. rewrite (eff_order_set _ _ _ Hset). unfold eff_order.
  induction dimorder as [|d ds IH]; cbn [map filter]; [reflexivity|].
  inversion Hd as [|? ? Hdn Hd']; subst.
  assert (E : existsb (Nat.eqb (index_of d p)) (map (fun m => index_of m p) optdims) = existsb (Nat.eqb d) optdims).
  { destruct (existsb (Nat.eqb d) optdims) eqn:E1.
    - apply existsb_eqb_In. apply (in_map (fun m => index_of m p)). now apply existsb_eqb_In.
    - destruct (existsb (Nat.eqb (index_of d p)) (map (fun m => index_of m p) optdims)) eqn:E2; [|reflexivity].
      apply existsb_eqb_In, in_map_iff in E2 as (m & Em & Hm).
      rewrite Forall_forall in Ho. apply (index_of_inj p N m d Hp (Ho m Hm) Hdn) in Em. subst m.
      apply existsb_eqb_In in Hm. congruence. }
  rewrite E. destruct (existsb (Nat.eqb d) optdims); cbn [map]; rewrite (IH Hd'); reflexivity.
Qed.

Lemma eff_order_bound N dimorder optdims : Forall (fun d => d < N) dimorder -> Forall (fun d => d < N) (eff_order dimorder optdims).
Proof. intros H. apply Forall_forall. intros d Hd. apply filter_In in Hd as [Hd _]. rewrite Forall_forall in H. now apply H. Qed.

Section AlsOptdims.
Variable V : Type.
Variables (v0 v1 : V) (vadd vmul vsub : V -> V -> V) (vopp : V -> V).
Hypothesis Vring : ring_theory v0 v1 vadd vmul vsub vopp (@eq V).
Notation mx := (list (list V)).

(* cp_als with optdims / dimorder on X.permute(p): start permuted, dimorder mapped by q, optdims = any list of the images: after every
   number of sweeps the same weights, the same saved mttkrp, the permuted factor list *)
Theorem relabel_algorithm_optdims (s : shape) (X : idx -> V) (p : list nat) (solve : mx -> mx -> mx) (scale : nat -> mx -> list V * mx)
    (R k : nat) (dimorder optdims optdims' : list nat) (st : als_state V) :
  is_perm p (length s) -> map (@nrows V) (st_U st) = s ->
  Forall (fun m => m < length s) dimorder -> Forall (fun m => m < length s) optdims ->
  (forall d, In d optdims' <-> In d (map (fun m => index_of m p) optdims)) ->
  let X' := fun i' => X (pick 0 (invperm p) i') in
  let st' := mkAls (st_w st) (pick [] p (st_U st)) (st_P st) in
  let r := als_iter v0 v1 vadd vmul (fun U n => mttkrp_mat v0 v1 vadd vmul s X U n R) solve scale R k (eff_order dimorder optdims) st in
  let r' := als_iter v0 v1 vadd vmul (fun U n => mttkrp_mat v0 v1 vadd vmul (pick 0 p s) X' U n R) solve scale R k
                     (eff_order (map (fun m => index_of m p) dimorder) optdims') st' in
  st_w r' = st_w r /\ st_U r' = pick [] p (st_U r) /\ st_P r' = st_P r.
Proof.
  intros Hp Hs Hd Ho Hset. cbv zeta.
  rewrite (eff_order_relabel p (length s) dimorder optdims optdims' Hp Hd Ho Hset).
  exact (relabel_algorithm V v0 v1 vadd vmul vsub vopp Vring solve scale R s X p Hp k (eff_order dimorder optdims) st Hs
           (eff_order_bound (length s) dimorder optdims Hd)).
Qed.
End AlsOptdims.

(* non-vacuity: 4 modes, optdims {0,2,3}, dimorder [2;0;3;1]: restriction [2;0;3] (not ascending); p = [3;1;0;2] *)
Example eff_order_example :
  let p := [3; 1; 0; 2] in
  let q := fun m => index_of m p in
  eff_order [2; 0; 3; 1] [0; 2; 3] = [2; 0; 3] /\
  eff_order (map q [2; 0; 3; 1]) [0; 2; 3] = map q [2; 0; 3] /\ map q [2; 0; 3] = [3; 2; 0] /\
  (forall d, In d [0; 2; 3] <-> In d (map q [0; 2; 3])).
Proof.
  cbv zeta. repeat split; try reflexivity; cbn; intros H; repeat (destruct H as [H|H]; [subst; auto 6|]); try contradiction.
Qed.
