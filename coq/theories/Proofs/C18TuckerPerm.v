(* Proofs/C18TuckerPerm.v — C18 "relabelling the modes" for Tucker-ALS on dense holders: the contracts upd_perm / A_perm of the
   abstract theorems tucker_als_relabel / tucker_als_relabel_loop (Proofs/C18TuckerRel.v) DISCHARGED concretely.

   tucker_als, one mode update (pyttb/tucker_als.py main loop):
       Utilde = X.ttm(U, exclude_dims=n, transpose=True)      products with U_m^T for m = 0..N-1, m <> n, in INCREASING mode order
       U[n]   = Utilde.nvecs(n, rank[n])                      eigenvectors of the mode-n Gram matrix of Utilde
       core   = Utilde.ttm(U, n, transpose=True)              = X x_0 U_0^T ... x_{N-1} U_{N-1}^T
   Model here (ring-generic, all shapes / orders / ranks / permutations): the products are taken on the denotation (ttm_den of
   Model/C10Tucker.v, one mode after the other in increasing order, each with the transposed factor), the eigen step is ANY
   function `eig n` from the Gram matrix (Model/C14Nvecs.gram_matrix on the shape of Utilde) to the new factor.

   The relabelled run gets X.permute(p) = np_transpose X p, the factor list / rank list permuted (U'[k] = U[p[k]]) and works in ITS
   increasing mode order, i.e. it multiplies the original modes in the order p[0], p[1], ... — the proof needs that mode products
   in different modes commute (C10's ttm_den_comm) to reorder an arbitrary permutation of the mode list, the single-mode
   commutation with relabelling (ttm_den_permute) and the Gram-permutation identity (gram_spec_permute), both of Proofs/C18GramPerm.v. *)
From Coq Require Import List Arith Lia Bool Ring Permutation.
From PV Require Import Base.Index Base.Perm Base.Sum Np.Array Model.Sparse Model.Repr Model.C07Ops Model.C10Tucker
                       Model.C14Nvecs Model.C14Gram Proofs.C07Index Proofs.C07Proofs Proofs.C14Sums Proofs.C14Split
                       Proofs.C14GramSp Proofs.C10Ttm Proofs.C10Proj Proofs.C18Tucker Proofs.C18GramPerm.
Import ListNotations.

(* ---------- lists ---------- *)
Lemma pick_upd_index_of {A} (d : A) p N (l : list A) n b : is_perm p N -> length l = N -> n < N ->
  pick d p (upd l n b) = upd (pick d p l) (index_of n p) b.
Proof.
  intros Hp Hl Hn. pose proof (is_perm_length _ _ Hp) as Hlp. pose proof (is_perm_NoDup _ _ Hp) as Hnd.
  assert (Hin : In n p) by (apply (is_perm_In p N n Hp); exact Hn).
  pose proof (index_of_lt n p Hin) as Hlt.
  apply (nth_ext _ _ d d).
  - now rewrite upd_length, !pick_length.
  - intros k Hk. rewrite pick_length in Hk.
    rewrite nth_pick by exact Hk. rewrite nth_upd by lia.
    rewrite nth_upd by (rewrite pick_length; exact Hlt). rewrite nth_pick by exact Hk.
    destruct (Nat.eqb_spec (nth k p 0) n) as [E|E]; destruct (Nat.eqb_spec k (index_of n p)) as [E2|E2]; try reflexivity.
    + exfalso. apply E2. rewrite <- E. symmetry. now apply index_of_nth.
    + exfalso. apply E. rewrite E2. now apply nth_index_of.
Qed.

Lemma perm_filter {A} (f : A -> bool) (l l' : list A) : Permutation l l' -> Permutation (filter f l) (filter f l').
Proof.
  induction 1 as [|x l l' H IH|x y l|l l' l'' H1 IH1 H2 IH2]; cbn [filter].
  - constructor.
  - destruct (f x); [now constructor|exact IH].
  - destruct (f x), (f y); try apply Permutation_refl. apply perm_swap.
  - eapply Permutation_trans; eauto.
Qed.

Lemma map_filter_ne (f : nat -> nat) (n : nat) (l : list nat) :
  (forall m, In m l -> f m = f n -> m = n) ->
  map f (filter (fun m => negb (Nat.eqb m n)) l) = filter (fun k => negb (Nat.eqb k (f n))) (map f l).
Proof.
  induction l as [|x l IH]; intros H; cbn [filter map]; [reflexivity|].
  rewrite <- IH by (intros m Hm; apply H; now right).
  destruct (Nat.eqb_spec x n) as [E|E]; destruct (Nat.eqb_spec (f x) (f n)) as [E2|E2]; cbn [negb map]; try reflexivity.
  - exfalso. apply E2. now rewrite E.
  - exfalso. apply E. apply H; [now left|exact E2].
Qed.

(* the modes multiplied in one update of mode n: 0..N-1 without n, increasing *)
Definition excl (n N : nat) : list nat := filter (fun m => negb (Nat.eqb m n)) (seq 0 N).

Lemma excl_spec n N m : In m (excl n N) <-> m < N /\ m <> n.
Proof.
  unfold excl. rewrite filter_In, in_seq. destruct (Nat.eqb_spec m n); cbn; split; intros [H1 H2]; try split; try lia; try discriminate; auto.
Qed.

Lemma excl_NoDup n N : NoDup (excl n N).
Proof. unfold excl. apply NoDup_filter, seq_NoDup. Qed.

(* in the relabelled run the modes other than q n, in increasing order, are the images of the original modes other than n, reordered *)
Lemma excl_relabel p N n : is_perm p N -> n < N ->
  Permutation (excl (index_of n p) N) (map (fun m => index_of m p) (excl n N)).
Proof.
  intros Hp Hn. pose proof (is_perm_length _ _ Hp) as Hlp.
  unfold excl. rewrite (map_filter_ne (fun m => index_of m p) n).
  - apply perm_filter. apply Permutation_sym.
    pose proof (invperm_is_perm p N Hp) as Hq. unfold is_perm, invperm in Hq. now rewrite Hlp in Hq.
  - intros m Hm E. apply in_seq in Hm.
    assert (Hin1 : In m p) by (apply (is_perm_In p N m Hp); lia).
    assert (Hin2 : In n p) by (apply (is_perm_In p N n Hp); lia).
    rewrite <- (nth_index_of m p Hin1), <- (nth_index_of n p Hin2). now rewrite E.
Qed.

Section TuckerPerm.
Variable V : Type.
Variables (v0 v1 : V) (vadd vmul vsub : V -> V -> V) (vopp : V -> V).
Hypothesis Vring : ring_theory v0 v1 vadd vmul vsub vopp (@eq V).
Add Ring Vr18t : Vring.
Notation matrix := (list (list V)).
Local Notation ttmd := (ttm_den v0 vadd vmul).
Local Notation gspec := (gram_spec v0 vadd vmul).

(* U^T for a factor U (I x r) *)
Definition mtr (A : matrix) : matrix := mtrans v0 A (nrows A) (ncols A).

(* Y x_{m1} U_{m1}^T x_{m2} U_{m2}^T ...  for the modes listed, in that order; dims = the sizes I_m of the multiplied modes *)
Definition mttm_den (dims : list nat) (U : list matrix) (ms : list nat) (Y : idx -> V) : idx -> V :=
  fold_left (fun Y m => ttmd Y (nth m dims 0) m (mtr (nth m U []))) ms Y.

Lemma mttm_cons dims U m ms Y : mttm_den dims U (m :: ms) Y = mttm_den dims U ms (ttmd Y (nth m dims 0) m (mtr (nth m U []))).
Proof. reflexivity. Qed.

(* equality of denotations on the subscripts of an order-N tensor *)
Definition eqN (N : nat) (Y1 Y2 : idx -> V) : Prop := forall j, length j = N -> Y1 j = Y2 j.

Lemma ttmd_eqN N Y1 Y2 d m M : m < N -> eqN N Y1 Y2 -> eqN N (ttmd Y1 d m M) (ttmd Y2 d m M).
Proof.
  intros Hm H j Hj. unfold ttm_den. apply sum_n_ext. intros a _. f_equal. apply H. rewrite length_set_nth; lia.
Qed.

Lemma mttm_eqN N dims U ms : Forall (fun m => m < N) ms ->
  forall Y1 Y2, eqN N Y1 Y2 -> eqN N (mttm_den dims U ms Y1) (mttm_den dims U ms Y2).
Proof.
  unfold mttm_den. induction ms as [|m ms IH]; intros HF Y1 Y2 H; cbn [fold_left]; [exact H|].
  inversion HF as [|? ? Hm HF']; subst. apply IH; [exact HF'|]. now apply ttmd_eqN.
Qed.

(* products in pairwise different modes can be taken in any order *)
Lemma mttm_perm N dims U l1 l2 : Permutation l1 l2 -> NoDup l1 -> Forall (fun m => m < N) l1 ->
  forall Y, eqN N (mttm_den dims U l1 Y) (mttm_den dims U l2 Y).
Proof.
  induction 1 as [|x l l' H IH|x y l|l l' l'' H1 IH1 H2 IH2]; intros ND HF Y.
  - intros j _. reflexivity.
  - unfold mttm_den. cbn [fold_left]. inversion ND; inversion HF; subst. apply IH; assumption.
  - unfold mttm_den. cbn [fold_left].
    inversion HF as [|? ? Hy HF1]; subst. inversion HF1 as [|? ? Hx HF2]; subst.
    inversion ND as [|? ? Hni _]; subst.
    apply (mttm_eqN N dims U l HF2). intros j Hj.
    apply (ttm_den_comm V v0 v1 vadd vmul vsub vopp Vring); [|lia|lia].
    intros E. apply Hni. left. now symmetry.
  - intros j Hj. rewrite (IH1 ND HF Y j Hj). apply IH2; [| |exact Hj].
    + eapply Permutation_NoDup; eauto.
    + eapply Permutation_Forall; eauto.
Qed.

(* the relabelled chain (data relabelled, sizes / factors permuted, modes mapped by q) = the chain, relabelled *)
Lemma mttm_relabel N p dims U ms : is_perm p N -> Forall (fun m => m < N) ms ->
  forall Y, eqN N (mttm_den (pick 0 p dims) (pick [] p U) (map (fun m => index_of m p) ms) (fun j' => Y (pick 0 (invperm p) j')))
                  (fun j' => mttm_den dims U ms Y (pick 0 (invperm p) j')).
Proof.
  intros Hp. pose proof (is_perm_length _ _ Hp) as Hlp.
  induction ms as [|m ms IH]; intros HF Y.
  - intros j _. reflexivity.
  - inversion HF as [|? ? Hm HF']; subst.
    assert (Hq : Forall (fun k => k < length p) (map (fun m => index_of m p) ms)).
    { apply Forall_forall. intros k Hk. apply in_map_iff in Hk as (m' & <- & Hm'). apply index_of_lt.
      apply (is_perm_In p _ m' Hp). rewrite Forall_forall in HF'. now apply HF'. }
    intros j Hj. cbn [map]. rewrite !mttm_cons.
    rewrite (mttm_eqN (length p) _ _ _ Hq _
               (fun j' => ttmd Y (nth m dims 0) m (mtr (nth m U [])) (pick 0 (invperm p) j'))).
    + apply (IH HF' _ j Hj).
    + intros i Hi.
      rewrite (nth_pick_index_of 0 p (length p) dims m Hp Hm), (nth_pick_index_of [] p (length p) U m Hp Hm).
      apply (ttm_den_permute V v0 vadd vmul (length p)); assumption.
    + exact Hj.
Qed.

(* ------------------------------------------------------------------------------------------------ one mode update and the core *)
Definition utilde_den (s : shape) (U : list matrix) (n : nat) (X : dense V) : idx -> V :=
  mttm_den s U (excl n (length s)) (den_dense v0 X).
(* shape of Utilde: rank[m] for m <> n, I_n at n *)
Definition utilde_shape (s rk : list nat) (n : nat) : shape := upd rk n (nth n s 0).
Definition upd_c (s rk : list nat) (eig : nat -> matrix -> matrix) (n : nat) (U : list matrix) (X : dense V) : list matrix :=
  upd U n (eig n (gram_matrix v0 vadd vmul (utilde_shape s rk n) (utilde_den s U n X) n)).
Definition core_c (s rk : list nat) (U : list matrix) (X : dense V) : dense V :=
  tabulate rk (mttm_den s U (seq 0 (length s)) (den_dense v0 X)).

Lemma den_transpose_eqN (X : dense V) p : is_perm p (length (dshape X)) ->
  eqN (length (dshape X)) (den_dense v0 (np_transpose v0 X p)) (fun j' => den_dense v0 X (pick 0 (invperm p) j')).
Proof. intros Hp j Hj. now apply (den_transpose v0). Qed.

(* Utilde of the relabelled run = Utilde, relabelled *)
Theorem utilde_permute (s : shape) (U : list matrix) (p : list nat) (n : nat) (X : dense V) :
  dshape X = s -> is_perm p (length s) -> n < length s ->
  eqN (length s) (utilde_den (pick 0 p s) (pick [] p U) (index_of n p) (np_transpose v0 X p))
                 (fun j' => utilde_den s U n X (pick 0 (invperm p) j')).
Proof.
  intros HX Hp Hn. pose proof (is_perm_length _ _ Hp) as Hlp.
  unfold utilde_den. rewrite pick_length, Hlp.
  assert (HF1 : Forall (fun m => m < length s) (excl (index_of n p) (length s))).
  { apply Forall_forall. intros m Hm. now apply excl_spec in Hm. }
  assert (HF2 : Forall (fun m => m < length s) (excl n (length s))).
  { apply Forall_forall. intros m Hm. now apply excl_spec in Hm. }
  assert (HF3 : Forall (fun m => m < length s) (map (fun m => index_of m p) (excl n (length s)))).
  { apply Forall_forall. intros k Hk. apply in_map_iff in Hk as (m & <- & Hm). apply excl_spec in Hm as [Hm _].
    rewrite <- Hlp. apply index_of_lt. now apply (is_perm_In p _ m Hp). }
  intros j Hj.
  rewrite (mttm_perm (length s) _ _ _ _ (excl_relabel p (length s) n Hp Hn) (excl_NoDup _ _) HF1 _ j Hj).
  rewrite (mttm_eqN (length s) _ _ _ HF3 _ (fun j' => den_dense v0 X (pick 0 (invperm p) j'))).
  - apply (mttm_relabel (length s) p s U _ Hp HF2 _ j Hj).
  - rewrite <- HX. apply den_transpose_eqN. now rewrite HX.
  - exact Hj.
Qed.

(* hence the Gram matrix handed to the eigen solver is the same *)
Theorem utilde_gram_permute (s rk : list nat) (U : list matrix) (p : list nat) (n : nat) (X : dense V) :
  dshape X = s -> is_perm p (length s) -> n < length s -> length rk = length s ->
  gram_matrix v0 vadd vmul (utilde_shape (pick 0 p s) (pick 0 p rk) (index_of n p))
              (utilde_den (pick 0 p s) (pick [] p U) (index_of n p) (np_transpose v0 X p)) (index_of n p)
  = gram_matrix v0 vadd vmul (utilde_shape s rk n) (utilde_den s U n X) n.
Proof.
  intros HX Hp Hn Hrk. pose proof (is_perm_length _ _ Hp) as Hlp.
  assert (Hin : In n p) by (apply (is_perm_In p _ n Hp); exact Hn).
  pose proof (index_of_lt n p Hin) as Hlt.
  set (st := utilde_shape s rk n).
  assert (Hst : length st = length s) by (unfold st, utilde_shape; now rewrite upd_length).
  assert (Hst' : utilde_shape (pick 0 p s) (pick 0 p rk) (index_of n p) = pick 0 p st).
  { unfold st, utilde_shape. rewrite (nth_pick_index_of 0 p (length s) s n Hp Hn).
    symmetry. apply (pick_upd_index_of 0 p (length s)); assumption. }
  rewrite Hst'. assert (Hp' : is_perm p (length st)) by now rewrite Hst.
  unfold gram_matrix. rewrite (nth_pick_index_of 0 p (length st) st n Hp') by lia.
  unfold mtab. apply map_ext_in. intros a Ha. apply in_seq in Ha. apply map_ext_in. intros b Hb. apply in_seq in Hb.
  rewrite <- (gram_spec_permute V v0 v1 vadd vmul vsub vopp Vring st (utilde_den s U n X) p n a b Hp') by lia.
  unfold gram_spec. apply sum_over_ext. intros i Hi. apply in_allsubs, inb_length in Hi.
  rewrite remove_nth_length in Hi by (rewrite pick_length; exact Hlt). rewrite pick_length in Hi.
  rewrite !(utilde_permute s U p n X HX Hp Hn) by (rewrite length_insert_at; lia). reflexivity.
Qed.

(* upd_perm, concretely: the mode update of the relabelled run (parameters moved along: eig' (q n) = eig n) writes the same matrix
   into position q n of the permuted factor list *)
Theorem upd_perm_concrete (s rk : list nat) (eig eig' : nat -> matrix -> matrix) (U : list matrix) (p : list nat) (n : nat) (X : dense V) :
  dshape X = s -> is_perm p (length s) -> n < length s -> length rk = length s -> length U = length s ->
  eig' (index_of n p) = eig n ->
  upd_c (pick 0 p s) (pick 0 p rk) eig' (index_of n p) (pick [] p U) (np_transpose v0 X p)
  = pick [] p (upd_c s rk eig n U X).
Proof.
  intros HX Hp Hn Hrk HU He. unfold upd_c.
  rewrite (utilde_gram_permute s rk U p n X HX Hp Hn Hrk), He.
  symmetry. apply (pick_upd_index_of [] p (length s)); assumption.
Qed.

Lemma upd_c_length s rk eig n U X : length (upd_c s rk eig n U X) = length U.
Proof. unfold upd_c. apply upd_length. Qed.

(* A_perm, concretely: the core of the relabelled run is the relabelled core *)
Theorem core_perm_concrete (s rk : list nat) (U : list matrix) (p : list nat) (X : dense V) :
  dshape X = s -> is_perm p (length s) -> length rk = length s ->
  core_c (pick 0 p s) (pick 0 p rk) (pick [] p U) (np_transpose v0 X p) = np_transpose v0 (core_c s rk U X) p.
Proof.
  intros HX Hp Hrk. pose proof (is_perm_length _ _ Hp) as Hlp.
  unfold core_c. rewrite pick_length, Hlp. unfold np_transpose at 2.
  change (dshape (tabulate rk (mttm_den s U (seq 0 (length s)) (den_dense v0 X)))) with rk.
  apply tabulate_ext. intros i' Hi'. pose proof (inb_length _ _ Hi') as HL. rewrite pick_length in HL.
  assert (Hp' : is_perm p (length rk)) by now rewrite Hrk.
  rewrite den_tabulate by (rewrite <- (inb_pick_inv rk i' p Hp') by lia; exact Hi').
  assert (HF : Forall (fun m => m < length s) (seq 0 (length s))).
  { apply Forall_forall. intros m Hm. apply in_seq in Hm. lia. }
  assert (Hq : Permutation (seq 0 (length s)) (map (fun m => index_of m p) (seq 0 (length s)))).
  { apply Permutation_sym. pose proof (invperm_is_perm p _ Hp) as Hq. unfold is_perm, invperm in Hq. now rewrite Hlp in Hq. }
  assert (HF3 : Forall (fun m => m < length s) (map (fun m => index_of m p) (seq 0 (length s)))).
  { eapply Permutation_Forall; eauto. }
  assert (Hj : length i' = length s) by lia.
  rewrite (mttm_perm (length s) _ _ _ _ Hq (seq_NoDup _ _) HF _ i' Hj).
  rewrite (mttm_eqN (length s) _ _ _ HF3 _ (fun j' => den_dense v0 X (pick 0 (invperm p) j'))).
  - apply (mttm_relabel (length s) p s U _ Hp HF _ i' Hj).
  - rewrite <- HX. apply den_transpose_eqN. now rewrite HX.
  - exact Hj.
Qed.

(* ------------------------------------------------------------------------------------------------ the sweeps of tucker_als *)
(* any number of sweeps over any mode order (modes < N, repetitions allowed): the relabelled run (data X.permute(p), start list, rank
   list and per-mode parameters permuted, mode order mapped by q) holds the permuted factor list after every sweep, and its core is
   the relabelled core - tucker_als_relabel with its upd_perm / A_perm contracts discharged on dense holders *)
Theorem tucker_als_relabel_dense (s rk : list nat) (eig eig' : nat -> matrix -> matrix) (p : list nat) (dimorder : list nat)
    (k : nat) (U : list matrix) (X : dense V) :
  dshape X = s -> is_perm p (length s) -> length rk = length s -> length U = length s ->
  Forall (fun n => n < length s) dimorder -> (forall n, In n dimorder -> eig' (index_of n p) = eig n) ->
  let q := fun n => index_of n p in
  let U'k := sweeps (dense V) (list matrix) (upd_c (pick 0 p s) (pick 0 p rk) eig') (map q dimorder) k (pick [] p U) (np_transpose v0 X p) in
  let Uk := sweeps (dense V) (list matrix) (upd_c s rk eig) dimorder k U X in
  U'k = pick [] p Uk /\
  core_c (pick 0 p s) (pick 0 p rk) U'k (np_transpose v0 X p) = np_transpose v0 (core_c s rk Uk X) p.
Proof.
  intros HX Hp Hrk HU Hd He. cbv zeta. subst s. set (s := dshape X) in *.
  assert (Hsweep : forall U0, length U0 = length s ->
     sweep (dense V) (list matrix) (upd_c (pick 0 p s) (pick 0 p rk) eig') (map (fun n => index_of n p) dimorder) (pick [] p U0)
           (np_transpose v0 X p)
     = pick [] p (sweep (dense V) (list matrix) (upd_c s rk eig) dimorder U0 X) /\
     length (sweep (dense V) (list matrix) (upd_c s rk eig) dimorder U0 X) = length s).
  { unfold sweep. clear U HU. revert Hd He. induction dimorder as [|n ms IH]; intros Hd He U0 HU0; cbn [map fold_left]; [split; [reflexivity|exact HU0]|].
    inversion Hd as [|? ? Hn Hd']; subst.
    rewrite (upd_perm_concrete s rk eig eig' U0 p n X eq_refl Hp Hn Hrk HU0 (He n (or_introl eq_refl))).
    apply IH; [exact Hd'|intros m Hm; apply He; now right|now rewrite upd_c_length]. }
  assert (Hk : sweeps (dense V) (list matrix) (upd_c (pick 0 p s) (pick 0 p rk) eig') (map (fun n => index_of n p) dimorder) k
                      (pick [] p U) (np_transpose v0 X p)
               = pick [] p (sweeps (dense V) (list matrix) (upd_c s rk eig) dimorder k U X)).
  { revert U HU. induction k as [|k IH]; intros U HU; cbn [sweeps]; [reflexivity|].
    destruct (Hsweep U HU) as [E1 E2]. rewrite E1. now apply IH. }
  split; [exact Hk|]. rewrite Hk. now apply core_perm_concrete.
Qed.
End TuckerPerm.

(* ---------- non-vacuity: 2 x 3 x 2 integers, ranks (2,2,1), p = [2;0;1], "eig" = first r_n columns of the Gram matrix plus identity ---------- *)
From Coq Require Import ZArith.
Module C18TuckerPermExample.
Local Open Scope Z_scope.
Definition X := mkDense [2; 3; 2]%nat [1; 2; 3; 4; 5; 6; 7; 8; 9; 10; 11; 13].
Definition p := [2; 0; 1]%nat.
Definition rk := [2; 2; 1]%nat.
Definition U0 : list (list (list Z)) := [[[1; 0]; [1; 2]]; [[1; 1]; [0; 1]; [2; 0]]; [[1]; [3]]].
(* a mode-dependent map from the Gram matrix to an I_n x r_n matrix: G[a][j] + (a = j ? n + 1 : 0) for j < r_n *)
Definition eigc (rn lab : nat) (G : list (list Z)) : list (list Z) :=
  map (fun a => map (fun j => mget 0 G a j + (if Nat.eqb a j then Z.of_nat lab + 1 else 0)) (seq 0 rn)) (seq 0 (length G)).
Definition eig (n : nat) := eigc (nth n rk 0%nat) n.
Definition eig' (k : nat) := eig (nth k p 0%nat).                    (* per-mode parameters moved along: eig' k = eig p[k] *)
Definition run := sweeps (dense Z) (list (list (list Z))) (upd_c Z 0 Z.add Z.mul [2; 3; 2]%nat rk eig) [1; 0; 2]%nat 2 U0 X.
Definition run' := sweeps (dense Z) (list (list (list Z)))
                          (upd_c Z 0 Z.add Z.mul (pick 0%nat p [2; 3; 2]%nat) (pick 0%nat p rk) eig')
                          (map (fun n => index_of n p) [1; 0; 2]%nat) 2 (pick [] p U0) (np_transpose 0 X p).
Example tucker_relabel_example :
  run' = pick [] p run /\ run <> U0 /\
  core_c Z 0 Z.add Z.mul (pick 0%nat p [2; 3; 2]%nat) (pick 0%nat p rk) run' (np_transpose 0 X p)
  = np_transpose 0 (core_c Z 0 Z.add Z.mul [2; 3; 2]%nat rk run X) p.
Proof. vm_compute. repeat split. discriminate. Qed.
End C18TuckerPermExample.
