(* Proofs/C01W8SptenmatKeys.v — wave 8: the distinct sorted rows np.unique(axis=0) of the GENERATED sptenmat constructor finds
   (Np/NpZ.v np_unique_rows, insertion from the right) are the keys of C01's sorted accumulator (Model/C01Unique.v uniq_acc,
   insertion from the left): two strictly sorted lists with the same members. *)
From Coq Require Import List ZArith Arith Lia Bool Permutation Sorted.
From PV Require Import Base.Index Base.Perm Np.Array Np.NpZ Np.NpZ2 Np.NpZ7 Np.NpZ7b Proofs.NpZProofs
  Model.C01Conv Model.C01Unique Proofs.C01W8SptenmatOk.
From PV Require Proofs.C01Unique Proofs.C17Dup.
Import ListNotations.

Definition rl (a b : vec) : Prop := row_ltb a b = true.

Lemma w8_row_ltb_irrefl r : row_ltb r r = false.
Proof. induction r as [|x r IH]; cbn; [reflexivity|]. now rewrite Z.ltb_irrefl, Z.eqb_refl. Qed.

Lemma w8_row_ltb_asym a : forall b, row_ltb a b = true -> row_ltb b a = true -> False.
Proof.
  induction a as [|x a IH]; intros [|y b]; cbn; intros H1 H2; try discriminate H1; try discriminate H2.
  destruct (Z.ltb_spec x y), (Z.ltb_spec y x), (Z.eqb_spec x y), (Z.eqb_spec y x); try lia; try discriminate; eauto.
Qed.

Lemma w8_row_eqb_eq a : forall b, row_eqb a b = true -> a = b.
Proof.
  induction a as [|x a IH]; intros [|y b]; cbn; intros H; try discriminate H; [reflexivity|].
  apply andb_true_iff in H as [E H]. apply Z.eqb_eq in E. subst. f_equal. now apply IH.
Qed.

Lemma w8_idx_ltb_row i : forall j, idx_ltb i j = true -> row_ltb (zs i) (zs j) = true.
Proof.
  induction i as [|x i IH]; intros [|y j]; cbn [idx_ltb zs map row_ltb]; intros H; try discriminate H.
  apply orb_true_iff in H. destruct H as [H|H].
  - apply Nat.ltb_lt in H. destruct (Z.ltb_spec (Z.of_nat x) (Z.of_nat y)); [reflexivity|lia].
  - apply andb_true_iff in H as [E H]. apply Nat.eqb_eq in E. subst. rewrite Z.ltb_irrefl, Z.eqb_refl. now apply IH.
Qed.

Lemma w8_sorted_ext {A} (lt : A -> A -> Prop) : (forall x, ~ lt x x) -> (forall x y, lt x y -> lt y x -> False) ->
  forall l1 l2, StronglySorted lt l1 -> StronglySorted lt l2 -> (forall x, In x l1 <-> In x l2) -> l1 = l2.
Proof.
  intros Hirr Has. induction l1 as [|a l1 IH]; intros [|b l2] S1 S2 Hm.
  - reflexivity.
  - exfalso. apply (proj2 (Hm b)). now left.
  - exfalso. apply (proj1 (Hm a)). now left.
  - inversion S1 as [|? ? S1' F1]; inversion S2 as [|? ? S2' F2]; subst. rewrite Forall_forall in F1, F2.
    assert (E : a = b).
    { destruct (proj1 (Hm a) (or_introl eq_refl)) as [E|Ha]; [now symmetry|].
      destruct (proj2 (Hm b) (or_introl eq_refl)) as [E|Hb]; [exact E|].
      exfalso. exact (Has _ _ (F1 _ Hb) (F2 _ Ha)). }
    subst b. f_equal. apply IH; auto. intros x. split; intros Hx.
    + destruct (proj1 (Hm x) (or_intror Hx)) as [E|H]; [|exact H]. subst x. exfalso. exact (Hirr _ (F1 _ Hx)).
    + destruct (proj2 (Hm x) (or_intror Hx)) as [E|H]; [|exact H]. subst x. exfalso. exact (Hirr _ (F2 _ Hx)).
Qed.

Lemma w8_map_fst_sorted (L : list (vec * Z)) : StronglySorted C17Dup.rlt L -> StronglySorted rl (map fst L).
Proof.
  induction 1 as [|a L S IH F]; cbn [map]; constructor; [exact IH|]. rewrite Forall_forall in *. intros x Hx.
  apply in_map_iff in Hx as (q & <- & Hq). exact (F q Hq).
Qed.

Lemma w8_keys_sorted K : ssorted K -> StronglySorted rl (map zs K).
Proof.
  induction K as [|a K IH]; cbn [ssorted map]; [constructor|]. intros [F S]. constructor; [now apply IH|].
  rewrite Forall_forall in *. intros x Hx. apply in_map_iff in Hx as (j & <- & Hj). apply w8_idx_ltb_row. exact (F j Hj).
Qed.

Lemma w8_fold_fst ps x : In x (fold_right ins_urow [] ps) -> exists p, In p ps /\ fst x = fst p.
Proof.
  revert x. induction ps as [|a ps IH]; cbn [fold_right]; intros x H; [destruct H|].
  destruct (C17Dup.ins_urow_fst _ _ _ H) as [E|(q & Hq & E)]; [exists a; split; [now left|exact E]|].
  destruct (IH q Hq) as (p & Hp & E'). exists p. split; [now right|congruence].
Qed.

Lemma w8_u_mem (m : mat) x : In x (fst (np_unique_rows m)) <-> In x m.
Proof.
  unfold np_unique_rows. cbn [fst]. split.
  - intros H. apply in_map_iff in H as (q & <- & Hq). destruct (w8_fold_fst _ _ Hq) as ([r t] & Hp & E).
    apply in_combine_l in Hp. cbn [fst] in E. now rewrite E.
  - intros Hx.
    assert (Hlm : length (map Z.of_nat (seq 0 (length m))) = length m) by (now rewrite map_length, seq_length).
    destruct (w8_in_combine m _ x Hlm Hx) as (t & Ht). destruct (w8_fold_has _ _ Ht) as (q & Hq & E). cbn [fst] in E.
    apply w8_row_eqb_eq in E. subst x. now apply in_map.
Qed.

(* np.unique's rows = the keys of the sorted accumulator *)
Theorem w8_unique_rows_keys (subs : list idx) (vals : list Z) :
  Forall (fun rc => length rc = 2) subs -> length subs = length vals ->
  fst (np_unique_rows (zm subs)) = zm (map fst (uniq_acc Z.add (combine subs vals))).
Proof.
  intros Hr Hl. apply (w8_sorted_ext rl).
  - intros x H. unfold rl in H. rewrite w8_row_ltb_irrefl in H. discriminate.
  - intros x y. apply w8_row_ltb_asym.
  - unfold np_unique_rows. cbn [fst]. apply w8_map_fst_sorted, C17Dup.urow_fold_sorted.
  - apply w8_keys_sorted. apply (PV.Proofs.C01Unique.uniq_acc_sorted Z Z.add 2).
    now rewrite PV.Proofs.C01Unique.keys_combine.
  - intros x. rewrite w8_u_mem. unfold zm. rewrite !in_map_iff. split; intros (k & E & Hk); exists k; (split; [exact E|]).
    + apply PV.Proofs.C01Unique.uniq_acc_keys. now rewrite PV.Proofs.C01Unique.keys_combine.
    + apply PV.Proofs.C01Unique.uniq_acc_keys in Hk. now rewrite PV.Proofs.C01Unique.keys_combine in Hk.
Qed.
