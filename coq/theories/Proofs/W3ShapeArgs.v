(* Proofs/W3ShapeArgs.v — hand references, bridge lemmas and laws for parse_shape / parse_one_d of Gen/GenUtils3b.v. *)
From Coq Require Import List ZArith Arith Bool Lia.
From PV Require Import Np.NpZ Np.NpZ2 Np.NpZ3 Np.NpZ3b Gen.GenUtils3b.
Import ListNotations.
Local Open Scope Z_scope.

(* parse_shape: an int is a one-mode shape; an integer array must squeeze to at most one axis; a list / tuple must hold
   ints only *)
Definition H_parse_shape (s : pyshp) : res vec :=
  match s with
  | SInt k => Ok [k]
  | SArr a =>
      if nd_is_integer a then
        match nd_shape (nd_squeeze a) with
        | [] => if nd_size (nd_squeeze a) =? 1 then Ok [nd_int0 a] else Err
        | [_] => Ok (nd_ints a)
        | _ => Err
        end
      else Err
  | STuple l | SList l => if elems_all_int l then Ok (elems_ints l) else Err
  end.

Lemma zlen_cases {A} (l : list A) :
  (l = [] /\ zlen l = 0) \/ (exists x, l = [x] /\ zlen l = 1) \/ (exists x y r, l = x :: y :: r /\ 1 < zlen l).
Proof.
  destruct l as [|x [|y r]]; [left; auto|right; left; eauto|right; right]. exists x, y, r. split; [reflexivity|].
  unfold zlen. cbn [length]. lia.
Qed.

Lemma parse_shape_bridge s : parse_shape s = H_parse_shape s.
Proof.
  unfold parse_shape, H_parse_shape. destruct s as [k|a|l|l]; try reflexivity.
  - destruct (nd_is_integer a); cbn [negb]; [|reflexivity].
    unfold nd_ndim. destruct (zlen_cases (nd_shape (nd_squeeze a))) as [[E Z0]|[(x & E & Z1)|(x & y & r & E & Z2)]]; rewrite E in *.
    + rewrite Z0. cbn [Z.eqb]. reflexivity.
    + rewrite Z1. cbn [Z.eqb Z.gtb Z.compare Pos.compare Pos.compare_cont]. reflexivity.
    + destruct (Z.eqb_spec (zlen (x :: y :: r)) 0); [lia|]. destruct (Z.gtb_spec (zlen (x :: y :: r)) 1); [reflexivity|lia].
  - cbn [shp_iter_ok shp_elems]. change (forallb (fun ele_5 => elem_is_int ele_5) l) with (elems_all_int l).
    destruct (elems_all_int l); reflexivity.
  - cbn [shp_iter_ok shp_elems]. change (forallb (fun ele_5 => elem_is_int ele_5) l) with (elems_all_int l).
    destruct (elems_all_int l); reflexivity.
Qed.

Definition H_parse_one_d (v : pyshp) : res ndarr :=
  match v with
  | SInt k => Ok (nd_of_ints [k])
  | SArr a =>
      match nd_shape (nd_squeeze a) with
      | [] => Ok (nd_expand0 (nd_squeeze a))
      | [_] => Ok (nd_squeeze a)
      | _ => Err
      end
  | STuple l | SList l => if elems_all_int l || is_some (elems_rows l) then Ok (key_asarray (KList l)) else Err
  end.

Lemma parse_one_d_bridge v : parse_one_d v = H_parse_one_d v.
Proof.
  unfold parse_one_d, H_parse_one_d. destruct v as [k|a|l|l]; try reflexivity.
  unfold nd_ndim. destruct (zlen_cases (nd_shape (nd_squeeze a))) as [[E Z0]|[(x & E & Z1)|(x & y & r & E & Z2)]]; rewrite E in *.
  - rewrite Z0. reflexivity.
  - rewrite Z1. reflexivity.
  - destruct (Z.eqb_spec (zlen (x :: y :: r)) 1); [lia|]. destruct (Z.eqb_spec (zlen (x :: y :: r)) 0); [lia|]. reflexivity.
Qed.

(* ---- laws ---- *)

Definition ints (l : vec) : list pyelem := map EInt l.

Lemma all_int_ints l : elems_all_int (ints l) = true.
Proof. unfold elems_all_int, ints. induction l; cbn; auto. Qed.
Lemma elems_ints_ints l : elems_ints (ints l) = l.
Proof. unfold elems_ints, ints. rewrite map_map. apply map_id. Qed.

(* a tuple / list of ints is the shape itself; an int is a one-mode shape *)
Theorem parse_shape_ints (l : vec) : parse_shape (STuple (ints l)) = Ok l /\ parse_shape (SList (ints l)) = Ok l.
Proof. rewrite !parse_shape_bridge. cbn [H_parse_shape]. rewrite all_int_ints, elems_ints_ints. split; reflexivity. Qed.

Theorem parse_shape_int (k : Z) : parse_shape (SInt k) = Ok [k].
Proof. reflexivity. Qed.

(* a 1-d integer array of any length other than 1 (a length-1 array squeezes to a scalar) is read entry by entry;
   row / column layouts (1 x n, n x 1, 1 x n x 1 ...) are read the same way *)
Theorem parse_shape_array (shp : vec) (l : vec) (n : Z) :
  filter (fun d => negb (d =? 1)) shp = [n] ->
  parse_shape (SArr (mknd shp DInt (map NFin l))) = Ok l.
Proof.
  intros H. rewrite parse_shape_bridge. unfold H_parse_shape, nd_squeeze. cbn [nd_is_integer nd_kind nd_shape nd_data].
  rewrite H. unfold nd_ints. cbn [nd_data]. rewrite map_map. f_equal. apply map_id.
Qed.

Theorem parse_shape_scalar_array (shp : vec) (k : Z) :
  filter (fun d => negb (d =? 1)) shp = [] -> parse_shape (SArr (mknd shp DInt [NFin k])) = Ok [k].
Proof.
  intros H. rewrite parse_shape_bridge. unfold H_parse_shape, nd_squeeze. cbn [nd_is_integer nd_kind nd_shape nd_data].
  rewrite H. reflexivity.
Qed.

(* rejected: arrays that are not integer typed, arrays with two or more non-trivial axes, sequences with a non-int entry *)
Theorem parse_shape_rejects :
  (forall shp d, parse_shape (SArr (mknd shp DFloat d)) = Err) /\
  (forall shp d, parse_shape (SArr (mknd shp DBool d)) = Err) /\
  (forall shp k d x y r, filter (fun d => negb (d =? 1)) shp = x :: y :: r -> parse_shape (SArr (mknd shp k d)) = Err) /\
  (forall l, elems_all_int l = false -> parse_shape (STuple l) = Err /\ parse_shape (SList l) = Err).
Proof.
  repeat split; intros; rewrite parse_shape_bridge; try reflexivity.
  - unfold H_parse_shape, nd_squeeze. cbn [nd_shape nd_kind nd_data]. rewrite H. destruct (nd_is_integer _); reflexivity.
  - cbn [H_parse_shape]. rewrite H. reflexivity.
  - cbn [H_parse_shape]. rewrite H. reflexivity.
Qed.

(* parse_one_d: always a 1-d array for scalars, 1-d lists of ints and arrays with at most one non-trivial axis *)
Theorem parse_one_d_spec :
  (forall k, parse_one_d (SInt k) = Ok (nd_of_ints [k])) /\
  (forall l, parse_one_d (SList (ints l)) = Ok (key_asarray (KList (ints l))) /\ nd_ndim (key_asarray (KList (ints l))) = 1) /\
  (forall shp k d n, filter (fun d => negb (d =? 1)) shp = [n] -> parse_one_d (SArr (mknd shp k d)) = Ok (mknd [n] k d)) /\
  (forall shp k d, filter (fun d => negb (d =? 1)) shp = [] -> parse_one_d (SArr (mknd shp k d)) = Ok (mknd [1] k d)) /\
  (forall shp k d x y r, filter (fun d => negb (d =? 1)) shp = x :: y :: r -> parse_one_d (SArr (mknd shp k d)) = Err).
Proof.
  repeat split; intros; rewrite ?parse_one_d_bridge; try reflexivity.
  - cbn [H_parse_one_d]. rewrite all_int_ints. reflexivity.
  - unfold key_asarray. cbn [key_elems]. rewrite all_int_ints. reflexivity.
  - unfold H_parse_one_d, nd_squeeze. cbn [nd_shape nd_kind nd_data]. rewrite H. reflexivity.
  - unfold H_parse_one_d, nd_squeeze. cbn [nd_shape nd_kind nd_data]. rewrite H. reflexivity.
  - unfold H_parse_one_d, nd_squeeze. cbn [nd_shape nd_kind nd_data]. rewrite H. reflexivity.
Qed.

(* as the code is: a list of equally long int lists is returned as a 2-d array (not one-dimensional) *)
Example parse_one_d_nested : exists a, parse_one_d (SList [EList [1; 2]; EList [3; 4]]) = Ok a /\ nd_shape a = [2; 2].
Proof. eexists. split; reflexivity. Qed.
