(* Model/C02Reconstruct.v — ttensor.reconstruct(samples, modes) with index-list samples (ttensor.py:596-633), line by line:

     if len(samples) != len(modes): raise ValueError                                (impl_reconstruct_req)
     mode_list = [int(mode) for mode in modes]
     if any(not 0 <= mode < self.ndims ...) or len(set(mode_list)) != len(mode_list): raise ValueError      (9d2314a, finding C19-N29:
                                                                      negative / out-of-range / REPEATED modes are a rejected request: recon_modes_ok)
     full_samples = [np.array([])] * ndims
     for sample, mode in zip(samples, modes): full_samples[mode] = sample          (impl_reconstruct = the body BEHIND the request test)
     for k in range(ndims):
         if len(full_samples[k]) == 0: new_u.append(factor_matrices[k]); continue   (an EMPTY sample keeps the whole factor)
         ... new_u.append(factor_matrices[k][full_samples[k], :])                   (row selection; rows may repeat, any order)
     return ttensor(self.core, new_u).full()                                        (full(): Model/C02TuckerFull.v)

   (the branch for a 2-d sample matrix with shape[k] columns, sample.dot(factor), is not modelled.)  Proofs: Proofs/C02ReconstructProofs.v *)
From Coq Require Import List Arith Lia Bool ZArith.
From PV Require Import Base.Index Base.Perm Base.Sum Np.Array Model.Sparse Model.Repr Model.C02Spec Model.C02Dense Model.C02Tucker Model.C02TuckerFull.
Import ListNotations.

Section Rec.
Context {V : Type} (v0 v1 : V) (vadd vmul : V -> V -> V).

Definition full_samples (N : nat) (modes : list nat) (samples : list (list nat)) : list (list nat) :=
  fold_left (fun fs sm => upd fs (snd sm) (fst sm)) (combine samples modes) (repeat [] N).

Definition sample_rows (U : @matrix V) (rows : list nat) : @matrix V :=
  match rows with [] => U | _ :: _ => map (fun q => nth q U []) rows end.

Fixpoint new_factors (Us : list (@matrix V)) (fs : list (list nat)) : list (@matrix V) :=
  match Us, fs with
  | U :: Us', r :: fs' => sample_rows U r :: new_factors Us' fs'
  | _, _ => Us
  end.

Definition impl_reconstruct (T : ttensor V) (modes : list nat) (samples : list (list nat)) : dense V :=
  impl_full_t v0 vadd vmul (mkT (tcore T) (new_factors (tfactors T) (full_samples (length (tfactors T)) modes samples))).

(* the subscript of the full tensor that entry i of the result reads: mode k -> fs[k][i_k] where mode k is sampled *)
Fixpoint sample_idx (fs : list (list nat)) (i : idx) : idx :=
  match fs, i with
  | r :: fs', x :: i' => (match r with [] => x | _ :: _ => nth x r 0 end) :: sample_idx fs' i'
  | _, _ => i
  end.

Definition rows_ok (Us : list (@matrix V)) (fs : list (list nat)) : Prop :=
  Forall2 (fun U r => Forall (fun q => q < nrows U) r) Us fs.
End Rec.

(* the request test in front of the body (wave 6, 9d2314a): samples and modes pair up one to one, every mode is an integer of [0, ndims) and no mode is
   named twice; anything else is rejected (None).  Modes are the caller's integers (Z): a negative mode is a request like any other. *)
Section RecReq.
Context {V : Type} (v0 v1 : V) (vadd vmul : V -> V -> V).

Fixpoint zdistinctb (l : list Z) : bool :=
  match l with [] => true | m :: r => negb (existsb (Z.eqb m) r) && zdistinctb r end.

Definition recon_modes_ok (N : nat) (modes : list Z) : bool :=
  forallb (fun m => (0 <=? m)%Z && (m <? Z.of_nat N)%Z) modes && zdistinctb modes.

Definition impl_reconstruct_req (T : ttensor V) (modes : list Z) (samples : list (list nat)) : option (dense V) :=
  if Nat.eqb (length samples) (length modes) && recon_modes_ok (length (tfactors T)) modes
  then Some (impl_reconstruct v0 vadd vmul T (map Z.to_nat modes) samples) else None.
End RecReq.
