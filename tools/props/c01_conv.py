"""C01, remaining conversions: matricisation (tenmat / sptenmat), Kruskal / Tucker / sum to dense.
Imported by props/c01.py (generators, pyttb runner, Coq case writer, brute-force oracle, known findings)."""
import itertools
import math
from vcheck import Case, gnlist, gz
import tgen

OPS = {"to_tenmat", "to_sptenmat", "sptenmat_back", "sptenmat_full", "spmatrix", "from_array", "kfull", "tfull", "sumfull",
       "tenmat_ctor", "sptenmat_ctor"}


# ---------------------------------------------------------------------------------------- generators
def ordered_partitions(N):
    out = []
    for k in range(N + 1):
        for r in itertools.permutations(range(N), k):
            rest = [m for m in range(N) if m not in r]
            for c in itertools.permutations(rest):
                out.append((list(r), list(c)))
    return out


def rand_matrix(rng, m, n, lo=-2, hi=3):
    return [[rng.randint(lo, hi) for _ in range(n)] for _ in range(m)]


def rand_sp(rng, shp, fill):
    n = math.prod(shp)
    data = tgen.rand_dense(rng, shp, fill)
    if fill == 0.3 and n > 1 and rng.random() < 0.5:          # exactly one nonzero
        data = [0] * n
        data[rng.randrange(n)] = rng.choice([-2, 3])
    subs, vals = tgen.dense_to_sparse(shp, data, rng, rng.choice(["sorted", "reversed", "random"]))
    return subs, vals


def rand_k(rng, shp, R):
    return {"weights": [rng.choice([-2, -1, 1, 2, 3]) for _ in range(R)], "factors": [rand_matrix(rng, d, R) for d in shp]}


def rand_t(rng, shp, sparse_core=False):
    cshape = [rng.randint(1, 2) for _ in shp]
    core = tgen.rand_dense(rng, cshape, rng.choice([0.5, 1.0]) if not sparse_core else rng.choice([0.0, 0.3, 0.5, 1.0]))
    T = {"cshape": cshape, "core": core, "factors": [rand_matrix(rng, d, c) for d, c in zip(shp, cshape)],
         "sparse_core": sparse_core}
    if sparse_core:      # the stored coordinate list of the core, in any stored order
        T["csubs"], T["cvals"] = tgen.dense_to_sparse(cshape, core, rng, rng.choice(["sorted", "reversed", "random"]))
    return T


def _forms(rng, r, c, N):
    """the argument forms that denote the partition (r, c): both, rdims only (if c is the ascending complement), cdims only"""
    forms = [(r, c)]
    if c == [m for m in range(N) if m not in r]:
        forms.append((r, None))
    if r == [m for m in range(N) if m not in c]:
        forms.append((None, c))
    return rng.choice(forms)


def _bad_dims(rng, N):
    """mode lists that are not an ordered partition of range(N): repeated / missing / out-of-range entries"""
    while True:
        r = [rng.randint(0, N) for _ in range(rng.randint(0, N + 1))]
        c = [rng.randint(0, N) for _ in range(rng.randint(0, N + 1))]
        if sorted(r + c) != list(range(N)):
            return r, c


def _rand_req(rng, N):
    """an admissible to_tenmat request in any argument form"""
    form = rng.choice(["both", "both", "r", "c", "cy"])
    if form == "cy":
        return {"rd": [rng.randrange(N)], "cd": None, "cy": rng.choice(["fc", "bc", "t"])}
    r, c = rng.choice(ordered_partitions(N))
    if form == "r":
        return {"rd": r, "cd": None, "cy": None}
    if form == "c":
        return {"rd": None, "cd": c, "cy": None}
    return {"rd": r, "cd": c, "cy": None}


def gen_ctor_cases(rng, big):
    cases = []
    # ---- tenmat
    for _ in range(260 if big else 70):
        tshape = tgen.rand_shape(rng, maxn=4, maxcells=36)
        N = len(tshape)
        r, c = rng.choice(ordered_partitions(N))
        R = math.prod(tshape[k] for k in r)
        C = math.prod(tshape[k] for k in c)
        rd, cd = _forms(rng, r, c, N)
        kind = rng.choice(["ok", "ok", "ok", "ok1d", "notshape", "baddims", "dupdims", "badcount", "regroup", "3d", "1d_notshape",
                           "emptydata", "none", "oob"])
        if kind == "dupdims" and N < 2:
            kind = "baddims"
        if kind == "dupdims":
            # a repeated mode in place of another mode of the SAME size: right length, right element count, no partition
            ma, mb = rng.sample(range(N), 2)
            tshape = list(tshape)
            tshape[mb] = tshape[ma]
            R = math.prod(tshape[k] for k in r)
            C = math.prod(tshape[k] for k in c)
            rd = [ma if k == mb else k for k in r]
            cd = [ma if k == mb else k for k in c]
        a = {"dshape": [R, C], "rd": rd, "cd": cd, "tshape": tshape, "kind": kind}
        if kind == "ok1d":                       # 1-d data: becomes a row vector, so the row modes must have one cell
            a["dshape"] = [R * C]
            if R != 1:
                a["rd"], a["cd"] = [], list(rng.sample(range(N), N))
        elif kind == "notshape":                 # tshape defaults to data.shape: a 2-way tensor
            a["tshape"] = None
            r2, c2 = rng.choice(ordered_partitions(2))
            a["rd"], a["cd"] = _forms(rng, r2, c2, 2)
        elif kind == "baddims":
            a["rd"], a["cd"] = _bad_dims(rng, N)
        elif kind == "badcount":
            a["dshape"] = [R + rng.choice([0, 1]), C + 1]
        elif kind == "regroup":                  # right element count, other row / column split (C19-N11 territory)
            n = R * C
            divs = [d for d in range(1, n + 1) if n % d == 0]
            d = rng.choice(divs)
            a["dshape"] = [d, n // d]
        elif kind == "3d":
            a["dshape"] = [R, C, 1] if rng.random() < 0.5 else [1, R, C]
        elif kind == "1d_notshape":
            a["dshape"] = [R * C]
            a["tshape"] = None
        elif kind == "emptydata":
            a["dshape"] = rng.choice([[0], [0, 3], [2, 0]])
            if rng.random() < 0.5:
                a["rd"], a["cd"], a["tshape"] = rng.choice([(None, None, None), ([], None, None), (None, [], []), ([], [], [])])
        elif kind == "none":
            a["dshape"] = None
            if rng.random() < 0.6:
                a["rd"], a["cd"], a["tshape"] = rng.choice([(None, None, None), ([], [], None), (None, None, [])])
        elif kind == "oob":
            a["rd"], a["cd"] = [N], list(range(N))
        n = math.prod(a["dshape"]) if a["dshape"] is not None else 0
        a["data"] = [rng.randint(-3, 4) for _ in range(n)]
        if rng.random() < 0.5:
            a["lay"] = rng.choice(LAYOUTS)
            a["copy"] = rng.random() < 0.5
        cases.append(Case("tenmat_ctor", a, kind in ("ok", "ok1d", "notshape", "regroup") and n > 1))
    # ---- sptenmat
    for _ in range(320 if big else 90):
        tshape = tgen.rand_shape(rng, maxn=4, maxcells=36)
        N = len(tshape)
        r, c = rng.choice(ordered_partitions(N))
        R = math.prod(tshape[k] for k in r)
        C = math.prod(tshape[k] for k in c)
        rd, cd = _forms(rng, r, c, N)
        kind = rng.choice(["ok", "ok", "ok", "dups", "dups", "cancel", "zeros", "empty", "badrow", "badcol", "baddims",
                           "nodims", "nothing"])
        k = rng.randint(1, min(8, R * C + 2))
        if kind in ("ok", "zeros"):
            cells = rng.sample([(i, j) for i in range(R) for j in range(C)], min(k, R * C))
        else:
            cells = [(rng.randrange(R), rng.randrange(C)) for _ in range(k)]
        vals = [rng.choice([-3, -2, -1, 1, 2, 3, 4]) for _ in cells]
        if kind == "dups" and cells:
            for _d in range(rng.randint(1, 3)):
                cells.append(rng.choice(cells))
                vals.append(rng.choice([-2, 1, 3]))
        if kind == "cancel" and cells:           # duplicates summing to zero must disappear
            i = rng.randrange(len(cells))
            cells.append(cells[i])
            vals.append(-vals[i])
        if kind == "zeros" and cells:
            vals[rng.randrange(len(vals))] = 0
        order = list(range(len(cells)))
        rng.shuffle(order)
        cells = [cells[i] for i in order]
        vals = [vals[i] for i in order]
        a = {"subs": [list(x) for x in cells], "vals": vals, "rd": rd, "cd": cd, "tshape": tshape, "kind": kind}
        if kind == "empty":
            a["subs"], a["vals"] = ([], []) if rng.random() < 0.5 else (None, None)
        elif kind == "badrow":
            a["subs"][rng.randrange(len(cells))][0] = R + rng.choice([0, 0, 1])
        elif kind == "badcol":
            a["subs"][rng.randrange(len(cells))][1] = C + rng.choice([0, 0, 2])
        elif kind == "baddims":
            a["rd"], a["cd"] = _bad_dims(rng, N)
        elif kind == "nodims":
            a["rd"], a["cd"] = None, None
        elif kind == "nothing":
            a["subs"], a["vals"], a["rd"], a["cd"] = None, None, None, None
            if rng.random() < 0.5:
                a["tshape"] = []
        cases.append(Case("sptenmat_ctor", a, kind in ("ok", "dups", "cancel", "zeros") and len(cells) > 1))
    return cases


def gen_cases_conv(rng, tier):
    big = tier == "thorough"
    cases = []
    # ---------------- matricisation: every ordered partition (N <= 4), both holders
    mshapes = [([3], None), ([1], None), ([2, 3], None), ([3, 1], None), ([2, 3, 4], None), ([2, 1, 3], None), ([2, 2, 2], 8),
               ([2, 3, 4, 2], None), ([1, 2, 3, 2], 30), ([3, 2, 2, 4], 30)]
    if big:
        mshapes = [(s, None) for s, _ in mshapes] + [(tgen.rand_shape(rng, maxn=4, maxcells=96), 40) for _ in range(12)]
    jobs = []
    for shp, sample in mshapes:
        parts = ordered_partitions(len(shp))
        if sample is not None and sample < len(parts):
            parts = rng.sample(parts, sample)
        for r, c in parts:
            jobs.append((shp, {"rd": r, "cd": c, "cy": None}))
        N = len(shp)
        # request forms: rdims only / cdims only / cyclic conventions
        for m in range(N):
            for cy in ("fc", "bc", "t"):
                jobs.append((shp, {"rd": [m], "cd": None, "cy": cy}))
        for k in range(0, N + 1):
            for sel in ([list(x) for x in itertools.permutations(range(N), k)][: (6 if not big else 24)]):
                jobs.append((shp, {"rd": sel, "cd": None, "cy": None}))
                jobs.append((shp, {"rd": None, "cd": sel, "cy": None}))
    for shp in [[2, 1, 3, 2, 2], [2, 3, 2, 1, 2]]:
        parts = ordered_partitions(5)
        for r, c in rng.sample(parts, 40 if big else 10):
            jobs.append((shp, {"rd": r, "cd": c, "cy": None}))
    for shp, req in jobs:
        n = math.prod(shp)
        data = tgen.rand_dense(rng, shp, rng.choice([0.6, 1.0]))
        nt = n > 1 and any(data)
        cases.append(Case("to_tenmat", dict(req, shape=shp, data=data), nt))
        fills = [0.0, 0.3, 0.6, 1.0] if big else [rng.choice([0.0, 0.3, 0.3, 0.6, 1.0])]
        for fill in fills:
            subs, vals = rand_sp(rng, shp, fill)
            a = dict(req, shape=shp, subs=subs, vals=vals)
            cases.append(Case("to_sptenmat", a, nt and bool(vals)))
            cases.append(Case("sptenmat_back", a, nt and bool(vals)))
            cases.append(Case("sptenmat_full", a, nt and bool(vals)))
    # malformed partitions
    for _ in range(80 if big else 25):
        shp = tgen.rand_shape(rng, maxn=4, maxcells=24)
        N = len(shp)
        r = [rng.randint(0, N - 1) for _ in range(rng.randint(0, N))]
        c = [rng.randint(0, N - 1) for _ in range(rng.randint(0, N))]
        if sorted(r + c) == list(range(N)):
            continue
        data = tgen.rand_dense(rng, shp, 1.0)
        cases.append(Case("to_tenmat", {"shape": shp, "data": data, "rd": r, "cd": c, "cy": None}, True))
        subs, vals = rand_sp(rng, shp, 0.6)
        cases.append(Case("to_sptenmat", {"shape": shp, "subs": subs, "vals": vals, "rd": r, "cd": c, "cy": None}, True))
    # ---------------- 2-way sparse -> scipy, dense matrix -> sptenmat
    for _ in range(60 if big else 15):
        shp = [rng.randint(1, 4), rng.randint(1, 5)]
        subs, vals = rand_sp(rng, shp, rng.choice([0.0, 0.3, 0.6, 1.0]))
        cases.append(Case("spmatrix", {"shape": shp, "subs": subs, "vals": vals}, bool(vals)))
    for _ in range(120 if big else 30):
        tshape = tgen.rand_shape(rng, maxn=4, maxcells=48)
        r, c = rng.choice(ordered_partitions(len(tshape)))
        if rng.random() < 0.2:                   # fully vectorised: N x 1 / 1 x N
            allm = rng.sample(range(len(tshape)), len(tshape))
            r, c = (allm, []) if rng.random() < 0.5 else ([], allm)
        R = math.prod(tshape[k] for k in r)
        C = math.prod(tshape[k] for k in c)
        mat = tgen.rand_dense(rng, [R, C], rng.choice([0.0, 0.3, 0.6, 1.0]))
        a = {"tshape": tshape, "rd": r, "cd": c, "mshape": [R, C], "mdata": mat, "coo": rng.random() < 0.5}
        if not a["coo"] and rng.random() < 0.6:
            a["lay"] = rng.choice(LAYOUTS)
        if a["coo"]:
            # the scipy matrix as raw triples in a random stored order, sometimes with a position split into two stored
            # values (scipy sums them) or with an explicitly stored zero
            trip = [[k % R, k // R, v] for k, v in enumerate(mat) if v != 0]
            rng.shuffle(trip)
            style = rng.choice(["plain", "plain", "split", "zero"])
            if style == "split" and trip:
                i, j, v = trip[rng.randrange(len(trip))]
                w = rng.choice([-2, 1, 3])
                trip[trip.index([i, j, v])] = [i, j, v - w]
                trip.insert(rng.randrange(len(trip) + 1), [i, j, w])
            if style == "zero":
                trip.insert(rng.randrange(len(trip) + 1), [rng.randrange(R), rng.randrange(C), 0])
            a["trip"] = trip
        cases.append(Case("from_array", a, any(mat)))
    # ---------------- constructors: tenmat(data, rdims, cdims, tshape) / sptenmat(subs, vals, rdims, cdims, tshape),
    # well-formed requests in every argument form + a malformed stream (the guard model must predict accept / reject)
    cases += gen_ctor_cases(rng, big)
    # ---------------- Kruskal -> dense
    kshapes = [[3], [1], [2, 3], [3, 2], [3, 1], [2, 3, 4], [4, 3, 2], [2, 1, 3], [2, 3, 2, 2], [3, 2, 1, 4], [2, 1, 3, 2, 2], [2, 2, 2, 2, 3]]
    kshapes += [tgen.rand_shape(rng, maxn=5, maxcells=96) for _ in range(60 if big else 10)]
    for shp in kshapes:
        for R in ([0, 1, 2, 3] if (big or len(shp) <= 3) else [rng.choice([1, 2, 3]), 0]):
            cases.append(Case("kfull", {"shape": shp, "K": rand_k(rng, shp, R), "treq": _rand_req(rng, len(shp))},
                              math.prod(shp) > 1 and R > 0))
            if R > 0:
                K = rand_k(rng, shp, R)
                K["lay"] = [rng.choice(LAYOUTS + ["F"]) for _ in range(rng.randint(1, 3))]
                cases.append(Case("kfull", {"shape": shp, "K": K, "treq": _rand_req(rng, len(shp))}, math.prod(shp) > 1))
                K = rand_k(rng, shp, R)          # mixed element types of the factor matrices (integer before float and vice versa)
                K["dt"] = [rng.choice(["i", "i", "f4", "f4h", "f8", "f8h"]) for _ in range(rng.randint(2, 4))]
                cases.append(Case("kfull", {"shape": shp, "K": K, "treq": _rand_req(rng, len(shp))}, math.prod(shp) > 1))
    # ---------------- Tucker -> dense
    tshapes = [[3], [2, 3], [3, 1], [2, 3, 4], [4, 1, 3], [2, 3, 2, 2], [3, 2, 1, 4]]
    tshapes += [tgen.rand_shape(rng, maxn=4, maxcells=96) for _ in range(60 if big else 12)]
    for shp in tshapes:
        for sc in (False, True):
            T = rand_t(rng, shp, sc)
            cases.append(Case("tfull", {"shape": shp, "T": T}, math.prod(shp) > 1 and any(T["core"])))
            T = rand_t(rng, shp, sc)
            T["lay"] = [rng.choice(LAYOUTS + ["F"]) for _ in range(rng.randint(1, 3))]
            cases.append(Case("tfull", {"shape": shp, "T": T}, math.prod(shp) > 1 and any(T["core"])))
    # ---------------- sums
    for _ in range(150 if big else 40):
        shp = tgen.rand_shape(rng, maxn=4, maxcells=48)
        parts = []
        for _k in range(rng.randint(1, 4)):
            kind = rng.choice(["d", "s", "k", "t", "same", "neg"])
            prev_s = [p for p in parts if p["kind"] == "s"]
            if kind in ("same", "neg") and not parts:
                kind = "s"
            if kind == "same":                   # a sparse part with the stored pattern (same rows, same order) of an earlier one
                if prev_s:
                    q = rng.choice(prev_s)
                    parts.append({"kind": "s", "subs": [list(x) for x in q["subs"]],
                                  "vals": [rng.choice([-2, -1, 1, 3]) for _ in q["vals"]]})
                    continue
                kind = "s"
            if kind == "neg":                    # exact cancellation: the negation of an earlier part of the same kind
                q = rng.choice(parts)
                if q["kind"] == "d":
                    parts.append({"kind": "d", "data": [-v for v in q["data"]]})
                elif q["kind"] == "s":
                    parts.append({"kind": "s", "subs": [list(x) for x in q["subs"]], "vals": [-v for v in q["vals"]]})
                elif q["kind"] == "k":
                    parts.append({"kind": "k", "K": {"weights": [-w for w in q["K"]["weights"]], "factors": q["K"]["factors"]}})
                else:
                    Tn = dict(q["T"], core=[-v for v in q["T"]["core"]])
                    if "cvals" in Tn:
                        Tn["cvals"] = [-v for v in Tn["cvals"]]
                    parts.append({"kind": "t", "T": Tn})
                continue
            if kind == "d":
                parts.append({"kind": "d", "data": tgen.rand_dense(rng, shp, rng.choice([0.5, 1.0]))})
            elif kind == "s":
                subs, vals = rand_sp(rng, shp, rng.choice([0.0, 0.3, 0.6]))
                parts.append({"kind": "s", "subs": subs, "vals": vals})
            elif kind == "k":
                parts.append({"kind": "k", "K": rand_k(rng, shp, rng.choice([0, 1, 1, 2, 2, 3]))})
            else:
                parts.append({"kind": "t", "T": rand_t(rng, shp, rng.random() < 0.4)})     # dense or sparse core
        cases.append(Case("sumfull", {"shape": shp, "parts": parts, "copy": rng.random() < 0.6}, math.prod(shp) > 1))
    return cases


# ---------------------------------------------------------------------------------------- pyttb side
LAYOUTS = ["C", "slice", "neg", "rot"]


def relayout(np, A, lay):
    """the same logical array in another memory layout: None/'F' Fortran-contiguous (what pyttb holds itself), 'C' C-contiguous,
    'slice' every second element of a larger C-ordered array (non-contiguous view, garbage in between), 'neg' negative strides,
    'rot' a transposed view of a C-ordered array with rotated axes (neither C- nor F-contiguous for >= 3 axes, F for 2)"""
    if lay in (None, "F"):
        return np.asfortranarray(A)
    if lay == "C" or A.ndim == 0:
        return np.ascontiguousarray(A)
    if lay == "slice":
        big = np.full(tuple(2 * d for d in A.shape), 99.0 if A.dtype.kind == "f" else 99, dtype=A.dtype)
        ix = tuple(slice(None, None, 2) for _ in A.shape)
        big[ix] = A
        return big[ix]
    if lay == "neg":
        ix = tuple(slice(None, None, -1) for _ in A.shape)
        return np.ascontiguousarray(A[ix])[ix]
    if lay == "rot":
        perm = list(range(1, A.ndim)) + [0]
        inv = [perm.index(k) for k in range(A.ndim)]
        return np.transpose(np.ascontiguousarray(np.transpose(A, perm)), inv)
    raise ValueError(lay)


def _arr(np, l):
    return None if l is None else np.array(l, dtype=int)


# fourth wave: element types of the arrays handed to the constructors ("u*" only with non-negative data)
DTYPES = ["i1", "i2", "i4", "i8", "u1", "u2", "f4", "f8"]


def np_dtype(np, dt):
    return {None: np.float64, "i1": np.int8, "i2": np.int16, "i4": np.int32, "i8": np.int64, "u1": np.uint8, "u2": np.uint16,
            "u4": np.uint32, "f4": np.float32, "f8": np.float64}[dt]


class GrowthMismatch(Exception):
    """the tensor built by out-of-bounds assignments does not hold the intended array (not a conversion defect: C04's ground)"""


def mk_dense_grown(ttb, np, shape, data, grow):
    """the dense tensor `data` reached by a HISTORY: a smaller tensor (or the empty ttb.tensor()) GROWN by assignments outside its
    current bounds (tensor.__setitem__ re-allocates; the new buffer need not be Fortran-contiguous). grow = {"kind": "elem" | "subs"
    | "block" | "empty", "from": [d'_k <= d_k], "seed": int, "corner_first": bool}"""
    import random as _random
    A = tgen.np_dense(np, shape, data)
    N = len(shape)
    rng = _random.Random(grow.get("seed", 0))
    sub = list(grow.get("from") or [0] * N)
    kind = grow["kind"]
    corner = tuple(d - 1 for d in shape)
    if kind in ("permute", "slice", "add", "reshape", "setitem"):
        # other one-step histories: the tensor is the RESULT of a public operation (whatever buffer that operation left)
        if kind == "permute":
            p = list(range(N))
            rng.shuffle(p)
            inv = [p.index(k) for k in range(N)]
            T = ttb.tensor(np.array(np.transpose(A, inv), order="F"), copy=True).permute(np.array(p))
        elif kind == "slice":
            off = [rng.randint(0, 1) for _ in shape]
            big = np.full(tuple(d + 2 for d in shape), 9.0, order="F")
            ix = tuple(slice(o, o + d) for o, d in zip(off, shape))
            big[ix] = A
            T = ttb.tensor(big, copy=True)[ix]
        elif kind == "add":
            A1 = np.array([rng.randint(-3, 3) for _ in range(A.size)], dtype=float).reshape(A.shape, order="F")
            T = ttb.tensor(A1, copy=True) + ttb.tensor(np.array(A - A1, order="F"), copy=True)
        elif kind == "reshape":
            T = ttb.tensor(np.reshape(A, (A.size,), order="F").copy(), copy=True).reshape(tuple(shape))
        else:
            B = A.copy(order="F")
            cells = [tuple(i) for i in tgen.all_subs(shape)]
            chosen = rng.sample(cells, max(1, len(cells) // 3))
            for i in chosen:
                B[i] += rng.choice([-2, 1, 5])
            T = ttb.tensor(B, copy=True)
            for i in chosen:
                T[i] = float(A[i])
    elif kind == "block":
        # one mode trimmed, then one slice assignment of the missing slab
        k = max(range(N), key=lambda m: (shape[m] - sub[m], -m))
        ix0 = tuple(slice(0, sub[k]) if m == k else slice(None) for m in range(N))
        T = ttb.tensor(np.array(A[ix0], order="F"), copy=True)
        ix1 = tuple(slice(sub[k], shape[k]) if m == k else slice(None) for m in range(N))
        T[ix1] = np.array(A[ix1], order="F")
    else:
        if kind == "empty":
            T = ttb.tensor()
            inside = lambda i: False
        else:
            T = ttb.tensor(np.array(A[tuple(slice(0, d) for d in sub)], order="F"), copy=True)
            inside = lambda i: all(x < d for x, d in zip(i, sub))
        todo = [tuple(i) for i in tgen.all_subs(shape) if not inside(i) and A[tuple(i)] != 0 and tuple(i) != corner]
        rng.shuffle(todo)
        if not inside(corner):
            todo.insert(0 if grow.get("corner_first") else len(todo), corner)
        if kind == "subs" and todo:
            T[np.array(todo, dtype=int).reshape((len(todo), N))] = np.array([A[i] for i in todo], dtype=float)
        else:
            for i in todo:
                T[i] = float(A[i])
    if tuple(int(d) for d in T.shape) != tuple(shape) or not np.array_equal(np.asarray(T.data), A):
        raise GrowthMismatch(f"grown tensor of shape {T.shape} does not hold the intended array")
    return T


def mk_dense_opt(ttb, np, shape, data, dt=None, lay=None, copy=True, grow=None):
    """tensor(data of element type dt in memory layout lay, shape, copy=copy); grow: reached by growth instead (mk_dense_grown)"""
    if grow:
        return mk_dense_grown(ttb, np, shape, data, grow)
    A = relayout(np, tgen.np_dense(np, shape, data).astype(np_dtype(np, dt)), lay)
    return ttb.tensor(A, tuple(shape), copy=copy)


def mk_sparse_grown(ttb, np, shape, subs, vals, grow):
    """the sparse tensor (subs, vals, shape) reached by a HISTORY: the first grow["keep"] entries in the smallest shape that holds them
    (or an empty sptensor), the others stored by assignments outside the current bounds, one by one ("elem") or by one
    subscript-array assignment ("subs"). Requires distinct subscripts, non-zero values and a shape attained by the entries."""
    N = len(shape)
    k = grow["keep"]
    first, fv = subs[:k], vals[:k]
    if k == 0:
        S = ttb.sptensor() if grow.get("empty") == "noshape" else ttb.sptensor(shape=tuple([1] * N))
    else:
        sub = tuple(max(x[m] for x in first) + 1 for m in range(N))
        S = ttb.sptensor(np.array(first, dtype=int).reshape((k, N)), np.array(fv, dtype=float).reshape((k, 1)), sub, copy=True)
    rest, rv = subs[k:], vals[k:]
    if grow["kind"] == "subs" and rest:
        S[np.array(rest, dtype=int).reshape((len(rest), N))] = np.array(rv, dtype=float).reshape((len(rv), 1))
    else:
        for x, v in zip(rest, rv):
            S[tuple(x)] = float(v)
    got = {tuple(int(i) for i in r): float(v) for r, v in zip(np.asarray(S.subs).reshape((-1, N)), np.asarray(S.vals).ravel())}
    if tuple(int(d) for d in S.shape) != tuple(shape) or got != {tuple(x): float(v) for x, v in zip(subs, vals)} or S.nnz != len(subs):
        raise GrowthMismatch(f"grown sparse tensor of shape {S.shape} does not hold the intended entries")
    return S


def mk_sparse_opt(ttb, np, shape, subs, vals, sdt=None, vdt=None, slay=None, vlay=None, copy=True, grow=None):
    """sptensor(subs of integer type sdt, vals of element type vdt, shape, copy=copy), both in the given memory layouts;
    grow: reached by growth instead (mk_sparse_grown)"""
    if grow:
        return mk_sparse_grown(ttb, np, shape, subs, vals, grow)
    s = np.array(subs, dtype=int).reshape((len(subs), len(shape))).astype(np_dtype(np, sdt or "i8"))
    v = np.array(vals, dtype=float).reshape((len(vals), 1)).astype(np_dtype(np, vdt))
    return ttb.sptensor(relayout(np, s, slay), relayout(np, v, vlay), tuple(shape), copy=copy)


def _mk_k(ttb, np, K, shape):
    R = len(K["weights"])
    fm = [np.array(f, dtype=float).reshape((d, R)) for f, d in zip(K["factors"], shape)]
    ct = K.get("ctor")
    if ct:               # fourth wave: the constructor itself gets arrays of another memory layout, with copy=True / copy=False
        w = np.array(K["weights"], dtype=float)
        Kt = ttb.ktensor([relayout(np, f, ct["lay"][n % len(ct["lay"])]) for n, f in enumerate(fm)],
                         relayout(np, w, ct.get("wlay")) if w.size else w, copy=ct["copy"])
    else:
        Kt = ttb.ktensor([f.copy() for f in fm], np.array(K["weights"], dtype=float), copy=True)
    if K.get("dt"):      # mixed element types: integer-typed, float32 and float64 factors; "h" = the integer entries halved (dyadic,
        # exact in every float type), so full(K) * 2^(number of halved factors) is the integer model's array
        for n, f in enumerate(fm):
            dt = K["dt"][n % len(K["dt"])]
            g = f / 2.0 if dt.endswith("h") else f
            Kt.factor_matrices[n] = np.asfortranarray(g.astype({"i": np.int64, "f4": np.float32, "f4h": np.float32, "f8": np.float64,
                                                                "f8h": np.float64}[dt]))
    if K.get("lay"):     # a user assigns arrays of another memory layout to the factor list (as normalize() leaves C-ordered ones)
        for n, f in enumerate(fm):
            Kt.factor_matrices[n] = relayout(np, f, K["lay"][n % len(K["lay"])])
    return Kt


def _mk_t(ttb, np, T, shape):
    core = mk_dense_opt(ttb, np, T["cshape"], T["core"], grow=T.get("cgrow"))
    if T.get("sparse_core"):
        subs, vals = (T["csubs"], T["cvals"]) if "csubs" in T else tgen.dense_to_sparse(T["cshape"], T["core"])
        core = tgen.mk_sptensor(ttb, np, T["cshape"], subs, vals)
    fm = [np.array(f, dtype=float).reshape((d, c)) for f, d, c in zip(T["factors"], shape, T["cshape"])]
    ct = T.get("ctor")
    if ct:               # fourth wave: element types / memory layouts of core and factors, ttensor(copy=True / False)
        if T.get("sparse_core"):
            subs, vals = (T["csubs"], T["cvals"]) if "csubs" in T else tgen.dense_to_sparse(T["cshape"], T["core"])
            core = mk_sparse_opt(ttb, np, T["cshape"], subs, vals, sdt=ct.get("sdt"), vdt=ct.get("cdt"), copy=ct.get("ccopy", True))
        else:
            core = mk_dense_opt(ttb, np, T["cshape"], T["core"], dt=ct.get("cdt"), lay=ct.get("clay"), copy=ct.get("ccopy", True))
        fs = [relayout(np, f.astype(np_dtype(np, ct["fdt"][n % len(ct["fdt"])])), ct["lay"][n % len(ct["lay"])]) for n, f in enumerate(fm)]
        if ct.get("coo"):    # factor matrices handed over as scipy sparse coo matrices (the constructor admits them)
            from scipy import sparse as sps
            fs = [sps.coo_matrix(f) if ct["coo"][n % len(ct["coo"])] else f for n, f in enumerate(fs)]
        return ttb.ttensor(core, fs, copy=ct["copy"])
    Tt = ttb.ttensor(core, [f.copy() for f in fm], copy=True)
    if T.get("lay"):
        for n, f in enumerate(fm):
            Tt.factor_matrices[n] = relayout(np, f, T["lay"][n % len(T["lay"])])
    return Tt


def _ilist(x):
    import numpy as np
    return [int(v) for v in np.asarray(x).ravel()]


def _obs_tenmat(np, M):
    return {"data": tgen.obs_dense(np, M.data), "r": _ilist(M.rindices), "c": _ilist(M.cindices),
            "tshape": [int(d) for d in M.tshape], "shape": [int(d) for d in M.shape]}


def _obs_sptenmat(np, M):
    subs = np.asarray(M.subs)
    rows = [] if subs.size == 0 else [[int(x) for x in r] for r in subs.reshape((-1, 2))]
    return {"subs": rows, "vals": [tgen.exact(x) for x in np.asarray(M.vals).ravel()], "r": _ilist(M.rdims), "c": _ilist(M.cdims),
            "tshape": [int(d) for d in M.tshape], "shape": [int(d) for d in M.shape], "nnz": int(M.nnz)}


def _obs_part(np, ttb, q):
    """raw stored state of one part of a sumtensor"""
    if isinstance(q, ttb.tensor):
        return {"kind": "d", "d": tgen.obs_dense(np, q)}
    if isinstance(q, ttb.sptensor):
        return {"kind": "s", "s": tgen.obs_sparse(np, q)}
    if isinstance(q, ttb.ktensor):
        return {"kind": "k", "weights": [tgen.exact(x) for x in q.weights], "factors": [tgen.obs_matrix(np, f) for f in q.factor_matrices]}
    core = q.core
    # a factor held as a scipy coo matrix is read through its stored triples (summed per position by pure Python)
    def fac(f):
        if hasattr(f, "row") and hasattr(f, "col"):
            A = [[0] * int(f.shape[1]) for _ in range(int(f.shape[0]))]
            for i, j, v in zip(f.row, f.col, f.data):
                A[int(i)][int(j)] += tgen.exact(v)
            return A
        return tgen.obs_matrix(np, f)
    return {"kind": "t", "core": tgen.obs_dense(np, core) if isinstance(core, ttb.tensor) else tgen.obs_sparse(np, core),
            "factors": [fac(f) for f in q.factor_matrices]}


def _part_unchanged(shape, p, q):
    """does the raw state q observed after the conversions equal the generated part p? (exact integer lists)"""
    if not isinstance(q, dict) or q.get("kind") != p["kind"]:
        return False
    if p["kind"] == "d":
        return q["d"] == {"shape": list(shape), "data": p["data"]}
    if p["kind"] == "s":
        if p.get("grow"):    # stored order after growth by assignment is pyttb's business: the same entries, each once
            return (len(q["s"]["subs"]) == len(p["subs"]) and q["s"]["shape"] == list(shape) and
                    {tuple(x): v for x, v in zip(q["s"]["subs"], q["s"]["vals"])} == {tuple(x): v for x, v in zip(p["subs"], p["vals"])})
        return q["s"]["subs"] == p["subs"] and q["s"]["vals"] == p["vals"] and q["s"]["shape"] == list(shape)
    if p["kind"] == "k":
        R = len(p["K"]["weights"])
        return q["weights"] == p["K"]["weights"] and all((qf == pf) or (R == 0 and qf in ([], [[] for _ in pf]))
                                                         for qf, pf in zip(q["factors"], p["K"]["factors"]))
    T = p["T"]
    if "csubs" in T:         # sparse core: the stored coordinate list as given
        return (q["core"]["shape"] == T["cshape"] and q["core"].get("subs") == T["csubs"] and q["core"].get("vals") == T["cvals"]
                and q["factors"] == T["factors"])
    return q["core"]["shape"] == T["cshape"] and q["core"].get("data") == T["core"] and q["factors"] == T["factors"]


def _obs_coo(np, Cm):
    """scipy coo_matrix -> raw stored triples"""
    return {"shape": [int(d) for d in Cm.shape], "subs": [[int(i), int(j)] for i, j in zip(Cm.row, Cm.col)],
            "vals": [tgen.exact(x) for x in Cm.data]}


def _sub(f):
    try:
        return f()
    except Exception as ex:
        return {"exc": type(ex).__name__, "msg": str(ex)[:200]}


def run_conv(c):
    import numpy as np
    import pyttb as ttb
    from scipy import sparse as sps
    a = c.args
    try:
        if c.op == "to_tenmat":
            T = mk_dense_opt(ttb, np, a["shape"], a["data"], dt=a.get("dt"), lay=a.get("lay"), copy=a.get("copy", True), grow=a.get("grow"))
            M = T.to_tenmat(_arr(np, a["rd"]), _arr(np, a["cd"]), a["cy"])
            out = {"ok": _obs_tenmat(np, M), "back": _sub(lambda: tgen.obs_dense(np, M.to_tensor())),
                   "double": _sub(lambda: tgen.obs_dense(np, M.double()))}
            # option corner (fourth wave): to_tensor(copy=False) may reuse the matrix buffer; same tensor, tenmat and operand unchanged
            out["back_nc"] = _sub(lambda: tgen.obs_dense(np, M.to_tensor(copy=False)))
            out["ok_after"] = _sub(lambda: _obs_tenmat(np, M))
            out["t_full"] = _sub(lambda: tgen.obs_dense(np, T.full()))       # tensor.full(): the tensor itself
            return out
        if c.op in ("to_sptenmat", "sptenmat_back", "sptenmat_full"):
            S = mk_sparse_opt(ttb, np, a["shape"], a["subs"], a["vals"], sdt=a.get("sdt"), vdt=a.get("vdt"), slay=a.get("slay"),
                              vlay=a.get("vlay"), copy=a.get("copy", True), grow=a.get("grow"))
            M = S.to_sptenmat(_arr(np, a["rd"]), _arr(np, a["cd"]), a["cy"])
            if c.op == "to_sptenmat":
                return {"ok": _obs_sptenmat(np, M), "double": _sub(lambda: tgen.obs_dense(np, M.double().toarray())),
                        "coo": _sub(lambda: _obs_coo(np, M.double()))}
            if c.op == "sptenmat_back":
                return {"ok": tgen.obs_sparse(np, M.to_sptensor())}
            return {"ok": _obs_tenmat(np, M.full())}
        if c.op == "spmatrix":
            S = mk_sparse_opt(ttb, np, a["shape"], a["subs"], a["vals"], sdt=a.get("sdt"), vdt=a.get("vdt"), copy=a.get("copy", True))
            Cm = S.spmatrix()
            return {"ok": tgen.obs_dense(np, Cm.toarray()), "coo": _obs_coo(np, Cm)}
        if c.op == "from_array":
            A = relayout(np, tgen.np_dense(np, a["mshape"], a["mdata"]).astype(np_dtype(np, a.get("dt"))), a.get("lay"))
            if a["coo"]:
                t = a["trip"]
                A = sps.coo_matrix((np.array([x[2] for x in t], dtype=float).astype(np_dtype(np, a.get("dt"))),
                                    (np.array([x[0] for x in t], dtype=np_dtype(np, a.get("sdt") or "i8")),
                                     np.array([x[1] for x in t], dtype=np_dtype(np, a.get("sdt") or "i8")))),
                                   shape=tuple(a["mshape"]))
            M = ttb.sptenmat.from_array(A, _arr(np, a["rd"]), _arr(np, a["cd"]), tuple(a["tshape"]))
            return {"ok": _obs_sptenmat(np, M)}
        if c.op == "tenmat_ctor":
            data = None if a["dshape"] is None else relayout(np, tgen.np_dense(np, a["dshape"], a["data"]).astype(np_dtype(np, a.get("dt"))),
                                                             a.get("lay"))
            ts = None if a["tshape"] is None else tuple(a["tshape"])
            M = ttb.tenmat(data, _arr(np, a["rd"]), _arr(np, a["cd"]), ts, copy=a.get("copy", True))
            out = {"ok": _obs_tenmat(np, M)}
            if M.data.size > 0:      # the constructor's verdict is observed on its own; the conversions separately
                out["back"] = _sub(lambda: tgen.obs_dense(np, M.to_tensor()))
                out["again"] = _sub(lambda: _obs_tenmat(np, M.to_tensor().to_tenmat(M.rindices.copy(), M.cindices.copy())))
            return out
        if c.op == "sptenmat_ctor":
            subs = None if a["subs"] is None else np.array(a["subs"], dtype=int).reshape((len(a["subs"]), 2))
            vals = None if a["vals"] is None else np.array(a["vals"], dtype=float).reshape((len(a["vals"]), 1))
            if subs is not None and a.get("sdt"):        # fourth wave: integer type of the index array / element type / layouts
                subs = relayout(np, subs.astype(np_dtype(np, a["sdt"])), a.get("slay"))
            if vals is not None and a.get("vdt"):
                vals = relayout(np, vals.astype(np_dtype(np, a["vdt"])), a.get("vlay"))
            M = ttb.sptenmat(subs, vals, _arr(np, a["rd"]), _arr(np, a["cd"]), tuple(a["tshape"]))
            return {"ok": _obs_sptenmat(np, M), "back": _sub(lambda: tgen.obs_sparse(np, M.to_sptensor())),
                    "again": _sub(lambda: _obs_sptenmat(np, M.to_sptensor().to_sptenmat(M.rdims.copy(), M.cdims.copy())))}
        if c.op == "kfull":
            K = _mk_k(ttb, np, a["K"], a["shape"])
            rq = a.get("treq", {"rd": [0], "cd": None, "cy": None})
            dts = a["K"].get("dt")
            sc = 1 if not dts else 2 ** sum(1 for n in range(len(a["shape"])) if dts[n % len(dts)].endswith("h"))

            def scaled(ob):      # exact rescaling of the observed values by the power of two the halved factors introduce
                if sc != 1:
                    ob["data"] = [(lambda y: int(y) if y == int(y) else y)(x * sc) if not isinstance(x, str) else x for x in ob["data"]]
                return ob

            def scaled_tm(ob):
                scaled(ob["data"])
                return ob
            return {"ok": scaled(tgen.obs_dense(np, K.full())), "double": _sub(lambda: scaled(tgen.obs_dense(np, K.double()))),
                    "to_tensor": _sub(lambda: scaled(tgen.obs_dense(np, K.to_tensor()))),
                    "tenmat": _sub(lambda: scaled_tm(_obs_tenmat(np, K.to_tenmat(_arr(np, rq["rd"]), _arr(np, rq["cd"]), rq["cy"]))))}
        if c.op == "tfull":
            T = _mk_t(ttb, np, a["T"], a["shape"])
            return {"ok": tgen.obs_dense(np, T.full()), "double": _sub(lambda: tgen.obs_dense(np, T.double())),
                    "to_tensor": _sub(lambda: tgen.obs_dense(np, T.to_tensor()))}
        if c.op == "sumfull":
            parts = []
            for p in a["parts"]:
                if p["kind"] == "d":
                    parts.append(mk_dense_opt(ttb, np, a["shape"], p["data"], dt=p.get("dt"), lay=p.get("lay"), copy=p.get("copy", True),
                                              grow=p.get("grow")))
                elif p["kind"] == "s":
                    parts.append(mk_sparse_opt(ttb, np, a["shape"], p["subs"], p["vals"], sdt=p.get("sdt"), vdt=p.get("dt"),
                                               copy=p.get("copy", True), grow=p.get("grow")))
                elif p["kind"] == "k":
                    parts.append(_mk_k(ttb, np, p["K"], a["shape"]))
                else:
                    parts.append(_mk_t(ttb, np, p["T"], a["shape"]))
            st = ttb.sumtensor(parts, copy=a.get("copy", True))
            first = st.full()
            out = {"ok": tgen.obs_dense(np, first), "double": _sub(lambda: tgen.obs_dense(np, st.double())),
                   "to_tensor": _sub(lambda: tgen.obs_dense(np, st.to_tensor()))}
            # history: the same sumtensor converted again; the first result and every part looked at afterwards (raw)
            out["again"] = _sub(lambda: tgen.obs_dense(np, st.full()))
            out["first_after"] = tgen.obs_dense(np, first)
            out["parts_after"] = _sub(lambda: [_obs_part(np, ttb, q) for q in st.parts])
            if not a.get("copy", True):
                out["user_after"] = _sub(lambda: [_obs_part(np, ttb, q) for q in parts])
            return out
    except Exception as ex:
        return {"exc": type(ex).__name__, "msg": str(ex)[:200]}
    raise ValueError(c.op)


# ---------------------------------------------------------------------------------------- model side
def _gopt_nlist(l):
    return "None" if l is None else f"(Some {gnlist(l)})"


def _gcy(cy):
    return {None: "None", "fc": "(Some CycFC)", "bc": "(Some CycBC)", "t": "(Some CycT)"}[cy]


def _gmat_list(fs):
    return "[" + "; ".join(tgen.gmatrix(f) for f in fs) + "]"


def _gk(K):
    return tgen.gktensor(K["weights"], K["factors"])


def _gt(T):
    return f"(mkT {tgen.gdense(T['cshape'], T['core'])} {_gmat_list(T['factors'])})"


def _ints_dense(ob):
    return isinstance(ob, dict) and "data" in ob and tgen.all_int(ob["data"])


def _gtm(ob):
    return f"(mkTM {tgen.gdense(ob['data']['shape'], ob['data']['data'])} {gnlist(ob['r'])} {gnlist(ob['c'])} {gnlist(ob['tshape'])})"


def _gstm2(ob):
    from vcheck import gnmat, gzlist
    return f"(mkSTM {gnmat(ob['subs'])} {gzlist(ob['vals'])} {gnlist(ob['r'])} {gnlist(ob['c'])} {gnlist(ob['tshape'])})"


def _gcoo(co):
    from vcheck import gnmat, gzlist
    return f"(mkCoo {gnlist(co['shape'])} {gnmat(co['subs'])} {gzlist(co['vals'])})"


def _valid_request(a, N):
    """does the request denote an ordered partition of the modes? (what the model's gather_wrap_dims + permutation test accept)"""
    r, c, cy = a["rd"], a["cd"], a["cy"]
    if r is None and c is None:
        return False
    rr, cc = r, c
    if r is not None and c is None:
        if len(r) == 1 and cy is not None:
            return 0 <= r[0] < N
        cc = [m for m in range(N) if m not in r]
    elif r is None:
        rr = [m for m in range(N) if m not in c]
    return sorted(rr + cc) == list(range(N))


def check_conv(c, o):
    a = c.args
    exc = "exc" in o
    if c.op == "to_tenmat":
        T = tgen.gdense(a["shape"], a["data"])
        call = f"(zto_tenmat {T} {_gopt_nlist(a['rd'])} {_gopt_nlist(a['cd'])} {_gcy(a['cy'])})"
        if exc:
            return f"tm_ok {call} None {T} {T}"
        ob = o["ok"]
        if not _ints_dense(ob["data"]) or not _ints_dense(o["back"]) or not _ints_dense(o["double"]):
            return "false"
        if o["double"] != ob["data"] or ob["shape"] != ob["data"]["shape"]:
            return "false"
        if "back_nc" in o and (o["back_nc"] != o["back"] or o["ok_after"] != ob or o["t_full"] != {"shape": a["shape"], "data": a["data"]}):
            return "false"
        return f"tm_ok {call} (Some {_gtm(ob)}) {T} {tgen.gdense(o['back']['shape'], o['back']['data'])}"
    if c.op in ("to_sptenmat", "sptenmat_back", "sptenmat_full"):
        S = tgen.gsparse(a["shape"], a["subs"], a["vals"])
        call = f"(zto_sptenmat {S} {_gopt_nlist(a['rd'])} {_gopt_nlist(a['cd'])} {_gcy(a['cy'])})"
        if c.op == "to_sptenmat":
            if exc:
                return f"stm_ok {call} None {S} [] 0"
            ob = o["ok"]
            if not tgen.all_int(ob["vals"]) or ob["nnz"] != len(ob["subs"]):
                return "false"
            # scipy view: the dense matrix of the triples (pure-python scatter of the raw triples)
            if not _ints_dense(o["double"]) or o["double"]["shape"] != ob["shape"]:
                return "false"
            co = o.get("coo")
            if not isinstance(co, dict) or "vals" not in co or not tgen.all_int(co["vals"]):
                return "false"
            dbl = (f"stm_double_ok {_gstm2(ob)} {_gcoo(co)} {tgen.gdense(o['double']['shape'], o['double']['data'])}")
            scall = f"(zto_sptenmat_sorted {S} {_gopt_nlist(a['rd'])} {_gopt_nlist(a['cd'])} {_gcy(a['cy'])})"
            return (f"stm_ok {call} (Some {_gstm2(ob)}) {S} {gnlist(ob['shape'])} {ob['nnz']} && "
                    f"stm_sorted_ok {scall} (Some {_gstm2(ob)}) && {dbl}")
        if c.op == "sptenmat_back":
            if exc:
                return f"stm_back_ok {call} {S} None"
            ob = o["ok"]
            if not tgen.all_int(ob["vals"]) or ob["nnz"] != len(ob["subs"]):
                return "false"
            return f"stm_back_ok {call} {S} (Some {tgen.gsparse(ob['shape'], ob['subs'], ob['vals'])})"
        if exc:
            return f"stm_full_ok {call} {S} None"
        ob = o["ok"]
        if not _ints_dense(ob["data"]):
            return "false"
        return f"stm_full_ok {call} {S} (Some {_gtm(ob)})"
    if c.op == "spmatrix":
        if exc or not _ints_dense(o["ok"]):
            return "false"
        S = tgen.gsparse(a["shape"], a["subs"], a["vals"])
        co = o.get("coo")
        if not isinstance(co, dict) or not tgen.all_int(co["vals"]):
            return "false"
        return f"spmatrix_ok {S} (Some {_gcoo(co)}) {tgen.gdense(o['ok']['shape'], o['ok']['data'])}"
    if c.op == "from_array":
        from vcheck import gnmat, gzlist
        A = tgen.gdense(a["mshape"], a["mdata"])
        rdcd = f"(Some {gnlist(a['rd'])}) (Some {gnlist(a['cd'])}) {gnlist(a['tshape'])}"
        if a["coo"]:
            Cm = f"(mkCoo {gnlist(a['mshape'])} {gnmat([x[:2] for x in a['trip']])} {gzlist([x[2] for x in a['trip']])})"
            model = f"(zfrom_array_coo {Cm} {rdcd})"
        else:
            model = f"(zfrom_array_dense {A} {rdcd})"
        if exc:
            return f"from_array_ok {model} None {A}"
        ob = o["ok"]
        if not tgen.all_int(ob["vals"]) or ob["nnz"] != len(ob["subs"]):
            return "false"
        # ... and, as before, against to_sptenmat of the tensor the matrix denotes
        M = f"(mkTM {A} {gnlist(a['rd'])} {gnlist(a['cd'])} {gnlist(a['tshape'])})"
        S = f"(to_sptensor 0%Z zisz (tenmat_to_tensor 0%Z {M}))"
        call = f"(zto_sptenmat {S} (Some {gnlist(a['rd'])}) (Some {gnlist(a['cd'])}) None)"
        return (f"from_array_ok {model} (Some {_gstm2(ob)}) {A} && "
                f"stm_ok {call} (Some {_gstm2(ob)}) {S} {gnlist(ob['shape'])} {ob['nnz']}")
    if c.op == "tenmat_ctor":
        D = "None" if a["dshape"] is None else f"(Some {tgen.gdense(a['dshape'], a['data'])})"
        ts = "None" if a["tshape"] is None else f"(Some {gnlist(a['tshape'])})"
        call = f"(ztm_ctor {D} {_gopt_nlist(a['rd'])} {_gopt_nlist(a['cd'])} {ts})"
        if exc:
            return f"tm_ctor_ok {call} None None None"
        ob = o["ok"]
        if not _ints_dense(ob["data"]) or ob["shape"] != ob["data"]["shape"][:len(ob["shape"])]:
            return "false"
        if "back" not in o:
            return f"tm_ctor_ok {call} (Some {_gtm(ob)}) None None"
        if "exc" in o["back"] or "exc" in o["again"]:
            return f"tm_ctor_ok {call} (Some {_gtm(ob)}) None None"
        if not _ints_dense(o["back"]) or not _ints_dense(o["again"]["data"]):
            return "false"
        return (f"tm_ctor_ok {call} (Some {_gtm(ob)}) (Some {tgen.gdense(o['back']['shape'], o['back']['data'])}) "
                f"(Some {_gtm(o['again'])})")
    if c.op == "sptenmat_ctor":
        from vcheck import gnmat, gzlist
        subs = "None" if a["subs"] is None else f"(Some {gnmat(a['subs'])})"
        vals = "None" if a["vals"] is None else f"(Some {gzlist(a['vals'])})"
        call = f"(zstm_ctor {subs} {vals} {_gopt_nlist(a['rd'])} {_gopt_nlist(a['cd'])} {gnlist(a['tshape'])})"
        if exc:
            return f"stm_ctor_ok {call} None None None"
        ob, bk, ag = o["ok"], o["back"], o["again"]
        if "exc" in bk or "exc" in ag:
            return f"stm_ctor_ok {call} (Some {_gstm2(ob)}) None None" if tgen.all_int(ob["vals"]) else "false"
        if not (tgen.all_int(ob["vals"]) and tgen.all_int(bk["vals"]) and tgen.all_int(ag["vals"])):
            return "false"
        if ob["nnz"] != len(ob["subs"]) or bk["nnz"] != len(bk["subs"]) or ag["nnz"] != len(ag["subs"]):
            return "false"
        return (f"stm_ctor_ok {call} (Some {_gstm2(ob)}) (Some {tgen.gsparse(bk['shape'], bk['subs'], bk['vals'])}) "
                f"(Some {_gstm2(ag)})")
    if c.op == "kfull":
        K = _gk(a["K"])
        if exc:
            return f"kfull_ok {K} None"
        if not _ints_dense(o["ok"]) or o.get("double") != o["ok"] or o.get("to_tensor", o["ok"]) != o["ok"]:
            return "false"
        tm = o.get("tenmat")
        if not isinstance(tm, dict) or "data" not in tm or not _ints_dense(tm["data"]):
            return "false"
        D = tgen.gdense(o["ok"]["shape"], o["ok"]["data"])
        rq = a.get("treq", {"rd": [0], "cd": None, "cy": None})
        return (f"kfull_ok {K} (Some {D}) && tm_denotes {_gtm(tm)} {D} && "
                f"opt_eqb tm_eqb (zk_to_tenmat {K} {_gopt_nlist(rq['rd'])} {_gopt_nlist(rq['cd'])} {_gcy(rq['cy'])}) (Some {_gtm(tm)}) && "
                f"opt_eqb dense_eqb (zk_double {K}) (Some {tgen.gdense(o['double']['shape'], o['double']['data'])})")
    if c.op == "tfull":
        T = _gt(a["T"])
        if exc:
            return f"tfull_ok {T} None"
        if not _ints_dense(o["ok"]) or o.get("double") != o["ok"] or o.get("to_tensor", o["ok"]) != o["ok"]:
            return "false"
        D = tgen.gdense(o['ok']['shape'], o['ok']['data'])
        chk = f"tfull_ok {T} (Some {D}) && dense_eqb (zt_double {T}) {D}"
        if "csubs" in a["T"]:    # sparse core: pyttb's own route (sptensor.ttm in mode 0, tensor.ttm for the others)
            G = tgen.gsparse(a["T"]["cshape"], a["T"]["csubs"], a["T"]["cvals"])
            chk += f" && tfull_sp_ok {G} {_gmat_list(a['T']['factors'])} (Some {D})"
        return chk
    if c.op == "sumfull":
        ps = []
        for p in a["parts"]:
            if p["kind"] == "d":
                ps.append(f"PD {tgen.gdense(a['shape'], p['data'])}")
            elif p["kind"] == "s":
                ps.append(f"PS {tgen.gsparse(a['shape'], p['subs'], p['vals'])}")
            elif p["kind"] == "k":
                ps.append(f"PK {_gk(p['K'])}")
            else:
                ps.append(f"PT {_gt(p['T'])}")
        P = "[" + "; ".join(ps) + "]"
        # the parts as pyttb holds them (a Tucker part with a sparse core keeps its coordinate list): sumtensor.full as executed
        ps4 = []
        for p, g in zip(a["parts"], ps):
            if p["kind"] == "t" and "csubs" in p["T"]:
                ps4.append(f"QTS {tgen.gsparse(p['T']['cshape'], p['T']['csubs'], p['T']['cvals'])} {_gmat_list(p['T']['factors'])}")
            else:
                ps4.append("Q" + g[1:])
        P4 = "[" + "; ".join(ps4) + "]"
        if exc:
            return f"sumfull_ok {P} {gnlist(a['shape'])} None"
        if not _ints_dense(o["ok"]) or o.get("double") != o["ok"] or o.get("to_tensor", o["ok"]) != o["ok"]:
            return "false"
        Dsum = tgen.gdense(o['ok']['shape'], o['ok']['data'])
        chk = f"sumfull_ok {P} {gnlist(a['shape'])} (Some {Dsum}) && sumfull_code_ok {P4} (Some {Dsum})"
        if "again" in o:
            # second conversion of the same object against the same model; first result and all parts unchanged
            if not _ints_dense(o["again"]) or o["first_after"] != o["ok"]:
                return "false"
            for key in ("parts_after", "user_after"):
                if key in o and (not isinstance(o[key], list) or len(o[key]) != len(a["parts"]) or
                                 not all(_part_unchanged(a["shape"], p, q) for p, q in zip(a["parts"], o[key]))):
                    return "false"
            chk += f" && sumfull_ok {P} {gnlist(a['shape'])} (Some {tgen.gdense(o['again']['shape'], o['again']['data'])})"
        return chk
    raise ValueError(c.op)


# ---------------------------------------------------------------------------------------- brute-force oracle
def _lin(shape, sub):
    k, mul = 0, 1
    for x, d in zip(sub, shape):
        k += x * mul
        mul *= d
    return k


def _resolve(a, N):
    r, c, cy = a["rd"], a["cd"], a["cy"]
    if r is not None and c is None:
        if len(r) == 1 and cy is not None:
            m = r[0]
            if cy == "t":
                return [k for k in range(N) if k != m], [m]
            if cy == "fc":
                return [m], list(range(m + 1, N)) + list(range(m))
            return [m], list(range(m - 1, -1, -1)) + list(range(N - 1, m, -1))
        return r, [k for k in range(N) if k not in r]
    if r is None:
        return [k for k in range(N) if k not in c], c
    return r, c


def _den_k(K, i):
    tot = 0
    for r, w in enumerate(K["weights"]):
        t = w
        for f, x in zip(K["factors"], i):
            t *= f[x][r]
        tot += t
    return tot


def _den_t(T, i):
    tot = 0
    for j in tgen.all_subs(T["cshape"]):
        t = T["core"][_lin(T["cshape"], j)]
        for f, x, y in zip(T["factors"], i, j):
            t *= f[x][y]
        tot += t
    return tot


def _partition_of(rd, cd, N):
    """(r, c) the two mode lists denote, or None when they are not an ordered partition of range(N)"""
    if rd is None and cd is None:
        return None
    r = rd if rd is not None else [m for m in range(N) if m not in cd]
    c = cd if cd is not None else [m for m in range(N) if m not in rd]
    return (r, c) if sorted(r + c) == list(range(N)) else None


def _oracle_tm_ctor(a, o):
    """property on pyttb's own output: an accepted tenmat has a mode partition and the element count of its tensor, converts
    back to a tensor whose entry i sits at (sub2ind i[r], sub2ind i[c]) of the re-matricised form, with the same data list"""
    empty_args = not a["rd"] and not a["cd"] and not a["tshape"]
    n = 0 if a["dshape"] is None else math.prod(a["dshape"])
    if n == 0:
        if empty_args:
            return None if "exc" not in o and o["ok"]["tshape"] == [] and o["ok"]["data"]["data"] == [] else "tenmat() is not the empty object"
        return None if "exc" in o else "empty data with non-empty rdims / cdims / tshape was accepted"
    ds = a["dshape"]
    if len(ds) == 1:
        ds = [1, ds[0]] if a["tshape"] is not None else None
    admissible = ds is not None and len(ds) == 2
    if admissible:
        ts = a["tshape"] if a["tshape"] is not None else ds
        part = _partition_of(a["rd"], a["cd"], len(ts))
        admissible = math.prod(ts) == n and part is not None
    if not admissible:
        return None if "exc" in o else "a tenmat whose modes / element count do not describe a tensor was accepted"
    if "exc" in o:
        return f"admissible tenmat constructor call raised {o['exc']}: {o.get('msg')}"
    r, c_ = part
    ob = o["ok"]
    if ob["r"] != r or ob["c"] != c_ or ob["tshape"] != ts or ob["data"]["data"] != a["data"]:
        return "constructed tenmat reports other modes / shape / data than it was given"
    if "back" not in o or "exc" in o["back"] or "exc" in o["again"]:
        return "to_tensor() / to_tenmat() of an accepted tenmat raised"
    if o["back"]["shape"] != ts:
        return "to_tensor() of an accepted tenmat has the wrong shape"
    rs, cs = [ts[k] for k in r], [ts[k] for k in c_]
    R, C = math.prod(rs), math.prod(cs)
    ag = o["again"]
    if ag["data"]["shape"] != [R, C] or ag["data"]["data"] != a["data"]:
        return "to_tenmat(to_tensor(M)) does not have M's entries"
    for i in tgen.all_subs(ts):
        if ag["data"]["data"][_lin(rs, [i[k] for k in r]) + R * _lin(cs, [i[k] for k in c_])] != o["back"]["data"][_lin(ts, i)]:
            return f"tensor entry {i} of to_tensor(M) is not at its matrix position"
    return None


def _oracle_stm_ctor(a, o):
    """property on pyttb's own output: accepted iff the triples are in range along a mode partition; the stored triples are
    strictly increasing (row, col), nonzero, and hold the per-position sums; to_sptensor / to_sptenmat round-trips"""
    ts = a["tshape"]
    N = len(ts)
    subs = a["subs"] or []
    vals = a["vals"] or []
    if a["rd"] is None and a["cd"] is None:
        if a["subs"] is None and a["vals"] is None:
            if "exc" in o or o["ok"]["subs"] != [] or o["ok"]["tshape"] != []:
                return "sptenmat() is not the empty object"
            return None if o["ok"]["nnz"] == 0 else f"sptenmat() stores no value but reports nnz = {o['ok']['nnz']}"
        return None if "exc" in o else "subs / vals without rdims and cdims were accepted"
    part = _partition_of(a["rd"], a["cd"], N)
    ok = part is not None
    if ok:
        r, c_ = part
        R, C = math.prod(ts[k] for k in r), math.prod(ts[k] for k in c_)
        ok = all(0 <= i < R and 0 <= j < C for i, j in subs)
    if not ok:
        return None if "exc" in o else "a sptenmat with out-of-range indices or without a mode partition was accepted"
    if "exc" in o:
        return f"admissible sptenmat constructor call raised {o['exc']}: {o.get('msg')}"
    want = {}
    for (i, j), v in zip(subs, vals):
        want[(i, j)] = want.get((i, j), 0) + v
    want = {k: v for k, v in want.items() if v != 0}
    ob = o["ok"]
    got = [(tuple(x), v) for x, v in zip(ob["subs"], ob["vals"])]
    if dict(got) != want or len(got) != len(want) or ob["nnz"] != len(want):
        return "stored triples do not hold the per-position sums of the given values"
    # (the stored ORDER is compared with the model in Coq; the property itself does not pin it, so it is not judged here)
    if ob["r"] != r or ob["c"] != c_ or ob["tshape"] != ts:
        return "constructed sptenmat reports other modes / shape than it was given"
    rs, cs = [ts[k] for k in r], [ts[k] for k in c_]
    bk = o["back"]
    if "exc" in bk or "exc" in o["again"]:
        return "to_sptensor() / to_sptenmat() of an accepted sptenmat raised"
    img = {}
    for sub, v in zip(bk["subs"], bk["vals"]):
        img[(_lin(rs, [sub[k] for k in r]), _lin(cs, [sub[k] for k in c_]))] = v
    if img != want or bk["shape"] != ts or bk["nnz"] != len(want):
        return "to_sptensor() of an accepted sptenmat does not denote the same array"
    ag = o["again"]
    if ag["subs"] != ob["subs"] or ag["vals"] != ob["vals"]:
        return "to_sptenmat(to_sptensor(M)) is not M"
    return None


def oracle_conv(c, o):
    a = c.args
    if c.op == "tenmat_ctor":
        return _oracle_tm_ctor(a, o)
    if c.op == "sptenmat_ctor":
        return _oracle_stm_ctor(a, o)
    if c.op in ("to_tenmat", "to_sptenmat", "sptenmat_back", "sptenmat_full"):
        shp = a["shape"]
        N = len(shp)
        if not _valid_request(a, N):
            return None if "exc" in o else "request that is not an ordered partition of the modes was accepted"
        if "exc" in o:
            return f"admissible conversion raised {o['exc']}: {o.get('msg')}"
        r, c_ = _resolve(a, N)
        rs, cs = [shp[k] for k in r], [shp[k] for k in c_]
        R, C = math.prod(rs), math.prod(cs)
        if c.op == "to_tenmat":
            ob = o["ok"]
            if ob["data"]["shape"] != [R, C] or ob["r"] != r or ob["c"] != c_ or ob["tshape"] != shp:
                return f"reported rows/cols/modes {ob['data']['shape']} {ob['r']} {ob['c']} differ from ({R},{C}) {r} {c_}"
            for i in tgen.all_subs(shp):
                row, col = _lin(rs, [i[k] for k in r]), _lin(cs, [i[k] for k in c_])
                if ob["data"]["data"][row + R * col] != a["data"][_lin(shp, i)]:
                    return f"matrix entry ({row},{col}) is not tensor entry {i}"
            if "exc" in o["back"] or o["back"]["data"] != a["data"] or o["back"]["shape"] != shp:
                return "to_tensor(to_tenmat(T)) is not T"
            if "back_nc" in o:
                if o["back_nc"] != o["back"]:
                    return "to_tensor(copy=False) of the tenmat is not T"
                if o["ok_after"] != ob:
                    return "the tenmat changed during to_tensor"
                if o["t_full"] != {"shape": shp, "data": a["data"]}:
                    return "tensor.full() is not the tensor"
            return None
        din = {tuple(s): v for s, v in zip(a["subs"], a["vals"])}
        if c.op == "to_sptenmat":
            ob = o["ok"]
            got = {}
            for (i, j), v in zip(ob["subs"], ob["vals"]):
                if (i, j) in got or v == 0 or not (0 <= i < R and 0 <= j < C):
                    return "triples ill-formed"
                got[(i, j)] = v
            want = {(_lin(rs, [s[k] for k in r]), _lin(cs, [s[k] for k in c_])): v for s, v in din.items()}
            if got != want or ob["nnz"] != len(din) or ob["shape"] != [R, C] or ob["r"] != r or ob["c"] != c_ or ob["tshape"] != shp:
                return "sptenmat does not denote the sparse tensor / reports wrong shape, modes or nnz"
            return None
        if c.op == "sptenmat_back":
            ob = o["ok"]
            got = {tuple(s): v for s, v in zip(ob["subs"], ob["vals"])}
            if len(got) != len(ob["subs"]) or got != din or ob["shape"] != shp or ob["nnz"] != len(din):
                return "to_sptensor(to_sptenmat(S)) is not S"
            return None
        ob = o["ok"]
        want = [0] * (R * C)
        for s, v in din.items():
            want[_lin(rs, [s[k] for k in r]) + R * _lin(cs, [s[k] for k in c_])] = v
        if ob["data"]["shape"] != [R, C] or ob["data"]["data"] != want:
            return "full(sptenmat) is not the matricised dense tensor"
        return None
    if "exc" in o:
        return f"admissible conversion raised {o['exc']}: {o.get('msg')}"
    if c.op == "spmatrix":
        din = {tuple(s): v for s, v in zip(a["subs"], a["vals"])}
        want = [din.get(tuple(i), 0) for i in tgen.all_subs(a["shape"])]
        return None if o["ok"]["data"] == want and o["ok"]["shape"] == a["shape"] else "scipy matrix differs from the sparse tensor"
    if c.op == "from_array":
        ob = o["ok"]
        R = a["mshape"][0]
        got = {}
        for (i, j), v in zip(ob["subs"], ob["vals"]):
            got[(i, j)] = v
        want = {(k % R, k // R): v for k, v in enumerate(a["mdata"]) if v != 0}
        return None if got == want and ob["nnz"] == len(want) and ob["shape"] == a["mshape"] else "sptenmat differs from the matrix"
    if c.op == "kfull":
        want = [_den_k(a["K"], i) for i in tgen.all_subs(a["shape"])]
        if o["ok"]["data"] != want or o["ok"]["shape"] != a["shape"]:
            return "full(K) differs from sum_r w_r prod_n A_n[i_n,r]"
        if o.get("double") != o["ok"] or o.get("to_tensor", o["ok"]) != o["ok"]:
            return "double(K) / to_tensor(K) differs from full(K)"
        tm = o.get("tenmat")
        if not isinstance(tm, dict) or "data" not in tm:
            return f"to_tenmat(K) raised: {tm}"
        shp = a["shape"]
        r, c_ = _resolve(a.get("treq", {"rd": [0], "cd": None, "cy": None}), len(shp))
        rs, cs = [shp[k] for k in r], [shp[k] for k in c_]
        R, C = math.prod(rs), math.prod(cs)
        if tm["data"]["shape"] != [R, C] or tm["r"] != r or tm["c"] != c_ or tm["tshape"] != shp:
            return f"to_tenmat(K) reports rows/cols/modes {tm['data']['shape']} {tm['r']} {tm['c']}, requested ({R},{C}) {r} {c_}"
        for i in tgen.all_subs(shp):
            if tm["data"]["data"][_lin(rs, [i[k] for k in r]) + R * _lin(cs, [i[k] for k in c_])] != want[_lin(shp, i)]:
                return f"to_tenmat(K): matrix entry of tensor entry {i} is not sum_r w_r prod_n A_n[i_n,r]"
        return None
    if c.op == "tfull":
        want = [_den_t(a["T"], i) for i in tgen.all_subs(a["shape"])]
        if o["ok"]["data"] != want or o["ok"]["shape"] != a["shape"]:
            return "full(T) differs from sum_j G[j] prod_n U_n[i_n,j_n]"
        if o.get("double", o["ok"]) != o["ok"] or o.get("to_tensor", o["ok"]) != o["ok"]:
            return "double(T) / to_tensor(T) differs from full(T)"
        return None
    if c.op == "sumfull":
        want = []
        for i in tgen.all_subs(a["shape"]):
            tot = 0
            for p in a["parts"]:
                if p["kind"] == "d":
                    tot += p["data"][_lin(a["shape"], i)]
                elif p["kind"] == "s":
                    tot += dict((tuple(s), v) for s, v in zip(p["subs"], p["vals"])).get(tuple(i), 0)
                elif p["kind"] == "k":
                    tot += _den_k(p["K"], i)
                else:
                    tot += _den_t(p["T"], i)
            want.append(tot)
        if o["ok"]["data"] != want or o["ok"]["shape"] != a["shape"]:
            return "full(sum) differs from the sum of the parts"
        if o.get("double") != o["ok"] or o.get("to_tensor", o["ok"]) != o["ok"]:
            return "double(sum) / to_tensor(sum) differs from full(sum)"
        if "again" in o:
            if o["again"] != o["ok"]:
                return "converting the same sumtensor a second time gives a different array"
            if o["first_after"] != o["ok"]:
                return "the tensor returned by the first conversion changed when the sumtensor was converted again"
            for key in ("parts_after", "user_after"):
                if key in o and (not isinstance(o[key], list) or
                                 not all(_part_unchanged(a["shape"], p, q) for p, q in zip(a["parts"], o[key]))):
                    return "a part of the sumtensor no longer holds its data after the conversion"
        return None
    return None


# ---------------------------------------------------------------------------------------- known findings
# A-01, A-02, A-02b, N-C01-1 (rank-0 Kruskal, /repo d9f07bf), N-C01-2, N-C01-3, N-C01-4, N-C01-5 are all repaired in /repo: no trigger,
# no witness — a regression is a violation. The witness inputs stay in the stream as ordinary cases (kfull with R = 0 on every
# shape of `kshapes`, [3, 2] included; rank-0 Kruskal parts inside sums).
# N-C01-5 (ttensor(core, factors, copy=False) with a scipy coo factor matrix raised AttributeError) is repaired by /repo 9d096f6
# (ttensor._matches_order answers True for a coo matrix): no trigger, no witness — coo factor matrices with copy=True / copy=False are an
# ordinary input class of tfull / tdouble / sums (c01_w4.py `_decorate_t(allow_coo=True)`, `gen_coo_tucker`), the former witness
# (2 x 2 core, factors [coo 3 x 2, F-ordered 2 x 2], copy=False) is the regression case `tfull` with ctor.coo = [True, False].
TRIGGERS = {}
WITNESSES = {}
