(* Props/C04Gen.v — C04, wave 3b: the sparse region read of the hand model (Model/C04Model.v) stated over the functions the
   translator GENERATES from /repo/pyttb/pyttb_utils.py (Gen/GenUtils3.v, regenerated on every run).
   Only statements, `exact`, Print Assumptions (+ a concrete non-vacuity example). *)
From Coq Require Import List Arith ZArith Bool.
From PV Require Import Base.Index Np.NpZ Np.NpZ2 Np.NpZ3 Gen.GenUtils3 Model.W3Utils.
From PV Require Import Model.C04Model Proofs.C04RegionGet Proofs.C04GenBridge.
Import ListNotations.

(* one mode of sptensor.__getitem__(region): e = the key element (integer incl. negative, slice with any bounds / step, index
   list), accepted by the specification on a mode of extent d with selection l (elem_indices) that does not repeat an index;
   idx = the stored subscripts of the mode after the subdims filter (all inside l).  The GENERATED tt_renumberdim, called as
   __getitem__ / tt_renumber call it (zkey: negative integers already normalised), returns exactly the position of every
   subscript inside the selection (index_of, what the model's renumber / renumber_all / sp_region_get use) and the extent of
   the renumbered mode (len l; 0 for an integer: the mode is dropped) *)
Theorem C04_gen_region_read_mode : forall (d : nat) (e : C04Model.kelem) kept (l idx : list nat),
  elem_indices d e = Some (kept, l) -> NoDup l -> (forall x, In x idx -> In x l) ->
  tt_renumberdim (zs idx) (Z.of_nat d) (zkey d e) =
    Ok (zs (map (fun x => index_of0 x l) idx), if kept then Z.of_nat (length l) else 0%Z).
Proof. exact gen_renumberdim_elem. Qed.
Print Assumptions C04_gen_region_read_mode.

(* the same for ANY key entry whose selection, as the reference of the generated text computes it, is a duplicate-free list *)
Theorem C04_gen_renumberdim_is_index_of : forall (d : nat) (nr : pyidx) (l idx : list nat),
  H_selection (Z.of_nat d) nr = Ok (zs l, zlen (zs l)) ->
  NoDup l -> (forall x, In x l -> x < d) -> (forall x, In x idx -> In x l) ->
  tt_renumberdim (zs idx) (Z.of_nat d) nr = Ok (zs (map (fun x => index_of0 x l) idx), Z.of_nat (length l)).
Proof. exact gen_renumberdim_index_of. Qed.
Print Assumptions C04_gen_renumberdim_is_index_of.

(* range(d)[a:b:c]: the Python slice semantics of the specification (C04Model.py_slice) and of the translator's numpy layer
   (NpZ3.py_slice on np.arange(0, d), used by the generated tt_renumberdim) are the same list, for all bounds and steps <> 0 *)
Theorem C04_gen_slice_selection : forall (d : nat) a b c, slice_ok (mkslice a b c) = true ->
  NpZ3.py_slice 0%Z (np_arange 0 (Z.of_nat d)) (mkslice a b c) = zs (C04Model.py_slice d a b c).
Proof. exact gen_slice_selection. Qed.
Print Assumptions C04_gen_slice_selection.

Theorem C04_slice_positions_in_range : forall (d : nat) a b c x, In x (C04Model.py_slice d a b c) -> x < d.
Proof. exact c04_slice_range. Qed.
Print Assumptions C04_slice_positions_in_range.

(* the link to the model: one mode of `renumber` is index_of0 on that mode *)
Theorem C04_renumber_mode : forall kept l ls x p, In x l ->
  renumber ((kept, l) :: ls) (x :: p) =
  match renumber ls p with Some r => Some (if kept then index_of0 x l :: r else r) | None => None end.
Proof. exact renumber_cons. Qed.
Print Assumptions C04_renumber_mode.

(* non-vacuity: a stepped negative slice, an index list in non-monotone order and a negative integer on modes of extent 5 *)
Example C04_gen_region_read_mode_example :
  tt_renumberdim (zs [4; 0; 2]) 5 (zkey 5 (C04Model.KSlice None None (Some (-2)%Z))) = Ok ([0; 2; 1]%Z, 3%Z) /\
  elem_indices 5 (C04Model.KSlice None None (Some (-2)%Z)) = Some (true, [4; 2; 0]) /\
  tt_renumberdim (zs [3; 1; 3]) 5 (zkey 5 (C04Model.KList [3; 0; 1]%Z)) = Ok ([0; 2; 0]%Z, 3%Z) /\
  tt_renumberdim (zs [3; 3]) 5 (zkey 5 (C04Model.KInt (-2)%Z)) = Ok ([0; 0]%Z, 0%Z).
Proof. repeat split; vm_compute; reflexivity. Qed.
