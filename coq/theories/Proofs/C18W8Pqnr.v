(* Proofs/C18W8Pqnr.v — C18, clause "whatever the printing / verbosity settings", over the translator-GENERATED driver
   Gen/GenCpAprPqnr.v (pyttb/cp_apr.py::tt_cp_apr_pqnr, region `M = init.copy()` .. `return (M, output)`).  As for PDNR
   (Proofs/C18W8Pdnr.v) the generated text reads both verbosity parameters:
     * v_printinneritn only through `dispLineWarn = printinneritn > 0`, handed to the three row kernels k_linesearch_first (priming
       search), k_search_dir_pqnr (get_search_dir_pqnr) and k_linesearch; in the source the flag gates warnings.warn only.  Contracts
       H_lsf / H_sd / H_ls: the kernels' answers do not depend on it.
     * v_printitn in `if printitn > 0 and iteration % printitn == 0: fnVals[iteration] = -tt_loglikelihood(X, M)` (NOT under `inexact`
       here): output["fnVals"] is filled on printed iterations only; everything else - model, world, the other seven output fields,
       raising or not - is the same, and fnVals keeps its length. *)
From Coq Require Import String List Arith Bool Lia.
From PV Require Import Model.W4SPrelude Gen.GenCpAprPqnr Proofs.C18W8Util.
Import ListNotations.
Local Open Scope nat_scope.

Section PQNR.
Variables T_W T_F T_K T_X T_Pi T_Xmat T_Idx T_Row T_Mem : Type.
Variable c_leF : T_F -> T_F -> bool.
Variable c_zeroF : T_F.
Variable c_m1F : T_F.
Variable c_subF : T_F -> T_F -> T_F.
Variable k_normalize : T_K -> nat -> T_K.
Variable k_is_sptensor : T_X -> bool.
Variable k_time : T_W -> T_W * T_F.
Variable k_num_rows : T_K -> nat -> nat.
Variable k_row_indices : T_X -> nat -> nat -> T_Idx.
Variable k_redistribute : T_K -> nat -> T_K.
Variable k_calcpi_dense : T_X -> T_K -> nat -> nat -> nat -> bool -> T_Pi.
Variable k_unfold : T_X -> nat -> T_Xmat.
Variable k_idx_empty : T_Idx -> bool.
Variable k_zero_row : T_K -> nat -> nat -> T_K.
Variable k_vals_at : T_X -> T_Idx -> T_Row.
Variable k_calcpi_sparse : T_X -> T_K -> nat -> nat -> nat -> bool -> T_Idx -> T_Pi.
Variable k_get_row : T_K -> nat -> nat -> T_Row.
Variable k_zeros_mem : nat -> nat -> T_Mem.
Variable k_empty_row : T_Row -> T_Row.
Variable k_calc_grad : bool -> T_Pi -> T_F -> T_Row -> T_Row -> T_Row * T_Row.
Variable k_linesearch_first : T_Row -> T_Row -> bool -> T_Row -> T_Pi -> T_Row -> bool -> T_Row * nat.
Variable k_kkt_row : T_Row -> T_Row -> T_F.
Variable k_row_sub : T_Row -> T_Row -> T_Row.
Variable k_row_dot : T_Row -> T_Row -> T_F.
Variable k_is_zeroF : T_F -> bool.
Variable k_recip : T_F -> T_F.
Variable k_set_col : T_Mem -> nat -> T_Row -> T_Mem.
Variable k_search_dir_pqnr : T_Row -> T_Row -> T_F -> T_Mem -> T_Mem -> list T_F -> nat -> nat -> bool -> T_Row.
Variable k_linesearch : T_Row -> T_Row -> T_Row -> bool -> T_Row -> T_Pi -> T_Row -> bool -> T_Row * nat.
Variable k_last_rho_positive : list T_F -> nat -> bool.
Variable k_set_row : T_K -> nat -> nat -> T_Row -> T_K.
Variable k_xmat_row : T_Xmat -> nat -> T_Row.
Variable k_any_row : T_Row -> bool.
Variable k_normalize_mode : T_K -> nat -> nat -> T_K.
Variable k_count_zero : T_K -> nat -> nat.
Variable k_max : list T_F -> T_F.
Variable k_print_now : nat -> nat -> bool.
Variable k_neg_loglikelihood : T_X -> T_K -> T_F.
Variable k_normalize_sort : T_K -> nat -> bool -> T_K.
Variable k_loglikelihood : T_X -> T_K -> T_F.

Notation gl1 := (GenCpAprPqnr.cp_apr_pqnr_loop1 T_K T_X T_Idx k_num_rows k_row_indices).
Notation gl2 := (GenCpAprPqnr.cp_apr_pqnr_loop2 T_X T_Idx k_row_indices).
Notation gl3 := (GenCpAprPqnr.cp_apr_pqnr_loop3 T_W T_F T_K T_X T_Pi T_Xmat T_Idx T_Row T_Mem c_leF c_zeroF c_subF k_is_sptensor k_time k_num_rows k_row_indices k_redistribute k_calcpi_dense k_unfold k_idx_empty k_zero_row k_vals_at k_calcpi_sparse k_get_row k_zeros_mem k_empty_row k_calc_grad k_linesearch_first k_kkt_row k_row_sub k_row_dot k_is_zeroF k_recip k_set_col k_search_dir_pqnr k_linesearch k_last_rho_positive k_set_row k_xmat_row k_any_row k_normalize_mode k_count_zero k_max k_print_now k_neg_loglikelihood).
Notation gl4 := (GenCpAprPqnr.cp_apr_pqnr_loop4 T_F T_K T_X T_Pi T_Xmat T_Idx T_Row T_Mem c_leF c_zeroF k_is_sptensor k_num_rows k_row_indices k_redistribute k_calcpi_dense k_unfold k_idx_empty k_zero_row k_vals_at k_calcpi_sparse k_get_row k_zeros_mem k_empty_row k_calc_grad k_linesearch_first k_kkt_row k_row_sub k_row_dot k_is_zeroF k_recip k_set_col k_search_dir_pqnr k_linesearch k_last_rho_positive k_set_row k_xmat_row k_any_row k_normalize_mode).
Notation gl5 := (GenCpAprPqnr.cp_apr_pqnr_loop5 T_F T_K T_X T_Pi T_Xmat T_Idx T_Row T_Mem c_leF c_zeroF k_is_sptensor k_row_indices k_idx_empty k_zero_row k_vals_at k_calcpi_sparse k_get_row k_zeros_mem k_empty_row k_calc_grad k_linesearch_first k_kkt_row k_row_sub k_row_dot k_is_zeroF k_recip k_set_col k_search_dir_pqnr k_linesearch k_last_rho_positive k_set_row k_xmat_row k_any_row).
Notation gl6 := (GenCpAprPqnr.cp_apr_pqnr_loop6 T_F T_Pi T_Row T_Mem c_leF k_calc_grad k_linesearch_first k_kkt_row k_row_sub k_row_dot k_is_zeroF k_recip k_set_col k_search_dir_pqnr k_linesearch k_last_rho_positive).
Notation gl7 := (GenCpAprPqnr.cp_apr_pqnr_loop7 T_F T_Pi T_Row T_Mem c_leF k_calc_grad k_linesearch_first k_kkt_row k_row_sub k_row_dot k_is_zeroF k_recip k_set_col k_search_dir_pqnr k_linesearch k_last_rho_positive).
Notation gl8 := (GenCpAprPqnr.cp_apr_pqnr_loop8 T_K k_count_zero).
Notation gpqnr := (GenCpAprPqnr.cp_apr_pqnr T_W T_F T_K T_X T_Pi T_Xmat T_Idx T_Row T_Mem c_leF c_zeroF c_m1F c_subF k_normalize k_is_sptensor k_time k_num_rows k_row_indices k_redistribute k_calcpi_dense k_unfold k_idx_empty k_zero_row k_vals_at k_calcpi_sparse k_get_row k_zeros_mem k_empty_row k_calc_grad k_linesearch_first k_kkt_row k_row_sub k_row_dot k_is_zeroF k_recip k_set_col k_search_dir_pqnr k_linesearch k_last_rho_positive k_set_row k_xmat_row k_any_row k_normalize_mode k_count_zero k_max k_print_now k_neg_loglikelihood k_normalize_sort k_loglikelihood).

(* the row kernels' answers do not depend on the warning-display flag *)
Hypothesis H_lsf : forall g m sp x Pi ph (b : bool), k_linesearch_first g m sp x Pi ph b = k_linesearch_first g m sp x Pi ph false.
Hypothesis H_sd : forall m g e dm dg rho pos i (b : bool), k_search_dir_pqnr m g e dm dg rho pos i b = k_search_dir_pqnr m g e dm dg rho pos i false.
Hypothesis H_ls : forall d g m sp x Pi ph (b : bool), k_linesearch d g m sp x Pi ph b = k_linesearch d g m sp x Pi ph false.

Lemma q_loop6_flag (b : bool) : forall fuel a1 a3 a4 a5 a6 a7 a8 a9 a10 a11 i st,
  gl6 a1 b a3 a4 a5 a6 a7 a8 a9 a10 a11 fuel i st = gl6 a1 false a3 a4 a5 a6 a7 a8 a9 a10 a11 fuel i st.
Proof.
  induction fuel as [|fuel IH]; intros; [reflexivity|]. cbn [GenCpAprPqnr.cp_apr_pqnr_loop6].
  c18w8_lock ltac:(first [rewrite (H_ls _ _ _ _ _ _ _ b) | rewrite (H_lsf _ _ _ _ _ _ b) | rewrite (H_sd _ _ _ _ _ _ _ _ b) | apply IH]).
Qed.

Lemma q_loop7_flag (b : bool) : forall fuel a1 a3 a4 a5 a6 a7 a8 a9 a10 a11 i st,
  gl7 a1 b a3 a4 a5 a6 a7 a8 a9 a10 a11 fuel i st = gl7 a1 false a3 a4 a5 a6 a7 a8 a9 a10 a11 fuel i st.
Proof.
  induction fuel as [|fuel IH]; intros; [reflexivity|]. cbn [GenCpAprPqnr.cp_apr_pqnr_loop7].
  c18w8_lock ltac:(first [rewrite (H_ls _ _ _ _ _ _ _ b) | rewrite (H_lsf _ _ _ _ _ _ b) | rewrite (H_sd _ _ _ _ _ _ _ _ b) | apply IH]).
Qed.

Lemma q_loop5_flag (b : bool) : forall fuel a1 a2 a4 a5 a6 a7 a8 a9 a10 a11 a12 a13 a14 a15 i st,
  gl5 a1 a2 b a4 a5 a6 a7 a8 a9 a10 a11 a12 a13 a14 a15 fuel i st = gl5 a1 a2 false a4 a5 a6 a7 a8 a9 a10 a11 a12 a13 a14 a15 fuel i st.
Proof.
  induction fuel as [|fuel IH]; intros; [reflexivity|]. cbn [GenCpAprPqnr.cp_apr_pqnr_loop5].
  c18w8_lock ltac:(first [rewrite (q_loop6_flag b) | rewrite (q_loop7_flag b) | apply IH]).
Qed.

Lemma q_loop4_flag (b : bool) : forall fuel a1 a3 a4 a5 a6 a7 a8 a9 a10 a11 a12 a13 i st,
  gl4 a1 b a3 a4 a5 a6 a7 a8 a9 a10 a11 a12 a13 fuel i st = gl4 a1 false a3 a4 a5 a6 a7 a8 a9 a10 a11 a12 a13 fuel i st.
Proof.
  induction fuel as [|fuel IH]; intros; [reflexivity|]. cbn [GenCpAprPqnr.cp_apr_pqnr_loop4].
  c18w8_lock ltac:(first [rewrite (q_loop5_flag b) | apply IH]).
Qed.

(* ---- outer loop: the state without fnVals (its length kept) ---- *)
Definition q_drop_fv (st : T_K * (list nat) * (list T_F) * (option nat) * (option nat) * (list T_F) * (option nat) * (list nat) * (option nat) * (list nat) * (list T_F) * T_W) :=
  let '(M, fe, fv, it, jj, kv, n, ni, nr, nz, tm, w) := st in (M, fe, length fv, it, jj, kv, n, ni, nr, nz, tm, w).

Lemma q_loop3_print (b1 b2 : bool) (p1 p2 : nat) : forall fuel a1 a3 a4 a5 a6 a7 a8 a9 a11 a12 a13 a14 a15 i M fe fv1 fv2 it jj kv n ni nr nz tm w,
  length fv1 = length fv2 -> i + fuel <= length fv1 ->
  option_map q_drop_fv (gl3 a1 b1 a3 a4 a5 a6 a7 a8 a9 p1 a11 a12 a13 a14 a15 fuel i (M, fe, fv1, it, jj, kv, n, ni, nr, nz, tm, w)) =
  option_map q_drop_fv (gl3 a1 b2 a3 a4 a5 a6 a7 a8 a9 p2 a11 a12 a13 a14 a15 fuel i (M, fe, fv2, it, jj, kv, n, ni, nr, nz, tm, w)).
Proof.
  induction fuel as [|fuel IH]; intros a1 a3 a4 a5 a6 a7 a8 a9 a11 a12 a13 a14 a15 i M fe fv1 fv2 it jj kv n ni nr nz tm w Hl Hf.
  - cbn. rewrite Hl. reflexivity.
  - cbn [GenCpAprPqnr.cp_apr_pqnr_loop3].
    rewrite (q_loop4_flag b1), (q_loop4_flag b2).
    destruct ((0 <? p1) && k_print_now i p1), ((0 <? p2) && k_print_now i p2); cbv beta iota;
    c18w8_lock ltac:(first
      [ rewrite (c18w8_sk_set_lt fv1) by lia
      | rewrite (c18w8_sk_set_lt fv2) by lia
      | apply IH; rewrite ?c18w8_upd_length by lia; lia
      | match goal with |- option_map _ (Some _) = option_map _ (Some _) =>
          cbn [option_map q_drop_fv]; rewrite ?c18w8_upd_length by lia; rewrite Hl; reflexivity end ]).
Qed.

(* same gate at every iteration: the whole state is equal *)
Lemma q_loop3_gate (b1 b2 : bool) (p1 p2 : nat) :
  (forall i, (0 <? p1) && k_print_now i p1 = (0 <? p2) && k_print_now i p2) ->
  forall fuel a1 a3 a4 a5 a6 a7 a8 a9 a11 a12 a13 a14 a15 i st,
  gl3 a1 b1 a3 a4 a5 a6 a7 a8 a9 p1 a11 a12 a13 a14 a15 fuel i st = gl3 a1 b2 a3 a4 a5 a6 a7 a8 a9 p2 a11 a12 a13 a14 a15 fuel i st.
Proof.
  intros Hg. induction fuel as [|fuel IH]; intros; [reflexivity|].
  repeat match goal with p : (_ * _)%type |- _ => destruct p end. cbn [GenCpAprPqnr.cp_apr_pqnr_loop3].
  rewrite (q_loop4_flag b1), (q_loop4_flag b2). rewrite (Hg i).
  c18w8_lock ltac:(apply IH).
Qed.
End PQNR.
