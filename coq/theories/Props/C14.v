(* Props/C14.v — leading mode-n vectors (nvecs). Only statements, `exact`, Print Assumptions.
   Partial by design (DESIGN §C14): the eigen solvers are certificate-checked oracles in the correspondence. *)
From Coq Require Import List Arith Bool Reals Ring Permutation Sorted.
From PV Require Import Base.Index Base.Sum Np.Array Model.Sparse Model.Repr Model.C01Conv Model.C01Coo Model.C01Ttm Np.NpR Model.C14Nvecs Model.C14Gram Proofs.C14Sums
                       Proofs.C14Split Proofs.C14GramSp Proofs.C14GramT Proofs.C14Post Model.C14Unfold Proofs.C14Unfold Model.C01Unique Model.C14SpPath Proofs.C14Coo Proofs.C14SpPath Model.C14SpChain Proofs.C14SpChain Model.C14SpPost Proofs.C14SpPost Model.C14CpTucker Proofs.C14CpTucker Proofs.C14KyFan Model.C14Held Proofs.C14Held.
Import ListNotations.

Section C14_ring.
Variable V : Type.
Variables (v0 v1 : V) (vadd vmul vsub : V -> V -> V) (vopp : V -> V).
Hypothesis Vring : ring_theory v0 v1 vadd vmul vsub vopp (@eq V).

(* dense: (Xn Xn^T)[a,b] = sum_{i : rest} X(a,i) X(b,i)  — for every shape, mode and ring *)
Theorem C14_gram_dense : forall (X : dense V) (n a b : nat),
  a < nth n (dshape X) 0 -> b < nth n (dshape X) 0 ->
  mget v0 (gram_dense_impl v0 vadd vmul X n) a b = gram_spec v0 vadd vmul (dshape X) (den_dense v0 X) n a b.
Proof. exact (gram_dense V v0 vadd vmul). Qed.

(* Kruskal: (A_n (l l^T o o_{m<>n} A_m^T A_m) A_n^T)[a,b] = the same function of the denotation den_k *)
Theorem C14_gram_kruskal : forall (K : ktensor V) (n a b : nat),
  n < length (kfactors K) -> a < nrows (nth n (kfactors K) []) -> b < nrows (nth n (kfactors K) []) ->
  mget v0 (gram_k_impl v0 vadd vmul K n) a b = gram_spec v0 vadd vmul (kshape K) (den_k v0 v1 vadd vmul K) n a b.
Proof. exact (gram_kruskal V v0 v1 vadd vmul vsub vopp Vring). Qed.

(* wave 5 — a CP model written in Tucker form (superdiagonal core of the weights next to the Kruskal tensor's own factor matrices; the
   input class of seeded change C14-J): it denotes the Kruskal tensor it was built from — every ring, shape, rank, number of modes,
   whatever the factor matrices look like (unit-norm non-orthogonal columns included) … *)
Theorem C14_cp_as_tucker_den : forall (K : ktensor V) (i : idx),
  den_t v0 v1 vadd vmul (cp_as_tucker v0 vadd K) i = den_k v0 v1 vadd vmul K i.
Proof. exact (cp_as_tucker_den V v0 v1 vadd vmul vsub vopp Vring). Qed.
(* … hence ttensor.nvecs (through the core) and ktensor.nvecs (through the factor Gram matrices) hand the SAME matrix to the solver *)
Theorem C14_cp_tucker_same_gram : forall (K : ktensor V) (n a b : nat),
  Forall (fun A => ncols A = krank K) (kfactors K) -> n < length (kfactors K) ->
  a < nrows (nth n (kfactors K) []) -> b < nrows (nth n (kfactors K) []) ->
  mget v0 (gram_t_impl v0 v1 vadd vmul (cp_as_tucker v0 vadd K) n) a b = mget v0 (gram_k_impl v0 vadd vmul K n) a b /\
  mget v0 (gram_k_impl v0 vadd vmul K n) a b = gram_spec v0 vadd vmul (kshape K) (den_k v0 v1 vadd vmul K) n a b.
Proof. exact (cp_tucker_same_gram V v0 v1 vadd vmul vsub vopp Vring). Qed.

(* sparse: the COO product sptensor.nvecs forms from the stored nonzeros (row key = F-order linear index of the other modes'
   subscripts, column = mode-n subscript) = the same function of the denotation den_sp — any stored order *)
Variable isz : V -> bool.
Theorem C14_gram_sparse : forall (S : sparse V) (n a b : nat),
  wf_sp isz S -> n < length (sshape S) -> a < nth n (sshape S) 0 -> b < nth n (sshape S) 0 ->
  mget v0 (gram_sp_impl v0 vadd vmul S n) a b = gram_spec v0 vadd vmul (sshape S) (den_sp v0 S) n a b.
Proof. exact (gram_sparse V v0 v1 vadd vmul vsub vopp Vring isz). Qed.

(* Tucker: Y = H_(n) (U_n G_(n))^T with H = core x_m (U_m^T U_m) (m <> n) x_n U_n = the same function of the denotation den_t,
   for every core shape (factor m has as many columns as the core's mode m) *)
Theorem C14_gram_tucker : forall (T : ttensor V) (n a b : nat),
  wf_tucker V T -> n < length (tfactors T) ->
  a < nrows (nth n (tfactors T) []) -> b < nrows (nth n (tfactors T) []) ->
  mget v0 (gram_t_impl v0 v1 vadd vmul T n) a b = gram_spec v0 vadd vmul (tshape T) (den_t v0 v1 vadd vmul T) n a b.
Proof. exact (gram_tucker V v0 v1 vadd vmul vsub vopp Vring). Qed.

(* tensor.nvecs as the code runs it: the modes of `to_tenmat(rdims=[n])` come from the GENERATED gather_wrap_dims (regenerated from
   pyttb_utils.py on every run), the unfolding is C01's transliteration of tensor.to_tenmat (permute + F-order reshape; theorem
   C01_tenmat) followed by tenmat.double, then Xn @ Xn.T: the request is accepted and the matrix handed to the solver is
   gram_dense_impl, hence gram_spec of the denotation *)
Theorem C14_gram_dense_code : forall (X : dense V) (n : nat), wf_dense X -> n < length (dshape X) ->
  gram_dense_tm v0 vadd vmul X n = Some (gram_dense_impl v0 vadd vmul X n).
Proof. exact (gram_dense_tm_eq V v0 vadd vmul). Qed.
Theorem C14_gram_dense_code_spec : forall (X : dense V) (n a b : nat), wf_dense X -> n < length (dshape X) ->
  a < nth n (dshape X) 0 -> b < nth n (dshape X) 0 ->
  exists Y, gram_dense_tm v0 vadd vmul X n = Some Y /\ mget v0 Y a b = gram_spec v0 vadd vmul (dshape X) (den_dense v0 X) n a b.
Proof. exact (gram_dense_tm_spec V v0 vadd vmul). Qed.

(* wave 5 — tensor.nvecs after /repo 08011d5 (finding C10-N03 repaired): `ttb.tensor(self.double(), copy=False)` comes first, so for a
   holder of ANY element type B (bool, int8 ... uint16, float32) with conversion dbl : B -> V the matrix handed to the solver is the
   Gram matrix IN V of the converted entries — gram_spec of i |-> dbl (X i) — whatever B's own arithmetic would make of the products *)
Theorem C14_gram_dense_held : forall (B : Type) (b0 : B) (dbl : B -> V) (X : dense B) (n a b : nat),
  dbl b0 = v0 -> wf_dense X -> n < length (dshape X) -> a < nth n (dshape X) 0 -> b < nth n (dshape X) 0 ->
  exists Y, gram_dense_held v0 vadd vmul dbl X n = Some Y /\
    Y = gram_dense_impl v0 vadd vmul (t_double dbl X) n /\
    mget v0 Y a b = gram_spec v0 vadd vmul (dshape X) (fun i => dbl (den_dense b0 X i)) n a b.
Proof. exact (@gram_dense_held_spec V v0 vadd vmul). Qed.

(* ttensor.nvecs with a dense core as the code runs it: H = core.ttm(V) is tensor.ttm over all modes (C02's permute / reshape /
   matmul algorithm, theorem C01_tucker_impl), HnT and GnT are `to_tenmat(cdims=[n]).double()` through the generated
   gather_wrap_dims and C01's to_tenmat, XnT = GnT.dot(Un^T), Y = HnT^T.dot(XnT): Y is gram_t_impl, hence gram_spec of den_t *)
Theorem C14_gram_tucker_code : forall (T : ttensor V) (n : nat), wf_dense (tcore T) -> wf_tucker V T -> n < length (tfactors T) ->
  gram_t_tm v0 vadd vmul T n = Some (gram_t_impl v0 v1 vadd vmul T n).
Proof. exact (gram_t_tm_eq V v0 v1 vadd vmul vsub vopp Vring). Qed.
Theorem C14_gram_tucker_code_spec : forall (T : ttensor V) (n a b : nat), wf_dense (tcore T) -> wf_tucker V T ->
  n < length (tfactors T) -> a < nrows (nth n (tfactors T) []) -> b < nrows (nth n (tfactors T) []) ->
  exists Y, gram_t_tm v0 vadd vmul T n = Some Y /\ mget v0 Y a b = gram_spec v0 vadd vmul (tshape T) (den_t v0 v1 vadd vmul T) n a b.
Proof. exact (gram_t_tm_spec V v0 v1 vadd vmul vsub vopp Vring). Qed.

(* ttensor.nvecs with a SPARSE core as the code runs it: GnT = core.to_sptenmat([n], cdims_cyclic="t").double() through the generated
   gather_wrap_dims, C01's sptensor.to_sptenmat WITH the sptenmat constructor (sorted, duplicates summed; C01_sptenmat_sorted) and
   sptenmat.double (a COO matrix read through its denotation; C01_sptenmat_double); HnT likewise from H = core.ttm(V), which
   sptensor.ttm returns as a sptensor or as a tensor: for EVERY well-formed H of either kind that holds core x_m V_m, the matrix
   HnT^T.dot(GnT.dot(Un^T)) is gram_t_impl, hence gram_spec of den_t *)
Hypothesis isz_spec : forall v, isz v = true <-> v = v0.
Theorem C14_gram_tucker_sparse_core : forall (H : @hrepr V) (GS : sparse V) (Us : list (list (list V))) (n : nat),
  let T := mkT (full v0 GS) Us in
  wf_sp isz GS -> wf_tucker V T -> n < length Us ->
  hwf isz H -> hshape H = map (@nrows V) (tucker_vs v0 vadd vmul Us n) ->
  (forall i, inb (hshape H) i = true -> hden v0 H i = tucker_H v0 v1 vadd vmul T n i) ->
  gram_tsp_tm v0 vadd vmul isz H GS (nth n Us []) n = Some (gram_t_impl v0 v1 vadd vmul T n).
Proof. exact (gram_tsp_tm_eq V v0 v1 vadd vmul vsub vopp Vring isz isz_spec). Qed.
Theorem C14_gram_tucker_sparse_core_spec : forall (H : @hrepr V) (GS : sparse V) (Us : list (list (list V))) (n a b : nat),
  let T := mkT (full v0 GS) Us in
  wf_sp isz GS -> wf_tucker V T -> n < length Us ->
  hwf isz H -> hshape H = map (@nrows V) (tucker_vs v0 vadd vmul Us n) ->
  (forall i, inb (hshape H) i = true -> hden v0 H i = tucker_H v0 v1 vadd vmul T n i) ->
  a < nrows (nth n Us []) -> b < nrows (nth n Us []) ->
  exists Y, gram_tsp_tm v0 vadd vmul isz H GS (nth n Us []) n = Some Y /\
    mget v0 Y a b = gram_spec v0 vadd vmul (tshape T) (den_t v0 v1 vadd vmul T) n a b.
Proof. exact (gram_tsp_tm_spec V v0 v1 vadd vmul vsub vopp Vring isz isz_spec). Qed.

(* the product model used for scipy.sparse: for EVERY COO matrix (repeated positions allowed) the coordinate-level product of the
   stored triples that C14_gram_sparse speaks about is the matrix product A^T A of the array the COO matrix denotes
   (A = toarray(): repeated positions summed) *)
Theorem C14_coo_product : forall (C : coo V) (K N a b : nat), coo_shape C = [K; N] -> a < N -> b < N ->
  Forall (fun rc => inb [K; N] rc = true) (coo_subs C) ->
  coo_gram v0 vadd vmul (coo_triples C) a b = sum_n v0 vadd K (fun k => vmul (den_coo v0 vadd C [k; a]) (den_coo v0 vadd C [k; b])).
Proof. exact (coo_gram_den V v0 v1 vadd vmul vsub vopp Vring). Qed.
(* wave 3b / 4 / 5 — sptensor.nvecs as the code runs it (after /repo f3d6beb, 453f75b, c11bcb2: findings C14-F2, C19-N23, C14-F3
   repaired): the mode range test, old = setdiff1d(arange(N), n); reshape((prod(shape[old]), 1), old) — for a 1-way tensor (old empty)
   reshape((I_n, 1, 1)) over all modes — and the second reshape(shape[:2]), all transliterated over the GENERATED tt_sub2ind / tt_ind2sub
   (regenerated from pyttb_utils.py on every run), C01's spmatrix(), transpose(): for EVERY tensor and existing mode (1-way tensors
   included), unless mode n AND the product of the other modes are both 1, the request is accepted and tnt holds, in the stored order,
   exactly the triples (F-order key of the other modes' subscripts, mode-n subscript, value) C14_gram_sparse speaks about *)
Theorem C14_sparse_rekey_bridge : forall (S : sparse V) (n : nat),
  let s := sshape S in
  n < length s -> length (ssubs S) = length (svals S) -> Forall (fun i => inb s i = true) (ssubs S) ->
  ~ (nth n s 0 = 1 /\ size (remove_nth n s) = 1) ->
  exists C, sp_nvecs_tnt S n = Some C /\ coo_shape C = [size (remove_nth n s); nth n s 0] /\
            Forall (fun rc => inb (coo_shape C) rc = true) (coo_subs C) /\
            coo_triples C = sp_triples S n.
Proof. exact (sp_triples_bridge V). Qed.

(* hence y = tnt.T.dot(tnt) formed on that code path IS gram_sp_impl … *)
Theorem C14_gram_sparse_code : forall (S : sparse V) (n : nat),
  let s := sshape S in
  n < length s -> length (ssubs S) = length (svals S) -> Forall (fun i => inb s i = true) (ssubs S) ->
  ~ (nth n s 0 = 1 /\ size (remove_nth n s) = 1) ->
  gram_sp_code_path v0 vadd vmul S n = Some (gram_sp_impl v0 vadd vmul S n).
Proof. exact (gram_sp_code_path_eq V v0 vadd vmul). Qed.

(* … which is both the MATRIX product of the arrays the COO matrices denote (C14_coo_product connected to C14_gram_sparse through the
   bridge) and gram_spec of the denotation den_sp *)
Theorem C14_gram_sparse_code_spec : forall (S : sparse V) (n a b : nat),
  let s := sshape S in
  wf_sp isz S -> n < length s -> ~ (nth n s 0 = 1 /\ size (remove_nth n s) = 1) -> a < nth n s 0 -> b < nth n s 0 ->
  exists C Y, sp_nvecs_tnt S n = Some C /\ coo_shape C = [size (remove_nth n s); nth n s 0] /\
    gram_sp_code_path v0 vadd vmul S n = Some Y /\
    mget v0 Y a b = sum_n v0 vadd (size (remove_nth n s)) (fun k => vmul (den_coo v0 vadd C [k; a]) (den_coo v0 vadd C [k; b])) /\
    mget v0 Y a b = gram_spec v0 vadd vmul s (den_sp v0 S) n a b.
Proof. exact (gram_sp_code_path_spec V v0 v1 vadd vmul vsub vopp Vring isz). Qed.

(* finding C14-F2 (repaired in /repo f3d6beb) as the POSITIVE theorem that replaces C14_sparse_singleton_refused: a singleton mode n
   (other modes not all singleton), or all other modes singleton (mode n not), is ANSWERED by the code path, and the matrix handed to the
   solver is gram_sp_impl = gram_spec of the denotation (the 1 x 1 matrix of the squared norm when mode n is the singleton) *)
Theorem C14_sparse_singleton_answered : forall (S : sparse V) (n : nat),
  let s := sshape S in
  wf_sp isz S -> n < length s ->
  (nth n s 0 = 1 /\ 1 < size (remove_nth n s)) \/ (1 < nth n s 0 /\ size (remove_nth n s) = 1) ->
  exists C Y, sp_nvecs_tnt S n = Some C /\ coo_shape C = [size (remove_nth n s); nth n s 0] /\
    gram_sp_code_path v0 vadd vmul S n = Some Y /\ Y = gram_sp_impl v0 vadd vmul S n /\
    forall a b, a < nth n s 0 -> b < nth n s 0 -> mget v0 Y a b = gram_spec v0 vadd vmul s (den_sp v0 S) n a b.
Proof. exact (sp_singleton_answered V v0 v1 vadd vmul vsub vopp Vring isz). Qed.

(* the one refusal left on this path: mode n AND the product of the other modes are 1 — ValueError("Cannot call nvecs on sptensor with
   only singleton dimensions"), a documented restriction pinned by tests/test_sptensor.py::test_sptensor_nvecs *)
Theorem C14_sparse_all_singleton_refused : forall (S : sparse V) (n : nat),
  let s := sshape S in
  n < length s -> nth n s 0 = 1 -> size (remove_nth n s) = 1 -> sp_nvecs_tnt S n = None.
Proof. exact (sp_nvecs_tnt_all_singleton V). Qed.

(* wave 5 — finding C19-N23 repaired in /repo 453f75b: a mode that does not exist (n >= ndims, or negative as Python passes it) is
   refused by the range test before anything is built (before, np.setdiff1d ignored it and a 1 x 1 Gram matrix was answered) *)
Theorem C14_sparse_mode_refused : forall (S : sparse V) (n : Z),
  (n < 0 \/ Z.of_nat (length (sshape S)) <= n)%Z -> sp_nvecs_tnt_z S n = None.
Proof. exact (sp_nvecs_tnt_z_refused V). Qed.
Theorem C14_sparse_mode_nat : forall (S : sparse V) (n : nat), sp_nvecs_tnt_z S (Z.of_nat n) = sp_nvecs_tnt S n.
Proof. exact (sp_nvecs_tnt_z_nat V). Qed.

(* wave 5 — finding C14-F3 (repaired in /repo c11bcb2) as the positive theorem: a 1-way sparse tensor with at least two entries is
   ANSWERED: tnt is the 1 x I row of the stored values (stored order) and the matrix handed to the solver is gram_sp_impl = the outer
   product x x^T = gram_spec of the denotation *)
Theorem C14_sparse_oneway_answered : forall (S : sparse V) (I : nat),
  wf_sp isz S -> sshape S = [I] -> 1 < I ->
  exists Y, sp_nvecs_tnt S 0 = Some (mkCoo [1; I] (map (fun j => [0; nth 0 j 0]) (ssubs S)) (svals S)) /\
    gram_sp_code_path v0 vadd vmul S 0 = Some Y /\ Y = gram_sp_impl v0 vadd vmul S 0 /\
    forall a b, a < I -> b < I -> mget v0 Y a b = gram_spec v0 vadd vmul [I] (den_sp v0 S) 0 a b.
Proof. exact (sp_oneway_answered V v0 v1 vadd vmul vsub vopp Vring isz). Qed.

(* wave 5 / 6 — holders of another element type B (findings C14-F4 / C14-F5 REPAIRED in /repo 6aef7c8 / 4b7dc0e: the model is the code as
   it runs now, the theorems are claimed for the code): the values are converted entry by entry BEFORE any product — sptensor.nvecs:
   tnt.astype(float64) = the code path on sp_double S, accepted on the whole domain, solver input = Gram matrix in V of the converted
   entries; ttensor.nvecs: the Gram matrix of the Tucker tensor the converted core and factors denote in V *)
Theorem C14_gram_sparse_held : forall (B : Type) (b0 : B) (dbl : B -> V), dbl b0 = v0 -> forall (S : sparse B) (n a b : nat),
  let s := sshape S in
  wf_sp isz (sp_double dbl S) -> n < length s -> ~ (nth n s 0 = 1 /\ size (remove_nth n s) = 1) -> a < nth n s 0 -> b < nth n s 0 ->
  exists Y, gram_sp_code_path v0 vadd vmul (sp_double dbl S) n = Some Y /\
    Y = gram_sp_impl v0 vadd vmul (sp_double dbl S) n /\
    mget v0 Y a b = gram_spec v0 vadd vmul s (fun i => dbl (den_sp b0 S i)) n a b.
Proof. exact (gram_sp_held_spec V v0 v1 vadd vmul vsub vopp Vring isz). Qed.
Theorem C14_gram_tucker_held : forall (B : Type) (dbl : B -> V) (T : ttensor B) (n a b : nat),
  let T' := tt_double dbl T in
  wf_dense (tcore T') -> wf_tucker V T' -> n < length (tfactors T') ->
  a < nrows (nth n (tfactors T') []) -> b < nrows (nth n (tfactors T') []) ->
  gram_t_tm v0 vadd vmul T' n = Some (gram_t_impl v0 v1 vadd vmul T' n) /\
  mget v0 (gram_t_impl v0 v1 vadd vmul T' n) a b = gram_spec v0 vadd vmul (tshape T') (den_t v0 v1 vadd vmul T') n a b.
Proof. exact (gram_t_held_spec V v0 v1 vadd vmul vsub vopp Vring). Qed.

(* wave 3b — the multi-mode sptensor.ttm chain H = core.ttm(V) of the sparse-core branch as the code runs it: first mode by the
   coordinate-level kernel of sptensor.ttm (C02_ttm_sparse; its ndarray result goes through from_array / to_sptensor / to_tensor),
   the remaining modes by tensor.ttm: the chain IS tensor.ttm over all modes of the expanded core, a well-formed dense tensor
   holding core x_m V_m … *)
Theorem C14_sparse_ttm_chain : forall (S : sparse V) (Ms : list (list (list V))),
  wf_sp isz S -> Ms <> [] -> length (sshape S) = length Ms ->
  let H := sp_ttm_chain v0 vadd vmul isz S Ms in
  wf_dense H /\ dshape H = map (@nrows V) Ms /\
  forall i, den_dense v0 H i = den_t v0 v1 vadd vmul (mkT (full v0 S) Ms) i.
Proof. exact (sp_ttm_chain_correct V v0 v1 vadd vmul vsub vopp Vring isz isz_spec). Qed.

(* … so C14_gram_tucker_sparse_core holds for the H the code computes, with no hypothesis about H left *)
Theorem C14_gram_tucker_sparse_core_code : forall (GS : sparse V) (Us : list (list (list V))) (n : nat),
  let T := mkT (full v0 GS) Us in
  wf_sp isz GS -> wf_tucker V T -> n < length Us ->
  gram_tsp_tm v0 vadd vmul isz (HDense (sp_ttm_chain v0 vadd vmul isz GS (tucker_vs v0 vadd vmul Us n))) GS (nth n Us []) n
  = Some (gram_t_impl v0 v1 vadd vmul T n).
Proof. exact (gram_tsp_chain_eq V v0 v1 vadd vmul vsub vopp Vring isz isz_spec). Qed.
Theorem C14_gram_tucker_sparse_core_code_spec : forall (GS : sparse V) (Us : list (list (list V))) (n a b : nat),
  let T := mkT (full v0 GS) Us in
  wf_sp isz GS -> wf_tucker V T -> n < length Us -> a < nrows (nth n Us []) -> b < nrows (nth n Us []) ->
  exists Y, gram_tsp_tm v0 vadd vmul isz (HDense (sp_ttm_chain v0 vadd vmul isz GS (tucker_vs v0 vadd vmul Us n))) GS (nth n Us []) n = Some Y /\
    mget v0 Y a b = gram_spec v0 vadd vmul (tshape T) (den_t v0 v1 vadd vmul T) n a b.
Proof. exact (gram_tsp_chain_spec V v0 v1 vadd vmul vsub vopp Vring isz isz_spec). Qed.
End C14_ring.
Print Assumptions C14_sparse_rekey_bridge.
Print Assumptions C14_gram_sparse_code.
Print Assumptions C14_gram_sparse_code_spec.
Print Assumptions C14_sparse_singleton_answered.
Print Assumptions C14_sparse_all_singleton_refused.
Print Assumptions C14_sparse_mode_refused.
Print Assumptions C14_sparse_mode_nat.
Print Assumptions C14_sparse_oneway_answered.
Print Assumptions C14_gram_sparse_held.
Print Assumptions C14_gram_tucker_held.
Print Assumptions C14_sparse_ttm_chain.
Print Assumptions C14_gram_tucker_sparse_core_code.
Print Assumptions C14_gram_tucker_sparse_core_code_spec.
Print Assumptions C14_coo_product.
Print Assumptions C14_gram_tucker_sparse_core.
Print Assumptions C14_gram_tucker_sparse_core_spec.
Print Assumptions C14_gram_dense_code.
Print Assumptions C14_gram_dense_code_spec.
Print Assumptions C14_gram_dense_held.
Print Assumptions C14_gram_tucker_code.
Print Assumptions C14_gram_tucker_code_spec.
Print Assumptions C14_gram_dense.
Print Assumptions C14_cp_as_tucker_den.
Print Assumptions C14_cp_tucker_same_gram.
Print Assumptions C14_gram_kruskal.
Print Assumptions C14_gram_sparse.
Print Assumptions C14_gram_tucker.

Example C14_example_gram_sparse :
  let S := mkSp [2; 3; 2] [[1; 2; 0]; [0; 0; 1]; [1; 0; 0]; [0; 2; 0]] [5; 2; 3; 4] in
  gram_sp_impl 0 Nat.add Nat.mul S 1 = [[13; 0; 15]; [0; 0; 0]; [15; 0; 41]] /\
  gram_sp_impl 0 Nat.add Nat.mul S 0 = [[20; 20]; [20; 34]] /\
  gram_matrix 0 Nat.add Nat.mul [2; 3; 2] (den_sp 0 S) 0 = [[20; 20]; [20; 34]] /\
  gram_matrix 0 Nat.add Nat.mul [2; 3; 2] (den_sp 0 S) 1 = [[13; 0; 15]; [0; 0; 0]; [15; 0; 41]].
Proof. exact gram_sparse_example. Qed.
Example C14_example_cp_tucker :
  let K := mkK [2; 3] [[[1; 1]; [0; 1]; [2; 0]]; [[1; 2]; [1; 1]]] in
  ddata (tcore (cp_as_tucker 0 Nat.add K)) = [2; 0; 0; 3] /\
  gram_t_impl 0 1 Nat.add Nat.mul (cp_as_tucker 0 Nat.add K) 0 = gram_k_impl 0 Nat.add Nat.mul K 0 /\
  gram_k_impl 0 Nat.add Nat.mul K 0 = [[89; 63; 52]; [63; 45; 36]; [52; 36; 32]] /\
  gram_matrix 0 Nat.add Nat.mul [3; 2] (den_k 0 1 Nat.add Nat.mul K) 0 = [[89; 63; 52]; [63; 45; 36]; [52; 36; 32]].
Proof. exact cp_tucker_example. Qed.
Example C14_example_gram_tucker :
  let T := mkT (mkDense [2; 1; 2] [1; 2; 0; 3]) [[[1; 0]; [2; 1]; [0; 1]]; [[2]; [1]]; [[1; 1]; [0; 2]]] in
  gram_t_impl 0 1 Nat.add Nat.mul T 0 = gram_matrix 0 Nat.add Nat.mul (tshape T) (den_t 0 1 Nat.add Nat.mul T) 0 /\
  gram_t_impl 0 1 Nat.add Nat.mul T 1 = gram_matrix 0 Nat.add Nat.mul (tshape T) (den_t 0 1 Nat.add Nat.mul T) 1 /\
  gram_t_impl 0 1 Nat.add Nat.mul T 2 = gram_matrix 0 Nat.add Nat.mul (tshape T) (den_t 0 1 Nat.add Nat.mul T) 2 /\
  gram_t_impl 0 1 Nat.add Nat.mul T 1 = [[588; 294]; [294; 147]].
Proof. exact gram_tucker_example. Qed.

Example C14_example_gram_code :
  gram_dense_tm 0 Nat.add Nat.mul (mkDense [2; 3] [6; 8; 0; 2; 2; 2]) 0 = Some [[40; 52]; [52; 72]] /\
  gram_dense_tm 0 Nat.add Nat.mul (mkDense [2; 3] [6; 8; 0; 2; 2; 2]) 1 = Some [[100; 16; 28]; [16; 4; 4]; [28; 4; 8]] /\
  tenmat_double_gen 0 (mkDense [2; 3; 2] (seq 0 12)) (Some [1]) None = Some (mkDense [3; 4] [0; 2; 4; 1; 3; 5; 6; 8; 10; 7; 9; 11]) /\
  dims_of_gen 4 None (Some [2]) None = Some ([0; 1; 3], [2]) /\
  (let T := mkT (mkDense [2; 1; 2] [1; 2; 0; 3]) [[[1; 0]; [2; 1]; [0; 1]]; [[2]; [1]]; [[1; 1]; [0; 2]]] in
   gram_t_tm 0 Nat.add Nat.mul T 1 = Some [[588; 294]; [294; 147]] /\
   gram_t_tm 0 Nat.add Nat.mul T 0 = Some (gram_t_impl 0 1 Nat.add Nat.mul T 0)).
Proof. exact gram_tm_example. Qed.

(* a logical holder is answered; a uint8-like holder (arithmetic modulo 256) — the Gram matrix is formed AFTER the conversion: 50000,
   1300, not 80, 20 as the products would be in the holder's own type *)
Example C14_example_gram_held :
  gram_dense_held 0%Z Z.add Z.mul (fun b : bool => if b then 1%Z else 0%Z) (mkDense [2; 2] [true; false; true; true]) 0 = Some [[2; 1]; [1; 1]]%Z /\
  gram_dense_held 0%Z Z.add Z.mul (fun x : Z => x) (mkDense [2; 2] [200; 3; 100; 7]%Z) 0 = Some [[50000; 1300]; [1300; 58]]%Z /\
  gram_dense_tm 0%Z (fun x y => (x + y) mod 256)%Z (fun x y => (x * y) mod 256)%Z (mkDense [2; 2] [200; 3; 100; 7]%Z) 0 = Some [[80; 20]; [20; 58]]%Z.
Proof. exact gram_held_example. Qed.

Example C14_example_gram_sparse_held :
  let S := mkSp [2; 2] [[0; 0]; [1; 0]; [0; 1]; [1; 1]] [200; 3; 100; 7]%Z in
  gram_sp_code_path 0%Z Z.add Z.mul (sp_double (fun x : Z => x) S) 1 = Some [[40009; 20021]; [20021; 10049]]%Z /\
  gram_sp_code_path 0%Z (fun x y => (x + y) mod 256)%Z (fun x y => (x * y) mod 256)%Z S 1 = Some [[73; 53]; [53; 65]]%Z.
Proof. exact gram_sp_held_example. Qed.

Example C14_example_gram_sparse_core :
  let GS := mkSp [2; 1; 2] [[1; 0; 1]; [0; 0; 0]; [1; 0; 0]] [3; 1; 2] in
  let Us := [[[1; 0]; [2; 1]; [0; 1]]; [[2]; [1]]; [[1; 1]; [0; 2]]] in
  let Hd := fun n => ttensor_full_impl 0 Nat.add Nat.mul (mkT (full 0 GS) (tucker_vs 0 Nat.add Nat.mul Us n)) in
  gram_tsp_tm 0 Nat.add Nat.mul (Nat.eqb 0) (HSparse (to_sptensor 0 (Nat.eqb 0) (Hd 1))) GS (nth 1 Us []) 1 = Some [[588; 294]; [294; 147]] /\
  gram_tsp_tm 0 Nat.add Nat.mul (Nat.eqb 0) (HDense (Hd 1)) GS (nth 1 Us []) 1 = Some [[588; 294]; [294; 147]] /\
  gram_tsp_tm 0 Nat.add Nat.mul (Nat.eqb 0) (HSparse (to_sptensor 0 (Nat.eqb 0) (Hd 0))) GS (nth 0 Us []) 0
    = Some (gram_t_impl 0 1 Nat.add Nat.mul (mkT (full 0 GS) Us) 0) /\
  option_map (@coo_subs nat) (sptenmat_double_gen Nat.add (Nat.eqb 0) GS 0) = Some [[0; 0]; [0; 1]; [1; 1]].
Proof. exact gram_tsp_example. Qed.

Example C14_example_coo :
  let C := mkCoo [3; 2] [[0; 1]; [2; 0]; [0; 1]; [0; 0]] [5; 2; 1; 3] in      (* position (0,1) stored twice *)
  coo_gram 0 Nat.add Nat.mul (coo_triples C) 0 1 = 18 /\ coo_gram 0 Nat.add Nat.mul (coo_triples C) 1 1 = 36 /\
  coo_toarray 0 Nat.add C = mkDense [3; 2] [3; 0; 2; 6; 0; 0].
Proof. exact coo_gram_example. Qed.

Example C14_example_sparse_code_path :
  let S := mkSp [2; 3; 2] [[1; 2; 0]; [0; 0; 1]; [1; 0; 0]; [0; 2; 0]] [5; 2; 3; 4] in
  sp_nvecs_tnt S 1 = Some (mkCoo [4; 3] [[1; 2]; [2; 0]; [1; 0]; [0; 2]] [5; 2; 3; 4]) /\
  sp_nvecs_tnt S 0 = Some (mkCoo [6; 2] [[2; 1]; [3; 0]; [0; 1]; [2; 0]] [5; 2; 3; 4]) /\
  gram_sp_code_path 0 Nat.add Nat.mul S 1 = Some [[13; 0; 15]; [0; 0; 0]; [15; 0; 41]] /\
  gram_sp_code_path 0 Nat.add Nat.mul S 0 = Some [[20; 20]; [20; 34]] /\
  sp_nvecs_tnt (mkSp [1; 4; 3] [[0; 1; 2]; [0; 3; 0]] [2; 1]) 0 = Some (mkCoo [12; 1] [[9; 0]; [3; 0]] [2; 1]) /\
  gram_sp_code_path 0 Nat.add Nat.mul (mkSp [1; 4; 3] [[0; 1; 2]; [0; 3; 0]] [2; 1]) 0 = Some [[5]] /\
  sp_nvecs_tnt (mkSp [3; 1] [[0; 0]; [2; 0]] [2; 3]) 0 = Some (mkCoo [1; 3] [[0; 0]; [0; 2]] [2; 3]) /\
  gram_sp_code_path 0 Nat.add Nat.mul (mkSp [3; 1] [[0; 0]; [2; 0]] [2; 3]) 0 = Some [[4; 0; 6]; [0; 0; 0]; [6; 0; 9]] /\
  sp_nvecs_tnt (mkSp [1; 1; 1] [[0; 0; 0]] [7]) 2 = None /\
  sp_nvecs_tnt (mkSp [5] [[0]; [2]; [3]] [2; 1; 3]) 0 = Some (mkCoo [1; 5] [[0; 0]; [0; 2]; [0; 3]] [2; 1; 3]) /\
  gram_sp_code_path 0 Nat.add Nat.mul (mkSp [3] [[2]; [0]] [2; 3]) 0 = Some [[9; 0; 6]; [0; 0; 0]; [6; 0; 4]] /\
  sp_nvecs_tnt (mkSp [1] [[0]] [7]) 0 = None /\
  sp_nvecs_tnt (mkSp [2; 3] [[1; 2]] [7]) 2 = None /\ sp_nvecs_tnt_z (mkSp [2; 3] [[1; 2]] [7]) (-1) = None /\
  sp_nvecs_tnt_z (mkSp [2; 3] [[1; 2]] [7]) 1 = Some (mkCoo [2; 3] [[1; 2]] [7]) /\
  sp_nvecs_tnt_old 0 (mkSp [1; 4; 3] [[0; 1; 2]; [0; 3; 0]] [2; 1]) 0 = None /\
  sp_nvecs_tnt_old 0 (mkSp [3; 1] [[0; 0]; [2; 0]] [2; 3]) 0 = None.
Proof. exact sp_path_example. Qed.

Example C14_example_sparse_chain :
  let GS := mkSp [2; 1; 2] [[1; 0; 1]; [0; 0; 0]; [1; 0; 0]] [3; 1; 2] in
  let Us := [[[1; 0]; [2; 1]; [0; 1]]; [[2]; [1]]; [[1; 1]; [0; 2]]] in
  let H := fun n => sp_ttm_chain 0 Nat.add Nat.mul (Nat.eqb 0) GS (tucker_vs 0 Nat.add Nat.mul Us n) in
  dshape (H 1) = [2; 2; 2] /\ ddata (H 1) = [30; 24; 15; 12; 78; 72; 39; 36] /\
  H 1 = ttensor_full_impl 0 Nat.add Nat.mul (mkT (full 0 GS) (tucker_vs 0 Nat.add Nat.mul Us 1)) /\
  gram_tsp_tm 0 Nat.add Nat.mul (Nat.eqb 0) (HDense (H 1)) GS (nth 1 Us []) 1 = Some [[588; 294]; [294; 147]] /\
  gram_tsp_tm 0 Nat.add Nat.mul (Nat.eqb 0) (HDense (H 0)) GS (nth 0 Us []) 0 = Some (gram_t_impl 0 1 Nat.add Nat.mul (mkT (full 0 GS) Us) 0).
Proof. exact sp_chain_example. Qed.

Example C14_example_gram :
  gram_k_impl 0%nat Nat.add Nat.mul (mkK [2; 1] [[[1; 0]; [1; 2]]; [[3; 1]; [0; 1]; [1; 0]]]) 0 = [[40; 52]; [52; 72]]
  /\ gram_dense_impl 0%nat Nat.add Nat.mul (mkDense [2; 3] [6; 8; 0; 2; 2; 2]) 0 = [[40; 52]; [52; 72]].
Proof. split; reflexivity. Qed.

(* wave 4 — the post-processing of sptensor.nvecs AS THE CODE RUNS IT (Model/C14SpPost.v; open finding A-38): the dense-solver path
   permutes the ROWS of eig's eigenvector matrix by argsort(-|w|), the iterative path keeps eigs' vectors in ARPACK's order.  The class
   on which this is nevertheless the post-processing of the other representations (postprocess; C14_postprocess, C14_sign_rule): the
   solver output already has |w| non-increasing — then the stable argsort is the identity … *)
Theorem C14_argsort_sorted_id : forall (V : Type) (vabs : V -> V) (vltb : V -> V -> bool) (w : list V),
  StronglySorted (abs_nonincr vabs vltb) w -> argsort_desc_abs vabs vltb w = seq 0 (length w).
Proof. exact argsort_sorted_id. Qed.
Print Assumptions C14_argsort_sorted_id.
(* … the row permutation of the dense-solver path permutes nothing … *)
Theorem C14_sparse_post_dense_sorted : forall (V : Type) (v0 : V) (vabs vopp : V -> V) (vltb : V -> V -> bool)
    (w : list V) (cols : list (list V)) (r : nat) (flip : bool),
  StronglySorted (abs_nonincr vabs vltb) w -> length cols = length w -> Forall (fun c => length c = length w) cols ->
  sp_post_dense v0 vabs vopp vltb w cols r flip = postprocess v0 vabs vopp vltb w cols r flip.
Proof. exact sp_post_dense_sorted. Qed.
Print Assumptions C14_sparse_post_dense_sorted.
(* … and the unsorted vectors of the iterative path are sorted; always so for r = 1 *)
Theorem C14_sparse_post_iter_sorted : forall (V : Type) (v0 : V) (vabs vopp : V -> V) (vltb : V -> V -> bool)
    (w : list V) (cols : list (list V)) (flip : bool),
  StronglySorted (abs_nonincr vabs vltb) w -> length cols = length w ->
  sp_post_iter v0 vabs vopp vltb cols flip = postprocess v0 vabs vopp vltb w cols (length w) flip.
Proof. exact sp_post_iter_sorted. Qed.
Print Assumptions C14_sparse_post_iter_sorted.
Theorem C14_sparse_post_iter_one : forall (V : Type) (v0 : V) (vabs vopp : V -> V) (vltb : V -> V -> bool) (x : V) (c : list V) (flip : bool),
  sp_post_iter v0 vabs vopp vltb [c] flip = postprocess v0 vabs vopp vltb [x] [c] 1 flip.
Proof. exact sp_post_iter_one. Qed.
Print Assumptions C14_sparse_post_iter_one.
(* the defect itself (A-38) on a 2 x 2 instance: |w| increasing — both code paths differ from the selection of the other representations *)
Example C14_example_sparse_post :
  let zabs := fun z : nat => z in let zopp := fun z : nat => z in
  postprocess 0 zabs zopp Nat.ltb [1; 3] [[1; 2]; [3; 4]] 2 false = [[3; 4]; [1; 2]] /\
  sp_post_dense 0 zabs zopp Nat.ltb [1; 3] [[1; 2]; [3; 4]] 2 false = [[2; 1]; [4; 3]] /\
  sp_post_iter 0 zabs zopp Nat.ltb [[1; 2]; [3; 4]] false = [[1; 2]; [3; 4]] /\
  postprocess 0 zabs zopp Nat.ltb [3; 1] [[1; 2]; [3; 4]] 2 false = [[1; 2]; [3; 4]] /\
  sp_post_dense 0 zabs zopp Nat.ltb [3; 1] [[1; 2]; [3; 4]] 2 false = [[1; 2]; [3; 4]] /\
  sp_post_dense 0 zabs zopp Nat.ltb [3; 1] [[1; 2]; [3; 4]] 1 false = [[1; 2]].
Proof. exact sp_post_example. Qed.

Local Open Scope R_scope.
(* selection: for ANY solver output (w, columns) the code returns the columns of the r largest |w| in decreasing order *)
Theorem C14_postprocess : forall (w : list R) (cols : list (list R)) (r : nat),
  let p := argsort_desc_abs Rabs Rltb w in
  Permutation p (seq 0 (length w)) /\
  StronglySorted (desc_abs w) p /\
  (forall k k', In k (firstn r p) -> In k' (skipn r p) -> Rabs (nth k' w 0) <= Rabs (nth k w 0)) /\
  postprocess 0 Rabs Ropp Rltb w cols r false = map (fun k => nth k cols []) (firstn r p) /\
  postprocess 0 Rabs Ropp Rltb w cols r true = map (fun k => flip_col 0 Rabs Ropp Rltb (nth k cols [])) (firstn r p) /\
  length (postprocess 0 Rabs Ropp Rltb w cols r true) = Nat.min r (length w).
Proof. exact postprocess_spec. Qed.
Print Assumptions C14_postprocess.

(* sign rule: the entry of largest magnitude of a flipped column is non-negative and dominates all entries *)
Theorem C14_sign_rule : forall c : list R,
  let c' := flip_col 0 Rabs Ropp Rltb c in
  let i := argmax_abs Rabs Rltb c in
  (c' = c \/ c' = map Ropp c) /\ 0 <= nth i c' 0 /\ forall j, Rabs (nth j c' 0) <= nth i c' 0.
Proof. exact flip_col_spec. Qed.
Print Assumptions C14_sign_rule.

(* wave 5 — "so that they capture the maximal energy of the mode-n unfolding" (Proofs/C14KyFan.v; matrices as entry functions on 0..n-1,
   rs n f = f 0 + ... + f (n-1)).  The energy r orthonormal columns Q capture, |Q^T X_n|_F^2, is trace(Q^T Y Q) for the Gram matrix
   Y = X_n X_n^T … *)
Theorem C14_captured_is_energy : forall (n r K : nat) (Y X Q : nat -> nat -> R),
  (forall a b, (a < n)%nat -> (b < n)%nat -> Y a b = rs K (fun c => X a c * X b c)) ->
  captured n r Y Q = rs r (fun j => rs K (fun c => rs n (fun a => Q a j * X a c) * rs n (fun a => Q a j * X a c))).
Proof. exact captured_is_energy. Qed.
Print Assumptions C14_captured_is_energy.
(* … unit eigenvectors V of Y with eigenvalues lam (what nvecs returns: the correspondence certificate-checks exactly these two
   hypotheses with lam = the r largest eigenvalues) capture lam_0 + ... + lam_{r-1} … *)
Theorem C14_energy_of_eigenvectors : forall (n r : nat) (Y V : nat -> nat -> R) (lam : nat -> R),
  (forall j a, (j < r)%nat -> (a < n)%nat -> rs n (fun b => Y a b * V b j) = lam j * V a j) ->
  (forall j, (j < r)%nat -> rs n (fun a => V a j * V a j) = 1) ->
  captured n r Y V = rs r lam.
Proof. exact captured_eigen. Qed.
Print Assumptions C14_energy_of_eigenvectors.
(* … and that is the MAXIMUM (Ky Fan): with Y = W diag(mu) W^T, W orthogonal, mu non-increasing, NO r orthonormal columns Q capture
   more than mu_0 + ... + mu_{r-1} *)
Theorem C14_max_energy : forall (n r : nat) (Y W Q : nat -> nat -> R) (mu : nat -> R),
  (forall j k, (j < r)%nat -> (k < r)%nat -> rs n (fun a => Q a j * Q a k) = delta j k) ->
  (forall i, (i < n)%nat -> rs n (fun a => W a i * W a i) = 1) ->
  (forall a b, (a < n)%nat -> (b < n)%nat -> rs n (fun i => W a i * W b i) = delta a b) ->
  (forall a b, (a < n)%nat -> (b < n)%nat -> Y a b = rs n (fun i => mu i * W a i * W b i)) ->
  (forall i k, (i <= k)%nat -> (k < n)%nat -> mu k <= mu i) ->
  (r <= n)%nat -> captured n r Y Q <= rs r mu.
Proof. exact kyfan_matrix. Qed.
Print Assumptions C14_max_energy.
(* the extremal inequality itself: weights 0 <= c_i <= 1 summing to r against non-increasing eigenvalues *)
Theorem C14_kyfan_weights : forall (mu c : list R) (r : nat),
  StronglySorted Rge mu -> length mu = length c -> (r <= length mu)%nat ->
  Forall (fun x => 0 <= x <= 1) c -> rsum c = INR r -> wsum mu c <= rsum (firstn r mu).
Proof. exact kyfan_weights. Qed.
Print Assumptions C14_kyfan_weights.
Example C14_example_max_energy :
  let Y := fun a b : nat => match a, b with O, O => 5 | S O, S O => 1 | _, _ => 0 end in
  let Q := fun a j : nat => match a, j with O, O => 3/5 | S O, O => 4/5 | _, _ => 0 end in
  captured 2 1 Y Q = 61/25 /\ rs 1 (fun i => match i with O => 5 | _ => 1 end) = 5.
Proof. exact kyfan_matrix_example. Qed.

Example C14_example :
  argsort_desc_abs Rabs Rltb [1; -5; 3] = [1; 2; 0]%nat /\ flip_col 0 Rabs Ropp Rltb [1; -2] = [-1; 2].
Proof. exact postprocess_example. Qed.
