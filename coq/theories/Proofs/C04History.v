(* Proofs/C04History.v — histories: every reachable state simulates the abstract array; a dense and a sparse tensor
   driven by the same history denote the same array after every step (C04). *)
From Coq Require Import List Arith ZArith Lia Bool.
From PV Require Import Base.Index Np.Array Model.Sparse Model.C04Model Proofs.C04Dense Proofs.C04Sparse.
Import ListNotations.

Section H.
Context {V : Type} (v0 : V) (isz : V -> bool).
Hypothesis isz_spec : forall v, isz v = true <-> v = v0.

Lemma eq_amap_refl (a : amap V) : eq_amap a a.
Proof. split; auto. Qed.
Lemma eq_amap_sym (a b : amap V) : eq_amap a b -> eq_amap b a.
Proof. intros [H1 H2]. split; auto. Qed.
Lemma eq_amap_trans (a b c : amap V) : eq_amap a b -> eq_amap b c -> eq_amap a c.
Proof. intros [H1 H2] [H3 H4]. split; [congruence|]. intros i. now rewrite H2. Qed.

Lemma last_match_ext_default j (asg : list (idx * V)) d1 d2 : d1 = d2 -> last_match j asg d1 = last_match j asg d2.
Proof. now intros ->. Qed.

(* the specification step respects equality of abstract arrays *)
Lemma spec_step_congr (a b : amap V) o : eq_amap a b ->
  match spec_step v0 a o, spec_step v0 b o with
  | Some (a', out), Some (b', out') => eq_amap a' b' /\ out = out'
  | None, None => True
  | _, _ => False
  end.
Proof.
  intros [Hs Hf]. destruct o as [k|k r]; cbn [spec_step]; rewrite <- Hs.
  - destruct (resolve_get (ashape a) k) as [[os ps]|]; auto. split; [split; auto|].
    f_equal. apply map_ext. auto.
  - destruct (resolve_set cartF (ashape a) k r) as [[s' asg]|]; auto. split; auto.
    split; [reflexivity|]. intros j. cbn [spec_set af]. rewrite <- Hs.
    destruct (inb s' j); auto. apply last_match_ext_default. unfold embed.
    destruct (forallb _ _); auto.
Qed.

(* ---- dense histories ---- *)
Theorem run_dense_refines ops : forall (T : dense V) (a : amap V), eq_amap (abs_dense v0 T) a ->
  match run (step_dense v0) T ops, run (spec_step v0) a ops with
  | Some (T', outs), Some (a', outs') => eq_amap (abs_dense v0 T') a' /\ outs = outs' /\ (wf_dense T -> wf_dense T')
  | None, None => True
  | _, _ => False
  end.
Proof.
  induction ops as [|o ops IH]; intros T a Ha; cbn [run]; [auto|].
  pose proof (refine_dense v0 T o) as R. pose proof (spec_step_congr _ _ o Ha) as C.
  destruct (step_dense v0 T o) as [[T1 out1]|]; destruct (spec_step v0 (abs_dense v0 T) o) as [[a1 out1']|];
    try contradiction; destruct (spec_step v0 a o) as [[a2 out2]|]; try contradiction; auto.
  destruct R as (R1 & R2 & R3). destruct C as (C1 & C2). subst.
  specialize (IH T1 a2 (eq_amap_trans _ _ _ R1 C1)).
  destruct (run (step_dense v0) T1 ops) as [[T2 outs]|]; destruct (run (spec_step v0) a2 ops) as [[a3 outs']|]; auto.
  destruct IH as (I1 & I2 & I3). subst. auto.
Qed.

(* ---- sparse histories: simulation and preservation of the representation invariant ---- *)
Theorem run_sparse_refines ops : forall (S : sparse V) (a : amap V) S' outs,
  wf_sp isz S -> eq_amap (abs_sp v0 S) a ->
  run (step_sparse v0 isz) S ops = Some (S', outs) ->
  exists a', run (spec_step v0) a ops = Some (a', outs) /\ eq_amap (abs_sp v0 S') a' /\ wf_sp isz S'.
Proof.
  induction ops as [|o ops IH]; intros S a S' outs W Ha H; cbn [run] in *.
  - inversion H; subst. eauto.
  - destruct (step_sparse v0 isz S o) as [[S1 out1]|] eqn:E; [|discriminate].
    destruct (run (step_sparse v0 isz) S1 ops) as [[S2 outs2]|] eqn:E2; [|discriminate]. inversion H; subst.
    destruct (refine_sparse v0 isz isz_spec S o S1 out1 W E) as (a1 & Hs & Hq & W1).
    pose proof (spec_step_congr _ _ o Ha) as C. rewrite Hs in C.
    destruct (spec_step v0 a o) as [[a2 out2]|]; [|contradiction]. destruct C as (C1 & C2). subst.
    destruct (IH S1 a2 S' outs2 W1 (eq_amap_trans _ _ _ Hq C1) E2) as (a3 & R1 & R2 & R3).
    rewrite R1. eauto.
Qed.

(* ---- the same history on a dense and on a sparse tensor ---- *)
Theorem dense_sparse_equal ops (T : dense V) (S : sparse V) S' outs :
  wf_sp isz S -> eq_amap (abs_dense v0 T) (abs_sp v0 S) ->
  run (step_sparse v0 isz) S ops = Some (S', outs) ->
  exists T', run (step_dense v0) T ops = Some (T', outs) /\
             eq_amap (abs_dense v0 T') (abs_sp v0 S') /\ wf_sp isz S'.
Proof.
  intros W Heq H.
  destruct (run_sparse_refines ops S (abs_sp v0 S) S' outs W (eq_amap_refl _) H) as (a' & R1 & R2 & R3).
  pose proof (run_dense_refines ops T (abs_sp v0 S) Heq) as D. rewrite R1 in D.
  destruct (run (step_dense v0) T ops) as [[T' outs']|]; [|contradiction].
  destruct D as (D1 & D2 & _). subst. exists T'. split; auto. split; auto.
  eapply eq_amap_trans; eauto. now apply eq_amap_sym.
Qed.

(* a successful history is successful on every prefix, so the statements above hold after EVERY step *)
Lemma run_prefix {St} (step : St -> op V -> option (St * outv (V:=V))) ops k : forall s s' outs,
  run step s ops = Some (s', outs) -> exists s1 outs1, run step s (firstn k ops) = Some (s1, outs1) /\ outs1 = firstn k outs.
Proof.
  revert k; induction ops as [|o ops IH]; intros [|k] s s' outs H; cbn [run firstn] in *; eauto.
  - inversion H; subst. eauto.
  - destruct (step s o) as [[s1 out1]|]; [|discriminate].
    destruct (run step s1 ops) as [[s2 outs2]|] eqn:E; [|discriminate]. inversion H; subst.
    destruct (IH k _ _ _ E) as (s3 & outs3 & R & ->). rewrite R. eauto.
Qed.

Theorem dense_sparse_equal_every_step ops (T : dense V) (S : sparse V) S' outs :
  wf_sp isz S -> eq_amap (abs_dense v0 T) (abs_sp v0 S) ->
  run (step_sparse v0 isz) S ops = Some (S', outs) ->
  forall k, exists Tk Sk outsk,
    run (step_dense v0) T (firstn k ops) = Some (Tk, outsk) /\
    run (step_sparse v0 isz) S (firstn k ops) = Some (Sk, outsk) /\
    eq_amap (abs_dense v0 Tk) (abs_sp v0 Sk) /\ wf_sp isz Sk.
Proof.
  intros W Heq H k. destruct (run_prefix _ ops k S S' outs H) as (Sk & outsk & R & _).
  destruct (dense_sparse_equal (firstn k ops) T S Sk outsk W Heq R) as (Tk & D1 & D2 & D3).
  exists Tk, Sk, outsk. auto.
Qed.

(* ---- fold_left form: the state after a history, None once an operation is inadmissible ---- *)
Definition exec {St} (step : St -> op V -> option (St * outv (V:=V))) (s : St) (ops : list (op V)) : option St :=
  fold_left (fun so o => match so with Some s => option_map fst (step s o) | None => None end) ops (Some s).

Lemma exec_none {St} (step : St -> op V -> option (St * outv (V:=V))) ops :
  fold_left (fun so o => match so with Some s => option_map fst (step s o) | None => None end) ops None = None.
Proof. induction ops; cbn; auto. Qed.

Lemma exec_run {St} (step : St -> op V -> option (St * outv (V:=V))) ops : forall s,
  exec step s ops = option_map fst (run step s ops).
Proof.
  induction ops as [|o ops IH]; intros s; [reflexivity|]. unfold exec in *. cbn [fold_left run].
  destruct (step s o) as [[s1 out]|]; cbn [option_map fst].
  - rewrite IH. now destruct (run step s1 ops) as [[s2 outs]|].
  - apply exec_none.
Qed.

Theorem history_sparse ops (S : sparse V) S' :
  wf_sp isz S -> exec (step_sparse v0 isz) S ops = Some S' ->
  exists a', exec (spec_step v0) (abs_sp v0 S) ops = Some a' /\ eq_amap (abs_sp v0 S') a' /\ wf_sp isz S'.
Proof.
  intros W H. rewrite exec_run in H.
  destruct (run (step_sparse v0 isz) S ops) as [[S1 outs]|] eqn:E; [|discriminate]. cbn in H. inversion H; subst.
  destruct (run_sparse_refines ops S (abs_sp v0 S) S' outs W (eq_amap_refl _) E) as (a' & R1 & R2 & R3).
  exists a'. rewrite exec_run, R1. auto.
Qed.

Theorem history_dense ops (T : dense V) T' :
  exec (step_dense v0) T ops = Some T' ->
  exists a', exec (spec_step v0) (abs_dense v0 T) ops = Some a' /\ eq_amap (abs_dense v0 T') a'.
Proof.
  intros H. rewrite exec_run in H.
  pose proof (run_dense_refines ops T (abs_dense v0 T) (eq_amap_refl _)) as D.
  destruct (run (step_dense v0) T ops) as [[T1 outs]|]; [|discriminate]. cbn in H. inversion H; subst.
  destruct (run (spec_step v0) (abs_dense v0 T) ops) as [[a' outs']|] eqn:E; [|contradiction].
  exists a'. rewrite exec_run, E. destruct D as (D1 & _). auto.
Qed.

End H.

(* ---- the specification itself says what the property says ---- *)
Section SpecFacts.
Context {V : Type} (v0 : V).

Lemma last_match_app i (a b : list (idx * V)) d : last_match i (a ++ b) d = last_match i b (last_match i a d).
Proof. revert d; induction a as [|[j v] r IH]; intros d; cbn; auto. Qed.

(* a position that the batch does not mention keeps its old value (zero if it lies in a new part of the shape) *)
Lemma spec_set_other (a : amap V) s' asg j : inb s' j = true -> ~ In j (map fst asg) ->
  af (spec_set v0 a s' asg) j = embed v0 (length (ashape a)) (af a) j.
Proof.
  intros Hj Hn. cbn. rewrite Hj. apply last_match_notin. intros e He Hfe. apply Hn. rewrite <- Hfe. now apply in_map.
Qed.

(* a position reads as the value of the LAST assignment to it in the batch *)
Lemma spec_set_last (a : amap V) s' asg1 asg2 j v : inb s' j = true -> ~ In j (map fst asg2) ->
  af (spec_set v0 a s' (asg1 ++ (j, v) :: asg2)) j = v.
Proof.
  intros Hj Hn. cbn [spec_set af]. rewrite Hj, last_match_app. cbn [last_match]. rewrite idx_eqb_refl.
  apply last_match_notin. intros e He Hfe. apply Hn. rewrite <- Hfe. now apply in_map.
Qed.

(* outside the new shape everything reads as zero; the new shape is the one the key demands *)
Lemma spec_set_outside (a : amap V) s' asg j : inb s' j = false -> af (spec_set v0 a s' asg) j = v0.
Proof. intros Hj. cbn. now rewrite Hj. Qed.

(* without growth of the order, "old value" is literally the old value *)
Lemma embed_same_order n (f : idx -> V) j : length j = n -> embed v0 n f j = f j.
Proof.
  intros H. unfold embed. rewrite <- H, skipn_all, firstn_all. reflexivity.
Qed.
End SpecFacts.
