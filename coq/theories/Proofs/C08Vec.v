(* Proofs/C08Vec.v — Kruskal tensors: mode permutation, vectorisation (tovec / from_vector / update),
   tolist and the final arrange of score, all stated for arbitrary shapes, ranks and values of an arbitrary
   commutative ring (oracles are arbitrary functions subject to the hypotheses stated next to each lemma). *)
From Coq Require Import List Arith Lia Bool Permutation Ring Sorted ZArith.
From PV Require Import Base.Index Base.Perm Base.Sum Np.Array Model.Sparse Model.Repr Model.C08Kruskal
  Proofs.C08Proofs Model.C07Ops Proofs.C07Proofs.
Import ListNotations.
Local Open Scope nat_scope.

Section V8.
Variable V : Type.
Variables (v0 v1 : V) (vadd vmul vsub : V -> V -> V) (vopp vinv : V -> V).
Hypothesis Vring : ring_theory v0 v1 vadd vmul vsub vopp (@eq V).
Add Ring Vr8vec : Vring.

Notation "x * y" := (vmul x y).
Notation den := (den_k v0 v1 vadd vmul).
Notation kp := (kprod v0 v1 vmul).
Notation mat := (list (list V)).
Notation scols := (scale_cols vmul).

(* ------------------------------------------------------------------------------------------------ *)
(* (i) permute: same weights, permuted shape, transposed denotation                                  *)
(* ------------------------------------------------------------------------------------------------ *)
Lemma permute_k_is_k_permute (K : ktensor V) p : is_perm p (length (kfactors K)) ->
  permute_k K p = Some (k_permute p K).
Proof. intros Hp. unfold permute_k, k_permute. now rewrite (proj2 (is_permb_spec p _) Hp). Qed.

Theorem den_permute (K : ktensor V) p : is_perm p (length (kfactors K)) ->
  kweights (k_permute p K) = kweights K /\
  kshape (k_permute p K) = pick 0 p (kshape K) /\
  forall i, length i = length (kfactors K) -> den (k_permute p K) i = den K (pick 0 (invperm p) i).
Proof.
  intros Hp.
  destruct (permute_kruskal_correct V v0 v1 vadd vmul vsub vopp Vring K p Hp) as (R & E & H1 & H2 & H3 & _).
  rewrite permute_k_is_k_permute in E by exact Hp. injection E as <-. auto.
Qed.

(* ------------------------------------------------------------------------------------------------ *)
(* (j) from_vector (tovec K, no weights) = K with unit weights                                        *)
(* ------------------------------------------------------------------------------------------------ *)
Theorem from_vector_tovec_noweights (K : ktensor V) : wf_k K -> sum_nat (kshape K) <> 0 ->
  k_from_vector v0 v1 (k_tovec v0 false K) (kshape K) false = mkK (repeat v1 (krank K)) (kfactors K).
Proof.
  intros W Hs. unfold k_from_vector, k_tovec. cbn [app].
  rewrite (sum_nat_vec V v0). fold (kshape K).
  rewrite Nat.div_mul by exact Hs.
  pose proof (unvec_vec_factors V v0 (krank K) (kfactors K) [] W) as H. rewrite app_nil_r in H.
  unfold kshape. now rewrite H.
Qed.

(* ------------------------------------------------------------------------------------------------ *)
(* (k) update with every mode (weights first) = from_vector                                          *)
(* ------------------------------------------------------------------------------------------------ *)
Lemma upd_nth_app {A} (pre : list A) a post f : upd_nth (length pre) f (pre ++ a :: post) = pre ++ f a :: post.
Proof. induction pre as [|x pre IH]; cbn; auto. now f_equal. Qed.

Lemma update_loop_factors (post pre : list mat) (w data : list V) :
  k_update_loop v0 (map Some (seq (length pre) (length post))) data (mkK w (pre ++ post)) =
  mkK w (pre ++ unvec_factors v0 (map (@nrows V) post) (length w) data).
Proof.
  revert pre data; induction post as [|A post IH]; intros pre data.
  - reflexivity.
  - cbn [length seq map k_update_loop unvec_factors].
    unfold krank, kshape. cbn [kweights kfactors].
    assert (Em : nth (length pre) (map (@nrows V) (pre ++ A :: post)) 0 = nrows A).
    { rewrite map_app. rewrite app_nth2 by (rewrite map_length; lia).
      rewrite map_length, Nat.sub_diag. reflexivity. }
    rewrite Em, upd_nth_app.
    set (X := unvec_factor v0 (nrows A) (length w) (firstn (nrows A * length w)%nat data)).
    specialize (IH (pre ++ [X]) (skipn (nrows A * length w)%nat data)).
    rewrite app_length in IH. cbn [length] in IH. rewrite Nat.add_1_r in IH.
    rewrite <- !app_assoc in IH. cbn [app] in IH. exact IH.
Qed.

(* general form: the weights are read from the first R entries, the factors from the rest *)
Theorem update_all_modes_gen (K : ktensor V) (data : list V) : krank K <= length data ->
  k_update v0 (None :: map Some (seq 0 (length (kfactors K)))) data K =
  mkK (firstn (krank K) data) (unvec_factors v0 (kshape K) (krank K) (skipn (krank K) data)).
Proof.
  intros Hle. unfold k_update. cbn [k_update_loop kfactors].
  pose proof (update_loop_factors (kfactors K) [] (firstn (krank K) data) (skipn (krank K) data)) as H.
  simpl length in H. simpl app in H. refine (eq_trans H _). rewrite firstn_length, Nat.min_l by exact Hle. reflexivity.
Qed.

Theorem update_all_modes (K : ktensor V) (data : list V) :
  length data = (krank K * (sum_nat (kshape K) + 1))%nat ->
  k_update v0 (None :: map Some (seq 0 (length (kfactors K)))) data K = k_from_vector v0 v1 data (kshape K) true.
Proof.
  intros HL. rewrite update_all_modes_gen by nia.
  unfold k_from_vector. rewrite HL, Nat.div_mul by lia. reflexivity.
Qed.

(* ------------------------------------------------------------------------------------------------ *)
(* (l) update: frame conditions                                                                      *)
(* ------------------------------------------------------------------------------------------------ *)
Lemma nth_upd_nth_other {A} j k (f : A -> A) l d : j <> k -> nth k (upd_nth j f l) d = nth k l d.
Proof.
  revert j k; induction l as [|x l IH]; intros [|j] [|k] H; cbn; auto; try lia.
Qed.

Theorem update_frame_weights ms data (K : ktensor V) : ~ In None ms ->
  kweights (k_update v0 ms data K) = kweights K.
Proof.
  unfold k_update. revert data K; induction ms as [|[k|] ms IH]; intros data K H; cbn [k_update_loop]; auto.
  - rewrite IH; [reflexivity|]. intros Hin; apply H; now right.
  - exfalso. apply H. now left.
Qed.

Theorem update_frame_factor ms data (K : ktensor V) k : ~ In (Some k) ms ->
  nth k (kfactors (k_update v0 ms data K)) [] = nth k (kfactors K) [].
Proof.
  unfold k_update. revert data K; induction ms as [|[j|] ms IH]; intros data K H; cbn [k_update_loop]; auto.
  - rewrite IH by (intros Hin; apply H; now right). cbn [kfactors].
    apply nth_upd_nth_other. intros ->. apply H. now left.
  - rewrite IH by (intros Hin; apply H; now right). reflexivity.
Qed.

Theorem update_frame ms data (K : ktensor V) :
  (~ In None ms -> kweights (k_update v0 ms data K) = kweights K) /\
  (forall k, ~ In (Some k) ms -> nth k (kfactors (k_update v0 ms data K)) [] = nth k (kfactors K) []).
Proof. split; [apply update_frame_weights|intros k; apply update_frame_factor]. Qed.

(* ------------------------------------------------------------------------------------------------ *)
(* (m) tolist(): the factor list alone (unit weights) denotes the same array                         *)
(* ------------------------------------------------------------------------------------------------ *)
Lemma map_const_id (l : list V) : Forall (fun x => x = v1) l -> map (fun _ => v1) l = l.
Proof. induction 1 as [|x l Hx _ IH]; cbn; auto. now rewrite IH, Hx. Qed.

Section ToList.
Variables (root vsgn vabs : V -> V) (is_one : V -> bool).
Hypothesis is_one_spec : forall x, is_one x = true -> x = v1.

(* the sign is applied once (factor 0) and the N-th root of |w| to each of the N factors *)
Theorem den_tolist (K : ktensor V) : kfactors K <> [] ->
  (forall w, In w (kweights K) -> vsgn w * vpow v1 vmul (root (vabs w)) (length (kfactors K)) = w) ->
  forall i, den (mkK (map (fun _ => v1) (kweights K)) (k_tolist vmul root vsgn vabs is_one K)) i = den K i.
Proof.
  intros Hne sgn_root. unfold k_tolist. destruct (forallb is_one (kweights K)) eqn:E.
  - intros i. rewrite map_const_id; [now destruct K|].
    rewrite forallb_forall in E. apply Forall_forall. intros x Hx. apply is_one_spec. now apply E.
  - apply (den_k_ext V v0 v1 vadd vmul).
    + unfold kshape. cbn [kfactors]. rewrite map_map.
      rewrite (map_ext (fun x => nrows (scols (map (fun w => root (vabs w)) (kweights K)) x)) (@nrows V))
        by (intros A; apply nrows_scale_cols).
      apply kshape_upd_scale.
    + unfold krank. cbn [kweights]. apply map_length.
    + intros i r Hi Hr. pose proof (inb_kshape_length V K i Hi) as HL.
      unfold comp. cbn [kweights kfactors].
      change (map (fun _ : V => v1) (kweights K)) with (ones v1 (kweights K)).
      rewrite (nth_ones V v0 v1) by exact Hr.
      rewrite (kprod_map_scale V v0 v1 vadd vmul vsub vopp Vring) by (now rewrite length_upd_nth).
      rewrite length_upd_nth.
      rewrite (kprod_upd_nth V v0 v1 vadd vmul vsub vopp Vring 0 _ (nth r (map vsgn (kweights K)) v0)); auto.
      2: intros x; apply (mget_scale_cols V v0 v1 vadd vmul vsub vopp Vring).
      2: destruct (kfactors K); [congruence|cbn; lia].
      rewrite (nth_map_in V v0 _ _ r v0) by exact Hr.
      rewrite (nth_map_in V v0 _ _ r v0) by exact Hr.
      set (w := nth r (kweights K) v0).
      assert (Hw : vsgn w * vpow v1 vmul (root (vabs w)) (length (kfactors K)) = w).
      { apply sgn_root. unfold w. now apply nth_In. }
      unfold matrix in *.
      transitivity (kp (kfactors K) i r * (vsgn w * vpow v1 vmul (root (vabs w)) (@length (list (list V)) (kfactors K)))); [ring|].
      rewrite Hw. ring.
Qed.
End ToList.

(* ------------------------------------------------------------------------------------------------ *)
(* (n) tolist(mode), (o) the final arrange(permutation) of score                                    *)
(* ------------------------------------------------------------------------------------------------ *)
Section Norm3.
Variables (nrm : list V -> V) (pos neg : V -> bool) (root : V -> V) (srt : list V -> list nat).
Hypothesis vinv_r : forall x, x <> v0 -> x * vinv x = v1.
Hypothesis pos_nz : forall x, pos x = true -> x <> v0.
Hypothesis nrm_pos : forall l, pos (nrm l) = false -> Forall (fun y => y = v0) l.
Hypothesis srt_perm : forall l, is_perm (srt l) (length l).

Notation ncols := (k_normalize_cols v0 v1 vmul vinv nrm pos).
Notation fixneg := (k_fix_neg v1 vmul vopp neg).
Notation normalize := (k_normalize v0 v1 vmul vopp vinv nrm pos neg root srt).

Lemma map_const_length {A B} (c : B) (a b : list A) : length a = length b -> map (fun _ => c) a = map (fun _ => c) b.
Proof. revert b; induction a as [|x a IH]; intros [|y b] H; cbn in *; try lia; auto. f_equal. apply IH. lia. Qed.

Lemma fixneg_ncols_props K :
  krank (fixneg (ncols K)) = krank K /\ length (kfactors (fixneg (ncols K))) = length (kfactors K).
Proof.
  destruct (normalize_cols_props V v0 v1 vadd vmul vsub vopp vinv Vring nrm pos vinv_r pos_nz nrm_pos K) as (S1 & R1 & L1 & D1).
  destruct (fix_neg_props V v0 v1 vadd vmul vsub vopp Vring neg (ncols K)) as (S2 & R2 & L2 & D2).
  split; congruence.
Qed.

Lemma krank_normalize_none K : krank (normalize WNone false None K) = krank K.
Proof. cbn [k_normalize k_absorb]. apply fixneg_ncols_props. Qed.

Theorem den_tolist_mode n K : n < length (kfactors K) ->
  forall i, den (mkK (map (fun _ => v1) (kweights K))
                     (k_tolist_mode v0 v1 vmul vopp vinv nrm pos neg root srt n K)) i = den K i.
Proof.
  intros Hn i. destruct (fixneg_ncols_props K) as [HR HLn].
  rewrite <- (den_normalize V v0 v1 vadd vmul vsub vopp vinv Vring nrm pos neg root srt
                vinv_r pos_nz nrm_pos srt_perm (WMode n) false K) by discriminate.
  f_equal. unfold k_tolist_mode. cbn [k_normalize k_absorb].
  apply Nat.ltb_lt in Hn. rewrite HLn, Hn. unfold k_redistribute. cbn [kfactors]. f_equal.
  unfold ones. apply map_const_length. symmetry. exact HR.
Qed.

Theorem den_score_arrange p K : is_perm p (krank K) ->
  forall i, den (k_gather v0 p (normalize WNone false None K)) i = den K i.
Proof.
  intros Hp i. rewrite (den_gather_perm V v0 v1 vadd vmul vsub vopp Vring).
  - apply (den_normalize V v0 v1 vadd vmul vsub vopp vinv Vring nrm pos neg root srt vinv_r pos_nz nrm_pos srt_perm).
    discriminate.
  - now rewrite krank_normalize_none.
Qed.

End Norm3.
End V8.

(* ------------------------------------------------------------------------------------------------ *)
(* non-vacuity: concrete, non-symmetric instances over Z                                             *)
(* ------------------------------------------------------------------------------------------------ *)
Local Open Scope Z_scope.

(* a (3,2) rank-2 tensor *)
Definition exK : ktensor Z := mkK [2; -3] [[[1; 2]; [3; 4]; [5; 6]]; [[7; 8]; [9; 10]]].

Example ex_permute_shape : kshape (k_permute [1; 0]%nat exK) = [2; 3]%nat.
Proof. reflexivity. Qed.
Example ex_permute_den :
  den_k 0 1 Z.add Z.mul (k_permute [1; 0]%nat exK) [1; 2]%nat = den_k 0 1 Z.add Z.mul exK [2; 1]%nat /\
  den_k 0 1 Z.add Z.mul exK [2; 1]%nat = -90 /\ den_k 0 1 Z.add Z.mul exK [1; 2]%nat = 0.
Proof. vm_compute. auto. Qed.

Example ex_tovec : k_tovec 0 false exK = [1; 3; 5; 2; 4; 6; 7; 9; 8; 10].
Proof. reflexivity. Qed.
Example ex_from_vector_noweights :
  k_from_vector 0 1 (k_tovec 0 false exK) (kshape exK) false = mkK [1; 1] (kfactors exK).
Proof. reflexivity. Qed.

(* update on a (2,3) rank-2 tensor: weights and both factors replaced from one vector *)
Definition exU : ktensor Z := mkK [1; 1] [[[0; 0]; [0; 0]]; [[0; 0]; [0; 0]; [0; 0]]].
Definition exData : list Z := [11; 12; 1; 2; 3; 4; 5; 6; 7; 8; 9; 10].
Example ex_update_all :
  k_update 0 [None; Some 0; Some 1]%nat exData exU =
  mkK [11; 12] [[[1; 3]; [2; 4]]; [[5; 8]; [6; 9]; [7; 10]]] /\
  k_from_vector 0 1 exData (kshape exU) true = mkK [11; 12] [[[1; 3]; [2; 4]]; [[5; 8]; [6; 9]; [7; 10]]].
Proof. split; reflexivity. Qed.
Example ex_update_frame :
  k_update 0 [Some 1]%nat [5; 6; 7; 8; 9; 10] exU = mkK [1; 1] [[[0; 0]; [0; 0]]; [[5; 8]; [6; 9]; [7; 10]]].
Proof. reflexivity. Qed.

(* tolist() with sgn/abs on Z and the "root" oracle that works for this instance (N = 2, |w| in {4, 9}) *)
Definition exL : ktensor Z := mkK [4; -9] [[[1; 2]; [3; 4]; [5; 6]]; [[7; 8]; [9; 10]]].
Definition ex_root (x : Z) : Z := Z.sqrt x.
Example ex_tolist :
  k_tolist Z.mul ex_root Z.sgn Z.abs (Z.eqb 1) exL = [[[2; -6]; [6; -12]; [10; -18]]; [[14; 24]; [18; 30]]] /\
  forall i, In i [[0; 0]; [1; 0]; [2; 1]; [0; 1]]%nat ->
    den_k 0 1 Z.add Z.mul (mkK [1; 1] (k_tolist Z.mul ex_root Z.sgn Z.abs (Z.eqb 1) exL)) i = den_k 0 1 Z.add Z.mul exL i.
Proof. split; [reflexivity|]. intros i H. cbn in H. repeat (destruct H as [<-|H]; [reflexivity|]). contradiction. Qed.

(* score's arrange(permutation) on a concrete tensor: swapping the two components keeps the array *)
Example ex_gather_swap :
  k_gather 0 [1; 0]%nat exK = mkK [-3; 2] [[[2; 1]; [4; 3]; [6; 5]]; [[8; 7]; [10; 9]]] /\
  den_k 0 1 Z.add Z.mul (k_gather 0 [1; 0]%nat exK) [2; 1]%nat = den_k 0 1 Z.add Z.mul exK [2; 1]%nat.
Proof. split; reflexivity. Qed.

Print Assumptions den_permute.
Print Assumptions from_vector_tovec_noweights.
Print Assumptions update_all_modes.
Print Assumptions update_frame.
Print Assumptions den_tolist.
Print Assumptions den_tolist_mode.
Print Assumptions den_score_arrange.
