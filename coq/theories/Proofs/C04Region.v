(* Proofs/C04Region.v — region keys on the sparse side (C04, wave 2):
   (1) the sptensor returned by a region read (subdims + tt_renumber, model sp_region_get) is well-formed;
   (2) the decidable side conditions inside the sparse model (sp_set: positions pairwise distinct, padded old subscripts
       inside the grown shape) never fail for REGION writes: whenever the specification accepts `S[region] = rhs`
       (index lists without repetition), so does step_sparse. *)
From Coq Require Import List Arith ZArith Lia Bool.
From PV Require Import Base.Index Np.Array Model.Sparse Model.C04Model Proofs.C04Dense Proofs.C04Sparse
  Proofs.C04Admissible Proofs.C04RegionGet Proofs.C04History.
Import ListNotations.

(* (1) region read: moved to Proofs/C04RegionGet.v in wave 3b (sp_region_get_wf / sp_region_get_nnz for keys that may repeat an index) *)

(* ------------------------------------------------------------------------------------------------ *)
(* (2) region writes are admissible                                                                   *)
(* ------------------------------------------------------------------------------------------------ *)
Local Open Scope Z_scope.

Lemma arith_nodup start step m : step <> 0 ->
  (forall k, (k < m)%nat -> 0 <= start + Z.of_nat k * step) ->
  NoDup (map (fun k => Z.to_nat (start + Z.of_nat k * step)) (seq 0 m)).
Proof.
  intros Hs Hp. apply NoDup_map_inj; [apply seq_NoDup|].
  intros a b Ha Hb E. apply in_seq in Ha. apply in_seq in Hb.
  apply Z2Nat.inj in E; [|apply Hp; lia|apply Hp; lia]. nia.
Qed.

Lemma adj_pos n x : 0 <= n ->
  0 <= (if x <? 0 then (let y := x + n in if y <? 0 then 0 else y) else if n <=? x then n else x).
Proof.
  intros Hn. cbv zeta. destruct (Z.ltb_spec x 0); [destruct (Z.ltb_spec (x + n) 0)|destruct (Z.leb_spec n x)]; lia.
Qed.

Lemma adj_neg n x : 0 <= n ->
  -1 <= (if x <? 0 then (let y := x + n in if y <? 0 then -1 else y) else if n <=? x then n - 1 else x).
Proof.
  intros Hn. cbv zeta. destruct (Z.ltb_spec x 0); [destruct (Z.ltb_spec (x + n) 0)|destruct (Z.leb_spec n x)]; lia.
Qed.

Lemma py_slice_nodup len a b c : NoDup (py_slice len a b c).
Proof.
  unfold py_slice. cbv zeta.
  set (n := Z.of_nat len). assert (Hn : 0 <= n) by (unfold n; lia).
  set (step := match c with Some s => s | None => 1 end).
  destruct (Z.eqb_spec step 0) as [|Hs]; [constructor|].
  destruct (Z.ltb_spec step 0) as [Hneg|Hpos].
  - (* negative step: start + k*step > stop >= -1 *)
    set (start := match a with Some x => _ | None => n - 1 end).
    set (stop := match b with Some x => _ | None => -1 end).
    assert (Hstop : -1 <= stop).
    { unfold stop. destruct b as [x|]; [apply (adj_neg n x Hn)|lia]. }
    apply arith_nodup; auto. intros k Hk.
    destruct (Z.ltb_spec stop start) as [Hlt|Hge]; [|cbn in Hk; lia].
    assert (Hq : 0 <= (start - stop - 1) / (- step)) by (apply Z.div_pos; lia).
    rewrite Z2Nat.inj_add in Hk by lia.
    assert (Hk' : Z.of_nat k <= (start - stop - 1) / (- step)).
    { apply Nat2Z.inj_lt in Hk. rewrite Nat2Z.inj_add, Z2Nat.id in Hk by lia. cbn in Hk. lia. }
    pose proof (Z.mul_div_le (start - stop - 1) (- step) ltac:(lia)) as Hm.
    nia.
  - (* positive step: start >= 0 *)
    set (start := match a with Some x => _ | None => 0 end).
    assert (Hstart : 0 <= start).
    { unfold start. destruct a as [x|]; [apply (adj_pos n x Hn)|lia]. }
    apply arith_nodup; auto. intros k Hk. nia.
Qed.

Local Close Scope Z_scope.

(* an index list inside a key must not repeat an index (numpy would assign such a position twice; sptensor rejects) *)
Definition elem_nodup (e : kelem) : Prop := match e with KList l => NoDup l | _ => True end.

Example ex_region_key_nodup : Forall elem_nodup [KSlice None (Some 3%Z) (Some 2%Z); KList [2%Z; 0%Z]; KInt 1%Z].
Proof.
  constructor; [exact I|]. constructor; [|constructor; [exact I|constructor]].
  cbn. constructor; [intros [H|[]]; discriminate|]. constructor; [intros []|constructor].
Qed.

Lemma elem_indices_nodup d e x : elem_nodup e -> elem_indices d e = Some x -> NoDup (snd x) /\ snd x <> [].
Proof.
  destruct e as [z|a b c|l]; cbn; intros He H.
  - destruct (norm_index d z); [|discriminate]. inversion H. cbn. split; [repeat constructor; auto|discriminate].
  - pose proof (py_slice_nodup d a b c) as Hn. destruct (py_slice d a b c) eqn:E; [discriminate|].
    inversion H. cbn. split; [auto|discriminate].
  - destruct l as [|z l]; [discriminate|].
    destruct (forallb _ (z :: l)) eqn:F; [|discriminate]. inversion H. cbn [snd]. split; [|discriminate].
    change (NoDup (map Z.to_nat (z :: l))). apply NoDup_map_inj; auto. intros u w Hu Hw E. rewrite forallb_forall in F.
    pose proof (F u Hu) as Fu. pose proof (F w Hw) as Fw.
    apply andb_true_iff in Fu as [Fu _]. apply andb_true_iff in Fw as [Fw _].
    apply Z.leb_le in Fu. apply Z.leb_le in Fw. now apply Z2Nat.inj.
Qed.

Lemma region_lists_nodup s : forall es ls, Forall elem_nodup es -> region_lists s es = Some ls ->
  Forall (fun l => NoDup l /\ l <> []) (map snd ls).
Proof.
  induction s as [|d s IH]; intros [|e es] ls Hes H; cbn in H; try discriminate.
  - inversion H. constructor.
  - destruct (elem_indices d e) as [x|] eqn:E; [|discriminate].
    destruct (region_lists s es) as [r|] eqn:R; [|discriminate]. inversion H; subst.
    inversion Hes; subst. cbn. constructor; [eapply elem_indices_nodup; eauto|]. eapply IH; eauto.
Qed.

Lemma cartF_nodup ls : Forall (fun l : list nat => NoDup l /\ l <> []) ls -> NoDup (cartF ls).
Proof.
  induction 1 as [|l r [Hl _] Hr IH]; cbn; [repeat constructor; auto|].
  induction IH as [|t ts Ht Hts IHts]; cbn; [constructor|].
  apply NoDup_app_intro; auto.
  - apply NoDup_map_inj; auto. intros a b _ _ E. now inversion E.
  - intros p Hp Hp'. apply in_map_iff in Hp as (x & <- & Hx).
    apply in_flat_map in Hp' as (t' & Ht' & Hp'). apply in_map_iff in Hp' as (y & E & Hy).
    inversion E; subst. contradiction.
Qed.

Lemma cartC_nodup ls : Forall (fun l : list nat => NoDup l /\ l <> []) ls -> NoDup (cartC ls).
Proof.
  induction 1 as [|l r [Hl _] Hr IH]; cbn; [repeat constructor; auto|].
  induction Hl as [|x xs Hx Hxs IHxs]; cbn; [constructor|].
  apply NoDup_app_intro; auto.
  - apply NoDup_map_inj; auto. intros a b _ _ E. now inversion E.
  - intros p Hp Hp'. apply in_map_iff in Hp as (t & <- & Ht).
    apply in_flat_map in Hp' as (y & Hy & Hp'). apply in_map_iff in Hp' as (t' & E & Ht').
    inversion E; subst. contradiction.
Qed.

Lemma cartF_nonempty ls : Forall (fun l : list nat => NoDup l /\ l <> []) ls -> cartF ls <> [].
Proof.
  induction 1 as [|l r [_ Hl] Hr IH]; cbn; [discriminate|].
  destruct (cartF r) as [|t ts]; [contradiction|]. destruct l as [|x xs]; [contradiction|]. discriminate.
Qed.

Lemma inb_dims_pos s : forall p, inb s p = true -> Forall (fun d => 1 <= d) s.
Proof.
  induction s as [|d s IH]; intros [|x p] H; cbn in H; try discriminate; constructor.
  - apply andb_true_iff in H as [H _]. apply Nat.ltb_lt in H. lia.
  - apply andb_true_iff in H as [_ H]. eauto.
Qed.

(* growth keeps every old subscript (padded with zeros) inside the new shape as soon as the new shape has no empty mode *)
Lemma grow_inb_pad_pos s : forall need i, inb s i = true -> Forall (fun d => 1 <= d) (grow s need) ->
  inb (grow s need) (sp_pad (length (grow s need)) i) = true.
Proof.
  induction s as [|d s IH]; intros need [|x i] Hi Hp; cbn [inb] in Hi; try discriminate.
  - destruct need as [|y need]; [reflexivity|]. cbn [grow] in *. unfold sp_pad. cbn [length app]. rewrite Nat.sub_0_r.
    now apply inb_zeros.
  - apply andb_true_iff in Hi as [Hx Hi]. apply Nat.ltb_lt in Hx.
    destruct need as [|y need].
    + cbn [grow]. unfold sp_pad. cbn [length]. rewrite (inb_length _ _ Hi), Nat.sub_diag. cbn [repeat].
      rewrite app_nil_r. cbn [inb]. rewrite Hi, andb_true_r. now apply Nat.ltb_lt.
    + cbn [grow length] in *. inversion Hp; subst. unfold sp_pad. cbn [length app Nat.sub inb].
      specialize (IH need i Hi H2). unfold sp_pad in IH. rewrite IH, andb_true_r. apply Nat.ltb_lt. lia.
Qed.

Lemma map_fst_combine {A B} (l : list A) (r : list B) : length r = length l -> map fst (combine l r) = l.
Proof.
  revert r; induction l as [|x l IH]; intros [|y r] H; cbn in *; try discriminate; auto. f_equal. apply IH. lia.
Qed.

Section A.
Context {V : Type} (v0 : V) (isz : V -> bool).

Lemma rhs_values_length (r : rhs V) n vs : rhs_values r n = Some vs -> length vs = n.
Proof.
  destruct r as [v|l]; cbn.
  - intros H. inversion H. apply repeat_length.
  - destruct (Nat.eqb_spec (length l) n); [|discriminate]. intros H. inversion H; subst; auto.
Qed.

Lemma finish_set_keys (r : rhs V) s' ps s'' asg : finish_set r s' ps = Some (s'', asg) -> map fst asg = ps.
Proof.
  intros H. apply finish_set_inb in H as (_ & _ & vs & Hv & ->).
  apply map_fst_combine. eapply rhs_values_length; eauto.
Qed.

(* the padded stored subscripts and the pairwise distinctness of the positions: sp_set cannot fail *)
Lemma sp_set_some (S : sparse V) need asg repl :
  wf_sp isz S -> NoDup (map fst asg) -> Forall (fun d => 1 <= d) (grow (sshape S) need) ->
  exists S', sp_set isz S (grow (sshape S) need) asg repl = Some S'.
Proof.
  intros W Hn Hp. unfold sp_set. rewrite (nodupb_complete _ Hn).
  match goal with |- context [forallb ?f ?l] => assert (Hb : forallb f l = true) end.
  { apply forallb_forall. intros i Hi. rewrite map_map in Hi. cbn [fst] in Hi.
    apply in_map_iff in Hi as (e & <- & He). apply grow_inb_pad_pos; auto.
    destruct (wf_es_entries isz S W) as [_ H0]. now apply H0. }
  rewrite Hb. eauto.
Qed.

Lemma region_lists_nonempty s : forall es ls, region_lists s es = Some ls -> Forall (fun l : list nat => l <> []) (map snd ls).
Proof.
  induction s as [|d s IH]; intros [|e es] ls H; cbn in H; try discriminate.
  - inversion H. constructor.
  - destruct (elem_indices d e) as [x|] eqn:E; [|discriminate].
    destruct (region_lists s es) as [r|] eqn:R; [|discriminate]. inversion H; subst. cbn. constructor; [|eapply IH; eauto].
    destruct e as [z|a b c|l]; cbn in E.
    + destruct (norm_index d z); [|discriminate]. inversion E. cbn. discriminate.
    + destruct (py_slice d a b c) eqn:P; [discriminate|]. inversion E. cbn. discriminate.
    + destruct l as [|z l]; [discriminate|]. destruct (forallb _ (z :: l)); [|discriminate]. inversion E. cbn. discriminate.
Qed.

Lemma cartF_nonempty' ls : Forall (fun l : list nat => l <> []) ls -> cartF ls <> [].
Proof.
  induction 1 as [|l r Hl Hr IH]; cbn; [discriminate|].
  destruct (cartF r) as [|t ts]; [contradiction|]. destruct l as [|x xs]; [contradiction|]. discriminate.
Qed.

(* NO hypothesis on the key any more (wave 3): an index repeated inside a key list addresses its positions twice; the sparse
   model keeps, for every position, its last value (dedupe_last), so its distinctness check cannot fail *)
Theorem sparse_region_admissible (S : sparse V) es (r : rhs V) s' asg :
  wf_sp isz S ->
  resolve_set cartF (sshape S) (KRegion es) r = Some (s', asg) ->
  exists S', step_sparse v0 isz S (OSet (KRegion es) r) = Some (S', ([], [])).
Proof.
  intros W E. cbn [step_sparse].
  pose proof E as E0. unfold resolve_set in E.
  destruct (region_ok (sshape S) es) eqn:Ok; [|discriminate]. cbv zeta in E.
  set (sg := grow (sshape S) (map elem_need es)) in *.
  destruct (region_lists sg es) as [ls|] eqn:Hl; [|discriminate].
  pose proof (region_lists_nonempty _ _ _ Hl) as Hls.
  pose proof (finish_set_keys _ _ _ _ _ E) as Hk.
  pose proof (finish_set_inb _ _ _ _ _ E) as (-> & Hin & _).
  assert (Hpos : Forall (fun d => 1 <= d) sg).
  { pose proof (cartF_nonempty' _ Hls) as Hne. destruct (cartF (map snd ls)) as [|p ps] eqn:Ec; [contradiction|].
    destruct asg as [|[p' v'] asg']; [discriminate|]. cbn in Hk. inversion Hk; subst.
    apply (inb_dims_pos sg p). apply (Hin (p, v')). cbn; auto. }
  destruct r as [v|vs].
  - (* scalar: the sparse side enumerates the region first-mode-slowest *)
    assert (Hsame : forall x, In x (cartC (map snd ls)) <-> In x (cartF (map snd ls))).
    { intros x. now rewrite in_cartC, in_cartF. }
    assert (EC : resolve_set cartC (sshape S) (KRegion es) (RScalar v) =
                 Some (sg, combine (cartC (map snd ls)) (repeat v (length (cartC (map snd ls)))))).
    { unfold resolve_set. rewrite Ok. cbv zeta. fold sg. rewrite Hl. unfold finish_set, rhs_values.
      rewrite (forallb_ext_in _ _ _ Hsame).
      unfold finish_set, rhs_values in E. destruct (forallb (inb sg) (cartF (map snd ls))); [reflexivity|discriminate]. }
    rewrite EC.
    destruct (sp_set_some S (map elem_need es)
                (dedupe_last (combine (cartC (map snd ls)) (repeat v (length (cartC (map snd ls)))))) false W)
      as (S' & HS'); auto.
    { apply dedupe_last_nodup. }
    fold sg in HS'. rewrite HS'. eauto.
  - rewrite E0.
    destruct (sp_set_some S (map elem_need es) (dedupe_last asg) true W) as (S' & HS'); auto.
    { apply dedupe_last_nodup. }
    fold sg in HS'. rewrite HS'. eauto.
Qed.

End A.

(* ------------------------------------------------------------------------------------------------ *)
(* (3) total one-step refinement on the sparse side: the specification and the sparse model accept together  *)
(* ------------------------------------------------------------------------------------------------ *)
(* the operations sptensor offers: every read; writes by subscript array; writes by region — index lists MAY repeat an index
   since wave 3 (linear assignment is documented as unsupported by sptensor) *)
Definition sparse_op_ok {V} (o : op V) : Prop :=
  match o with
  | OGet _ => True
  | OSet (KSubs _) _ => True
  | OSet (KRegion es) _ => True
  | OSet _ _ => False
  end.

Section T.
Context {V : Type} (v0 : V) (isz : V -> bool).
Hypothesis isz_spec : forall v, isz v = true <-> v = v0.

Theorem refine_sparse_total (S : sparse V) (o : op V) a' out :
  wf_sp isz S -> sparse_op_ok o -> spec_step v0 (abs_sp v0 S) o = Some (a', out) ->
  exists S', step_sparse v0 isz S o = Some (S', out) /\ eq_amap (abs_sp v0 S') a' /\ wf_sp isz S'.
Proof.
  intros W Hok Hs.
  assert (Hstep : exists S' out', step_sparse v0 isz S o = Some (S', out')).
  { destruct o as [k|k r].
    - cbn [spec_step step_sparse abs_sp ashape] in *.
      destruct (resolve_get (sshape S) k) as [[os ps]|]; [|discriminate]. eauto.
    - cbn [spec_step abs_sp ashape] in Hs.
      destruct (resolve_set cartF (sshape S) k r) as [[s' asg]|] eqn:E; [|discriminate].
      destruct k as [z|l|a b c|rows|es]; cbn in Hok; try contradiction.
      + destruct (sparse_subs_admissible v0 isz S rows r s' asg W E) as (S' & H). eauto.
      + destruct (sparse_region_admissible v0 isz S es r s' asg W E) as (S' & H). eauto. }
  destruct Hstep as (S' & out' & Hstep).
  destruct (refine_sparse v0 isz isz_spec S o S' out' W Hstep) as (a'' & Hs' & Heq & W').
  rewrite Hs in Hs'. inversion Hs'; subst. eauto.
Qed.

(* histories: from a well-formed start, a history of offered operations that the specification accepts is accepted by the
   sparse model with the same outputs; the final state denotes the final abstract array and is well-formed *)
Theorem run_sparse_total ops : forall (S : sparse V) a a' outs,
  wf_sp isz S -> eq_amap (abs_sp v0 S) a -> Forall sparse_op_ok ops ->
  run (spec_step v0) a ops = Some (a', outs) ->
  exists S', run (step_sparse v0 isz) S ops = Some (S', outs) /\ eq_amap (abs_sp v0 S') a' /\ wf_sp isz S'.
Proof.
  induction ops as [|o ops IH]; intros S a a' outs W Ha Hok H; cbn [run] in *.
  - inversion H; subst. exists S. split; [reflexivity|]. split; [exact Ha|exact W].
  - inversion Hok as [|? ? Ho Hops]; subst.
    pose proof (spec_step_congr v0 _ _ o Ha) as C.
    destruct (spec_step v0 a o) as [[a1 out1]|] eqn:E1; [|discriminate].
    destruct (spec_step v0 (abs_sp v0 S) o) as [[b1 out1']|] eqn:E1'; [|contradiction].
    destruct C as [C1 C2]. subst out1'.
    destruct (run (spec_step v0) a1 ops) as [[a2 outs2]|] eqn:E2; [|discriminate]. inversion H; subst.
    destruct (refine_sparse_total S o b1 out1 W Ho E1') as (S1 & Hs1 & Hq1 & W1). rewrite Hs1.
    destruct (IH S1 a1 a' outs2 W1 (eq_amap_trans _ _ _ Hq1 C1) Hops E2) as (S2 & R1 & R2 & R3).
    rewrite R1. eauto.
Qed.
End T.
