(* Model/C02Absorb.v — get_mttkrp_factors (pyttb/pyttb_utils.py) for a Kruskal operand: U = U.copy(); U.redistribute(1 if n == 0 else 0);
   the factor matrices are then used as a plain factor list by every mttkrp (dense, sparse, Kruskal, Tucker, sum).
   redistribute(mode): factor_matrices[mode][:, r] *= weights[r]; weights = 1. *)
From Coq Require Import List Arith Lia Bool.
From PV Require Import Base.Index Base.Perm Base.Sum Np.Array Model.Sparse Model.Repr Model.C02Spec Model.C02Dense.
Import ListNotations.

Section A.
Context {V : Type} (v0 : V) (vmul : V -> V -> V).
Definition scale_cols (w : list V) (A : @matrix V) : @matrix V := map (fun row => zipmul vmul row w) A.
Definition absorb_mode (n : nat) : nat := if Nat.eqb n 0 then 1 else 0.
Definition get_mttkrp_factors_k (lam : list V) (Us : list (@matrix V)) (n : nat) : list (@matrix V) :=
  upd Us (absorb_mode n) (scale_cols lam (nth (absorb_mode n) Us [])).
End A.
