(* Props/C16Num.v — the number conversions of the export / import file format (statements only).
   C16_seventeen_digits reduces the hypothesis parse (print v) = v of the round-trip theorems in Props/C16.v, for the
   default format '%.16e', to correct rounding of printf / strtod: over Q, no axioms. *)
From Coq Require Import String.
From Coq Require Import List ZArith QArith Qabs Qpower.
From PV Require Import Model.C16IO Model.C16Lines Model.C16Big Proofs.C16Num.
Import ListNotations.

(* x = m * 2^e a nonzero binary64 number in canonical form (53-bit significand, or subnormal at exponent -1074);
   t = one unit of its 17th significant decimal digit (any t with 10^16 * t <= |x| — for t = 10^(floor(log10 |x|) - 16)
   this holds); d = a decimal within t/2 of x (a correctly rounded '%.16e' text). Then x is strictly the nearest
   binary64 number to d: every other one (any significand below 2^53 in absolute value, any exponent >= -1074, not
   necessarily canonical, zero included) is farther from d *)
Theorem C16_seventeen_digits : forall (m e : Z) (d t : Q),
  canonical m e -> (0 < t)%Q -> (inject_Z (10 ^ 16) * t <= Qabs (dbl m e))%Q -> (2 * Qabs (d - dbl m e) <= t)%Q ->
  forall y : Q, is_double y -> ~ (y == dbl m e)%Q -> (Qabs (d - dbl m e) < Qabs (d - y))%Q.
Proof. exact seventeen_digits. Qed.
Print Assumptions C16_seventeen_digits.

(* 16 significant digits ('%.15e') do not suffice: 10^15 + 1/8 and 10^15 + 2/8 are neighbouring doubles and 10^15 is
   within half a unit of the 16th digit of both *)
Theorem C16_sixteen_digits_collide :
  let x := dbl (8 * 10 ^ 15 + 1) (-3) in let y := dbl (8 * 10 ^ 15 + 2) (-3) in let d := inject_Z (10 ^ 15) in let t := 1%Q in
  canonical (8 * 10 ^ 15 + 1) (-3) /\ canonical (8 * 10 ^ 15 + 2) (-3) /\ ~ (x == y)%Q /\
  (inject_Z (10 ^ 15) * t <= Qabs x)%Q /\ (inject_Z (10 ^ 15) * t <= Qabs y)%Q /\
  (2 * Qabs (d - x) <= t)%Q /\ (2 * Qabs (d - y) <= t)%Q.
Proof. exact sixteen_digits_collide. Qed.
Print Assumptions C16_sixteen_digits_collide.

(* the gap lemma behind it: around M * 2^e no n * 2^e' with |n| < 2^53 lies nearer than 2^e, when e <= e' or |M| > 2^52 *)
Theorem C16_double_gap : forall (M e n e' : Z),
  (Z.abs n < 2 ^ 53)%Z -> ((e <= e')%Z \/ (2 ^ 52 + 1 <= Z.abs M)%Z) ->
  ~ (inject_Z n * 2 ^ e' == inject_Z M * 2 ^ e)%Q ->
  (inject_Z n * 2 ^ e' <= inject_Z M * 2 ^ e - 2 ^ e)%Q \/ (inject_Z M * 2 ^ e + 2 ^ e <= inject_Z n * 2 ^ e')%Q.
Proof. exact gap_gen. Qed.
Print Assumptions C16_double_gap.

(* finding C16-N4 (repaired in /repo dda4ae2). The arithmetic of the OLD code, kept as history: `subs + 1` computed in an
   integer type with range lo..hi (lo <= 0) is the 1-based subscript exactly when the stored subscript is not the type's
   largest value *)
Theorem C16_narrow_subs_exact : forall lo hi s : Z,
  (lo <= 0 <= s)%Z -> (s <= hi)%Z -> (wrap lo hi (s + 1) = s + 1 <-> s <> hi)%Z.
Proof. exact narrow_subs_exact. Qed.
Print Assumptions C16_narrow_subs_exact.

(* (history) ... and at the largest value the text the OLD code wrote (lo) made the base-1 sparse import reject the entry line *)
Theorem C16_narrow_subs_rejected : forall (T : Type) (lo hi : Z) (pre post : list (token T)),
  (lo <= 0 <= hi)%Z -> zsubs_of T 1 (pre ++ Int (wrap lo hi (hi + 1)) :: post) = None.
Proof. exact narrow_subs_rejected. Qed.
Print Assumptions C16_narrow_subs_rejected.

(* THE CLAIM for the current code: the REPAIRED export writes s + b computed in Z (`str(int(s) + 1)`): subscripts of any integer type, the type's largest
   value hi included (uint8 255 -> "256"), are read back by the sparse import with the same base. (The whole object:
   C16_roundtrip_sptensor_long in Props/C16.v, for every shape in Z.) *)
Theorem C16_narrow_subs_roundtrip : forall (T : Type) (b hi : Z) (i : list Z),
  Forall (fun s => (0 <= s <= hi)%Z) i -> zsubs_of T b (map (fun s => Int (s + b)%Z) i) = Some i.
Proof. exact narrow_subs_roundtrip. Qed.
Print Assumptions C16_narrow_subs_roundtrip.
