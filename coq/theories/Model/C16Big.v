(* Model/C16Big.v — sparse tensors with subscripts and mode sizes in Z (binary), line-sensitive.
   The object model of Model/C16IO.v keeps subscripts in nat (shared Sparse model); a sparse tensor may have modes far longer
   than anything a unary number can hold (only the stored entries take memory: shape (2^60, 3) is a legal sptensor), and
   export_data / import_data must carry such subscripts exactly (np.int64 texts, no detour through a double).
   [export_spz_lines] / [import_spz_stream] are export_sparse_size + export_sparse_array and the sptensor branch of
   import_data over Z; Proofs/C16Big.v proves the round trip for all Z shapes and the bridge to the nat model.
   Definitions only. *)
From Coq Require Import String.
From Coq Require Import List Arith ZArith Lia Bool.
From PV Require Import Base.Index Np.Array Model.Sparse Model.Repr Model.C16IO Model.C16Lines.
Import ListNotations.

Section B.
Variables (D T : Type) (print : D -> T) (parse : T -> D) (ofZ : Z -> D).
Notation token := (token T).
Notation line := (list token).

Record spz := mkSpz { zshape : list Z; zsubs : list (list Z); zvals : list D }.

(* ---- export ---- *)
Definition zentry_line (b : Z) (e : list Z * D) : line :=
  map (fun x => Int (x + b)%Z) (fst e) ++ [Num (print (snd e))].
Definition export_spz_lines (b : Z) (S : spz) : list line :=
  [Word "sptensor"%string] :: [[Int (Z.of_nat (length (zshape S)))]; map (@Int T) (zshape S)]
    ++ [Int (Z.of_nat (length (zsubs S)))] :: map (zentry_line b) (combine (zsubs S) (zvals S)).

(* ---- import (sptensor branch of import_data) ---- *)
Notation "x <- e ;; k" := (bindo e (fun x => k)) (at level 61, e at next level, right associativity).

Definition zsub_of (b : Z) (t : token) : option Z :=
  match t with Int z => if (0 <=? z - b)%Z then Some (z - b)%Z else None | _ => None end.
Fixpoint zsubs_of (b : Z) (l : line) : option (list Z) :=
  match l with
  | [] => Some []
  | t :: r => match zsub_of b t, zsubs_of b r with Some x, Some xs => Some (x :: xs) | _, _ => None end
  end.
Definition zentry_of_line (b : Z) (N : nat) (l : line) : option (list Z * D) :=
  match rev l with
  | [] => None
  | tv :: rsubs =>
      v <- val_tok D T parse ofZ tv ;; i <- zsubs_of b (rev rsubs) ;;
      if Nat.eqb (length i) N then Some (i, v)
      else match i with [x] => Some (repeat x N, v) | _ => None end
  end.
Fixpoint rd_zentries (b : Z) (N nz : nat) (s : stream T) : option (list (list Z * D)) :=
  match nz with
  | O => Some []
  | S nz' =>
      let p := readline T s in
      e <- zentry_of_line b N (fst p) ;; q <- rd_zentries b N nz' (snd p) ;; Some (e :: q)
  end.
(* the sptensor constructor: every subscript inside the shape *)
Fixpoint inbz (s i : list Z) : bool :=
  match s, i with
  | [], [] => true
  | d :: s', x :: i' => (0 <=? x)%Z && (x <? d)%Z && inbz s' i'
  | _, _ => false
  end.

Definition import_spz_stream (b : Z) (s : stream T) : option spz :=
  let p0 := readline T s in
  match fst p0 with
  | Word w :: _ =>
      if String.eqb w "sptensor"%string then
        sh <- rd_shape_z T (snd p0) ;;
        if forallb (fun z => (0 <=? z)%Z) (fst sh) then
          let pn := readline T (snd sh) in
          zn <- head_int T (fst pn) ;; nz <- nat_of zn ;;
          es <- rd_zentries b (length (fst sh)) nz (snd pn) ;;
          if Nat.eqb (length (fst sh)) 0 && negb (Nat.eqb nz 0) then None else
          if forallb (inbz (fst sh)) (map fst es) then Some (mkSpz (fst sh) (map fst es) (map snd es)) else None
        else None
      else None
  | _ => None
  end.
Definition import_spz_lines (b : Z) (f : list line) : option spz := import_spz_stream b (to_stream T f).

(* the nat object seen in Z *)
Definition spz_of (Sp : sparse D) : spz :=
  mkSpz (map Z.of_nat (sshape Sp)) (map (map Z.of_nat) (ssubs Sp)) (svals Sp).

Definition wf_spz (S : spz) : Prop :=
  (zshape S = [] -> zsubs S = []) /\ Forall (fun d => (0 <= d)%Z) (zshape S) /\ length (zsubs S) = length (zvals S) /\
  Forall (fun i => inbz (zshape S) i = true) (zsubs S).
End B.

Arguments mkSpz {D} _ _ _.
Arguments zshape {D} _.
Arguments zsubs {D} _.
Arguments zvals {D} _.
