(* Proofs/C02ModesProofs.v — mode designation tied to the GENERATED tt_dimscheck (Gen/GenUtils.v):
   for every admissible request (dims in any order / exclude_dims / neither, multiplicand list of length |dims| or N) the
   multiplicand handed to the kernel for the k-th sorted mode is the one the caller attached to that mode, and tensor.ttv /
   tensor.ttm resolved this way equal spec_ttv / spec_ttm_list over the caller's (mode -> multiplicand) association. *)
From Coq Require Import List ZArith Arith Bool Lia Permutation Sorted Ring.
From PV Require Import Base.Index Base.Perm Base.Sum Np.NpZ Np.Array Model.Sparse Model.Repr Model.C02Spec Model.C02Dense
                       Model.C02Modes Gen.GenUtils Proofs.NpZProofs Proofs.UtilsProofs Proofs.C02DenseProofs.
Import ListNotations.

(* ---------------------------------------------------------------- admissible requests *)
Definition admissible (N : Z) (dims excl : option vec) (M : Z) : Prop :=
  match dims, excl with
  | Some d, None => (forall x, In x d -> (0 <= x < N)%Z) /\ NoDup d
  | None, Some e => forall x, In x e -> (0 <= x < N)%Z
  | None, None => True
  | Some _, Some _ => False
  end /\ (0 <= N)%Z /\ (M = N \/ M = zlen (req_modes N dims excl)).

Lemma znth_nonneg {A} (dflt : A) (l : list A) x : (0 <= x)%Z -> znth dflt l x = nth (Z.to_nat x) l dflt.
Proof.
  intros H. unfold znth. destruct (Z.ltb_spec x 0); [lia|]. destruct (Z.ltb_spec x 0); [lia|]. reflexivity.
Qed.

Lemma nats_NoDup d : (forall x, In x d -> (0 <= x)%Z) -> NoDup d -> NoDup (nats d).
Proof.
  intros Hp Hn. unfold nats. apply NoDup_map_inj; auto.
  intros a b Ha Hb E. apply Hp in Ha, Hb. lia.
Qed.

Lemma nth_nats d j : nth j (nats d) 0 = Z.to_nat (nth j d 0%Z).
Proof. unfold nats. change 0 with (Z.to_nat 0%Z) at 1. apply map_nth. Qed.

Lemma range_length N d : (0 <= N)%Z -> (forall x, In x d -> (0 <= x < N)%Z) -> NoDup d -> (zlen d <= N)%Z.
Proof.
  intros HN Hr Hn. unfold zlen.
  assert (L : length d <= length (np_arange 0 N)).
  { apply NoDup_incl_length; auto. intros x Hx. apply in_np_arange. auto. }
  unfold np_arange in L. rewrite map_length, seq_length in L. lia.
Qed.

Lemma arange_length N : (0 <= N)%Z -> zlen (np_arange 0 N) = N.
Proof. intros H. unfold zlen, np_arange. rewrite map_length, seq_length. lia. Qed.

(* the multiplicand positions returned for the sorted modes select, for the k-th sorted mode, the caller's multiplicand *)
Lemma align_vidx {A} (dflt : A) N (d : vec) (ms : list A) vidx :
  (forall x, In x d -> (0 <= x)%Z) -> NoDup d ->
  vidx_of N (Some (zlen ms)) d = Some vidx ->
  map (znth dflt ms) vidx = map (attach dflt d ms) (nats (np_sort d)).
Proof.
  intros Hp Hn Hv. unfold vidx_of in Hv. unfold attach.
  destruct (Z.eqb_spec (zlen d) (zlen ms)) as [E|E]; inversion Hv; subst vidx; clear Hv.
  - assert (EL : length ms = length d) by (unfold zlen in E; lia).
    rewrite EL, Nat.eqb_refl.
    rewrite <- take_argsort. unfold np_take, nats. rewrite !map_map.
    apply map_ext_in. intros k Hk.
    apply (Permutation_in _ (np_argsort_perm d)) in Hk. apply in_map_iff in Hk as (j & <- & Hj).
    apply in_seq in Hj. rewrite !znth_nat.
    rewrite <- nth_nats. rewrite index_of_nth; auto.
    + now apply nats_NoDup.
    + unfold nats. rewrite map_length. lia.
  - assert (EL : Nat.eqb (length ms) (length d) = false).
    { apply Nat.eqb_neq. intros X. apply E. unfold zlen. lia. }
    rewrite EL. unfold nats. rewrite map_map. apply map_ext_in. intros x Hx.
    apply znth_nonneg. apply Hp. apply (Permutation_in _ (np_sort_perm d)). exact Hx.
Qed.

(* C02_dimscheck_align: the generated helper returns the sorted designated modes and positions aligned with the caller's association *)
Theorem dimscheck_align {A} (dflt : A) N dims excl (ms : list A) :
  admissible N dims excl (zlen ms) ->
  let d := req_modes N dims excl in
  exists vidx, tt_dimscheck N (Some (zlen ms)) dims excl = Ok (np_sort d, Some vidx) /\
    map (znth dflt ms) vidx = map (attach dflt d ms) (nats (np_sort d)) /\
    (forall x, In x d -> (0 <= x < N)%Z) /\ NoDup d.
Proof.
  intros (Hreq & HN & HM). cbn zeta.
  destruct dims as [d|], excl as [e|]; cbn [req_modes] in *; try contradiction.
  - destruct Hreq as [Hr Hn].
    assert (Hv : exists vidx, vidx_of N (Some (zlen ms)) d = Some vidx).
    { unfold vidx_of. destruct (zlen d =? zlen ms)%Z; eauto. }
    destruct Hv as [vidx Hv]. exists vidx. rewrite dimscheck_dims.
    + rewrite Hv. repeat split; auto; try (apply Hr; auto).
      apply (align_vidx dflt N); auto. intros x Hx. apply Hr in Hx. lia.
    + repeat split; auto; try (apply Hr; auto).
      destruct HM as [-> | ->]; [lia|]. now apply range_length.
  - fold (complement N e) in *.
    assert (Hr : forall x, In x (complement N e) -> (0 <= x < N)%Z) by apply complement_range.
    assert (Hn : NoDup (complement N e)) by (apply strict_sorted_nodup, complement_sorted).
    assert (Hv : exists vidx, vidx_of N (Some (zlen ms)) (complement N e) = Some vidx).
    { unfold vidx_of. destruct (zlen (complement N e) =? zlen ms)%Z; eauto. }
    destruct Hv as [vidx Hv]. exists vidx. rewrite dimscheck_exclude; auto.
    + rewrite Hv. rewrite np_sort_id by (apply sorted_lt_le, complement_sorted).
      repeat split; auto; try (apply Hr; auto).
      rewrite <- (np_sort_id (complement N e)) at 2 by (apply sorted_lt_le, complement_sorted).
      apply (align_vidx dflt N); auto. intros x Hx. apply Hr in Hx. lia.
    + split; [|destruct HM; auto]. destruct HM as [-> | ->]; [lia|]. now apply range_length.
  - assert (Hr : forall x, In x (np_arange 0 N) -> (0 <= x < N)%Z) by (intros x; apply in_np_arange).
    assert (Hn : NoDup (np_arange 0 N)) by (apply strict_sorted_nodup, np_arange_sorted).
    assert (EM : zlen ms = N) by (destruct HM as [-> | ->]; [reflexivity|now apply arange_length]).
    exists (np_arange 0 N). rewrite dimscheck_default by auto.
    rewrite np_sort_id by (apply sorted_lt_le, np_arange_sorted). cbn [option_map].
    repeat split; auto; try (apply Hr; auto).
    rewrite <- (np_sort_id (np_arange 0 N)) at 3 by (apply sorted_lt_le, np_arange_sorted).
    apply (align_vidx dflt N); auto.
    + intros x Hx. apply Hr in Hx. lia.
    + unfold vidx_of. rewrite arange_length, EM, Z.eqb_refl by auto. f_equal.
      rewrite argsort_sorted_id by apply np_arange_sorted.
      unfold np_arange. rewrite map_length, seq_length. replace (N - 0)%Z with N by lia.
      apply map_ext. intros; lia.
Qed.

(* ---------------------------------------------------------------- complement of a mode set *)
Lemma filter_split {A} (f : A -> bool) (l : list A) : Permutation l (filter (fun x => negb (f x)) l ++ filter f l).
Proof.
  induction l as [|a l IH]; [constructor|]. cbn [filter]. destruct (f a); cbn [negb].
  - apply Permutation_cons_app. exact IH.
  - cbn [app]. now constructor.
Qed.

Lemma compl_perm N (l : list nat) : NoDup l -> (forall x, In x l -> x < N) -> is_perm (compl N l ++ l) N.
Proof.
  intros Hn Hr. unfold is_perm, compl.
  rewrite (filter_split (fun m => existsb (Nat.eqb m) l) (seq 0 N)) at 2.
  apply Permutation_app_head. apply NoDup_Permutation; auto.
  - apply NoDup_filter, seq_NoDup.
  - intros x. rewrite filter_In, in_seq, existsb_exists. split.
    + intros Hx. split; [specialize (Hr x Hx); lia|]. exists x. split; auto. apply Nat.eqb_refl.
    + intros (_ & y & Hy & E). apply Nat.eqb_eq in E. now subst.
Qed.

Lemma nats_range N d x : (forall z, In z d -> (0 <= z < Z.of_nat N)%Z) -> In x (nats d) -> x < N.
Proof. intros H Hx. unfold nats in Hx. apply in_map_iff in Hx as (z & <- & Hz). apply H in Hz. lia. Qed.

Lemma sort_range (P : Z -> Prop) d : (forall x, In x d -> P x) -> forall x, In x (np_sort d) -> P x.
Proof. intros H x Hx. apply H. apply (Permutation_in _ (np_sort_perm d)). exact Hx. Qed.

Section P.
Variable V : Type.
Variables (v0 v1 : V) (vadd vmul vsub : V -> V -> V) (vopp : V -> V).
Hypothesis Vring : ring_theory v0 v1 vadd vmul vsub vopp (@eq V).
Add Ring Vr4 : Vring.
Local Notation den := (den_dense v0).

(* ---------------------------------------------------------------- tensor.ttv with the generated helper *)
Theorem impl_ttv_req_correct (X : dense V) dims excl (vs : list (list V)) :
  wf_dense X -> admissible (Z.of_nat (length (dshape X))) dims excl (zlen vs) ->
  let d := req_modes (Z.of_nat (length (dshape X))) dims excl in
  let sd := nats (np_sort d) in
  exists Y, impl_ttv_req v0 vadd vmul X dims excl vs = Ok Y /\
    dshape Y = ttv_shape (dshape X) sd /\ wf_dense Y /\
    forall i', inb (ttv_shape (dshape X) sd) i' = true ->
      den Y i' = spec_ttv v0 vadd vmul (den X) (dshape X) sd (map (attach [] d vs) sd) i'.
Proof.
  intros W Hadm. cbn zeta.
  destruct (dimscheck_align (@nil V) _ dims excl vs Hadm) as (vidx & E & Hal & Hr & Hn).
  unfold impl_ttv_req. rewrite E. eexists. split; [reflexivity|].
  rewrite Hal.
  apply (impl_ttv_dense_correct V v0 vadd vmul); auto.
  - now rewrite map_length.
  - apply compl_perm.
    + apply nats_NoDup.
      * apply (sort_range (fun x => (0 <= x)%Z)). intros x Hx. apply Hr in Hx. lia.
      * apply (Permutation_NoDup (Permutation_sym (np_sort_perm _))). exact Hn.
    + intros x Hx. apply (nats_range _ (np_sort (req_modes (Z.of_nat (length (dshape X))) dims excl))); auto.
      apply sort_range. exact Hr.
Qed.

(* ---------------------------------------------------------------- tensor.ttm, list form, by induction over the sorted modes *)
Lemma spec_ttm_ext (f g : idx -> V) s n U tr i : n < length s -> length i = length s ->
  (forall j, inb s j = true -> f j = g j) ->
  inb (remove_at n s) (remove_at n i) = true ->
  spec_ttm v0 vadd vmul f s n U tr i = spec_ttm v0 vadd vmul g s n U tr i.
Proof.
  intros Hn HL H Hi. unfold spec_ttm. apply sum_n_ext. intros k Hk. f_equal. apply H.
  rewrite (inb_split s n) by (rewrite ?upd_length; auto).
  rewrite nth_upd_same by (rewrite HL; exact Hn). rewrite remove_at_upd, Hi.
  apply Nat.ltb_lt in Hk. now rewrite Hk.
Qed.

Lemma spec_ttm_list_ext nUs : forall (f g : idx -> V) s tr i,
  Forall (fun p => fst p < length s) nUs ->
  (forall j, inb s j = true -> f j = g j) ->
  inb (ttm_list_shape s nUs) i = true ->
  spec_ttm_list v0 vadd vmul f s nUs tr i = spec_ttm_list v0 vadd vmul g s nUs tr i.
Proof.
  induction nUs as [|[n [J U]] r IH]; intros f g s tr i HF H Hi; cbn [spec_ttm_list ttm_list_shape] in *.
  - now apply H.
  - inversion HF as [|? ? Hn HF']; subst. cbn [fst] in Hn.
    apply IH; auto.
    + rewrite upd_length. exact HF'.
    + intros j Hj. pose proof (inb_length _ _ Hj) as HLj. rewrite upd_length in HLj.
      apply spec_ttm_ext; auto.
      rewrite (inb_split (upd s n J) n j) in Hj by (rewrite ?upd_length; auto).
      rewrite remove_at_upd in Hj. apply andb_true_iff in Hj. tauto.
Qed.

Lemma ttm_seq_correct nUs : forall (X : dense V) tr, wf_dense X ->
  Forall (fun p => fst p < length (dshape X)) nUs ->
  let Y := ttm_seq v0 vadd vmul X nUs tr in
  dshape Y = ttm_list_shape (dshape X) nUs /\ wf_dense Y /\
  forall i, inb (ttm_list_shape (dshape X) nUs) i = true ->
    den Y i = spec_ttm_list v0 vadd vmul (den X) (dshape X) nUs tr i.
Proof.
  induction nUs as [|[n [J U]] r IH]; intros X tr W HF; cbn [ttm_seq spec_ttm_list ttm_list_shape].
  - cbn zeta. auto.
  - inversion HF as [|? ? Hn HF']; subst. cbn [fst] in Hn.
    destruct (impl_ttm_dense_correct V v0 vadd vmul X n U J tr W Hn) as (S1 & W1 & D1).
    specialize (IH (impl_ttm_dense v0 vadd vmul X n U J tr) tr W1).
    rewrite S1 in IH. rewrite upd_length in IH. specialize (IH HF'). cbn zeta in IH.
    destruct IH as (S2 & W2 & D2). cbn zeta. repeat split; auto.
    intros i Hi. rewrite D2 by auto.
    apply spec_ttm_list_ext; auto. rewrite upd_length. exact HF'.
Qed.

Theorem impl_ttm_req_correct (X : dense V) dims excl (ms : list (nat * @matrix V)) tr :
  wf_dense X -> admissible (Z.of_nat (length (dshape X))) dims excl (zlen ms) ->
  let d := req_modes (Z.of_nat (length (dshape X))) dims excl in
  let sd := nats (np_sort d) in
  let nUs := combine sd (map (attach (@ttm_dflt V) d ms) sd) in
  d <> [] ->
  exists Y, impl_ttm_req v0 vadd vmul X dims excl ms tr = Ok Y /\
    dshape Y = ttm_list_shape (dshape X) nUs /\ wf_dense Y /\
    forall i, inb (ttm_list_shape (dshape X) nUs) i = true ->
      den Y i = spec_ttm_list v0 vadd vmul (den X) (dshape X) nUs tr i.
Proof.
  intros W Hadm. cbn zeta. intros Hne.
  destruct (dimscheck_align (@ttm_dflt V) _ dims excl ms Hadm) as (vidx & E & Hal & Hr & Hn).
  unfold impl_ttm_req. rewrite E.
  assert (Hrs : forall x, In x (nats (np_sort (req_modes (Z.of_nat (length (dshape X))) dims excl))) -> x < length (dshape X)).
  { intros x Hx. apply (nats_range _ (np_sort (req_modes (Z.of_nat (length (dshape X))) dims excl))); auto.
    apply sort_range. exact Hr. }
  destruct (np_sort (req_modes (Z.of_nat (length (dshape X))) dims excl)) as [|x0 sd0] eqn:Esd.
  { exfalso. apply Hne. pose proof (np_sort_perm (req_modes (Z.of_nat (length (dshape X))) dims excl)) as P.
    rewrite Esd in P. now apply Permutation_nil in P. }
  eexists. split; [reflexivity|]. rewrite Hal.
  apply ttm_seq_correct; auto.
  apply Forall_forall. intros [n JU] Hin. apply in_combine_l in Hin. cbn [fst]. now apply Hrs.
Qed.

End P.
