(* Proofs/C02AbsorbGen.v — "Kruskal operand with its weights applied", stated over the translator-GENERATED get_mttkrp_factors
   (Gen/GenUtils3.v, regenerated from /repo/pyttb/pyttb_utils.py on every run) instead of the hand model get_mttkrp_factors_k:
   for a well-formed Kruskal operand the generated function ACCEPTS, the factor list it returns IS the hand model's list, and the
   defining sum of MTTKRP over that list with unit weights is the defining sum with the operand's weights (integer instance of the
   ring-generic spec_mttkrp_absorb).  An edit of get_mttkrp_factors in /repo changes Gen/GenUtils3.v and breaks the bridge
   (Proofs/W3Bridge.v) this file rests on. *)
From Coq Require Import List Arith ZArith Lia Bool Ring.
From PV Require Import Base.Index Base.Perm Base.Sum Np.Array Model.Sparse Model.Repr Model.C02Spec Model.C02Dense Model.C02Absorb
                       Proofs.C02DenseProofs Proofs.C02MttkrpProofs Proofs.C02AbsorbProofs
                       Model.C02Kruskal Model.C02SpKernels Model.C02Tucker Proofs.C02SpKernelsProofs Proofs.C02KruskalProofs Proofs.C02TuckerMttkrpProofs.
From PV Require Np.NpZ Np.NpZ2 Np.NpZ3 Gen.GenUtils3 Model.W3Utils Proofs.W3Bridge Proofs.W3Laws.
Import ListNotations.

(* the two list updates (Np/NpZ.v, Model/Sparse.v) and the two row products (Np/NpZ2.v zmap2, Model/C02Dense.v zipmul) coincide *)
Lemma npz_upd_eq {A} (l : list A) : forall k v, NpZ.upd l k v = Sparse.upd l k v.
Proof. reflexivity. Qed.   (* the two fixpoints have the same body *)

Lemma zmap2_zipmul (a : list Z) : forall b, NpZ2.zmap2 Z.mul a b = zipmul Z.mul a b.
Proof. induction a as [|x a IH]; intros [|y b]; cbn; try reflexivity. f_equal. apply IH. Qed.

Lemma w3_scale_cols_eq (w : list Z) (A : list (list Z)) : W3Laws.scale_cols w A = scale_cols Z.mul w A.
Proof. unfold W3Laws.scale_cols, scale_cols. apply map_ext. intros row. apply zmap2_zipmul. Qed.

Lemma absorb_mode_nat (n : nat) : W3Utils.absorb_mode (Z.of_nat n) = Z.of_nat (absorb_mode n).
Proof. unfold W3Utils.absorb_mode, absorb_mode. destruct n as [|n]; [reflexivity|]. destruct (Z.eqb_spec (Z.of_nat (S n)) 0); [lia|reflexivity]. Qed.

Lemma in_firstn_l {A} (x : A) : forall n l, In x (firstn n l) -> In x l.
Proof. induction n as [|n IH]; intros [|y l] H; cbn in *; try contradiction. destruct H as [H|H]; auto. Qed.
Lemma in_skipn_l {A} (x : A) : forall n l, In x (skipn n l) -> In x l.
Proof. induction n as [|n IH]; intros [|y l] H; cbn in *; try contradiction; auto. Qed.

Definition kt_wf (k : NpZ3.ktz) : Prop :=
  Forall (fun F : list (list Z) => F <> [] /\ wf_cols Z (length (NpZ3.kt_weights k)) F) (NpZ3.kt_factors k).

Lemma kt_wf_w3 k : kt_wf k ->
  forall F, In F (NpZ3.kt_factors k) -> F <> [] /\ forall row, In row F -> NpZ.zlen row = NpZ.zlen (NpZ3.kt_weights k).
Proof.
  intros H F HF. unfold kt_wf in H. rewrite Forall_forall in H. destruct (H F HF) as [Hne Hw]. split; [exact Hne|].
  intros row Hr. unfold wf_cols in Hw. rewrite Forall_forall in Hw. unfold NpZ.zlen. now rewrite (Hw row Hr).
Qed.

(* the generated function accepts a well-formed Kruskal operand and returns the hand model's factor list *)
Theorem get_mttkrp_factors_gen_is_model (k : NpZ3.ktz) (n : nat) :
  kt_wf k -> 2 <= length (NpZ3.kt_factors k) -> n < length (NpZ3.kt_factors k) ->
  GenUtils3.get_mttkrp_factors (NpZ3.UKt k) (Z.of_nat n) (NpZ.zlen (NpZ3.kt_factors k))
    = NpZ.Ok (get_mttkrp_factors_k Z.mul (NpZ3.kt_weights k) (NpZ3.kt_factors k) n).
Proof.
  intros Hwf HN Hn.
  destruct (W3Laws.mttkrp_factors_kt k (Z.of_nat n) (kt_wf_w3 k Hwf)) as (fs & E & Hlen & Hself & Hother & _).
  { unfold NpZ.zlen. lia. } { unfold NpZ.zlen. lia. }
  rewrite E.
  cut (fs = get_mttkrp_factors_k Z.mul (NpZ3.kt_weights k) (NpZ3.kt_factors k) n); [intros ->; reflexivity|].
  assert (Hl : length fs = length (NpZ3.kt_factors k)) by (unfold NpZ.zlen in Hlen; lia).
  assert (Ha : absorb_mode n < length (NpZ3.kt_factors k)) by (unfold absorb_mode; destruct (Nat.eqb n 0); lia).
  apply (nth_ext _ _ [] []).
  - unfold get_mttkrp_factors_k. now rewrite Sparse.upd_length.
  - intros m Hm. unfold get_mttkrp_factors_k.
    destruct (Nat.eq_dec m (absorb_mode n)) as [->|Hne].
    + rewrite (Sparse.nth_upd _ _ _ _ _ Ha). rewrite Nat.eqb_refl.
      specialize Hself. rewrite absorb_mode_nat in Hself. rewrite !W3Laws.znth_nonneg in Hself by lia.
      rewrite !Nat2Z.id in Hself. rewrite Hself. apply w3_scale_cols_eq.
    + rewrite (Sparse.nth_upd _ _ _ _ _ Ha). destruct (Nat.eqb_spec m (absorb_mode n)) as [Em|_]; [contradiction|].
      specialize (Hother (Z.of_nat m)). rewrite absorb_mode_nat in Hother. rewrite !W3Laws.znth_nonneg in Hother by lia.
      rewrite !Nat2Z.id in Hother. apply Hother; [unfold NpZ.zlen, NpZ.mat, NpZ.vec, matrix in *; lia|lia].
Qed.

(* "with its weights applied": whatever list the GENERATED get_mttkrp_factors hands to the kernels, the defining sum over it with
   unit weights is the defining sum with the operand's weights — for the data in every representation (f is the denoted array) *)
Theorem spec_mttkrp_absorb_gen (f : idx -> Z) s (k : NpZ3.ktz) (n : nat) fs x r :
  kt_wf k -> 2 <= length (NpZ3.kt_factors k) -> n < length (NpZ3.kt_factors k) -> length s = length (NpZ3.kt_factors k) ->
  r < length (NpZ3.kt_weights k) ->
  GenUtils3.get_mttkrp_factors (NpZ3.UKt k) (Z.of_nat n) (NpZ.zlen (NpZ3.kt_factors k)) = NpZ.Ok fs ->
  spec_mttkrp 0%Z 1%Z Z.add Z.mul f s n (repeat 1%Z (length (NpZ3.kt_weights k))) fs x r =
  spec_mttkrp 0%Z 1%Z Z.add Z.mul f s n (NpZ3.kt_weights k) (NpZ3.kt_factors k) x r.
Proof.
  intros Hwf HN Hn Hs Hr E. rewrite (get_mttkrp_factors_gen_is_model k n Hwf HN Hn) in E. injection E as <-.
  apply (spec_mttkrp_absorb Z 0%Z 1%Z Z.add Z.mul Z.sub Z.opp InitialRing.Zth); auto.
  unfold kt_wf in Hwf. rewrite Forall_forall in Hwf. apply Forall_forall. intros F HF. apply Hwf.
  unfold remove_at in HF. apply in_app_or in HF. destruct HF as [HF|HF]; [eapply in_firstn_l|eapply in_skipn_l]; eauto.
Qed.

(* ---------------------------------------------------------------- tensor.mttkrp AS CALLED with a Kruskal operand
   U = get_mttkrp_factors(U, n, self.ndims)  (GENERATED), then the three branches of tensor.mttkrp on the returned list:
   the result is the defining sum with the operand's weights applied. *)
Lemma wf_cols_scale R (lam : list Z) (A : list (list Z)) : wf_cols Z R A -> length lam = R -> wf_cols Z R (scale_cols Z.mul lam A).
Proof.
  unfold wf_cols, scale_cols. intros H Hl. apply Forall_forall. intros row Hr. apply in_map_iff in Hr. destruct Hr as (r0 & <- & Hr0).
  rewrite Forall_forall in H. apply (zipmul_length Z Z.mul); auto.
Qed.

Theorem mttkrp_dense_kruskal_gen (X : dense Z) (k : NpZ3.ktz) (n : nat) fs :
  wf_dense X -> 2 <= length (dshape X) -> n < length (dshape X) ->
  kt_wf k -> map (@length _) (NpZ3.kt_factors k) = dshape X ->
  GenUtils3.get_mttkrp_factors (NpZ3.UKt k) (Z.of_nat n) (NpZ.zlen (dshape X)) = NpZ.Ok fs ->
  let R := length (NpZ3.kt_weights k) in
  let Y := impl_mttkrp_dense 0%Z Z.add Z.mul X fs n R in
  dshape Y = [nth n (dshape X) 0; R] /\ wf_dense Y /\
  forall x r, x < nth n (dshape X) 0 -> r < R ->
    den_dense 0%Z Y [x; r] =
    spec_mttkrp 0%Z 1%Z Z.add Z.mul (den_dense 0%Z X) (dshape X) n (NpZ3.kt_weights k) (NpZ3.kt_factors k) x r.
Proof.
  intros WX HN Hn Hwf Hrows E R Y.
  assert (HL : length (NpZ3.kt_factors k) = length (dshape X)) by (rewrite <- Hrows; now rewrite map_length).
  assert (E' := E). unfold NpZ.zlen in E'. rewrite <- HL in E'. change (Z.of_nat (length (NpZ3.kt_factors k))) with (NpZ.zlen (NpZ3.kt_factors k)) in E'.
  rewrite (get_mttkrp_factors_gen_is_model k n Hwf) in E' by (rewrite HL; assumption). injection E' as <-.
  set (Us := NpZ3.kt_factors k) in *. set (lam := NpZ3.kt_weights k) in *.
  assert (HN' : 2 <= length Us) by (rewrite HL; exact HN). assert (Hn' : n < length Us) by (rewrite HL; exact Hn).
  destruct (remove_at_absorb Z Z.mul lam Us n HN' Hn') as (U0 & rest & E1 & E2).
  assert (HWall : Forall (wf_cols Z R) (U0 :: rest)).
  { rewrite <- E1. unfold kt_wf in Hwf. rewrite Forall_forall in Hwf. apply Forall_forall. intros F HF. apply Hwf.
    unfold remove_at in HF. apply in_app_or in HF. destruct HF as [HF|HF]; [eapply in_firstn_l|eapply in_skipn_l]; eauto. }
  assert (HW' : Forall (wf_cols Z R) (remove_at n (get_mttkrp_factors_k Z.mul lam Us n))).
  { rewrite E2. inversion HWall as [|? ? W0 Wr]; subst. constructor; [apply wf_cols_scale; auto|exact Wr]. }
  assert (Hrows' : map (@length _) (remove_at n (get_mttkrp_factors_k Z.mul lam Us n)) = remove_at n (dshape X)).
  { rewrite E2. cbn [map]. unfold scale_cols at 1. rewrite map_length.
    change (length U0 :: map (@length _) rest) with (map (@length _) (U0 :: rest)). rewrite <- E1.
    rewrite <- Hrows. unfold remove_at. now rewrite map_app, firstn_map, skipn_map. }
  assert (HL' : length (get_mttkrp_factors_k Z.mul lam Us n) = length (dshape X)).
  { unfold get_mttkrp_factors_k. rewrite Sparse.upd_length. exact HL. }
  destruct (impl_mttkrp_dense_correct Z 0%Z 1%Z Z.add Z.mul Z.sub Z.opp InitialRing.Zth X _ R n WX HN Hn HL' HW' Hrows') as (Hs & HWY & Hval).
  split; [exact Hs|]. split; [exact HWY|]. intros x r Hx Hr. etransitivity; [exact (Hval x r Hx Hr)|].
  apply (spec_mttkrp_absorb Z 0%Z 1%Z Z.add Z.mul Z.sub Z.opp InitialRing.Zth); auto.
  rewrite E1. exact HWall.
Qed.

(* facts about the list the generated function returns, for the other holders *)
Lemma absorb_model_facts (k : NpZ3.ktz) (n : nat) :
  kt_wf k -> 2 <= length (NpZ3.kt_factors k) -> n < length (NpZ3.kt_factors k) ->
  let R := length (NpZ3.kt_weights k) in
  let fs := get_mttkrp_factors_k Z.mul (NpZ3.kt_weights k) (NpZ3.kt_factors k) n in
  length fs = length (NpZ3.kt_factors k) /\
  Forall (wf_cols Z R) (remove_at n (NpZ3.kt_factors k)) /\
  map (@length _) (remove_at n fs) = map (@length _) (remove_at n (NpZ3.kt_factors k)).
Proof.
  intros Hwf HN Hn R fs.
  set (Us := NpZ3.kt_factors k) in *. set (lam := NpZ3.kt_weights k) in *.
  destruct (remove_at_absorb Z Z.mul lam Us n HN Hn) as (U0 & rest & E1 & E2).
  split; [unfold fs, get_mttkrp_factors_k; apply Sparse.upd_length|]. split.
  - unfold kt_wf in Hwf. rewrite Forall_forall in Hwf. apply Forall_forall. intros F HF. apply Hwf.
    unfold remove_at in HF. apply in_app_or in HF. destruct HF as [HF|HF]; [eapply in_firstn_l|eapply in_skipn_l]; eauto.
  - unfold fs. unfold matrix, NpZ.mat, NpZ.vec in *. rewrite E2, E1. cbn [map]. unfold scale_cols at 1. now rewrite map_length.
Qed.

Section Holders.
Let Zr := InitialRing.Zth.

(* sptensor.mttkrp AS CALLED with a Kruskal operand (coordinate-list kernel on the list the GENERATED get_mttkrp_factors returns) *)
Theorem mttkrp_sparse_kruskal_gen (isz : Z -> bool) (S : sparse Z) (k : NpZ3.ktz) (n : nat) fs x r :
  wf_sp isz S -> 2 <= length (sshape S) -> n < length (sshape S) -> length (NpZ3.kt_factors k) = length (sshape S) ->
  kt_wf k -> x < nth n (sshape S) 0 -> r < length (NpZ3.kt_weights k) ->
  GenUtils3.get_mttkrp_factors (NpZ3.UKt k) (Z.of_nat n) (NpZ.zlen (NpZ3.kt_factors k)) = NpZ.Ok fs ->
  impl_mttkrp_sp 0%Z 1%Z Z.add Z.mul S fs n x r =
  spec_mttkrp 0%Z 1%Z Z.add Z.mul (den_sp 0%Z S) (sshape S) n (NpZ3.kt_weights k) (NpZ3.kt_factors k) x r.
Proof.
  intros WS HN Hn HL Hwf Hx Hr E.
  rewrite (impl_mttkrp_sp_correct Z 0%Z 1%Z Z.add Z.mul Z.sub Z.opp Zr isz S fs n (length (NpZ3.kt_weights k)) x r WS Hn Hx Hr).
  apply (spec_mttkrp_absorb_gen (den_sp 0%Z S) (sshape S) k n fs x r Hwf); auto; rewrite HL; assumption.
Qed.

(* ktensor.mttkrp AS CALLED with a Kruskal operand *)
Theorem mttkrp_k_kruskal_gen (K : ktensor Z) (k : NpZ3.ktz) (n : nat) fs x r :
  2 <= length (kfactors K) -> n < length (kfactors K) -> map (@length _) (NpZ3.kt_factors k) = kshape K ->
  kt_wf k -> x < nth n (kshape K) 0 -> r < length (NpZ3.kt_weights k) ->
  GenUtils3.get_mttkrp_factors (NpZ3.UKt k) (Z.of_nat n) (NpZ.zlen (NpZ3.kt_factors k)) = NpZ.Ok fs ->
  impl_mttkrp_k 0%Z Z.add Z.mul K fs n x r =
  spec_mttkrp 0%Z 1%Z Z.add Z.mul (den_k 0%Z 1%Z Z.add Z.mul K) (kshape K) n (NpZ3.kt_weights k) (NpZ3.kt_factors k) x r.
Proof.
  intros HN Hn Hrows Hwf Hx Hr E.
  assert (HL : length (NpZ3.kt_factors k) = length (kfactors K)).
  { transitivity (length (kshape K)); [rewrite <- Hrows; symmetry; apply map_length|unfold kshape; apply map_length]. }
  assert (HN' : 2 <= length (NpZ3.kt_factors k)) by (rewrite HL; exact HN).
  assert (Hn' : n < length (NpZ3.kt_factors k)) by (rewrite HL; exact Hn).
  assert (E' := E). rewrite (get_mttkrp_factors_gen_is_model k n Hwf HN' Hn') in E'. injection E' as E'.
  destruct (absorb_model_facts k n Hwf HN' Hn') as (_ & _ & Hm).
  rewrite (impl_mttkrp_k_correct Z 0%Z 1%Z Z.add Z.mul Z.sub Z.opp Zr K fs n (length (NpZ3.kt_weights k)) x r Hn Hx Hr).
  - apply (spec_mttkrp_absorb_gen (den_k 0%Z 1%Z Z.add Z.mul K) (kshape K) k n fs x r Hwf); auto.
    rewrite <- Hrows. now rewrite map_length.
  - rewrite <- E', Hm, <- Hrows. unfold remove_at. now rewrite map_app, firstn_map, skipn_map.
Qed.

(* ttensor.mttkrp AS CALLED with a Kruskal operand *)
Theorem mttkrp_t_kruskal_gen (T : ttensor Z) (k : NpZ3.ktz) (n : nat) fs x r :
  wf_dense (tcore T) -> 2 <= length (tfactors T) -> length (dshape (tcore T)) = length (tfactors T) ->
  length (NpZ3.kt_factors k) = length (tfactors T) -> n < length (tfactors T) ->
  kt_wf k -> x < nth n (tshape T) 0 -> r < length (NpZ3.kt_weights k) ->
  GenUtils3.get_mttkrp_factors (NpZ3.UKt k) (Z.of_nat n) (NpZ.zlen (NpZ3.kt_factors k)) = NpZ.Ok fs ->
  impl_mttkrp_t 0%Z Z.add Z.mul T fs n (length (NpZ3.kt_weights k)) x r =
  spec_mttkrp 0%Z 1%Z Z.add Z.mul (den_t 0%Z 1%Z Z.add Z.mul T) (tshape T) n (NpZ3.kt_weights k) (NpZ3.kt_factors k) x r.
Proof.
  intros WC HN HC HL Hn Hwf Hx Hr E.
  assert (HN' : 2 <= length (NpZ3.kt_factors k)) by (rewrite HL; exact HN).
  assert (Hn' : n < length (NpZ3.kt_factors k)) by (rewrite HL; exact Hn).
  assert (E' := E). rewrite (get_mttkrp_factors_gen_is_model k n Hwf HN' Hn') in E'. injection E' as E'.
  destruct (absorb_model_facts k n Hwf HN' Hn') as (Hlen & _ & _).
  rewrite (impl_mttkrp_t_correct Z 0%Z 1%Z Z.add Z.mul Z.sub Z.opp Zr T fs n (length (NpZ3.kt_weights k)) x r WC HN HC).
  - apply (spec_mttkrp_absorb_gen (den_t 0%Z 1%Z Z.add Z.mul T) (tshape T) k n fs x r Hwf); auto.
    unfold tshape. now rewrite map_length.
  - rewrite <- E', Hlen. exact HL.
  - exact Hn.
  - exact Hx.
  - exact Hr.
Qed.
End Holders.
