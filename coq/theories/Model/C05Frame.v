(* Model/C05Frame.v — wave 4: in-place writes THROUGH VIEWS (element-level frame theorem) for property C05.

   Model/C05Store.v proves the frame theorem at buffer granularity (objects = lists of locations); Model/C05View.v
   models numpy arrays as windows (buffer id, offset, shape, element strides) and proves which constructions allocate
   and which alias.  Here the two are joined: a view v = (location abuf v, offset aoff v, strides astr v) SHARES its base
   buffer, a write through v lands in the cell  (abuf v, k)  with k one of the addresses `cells v` the view shows, and
     view_footprint        a write history through v changes no cell outside  {abuf v} x cells v  (all stores, views, values)
     view_frame / _sym     if v and a are separated (different buffers, OR the same buffer but no common cell: two
                           different rows / disjoint slices of one matrix) writes through one are invisible through the other
     view_write_visible    conversely, if v and a have a common in-range cell k, writing a NEW value there through v IS
                           seen through a: the sentinel-write detector of the harness is complete for overlapping windows
     view_write_visible_in_base   in particular every write through a view is seen through the base array it was cut from
     separatedb_spec       the executable separation test decides `separated`
   Nothing here is specific to a shape: `cells` is the address list of C05View (any rank, any non-negative strides). *)
From Coq Require Import List Arith Bool Lia Ring.
From PV Require Import Model.C05Store Model.C05View.
Import ListNotations.

Definition cells (a : arr) : list nat := addrsC a.

(* v and a can never show a common cell *)
Definition separated (v a : arr) : Prop := abuf v <> abuf a \/ forall k, In k (cells v) -> ~ In k (cells a).
Definition separatedb (v a : arr) : bool := negb (abuf v =? abuf a) || disjointb (cells v) (cells a).

Lemma separatedb_spec : forall v a, separatedb v a = true <-> separated v a.
Proof.
  intros v a. unfold separatedb, separated. rewrite orb_true_iff, negb_true_iff, Nat.eqb_neq, disjointb_spec. reflexivity.
Qed.

Lemma separated_sym : forall v a, separated v a -> separated a v.
Proof.
  intros v a [H|H]; [left; intro E; apply H; symmetry; exact E | right; intros k Ha Hv; exact (H k Hv Ha)].
Qed.

(* the whole buffer seen as a 1-d array: the base every view of that buffer was cut from *)
Definition base_arr (b : loc) (n : nat) : arr := mkArr b 0 [n] [1].

Lemma cells_base : forall b n, cells (base_arr b n) = seq 0 n.
Proof.
  intros b n. unfold cells, addrsC, base_arr. cbn [aoff ashape astr].
  replace [1] with (cstrides [n]) by reflexivity. rewrite addrs_contig. cbn [prodl]. rewrite Nat.mul_1_r.
  rewrite (map_ext (fun k => 0 + k) (fun k => k)) by reflexivity. apply map_id.
Qed.

Section ViewWrites.
Context {V : Type}.

(* every write of the history goes through the window v: into its buffer, at one of the addresses it shows *)
Definition through_view (v : arr) (h : list (@wr V)) : Prop :=
  forall w, In w h -> wloc w = abuf v /\ In (wpos w) (cells v).

Lemma upd_nth_other : forall k (x : V) b k', k <> k' -> nth_error (upd k x b) k' = nth_error b k'.
Proof.
  induction k as [|k IH]; intros x [|y t] [|k'] N; simpl; try reflexivity; try (exfalso; apply N; reflexivity).
  apply IH. intro E. apply N. f_equal. exact E.
Qed.

Lemma upd_nth_same : forall k (x : V) b, k < length b -> nth_error (upd k x b) k = Some x.
Proof.
  induction k as [|k IH]; intros x [|y t] L; simpl in *; try lia; [reflexivity | apply IH; lia].
Qed.

Lemma write_cell_other : forall (s : @store V) l k x l' k', ~ (l' = l /\ k' = k) ->
  nth_error (write s l k x l') k' = nth_error (s l') k'.
Proof.
  intros s l k x l' k' N. unfold write. destruct (Nat.eqb_spec l' l) as [E|E]; [|reflexivity].
  subst l'. apply upd_nth_other. intro Ek. apply N. split; [reflexivity | symmetry; exact Ek].
Qed.

(* ---- footprint at cell granularity ---------------------------------------------------------------------------- *)
Lemma run_cell_other : forall (h : list (@wr V)) (s : @store V) l k,
  (forall w, In w h -> ~ (wloc w = l /\ wpos w = k)) -> nth_error (run s h l) k = nth_error (s l) k.
Proof.
  induction h as [|w h IH]; intros s l k N; simpl; [reflexivity|].
  rewrite IH by (intros w' Hw'; apply N; right; exact Hw').
  apply write_cell_other. intros [E1 E2]. apply (N w (or_introl eq_refl)). split; symmetry; assumption.
Qed.

Theorem view_footprint : forall (s : @store V) (v : arr) (h : list (@wr V)), through_view v h ->
  forall l k, (l <> abuf v \/ ~ In k (cells v)) -> nth_error (run s h l) k = nth_error (s l) k.
Proof.
  intros s v h T l k O. apply run_cell_other. intros w Hw [E1 E2]. destruct (T w Hw) as [Tl Tk].
  destruct O as [O|O]; [apply O; rewrite <- E1; exact Tl | apply O; rewrite <- E2; exact Tk].
Qed.

(* ---- frame: separated windows do not see each other's writes ------------------------------------------------------ *)
Theorem view_frame : forall (s : @store V) (v a : arr) (h : list (@wr V)),
  separated v a -> through_view v h -> read (run s h) a = read s a.
Proof.
  intros s v a h S T. unfold read. apply map_ext_in. intros k Hk.
  apply (view_footprint s v h T). destruct S as [S|S].
  - left. intro E. apply S. symmetry. exact E.
  - right. intro Hv. exact (S k Hv Hk).
Qed.

Theorem view_frame_sym : forall (s : @store V) (v a : arr) (h : list (@wr V)),
  separated v a -> through_view a h -> read (run s h) v = read s v.
Proof. intros s v a h S T. exact (view_frame s a v h (separated_sym v a S) T). Qed.

(* the buffer-level hypothesis of C05Store/C05View (different buffers) is the special case *)
Corollary view_frame_buffers : forall (s : @store V) (v a : arr) (h : list (@wr V)),
  abuf v <> abuf a -> through_view v h -> read (run s h) a = read s a.
Proof. intros s v a h N T. apply (view_frame s v a h); [left; exact N | exact T]. Qed.

(* a result allocated by the call (fresh buffer), and ANY window later cut from it, can be written at will *)
Corollary fresh_views_frame : forall (h h' : @heap V) (r v a : arr) (ws : list (@wr V)),
  fresh_res h h' r -> wf_arr h a -> abuf v = abuf r -> through_view v ws ->
  read (run (hst h') ws) a = read (hst h') a.
Proof.
  intros h h' r v a ws Fr W E T. apply (view_frame_buffers _ v a ws); [|exact T].
  rewrite E. exact (fresh_not_old h h' r a Fr W).
Qed.

(* ---- objects made of windows (a ktensor whose factors are views, a tensor on a window ...): any interleaved history whose
        writes all go through windows separated from every window of o leaves o as it was ------------------------------- *)
Lemma read_run_untouched : forall (s : @store V) (a : arr) (h : list (@wr V)),
  (forall w, In w h -> ~ (wloc w = abuf a /\ In (wpos w) (cells a))) -> read (run s h) a = read s a.
Proof.
  intros s a h N. unfold read. apply map_ext_in. intros k Hk. apply run_cell_other.
  intros w Hw [E1 E2]. apply (N w Hw). split; [exact E1 | rewrite E2; exact Hk].
Qed.

Definition observe_v (s : @store V) (o : list arr) : list (list (option V)) := map (read s) o.

Theorem vobj_frame : forall (s : @store V) (r o : list arr) (h : list (@wr V)),
  (forall v a, In v r -> In a o -> separated v a) ->
  (forall w, In w h -> exists v, In v r /\ wloc w = abuf v /\ In (wpos w) (cells v)) ->
  observe_v (run s h) o = observe_v s o.
Proof.
  intros s r o h S T. unfold observe_v. apply map_ext_in. intros a Ha. apply read_run_untouched.
  intros w Hw [E1 E2]. destruct (T w Hw) as [v [Hv [Ev Kv]]]. destruct (S v a Hv Ha) as [N|D].
  - apply N. rewrite <- Ev. exact E1.
  - exact (D (wpos w) Kv E2).
Qed.

(* ---- the converse: overlapping windows DO see each other's writes --------------------------------------------------- *)
Lemma map_eq_pointwise : forall {A B} (f g : A -> B) l, map f l = map g l -> forall x, In x l -> f x = g x.
Proof.
  intros A B f g l. induction l as [|y t IH]; intros E x Hx; [destruct Hx|].
  simpl in E. injection E as E1 E2. destruct Hx as [Hx|Hx]; [subst y; exact E1 | exact (IH E2 x Hx)].
Qed.

Theorem view_write_visible : forall (s : @store V) (v a : arr) k x,
  abuf v = abuf a -> In k (cells v) -> In k (cells a) -> k < length (s (abuf v)) -> nth_error (s (abuf v)) k <> Some x ->
  read (write s (abuf v) k x) a <> read s a.
Proof.
  intros s v a k x E Hv Ha L N R. unfold read in R.
  pose proof (map_eq_pointwise _ _ _ R k Ha) as P. cbv beta in P.
  rewrite <- E in P. unfold write in P. rewrite Nat.eqb_refl in P.
  rewrite upd_nth_same in P by exact L. apply N. symmetry. exact P.
Qed.

Theorem view_write_visible_in_base : forall (s : @store V) (v : arr) k x,
  In k (cells v) -> k < length (s (abuf v)) -> nth_error (s (abuf v)) k <> Some x ->
  read (write s (abuf v) k x) (base_arr (abuf v) (length (s (abuf v)))) <> read s (base_arr (abuf v) (length (s (abuf v)))).
Proof.
  intros s v k x Hv L N. apply (view_write_visible s v (base_arr (abuf v) (length (s (abuf v)))) k x); try assumption.
  - reflexivity.
  - rewrite cells_base. apply in_seq. lia.
Qed.

(* a write through a view is a write into its base buffer and nowhere else: what the base shows changes exactly there *)
Theorem view_write_base_elsewhere : forall (s : @store V) (v : arr) k x k',
  k' <> k -> nth_error (write s (abuf v) k x (abuf v)) k' = nth_error (s (abuf v)) k'.
Proof. intros s v k x k' N. apply write_cell_other. intros [_ E]. exact (N E). Qed.
End ViewWrites.

(* ---- windows cut from a window: a single-mode selection (integer index i on mode k: a row, a column, a slab) shows only
        cells of its parent, so whatever is separated from the parent is separated from the selection ------------------- *)
Definition subwin (v a : arr) : Prop := abuf v = abuf a /\ incl (cells v) (cells a).

Lemma separated_subwin : forall a b v w, separated a b -> subwin v a -> subwin w b -> separated v w.
Proof.
  intros a b v w [N|D] [Ev Iv] [Ew Iw].
  - left. rewrite Ev, Ew. exact N.
  - right. intros k Hv Hw. exact (D k (Iv k Hv) (Iw k Hw)).
Qed.

Lemma subwin_refl : forall a, subwin a a.
Proof. intros a. split; [reflexivity | apply incl_refl]. Qed.

Lemma addrs_int_incl : forall k s ts off i x, i < nth k s 0 -> length ts = length s ->
  In x (addrs (off + i * nth k ts 0) (drop_nth k s) (drop_nth k ts)) -> In x (addrs off s ts).
Proof.
  induction k as [|k IH]; intros [|d s] [|t ts] off i x Hi L Hx; simpl in *; try discriminate; try lia.
  - apply in_flat_map. exists i. split; [apply in_seq; lia | exact Hx].
  - apply in_flat_map in Hx. destruct Hx as [j [Hj Hx]]. apply in_flat_map. exists j. split; [exact Hj|].
    apply (IH s ts (off + j * t) i x Hi); [lia|].
    replace (off + j * t + i * nth k ts 0) with (off + i * nth k ts 0 + j * t) by lia. exact Hx.
Qed.

Theorem int_selection_subwin : forall a k i, i < nth k (ashape a) 0 -> length (astr a) = length (ashape a) ->
  subwin (v_int a k i) a.
Proof.
  intros a k i Hi L. split; [reflexivity|]. intros x Hx. unfold cells, addrsC, v_int in *. cbn [aoff ashape astr] in Hx.
  exact (addrs_int_incl k (ashape a) (astr a) (aoff a) i x Hi L Hx).
Qed.

(* a strided slice (start, count, step) of mode k: the caller's "every other row" view, a sub-block, ... *)
Definition v_slice1 (a : arr) (k : nat) (s : sl) : arr :=
  mkArr (abuf a) (aoff a + fst (fst s) * nth k (astr a) 0)
        (firstn k (ashape a) ++ snd (fst s) :: skipn (S k) (ashape a))
        (firstn k (astr a) ++ (snd s * nth k (astr a) 0) :: skipn (S k) (astr a)).

Lemma addrs_slice_incl : forall k s ts off st cnt step x,
  (forall j, j < cnt -> st + j * step < nth k s 0) -> length ts = length s -> k < length s ->
  In x (addrs (off + st * nth k ts 0) (firstn k s ++ cnt :: skipn (S k) s) (firstn k ts ++ (step * nth k ts 0) :: skipn (S k) ts)) ->
  In x (addrs off s ts).
Proof.
  induction k as [|k IH]; intros [|d s] [|t ts] off st cnt step x B L K Hx; simpl in *; try discriminate; try lia.
  - apply in_flat_map in Hx. destruct Hx as [j [Hj Hx]]. apply in_seq in Hj.
    apply in_flat_map. exists (st + j * step). split; [apply in_seq; specialize (B j); lia|].
    replace (off + (st + j * step) * t) with (off + st * t + j * (step * t)) by ring. exact Hx.
  - apply in_flat_map in Hx. destruct Hx as [j [Hj Hx]]. apply in_flat_map. exists j. split; [exact Hj|].
    apply (IH s ts (off + j * t) st cnt step x B); [lia | lia |].
    replace (off + j * t + st * nth k ts 0) with (off + st * nth k ts 0 + j * t) by lia. exact Hx.
Qed.

Theorem slice_selection_subwin : forall a k st cnt step,
  (forall j, j < cnt -> st + j * step < nth k (ashape a) 0) -> length (astr a) = length (ashape a) -> k < length (ashape a) ->
  subwin (v_slice1 a k (st, cnt, step)) a.
Proof.
  intros a k st cnt step B L K. split; [reflexivity|]. intros x Hx. unfold cells, addrsC, v_slice1 in *. cbn [aoff ashape astr fst snd] in Hx.
  exact (addrs_slice_incl k (ashape a) (astr a) (aoff a) st cnt step x B L K Hx).
Qed.

Corollary slice_selection_separated : forall a b k st cnt step, separated a b ->
  (forall j, j < cnt -> st + j * step < nth k (ashape a) 0) -> length (astr a) = length (ashape a) -> k < length (ashape a) ->
  separated (v_slice1 a k (st, cnt, step)) b.
Proof.
  intros a b k st cnt step S B L K. exact (separated_subwin a b _ _ S (slice_selection_subwin a k st cnt step B L K) (subwin_refl b)).
Qed.

(* v_slice1 is the step apply_key (C05View: tensor.__getitem__ / tenmat.__getitem__ region keys) takes for a slice element *)
Lemma apply_key_slice_step : forall a pos s k', apply_key a pos (KSlice s :: k') = apply_key (v_slice1 a pos s) (S pos) k'.
Proof. reflexivity. Qed.

Corollary int_selection_separated : forall a b k i, separated a b ->
  i < nth k (ashape a) 0 -> length (astr a) = length (ashape a) -> separated (v_int a k i) b.
Proof.
  intros a b k i S Hi L. exact (separated_subwin a b _ _ S (int_selection_subwin a k i Hi L) (subwin_refl b)).
Qed.

(* ---- completeness of the table checker of C05Store (soundness: row_check_sound) ------------------------------------- *)
Lemma row_check_complete : forall r,
  r_unchanged r = true ->
  (r_kind r <> KNoCopy -> r_disjoint r = true /\ r_vis_result r = false /\ r_vis_operand r = false) ->
  (r_kind r = KNoCopy -> r_extra_ok r = true) ->
  row_check r = true.
Proof.
  intros [k u d vr vo ex]. simpl. intros U P N. subst u. unfold row_check, row_ok, frame_hyp_holds, frame_pred_ok. simpl.
  destruct k.
  - destruct P as [D [R O]]; [discriminate|]. subst d vr vo. reflexivity.
  - destruct P as [D [R O]]; [discriminate|]. subst d vr vo. reflexivity.
  - rewrite (N eq_refl). reflexivity.
Qed.

Lemma row_check_iff : forall r, row_check r = true <->
  (r_unchanged r = true /\
   (r_kind r <> KNoCopy -> r_disjoint r = true /\ r_vis_result r = false /\ r_vis_operand r = false) /\
   (r_kind r = KNoCopy -> r_extra_ok r = true)).
Proof.
  intros r. split.
  - apply row_check_sound.
  - intros [U [P N]]. exact (row_check_complete r U P N).
Qed.

(* ---- concrete instance (non-vacuity; Props/C05.v) ------------------------------------------------------------------ *)
(* exF (C05View) is a 2x3 F-ordered matrix in buffer 0 (cells 0..5); its two ROWS are windows onto the same buffer *)
Definition exRow0 := v_int exF 0 0.      (* cells 0, 2, 4 *)
Definition exRow1 := v_int exF 0 1.      (* cells 1, 3, 5 *)
