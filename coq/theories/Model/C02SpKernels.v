(* Model/C02SpKernels.v — sptensor.ttv (one mode) and sptensor.mttkrp (pyttb/sptensor.py) at the level of the coordinate list:
   gather the multiplicand entries at the stored subscripts (w[subs[:, n]]), scale the stored values, project the subscripts onto
   the remaining modes, and accumulate equal projected subscripts (accumarray / from_aggregator with the sum reducer).
   The result is given by its value at each output subscript (what accumarray / from_aggregator return for that subscript; the
   contract of from_aggregator itself is C03's from_aggregator_correct).  Definitions only; proofs in Proofs/C02SpKernelsProofs.v. *)
From Coq Require Import List Arith Lia Bool.
From PV Require Import Base.Index Base.Perm Base.Sum Np.Array Model.Sparse Model.Repr Model.C02Spec.
Import ListNotations.

Section SpK.
Context {V : Type} (v0 v1 : V) (vadd vmul : V -> V -> V).
Local Notation "x + y" := (vadd x y).
Local Notation "x * y" := (vmul x y).

(* sptensor.ttv, single mode n:  newvals = vals * v[subs[:, n]];  newsubs = subs[:, remdims];  accumulate *)
Definition impl_ttv_sp1 (S : sparse V) (n : nat) (v : list V) (i' : idx) : V :=
  sum_over v0 vadd (entries S)
    (fun e => if idx_eqb (remove_at n (fst e)) i' then snd e * nth (nth n (fst e) 0) v v0 else v0).

(* sptensor.mttkrp, column r: ttv with U_i[:, r] in every mode i <> n (exclude_dims = n), accumulated into row subs[:, n] *)
Definition impl_mttkrp_sp (S : sparse V) (Us : list (@matrix V)) (n : nat) (x r : nat) : V :=
  sum_over v0 vadd (entries S)
    (fun e => if Nat.eqb (nth n (fst e) 0) x
              then snd e * kprod v0 v1 vmul (remove_at n Us) (remove_at n (fst e)) r else v0).
End SpK.
