(* Proofs/C04Dense.v — the dense model refines the abstract array (C04). *)
From Coq Require Import List Arith ZArith Lia Bool.
From PV Require Import Base.Index Np.Array Model.Sparse Model.C04Model.
Import ListNotations.

Section D.
Context {V : Type} (v0 : V).

Lemma finish_set_inb (r : rhs V) s' ps s'' asg :
  finish_set r s' ps = Some (s'', asg) ->
  s'' = s' /\ (forall e, In e asg -> inb s' (fst e) = true) /\
  exists vs, rhs_values r (length ps) = Some vs /\ asg = combine ps vs.
Proof.
  unfold finish_set. destruct (rhs_values r (length ps)) as [vs|] eqn:E; [|discriminate].
  destruct (forallb (inb s') ps) eqn:F; [|discriminate]. intros H. inversion H; subst. split; auto. split.
  - intros [i v] Hin. apply in_combine_l in Hin. rewrite forallb_forall in F. now apply F.
  - eauto.
Qed.

(* every position a write resolves to lies inside the grown shape *)
Lemma resolve_set_inb cart s k (r : rhs V) s' asg :
  resolve_set cart s k r = Some (s', asg) -> forall e, In e asg -> inb s' (fst e) = true.
Proof.
  unfold resolve_set. intros H.
  destruct k as [z|l|a b c|rows|es].
  1-3: destruct (resolve_get s _) as [[os ps]|]; [|discriminate]; apply finish_set_inb in H as (-> & H & _); exact H.
  - destruct (subs_ok s rows); [|discriminate].
    destruct (opt_all _) as [ps|]; [|discriminate]. apply finish_set_inb in H as (-> & H & _); exact H.
  - destruct (region_ok s es); [|discriminate]. cbv zeta in H.
    destruct (region_lists _ es) as [ls|]; [|discriminate]. apply finish_set_inb in H as (-> & H & _); exact H.
Qed.

Lemma wf_dense_assign (T : dense V) s' asg : wf_dense (dense_assign v0 T s' asg).
Proof.
  unfold wf_dense, dense_assign. cbn [ddata dshape]. rewrite fold_upd_length.
  apply (wf_tabulate s').
Qed.

(* reading the tensor after a batch of writes: the last write to a position wins, every other position keeps its
   (embedded) old value, positions outside the new shape read as zero *)
Lemma den_dense_assign (T : dense V) s' asg j :
  (forall e, In e asg -> inb s' (fst e) = true) ->
  den_dense v0 (dense_assign v0 T s' asg) j =
  if inb s' j then last_match j asg (embed v0 (length (dshape T)) (den_dense v0 T) j) else v0.
Proof.
  intros Hin. unfold den_dense at 1. unfold dense_assign. cbn [dshape ddata].
  destruct (inb s' j) eqn:Hj; [|reflexivity].
  pose proof (sub2ind_lt s' j Hj) as Hlt.
  rewrite nth_scatter; auto.
  - rewrite ind2sub_sub2ind by auto. f_equal.
    unfold dense_resize. rewrite nth_tabulate by auto. now rewrite ind2sub_sub2ind.
  - apply (wf_tabulate s').
Qed.

Theorem refine_dense (T : dense V) (o : op V) :
  match step_dense v0 T o, spec_step v0 (abs_dense v0 T) o with
  | Some (T', out), Some (a', out') =>
      eq_amap (abs_dense v0 T') a' /\ out = out' /\ (wf_dense T -> wf_dense T')
  | None, None => True
  | _, _ => False
  end.
Proof.
  destruct o as [k|k r]; cbn [step_dense spec_step abs_dense ashape af].
  - destruct (resolve_get (dshape T) k) as [[os ps]|]; auto.
    repeat split; auto.
  - destruct (resolve_set cartF (dshape T) k r) as [[s' asg]|] eqn:E; auto.
    split; [|split; [reflexivity|intros _; apply wf_dense_assign]].
    split; [reflexivity|]. intros j. cbn [abs_dense af spec_set ashape].
    apply den_dense_assign. eapply resolve_set_inb; eauto.
Qed.

End D.
