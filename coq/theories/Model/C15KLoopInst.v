(* Model/C15KLoopInst.v — wave 5: the statement-by-statement transliteration of ktensor.symmetrize (Model/C15KLoop.v) over Qc
   with the exact test "x < 0": executed by the generated correspondence cases on pyttb's own normalize("all") result. *)
From Coq Require Import List Arith Bool QArith Qcanon.
From PV Require Import Base.Index Np.Array Model.Repr Model.Harness Model.C15Sym Model.C15K Model.C15KLoop Model.C15Inst.
Import ListNotations.

Definition q_k15_loop (K1 : ktensor Qc) : ktensor Qc := k15_loop q0 q1 Qcplus Qcmult Qcopp Qcinv q_neg15 K1.
(* pyttb's symmetrised Kruskal tensor O is (weights and factors, within the float tolerance) the LOOPS applied to the observed
   result K1 of pyttb's own normalize("all"); and the loops give exactly the closed form (theorem C15_ksym_loop, evaluated) *)
Definition q_k15_loop_matches (K1 O : ktensor Qc) : bool :=
  let M := q_k15_loop K1 in
  qvec_close tol9 (kweights O) (kweights M) && list_eqb (list_eqb (qvec_close tol9)) (kfactors O) (kfactors M) &&
  list_eqb Qc_eq_bool (kweights M) (kweights (q_k15_core K1)) &&
  list_eqb (list_eqb (list_eqb Qc_eq_bool)) (kfactors M) (kfactors (q_k15_core K1)).
(* the cubical assertion on the shape of the request *)
Definition k_code_refuses (s : list nat) : bool := negb (cubical_shape s).
