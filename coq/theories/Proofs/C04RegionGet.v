(* Proofs/C04RegionGet.v — sptensor.__getitem__ with a region (subdims filter + renumbering, model sp_region_get).
   Wave 3b: an index list may REPEAT an index; the stored entry then appears at every position that names it.
   The returned sptensor has the shape of the kept modes, holds at EVERY subscript j inside that shape the value the source
   holds at the position j selects (select ls j), is well-formed, and stores one entry per (stored source entry, result
   subscript selecting it). *)
From Coq Require Import List Arith ZArith Lia Bool.
From PV Require Import Base.Index Np.Array Model.Sparse Model.C04Model Proofs.C04Dense Proofs.C04Sparse.
Import ListNotations.

(* ---------------------------------------------------------------- positions of an index inside a list *)
Lemma positions_from_spec x l : forall k0 k,
  In k (positions_from k0 x l) <-> (k0 <= k < k0 + length l /\ nth (k - k0) l 0 = x).
Proof.
  induction l as [|y r IH]; intros k0 k; cbn [positions_from length].
  - split; [contradiction|]. intros [H _]. lia.
  - assert (E : forall A : Prop, (k = k0 /\ x = y) \/ (A /\ In k (positions_from (S k0) x r)) <->
                (k = k0 /\ x = y) \/ In k (positions_from (S k0) x r) /\ A) by tauto.
    destruct (Nat.eqb_spec x y) as [->|Hne]; cbn [In]; rewrite IH; split.
    + intros [<-|[H1 H2]].
      * split; [lia|]. now rewrite Nat.sub_diag.
      * split; [lia|]. replace (k - k0) with (S (k - S k0)) by lia. exact H2.
    + intros [H1 H2]. destruct (Nat.eq_dec k0 k) as [->|Hk]; auto. right. split; [lia|].
      replace (k - k0) with (S (k - S k0)) in H2 by lia. exact H2.
    + intros [H1 H2]. split; [lia|]. replace (k - k0) with (S (k - S k0)) by lia. exact H2.
    + intros [H1 H2]. destruct (Nat.eq_dec k0 k) as [->|Hk].
      * rewrite Nat.sub_diag in H2. cbn in H2. congruence.
      * split; [lia|]. replace (k - k0) with (S (k - S k0)) in H2 by lia. exact H2.
Qed.

Lemma positions_spec x l k : In k (positions_from 0 x l) <-> (k < length l /\ nth k l 0 = x).
Proof. rewrite positions_from_spec, Nat.sub_0_r. cbn. intuition lia. Qed.

Lemma positions_from_nodup x l : forall k0, NoDup (positions_from k0 x l).
Proof.
  induction l as [|y r IH]; intros k0; cbn; [constructor|].
  destruct (Nat.eqb x y); auto. constructor; auto.
  rewrite positions_from_spec. lia.
Qed.

Lemma NoDup_flat_map {A B} (g : A -> list B) (ks : list A) :
  NoDup ks -> (forall k, In k ks -> NoDup (g k)) ->
  (forall k k' x, In k ks -> In k' ks -> In x (g k) -> In x (g k') -> k = k') -> NoDup (flat_map g ks).
Proof.
  induction ks as [|k ks IH]; intros Hn Hg Hd; cbn; [constructor|].
  inversion Hn; subst. apply NoDup_app_intro.
  - apply Hg. cbn; auto.
  - apply IH; auto.
    + intros k' Hk'. apply Hg. cbn; auto.
    + intros a b x Ha Hb. apply Hd; cbn; auto.
  - intros x Hx F. apply in_flat_map in F as (k' & Hk' & Hx').
    assert (k = k') by (apply (Hd k k' x); cbn; auto). subst. contradiction.
Qed.

(* a mode that is dropped from the result selects exactly one index *)
Definition drop_single (ls : list (bool * list nat)) : Prop :=
  Forall (fun x : bool * list nat => fst x = false -> exists z, snd x = [z]) ls.

Lemma elem_indices_single d e x : elem_indices d e = Some x -> fst x = false -> exists z, snd x = [z].
Proof.
  destruct e as [z|a b c|l]; cbn.
  - destruct (norm_index d z); [|discriminate]. intros H _. inversion H. cbn. eauto.
  - destruct (py_slice d a b c); [discriminate|]. intros H. inversion H. cbn. discriminate.
  - destruct l; [discriminate|]. destruct (forallb _ _); [|discriminate]. intros H. inversion H. cbn. discriminate.
Qed.

Lemma region_lists_single s es ls : region_lists s es = Some ls -> drop_single ls.
Proof.
  revert es ls; induction s as [|d s IH]; intros [|e es] ls H; cbn in H; try discriminate.
  - inversion H. constructor.
  - destruct (elem_indices d e) as [x|] eqn:E; [|discriminate].
    destruct (region_lists s es) as [r|] eqn:R; [|discriminate]. inversion H; subst.
    constructor; [now apply (elem_indices_single d e)|]. eapply IH; eauto.
Qed.

(* ---------------------------------------------------------------- renumber_all against select *)
Lemma renumber_all_sound ls : drop_single ls -> forall p j,
  In j (renumber_all ls p) -> inb (kept_shape ls) j = true /\ select ls j = p.
Proof.
  induction 1 as [|[kept l] ls Hx Hls IH]; intros [|x p] j Hj; cbn [renumber_all] in Hj; try contradiction.
  - destruct Hj as [<-|[]]. split; reflexivity.
  - apply in_flat_map in Hj as (k & Hk & Hj). apply in_map_iff in Hj as (r & <- & Hr).
    apply positions_spec in Hk as [Hk1 Hk2]. destruct (IH p r Hr) as [I1 I2].
    unfold kept_shape in *. destruct kept; cbn [filter fst map snd inb select hd tl].
    + rewrite I1, I2, Hk2. split; auto. rewrite andb_true_r. now apply Nat.ltb_lt.
    + destruct (Hx eq_refl) as (z & Hz). cbn in Hz. subst l. cbn in Hk1.
      assert (k = 0) by lia. subst k. cbn in Hk2. subst z. cbn. rewrite I2. auto.
Qed.

Lemma renumber_all_complete ls : drop_single ls -> forall j,
  inb (kept_shape ls) j = true -> In j (renumber_all ls (select ls j)).
Proof.
  induction 1 as [|[kept l] ls Hx Hls IH]; intros j Hj.
  - destruct j; [|discriminate]. cbn. auto.
  - unfold kept_shape in Hj. destruct kept; cbn [filter fst map snd] in Hj; cbn [select renumber_all].
    + destruct j as [|k r]; [discriminate|]. cbn [inb] in Hj. apply andb_true_iff in Hj as [Hk Hr].
      apply Nat.ltb_lt in Hk. cbn [hd tl]. apply in_flat_map. exists k. split.
      * apply positions_spec. auto.
      * apply in_map_iff. exists r. split; [reflexivity|]. apply IH. exact Hr.
    + destruct (Hx eq_refl) as (z & Hz). cbn in Hz. subst l. cbn [hd positions_from]. rewrite Nat.eqb_refl.
      cbn [flat_map]. rewrite app_nil_r. apply in_map_iff. exists j. split; [reflexivity|]. apply IH. exact Hj.
Qed.

Lemma renumber_all_nodup ls : drop_single ls -> forall p, NoDup (renumber_all ls p).
Proof.
  induction 1 as [|[kept l] ls Hx Hls IH]; intros [|x p]; cbn [renumber_all]; try constructor; auto; try constructor.
  destruct kept.
  - apply NoDup_flat_map.
    + apply positions_from_nodup.
    + intros k _. apply FinFun.Injective_map_NoDup; auto. intros a b E. now inversion E.
    + intros k k' y _ _ Hy Hy'. apply in_map_iff in Hy as (a & <- & _). apply in_map_iff in Hy' as (b & E & _).
      now inversion E.
  - destruct (Hx eq_refl) as (z & Hz). cbn in Hz. subst l. cbn [positions_from].
    destruct (Nat.eqb x z); cbn [flat_map]; [|constructor]. rewrite app_nil_r, map_id. apply IH.
Qed.

Section G.
Context {V : Type} (v0 : V) (isz : V -> bool).

Lemma last_match_app (j : idx) (l1 l2 : list (idx * V)) d :
  last_match j (l1 ++ l2) d = last_match j l2 (last_match j l1 d).
Proof. revert d; induction l1 as [|[q v] r IH]; intros d; cbn [app last_match]; auto. Qed.

Lemma last_match_const (j : idx) (js : list idx) (v d : V) :
  last_match j (map (fun j' => (j', v)) js) d = if memb j js then v else d.
Proof.
  revert d; induction js as [|j' js IH]; intros d; cbn [map last_match]; auto.
  rewrite IH. unfold memb. cbn [existsb]. fold (memb j js).
  destruct (idx_eqb j j'), (memb j js); reflexivity.
Qed.

Lemma memb_renumber_all ls j q : drop_single ls -> inb (kept_shape ls) j = true ->
  memb j (renumber_all ls q) = idx_eqb (select ls j) q.
Proof.
  intros Hs Hj. apply eq_true_iff_eq. rewrite memb_spec. split.
  - intros H. apply (renumber_all_sound ls Hs) in H as [_ <-]. apply idx_eqb_refl.
  - intros H. apply idx_eqb_spec in H. subst q. now apply renumber_all_complete.
Qed.

Lemma last_match_region_sel_all ls (es : list (idx * V)) j d : drop_single ls -> inb (kept_shape ls) j = true ->
  last_match j (region_sel_all ls es) d = last_match (select ls j) es d.
Proof.
  intros Hs Hj. revert d; induction es as [|[q v] r IH]; intros d; cbn [region_sel_all flat_map fst snd last_match]; auto.
  fold (region_sel_all ls r). rewrite last_match_app, last_match_const, IH. f_equal.
  now rewrite memb_renumber_all.
Qed.

(* EVERY subscript j of the result reads what the source holds at the position j selects *)
Theorem sp_region_get_den (S R : sparse V) es ls :
  region_lists (sshape S) es = Some ls -> sp_region_get S es = Some R ->
  sshape R = kept_shape ls /\
  (forall j, inb (kept_shape ls) j = true -> den_sp v0 R j = den_sp v0 S (select ls j)).
Proof.
  intros Hl Hg. unfold sp_region_get in Hg. rewrite Hl in Hg. inversion Hg; subst. clear Hg.
  split; [reflexivity|]. intros j Hj. rewrite den_of_entries. unfold den_sp.
  apply last_match_region_sel_all; auto. eapply region_lists_single; eauto.
Qed.

Lemma region_sel_all_in ls (es : list (idx * V)) e :
  In e (region_sel_all ls es) -> exists q, In (q, snd e) es /\ In (fst e) (renumber_all ls q).
Proof.
  unfold region_sel_all. rewrite in_flat_map. intros ([q v] & Hin & He). cbn [fst snd] in He.
  apply in_map_iff in He as (j & <- & Hj). cbn. eauto.
Qed.

Lemma map_fst_region_sel_all ls (es : list (idx * V)) :
  map fst (region_sel_all ls es) = flat_map (fun e : idx * V => renumber_all ls (fst e)) es.
Proof.
  induction es as [|[q v] r IH]; cbn; auto. fold (region_sel_all ls r).
  rewrite map_app, IH, map_map. cbn. now rewrite map_id.
Qed.

Lemma region_sel_all_nodup ls (es : list (idx * V)) :
  drop_single ls -> NoDup (map fst es) -> NoDup (map fst (region_sel_all ls es)).
Proof.
  intros Hs Hn. rewrite map_fst_region_sel_all.
  induction es as [|[q v] r IH]; cbn; [constructor|]. inversion Hn as [|? ? Hq Hn']; subst.
  apply NoDup_app_intro; auto.
  - now apply renumber_all_nodup.
  - intros j Hj F. apply in_flat_map in F as ([q' v'] & Hin & Hj'). cbn in Hj'.
    apply (renumber_all_sound ls Hs) in Hj as [_ E1]. apply (renumber_all_sound ls Hs) in Hj' as [_ E2].
    apply Hq. apply in_map_iff. exists (q', v'). cbn. split; [congruence|auto].
Qed.

(* the returned sptensor is well-formed (in bounds of the kept shape, no duplicate subscript, no stored zero,
   |subs| = |vals|), whatever the stored order of the source and however often the key lists repeat an index *)
Theorem sp_region_get_wf (S R : sparse V) es :
  wf_sp isz S -> sp_region_get S es = Some R -> wf_sp isz R.
Proof.
  intros W Hg. unfold sp_region_get in Hg.
  destruct (region_lists (sshape S) es) as [ls|] eqn:Hl; [|discriminate]. inversion Hg; subst. clear Hg.
  apply wf_sp_of_entries.
  destruct (wf_es_entries isz S W) as [Hn He].
  assert (Hs : drop_single ls) by (eapply region_lists_single; eauto).
  split.
  - apply region_sel_all_nodup; auto.
  - intros e Hin. apply region_sel_all_in in Hin as (q & Hin & R). split.
    + now apply (renumber_all_sound ls Hs) in R as [R _].
    + apply (He (q, snd e) Hin).
Qed.

(* nothing is invented: one stored entry per (stored source entry, result subscript that selects it) *)
Theorem sp_region_get_nnz (S R : sparse V) es ls :
  region_lists (sshape S) es = Some ls -> sp_region_get S es = Some R ->
  length (ssubs R) = list_sum (map (fun e : idx * V => length (renumber_all ls (fst e))) (entries S)).
Proof.
  intros Hl Hg. unfold sp_region_get in Hg. rewrite Hl in Hg. inversion Hg; subst. clear Hg.
  unfold of_entries. cbn [ssubs]. rewrite map_length.
  induction (entries S) as [|[q v] r IH]; cbn; auto. fold (region_sel_all ls r).
  now rewrite app_length, map_length, IH.
Qed.
End G.

(* keys whose lists do not repeat an index: every stored entry inside the region lands on exactly ONE subscript, the position
   of its indices inside the lists (the filter + tt_renumber reading of wave 2: renumber / index_of) *)
Lemma positions_from_index_of x l : NoDup l -> forall k0,
  positions_from k0 x l = match index_of x l with Some k => [k0 + k] | None => [] end.
Proof.
  induction 1 as [|y r Hy Hn IH]; intros k0; cbn; auto.
  destruct (Nat.eqb_spec x y) as [->|Hne].
  - rewrite Nat.add_0_r. f_equal. rewrite IH.
    destruct (index_of y r) as [k|] eqn:E; auto. exfalso. apply Hy.
    clear -E. revert k E. induction r as [|z r IH]; intros k E; cbn in E; [discriminate|].
    destruct (Nat.eqb_spec y z) as [->|Hne]; cbn; auto.
    destruct (index_of y r); [|discriminate]. right. eapply IH; eauto.
  - rewrite IH. destruct (index_of x r); cbn; auto. f_equal. lia.
Qed.

Lemma renumber_all_nodup_lists ls : Forall (fun x : bool * list nat => NoDup (snd x)) ls -> forall p,
  renumber_all ls p = match renumber ls p with Some j => [j] | None => [] end.
Proof.
  induction 1 as [|[kept l] ls Hx Hls IH]; intros [|x p]; cbn [renumber_all renumber]; auto.
  cbn in Hx. rewrite (positions_from_index_of x l Hx 0), IH.
  destruct (index_of x l) as [k|]; cbn; auto.
  destruct (renumber ls p) as [r|]; cbn; auto.
Qed.
