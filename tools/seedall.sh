#!/bin/sh
# run every seeded mutant against its own property's check (and extra ones given in seeded/<id>/also.txt)
mkdir -p /tmp/seedres
for d in /verif/seeded/*/; do
  id=$(basename "$d"); prop=${id%-*}
  also=$(cat "$d/also.txt" 2>/dev/null)
  /verif/tools/seedtest.sh "$d/patch.diff" $prop $also > /tmp/seedres/$id.txt 2>&1
  echo "$id: $(grep -c '^VIOLATION' /tmp/seedres/$id.txt) violation lines; $(grep -c 'PATCH DOES NOT APPLY' /tmp/seedres/$id.txt) apply-failures"
done
