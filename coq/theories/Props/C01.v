(* Props/C01.v — conversions preserve the tensor. Only statements, `exact`, Print Assumptions. *)
From Coq Require Import List Arith Bool ZArith.
From PV Require Import Base.Index Np.Array Model.Sparse.
Import ListNotations.

Section C01.
Context {V : Type} (v0 : V) (isz : V -> bool).
Hypothesis isz_spec : forall v, isz v = true <-> v = v0.

(* dense -> sparse: well-formed, same array, nnz = number of nonzero entries, and back = identity *)
Theorem C01_dense_sparse : forall T : dense V, wf_dense T ->
  wf_sp isz (to_sptensor v0 isz T) /\
  (forall i, den_sp v0 (to_sptensor v0 isz T) i = den_dense v0 T i) /\
  nnz (to_sptensor v0 isz T) = length (filter (fun v => negb (isz v)) (ddata T)) /\
  full v0 (to_sptensor v0 isz T) = T.
Proof.
  intros T W. exact (conj (to_sptensor_wf v0 isz T W)
    (conj (fun i => den_to_sptensor v0 isz isz_spec T i W)
    (conj (nnz_to_sptensor v0 isz T W) (full_to_sptensor v0 isz isz_spec T W)))).
Qed.

(* sparse -> dense: same array for EVERY in-bounds coordinate list (duplicates: last stored entry wins,
   any stored order), and the result is a well-formed dense tensor of the same shape *)
Theorem C01_sparse_dense : forall S : sparse V,
  Forall (fun j => inb (sshape S) j = true) (ssubs S) ->
  wf_dense (full v0 S) /\ dshape (full v0 S) = sshape S /\
  (forall i, den_dense v0 (full v0 S) i = den_sp v0 S i).
Proof.
  intros S Hb. exact (conj (wf_full v0 S) (conj eq_refl (fun i => den_full v0 S i Hb))).
Qed.
End C01.

Print Assumptions C01_dense_sparse.
Print Assumptions C01_sparse_dense.

(* non-vacuity: a concrete non-symmetric 2x3 instance *)
Example C01_example :
  let T := mkDense [2; 3] [0; 5; 7; 0; 0; 9]%Z in
  to_sptensor 0%Z (Z.eqb 0) T = mkSp [2; 3] [[1; 0]; [0; 1]; [1; 2]] [5; 7; 9]%Z
  /\ full 0%Z (to_sptensor 0%Z (Z.eqb 0) T) = T.
Proof. split; reflexivity. Qed.
