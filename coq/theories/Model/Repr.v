(* Model/Repr.v — the other holders of tensor data and what they denote (shared definitions):
   matrices (numpy 2-d arrays) as row lists, Kruskal tensors (pyttb.ktensor: .weights, .factor_matrices),
   Tucker tensors (pyttb.ttensor: .core, .factor_matrices), sums (pyttb.sumtensor: .parts).
   Definitions only; every property builds its operations and proofs on these. *)
From Coq Require Import List Arith Lia Bool.
From PV Require Import Base.Index Base.Sum Np.Array Model.Sparse.
Import ListNotations.

Section Repr.
Context {V : Type} (v0 v1 : V) (vadd vmul : V -> V -> V).

(* a numpy matrix: list of rows *)
Definition matrix := list (list V).
Definition mget (A : matrix) (i r : nat) : V := nth r (nth i A []) v0.
Definition nrows (A : matrix) : nat := length A.
Definition ncols (A : matrix) : nat := match A with [] => 0 | r :: _ => length r end.
Definition wf_matrix (A : matrix) (m n : nat) : Prop := length A = m /\ Forall (fun r => length r = n) A.
Definition wf_matrixb (A : matrix) (m n : nat) : bool := Nat.eqb (length A) m && forallb (fun r => Nat.eqb (length r) n) A.
(* matrix <-> dense 2-way array (F order: data[i + m*j] = A[i][j]) *)
Definition matrix_to_dense (A : matrix) (m n : nat) : dense V := tabulate [m; n] (fun i => mget A (nth 0 i 0) (nth 1 i 0)).
Definition dense_to_matrix (T : dense V) : matrix :=
  match dshape T with
  | [m; n] => map (fun i => map (fun j => nth (i + m * j) (ddata T) v0) (seq 0 n)) (seq 0 m)
  | _ => []
  end.

(* Kruskal tensor: weights (length R) and one factor matrix (I_n x R) per mode *)
Record ktensor := mkK { kweights : list V; kfactors : list matrix }.
Definition krank (K : ktensor) : nat := length (kweights K).
Definition kshape (K : ktensor) : shape := map nrows (kfactors K).
Definition wf_k (K : ktensor) : Prop := Forall (fun A => Forall (fun r => length r = krank K) A) (kfactors K).
(* Π_n A_n[i_n, r] *)
Fixpoint kprod (As : list matrix) (i : idx) (r : nat) : V :=
  match As, i with
  | A :: As', x :: i' => vmul (mget A x r) (kprod As' i' r)
  | _, _ => v1
  end.
Definition den_k (K : ktensor) (i : idx) : V :=
  if inb (kshape K) i
  then sum_n v0 vadd (krank K) (fun r => vmul (nth r (kweights K) v0) (kprod (kfactors K) i r))
  else v0.

(* Tucker tensor: dense core (J_1 x ... x J_N) and factors U_n (I_n x J_n) *)
Record ttensor := mkT { tcore : dense V; tfactors : list matrix }.
Definition tshape (T : ttensor) : shape := map nrows (tfactors T).
Fixpoint tprod (Us : list matrix) (i j : idx) : V :=
  match Us, i, j with
  | U :: Us', x :: i', y :: j' => vmul (mget U x y) (tprod Us' i' j')
  | _, _, _ => v1
  end.
Definition den_t (T : ttensor) (i : idx) : V :=
  if inb (tshape T) i
  then sum_over v0 vadd (allsubs (dshape (tcore T))) (fun j => vmul (den_dense v0 (tcore T) j) (tprod (tfactors T) i j))
  else v0.

(* a sum of parts, each given by its denotation *)
Definition den_sum (parts : list (idx -> V)) (i : idx) : V := sum_over v0 vadd parts (fun p => p i).

End Repr.

Arguments ktensor V : clear implicits.
Arguments ttensor V : clear implicits.
Arguments mkK {V} kweights kfactors.
Arguments mkT {V} tcore tfactors.
