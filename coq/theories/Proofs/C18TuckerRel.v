(* Proofs/C18TuckerRel.v — C18 for HOSVD / Tucker-ALS: the clauses "dense or sparse tensor" and "relabelling the modes".

   A. concrete, ring-generic (all shapes / modes / values): the two quantities through which tucker_als and hosvd read the data
      - the matrix handed to the eigen solver by nvecs (Gram matrix of the mode-n unfolding) and the mode-n products - are
      functions of the DENOTATION of the holder only:
        repr_gram_dense_sparse : tensor.nvecs' Xn Xn^T on a dense holder and sptensor.nvecs' COO product on a sparse holder of
                                 the same array (any stored order) are the same matrix  (C14_gram_dense + C14_gram_sparse);
        repr_ttm_den           : mode-n products of two holders with the same denotation agree at every in-bounds subscript.
   B. abstract projector model of Proofs/C18Tucker.v (hosvd / sweeps / als_loop):
        tucker_als_repr                 : two holders on which the nvecs updates, the core and the norm agree give identical runs;
        hosvd_relabel                   : relabelling = a map `perm` on the space and a map q on mode numbers under which the
                                          projector oracle is equivariant (choose (q n) (perm y) o perm = perm o choose n y):
                                          hosvd on the relabelled tensor with mode order map q dimorder picks the conjugated
                                          projectors and returns the relabelled result (sequential or not);
        tucker_als_relabel(_loop)       : same for the Tucker-ALS sweeps and the whole loop with its stopping test: relabelled
                                          factors, same fit, same iteration count.
      The equivariance contracts are what permuting the modes does to Gram matrices and mode-n products (the Gram matrix of mode
      q n of X.permute(p) is the Gram matrix of mode n of X: a reordered sum); the eigen-decomposition itself is an oracle. *)
From Coq Require Import List Arith Lia Bool Ring Reals.
From PV Require Import Base.Index Base.Sum Np.Array Model.Sparse Model.Repr Model.C10Tucker Model.C14Nvecs Model.C14Gram
                       Proofs.C14Sums Proofs.C14Split Proofs.C14GramSp Proofs.C10Ttm Proofs.C10Proj Np.NpR
                       Proofs.C10Proofs Proofs.C18Tucker.
Import ListNotations.

(* ============================================================================================== *)
(* A. concrete: Gram matrix and mode-n product depend on the denotation only                        *)
(* ============================================================================================== *)
Section Concrete.
Variable V : Type.
Variables (v0 v1 : V) (vadd vmul vsub : V -> V -> V) (vopp : V -> V).
Hypothesis Vring : ring_theory v0 v1 vadd vmul vsub vopp (@eq V).
Variable isz : V -> bool.

Lemma gram_spec_ext (s : shape) (X1 X2 : idx -> V) (n a b : nat) :
  n < length s -> a < nth n s 0 -> b < nth n s 0 -> (forall i, inb s i = true -> X1 i = X2 i) ->
  gram_spec v0 vadd vmul s X1 n a b = gram_spec v0 vadd vmul s X2 n a b.
Proof.
  intros Hn Ha Hb H. unfold gram_spec. apply sum_over_ext. intros i Hi. apply in_allsubs in Hi.
  rewrite (H (insert_at n a i)) by (apply inb_insert; assumption).
  rewrite (H (insert_at n b i)) by (apply inb_insert; assumption). reflexivity.
Qed.

(* what tensor.nvecs (dense holder) and sptensor.nvecs (sparse holder, any stored order) hand to the eigen solver *)
Theorem repr_gram_dense_sparse : forall (X : dense V) (S : sparse V) (n a b : nat),
  wf_sp isz S -> sshape S = dshape X -> (forall i, inb (dshape X) i = true -> den_sp v0 S i = den_dense v0 X i) ->
  n < length (dshape X) -> a < nth n (dshape X) 0 -> b < nth n (dshape X) 0 ->
  mget v0 (gram_sp_impl v0 vadd vmul S n) a b = mget v0 (gram_dense_impl v0 vadd vmul X n) a b.
Proof.
  intros X S n a b W Hs Hd Hn Ha Hb.
  rewrite (gram_sparse V v0 v1 vadd vmul vsub vopp Vring isz S n a b W) by (rewrite Hs; assumption).
  rewrite (gram_dense V v0 vadd vmul X n a b Ha Hb). rewrite Hs.
  apply gram_spec_ext; assumption.
Qed.

Theorem repr_ttm_den : forall (s : shape) (X1 X2 : idx -> V) (n : nat) (M : list (list V)) (i : idx),
  n < length s -> inb s i = true -> (forall j, inb s j = true -> X1 j = X2 j) ->
  ttm_den v0 vadd vmul X1 (nth n s 0) n M i = ttm_den v0 vadd vmul X2 (nth n s 0) n M i.
Proof. intros s X1 X2 n M i Hn Hi H. now apply (ttmd_ext_in V v0 vadd vmul s n M X1 X2 i). Qed.
End Concrete.

(* ============================================================================================== *)
(* B. abstract projector model                                                                      *)
(* ============================================================================================== *)
Local Open Scope R_scope.

Section Abstract.
Variable E : Type.
Variable inner : E -> E -> R.
Variable choose : nat -> E -> (E -> E).

(* ---- repr: two holders x1, x2 of the data on which the oracles agree ---- *)
Variables (Fs F : Type) (A : Fs -> E -> F) (innerF : F -> F -> R).
Variable upd : nat -> Fs -> E -> Fs.
Variable stoptol : R.

Lemma sweep_repr dimorder (x1 x2 : E) : (forall n U, upd n U x1 = upd n U x2) ->
  forall U, sweep E Fs upd dimorder U x1 = sweep E Fs upd dimorder U x2.
Proof.
  intros H. unfold sweep. induction dimorder as [|n ms IH]; intros U; cbn [fold_left]; [reflexivity|].
  rewrite H. apply IH.
Qed.

(* dense / sparse holders: every nvecs update and the core agree (A. + C14 + C02 supply this) and ||X|| agrees: identical loop *)
Theorem tucker_als_repr : forall (x1 x2 : E) (dimorder : list nat) (maxiters : nat) (U : Fs) (fit0 : R),
  (forall n U, upd n U x1 = upd n U x2) -> (forall U, A U x1 = A U x2) -> nrm2 E inner x1 = nrm2 E inner x2 ->
  als_loop E inner Fs F A innerF upd stoptol dimorder maxiters U fit0 x1
  = als_loop E inner Fs F A innerF upd stoptol dimorder maxiters U fit0 x2 /\
  A (fst (fst (als_loop E inner Fs F A innerF upd stoptol dimorder maxiters U fit0 x1))) x1
  = A (fst (fst (als_loop E inner Fs F A innerF upd stoptol dimorder maxiters U fit0 x2))) x2.
Proof.
  intros x1 x2 dimorder maxiters U fit0 Hu Ha Hn.
  assert (H : forall U fit0, als_loop E inner Fs F A innerF upd stoptol dimorder maxiters U fit0 x1
                             = als_loop E inner Fs F A innerF upd stoptol dimorder maxiters U fit0 x2).
  { induction maxiters as [|k IH]; intros U' f0; cbn [als_loop]; [reflexivity|].
    rewrite (sweep_repr dimorder x1 x2 Hu), Ha.
    unfold fit_of, resid2. fold (nrm2 E inner x1) (nrm2 E inner x2). rewrite Hn.
    destruct (Rltb _ stoptol); [reflexivity|]. now rewrite IH. }
  split; [apply H|]. rewrite H. apply Ha.
Qed.

(* ---- relabel ---- *)
Variable perm : E -> E.                    (* X |-> X.permute(p) *)
Variable q : nat -> nat.                   (* original mode m sits at position q m of the relabelled tensor *)
Hypothesis choose_perm : forall n y z, choose (q n) (perm y) (perm z) = perm (choose n y z).

Definition conj_of (P' P : E -> E) : Prop := forall z, P' (perm z) = perm (P z).

Lemma hosvd_seq_relabel modes : forall x,
  snd (hosvd_seq E choose (map q modes) (perm x)) = perm (snd (hosvd_seq E choose modes x)) /\
  Forall2 conj_of (fst (hosvd_seq E choose (map q modes) (perm x))) (fst (hosvd_seq E choose modes x)).
Proof.
  induction modes as [|n ms IH]; intros x; cbn [map hosvd_seq fst snd]; [split; [reflexivity|constructor]|].
  rewrite choose_perm. destruct (IH (choose n x x)) as [I1 I2]. split; [exact I1|].
  constructor; [intros z; apply choose_perm|exact I2].
Qed.

Lemma hosvd_nonseq_relabel x0 modes : forall y,
  snd (hosvd_nonseq_from E choose (perm x0) (map q modes) (perm y)) = perm (snd (hosvd_nonseq_from E choose x0 modes y)) /\
  Forall2 conj_of (fst (hosvd_nonseq_from E choose (perm x0) (map q modes) (perm y))) (fst (hosvd_nonseq_from E choose x0 modes y)).
Proof.
  induction modes as [|n ms IH]; intros y; cbn [map hosvd_nonseq_from fst snd]; [split; [reflexivity|constructor]|].
  rewrite choose_perm. destruct (IH (choose n x0 y)) as [I1 I2]. split; [exact I1|].
  constructor; [intros z; apply choose_perm|exact I2].
Qed.

(* hosvd(X.permute(p), dimorder = [q m for m in dimorder]) = hosvd(X, dimorder) relabelled, projector by projector *)
Theorem hosvd_relabel : forall (sequential : bool) (modes : list nat) (x : E),
  snd (hosvd E choose sequential (map q modes) (perm x)) = perm (snd (hosvd E choose sequential modes x)) /\
  Forall2 conj_of (fst (hosvd E choose sequential (map q modes) (perm x))) (fst (hosvd E choose sequential modes x)).
Proof.
  intros [|] modes x; unfold hosvd, hosvd_nonseq; [apply hosvd_seq_relabel|apply hosvd_nonseq_relabel].
Qed.

Variable permF : Fs -> Fs.                 (* the factor list permuted *)
Hypothesis upd_perm : forall n U x, upd (q n) (permF U) (perm x) = permF (upd n U x).

Lemma sweep_relabel dimorder : forall U x,
  sweep E Fs upd (map q dimorder) (permF U) (perm x) = permF (sweep E Fs upd dimorder U x).
Proof.
  unfold sweep. induction dimorder as [|n ms IH]; intros U x; cbn [map fold_left]; [reflexivity|].
  rewrite upd_perm. apply IH.
Qed.

Theorem tucker_als_relabel : forall (dimorder : list nat) (k : nat) (U : Fs) (x : E),
  sweeps E Fs upd (map q dimorder) k (permF U) (perm x) = permF (sweeps E Fs upd dimorder k U x).
Proof.
  intros dimorder k. induction k as [|k IH]; intros U x; cbn [sweeps]; [reflexivity|].
  rewrite sweep_relabel. apply IH.
Qed.

(* the core of the relabelled run is the relabelled core; relabelling preserves norms *)
Variable permC : F -> F.
Hypothesis A_perm : forall U x, A (permF U) (perm x) = permC (A U x).
Hypothesis innerF_perm : forall g, innerF (permC g) (permC g) = innerF g g.
Hypothesis nrm_perm : forall x, nrm2 E inner (perm x) = nrm2 E inner x.

Theorem tucker_als_relabel_loop : forall (dimorder : list nat) (maxiters : nat) (U : Fs) (fit0 : R) (x : E),
  let r := als_loop E inner Fs F A innerF upd stoptol dimorder maxiters U fit0 x in
  let r' := als_loop E inner Fs F A innerF upd stoptol (map q dimorder) maxiters (permF U) fit0 (perm x) in
  fst (fst r') = permF (fst (fst r)) /\ snd (fst r') = snd (fst r) /\ snd r' = snd r /\
  A (fst (fst r')) (perm x) = permC (A (fst (fst r)) x).
Proof.
  intros dimorder maxiters U fit0 x.
  assert (H : forall U fit0,
    als_loop E inner Fs F A innerF upd stoptol (map q dimorder) maxiters (permF U) fit0 (perm x)
    = (permF (fst (fst (als_loop E inner Fs F A innerF upd stoptol dimorder maxiters U fit0 x))),
       snd (fst (als_loop E inner Fs F A innerF upd stoptol dimorder maxiters U fit0 x)),
       snd (als_loop E inner Fs F A innerF upd stoptol dimorder maxiters U fit0 x))).
  { induction maxiters as [|k IH]; intros U' f0; cbn [als_loop]; [reflexivity|].
    rewrite sweep_relabel, A_perm.
    assert (Hf : fit_of E inner F innerF (perm x) (permC (A (sweep E Fs upd dimorder U' x) x))
                 = fit_of E inner F innerF x (A (sweep E Fs upd dimorder U' x) x)).
    { unfold fit_of, resid2. fold (nrm2 E inner (perm x)) (nrm2 E inner x). now rewrite innerF_perm, nrm_perm. }
    rewrite Hf. destruct (Rltb _ stoptol); [reflexivity|]. rewrite IH. reflexivity. }
  cbv zeta. rewrite H. cbn [fst snd]. repeat split; try reflexivity. apply A_perm.
Qed.
End Abstract.
