(* Np/NpZ.v — "numpy in Gallina" over Z: the primitives that the translator (tools/pyx2v.py)
   maps numpy calls to.  Definitions only (characterising lemmas live in Proofs/).
   Each definition names the numpy call it stands for; the mapping is validated by the
   primitive-level differential test (./check np-primitives), not proved. *)
From Coq Require Import List ZArith Bool Lia.
Import ListNotations.
Local Open Scope Z_scope.

Inductive res (A : Type) : Type := Ok (a : A) | Err.
Arguments Ok {A} a.
Arguments Err {A}.

Definition bind {A B} (r : res A) (f : A -> res B) : res B :=
  match r with Ok a => f a | Err => Err end.

Definition is_some {A} (o : option A) : bool := match o with Some _ => true | None => false end.

Definition vec := list Z.
Definition mat := list (list Z).
Definition bvec := list bool.

Definition zlen {A} (l : list A) : Z := Z.of_nat (length l).

(* a[k] for a Python int k (negative wraps); out of range -> default (callers guard) *)
Definition znth {A} (d : A) (l : list A) (k : Z) : A :=
  let k' := if k <? 0 then k + zlen l else k in
  if k' <? 0 then d else nth (Z.to_nat k') l d.

(* np.arange(a, b) *)
Definition np_arange (a b : Z) : vec := map (fun k => a + Z.of_nat k) (seq 0 (Z.to_nat (b - a))).

Definition zmem (x : Z) (l : vec) : bool := existsb (Z.eqb x) l.

(* np.isin(a, b) *)
Definition np_isin (a b : vec) : bvec := map (fun x => zmem x b) a.
(* np.all / np.any on a boolean vector *)
Definition np_all (l : bvec) : bool := forallb (fun b => b) l.
Definition np_any (l : bvec) : bool := existsb (fun b => b) l.
(* a < c element-wise *)
Definition np_lt_s (a : vec) (c : Z) : bvec := map (fun x => x <? c) a.

(* stable insertion sort on (key, position) pairs: np.argsort(kind="stable"); numpy's default
   introsort is an insertion sort (hence stable) for n <= 16, which covers mode lists *)
Fixpoint ins_pair (p : Z * Z) (l : list (Z * Z)) : list (Z * Z) :=
  match l with
  | [] => [p]
  | q :: r => if fst p <=? fst q then p :: l else q :: ins_pair p r
  end.
Definition isort_pairs (l : list (Z * Z)) : list (Z * Z) := fold_right ins_pair [] l.
Definition tagged (l : vec) : list (Z * Z) := combine l (map Z.of_nat (seq 0 (length l))).
Definition np_argsort (l : vec) : vec := map snd (isort_pairs (tagged l)).
Definition np_sort (l : vec) : vec := map fst (isort_pairs (tagged l)).

(* a[idx] with an integer index vector *)
Definition np_take {A} (d : A) (a : list A) (idx : vec) : list A := map (znth d a) idx.
(* a[mask] with a boolean mask *)
Fixpoint np_mask {A} (a : list A) (m : bvec) : list A :=
  match a, m with
  | x :: a', b :: m' => if b then x :: np_mask a' m' else np_mask a' m'
  | _, _ => []
  end.

(* sorted, de-duplicated values: np.unique(a) *)
Fixpoint ins_uniq (x : Z) (l : vec) : vec :=
  match l with
  | [] => [x]
  | y :: r => if x <? y then x :: l else if x =? y then l else y :: ins_uniq x r
  end.
Definition np_unique (a : vec) : vec := fold_right ins_uniq [] a.
(* np.setdiff1d(a, b): sorted unique values of a that are not in b *)
Definition np_setdiff1d (a b : vec) : vec := filter (fun x => negb (zmem x b)) (np_unique a).

(* rows *)
Fixpoint row_eqb (r1 r2 : vec) : bool :=
  match r1, r2 with
  | [], [] => true
  | x :: r1', y :: r2' => (x =? y) && row_eqb r1' r2'
  | _, _ => false
  end.
Fixpoint row_ltb (r1 r2 : vec) : bool :=   (* lexicographic, as np.unique(axis=0) orders rows *)
  match r1, r2 with
  | x :: r1', y :: r2' => if x <? y then true else if x =? y then row_ltb r1' r2' else false
  | [], _ :: _ => true
  | _, _ => false
  end.

Definition np_nrows (m : mat) : Z := zlen m.
Definition np_size2 (m : mat) : Z := fold_right Z.add 0 (map zlen m).

(* np.unique(m, axis=0, return_index=True): sorted distinct rows and, for each, the index of its
   FIRST occurrence in m *)
Fixpoint ins_urow (p : vec * Z) (l : list (vec * Z)) : list (vec * Z) :=
  match l with
  | [] => [p]
  | q :: r => if row_ltb (fst p) (fst q) then p :: l
              else if row_eqb (fst p) (fst q) then (fst q, Z.min (snd p) (snd q)) :: r
              else q :: ins_urow p r
  end.
Definition np_unique_rows (m : mat) : mat * vec :=
  let l := fold_right ins_urow [] (combine m (map Z.of_nat (seq 0 (length m)))) in
  (map fst l, map snd l).

(* (row_idx, col_idx) = np.nonzero(np.all(source == search[:, np.newaxis], axis=2)):
   all pairs (i, j), in row-major order, with search[i] == source[j] *)
Definition np_match_pairs (search source : mat) : vec * vec :=
  let pairs := flat_map (fun ip : nat * vec =>
                 flat_map (fun jq : nat * vec =>
                   if row_eqb (snd ip) (snd jq) then [(Z.of_nat (fst ip), Z.of_nat (fst jq))] else [])
                   (combine (seq 0 (length source)) source))
               (combine (seq 0 (length search)) search) in
  (map fst pairs, map snd pairs).

(* a[idx] = vals  (fancy-index scatter; for repeated indices the last write wins) *)
Fixpoint upd {A} (l : list A) (k : nat) (v : A) : list A :=
  match l, k with
  | [], _ => []
  | _ :: l', O => v :: l'
  | x :: l', S k' => x :: upd l' k' v
  end.
Fixpoint np_scatter {A} (a : list A) (idx : vec) (vals : list A) : list A :=
  match idx, vals with
  | i :: idx', v :: vals' => np_scatter (upd a (Z.to_nat i) v) idx' vals'
  | _, _ => a
  end.
Definition np_scatter_const {A} (a : list A) (idx : vec) (v : A) : list A :=
  fold_left (fun acc i => upd acc (Z.to_nat i) v) idx a.

Definition np_full {A} (n : Z) (v : A) : list A := repeat v (Z.to_nat n).

Definition zprod (l : vec) : Z := fold_right Z.mul 1 l.

(* np.ravel_multi_index(tuple(subs.T), shape, order="F") per row; numpy raises when a subscript is
   outside [0, shape[k]) *)
Fixpoint ravelF (shape row : vec) : res Z :=
  match shape, row with
  | [], [] => Ok 0
  | d :: s', x :: r' =>
      if (x <? 0) || (d <=? x) then Err
      else bind (ravelF s' r') (fun k => Ok (x + d * k))
  | _, _ => Err
  end.
Fixpoint ravelC_acc (shape row : vec) (acc : Z) : res Z :=
  match shape, row with
  | [], [] => Ok acc
  | d :: s', x :: r' =>
      if (x <? 0) || (d <=? x) then Err else ravelC_acc s' r' (acc * d + x)
  | _, _ => Err
  end.
Inductive memorder := OrdF | OrdC.
Definition np_ravel_row (o : memorder) (shape row : vec) : res Z :=
  match o with OrdF => ravelF shape row | OrdC => ravelC_acc shape row 0 end.
Fixpoint mapM {A B} (f : A -> res B) (l : list A) : res (list B) :=
  match l with
  | [] => Ok []
  | x :: l' => bind (f x) (fun y => bind (mapM f l') (fun ys => Ok (y :: ys)))
  end.
Definition np_ravel_multi_index (o : memorder) (subs : mat) (shape : vec) : res vec :=
  mapM (np_ravel_row o shape) subs.

(* np.unravel_index(idx, shape, order) then .transpose(): one subscript row per linear index;
   numpy raises when an index is outside [0, prod(shape)) *)
Fixpoint unravelF (shape : vec) (k : Z) : vec :=
  match shape with
  | [] => []
  | d :: s' => (k mod d) :: unravelF s' (k / d)
  end.
Definition unravelC (shape : vec) (k : Z) : vec := rev (unravelF (rev shape) k).
Definition np_unravel_row (o : memorder) (shape : vec) (k : Z) : res vec :=
  if (k <? 0) || (zprod shape <=? k) then Err
  else Ok (match o with OrdF => unravelF shape k | OrdC => unravelC shape k end).
Definition np_unravel_index (o : memorder) (idx : vec) (shape : vec) : res mat :=
  mapM (np_unravel_row o shape) idx.

(* idx[idx < 0] += c *)
Definition np_wrap_neg (idx : vec) (c : Z) : vec := map (fun k => if k <? 0 then k + c else k) idx.
