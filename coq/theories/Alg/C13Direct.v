(* Alg/C13Direct.v — samplers.nonzeros / samplers.zeros called directly, with and WITHOUT replacement (wave 5, builder w5-C13).

   Line-by-line transliteration of the branches the stratified / semi-stratified samplers never take (they always sample with
   replacement): the choice of the nonzero positions (identity when samples == nnz, np.random.choice otherwise, rejection of more
   samples than nonzeros without replacement) and the three rejections + np.unique step of zeros.  Random draws, the positions
   np.random.choice answers and the float ceilings are inputs / recorded oracles as in Alg/C13Samplers.v / C13Harness.v.  np.unique
   (sorted distinct rows) is a parameter `uniq` of the theorems, of which only "duplicate-free, nothing new" is assumed; the check runs
   the executable lex_usort and tests its answer for duplicates on every case. *)
From Coq Require Import List ZArith Arith Bool Lia.
From PV Require Import Base.Index Np.Array Model.Sparse Model.Harness Alg.C13Samplers Alg.C13Config Alg.C13Harness.
Import ListNotations.

(* ---- nonzeros(data, samples, with_replacement) ---- *)
Inductive nz_mode := NzIdentity | NzChoice | NzReject.
Definition nonzeros_mode (nnz samples : nat) (with_repl : bool) : nz_mode :=
  if Nat.eqb samples nnz then NzIdentity                              (* nidx = np.arange(0, nnz) *)
  else if with_repl || Nat.ltb samples nnz then NzChoice              (* np.random.choice(nnz, size=samples, replace=with_replacement) *)
  else NzReject.                                                      (* "Tensor doesn't have enough nonzeros to sample" *)

Theorem nonzeros_mode_spec : forall nnz samples wr,
  (nonzeros_mode nnz samples wr = NzReject <-> wr = false /\ nnz < samples) /\
  (nonzeros_mode nnz samples wr = NzIdentity <-> samples = nnz).
Proof.
  intros nnz samples wr. unfold nonzeros_mode.
  destruct (Nat.eqb_spec samples nnz) as [E|E]; [subst; split; split; try discriminate; auto; intros [_ H]; lia|].
  destruct wr; cbn [orb].
  - split; split; try discriminate; try (intros [H _]; discriminate H); intros H; contradiction.
  - destruct (Nat.ltb_spec samples nnz); split; split; try discriminate; auto; try (intros [_ H']; lia); try (intros H'; contradiction).
    intros _. split; [reflexivity|lia].
Qed.

(* ---- zeros(data, nz_idx, samples, over_sample_rate, with_replacement) ---- *)
Inductive z_reject := RRate | RCount | RTooMany.
(* the rejections in source order; ntmp1 = np.ceil(samples * data_size / num_zeros) as recorded *)
Definition zeros_decide (rate_ok with_repl : bool) (size numz samples ntmp1 : Z) : option z_reject :=
  if negb rate_ok then Some RRate                                         (* over_sample_rate < 1.1 *)
  else if negb with_repl && (numz <? samples)%Z then Some RCount          (* not with_replacement and samples > num_zeros *)
  else if negb with_repl && (size <=? ntmp1)%Z then Some RTooMany         (* not with_replacement and ntmp >= data_size *)
  else None.

Section Rows.
Variable uniq : list (list Z) -> list (list Z).          (* np.unique(tmpsubs, axis=0) *)
Hypothesis uniq_nodup : forall l, NoDup (uniq l).
Hypothesis uniq_incl : forall l, incl (uniq l) l.

Definition zeros_rows (s : shape) (nzidx : list Z) (with_repl : bool) (draws : list (list Z)) (req : nat) : list (list Z) :=
  let tmpsubs := map (draw_row D53 s) draws in
  let tmpsubs := if with_repl then tmpsubs else uniq tmpsubs in
  firstn req (filter (is_zero_row s nzidx) tmpsubs).

Lemma NoDup_filter {A} (f : A -> bool) l : NoDup l -> NoDup (filter f l).
Proof.
  induction 1 as [|x l Hx Hn IH]; cbn; [constructor|]. destruct (f x); auto. constructor; auto.
  intros H. apply filter_In in H. tauto.
Qed.
Lemma my_firstn_In {A} (x : A) n : forall l, In x (firstn n l) -> In x l.
Proof. induction n as [|n IH]; intros [|y l] H; cbn in *; try contradiction. destruct H as [H|H]; [left; exact H|right; auto]. Qed.
Lemma NoDup_firstn {A} n (l : list A) : NoDup l -> NoDup (firstn n l).
Proof.
  revert l; induction n as [|n IH]; intros [|x l] H; cbn; try constructor.
  - inversion H; subst. intros Hin. apply my_firstn_In in Hin. contradiction.
  - inversion H; subst. auto.
Qed.

(* never more rows than requested; every row is one of the drawn subscripts and is no nonzero's; without replacement no row twice *)
Theorem zeros_rows_spec : forall s nzidx wr draws req,
  let rows := zeros_rows s nzidx wr draws req in
  length rows <= req /\
  (forall r, In r rows -> In r (map (draw_row D53 s) draws) /\ is_zero_row s nzidx r = true) /\
  (wr = false -> NoDup rows).
Proof.
  intros s nzidx wr draws req rows. subst rows. unfold zeros_rows. repeat split.
  - rewrite firstn_length. lia.
  - apply my_firstn_In, filter_In in H as [H _]. destruct wr; [exact H|exact (uniq_incl _ _ H)].
  - apply my_firstn_In, filter_In in H as [_ H]. exact H.
  - intros ->. apply NoDup_firstn, NoDup_filter, uniq_nodup.
Qed.
End Rows.

(* a request that cannot be met without replacement is rejected: whenever rows are returned without replacement, samples <= num_zeros *)
Theorem zeros_accept_bound : forall rate_ok size numz samples ntmp1,
  zeros_decide rate_ok false size numz samples ntmp1 = None -> (samples <= numz /\ ntmp1 < size)%Z /\ rate_ok = true.
Proof.
  intros rate_ok size numz samples ntmp1. unfold zeros_decide. destruct rate_ok; cbn; [|discriminate].
  destruct (Z.ltb_spec numz samples); [discriminate|]. destruct (Z.leb_spec size ntmp1); [discriminate|]. intros _. lia.
Qed.
(* with replacement only the oversampling rate can be refused *)
Theorem zeros_with_replacement_accepts : forall size numz samples ntmp1, zeros_decide true true size numz samples ntmp1 = None.
Proof. reflexivity. Qed.

(* ---- executable np.unique(axis=0): rows in lexicographic order, each once ---- *)
Fixpoint lex_cmp (a b : list Z) : comparison :=
  match a, b with
  | [], [] => Eq | [], _ => Lt | _, [] => Gt
  | x :: a', y :: b' => match Z.compare x y with Eq => lex_cmp a' b' | c => c end
  end.
Fixpoint lex_insert (x : list Z) (l : list (list Z)) : list (list Z) :=
  match l with
  | [] => [x]
  | y :: r => match lex_cmp x y with Lt => x :: y :: r | Eq => y :: r | Gt => y :: lex_insert x r end
  end.
Definition lex_usort (l : list (list Z)) : list (list Z) := fold_right lex_insert [] l.
Fixpoint nodupb (l : list (list Z)) : bool :=
  match l with [] => true | x :: r => negb (existsb (vec_eqb x) r) && nodupb r end.

(* ---- the checks ---- *)
Definition z_reject_eqb (a b : z_reject) : bool :=
  match a, b with RRate, RRate | RCount, RCount | RTooMany, RTooMany => true | _, _ => false end.
(* samplers.zeros: decision (with the recorded first ceiling), rows, no duplicate without replacement, and the number of drawn rows is
   the answer of the LAST recorded ceiling (int(np.ceil(over_sample_rate * ntmp))) *)
Definition zdirect_ok (S : sparse Z) (rate_ok with_repl : bool) (samples : Z) (calls : list (Z * Z * Z)) (draws : list (list Z))
                      (raised : option z_reject) (rows : list (list Z)) : bool :=
  let size := Z.of_nat (Index.size (sshape S)) in
  let numz := (size - Z.of_nat (nnz S))%Z in
  let ntmp1 := cd_obs calls (samples * size) numz in
  match zeros_decide rate_ok with_repl size numz samples ntmp1, raised with
  | Some r, Some r' => z_reject_eqb r r'
  | None, None =>
      list_eqb vec_eqb (zeros_rows lex_usort (sshape S) (znzidx S) with_repl draws (Z.to_nat samples)) rows &&
      (with_repl || nodupb rows) && (0 <=? ntmp1)%Z &&
      match rev calls with (_, _, ans) :: _ => Z.eqb ans (Z.of_nat (length draws)) | [] => false end
  | _, _ => false
  end.
(* samplers.nonzeros: which branch, the positions (identity = every stored entry once, in order), the returned rows and values *)
Definition nzdirect_ok (S : sparse Z) (samples : nat) (with_repl : bool) (raised : bool) (nidx : list nat)
                       (subs : list (list Z)) (vals : list Z) : bool :=
  match nonzeros_mode (nnz S) samples with_repl with
  | NzReject => raised
  | m =>
      negb raised && Nat.eqb (length nidx) samples && forallb (fun k => Nat.ltb k (nnz S)) nidx &&
      (match m with NzIdentity => list_eqb Nat.eqb nidx (seq 0 (nnz S)) | _ => true end) &&
      (with_repl || nodupb (map (fun k => [Z.of_nat k]) nidx)) &&
      list_eqb vec_eqb (nz_subs S nidx) subs && vec_eqb (nz_vals 0%Z S nidx) vals
  end.

Example lex_usort_example : lex_usort [[1; 2]; [0; 5]; [1; 2]; [1; 0]; [0; 5]]%Z = [[0; 5]; [1; 0]; [1; 2]]%Z.
Proof. reflexivity. Qed.
Example nonzeros_mode_example : nonzeros_mode 3 5 false = NzReject /\ nonzeros_mode 3 5 true = NzChoice /\ nonzeros_mode 3 3 false = NzIdentity.
Proof. repeat split. Qed.
