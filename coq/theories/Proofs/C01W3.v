(* Proofs/C01W3.v — third wave: the conversions that were correspondence-only (Model/C01W3.v):
   ktensor.to_tenmat, the double() aliases, sptenmat(..., copy=False), and ttensor.full() with a SPARSE core
   (sptensor.ttm in mode 0 through to_sptenmat / scipy product / from_array / to_sptensor / to_tensor, tensor.ttm afterwards). *)
From Coq Require Import List Arith Lia Bool Permutation Ring.
From PV Require Import Base.Index Base.Perm Base.Sum Np.Array Model.Sparse Model.Repr Model.C07Ops Model.C01Conv
  Model.C01Unique Model.C01Coo Model.C02Spec Model.C02Dense Model.C01Ttm Model.C01W3
  Proofs.C07Index Proofs.C07Proofs Proofs.C01Proofs Proofs.C01Kruskal Proofs.C01Tucker Proofs.C01Unique Proofs.C01Converse
  Proofs.C01Coo Proofs.C02DenseProofs Proofs.C01Ttm.
Import ListNotations.

Section W3Proofs.
Variable V : Type.
Variables (v0 v1 : V) (vadd vmul vsub : V -> V -> V) (vopp : V -> V) (isz : V -> bool).
Hypothesis Vring : ring_theory v0 v1 vadd vmul vsub vopp (@eq V).
Hypothesis isz_spec : forall v, isz v = true <-> v = v0.
Add Ring Vr01w3 : Vring.

(* ------------------------------------------------------------------ ktensor.full with the rank-0 branch (/repo d9f07bf) *)
Lemma den_dense_zeros s i : den_dense v0 (dense_zeros v0 s) i = v0.
Proof.
  unfold den_dense, dense_zeros. cbn [dshape ddata]. destruct (inb s i); [|reflexivity].
  apply nth_repeat.
Qed.

Lemma wf_dense_zeros s : wf_dense (dense_zeros v0 s).
Proof. unfold wf_dense, dense_zeros. cbn. apply repeat_length. Qed.

(* no component: the zero tensor of the shape the factor matrices give, whatever else holds of K *)
Theorem ktensor_full_code_rank0 (K : ktensor V) : krank K = 0 ->
  ktensor_full_code v0 vadd vmul K = Some (dense_zeros v0 (kshape K)) /\
  wf_dense (dense_zeros v0 (kshape K)) /\
  (forall i, den_dense v0 (dense_zeros v0 (kshape K)) i = den_k v0 v1 vadd vmul K i) /\
  (forall i, den_k v0 v1 vadd vmul K i = v0) /\
  dense_zeros v0 (kshape K) = ktensor_full_spec v0 v1 vadd vmul K.
Proof.
  intros HR.
  assert (Hk : forall i, den_k v0 v1 vadd vmul K i = v0).
  { intros i. unfold den_k. rewrite HR. destruct (inb (kshape K) i); reflexivity. }
  split; [unfold ktensor_full_code; now rewrite HR|]. split; [apply wf_dense_zeros|].
  split; [intros i; now rewrite den_dense_zeros, Hk|]. split; [exact Hk|].
  apply (dense_ext v0); [apply wf_dense_zeros|apply wf_tabulate|reflexivity|].
  intros i Hi. change (dshape (dense_zeros v0 (kshape K))) with (kshape K) in Hi.
  unfold ktensor_full_spec. now rewrite den_dense_zeros, den_tabulate, Hk.
Qed.

(* ktensor.full as the code is, every N >= 1 and EVERY rank (0 included) *)
Theorem ktensor_full_code_correct (K : ktensor V) :
  rows_ok V (krank K) (kfactors K) -> 1 <= length (kfactors K) ->
  exists D, ktensor_full_code v0 vadd vmul K = Some D /\ wf_dense D /\ dshape D = kshape K /\
    (forall i, den_dense v0 D i = den_k v0 v1 vadd vmul K i) /\
    D = ktensor_full_spec v0 v1 vadd vmul K.
Proof.
  intros Hok HN. destruct (Nat.eq_dec (krank K) 0) as [HR|HR].
  - destruct (ktensor_full_code_rank0 K HR) as (E & W & Hd & _ & HS).
    exists (dense_zeros v0 (kshape K)). repeat (split; auto).
  - destruct (ktensor_full_correct V v0 v1 vadd vmul vsub vopp Vring K Hok HN) as (D & E & W & Hs & Hd & HS).
    exists D. unfold ktensor_full_code. apply Nat.eqb_neq in HR. rewrite HR. repeat (split; auto).
Qed.

(* ------------------------------------------------------------------ ktensor.to_tenmat = full().to_tenmat(...) *)
Theorem ktensor_to_tenmat_correct (K : ktensor V) rd cd cy :
  rows_ok V (krank K) (kfactors K) -> 1 <= length (kfactors K) -> request_ok (length (kfactors K)) rd cd ->
  exists r c M, gather_wrap_dims (length (kshape K)) rd cd cy = Some (r, c) /\ is_perm (r ++ c) (length (kshape K)) /\
    ktensor_to_tenmat v0 vadd vmul K rd cd cy = Some M /\ tm_r M = r /\ tm_c M = c /\ tm_tshape M = kshape K /\
    wf_dense (tm_data M) /\ dshape (tm_data M) = [size (pick 0 r (kshape K)); size (pick 0 c (kshape K))] /\
    (forall i, inb (kshape K) i = true -> den_tenmat v0 M i = den_k v0 v1 vadd vmul K i) /\
    tenmat_to_tensor v0 M = ktensor_full_spec v0 v1 vadd vmul K.
Proof.
  intros Hok HN Hreq.
  destruct (ktensor_full_code_correct K Hok HN) as (D & E & W & Hs & Hden & HD).
  assert (HL : length (kshape K) = length (kfactors K)) by (unfold kshape; apply map_length).
  destruct (gather_wrap_dims_partition (length (kfactors K)) rd cd cy Hreq) as (r & c & Eg & Hp & _).
  assert (Hp' : is_perm (r ++ c) (length (dshape D))) by (now rewrite Hs, HL).
  destruct (to_tenmat_correct v0 D r c W Hp') as (M & EM & Er & Ec & Ets & WM & HsM & HdM & Hback).
  exists r, c, M. rewrite HL. split; [exact Eg|]. split; [exact Hp|]. split.
  { unfold ktensor_to_tenmat. rewrite E. unfold to_tenmat_req. rewrite Hs, HL, Eg. exact EM. }
  split; [exact Er|]. split; [exact Ec|]. split; [now rewrite Ets|]. split; [exact WM|]. split; [now rewrite HsM, Hs|].
  split.
  - intros i Hi. rewrite <- Hden. apply HdM. now rewrite Hs.
  - now rewrite Hback.
Qed.

(* ------------------------------------------------------------------ double() = full().double() *)
Theorem double_aliases_correct :
  (forall K : ktensor V, rows_ok V (krank K) (kfactors K) -> 1 <= length (kfactors K) ->
     ktensor_double v0 vadd vmul K = ktensor_full_code v0 vadd vmul K /\
     ktensor_double v0 vadd vmul K = Some (ktensor_full_spec v0 v1 vadd vmul K)) /\
  (forall T : ttensor V, wf_dense (tcore T) -> length (dshape (tcore T)) = length (tfactors T) ->
     ttensor_double v0 vadd vmul T = ttensor_full_impl v0 vadd vmul T /\
     wf_dense (ttensor_double v0 vadd vmul T) /\ dshape (ttensor_double v0 vadd vmul T) = tshape T /\
     forall i, den_dense v0 (ttensor_double v0 vadd vmul T) i = den_t v0 v1 vadd vmul T i) /\
  (forall s (parts : list (part V)), parts <> [] -> Forall (part_ok V v0 v1 vadd vmul s) parts ->
     sum_double v0 v1 vadd vmul parts = sum_full v0 v1 vadd vmul parts /\
     exists R, sum_double v0 v1 vadd vmul parts = Some R /\ wf_dense R /\ dshape R = s /\
       forall i, inb s i = true -> den_dense v0 R i = den_sum v0 vadd (map (part_den v0 v1 vadd vmul) parts) i).
Proof.
  split; [|split].
  - intros K Hok HN. destruct (ktensor_full_code_correct K Hok HN) as (D & E & _ & _ & _ & HD).
    unfold ktensor_double. rewrite E. cbn. split; [reflexivity|]. now rewrite HD.
  - intros T W HN. destruct (ttensor_full_impl_correct V v0 v1 vadd vmul vsub vopp Vring T W HN) as (_ & W' & Hs & Hd).
    unfold ttensor_double, dense_double. auto.
  - intros s parts Hne Hok. destruct (sum_full_correct V v0 v1 vadd vmul vsub vopp Vring s parts Hne Hok) as (R & E & WR & Hs & Hd).
    unfold sum_double. rewrite E. cbn. split; [reflexivity|]. exists R. auto.
Qed.

(* ------------------------------------------------------------------ sptenmat(..., copy=False) *)
Theorem stm_ctor_nocopy_correct subs vals rd cd ts M : stm_ctor_nocopy subs vals rd cd ts = Some M ->
  length subs = length vals -> Forall (fun rc => length rc = 2) subs ->
  exists r c, gather_wrap_dims (length ts) rd cd None = Some (r, c) /\ is_perm (r ++ c) (length ts) /\
    M = mkSTM subs vals r c ts /\
    Forall (fun rc => inb (stm_shape M) rc = true) (stm_subs M) /\
    (* copy=True stores the normal form of what copy=False stores *)
    stm_ctor vadd isz (Some subs) (Some vals) rd cd ts = Some (stm_norm vadd isz M) /\
    (ssorted subs -> Forall (fun v => isz v = false) vals -> stm_ctor vadd isz (Some subs) (Some vals) rd cd ts = Some M) /\
    let S := sptenmat_to_sptensor M in
    sshape S = ts /\ Forall (fun j => inb ts j = true) (ssubs S) /\ svals S = vals /\ nnz S = length subs /\
    (NoDup subs -> NoDup (ssubs S)) /\
    to_sptenmat S r c = Some M /\
    (forall i, inb ts i = true -> den_sp v0 S i = den_sptenmat v0 M i) /\
    (forall i, inb ts i = true -> den_tenmat v0 (sptenmat_full v0 M) i = den_sptenmat v0 M i).
Proof.
  intros E HL H2.
  assert (G : exists r c, gather_wrap_dims (length ts) rd cd None = Some (r, c) /\ is_perm (r ++ c) (length ts) /\
            forallb (fun rc => nth 0 rc 0 <? size (pick 0 r ts)) subs = true /\
            forallb (fun rc => nth 1 rc 0 <? size (pick 0 c ts)) subs = true /\
            (rd <> None \/ cd <> None) /\
            M = match vals with [] => mkSTM [] [] r c ts | _ => mkSTM subs vals r c ts end).
  { unfold stm_ctor_nocopy in E.
    assert (Hrc : rd <> None \/ cd <> None) by (destruct rd, cd; try discriminate; [left|left|right]; congruence).
    assert (E' : match gather_wrap_dims (length ts) rd cd None with
                 | Some (r, c) =>
                     if negb (is_permb (r ++ c) (length ts)) then None
                     else if negb (forallb (fun rc => nth 0 rc 0 <? size (pick 0 r ts)) subs) then None
                     else if negb (forallb (fun rc => nth 1 rc 0 <? size (pick 0 c ts)) subs) then None
                     else Some (match vals with [] => mkSTM [] [] r c ts | _ => mkSTM subs vals r c ts end)
                 | None => None end = Some M) by (destruct rd, cd; try exact E; discriminate).
    clear E. destruct (gather_wrap_dims (length ts) rd cd None) as [[r c]|]; [|discriminate].
    destruct (is_permb (r ++ c) (length ts)) eqn:Ep; cbn [negb] in E'; [|discriminate].
    destruct (forallb (fun rc => nth 0 rc 0 <? size (pick 0 r ts)) subs) eqn:E0; cbn [negb] in E'; [|discriminate].
    destruct (forallb (fun rc => nth 1 rc 0 <? size (pick 0 c ts)) subs) eqn:E1; cbn [negb] in E'; [|discriminate].
    inversion E'. exists r, c. split; auto. split; [now apply is_permb_spec|]. auto. }
  destruct G as (r & c & Eg & Hp & E0 & E1 & Hrc & EM).
  assert (EM' : M = mkSTM subs vals r c ts).
  { rewrite EM. destruct vals; auto. destruct subs; [reflexivity|discriminate]. }
  clear EM. subst M.
  assert (Hb : Forall (fun rc => inb [size (pick 0 r ts); size (pick 0 c ts)] rc = true) subs).
  { rewrite Forall_forall in *. intros rc Hrc'. rewrite forallb_forall in E0, E1. specialize (E0 rc Hrc'). specialize (E1 rc Hrc').
    specialize (H2 rc Hrc'). destruct rc as [|a [|b [|z rc]]]; try discriminate. cbn [nth] in E0, E1. cbn [inb].
    now rewrite E0, E1. }
  assert (Ector : stm_ctor vadd isz (Some subs) (Some vals) rd cd ts = Some (stm_norm vadd isz (mkSTM subs vals r c ts))).
  { unfold stm_ctor. cbn [olist]. rewrite Eg, (proj2 (is_permb_spec _ _) Hp), E0, E1. cbn [negb].
    destruct rd, cd; try reflexivity. destruct Hrc; congruence. }
  exists r, c. split; [exact Eg|]. split; [exact Hp|]. split; [reflexivity|]. split; [exact Hb|]. split; [exact Ector|].
  split.
  { intros Hs Hz. rewrite Ector. f_equal.
    destruct (stm_norm_correct V v0 v1 vadd vmul vsub vopp isz Vring isz_spec (mkSTM subs vals r c ts) 2 HL H2)
      as (_ & _ & _ & _ & _ & _ & _ & _ & _ & _ & Hid). now apply Hid. }
  cbn zeta.
  destruct (sptenmat_back_forth V v0 v1 vadd vmul vsub vopp isz Vring isz_spec (mkSTM subs vals r c ts) Hp HL Hb)
    as (Hs & HbS & Hv & Hn & Hnd & Eto & Hden & _).
  split; [exact Hs|]. split; [exact HbS|]. split; [exact Hv|]. split; [exact Hn|]. split; [exact Hnd|]. split; [exact Eto|].
  split; [exact Hden|].
  intros i Hi. unfold den_tenmat, sptenmat_full, den_sptenmat. cbn [tm_data tm_r tm_c tm_tshape]. now rewrite den_full.
Qed.

(* tenmat(..., copy=False): the same checks and the same stored matrix as copy=True, so C01_tenmat_guard / _converse apply *)
Theorem tm_ctor_nocopy_correct (data : option (dense V)) rd cd ts : tm_ctor_nocopy data rd cd ts = tm_ctor data rd cd ts.
Proof. reflexivity. Qed.

(* ------------------------------------------------------------------ sptensor.ttm in one mode, sparse-core Tucker route *)
Lemma nth_upd_ne' {A} (l : list A) : forall k v j d, j <> k -> nth j (upd l k v) d = nth j l d.
Proof. induction l as [|x l IH]; intros [|k] v [|j] d H; cbn; auto; try congruence. Qed.

Lemma pick_upd_notin (i : idx) n x r : ~ In n r -> pick 0 r (upd i n x) = pick 0 r i.
Proof. intros H. unfold pick. apply map_ext_in. intros k Hk. apply nth_upd_ne'. intros ->. auto. Qed.

Lemma pick_upd_single (i : idx) n x : n < length i -> pick 0 [n] (upd i n x) = [x].
Proof. intros H. unfold pick. cbn [map]. now rewrite nth_upd_same. Qed.

Lemma setdiff_notin N n : ~ In n (setdiff_modes N [n]).
Proof.
  unfold setdiff_modes. intros H. apply filter_In in H as [_ H]. cbn [existsb] in H. rewrite Nat.eqb_refl in H. discriminate.
Qed.

Lemma inb_upd_back (s : shape) (i : idx) n J k : n < length s -> inb (upd s n J) i = true -> k < nth n s 0 ->
  inb s (upd i n k) = true.
Proof.
  intros Hn Hi Hk. apply inb_nth in Hi as [HL Hm]. rewrite upd_length in HL, Hm. apply inb_nth. rewrite upd_length. split; [exact HL|].
  intros m Hlt. destruct (Nat.eq_dec m n) as [->|Hne].
  - rewrite nth_upd_same by lia. exact Hk.
  - rewrite nth_upd_ne' by exact Hne. specialize (Hm m Hlt). now rewrite nth_upd_ne' in Hm by exact Hne.
Qed.

Lemma size_single d : size [d] = d.
Proof. rewrite size_cons. change (size []) with 1. lia. Qed.

Lemma sub2ind_single d x : sub2ind [d] [x] = x.
Proof. cbn [sub2ind]. lia. Qed.

Theorem sp_ttm_correct (G : sparse V) (U : matrix (V:=V)) n : wf_sp isz G -> n < length (sshape G) ->
  sp_ttm v0 vadd vmul isz G U n = Some (ttm_mode v0 vadd vmul (full v0 G) U n).
Proof.
  intros WG Hn. set (s := sshape G) in *. set (N := length s) in *. set (J := nrows U).
  set (r := setdiff_modes N [n]). set (c := [n]).
  destruct WG as (HL & HnoD & HbG & HzG).
  assert (WG : wf_sp isz G) by (repeat split; auto).
  assert (Hnr : ~ In n r) by apply setdiff_notin.
  assert (Hp : is_perm (r ++ c) N).
  { apply setdiff_perm; [repeat constructor; auto|]. intros k [<-|[]]. exact Hn. }
  unfold sp_ttm, to_sptenmat_sorted_req. fold s N. cbn [gather_wrap_dims]. fold r c.
  destruct (to_sptenmat_sorted_correct V v0 v1 vadd vmul vsub vopp isz Vring isz_spec G r c Hp HbG HL)
    as (M0 & X & _ & EX & _ & Xr & Xc & Xts & Xsort & Xwf & _ & Xrest).
  destruct (Xrest WG) as (_ & _ & Xden & _). clear Xrest.
  rewrite EX. rewrite Xr, Xc. fold s in Xts, Xden.
  destruct Xwf as (XL & XnoD & Xb & _). cbn [stm_sp ssubs svals sshape] in XL, XnoD, Xb.
  destruct (stm_double_correct V v0 v1 vadd vmul vsub vopp Vring X XL XnoD Xb) as (_ & EXd & _).
  rewrite EXd. unfold sptenmat_full. cbn [tm_data].
  set (Xa := full v0 (stm_sp X)).
  assert (XaS : dshape Xa = [size (pick 0 r s); nth n s 0]).
  { unfold Xa, full. cbn [dshape stm_sp sshape]. unfold stm_shape. rewrite Xr, Xc, Xts. unfold c, pick. cbn [map]. now rewrite size_single. }
  assert (XaD : forall rc, den_dense v0 Xa rc = den_sp v0 (stm_sp X) rc) by (intros rc; unfold Xa; now apply den_full).
  set (R := size (pick 0 r s)) in *.
  set (Z := matmul_xut v0 vadd vmul Xa U).
  assert (ZS : dshape Z = [R; J]) by (unfold Z, matmul_xut; rewrite dshape_tabulate, XaS; reflexivity).
  set (siz := set_nth s n J).
  assert (Esiz : siz = upd s n J) by apply set_nth_upd.
  assert (Lsiz : length siz = N) by (rewrite Esiz; apply upd_length).
  assert (Prs : pick 0 r siz = pick 0 r s) by (rewrite Esiz; now apply pick_upd_notin).
  assert (Pcs : pick 0 c siz = [J]) by (rewrite Esiz; now apply pick_upd_single).
  (* from_array accepts *)
  unfold from_array_dense. rewrite ZS.
  set (subs := filter (fun rc => negb (isz (den_dense v0 Z rc))) (rowmajor_subs R J)).
  assert (Hbs : Forall (fun rc => inb [size (pick 0 r siz); size (pick 0 c siz)] rc = true) subs).
  { rewrite Prs, Pcs, size_single. fold R. rewrite Forall_forall. intros rc Hin. apply filter_In in Hin as [Hin _].
    now apply rowmajor_spec. }
  assert (Hps : is_perm (r ++ c) (length siz)) by (now rewrite Lsiz).
  pose proof (stm_ctor_accepts V vadd isz subs (map (den_dense v0 Z) subs) r c siz Hps Hbs) as EY.
  change (set_nth s n (nrows U)) with siz. rewrite EY.
  set (Y := stm_norm vadd isz (mkSTM subs (map (den_dense v0 Z) subs) r c siz)) in *.
  assert (EY' : from_array_dense v0 vadd isz Z (Some r) (Some c) siz = Some Y).
  { unfold from_array_dense. rewrite ZS. exact EY. }
  assert (WZ : wf_dense Z) by (unfold Z, matmul_xut; apply wf_tabulate).
  assert (Hor : Some r <> None \/ Some c <> None) by (left; discriminate).
  destruct (from_array_dense_correct V v0 v1 vadd vmul vsub vopp isz Vring isz_spec Z R J (Some r) (Some c) siz Y
              WZ ZS EY' Hor) as (YD & sb & vl & Yc).
  destruct Yc as (Yts & _ & _ & _ & _ & Yc). cbn zeta in Yc. destruct Yc as (SW & SS & _ & _ & _ & SD).
  set (S := sptenmat_to_sptensor Y) in *.
  assert (Yr : stm_r Y = r) by reflexivity. assert (Yc' : stm_c Y = c) by reflexivity.
  f_equal. apply (dense_ext v0); [apply wf_full|apply wf_tabulate| |].
  - unfold ttm_mode, full. cbn [dshape]. rewrite dshape_tabulate. exact SS.
  - intros i Hi. change (dshape (full v0 S)) with (sshape S) in Hi. rewrite SS in Hi.
    destruct SW as (_ & _ & SbS & _).
    rewrite den_full by exact SbS. rewrite SD by exact Hi. unfold den_sptenmat. rewrite Yts, Yr, Yc', YD.
    destruct (tm_pos_lin siz r c i Hps Hi) as [Hpos _]. rewrite Prs, Pcs, size_single in Hpos. fold R in Hpos.
    unfold Z, matmul_xut. rewrite XaS. cbn [nth]. fold R J. rewrite den_tabulate by exact Hpos.
    unfold ttm_mode. change (dshape (full v0 G)) with s. fold J siz. rewrite den_tabulate by exact Hi.
    pose proof (inb_length _ _ Hi) as Li. rewrite Lsiz in Li.
    assert (Epos : tm_pos siz r c i = [sub2ind (pick 0 r s) (pick 0 r i); nth n i 0]).
    { unfold tm_pos. rewrite Prs, Pcs. replace (pick 0 c i) with [nth n i 0] by reflexivity. now rewrite sub2ind_single. }
    rewrite Epos. cbn [nth].
    apply (sum_n_ext V v0 vadd). intros k Hk.
    rewrite XaD.
    assert (Hik : inb s (upd i n k) = true) by (apply (inb_upd_back s i n J k); auto; now rewrite <- Esiz).
    rewrite set_nth_upd. rewrite den_full by exact HbG. rewrite <- (Xden (upd i n k) Hik).
    unfold den_sptenmat. rewrite Xts, Xr, Xc.
    assert (Epos2 : tm_pos s r c (upd i n k) = [sub2ind (pick 0 r s) (pick 0 r i); k]).
    { unfold tm_pos. rewrite pick_upd_notin by exact Hnr. unfold c. rewrite pick_upd_single by lia.
      replace (pick 0 [n] s) with [nth n s 0] by reflexivity. now rewrite sub2ind_single. }
    rewrite Epos2. ring.
Qed.

(* ttensor.full() with a sparse core as the code runs it (sptensor.ttm in mode 0, tensor.ttm for modes 1..N-1) is the
   subscript-level mode-by-mode product of the densified core, hence the Tucker denotation *)
Theorem ttensor_full_spcore_correct (G : sparse V) (Us : list (matrix (V:=V))) :
  wf_sp isz G -> length (sshape G) = length Us -> Us <> [] ->
  let T := mkT (full v0 G) Us in
  ttensor_full_spcore v0 vadd vmul isz G Us = Some (ttensor_full v0 vadd vmul T) /\
  wf_dense (ttensor_full v0 vadd vmul T) /\ dshape (ttensor_full v0 vadd vmul T) = tshape T /\
  (forall j, den_dense v0 (tcore T) j = den_sp v0 G j) /\
  forall i, den_dense v0 (ttensor_full v0 vadd vmul T) i = den_t v0 v1 vadd vmul T i.
Proof.
  intros WG HN Hne T.
  assert (WT : wf_dense (tcore T)) by apply wf_full.
  assert (HNT : length (dshape (tcore T)) = length (tfactors T)) by exact HN.
  destruct (ttensor_full_correct V v0 v1 vadd vmul vsub vopp Vring T WT HNT) as (W & Hs & Hd).
  split; [|split; [exact W|split; [exact Hs|split; [|exact Hd]]]].
  - destruct Us as [|U rest]; [congruence|]. unfold ttensor_full_spcore. cbn [length] in HN.
    rewrite sp_ttm_correct by (auto; lia). cbn [option_map]. f_equal.
    unfold ttensor_full, T. cbn [tcore tfactors ttm_all].
    apply ttm_all_impl_eq; [apply wf_tabulate|].
    unfold ttm_mode. rewrite dshape_tabulate, set_nth_length. change (dshape (full v0 G)) with (sshape G). lia.
  - intros j. destruct WG as (_ & _ & Hb & _). now apply den_full.
Qed.

End W3Proofs.
