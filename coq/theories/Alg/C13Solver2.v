(* Alg/C13Solver2.v — the failed-epoch test of StochasticSolver.solve (wave 5, builder w5-C13).

   `failed_epoch = f_est > f_est_prev`: f_est_prev is the estimate of the BEST model so far (it is only assigned in the success
   branch), i.e. the smallest value of the trace written so far — NOT the previous trace entry (which may belong to a failed epoch
   that was rolled back).  Stated here for the hand state machine (Alg/C13Solver.v) and, through the bridge of Proofs/W4SSolver.v,
   for the control-flow skeleton regenerated from /repo (Gen/GenSolver.v): self._nfails after a solve is the number of entries of the
   reported trace that exceed the smallest entry before them.  A solver that judges an epoch against the previous (possibly failed)
   epoch's value accepts an epoch that is worse than the best model: history "success, FAIL, epoch between best and failed value". *)
From Coq Require Import List Arith Lia Bool.
From PV Require Import Alg.C13Solver.
Import ListNotations.

Section Fails.
Variables M O E : Type.
Variable leb : E -> E -> bool.
Hypothesis leb_total : forall a b, leb a b = true \/ leb b a = true.
Hypothesis leb_trans : forall a b c, leb a b = true -> leb b c = true -> leb a c = true.
Variable fest : M -> E.
Variable epoch : nat -> nat -> O -> M -> M * O.
Variable on_fail : O -> O.
Variable max_fails : nat.
Variable tol : option E.

Notation gt := (gtb E leb).
(* the running minimum of mn followed by l (leftmost smallest element) *)
Definition emin (mn : E) (l : list E) : E := fold_left (fun a e => if leb e a then e else a) l mn.
(* how many entries of l exceed the minimum of everything before them (mn = the minimum before the first) *)
Fixpoint fails_vs_min (mn : E) (l : list E) : nat :=
  match l with [] => 0 | e :: r => if gt e mn then S (fails_vs_min mn r) else fails_vs_min e r end.

Lemma emin_app mn l e : emin mn (l ++ [e]) = if leb e (emin mn l) then e else emin mn l.
Proof. unfold emin. rewrite fold_left_app. reflexivity. Qed.

Lemma fails_app : forall l mn e,
  fails_vs_min mn (l ++ [e]) = fails_vs_min mn l + (if gt e (emin mn l) then 1 else 0).
Proof.
  induction l as [|x r IH]; intros mn e; cbn [app fails_vs_min].
  - unfold emin. cbn. destruct (gt e mn); reflexivity.
  - unfold gtb. destruct (leb x mn) eqn:Ex; cbn [negb].
    + rewrite IH. unfold emin. cbn [fold_left]. rewrite Ex. reflexivity.
    + rewrite IH. unfold emin. cbn [fold_left]. rewrite Ex. reflexivity.
Qed.

(* emin is a smallest element of mn :: l *)
Lemma emin_is_min : forall l mn, is_min E leb (emin mn l) (mn :: l).
Proof.
  assert (Hrefl : forall a, leb a a = true) by (intros a; destruct (leb_total a a); auto).
  induction l as [|x r IH] using rev_ind; intros mn.
  - unfold emin, is_min. cbn. split; auto. intros y [<-|[]]. apply Hrefl.
  - rewrite emin_app. destruct (IH mn) as (Hin & Hle). destruct (leb x (emin mn r)) eqn:Ex.
    + split.
      * right. apply in_or_app. right. cbn. auto.
      * intros y [<-|Hy].
        { eapply leb_trans; [exact Ex|]. apply Hle. cbn. auto. }
        apply in_app_or in Hy as [Hy|[<-|[]]]; [|apply Hrefl].
        eapply leb_trans; [exact Ex|]. apply Hle. cbn. auto.
    + split.
      * destruct Hin as [Hin|Hin]; [left; exact Hin|right; apply in_or_app; left; exact Hin].
      * intros y [Hy|Hy]; [apply Hle; left; exact Hy|].
        apply in_app_or in Hy as [Hy|[Hy|[]]]; [apply Hle; right; exact Hy|]. subst y.
        destruct (leb_total (emin mn r) x) as [H|H]; [exact H|congruence].
Qed.

Notation st := (C13Solver.st M O E).
Definition finv (m0 : M) (s : st) : Prop :=
  fprev _ _ _ s = emin (fest m0) (trace _ _ _ s) /\ nfails _ _ _ s = fails_vs_min (fest m0) (trace _ _ _ s).

Lemma finv_init m0 o0 : finv m0 (init M O E fest m0 o0).
Proof. split; reflexivity. Qed.

Lemma finv_step m0 n s : finv m0 s -> finv m0 (step_epoch M O E leb fest epoch on_fail max_fails tol n s).
Proof.
  intros (Hp & Hn). unfold step_epoch. destruct (epoch n (nfails _ _ _ s) (opt _ _ _ s) (cur _ _ _ s)) as [m' o'].
  unfold finv, gtb. destruct (leb (fest m') (fprev _ _ _ s)) eqn:Ec; cbn [negb trace fprev nfails];
    rewrite emin_app, fails_app; unfold gtb; rewrite <- Hp, Ec; cbn [negb]; split; auto; lia.
Qed.

Lemma finv_run m0 k : forall n s, finv m0 s -> finv m0 (run M O E leb fest epoch on_fail max_fails tol k n s).
Proof.
  induction k as [|k IH]; intros n s H; cbn; auto.
  destruct (stop _ _ _ s); auto. apply IH. now apply finv_step.
Qed.

(* self._nfails of a finished solve = the number of trace entries that exceed the smallest value before them; the reference of the
   test (f_est_prev) is the smallest value of the whole trace *)
Theorem nfails_vs_best max_iters m0 o0 :
  let s := solve M O E leb fest epoch on_fail max_fails tol max_iters m0 o0 in
  nfails _ _ _ s = fails_vs_min (fest m0) (trace _ _ _ s) /\
  fprev _ _ _ s = emin (fest m0) (trace _ _ _ s) /\
  is_min E leb (fprev _ _ _ s) (full_trace M O E fest m0 s).
Proof.
  intros s. destruct (finv_run m0 max_iters 0 _ (finv_init m0 o0)) as (Hp & Hn).
  fold (solve M O E leb fest epoch on_fail max_fails tol max_iters m0 o0) in Hp, Hn. fold s in Hp, Hn.
  repeat split; auto; rewrite Hp; apply emin_is_min.
Qed.
End Fails.

(* non-vacuity on the history of seeded change C13-I: start 2, success 1, FAIL 3, then 2 (between the best 1 and the failed 3):
   two failures; judged against the previous entry the last epoch would be accepted (one failure) *)
Example fails_example : fails_vs_min nat Nat.leb 2 [1; 3; 2] = 2 /\ emin nat Nat.leb 2 [1; 3; 2] = 1.
Proof. split; reflexivity. Qed.
