(* Proofs/C02MttkrpGenProofs.v — tensor.mttkrp with its Khatri-Rao products computed by the GENERATED pyttb.khatrirao (Model/C02MttkrpGen.v) is
   the transliteration proved in C02_mttkrp_dense, hence returns the defining sum: an edit of pyttb/khatrirao.py that changes what
   khatrirao( *Us, reverse=True) returns breaks this proof (through C12's bridge Proofs/C12KrTie.v khatrirao_generated_kr_rev). *)
From Coq Require Import List ZArith Arith Bool Lia Ring.
From PV Require Import Base.Index Base.Perm Base.Sum Np.NpZ Np.NpZ2 Np.Array Model.Repr Model.C02Spec Model.C02Dense Gen.GenKernels
                       Model.C02MttkrpGen Proofs.C02DenseProofs Proofs.C02MttkrpProofs Proofs.C12KrTie.
Import ListNotations.

Lemma firstn_nonnil {A} (l : list A) k : 1 <= k -> 1 <= length l -> firstn k l <> [].
Proof. destruct l, k; cbn; intros; try lia; discriminate. Qed.

Lemma skipn_nonnil {A} (l : list A) k : k < length l -> skipn k l <> [].
Proof.
  intros H E. assert (L : length (skipn k l) = length l - k) by apply skipn_length. rewrite E in L. cbn in L. lia.
Qed.

Theorem zmttkrp_dense_genkr_eq (X : dense Z) (Us : list (list (list Z))) (n R : nat) :
  2 <= length (dshape X) -> n < length (dshape X) -> length Us = length (dshape X) -> 1 <= R ->
  Forall (fun B => B <> [] /\ wf_cols Z R B) (remove_at n Us) ->
  zmttkrp_dense_genkr X Us n R = Ok (impl_mttkrp_dense 0%Z Z.add Z.mul X Us n R).
Proof.
  intros H2 Hn HL HR HF. unfold remove_at in HF. apply Forall_app in HF as [HF1 HF2].
  unfold zmttkrp_dense_genkr, impl_mttkrp_dense.
  destruct (Nat.eqb n 0) eqn:E0.
  - apply Nat.eqb_eq in E0. subst n.
    rewrite (khatrirao_generated_kr_rev R (skipn 1 Us)); auto. apply skipn_nonnil. lia.
  - apply Nat.eqb_neq in E0.
    destruct (Nat.eqb n (length (dshape X) - 1)) eqn:E1.
    + apply Nat.eqb_eq in E1. rewrite <- E1.
      rewrite (khatrirao_generated_kr_rev R (firstn n Us)); auto. apply firstn_nonnil; lia.
    + apply Nat.eqb_neq in E1.
      rewrite (khatrirao_generated_kr_rev R (skipn (S n) Us)); auto; [|apply skipn_nonnil; lia].
      cbn [bind].
      rewrite (khatrirao_generated_kr_rev R (firstn n Us)); auto. apply firstn_nonnil; lia.
Qed.

(* ... and therefore the defining sum (C02_mttkrp_dense), for every mode *)
Theorem zmttkrp_dense_genkr_correct (X : dense Z) (Us : list (list (list Z))) (n R : nat) :
  wf_dense X -> 2 <= length (dshape X) -> n < length (dshape X) -> length Us = length (dshape X) -> 1 <= R ->
  Forall (fun B => B <> [] /\ wf_cols Z R B) (remove_at n Us) ->
  map (@length _) (remove_at n Us) = remove_at n (dshape X) ->
  exists Y, zmttkrp_dense_genkr X Us n R = Ok Y /\
    dshape Y = [nth n (dshape X) 0; R] /\ wf_dense Y /\
    forall x r, x < nth n (dshape X) 0 -> r < R ->
      den_dense 0%Z Y [x; r] = spec_mttkrp 0%Z 1%Z Z.add Z.mul (den_dense 0%Z X) (dshape X) n (repeat 1%Z R) Us x r.
Proof.
  intros W H2 Hn HL HR HF HS. rewrite (zmttkrp_dense_genkr_eq X Us n R H2 Hn HL HR HF).
  eexists. split; [reflexivity|].
  apply (impl_mttkrp_dense_correct Z 0%Z 1%Z Z.add Z.mul Z.sub Z.opp); auto.
  - exact InitialRing.Zth.
  - eapply Forall_impl; [|exact HF]. intros B [_ HB]. exact HB.
Qed.
