(* Proofs/C17Index.v — the GENERATED tt_ind2sub (Gen/GenUtils.v) on arbitrary index vectors: every index in
   [-size, size) is answered (negative ones count from the end), every other index is rejected. *)
From Coq Require Import List ZArith Arith Bool Lia.
From PV Require Import Base.Index Np.NpZ Proofs.NpZProofs Gen.GenUtils Proofs.UtilsProofs.
Import ListNotations.
Local Open Scope Z_scope.

Definition wrap_index (n : nat) (k : Z) : nat := Z.to_nat (if k <? 0 then k + Z.of_nat n else k).

Lemma zlen_nonempty {A} (l : list A) x : In x l -> (zlen l =? 0) = false.
Proof. destruct l; [contradiction|]. intros _. unfold zlen. cbn [length]. apply Z.eqb_neq. lia. Qed.

Theorem tt_ind2sub_all (s : shape) (ks : vec) :
  (forall k, In k ks -> - Z.of_nat (size s) <= k < Z.of_nat (size s)) ->
  tt_ind2sub (zs s) ks OrdF = Ok (map (fun k => zs (ind2sub s (wrap_index (size s) k))) ks).
Proof.
  intros Hr. unfold tt_ind2sub. destruct ks as [|k0 ks]; [reflexivity|].
  rewrite (zlen_nonempty (k0 :: ks) k0) by (cbn; auto). rewrite zprod_zs.
  unfold np_unravel_index, np_wrap_neg.
  rewrite (mapM_ok _ (fun a => zs (ind2sub s (Z.to_nat a)))).
  - rewrite map_map. reflexivity.
  - intros a Ha. apply in_map_iff in Ha as (k & <- & Hk). specialize (Hr k Hk).
    unfold np_unravel_row. rewrite zprod_zs.
    set (a := if k <? 0 then k + Z.of_nat (size s) else k).
    assert (Ha : 0 <= a < Z.of_nat (size s)) by (unfold a; destruct (Z.ltb_spec k 0); lia).
    destruct (Z.ltb_spec a 0); [lia|]. destruct (Z.leb_spec (Z.of_nat (size s)) a); [lia|]. cbn [orb].
    rewrite <- (Z2Nat.id a) at 1 by lia. now rewrite unravelF_nat.
Qed.

Theorem tt_ind2sub_rejects (s : shape) (ks : vec) :
  (exists k, In k ks /\ (Z.of_nat (size s) <= k \/ k < - Z.of_nat (size s))) -> tt_ind2sub (zs s) ks OrdF = Err.
Proof.
  intros (k & Hk & Hbad). unfold tt_ind2sub. rewrite (zlen_nonempty ks k Hk). rewrite zprod_zs.
  unfold np_unravel_index, np_wrap_neg. apply mapM_err.
  exists (if k <? 0 then k + Z.of_nat (size s) else k). split; [apply in_map_iff; eauto|].
  unfold np_unravel_row. rewrite zprod_zs.
  destruct (Z.ltb_spec k 0).
  - destruct (Z.ltb_spec (k + Z.of_nat (size s)) 0); [reflexivity|]. destruct Hbad; lia.
  - destruct (Z.leb_spec (Z.of_nat (size s)) k); [now rewrite orb_true_r|]. destruct Hbad; lia.
Qed.

Example tt_ind2sub_all_example :
  tt_ind2sub [2; 3; 4] [-1; 5; -24; 0; 23] OrdF = Ok [[1; 2; 3]; [1; 2; 0]; [0; 0; 0]; [0; 0; 0]; [1; 2; 3]] /\
  tt_ind2sub [2; 3; 4] [3; 24] OrdF = Err /\ tt_ind2sub [2; 3; 4] [-25] OrdF = Err.
Proof. repeat split; reflexivity. Qed.
