(* Props/C07Gen4.v — C07 over the GENERATED whole methods sptensor.permute / ktensor.permute (Gen/GenSptensor4.v, Gen/GenKtensor4.v,
   regenerated from pyttb/sptensor.py / pyttb/ktensor.py on every run) behind the GENERATED parse_one_d (Gen/GenUtils3b.v):
   what the generated code returns for a permute request is what the request-level models of Model/C07Req.v return, hence the
   index laws of Props/C07.v / C07w4.v hold for it.  Bridges of the translator builder: Proofs/W4Sptensor.v, Proofs/W4KtensorLaws.v
   (see also Props/W4C07.v, Props/W4C08.v).  Proofs: Proofs/C07Gen4.v. *)
From Coq Require Import List ZArith Arith Bool.
From PV Require Import Base.Index Base.Perm Np.NpZ Np.NpZ2 Np.NpZ3 Np.NpZ3b Gen.GenUtils3b Gen.GenSptensor4 Gen.GenSptensor4d Gen.GenKtensor4 Proofs.W4ReshapeModel
  Model.Sparse Model.Repr Model.C07Ops Model.C07Impl Model.C07Req Model.C07W5 Model.W4Ktensor Model.W4Sptensor Model.C07Gen4 Proofs.C07Gen4
  Np.NpZ4d Gen.GenSptensor4b Proofs.C07GenSq.
Import ListNotations.
Local Open Scope Z_scope.

(* the generated ktensor.permute is permute_k on the shared Kruskal record; it returns a tensor only for permutations of the modes
   (and then no entry of the order is negative) *)
Theorem C07_permute_kruskal_generated : forall (self k' : ktz) (order : vec), ktensor_permute self order = Ok k' ->
  is_perm (nats order) (length (kt_factors self)) /\ (forall x, In x order -> 0 <= x) /\
  permute_k (to_K self) (nats order) = Some (to_K k').
Proof. exact gen_kt_permute_c07. Qed.
Print Assumptions C07_permute_kruskal_generated.

(* request -> generated parse_one_d -> generated ktensor.permute  =  the request-level model (Model/C07W5.v permute_k_req5: integer
   orders as in Model/C07Req.v permute_k_req, boolean orders read as 1 / 0) *)
Theorem C07_permute_kruskal_request_generated : forall (self k' : ktz) (x : pyshp), ktensor_permute_req self x = Ok k' ->
  permute_k_req5 (to_K self) x = Some (to_K k').
Proof. exact kt_permute_req_c07. Qed.
Print Assumptions C07_permute_kruskal_request_generated.

Theorem C07_permute_kruskal_request_generated_int : forall (self k' : ktz) (x : pyshp), bool_order_of x = None ->
  ktensor_permute_req self x = Ok k' -> permute_k_req (to_K self) x = Some (to_K k').
Proof. exact kt_permute_req_c07_int. Qed.
Print Assumptions C07_permute_kruskal_request_generated_int.

(* request -> generated parse_one_d -> generated sptensor.permute  =  the request-level model (tensor with stored entries) *)
Theorem C07_permute_sparse_request_generated : forall (self t : sptz) (x : pyshp),
  (forall row, In row (spt_subs self) -> forall s, In s row -> 0 <= s) -> (forall d, In d (spt_shape self) -> 0 <= d) ->
  np_size2 (spt_subs self) <> 0 ->
  sptensor_permute_req self x = Ok t ->
  permute_sp_req (to_Sp self) x = Some (to_Sp t).
Proof. exact sp_permute_req_c07. Qed.
Print Assumptions C07_permute_sparse_request_generated.

(* N-C07-5 (repaired, /repo 9c8fdd5) over the generated text: boolean orders are refused by the generated sptensor.permute *)
Theorem C07_permute_sparse_bool_refused_generated : forall (self : sptz) (x : pyshp) (bz : vec), bool_order_of x = Some bz ->
  sptensor_permute_req self x = Err /\ forall (V : Type) (S : Sparse.sparse V), permute_sp_req S x = None.
Proof. exact sp_permute_req_bool_c07. Qed.
Print Assumptions C07_permute_sparse_bool_refused_generated.

(* request -> generated parse_shape -> generated sptensor.reshape (Gen/GenSptensor4d.v, over the generated tt_sub2ind / tt_ind2sub)
   = the request-level specification reshape_sp_req, refusals included (mode numbers outside 0..N-1: N-C07-3 repaired; negative
   sizes: N-C07-4 repaired; a target without modes; a changed element count), on every coordinate list with stored entries *)
Theorem C07_reshape_sparse_request_generated : forall (S : sparse Z) (x : pyshp) (oldz : vec),
  ssubs S <> nil -> Forall (fun j => inb (sshape S) j = true) (ssubs S) -> length (svals S) = length (ssubs S) -> oldz <> nil ->
  sptensor_reshape_req (of_Sp S) x (Some oldz) =
    match reshape_sp_req S x oldz with Some R => Ok (of_Sp R) | None => Err end.
Proof. exact sp_reshape_req_c07. Qed.
Print Assumptions C07_reshape_sparse_request_generated.

Example C07_example_generated_reshape_requests :
  let S := mkspt [[1; 2; 3]; [0; 1; 2]] [5; -7] [2; 3; 4] in
  sptensor_reshape_req S (STuple [EInt 4; EInt 2]) (Some [2; 0]) = Ok (mkspt [[2; 3; 1]; [1; 2; 0]] [5; -7] [3; 4; 2]) /\
  sptensor_reshape_req S (SList [EInt 4; EInt 2]) (Some [0; 2]) = Ok (mkspt [[2; 3; 1]; [1; 0; 1]] [5; -7] [3; 4; 2]) /\
  sptensor_reshape_req S (STuple [EInt 4; EInt 2]) (Some [-1; 0]) = Err /\
  sptensor_reshape_req S (STuple [EInt (-4); EInt (-2)]) (Some [2; 0]) = Err /\
  sptensor_reshape_req S (STuple []) None = Err /\
  sptensor_reshape_req S (SInt 24) None = Ok (mkspt [[23]; [14]] [5; -7] [24]).
Proof. repeat split; reflexivity. Qed.

(* the GENERATED whole method sptensor.squeeze (Gen/GenSptensor4b.v) returns exactly what the code-path model squeeze_sp_impl of
   Model/C07Impl.v returns — a tensor, the bare entry, or the refusal of .item() on more than one stored value — on every
   coordinate list with at least one mode, POSITIVE mode sizes, in-range subscripts and one value per row; with C07_squeeze_sparse_code
   (distinct subscripts) that is the squeeze model of Model/C07Ops.v with its index law (C07_squeeze_sparse).  Holds for the text
   with the singleton test `shape > 1` (/repo up to 6e4bb42) and for the repaired text `shape != 1` (fixes/C07-N-C07-7.diff): the
   proof script checks whichever text was regenerated on this run (Proofs/C07GenSq.v sq_text) *)
Theorem C07_squeeze_sparse_generated : forall S : sparse Z, sshape S <> nil -> forallb (Nat.ltb 0) (sshape S) = true ->
  Forall (fun j => inb (sshape S) j = true) (ssubs S) -> length (svals S) = length (ssubs S) ->
  sptensor_squeeze (of_Sp S) =
    match squeeze_sp_impl 0%Z S with
    | Some (C07Ops.SqT R) => Ok (NpZ4d.SqTensor (of_Sp R))
    | Some (C07Ops.SqScalar v) => Ok (NpZ4d.SqScalar v)
    | None => Err
    end.
Proof. exact gen_sp_squeeze_model. Qed.
Print Assumptions C07_squeeze_sparse_generated.

Theorem C07_squeeze_sparse_generated_res : forall S : sparse Z, sshape S <> nil -> forallb (Nat.ltb 0) (sshape S) = true ->
  Forall (fun j => inb (sshape S) j = true) (ssubs S) -> length (svals S) = length (ssubs S) ->
  sptensor_squeeze_res (of_Sp S) = squeeze_sp_impl 0%Z S.
Proof. exact gen_sp_squeeze_res. Qed.
Print Assumptions C07_squeeze_sparse_generated_res.

(* EVERY shape (size-0 modes included): the generated method returns what sptensor.squeeze's return statements return with the
   singleton test the regenerated text contains.  sq_text_keeps_zero (Model/C07Gen4.v) is a closed boolean computed from the
   regenerated text — the generated method on the witness of N-C07-7, shape (2,0,1), answers with shape (2,0) —: false on the text
   `shape > 1` (squeeze_sp_impl, a size-0 mode is dropped like a singleton), true on the repaired text `shape != 1` (squeeze_sp_impl_ne) *)
Theorem C07_squeeze_sparse_generated_any_shape : forall S : sparse Z, sshape S <> nil ->
  Forall (fun j => inb (sshape S) j = true) (ssubs S) -> length (svals S) = length (ssubs S) ->
  sptensor_squeeze_res (of_Sp S) = if sq_text_keeps_zero then squeeze_sp_impl_ne 0%Z S else squeeze_sp_impl 0%Z S.
Proof. exact gen_sp_squeeze_text_res. Qed.
Print Assumptions C07_squeeze_sparse_generated_any_shape.

(* a holder with a size-0 mode (out of tensor.to_sptensor(); nothing can be stored): a text that keeps the size-0 mode of the probe
   answers EVERY such holder exactly as the property demands (squeeze_sp_any of Model/C07W5.v, C07_squeeze_sparse_zero_mode: every
   size-0 mode kept, a tensor, what tensor.squeeze answers on the dense holder — C07_repr_agree_squeeze_any_shape); the text of
   /repo up to 6e4bb42 answers with squeeze_sp_impl (finding N-C07-7).  The check evaluates the probe on every run (op squeeze_sp_text) *)
Theorem C07_squeeze_sparse_zero_mode_generated : forall S : sparse Z,
  Forall (fun j => inb (sshape S) j = true) (ssubs S) -> length (svals S) = length (ssubs S) -> In 0%nat (sshape S) ->
  sptensor_squeeze_res (of_Sp S) = if sq_text_keeps_zero then Some (squeeze_sp_any 0%Z S) else squeeze_sp_impl 0%Z S.
Proof. exact gen_sp_squeeze_zero_mode. Qed.
Print Assumptions C07_squeeze_sparse_zero_mode_generated.

(* the return statements of the repaired text on such a holder are the demanded behaviour *)
Theorem C07_squeeze_sparse_zero_mode_code : forall S : sparse Z,
  Forall (fun j => inb (sshape S) j = true) (ssubs S) -> length (svals S) = length (ssubs S) -> In 0%nat (sshape S) ->
  squeeze_sp_impl_ne 0%Z S = Some (squeeze_sp_any 0%Z S).
Proof. exact impl_ne_zero_mode. Qed.
Print Assumptions C07_squeeze_sparse_zero_mode_code.

(* on positive sizes the two singleton tests are the same return statements *)
Theorem C07_squeeze_sparse_code_tests_agree : forall S : sparse Z, forallb (Nat.ltb 0) (sshape S) = true ->
  squeeze_sp_impl_ne 0%Z S = squeeze_sp_impl 0%Z S.
Proof. exact (impl_ne_pos 0%Z). Qed.
Print Assumptions C07_squeeze_sparse_code_tests_agree.

Example C07_example_generated_squeeze :
  sptensor_squeeze_res (mkspt [[1; 0; 2]; [0; 0; 1]] [7; -3] [2; 1; 3]) = Some (C07Ops.SqT (mkSp [2; 3]%nat [[1; 2]; [0; 1]]%nat [7; -3])) /\
  sptensor_squeeze_res (mkspt [[0; 0]] [9] [1; 1]) = Some (C07Ops.SqScalar 9) /\
  sptensor_squeeze_res (mkspt [[0; 0]; [0; 0]] [9; 4] [1; 1]) = None /\
  (* the return statements with `shape != 1` on the witness of N-C07-7 and its siblings *)
  squeeze_sp_impl_ne 0 (mkSp [2; 0; 1]%nat [] []) = Some (C07Ops.SqT (mkSp [2; 0]%nat [] [])) /\
  squeeze_sp_impl_ne 0 (mkSp [1; 0]%nat [] []) = Some (C07Ops.SqT (mkSp [0]%nat [] [])) /\
  squeeze_sp_impl_ne 0 (mkSp [0]%nat [] []) = Some (C07Ops.SqT (mkSp [0]%nat [] [])) /\
  squeeze_sp_impl_ne 0 (mkSp [1; 1]%nat [] []) = Some (C07Ops.SqScalar 0).
Proof. repeat split; reflexivity. Qed.

Example C07_example_generated_requests :
  let col := SArr (mknd [3; 1] DInt [NFin 2; NFin 0; NFin 1]) in
  sptensor_permute_req (mkspt [[0; 1; 3]; [2; 0; 1]] [5; -7] [3; 2; 4]) col = Ok (mkspt [[3; 0; 1]; [1; 2; 0]] [5; -7] [4; 3; 2]) /\
  sptensor_permute_req (mkspt [[0; 1; 3]; [2; 0; 1]] [5; -7] [3; 2; 4]) (SList [EInt 1; EInt 1; EInt 1]) = Err /\
  sptensor_permute_req (mkspt [[0; 1; 3]; [2; 0; 1]] [5; -7] [3; 2; 4]) (SList [EInt (-1); EInt 0; EInt 1]) = Err /\
  sptensor_permute_req (mkspt [[0; 1; 3]] [5] [3; 2; 4]) (SArr (mknd [3] DFloat [NFin 2; NFin 0; NFin 1])) = Err /\
  ktensor_permute_req (mkkt [2; 3] [[[1; 2]; [3; 4]]; [[5; 6]; [7; 8]; [9; 10]]]) (STuple [EInt 1; EInt 0])
    = Ok (mkkt [2; 3] [[[5; 6]; [7; 8]; [9; 10]]; [[1; 2]; [3; 4]]]) /\
  ktensor_permute_req (mkkt [2; 3] [[[1; 2]; [3; 4]]; [[5; 6]; [7; 8]; [9; 10]]]) (SArr (mknd [2] DBool [NFin 1; NFin 0]))
    = Ok (mkkt [2; 3] [[[5; 6]; [7; 8]; [9; 10]]; [[1; 2]; [3; 4]]]) /\
  sptensor_permute_req (mkspt [[0; 1]; [1; 2]] [5; 6] [2; 3]) (SArr (mknd [2] DBool [NFin 1; NFin 0])) = Err.
Proof. repeat split; reflexivity. Qed.
