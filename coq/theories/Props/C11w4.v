(* Props/C11w4.v — wave 4: the Qc instance of the PDNR / PQNR state machine that the correspondence check replays side by side with
   pyttb (Model/C11Replay.v: gradients and line-search answers are TABLES recorded from the run; everything else is computed).
   Only statements, `exact`, Print Assumptions. *)
From Coq Require Import List Arith Bool ZArith QArith Qcanon.
From PV Require Import Base.Index Np.Array Model.Sparse Model.Repr Model.Harness Model.C11Apr Model.C11Rows Model.C11Check
                       Model.C11Replay Model.C11Lbfgs Proofs.C11Replay Proofs.C11Lbfgs.
Import ListNotations.

(* whatever the recorded tables contain (any gradients, any directions, step lengths, fallback flags — also missing entries), for
   every count tensor and every guess with non-negative rational entries the replayed result has non-negative weights and factors,
   one non-negative KKT entry and one inner count per outer iteration performed (at least one, at most maxiters, fewer only with
   the convergence flag set) and inner counts within (sum of mode sizes) * (max(maxinneriters, 2) - 1):
   the instance the check executes is covered by C11_rows_nonneg / C11_rows_inner_bound (no gap between the abstract sign contracts
   and the rational arithmetic actually run) *)
Theorem C11_rows_replay_nonneg : forall (stoptol tiny : Qc) (maxinner : nat) (inexact prestep : bool)
    (gtab : list (key * list Qc)) (stab : list (key * stepent)) (X : dense Qc) (K : ktensor Qc) (maxiters : nat),
  qnn tiny -> Forall qnn (kweights K) -> Forall (Forall (Forall qnn)) (kfactors K) ->
  match rows_replay stoptol tiny maxinner inexact prestep gtab stab X K maxiters with
  | (st, kkts, inners) =>
      Forall qnn (sw st) /\ Forall (Forall (Forall qnn)) (sA st) /\
      Forall qnn kkts /\ (length kkts <= maxiters)%nat /\ (1 <= maxiters -> 1 <= length kkts)%nat /\ length inners = length kkts /\
      (length kkts < maxiters -> sconv st = true)%nat /\
      Forall (fun c => c <= list_sum (kshape K) * Nat.pred (Nat.max maxinner 2))%nat inners
  end.
Proof. exact rows_replay_nonneg. Qed.
Print Assumptions C11_rows_replay_nonneg.

Example C11_example_rows_replay :
  let X := mkDense [2; 2]%nat [q1; q0; (q1 + q1)%Qc; q1] in
  let K := mkK [q1] [[[q1]; [q1]]; [[q1]; [(q1 + q1 + q1)%Qc]]] in
  let gtab := [((0, 0, 0, 0)%nat, [Q2Qc (-1 # 2)]); ((0, 0, 0, 1)%nat, [Q2Qc (1 # 100000)])] in
  let stab := [((0, 0, 0, 0)%nat, mkSE false [Q2Qc (3 # 1)] (Q2Qc (1 # 2)) [q1])] in
  match rows_replay (Q2Qc (1 # 10000)) (Q2Qc (1 # 100000000)) 3%nat false false gtab stab X K 1%nat with
  | (st, kkts, inners) =>
      (map this (sw st), map (map (map this)) (sA st), map this kkts, inners) =
      ([19 # 2], [[[11 # 19]; [8 # 19]]; [[1 # 4]; [3 # 4]]], [1 # 2], [1%nat])%Q
  end.
Proof. exact rows_replay_ex. Qed.

(* The mechanism of finding C11-F1 inside the transliteration of get_search_dir_pqnr (Model/C11Lbfgs.v; op lbfgs_dir compares it with
   pyttb's function on direct calls): rank-1 row, default memory 3, one stored pair with non-zero curvature product, free variable:
   at inner iteration 1 or 2 the returned direction is EXACTLY 0 (the row cannot move, the next pair is degenerate, the assertion
   follows unless the row already satisfies the KKT tolerance) ... *)
Theorem C11_lbfgs_dir_1d_zero : forall (eps m0 g0 s y : Qc) (iters : nat),
  (s * y)%Qc <> Q2Qc 0 -> fixed_vars eps [m0] [g0] = [false] -> (iters = 1 \/ iters = 2)%nat ->
  search_dir_pqnr eps [m0] [g0] [[s]; [q0]; [q0]] [[y]; [q0]; [q0]] [(/ (s * y))%Qc; q0; q0] 0 iters = [q0].
Proof. exact dir_1d_zero_gen. Qed.
(* ... whereas with memory 1 the same state yields the secant step -(s / y) g *)
Theorem C11_lbfgs_dir_1d_mem1 : forall (eps m0 g0 s y : Qc),
  (s * y)%Qc <> Q2Qc 0 -> fixed_vars eps [m0] [g0] = [false] ->
  search_dir_pqnr eps [m0] [g0] [[s]] [[y]] [(/ (s * y))%Qc] 0 1 = [(- (s / y) * g0)%Qc].
Proof. exact dir_1d_mem1. Qed.
Print Assumptions C11_lbfgs_dir_1d_zero.
Print Assumptions C11_lbfgs_dir_1d_mem1.

Example C11_example_lbfgs_dir :
  search_dir_pqnr (Q2Qc (1 # 100000000)) [Q2Qc (5 # 2)] [Q2Qc (1 # 4)] [[Q2Qc (1 # 2)]; [q0]; [q0]] [[Q2Qc (-1 # 8)]; [q0]; [q0]]
                  [Q2Qc (-16 # 1); q0; q0] 0 1 = [q0]
  /\ map this (search_dir_pqnr (Q2Qc (1 # 100000000)) [Q2Qc (5 # 2)] [Q2Qc (1 # 4)] [[Q2Qc (1 # 2)]] [[Q2Qc (-1 # 8)]] [Q2Qc (-16 # 1)] 0 1)
     = [1 # 1]%Q.
Proof. exact dir_1d_zero_ex. Qed.
