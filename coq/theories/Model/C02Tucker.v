(* Model/C02Tucker.v — Tucker kernels of pyttb/ttensor.py that act on the factor matrices: ttensor.ttm
   (new_u[dim] = matrix.dot(new_u[dim]) resp. matrix.T.dot(new_u[dim]) for every selected mode; the core is kept).
   Definitions only; proofs in Proofs/C02TuckerProofs.v. *)
From Coq Require Import List Arith Lia Bool.
From PV Require Import Base.Index Base.Perm Base.Sum Np.Array Model.Sparse Model.Repr Model.C02Spec Model.C02Dense.
Import ListNotations.

Section Tk.
Context {V : Type} (v0 v1 : V) (vadd vmul : V -> V -> V).
Local Notation "x + y" := (vadd x y).
Local Notation "x * y" := (vmul x y).

(* M.dot(U) (M is J x K) resp. M.T.dot(U) (M is K x J) for U with K rows and C columns, as a list of J rows *)
Definition mm (M U : @matrix V) (J K C : nat) (tr : bool) : @matrix V :=
  map (fun x => map (fun y => sum_n v0 vadd K (fun k => (if tr then mget v0 M k x else mget v0 M x k) * mget v0 U k y)) (seq 0 C)) (seq 0 J).

(* ttensor.ttm in one mode n: J = matrix.shape[0] (plain) or matrix.shape[1] (transposed) *)
Definition impl_ttm_t1 (T : ttensor V) (n : nat) (M : @matrix V) (J : nat) (tr : bool) : ttensor V :=
  let U := nth n (tfactors T) [] in
  mkT (tcore T) (upd (tfactors T) n (mm M U J (nrows U) (nth n (dshape (tcore T)) 0) tr)).

(* list form: for i, dim in enumerate(dims): new_u[dim] = matrix[vidx[i]](.T).dot(new_u[dim]) *)
Fixpoint impl_ttm_t (T : ttensor V) (nUs : list (nat * (nat * @matrix V))) (tr : bool) : ttensor V :=
  match nUs with
  | [] => T
  | (n, (J, M)) :: r => impl_ttm_t (impl_ttm_t1 T n M J tr) r tr
  end.

(* ttensor.ttv (ttensor.py:376): W[dim] = U_dim.T.dot(v) for every selected mode; newcore = core.ttv(W, dims) (tensor.ttv,
   Model/C02Dense.v); ttensor(newcore, factors of the remaining modes)  (no mode left: float(newcore), the 0-way Tucker tensor) *)
Definition utv (U : @matrix V) (v : list V) (C : nat) : list V :=
  map (fun y => sum_n v0 vadd (nrows U) (fun x => mget v0 U x y * nth x v v0)) (seq 0 C).
Definition impl_ttv_t (T : ttensor V) (dims : list nat) (vs : list (list V)) : ttensor V :=
  let Us := tfactors T in
  let cs := dshape (tcore T) in
  let Ws := map (fun mv => utv (nth (fst mv) Us []) (snd mv) (nth (fst mv) cs 0)) (combine dims vs) in
  mkT (impl_ttv_dense v0 vadd vmul (tcore T) dims Ws) (pick [] (compl (length Us) dims) Us).

(* ttensor.mttkrp (ttensor.py:429), factor list Vs (a Kruskal operand is first turned into one by get_mttkrp_factors, Model/C02Absorb.v):
     W[i] = U_i.T.dot(V_i) for i <> n;  Y = self.core.mttkrp(W, n) (tensor.mttkrp, Model/C02Dense.v);  U_n.dot(Y) *)
Definition impl_mttkrp_t (T : ttensor V) (Vs : list (@matrix V)) (n R : nat) (x r : nat) : V :=
  let Us := tfactors T in
  let cs := dshape (tcore T) in
  let Ws := map (fun i => mm (nth i Us []) (nth i Vs []) (nth i cs 0) (nrows (nth i Us [])) R true) (seq 0 (length Us)) in
  let Y := impl_mttkrp_dense v0 vadd vmul (tcore T) Ws n R in
  sum_n v0 vadd (nth n cs 0) (fun c => mget v0 (nth n Us []) x c * den_dense v0 Y [c; r]).
End Tk.
