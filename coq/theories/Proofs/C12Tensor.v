(* Proofs/C12Tensor.v — ring-generic theorems about the GCP evaluation model Model/C12Gcp.v (DESIGN §C12, T2). *)
From Coq Require Import List Arith Lia Bool Ring.
From PV Require Import Base.Index Base.Sum Np.Array Model.Sparse Model.Repr Model.C12Gcp.
Import ListNotations.

Section T2.
Variable V : Type.
Variables (v0 v1 : V) (vadd vmul vsub : V -> V -> V) (vopp : V -> V).
Hypothesis Vring : ring_theory v0 v1 vadd vmul vsub vopp (@eq V).
Add Ring Vr2 : Vring.

Notation "x + y" := (vadd x y).
Notation "x * y" := (vmul x y).
Notation mat := (list (list V)).
Notation msum := (sum_over v0 vadd).
Notation dk := (den_k v0 v1 vadd vmul).

(* entry-wise sum of two matrices of the same dimensions *)
Definition madd (A H : mat) : mat := map2 (map2 vadd) A H.
(* I x R matrices *)
Definition mdims (A : mat) (I R : nat) : Prop := length A = I /\ Forall (fun row => length row = R) A.
(* the model with its k-th factor replaced *)
Definition kset (K : ktensor V) (k : nat) (H : mat) : ktensor V := mkK (kweights K) (upd (kfactors K) k H).
(* Frobenius-type pairing of two I x R matrices, weighted per column *)
Definition mpair (lam : list V) (M H : mat) (I R : nat) : V :=
  sum_n v0 vadd I (fun j => sum_n v0 vadd R (fun r => nth r lam v0 * (mget v0 M j r * mget v0 H j r))).

Notation kp := (kprod v0 v1 vmul).
Notation ks := (kprod_skip v0 v1 vmul).
Notation pv := (prodv v1 vmul).
Notation mg := (mget v0).
Notation SO_ext := (sum_over_ext V v0 vadd).
Notation SO_zero := (sum_over_zero V v0 v1 vadd vmul vsub vopp Vring).
Notation SO_add := (sum_over_add V v0 v1 vadd vmul vsub vopp Vring).
Notation SO_scale_l := (sum_over_scale_l V v0 v1 vadd vmul vsub vopp Vring).
Notation SO_scale_r := (sum_over_scale_r V v0 v1 vadd vmul vsub vopp Vring).
Notation SO_swap := (sum_over_swap V v0 v1 vadd vmul vsub vopp Vring).
Notation SO_map := (sum_over_map V v0 vadd).
Notation SO_single := (sum_over_single V v0 v1 vadd vmul vsub vopp Vring).
Notation SO_cons := (sum_over_cons V v0 vadd).
Notation SN_ext := (sum_n_ext V v0 vadd).

(* ------------------------------------------------------------------------------------------ *)
(* generic list helpers                                                                        *)
(* ------------------------------------------------------------------------------------------ *)
Lemma map2_length {A B C} (h : A -> B -> C) l1 l2 :
  length (map2 h l1 l2) = Nat.min (length l1) (length l2).
Proof. revert l2; induction l1 as [|a l1 IH]; intros [|b l2]; cbn; auto. Qed.

Lemma nth_map2 {A B C} (h : A -> B -> C) l1 l2 k d d1 d2 :
  k < length l1 -> k < length l2 -> nth k (map2 h l1 l2) d = h (nth k l1 d1) (nth k l2 d2).
Proof.
  revert l2 k; induction l1 as [|a l1 IH]; intros [|b l2] [|k] H1 H2; cbn in *; try lia; auto.
  apply IH; lia.
Qed.

(* total version: same lengths and the defaults are compatible *)
Lemma nth_map2_total {A B C} (h : A -> B -> C) l1 l2 k d d1 d2 :
  length l1 = length l2 -> h d1 d2 = d -> nth k (map2 h l1 l2) d = h (nth k l1 d1) (nth k l2 d2).
Proof.
  revert l2 k; induction l1 as [|a l1 IH]; intros [|b l2] [|k] H1 H2; cbn in *; try lia; auto.
Qed.

Lemma nth_repeat_lt {A} (a d : A) n q : q < n -> nth q (repeat a n) d = a.
Proof. revert q; induction n as [|n IH]; intros [|q] H; cbn; try lia; auto. apply IH; lia. Qed.

Lemma map_upd {A B} (h : A -> B) l k v : map h (upd l k v) = upd (map h l) k (h v).
Proof. revert k; induction l as [|x l IH]; intros [|k]; cbn; auto. now rewrite IH. Qed.

Lemma upd_same {A} (l : list A) k v d : nth k l d = v -> upd l k v = l.
Proof.
  revert k; induction l as [|x l IH]; intros [|k] H; cbn in *; auto; [now subst|].
  f_equal. now apply IH.
Qed.

Lemma filter_map_comm {A B} (p : B -> bool) (h : A -> B) l :
  filter p (map h l) = map h (filter (fun a => p (h a)) l).
Proof. induction l as [|a l IH]; cbn; auto. destruct (p (h a)); cbn; now rewrite IH. Qed.

Lemma sum_over_filter {A} (p : A -> bool) (l : list A) (F : A -> V) :
  msum (filter p l) F = msum l (fun a => if p a then F a else v0).
Proof.
  induction l as [|a l IH]; [reflexivity|]. cbn [filter]. rewrite (SO_cons a l).
  destruct (p a); [rewrite SO_cons|]; rewrite IH; ring.
Qed.

Lemma inb_nth_lt s i k : inb s i = true -> k < length s -> nth k i 0 < nth k s 0.
Proof.
  revert i k; induction s as [|d s IH]; intros [|x i] k H Hk; cbn in *; try discriminate; try lia.
  apply andb_true_iff in H as [Hx Hi]. apply Nat.ltb_lt in Hx.
  destruct k as [|k]; auto. apply IH; auto. lia.
Qed.

(* ------------------------------------------------------------------------------------------ *)
(* 1. the two-pass leave-one-out algorithm                                                     *)
(* ------------------------------------------------------------------------------------------ *)
Lemma prefixes_length u : forall acc, length (prefixes vmul acc u) = length u.
Proof. induction u as [|x u IH]; intros acc; cbn; auto. Qed.

Lemma nth_prefixes u : forall acc k, k < length u ->
  nth k (prefixes vmul acc u) v0 = acc * pv (firstn k u).
Proof.
  induction u as [|x u IH]; intros acc [|k] H; cbn in *; try lia.
  - ring.
  - rewrite IH by lia. ring.
Qed.

Lemma suffixes_snd u : snd (suffixes v1 vmul u) = pv u.
Proof.
  induction u as [|x u IH]; [reflexivity|]. cbn [suffixes prodv].
  destruct (suffixes v1 vmul u) as [l p]. cbn in *. now subst.
Qed.

Lemma suffixes_length u : length (fst (suffixes v1 vmul u)) = length u.
Proof.
  induction u as [|x u IH]; [reflexivity|]. cbn [suffixes].
  destruct (suffixes v1 vmul u) as [l p]. cbn in *. now rewrite IH.
Qed.

Lemma nth_suffixes u : forall k, k < length u ->
  nth k (fst (suffixes v1 vmul u)) v0 = pv (skipn (S k) u).
Proof.
  induction u as [|x u IH]; intros k H; cbn [length] in H; [lia|].
  pose proof (suffixes_snd u) as Hs. cbn [suffixes].
  destruct (suffixes v1 vmul u) as [l p]. cbn [fst snd] in *.
  destruct k as [|k]; [cbn; now subst|]. cbn [nth]. rewrite IH by lia. reflexivity.
Qed.

Lemma loo_alg_length (u : list V) : length (loo_alg v1 vmul u) = length u.
Proof. unfold loo_alg. rewrite map2_length, prefixes_length, suffixes_length. apply Nat.min_id. Qed.

Theorem loo_alg_spec : forall (u : list V) k, k < length u ->
  nth k (loo_alg v1 vmul u) v0 = pv (firstn k u) * pv (skipn (S k) u).
Proof.
  intros u k H. unfold loo_alg.
  rewrite (nth_map2 vmul _ _ k v0 v0 v0) by (now rewrite ?prefixes_length, ?suffixes_length).
  rewrite nth_prefixes, nth_suffixes by auto. ring.
Qed.

(* ------------------------------------------------------------------------------------------ *)
(* 2. kprod, kprod_skip and the per-sample row of factor entries                               *)
(* ------------------------------------------------------------------------------------------ *)
Lemma urow_length (As : list mat) i r : length i = length As -> length (urow v0 As i r) = length As.
Proof. intros H. unfold urow. rewrite map2_length, H. apply Nat.min_id. Qed.

Lemma kprod_urow' : forall (As : list mat) i r, kp As i r = pv (urow v0 As i r).
Proof.
  induction As as [|A As IH]; intros [|x i] r; cbn; auto. now rewrite IH.
Qed.

Lemma kprod_urow : forall (As : list mat) i r, length i = length As -> kp As i r = pv (urow v0 As i r).
Proof. intros. apply kprod_urow'. Qed.

Lemma kprod_skip_spec : forall (As : list mat) i r k, length i = length As -> k < length As ->
  ks As i r k = pv (firstn k (urow v0 As i r)) * pv (skipn (S k) (urow v0 As i r)).
Proof.
  induction As as [|A As IH]; intros [|x i] r [|k] Hl Hk; cbn [length] in *; try lia.
  - change (urow v0 (A :: As) (x :: i) r) with (mg A x r :: urow v0 As i r).
    cbn [kprod_skip firstn skipn prodv]. rewrite kprod_urow'. ring.
  - change (urow v0 (A :: As) (x :: i) r) with (mg A x r :: urow v0 As i r).
    cbn [kprod_skip firstn prodv]. rewrite (IH i r k) by lia.
    change (skipn (S (S k)) (mg A x r :: urow v0 As i r)) with (skipn (S k) (urow v0 As i r)). ring.
Qed.

Lemma loo_is_kprod_skip : forall (As : list mat) i r k, length i = length As -> k < length As ->
  nth k (loo_alg v1 vmul (urow v0 As i r)) v0 = ks As i r k.
Proof.
  intros As i r k Hl Hk. rewrite loo_alg_spec by (now rewrite urow_length).
  symmetry. now apply kprod_skip_spec.
Qed.

Lemma kprod_split : forall (As : list mat) i r k, length i = length As -> k < length As ->
  kp As i r = mg (nth k As []) (nth k i 0) r * ks As i r k.
Proof.
  induction As as [|A As IH]; intros [|x i] r [|k] Hl Hk; cbn [length] in *; try lia.
  - reflexivity.
  - cbn [kprod kprod_skip nth]. rewrite (IH i r k) by lia. ring.
Qed.

(* ------------------------------------------------------------------------------------------ *)
(* 3. den_k is additive in each factor matrix                                                  *)
(* ------------------------------------------------------------------------------------------ *)
Lemma kprod_skip_upd : forall (As : list mat) k (H : mat) i r, ks (upd As k H) i r k = ks As i r k.
Proof.
  induction As as [|A As IH]; intros [|k] H [|x i] r; cbn; auto. now rewrite IH.
Qed.

Lemma mdims_row (A : mat) I R j : mdims A I R -> length (nth j A []) = if j <? I then R else 0.
Proof.
  intros [Hl Hf]. destruct (Nat.ltb_spec j I) as [Hj|Hj].
  - rewrite Forall_forall in Hf. apply Hf. apply nth_In. lia.
  - rewrite nth_overflow by lia. reflexivity.
Qed.

Lemma mget_madd (A H : mat) I R j r : mdims A I R -> mdims H I R ->
  mg (madd A H) j r = mg A j r + mg H j r.
Proof.
  intros HA HH. unfold mget, madd.
  rewrite (nth_map2_total (map2 vadd) A H j [] [] []); [|destruct HA, HH; congruence|reflexivity].
  apply nth_map2_total.
  - rewrite (mdims_row A I R j HA), (mdims_row H I R j HH). reflexivity.
  - ring.
Qed.

Lemma madd_length (A H : mat) I R : mdims A I R -> mdims H I R -> length (madd A H) = I.
Proof. intros [HA _] [HH _]. unfold madd. rewrite map2_length, HA, HH. apply Nat.min_id. Qed.

Lemma kshape_kset (K : ktensor V) k (H : mat) :
  nrows H = nth k (kshape K) 0 -> kshape (kset K k H) = kshape K.
Proof.
  intros E. unfold kshape, kset. cbn [kfactors]. rewrite map_upd.
  apply (upd_same _ _ _ 0). symmetry. exact E.
Qed.

Lemma kshape_length (K : ktensor V) : length (kshape K) = length (kfactors K).
Proof. unfold kshape. apply map_length. Qed.

Lemma nth_kshape (K : ktensor V) k : nth k (kshape K) 0 = nrows (nth k (kfactors K) []).
Proof. unfold kshape. change 0 with (@nrows V []) at 1. apply map_nth. Qed.

(* the model value with the k-th factor replaced, written with the untouched leave-one-out product *)
Lemma den_kset (K : ktensor V) k (H : mat) i : k < length (kfactors K) ->
  inb (kshape (kset K k H)) i = true ->
  dk (kset K k H) i =
  sum_n v0 vadd (krank K) (fun r => nth r (kweights K) v0 * (mg H (nth k i 0) r * ks (kfactors K) i r k)).
Proof.
  intros Hk Hi. unfold den_k. rewrite Hi.
  pose proof (inb_length _ _ Hi) as Hl. rewrite kshape_length in Hl.
  unfold kset, krank in *. cbn [kfactors kweights] in *. rewrite upd_length in Hl.
  apply SN_ext. intros r _. f_equal.
  rewrite (kprod_split (upd (kfactors K) k H) i r k) by (rewrite upd_length; auto).
  rewrite kprod_skip_upd. rewrite nth_upd by auto. now rewrite Nat.eqb_refl.
Qed.

Theorem den_k_multilinear : forall (K : ktensor V) k A H I R i,
  k < length (kfactors K) -> nth k (kfactors K) [] = A -> mdims A I R -> mdims H I R ->
  dk (kset K k (madd A H)) i = dk K i + dk (kset K k H) i.
Proof.
  intros K k A H I R i Hk HA dA dH.
  assert (EA : nrows A = nth k (kshape K) 0) by (now rewrite nth_kshape, HA).
  assert (EH : nrows H = nth k (kshape K) 0) by (rewrite <- EA; destruct dA, dH; unfold nrows; congruence).
  assert (EM : nrows (madd A H) = nth k (kshape K) 0)
    by (rewrite <- EA; unfold nrows; rewrite (madd_length A H I R) by auto; now destruct dA).
  assert (EK : kset K k A = K).
  { unfold kset. destruct K as [w As]. cbn [kweights kfactors] in *. f_equal. now apply (upd_same _ _ _ []). }
  destruct (inb (kshape K) i) eqn:Hi.
  - rewrite <- EK at 2.
    rewrite !den_kset by (auto; rewrite kshape_kset; auto).
    unfold sum_n. rewrite <- SO_add. apply SO_ext. intros r _.
    rewrite (mget_madd A H I R) by auto. ring.
  - unfold den_k. rewrite !kshape_kset by auto. rewrite Hi. ring.
Qed.

(* ------------------------------------------------------------------------------------------ *)
(* 4. mttkrp is the adjoint of "replace the k-th factor"                                       *)
(* ------------------------------------------------------------------------------------------ *)
Lemma nth_map_seq {B} (F : nat -> B) n j d : j < n -> nth j (map F (seq 0 n)) d = F j.
Proof.
  intros H. rewrite (nth_indep _ d (F 0)) by (now rewrite map_length, seq_length).
  rewrite (map_nth F). now rewrite seq_nth.
Qed.

Lemma mget_mttkrp_den s (Y : idx -> V) (As : list mat) R k j r : j < nth k s 0 -> r < R ->
  mg (mttkrp_den v0 v1 vadd vmul s Y As R k) j r =
  msum (filter (fun i => Nat.eqb (nth k i 0) j) (allsubs s)) (fun i => Y i * ks As i r k).
Proof.
  intros Hj Hr. unfold mget, mttkrp_den.
  rewrite (nth_map_seq _ _ j []) by auto. now rewrite (nth_map_seq _ _ r v0) by auto.
Qed.

Theorem mttkrp_adjoint : forall (K : ktensor V) k (H : mat) (Y : idx -> V) s R,
  kshape (kset K k H) = s -> krank K = R -> k < length (kfactors K) -> mdims H (nth k s 0) R ->
  msum (allsubs s) (fun i => Y i * dk (kset K k H) i) =
  mpair (kweights K) (mttkrp_den v0 v1 vadd vmul s Y (kfactors K) R k) H (nth k s 0) R.
Proof.
  intros K k H Y s R Hs HR Hk dH.
  assert (Hls : length s = length (kfactors K)).
  { rewrite <- Hs, kshape_length. unfold kset. cbn [kfactors]. apply upd_length. }
  transitivity (msum (allsubs s) (fun i => sum_n v0 vadd R (fun r =>
     nth r (kweights K) v0 * ((Y i * ks (kfactors K) i r k) * mg H (nth k i 0) r)))).
  - apply SO_ext. intros i Hi. apply in_allsubs in Hi.
    rewrite den_kset by (auto; now rewrite Hs). rewrite HR. unfold sum_n.
    rewrite <- SO_scale_l. apply SO_ext. intros r _. ring.
  - symmetry. unfold mpair.
    transitivity (sum_n v0 vadd (nth k s 0) (fun j => msum (allsubs s) (fun i => sum_n v0 vadd R (fun r =>
       nth r (kweights K) v0 *
       ((if Nat.eqb (nth k i 0) j then Y i * ks (kfactors K) i r k else v0) * mg H j r))))).
    + apply SN_ext. intros j Hj. unfold sum_n at 2. rewrite SO_swap.
      apply SO_ext. intros r Hr. apply in_seq in Hr.
      rewrite mget_mttkrp_den by (auto; lia). rewrite sum_over_filter.
      rewrite <- SO_scale_r. rewrite <- SO_scale_l. reflexivity.
    + unfold sum_n at 1. rewrite SO_swap. apply SO_ext. intros i Hi. apply in_allsubs in Hi.
      rewrite (SO_single (seq 0 (nth k s 0)) (nth k i 0)).
      * rewrite Nat.eqb_refl. reflexivity.
      * apply seq_NoDup.
      * apply in_seq. pose proof (inb_nth_lt s i k Hi). lia.
      * intros a _ Ha. apply SO_zero. intros r _.
        replace (Nat.eqb (nth k i 0) a) with false by (symmetry; apply Nat.eqb_neq; congruence).
        ring.
Qed.

(* ------------------------------------------------------------------------------------------ *)
(* 5. the sampled estimator on ALL subscripts with unit weights is the exact evaluation        *)
(* ------------------------------------------------------------------------------------------ *)
Lemma msum_allsubs s (F : idx -> V) :
  msum (allsubs s) F = msum (seq 0 (size s)) (fun q => F (ind2sub s q)).
Proof. unfold allsubs. apply SO_map. Qed.

Lemma msum_filter_allsubs s (p : idx -> bool) (F : idx -> V) :
  msum (filter p (allsubs s)) F =
  msum (filter (fun q => p (ind2sub s q)) (seq 0 (size s))) (fun q => F (ind2sub s q)).
Proof. unfold allsubs. rewrite filter_map_comm. apply SO_map. Qed.

Lemma den_dense_ind2sub (X : dense V) q : q < size (dshape X) ->
  den_dense v0 X (ind2sub (dshape X) q) = nth q (ddata X) v0.
Proof. intros H. unfold den_dense. rewrite inb_ind2sub by auto. now rewrite sub2ind_ind2sub. Qed.

Lemma fac_val_den_k (As : list mat) R i : inb (map (@nrows V) As) i = true ->
  fac_val v0 v1 vadd vmul As R i = dk (mkK (repeat v1 R) As) i.
Proof.
  intros Hi. unfold fac_val, den_k, kshape, krank. cbn [kfactors kweights]. rewrite Hi, repeat_length.
  apply SN_ext. intros r Hr. rewrite nth_repeat_lt by auto. ring.
Qed.

Theorem estimate_exact_F : forall (f : V -> V -> V) (As : list mat) R (X : dense V),
  wf_dense X -> dshape X = map (@nrows V) As ->
  est_F v0 v1 vadd vmul vsub f As R (allsubs (dshape X)) (ddata X) (repeat v1 (size (dshape X))) [] =
  eval_F v0 v1 vadd vmul f (mkK (repeat v1 R) As) X None.
Proof.
  intros f As R X _ Hs. unfold est_F, eval_F, est_m. rewrite allsubs_length, msum_allsubs.
  apply SO_ext. intros q Hq. apply in_seq in Hq.
  cbn [inl existsb wget]. rewrite nth_repeat_lt by lia. rewrite nth_allsubs by lia.
  rewrite den_dense_ind2sub by lia.
  rewrite fac_val_den_k by (rewrite <- Hs; apply inb_ind2sub; lia). ring.
Qed.

Theorem estimate_exact_G : forall (g : V -> V -> V) (As : list mat) R (X : dense V),
  wf_dense X -> dshape X = map (@nrows V) As ->
  est_G v0 v1 vadd vmul vsub g As R (allsubs (dshape X)) (ddata X) (repeat v1 (size (dshape X))) []
        (dshape X) =
  eval_G v0 v1 vadd vmul g (mkK (repeat v1 R) As) X None.
Proof.
  intros g As R X _ Hs. unfold est_G, eval_G. unfold krank. cbn [kfactors kweights]. rewrite repeat_length.
  apply map_ext_in. intros k Hk. apply in_seq in Hk.
  unfold est_Gk, mttkrp_den. apply map_ext_in. intros j _. apply map_ext_in. intros r _.
  rewrite allsubs_length, msum_filter_allsubs.
  rewrite (filter_ext_in (fun q => Nat.eqb (nth k (nth q (allsubs (dshape X)) []) 0) j)
                         (fun q => Nat.eqb (nth k (ind2sub (dshape X) q) 0) j))
    by (intros q Hq; apply in_seq in Hq; rewrite nth_allsubs by lia; reflexivity).
  apply SO_ext. intros q Hq. apply filter_In in Hq as [Hq _]. apply in_seq in Hq.
  unfold est_Y, eval_Y, est_m. cbn [inl existsb wget].
  rewrite nth_repeat_lt by lia. rewrite nth_allsubs by lia. rewrite den_dense_ind2sub by lia.
  rewrite fac_val_den_k by (rewrite <- Hs; apply inb_ind2sub; lia).
  assert (HN : length (dshape X) = length As) by (now rewrite Hs, map_length).
  rewrite loo_is_kprod_skip by (rewrite ?ind2sub_length; lia).
  ring.
Qed.

End T2.
