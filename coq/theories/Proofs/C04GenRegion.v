(* Proofs/C04GenRegion.v — C04, wave 4: ALL MODES of the sparse region read over the translator-GENERATED tt_renumber
   (Gen/GenUtils3.v, regenerated from /repo/pyttb/pyttb_utils.py on every run).
   sptensor.__getitem__(region) = subdims filter ; tt_renumber ; (expansion of repeated list indices) ; column selection kpdims.
   Here: for every shape s, every key es the specification accepts on s (region_lists s es = Some ls: integers incl. negative,
   slices with any bounds / step, index lists) whose lists do not repeat an index, and every NON-EMPTY list F of stored
   subscripts that passed the filter (every subscript inside the selection of its mode), the generated tt_renumber returns
   exactly  (map (renum0 ls) F, new_sizes ls):  mode by mode the position of the subscript inside the selection, and the extents
   len l (0 for an integer mode: dropped by the caller).  Keeping the columns of the kept modes (keepc, pyttb: subs[:, kpdims],
   shape[kpdims]) gives the subscripts / shape of the model's sp_region_get (gen_region_get_entries).
   For F = [] (nothing stored inside the region) the generated tt_renumber only computes sizes: gen_renumber_region_empty. *)
From Coq Require Import List Arith ZArith Lia Bool.
From PV Require Import Base.Index Np.Array Model.Sparse.
From PV Require Import Np.NpZ Np.NpZ2 Np.NpZ3 Gen.GenUtils3 Model.W3Utils Proofs.W3Bridge Proofs.W3Laws.
From PV Require Import Model.C04Model Proofs.C04Dense Proofs.C04Sparse Proofs.C04RegionGet Proofs.C04Region Proofs.C04GenBridge.
Import ListNotations.

Definition zkeys (s : shape) (es : list C04Model.kelem) : list pyidx :=
  map (fun de => zkey (fst de) (snd de)) (combine s es).

(* every mode renumbered (integer modes included: they become 0) *)
Definition renum0 (ls : list (bool * list nat)) (p : idx) : idx :=
  map (fun xl : nat * (bool * list nat) => index_of0 (fst xl) (snd (snd xl))) (combine p ls).

(* extents reported by tt_renumber *)
Definition new_sizes (ls : list (bool * list nat)) : vec :=
  map (fun kl : bool * list nat => if fst kl then Z.of_nat (length (snd kl)) else 0%Z) ls.

(* the caller's column selection: subs[:, kpdims], shape[kpdims] *)
Definition keepc {A} (ls : list (bool * list nat)) (row : list A) : list A :=
  map fst (filter (fun xl : A * (bool * list nat) => fst (snd xl)) (combine row ls)).

(* the subdims filter: every subscript lies in the selection of its mode *)
Definition inside (ls : list (bool * list nat)) (p : idx) : Prop :=
  Forall2 (fun x (kl : bool * list nat) => In x (snd kl)) p ls.

Lemma region_lists_len s : forall es ls, region_lists s es = Some ls -> length es = length s /\ length ls = length s.
Proof.
  induction s as [|d s IH]; intros [|e es] ls H; cbn in H; try discriminate.
  - inversion H. auto.
  - destruct (elem_indices d e) as [x|]; [|discriminate]. destruct (region_lists s es) as [r|] eqn:E; [|discriminate].
    inversion H; subst. destruct (IH es r E). cbn. lia.
Qed.

Lemma region_lists_nth s : forall es ls i, region_lists s es = Some ls -> i < length s ->
  elem_indices (nth i s 0) (nth i es (C04Model.KInt 0)) = Some (nth i ls (false, [])).
Proof.
  induction s as [|d s IH]; intros [|e es] ls i H Hi; cbn in H; try discriminate; cbn in Hi; [lia|].
  destruct (elem_indices d e) as [x|] eqn:Ex; [|discriminate]. destruct (region_lists s es) as [r|] eqn:E; [|discriminate].
  inversion H; subst. destruct i as [|i]; cbn; [exact Ex|]. apply IH; [exact E|lia].
Qed.

Lemma inside_len ls p : inside ls p -> length p = length ls.
Proof. induction 1; cbn; lia. Qed.

Lemma inside_nth ls p i : inside ls p -> i < length ls -> In (nth i p 0) (snd (nth i ls (false, []))).
Proof.
  intros H. revert i. induction H as [|x kl p ls Hx _ IH]; intros i Hi; cbn in Hi; [lia|].
  destruct i as [|i]; cbn; [exact Hx|]. apply IH. lia.
Qed.

Lemma py_slice_full d : C04Model.py_slice d None None None = seq 0 d.
Proof.
  unfold C04Model.py_slice. cbn.
  destruct (Z.ltb_spec 0 (Z.of_nat d)).
  - replace (Z.to_nat ((Z.of_nat d - 0 - 1) / 1 + 1)) with d by (rewrite Z.div_1_r; lia).
    rewrite <- (map_id (seq 0 d)) at 2. apply map_ext. intros k. lia.
  - assert (d = 0) by lia. subst. reflexivity.
Qed.

Lemma index_of_seq_from k d x : k <= x < k + d -> C04Model.index_of x (seq k d) = Some (x - k).
Proof.
  revert k. induction d as [|d IH]; intros k H; [lia|]. cbn [seq C04Model.index_of].
  destruct (Nat.eqb_spec x k) as [->|Hne]; [f_equal; lia|].
  rewrite IH by lia. cbn. f_equal. lia.
Qed.

Lemma index_of0_seq d x : x < d -> index_of0 x (seq 0 d) = x.
Proof. intros H. unfold index_of0. rewrite index_of_seq_from by lia. lia. Qed.

Lemma nth_zs i p : nth i (zs p) 0%Z = Z.of_nat (nth i p 0).
Proof. unfold zs. change 0%Z with (Z.of_nat 0). apply map_nth. Qed.

Lemma znth_zs i p : i < length p -> znth 0%Z (zs p) (Z.of_nat i) = Z.of_nat (nth i p 0).
Proof. intros H. rewrite znth_nonneg by lia. rewrite Nat2Z.id. apply nth_zs. Qed.

Lemma np_col_zs (F : list idx) i : (forall p, In p F -> i < length p) ->
  np_col (map zs F) (Z.of_nat i) = zs (map (fun p => nth i p 0) F).
Proof.
  intros H. unfold np_col, zs at 2. rewrite !map_map. apply map_ext_in. intros p Hp. apply znth_zs. auto.
Qed.

Lemma np_size2_pos (m : mat) r : In r m -> r <> [] -> (np_size2 m =? 0)%Z = false.
Proof.
  intros Hin Hr. apply Z.eqb_neq. unfold np_size2.
  assert (G : forall m, (0 <= fold_right Z.add 0 (map (@zlen Z) m))%Z).
  { induction m0; cbn; unfold zlen in *; lia. }
  induction m as [|a m IH]; [contradiction|]. cbn. destruct Hin as [->|Hin].
  - pose proof (G m). unfold zlen at 1. destruct r; [contradiction|]. cbn [length]. lia.
  - specialize (IH Hin). pose proof (G m). unfold zlen at 1. lia.
Qed.

Lemma nth_zkeys s : forall es i, length es = length s -> i < length s ->
  nth i (zkeys s es) IxNone = zkey (nth i s 0) (nth i es (C04Model.KInt 0)).
Proof.
  induction s as [|d s IH]; intros [|e es] i Hl Hi; cbn in *; try lia.
  destruct i as [|i]; [reflexivity|]. apply IH; lia.
Qed.

Lemma zkeys_len s es : length es = length s -> length (zkeys s es) = length s.
Proof. intros H. unfold zkeys. rewrite map_length, combine_length. lia. Qed.

Lemma zkey_eq_ok d e : ix_eq_ok (zkey d e) = true.
Proof. destruct e; cbn; [destruct (norm_index d z)|..]; reflexivity. Qed.

Lemma zkey_fullslice d e : ix_is_fullslice (zkey d e) = true -> e = C04Model.KSlice None None None.
Proof.
  destruct e as [z|a b c|l]; cbn; [destruct (norm_index d z); discriminate| |discriminate].
  destruct a, b, c; try discriminate. reflexivity.
Qed.

Lemma elem_indices_in_range d e kept l : elem_indices d e = Some (kept, l) -> forall x, In x l -> x < d.
Proof.
  destruct e as [z|a b c|zl]; cbn; intros H x Hx.
  - destruct (norm_index d z) as [k|] eqn:E; [|discriminate]. inversion H; subst. destruct Hx as [<-|[]].
    eapply norm_index_lt; eauto.
  - destruct (C04Model.py_slice d a b c) eqn:E; [discriminate|]. inversion H; subst. rewrite <- E in Hx.
    eapply c04_slice_range; eauto.
  - destruct zl as [|z0 zr] eqn:Ezl; [discriminate|]. rewrite <- Ezl in *. clear Ezl z0 zr.
    destruct (forallb _ _) eqn:Ef; [|discriminate]. inversion H; subst.
    rewrite forallb_forall in Ef. apply in_map_iff in Hx as (y & <- & Hy). apply Ef in Hy.
    apply andb_true_iff in Hy as [H1 H2]. apply Z.leb_le in H1. apply Z.ltb_lt in H2. lia.
Qed.

(* the per-mode outcome table handed to the translator builder's assembly theorem *)
Definition mode_out (s : shape) (es : list C04Model.kelem) (ls : list (bool * list nat)) (F : list idx) (i : nat)
  : option vec * Z :=
  let kl := nth i ls (false, []) in
  if ix_is_fullslice (zkey (nth i s 0) (nth i es (C04Model.KInt 0))) then (None, Z.of_nat (nth i s 0))
  else (Some (zs (map (fun p => index_of0 (nth i p 0) (snd kl)) F)), if fst kl then Z.of_nat (length (snd kl)) else 0%Z).

Lemma nth_map_seq {A} (f : nat -> A) n i d : i < n -> nth i (map f (seq 0 n)) d = f i.
Proof.
  intros H. rewrite (nth_indep _ d (f 0)) by (rewrite map_length, seq_length; exact H).
  rewrite (map_nth f). rewrite seq_nth by exact H. reflexivity.
Qed.

Lemma nth_renum0 ls : forall p i, length p = length ls -> i < length ls ->
  nth i (renum0 ls p) 0 = index_of0 (nth i p 0) (snd (nth i ls (false, []))).
Proof.
  induction ls as [|kl ls IH]; intros [|x p] i Hl Hi; cbn in *; try lia.
  destruct i as [|i]; [reflexivity|]. apply IH; lia.
Qed.

Lemma renum0_len ls p : length p = length ls -> length (renum0 ls p) = length ls.
Proof. intros H. unfold renum0. rewrite map_length, combine_length. lia. Qed.

Lemma nth_new_sizes ls i : i < length ls ->
  nth i (new_sizes ls) 0%Z = let kl := nth i ls (false, []) in if fst kl then Z.of_nat (length (snd kl)) else 0%Z.
Proof.
  intros H. unfold new_sizes.
  rewrite (nth_indep _ 0%Z ((fun kl : bool * list nat => if fst kl then Z.of_nat (length (snd kl)) else 0%Z) (false, []))) by (rewrite map_length; exact H).
  rewrite (map_nth (fun kl : bool * list nat => if fst kl then Z.of_nat (length (snd kl)) else 0%Z)). reflexivity.
Qed.

Theorem gen_renumber_region (s : shape) (es : list C04Model.kelem) ls (F : list idx) :
  region_lists s es = Some ls ->
  Forall (fun kl : bool * list nat => NoDup (snd kl)) ls ->
  F <> [] -> s <> [] ->
  (forall p, In p F -> inside ls p) ->
  tt_renumber (map zs F) (zs s) (zkeys s es) = Ok (map (fun p => zs (renum0 ls p)) F, new_sizes ls).
Proof.
  intros Hrl Hnd HF Hs Hin.
  destruct (region_lists_len s es ls Hrl) as [Les Lls].
  assert (Lzs : length (zs s) = length s) by (unfold zs; apply map_length).
  assert (HFlen : forall p, In p F -> length p = length s).
  { intros p Hp. rewrite (inside_len ls p (Hin p Hp)). exact Lls. }
  destruct (renumber_modes (map zs F) (zs s) (zkeys s es) (map (mode_out s es ls F) (seq 0 (length s)))) as (ns & nsh & E & Lnsh & Lns & Hsh & Hrows).
  - rewrite Lzs. apply zkeys_len. exact Les.
  - intros r Hr. apply in_map_iff in Hr as (p & <- & Hp). unfold zs. rewrite !map_length. auto.
  - intros i Hi. rewrite Lzs in Hi. rewrite nth_zkeys by auto. apply zkey_eq_ok.
  - intros i Hi. rewrite Lzs in Hi. rewrite nth_zkeys by auto. rewrite nth_map_seq by exact Hi. rewrite nth_zs.
    unfold mode_outcome, mode_out. cbv zeta.
    destruct (ix_is_fullslice (zkey (nth i s 0) (nth i es (C04Model.KInt 0)))) eqn:Efs; [reflexivity|].
    destruct F as [|p0 F0] eqn:EF; [contradiction|]. rewrite <- EF in *.
    assert (Hp0 : In p0 F) by (rewrite EF; left; reflexivity).
    rewrite (np_size2_pos (map zs F) (zs p0)).
    + rewrite np_col_zs by (intros p Hp; rewrite (HFlen p Hp); exact Hi).
      pose proof (region_lists_nth s es ls i Hrl Hi) as Hel.
      destruct (nth i ls (false, [])) as [kept l] eqn:Ekl.
      rewrite (gen_renumberdim_elem (nth i s 0) (nth i es (C04Model.KInt 0)) kept l (map (fun p => nth i p 0) F) Hel).
      * cbn [bind fst snd]. rewrite map_map. reflexivity.
      * rewrite Forall_forall in Hnd. apply (Hnd (kept, l)). rewrite <- Ekl. apply nth_In. lia.
      * intros x Hx. apply in_map_iff in Hx as (p & <- & Hp).
        pose proof (inside_nth ls p i (Hin p Hp) ltac:(lia)) as Hx. rewrite Ekl in Hx. exact Hx.
    + apply in_map. exact Hp0.
    + intros Ez. apply (f_equal (@length Z)) in Ez. unfold zs in Ez. rewrite map_length, (HFlen p0 Hp0) in Ez. cbn in Ez. lia.
  - intros i c Hi Hc. rewrite Lzs in Hi. rewrite nth_map_seq in Hc by exact Hi. unfold mode_out in Hc. cbv zeta in Hc.
    destruct (ix_is_fullslice _); cbn in Hc; [discriminate|]. inversion Hc; subst. unfold zs. rewrite !map_length. reflexivity.
  - rewrite E. f_equal. rewrite map_length in Lns, Hrows. rewrite Lzs in *. f_equal.
    + apply (nth_ext _ _ [] []); [rewrite map_length; exact Lns|]. intros row Hrow. rewrite Lns in Hrow.
      destruct (Hrows row Hrow) as [Lrow Hrow'].
      rewrite (nth_indep (map _ F) [] ((fun p => zs (renum0 ls p)) [])) by (rewrite map_length; exact Hrow).
      rewrite (map_nth (fun p => zs (renum0 ls p))).
      assert (Hp : In (nth row F []) F) by (apply nth_In; exact Hrow).
      pose proof (HFlen _ Hp) as Lp.
      apply (nth_ext _ _ 0%Z 0%Z); [unfold zs; rewrite map_length, renum0_len by lia; lia|].
      intros i Hi. rewrite Lrow in Hi. rewrite (Hrow' i Hi). rewrite nth_map_seq by exact Hi.
      rewrite nth_zs, nth_renum0 by lia. unfold mode_out. cbv zeta.
      destruct (ix_is_fullslice _) eqn:Efs; cbn [fst].
      * apply zkey_fullslice in Efs.
        pose proof (region_lists_nth s es ls i Hrl Hi) as Hel. rewrite Efs in Hel. cbn [elem_indices] in Hel. rewrite py_slice_full in Hel.
        destruct (seq 0 (nth i s 0)) eqn:Eseq; [discriminate|]. rewrite <- Eseq in Hel. inversion Hel as [Hkl].
        rewrite (nth_indep (map zs F) [] (zs [])) by (rewrite map_length; exact Hrow). unfold zs at 1. rewrite (map_nth (map Z.of_nat)).
        fold (zs (nth row F [])). rewrite nth_zs. cbn [snd]. rewrite index_of0_seq; [reflexivity|].
        pose proof (inside_nth ls _ i (Hin _ Hp) ltac:(lia)) as Hx. rewrite <- Hkl in Hx. cbn in Hx. apply in_seq in Hx. lia.
      * rewrite nth_zs. rewrite (nth_map_lt _ F 0 [] row) by exact Hrow. reflexivity.
    + apply (nth_ext _ _ 0%Z 0%Z); [unfold new_sizes; rewrite map_length; lia|]. intros i Hi. rewrite Lnsh in Hi.
      rewrite (Hsh i Hi), nth_map_seq, nth_new_sizes by lia. unfold mode_out. cbv zeta.
      destruct (ix_is_fullslice _) eqn:Efs; cbn [snd]; [|reflexivity].
      apply zkey_fullslice in Efs.
      pose proof (region_lists_nth s es ls i Hrl Hi) as Hel. rewrite Efs in Hel. cbn [elem_indices] in Hel. rewrite py_slice_full in Hel.
      destruct (seq 0 (nth i s 0)) eqn:Eseq; [discriminate|]. rewrite <- Eseq in Hel. inversion Hel as [Hkl]. cbn.
      now rewrite seq_length.
Qed.

(* ------------------------------------------------------------------------------------------------ *)
(* the link to the model: filter ; GENERATED tt_renumber ; kept columns  =  sp_region_get              *)
(* ------------------------------------------------------------------------------------------------ *)
Fixpoint insideb (ls : list (bool * list nat)) (p : idx) : bool :=
  match ls, p with
  | [], [] => true
  | kl :: ls', x :: p' => existsb (Nat.eqb x) (snd kl) && insideb ls' p'
  | _, _ => false
  end.

Lemma existsb_eqb_in x l : existsb (Nat.eqb x) l = true <-> In x l.
Proof.
  rewrite existsb_exists. split.
  - intros (y & Hy & E). apply Nat.eqb_eq in E. now subst.
  - intros H. exists x. split; auto. apply Nat.eqb_refl.
Qed.

Lemma insideb_spec ls : forall p, insideb ls p = true <-> inside ls p.
Proof.
  induction ls as [|kl ls IH]; intros [|x p]; cbn; split; intros H; try discriminate; try constructor; try (inversion H; fail).
  - apply andb_true_iff in H as [H1 H2]. now apply existsb_eqb_in.
  - apply andb_true_iff in H as [H1 H2]. now apply IH.
  - inversion H; subst. apply andb_true_iff. split; [now apply existsb_eqb_in|now apply IH].
Qed.

Lemma index_of_notin x l : existsb (Nat.eqb x) l = false -> C04Model.index_of x l = None.
Proof.
  induction l as [|y r IH]; cbn; auto. intros H. apply orb_false_iff in H as [H1 H2]. rewrite H1, IH; auto.
Qed.

Lemma keepc_cons {A} kl ls (x : A) r : keepc (kl :: ls) (x :: r) = if fst kl then x :: keepc ls r else keepc ls r.
Proof. unfold keepc. cbn. destruct (fst kl); reflexivity. Qed.

Lemma renumber_inside ls : forall p, inside ls p -> renumber ls p = Some (keepc ls (renum0 ls p)).
Proof.
  induction ls as [|[kept l] ls IH]; intros p H; inversion H as [|x kl p' ls' Hx Hr]; subst; [reflexivity|].
  cbn in Hx. rewrite renumber_cons by exact Hx. rewrite (IH p' Hr).
  change (renum0 ((kept, l) :: ls) (x :: p')) with (index_of0 x l :: renum0 ls p'). rewrite keepc_cons. reflexivity.
Qed.

Lemma renumber_outside ls : forall p, insideb ls p = false -> renumber ls p = None.
Proof.
  induction ls as [|[kept l] ls IH]; intros [|x p] H; cbn in *; try discriminate; auto.
  apply andb_false_iff in H as [H|H].
  - now rewrite index_of_notin.
  - rewrite (IH p H). destruct (C04Model.index_of x l); reflexivity.
Qed.

Lemma keepc_new_sizes ls : keepc ls (new_sizes ls) = zs (kept_shape ls).
Proof.
  induction ls as [|[kept l] ls IH]; [reflexivity|].
  change (new_sizes ((kept, l) :: ls)) with ((if kept then Z.of_nat (length l) else 0%Z) :: new_sizes ls).
  rewrite keepc_cons. cbn [fst]. unfold kept_shape. cbn [filter fst]. destruct kept; cbn [map snd zs]; fold (kept_shape ls); rewrite IH; reflexivity.
Qed.

Lemma keepc_zs ls : forall r, keepc ls (zs r) = zs (keepc ls r).
Proof.
  induction ls as [|kl ls IH]; intros [|x r]; try reflexivity.
  change (zs (x :: r)) with (Z.of_nat x :: zs r). rewrite !keepc_cons, IH. destruct (fst kl); reflexivity.
Qed.

Definition unzs (l : vec) : list nat := map Z.to_nat l.
Lemma unzs_zs l : unzs (zs l) = l.
Proof. unfold unzs, zs. rewrite map_map. rewrite <- (map_id l) at 2. apply map_ext. intros. apply Nat2Z.id. Qed.

Section R.
Context {V : Type} (v0 : V).

Lemma region_sel_all_filter ls (es : list (idx * V)) : Forall (fun x : bool * list nat => NoDup (snd x)) ls ->
  region_sel_all ls es =
  map (fun e : idx * V => (keepc ls (renum0 ls (fst e)), snd e)) (filter (fun e : idx * V => insideb ls (fst e)) es).
Proof.
  intros Hnd. induction es as [|[q v] r IH]; [reflexivity|].
  unfold region_sel_all in *. cbn [flat_map filter fst snd]. rewrite IH.
  rewrite (renumber_all_nodup_lists ls Hnd q).
  destruct (insideb ls q) eqn:E.
  - apply insideb_spec in E. rewrite (renumber_inside ls q E). reflexivity.
  - rewrite (renumber_outside ls q E). reflexivity.
Qed.

(* sptensor.__getitem__(region) with the GENERATED tt_renumber inside: the stored entries that pass the subdims filter (F),
   their subscripts renumbered by the generated function, the columns of the kept modes, the values carried along and the
   shape shape[kpdims] — that object IS the model's sp_region_get, and therefore (C04_sparse_region_read) holds at every
   subscript j of the result what the source holds at the position j selects *)
Theorem gen_sparse_region_read (S : sparse V) es ls ns nsh :
  region_lists (sshape S) es = Some ls ->
  Forall (fun x : bool * list nat => NoDup (snd x)) ls ->
  sshape S <> [] ->
  let F := filter (fun e : idx * V => insideb ls (fst e)) (entries S) in
  F <> [] ->
  tt_renumber (map zs (map fst F)) (zs (sshape S)) (zkeys (sshape S) es) = Ok (ns, nsh) ->
  let R := mkSp (unzs (keepc ls nsh)) (map (fun r => unzs (keepc ls r)) ns) (map snd F) in
  sp_region_get S es = Some R /\
  sshape R = kept_shape ls /\
  (forall j, inb (kept_shape ls) j = true -> den_sp v0 R j = den_sp v0 S (select ls j)).
Proof.
  intros Hrl Hnd Hs F HF Hgen R.
  rewrite (gen_renumber_region (sshape S) es ls (map fst F) Hrl Hnd) in Hgen; auto.
  - inversion Hgen; subst ns nsh. clear Hgen.
    assert (ER : sp_region_get S es = Some R).
    { unfold sp_region_get. rewrite Hrl. f_equal. unfold of_entries. rewrite (region_sel_all_filter ls (entries S) Hnd).
      fold F. subst R. f_equal.
      - now rewrite keepc_new_sizes, unzs_zs.
      - rewrite !map_map. apply map_ext. intros e. cbn [fst]. now rewrite keepc_zs, unzs_zs.
      - rewrite map_map. reflexivity. }
    split; [exact ER|]. exact (sp_region_get_den v0 S R es ls Hrl ER).
  - intros E. apply HF. destruct F; [reflexivity|discriminate].
  - intros p Hp. apply in_map_iff in Hp as (e & <- & He). apply filter_In in He as [_ He]. now apply insideb_spec.
Qed.
End R.

(* non-vacuity: 4x3x5 tensor storing four entries out of order; key (list in non-monotone order, integer -1, negative stepped
   slice): two entries pass the filter; the GENERATED tt_renumber returns their positions inside the selections *)
Example gen_sparse_region_read_example :
  let S := mkSp [4; 3; 5] [[3; 2; 4]; [0; 2; 0]; [1; 1; 4]; [3; 0; 2]] [7; 8; 9; 6]%Z in
  let es := [C04Model.KList [3; 1]%Z; C04Model.KInt (-1); C04Model.KSlice (Some 4%Z) None (Some (-2)%Z)] in
  tt_renumber (map zs [[3; 2; 4]]) (zs [4; 3; 5]) (zkeys [4; 3; 5] es) = Ok ([[0; 0; 0]%Z], [2; 0; 3]%Z) /\
  sp_region_get S es = Some (mkSp [2; 3] [[0; 0]] [7%Z]).
Proof. split; vm_compute; reflexivity. Qed.

(* ------------------------------------------------------------------------------------------------ *)
(* nothing stored inside the region: the generated tt_renumber only computes the sizes               *)
(* ------------------------------------------------------------------------------------------------ *)
Definition esize (d : nat) (e : C04Model.kelem) : Z :=
  match e with
  | C04Model.KInt z => match norm_index d z with Some k => Z.of_nat k | None => 0%Z end
  | C04Model.KSlice a b c => Z.of_nat (length (C04Model.py_slice d a b c))
  | C04Model.KList l => zlen l
  end.
Definition esizes (s : shape) (es : list C04Model.kelem) : vec := map (fun de => esize (fst de) (snd de)) (combine s es).

Lemma keepc_esizes s : forall es ls, region_lists s es = Some ls -> keepc ls (esizes s es) = zs (kept_shape ls).
Proof.
  induction s as [|d s IH]; intros [|e es] ls H; cbn in H; try discriminate.
  - inversion H. reflexivity.
  - destruct (elem_indices d e) as [[kept l]|] eqn:Ex; [|discriminate]. destruct (region_lists s es) as [r|] eqn:E; [|discriminate].
    inversion H; subst. change (esizes (d :: s) (e :: es)) with (esize d e :: esizes s es). rewrite keepc_cons, (IH es r E).
    cbn [fst]. unfold kept_shape. cbn [filter fst]. destruct kept; [|reflexivity]. cbn [map snd zs]. f_equal.
    destruct e as [z|a b c|zl]; cbn in Ex.
    + destruct (norm_index d z); inversion Ex.
    + destruct (C04Model.py_slice d a b c) eqn:Es; inversion Ex; subst. cbn [esize]. now rewrite Es.
    + destruct zl as [|z0 zr] eqn:Ezl; [discriminate|]. rewrite <- Ezl in *. destruct (forallb _ _); inversion Ex; subst.
      cbn [esize]. unfold zlen. now rewrite map_length.
Qed.

Lemma nth_esizes s : forall es i, length es = length s -> i < length s ->
  nth i (esizes s es) 0%Z = esize (nth i s 0) (nth i es (C04Model.KInt 0)).
Proof.
  induction s as [|d s IH]; intros [|e es] i Hl Hi; cbn in *; try lia.
  destruct i as [|i]; [reflexivity|]. apply IH; lia.
Qed.

Theorem gen_renumber_region_empty (s : shape) (es : list C04Model.kelem) ls :
  region_lists s es = Some ls ->
  tt_renumber [] (zs s) (zkeys s es) = Ok ([], esizes s es) /\ keepc ls (esizes s es) = zs (kept_shape ls).
Proof.
  intros Hrl. split; [|now apply keepc_esizes].
  destruct (region_lists_len s es ls Hrl) as [Les Lls].
  assert (Lzs : length (zs s) = length s) by (unfold zs; apply map_length).
  destruct (renumber_modes [] (zs s) (zkeys s es) (map (fun i => (@None vec, esize (nth i s 0) (nth i es (C04Model.KInt 0)))) (seq 0 (length s))))
    as (ns & nsh & E & Lnsh & Lns & Hsh & _).
  - rewrite Lzs. now apply zkeys_len.
  - intros r [].
  - intros i Hi. rewrite Lzs in Hi. rewrite nth_zkeys by auto. apply zkey_eq_ok.
  - intros i Hi. rewrite Lzs in Hi. rewrite nth_zkeys by auto. rewrite nth_map_seq by exact Hi. rewrite nth_zs.
    unfold mode_outcome.
    pose proof (region_lists_nth s es ls i Hrl Hi) as Hel. destruct (nth i ls (false, [])) as [kept l].
    destruct (ix_is_fullslice (zkey (nth i s 0) (nth i es (C04Model.KInt 0)))) eqn:Efs.
    + apply zkey_fullslice in Efs. rewrite Efs. cbn [esize]. now rewrite py_slice_full, seq_length.
    + change (np_size2 [] =? 0)%Z with true. cbv iota.
      destruct (nth i es (C04Model.KInt 0)) as [z|a b c|zl]; cbn [zkey esize elem_indices] in *.
      * destruct (norm_index (nth i s 0) z); [reflexivity|discriminate].
      * cbn [H_empty_size bind].
        assert (Hok : slice_ok (mkslice a b c) = true).
        { unfold slice_ok. cbn. destruct c as [st|]; auto. destruct (Z.eqb_spec st 0) as [->|Hs]; [|destruct st; auto; contradiction].
          unfold C04Model.py_slice in Hel. cbn in Hel. discriminate. }
        rewrite Hok, gen_slice_selection by exact Hok. unfold zlen, zs. now rewrite map_length.
      * reflexivity.
  - intros i c Hi Hc. rewrite Lzs in Hi. rewrite nth_map_seq in Hc by exact Hi. discriminate.
  - rewrite E. destruct ns; [|discriminate]. f_equal. f_equal.
    apply (nth_ext _ _ 0%Z 0%Z); [unfold esizes; rewrite map_length, combine_length; lia|]. intros i Hi. rewrite Lnsh, Lzs in Hi.
    rewrite (Hsh i) by lia. rewrite nth_map_seq by exact Hi. now rewrite nth_esizes.
Qed.

(* ------------------------------------------------------------------------------------------------ *)
(* key forms of the model vs. the GENERATED dispatcher get_index_variant                             *)
(* ------------------------------------------------------------------------------------------------ *)
(* how the five key constructors of the specification arrive at tensor / sptensor __getitem__ / __setitem__: an integer, a
   slice, a list of integers or a 1-d integer array, a 2-d integer array (one row per subscript), a tuple (one element per
   mode; get_index_variant never looks inside a tuple, its elements are abstracted to pyelem) *)
Definition pykey_of (k : C04Model.key) (as_array : bool) (tuple_elems : list pyelem) : pykey :=
  match k with
  | KLin z => NpZ3.KInt z
  | KLinSlice a b c => NpZ3.KSlice (mkslice a b c)
  | KLinList l => if as_array then KArr (mknd [zlen l] DInt (map NFin l)) else NpZ3.KList (map EInt l)
  | KSubs rows => KArr (mknd [zlen rows; zlen (hd [] rows)] DInt (map NFin (concat rows)))
  | KRegion es => KTuple tuple_elems
  end.
Definition variant_of (k : C04Model.key) : IndexVariant :=
  match k with
  | KLin _ | KLinSlice _ _ _ | KLinList _ => LINEAR
  | KSubs _ => SUBSCRIPTS
  | KRegion _ => SUBTENSOR
  end.

(* every key form the specification gives a meaning to is dispatched by the generated get_index_variant to the branch the
   model describes (linear / subscript array / region); the empty index list is refused by both *)
Theorem gen_dispatch (k : C04Model.key) as_array te :
  k <> KLinList [] \/ as_array = true ->
  get_index_variant (pykey_of k as_array te) = Ok (variant_of k).
Proof.
  destruct index_variant_table as (T1 & T2 & T3 & T4 & T5 & _).
  intros Hk. destruct k as [z|l|a b c|rows|es]; cbn [pykey_of variant_of].
  - apply T1.
  - destruct as_array.
    + rewrite T3. reflexivity.
    + destruct l as [|z l]; [destruct Hk as [Hk|Hk]; [contradiction|discriminate]|].
      cbn [map]. rewrite T5. replace (forallb elem_is_int (map EInt l)) with true; [reflexivity|].
      symmetry. apply forallb_forall. intros e He. apply in_map_iff in He as (x & <- & _). reflexivity.
  - apply T2.
  - rewrite T3. reflexivity.
  - apply T4.
Qed.

Lemma gen_dispatch_empty_list s : get_index_variant (pykey_of (KLinList []) false []) = Err /\ resolve_get s (KLinList []) = None.
Proof. destruct index_variant_table as (_ & _ & _ & _ & _ & _ & T7 & _). split; [exact T7|reflexivity]. Qed.
