(* Props/W4SC13b.v — C13 (GCPSampler default-count table) stated over the GENERATED skeleton Gen/GenSampler.v
   (tools/pyx2v_skel.py regenerates it from /repo/pyttb/gcp/samplers.py::GCPSampler.__init__, _prepare_function_sampler,
   _prepare_gradient_sampler, class Samplers, class StratifiedCount on every run).  `... = Some r` = the constructor returns
   without raising, `None` = it raises.  Only statements, `exact`, Print Assumptions. *)
From Coq Require Import List Bool ZArith.
From PV Require Import Model.W4SPrelude Model.W4SPreludeZ Gen.GenSampler Model.W4SHarnessSampler Alg.C13Config Proofs.W4SSampler.
Import ListNotations.
Local Open Scope Z_scope.

(* BRIDGE: for every ceil oracle cd, the generated _prepare_function_sampler / _prepare_gradient_sampler / __init__ compute the
   rows of the hand table Alg/C13Config.v (fn_config_o / gr_config_o); CError = the source raises *)
Theorem W4S_C13_sampler_fn_bridge : forall cd sparse size nnz k req,
  zs_fn cd (sparse, size, nnz) k (size - nnz) nnz tt (dyn_of req) = to_gen (fn_config_o cd sparse size nnz (Some (kind_of k)) req).
Proof. exact fn_bridge. Qed.
Print Assumptions W4S_C13_sampler_fn_bridge.

Theorem W4S_C13_sampler_gr_bridge : forall cd crng0 sparse size nnz k req max_iters,
  (sparse = true -> k = Samplers_UNIFORM -> size <> 0) ->
  zs_gr cd crng0 (sparse, size, nnz) k (size - nnz) nnz tt (dyn_of req) max_iters =
  match to_gen (gr_config_o cd sparse size nnz max_iters (Some (kind_of k)) req) with
  | None => None
  | Some g => Some (g, match g with GSemistrat nz _ => nz | _ => crng0 end)
  end.
Proof. exact gr_bridge. Qed.
Print Assumptions W4S_C13_sampler_gr_bridge.

(* the row the hand table lacks: uniform gradient sampling of a SPARSE tensor with no entries divides by zero *)
Theorem W4S_C13_sampler_gr_zero_size : forall cd crng0 nnz req max_iters,
  zs_gr cd crng0 (true, 0, nnz) Samplers_UNIFORM (0 - nnz) nnz tt req max_iters = None.
Proof. exact gr_zero_size. Qed.
Print Assumptions W4S_C13_sampler_gr_zero_size.

Theorem W4S_C13_sampler_init_bridge : forall cd sparse size nnz fk freq gk greq max_iters,
  (sparse = true -> gk = Some Samplers_UNIFORM -> size <> 0) ->
  zs_init cd (sparse, size, nnz) fk (dyn_of freq) gk (dyn_of greq) max_iters tt =
  match to_gen (fn_config_o cd sparse size nnz (option_map kind_of fk) freq),
        to_gen (gr_config_o cd sparse size nnz max_iters (option_map kind_of gk) greq) with
  | Some f, Some g => Some (f, g, crng_len (gr_config_o cd sparse size nnz max_iters (option_map kind_of gk) greq))
  | _, _ => None
  end.
Proof. exact init_bridge. Qed.
Print Assumptions W4S_C13_sampler_init_bridge.

(* all defaults: the generated constructor does not raise, the counts never exceed what the tensor holds, the correction range
   is empty — for every rounding of the float ceilings *)
Theorem W4S_C13_sampler_defaults_feasible : forall cd sparse size nnz max_iters,
  0 <= nnz <= size -> 0 < max_iters ->
  exists f g, zs_init cd (sparse, size, nnz) None SkNone None SkNone max_iters tt = Some (f, g, 0) /\
              gen_feasible size nnz f /\ gen_feasible size nnz g.
Proof. exact init_defaults_feasible. Qed.
Print Assumptions W4S_C13_sampler_defaults_feasible.

Theorem W4S_C13_sampler_defaults_small : forall cd size nnz max_iters,
  0 <= nnz <= size -> 0 < max_iters ->
  (nnz <= 1000 -> zs_init cd (true, size, nnz) None SkNone None SkNone max_iters tt =
                  Some (GStratified nnz (Z.min nnz (size - nnz)), GStratified nnz (Z.min nnz (size - nnz)), 0)) /\
  (size <= 1000 -> zs_init cd (false, size, nnz) None SkNone None SkNone max_iters tt =
                   Some (GUniform (SkInt size), GUniform (SkInt size), 0)).
Proof. exact init_defaults_small. Qed.
Print Assumptions W4S_C13_sampler_defaults_small.

(* for EVERY instantiation of the kernels *)
Section W4SC13b.
Variables T_Data T_Rate T_Idx T_Fl T_Sampler T_Crng : Type.
Variable k_is_sptensor : T_Data -> bool.
Variable k_ceil_div : Z -> Z -> Z.
Variable k_sorted_nz_idx : T_Data -> T_Idx.
Variable k_partial_stratified : Z -> Z -> T_Idx -> T_Rate -> T_Sampler.
Variable k_tensor_size : T_Data -> Z.
Variable k_partial_uniform : sk_dyn StratifiedCount -> T_Sampler.
Variable k_partial_semistrat : Z -> Z -> T_Sampler.
Variable k_arange : Z -> T_Crng.
Variable k_fdiv : Z -> Z -> T_Fl.
Variable k_poisson_sampler : T_Idx -> T_Fl -> T_Fl -> T_Rate -> T_Sampler.

Notation g_fn := (prepare_function_sampler T_Data T_Rate T_Idx T_Sampler k_is_sptensor k_ceil_div k_sorted_nz_idx k_partial_stratified
                    k_tensor_size k_partial_uniform).
Notation g_gr := (prepare_gradient_sampler T_Data T_Rate T_Idx T_Fl T_Sampler T_Crng k_is_sptensor k_ceil_div k_sorted_nz_idx
                    k_partial_stratified k_tensor_size k_partial_uniform k_partial_semistrat k_arange k_fdiv k_poisson_sampler).

Theorem W4S_C13_sampler_other_request_rejected : forall data k nz nnz rate crng0 max_iters,
  g_fn data k nz nnz rate SkOther = None /\ g_gr crng0 data k nz nnz rate SkOther max_iters = None.
Proof. exact (other_request_rejected T_Data T_Rate T_Idx T_Fl T_Sampler T_Crng k_is_sptensor k_ceil_div k_sorted_nz_idx
                k_partial_stratified k_tensor_size k_partial_uniform k_partial_semistrat k_arange k_fdiv k_poisson_sampler). Qed.

Theorem W4S_C13_sampler_rejected_rows : forall data nz nnz rate crng0 max_iters req c,
  (k_is_sptensor data = false -> g_fn data Samplers_STRATIFIED nz nnz rate req = None) /\
  (k_is_sptensor data = false -> g_gr crng0 data Samplers_STRATIFIED nz nnz rate req max_iters = None) /\
  g_fn data Samplers_SEMISTRATIFIED nz nnz rate req = None /\
  g_fn data Samplers_UNIFORM nz nnz rate (SkObj c) = None /\
  g_gr crng0 data Samplers_UNIFORM nz nnz rate (SkObj c) max_iters = None.
Proof. exact (rejected_rows T_Data T_Rate T_Idx T_Fl T_Sampler T_Crng k_is_sptensor k_ceil_div k_sorted_nz_idx
                k_partial_stratified k_tensor_size k_partial_uniform k_partial_semistrat k_arange k_fdiv k_poisson_sampler). Qed.

Theorem W4S_C13_sampler_crng_rule : forall data k nz nnz rate crng0 max_iters req g c,
  g_gr crng0 data k nz nnz rate req max_iters = Some (g, c) ->
  (k = Samplers_SEMISTRATIFIED -> exists n z, c = k_arange n /\ g = k_partial_semistrat n z) /\
  (k <> Samplers_SEMISTRATIFIED -> c = crng0).
Proof. exact (crng_rule T_Data T_Rate T_Idx T_Fl T_Sampler T_Crng k_is_sptensor k_ceil_div k_sorted_nz_idx
                k_partial_stratified k_tensor_size k_partial_uniform k_partial_semistrat k_arange k_fdiv k_poisson_sampler). Qed.
End W4SC13b.
Print Assumptions W4S_C13_sampler_other_request_rejected.
Print Assumptions W4S_C13_sampler_rejected_rows.
Print Assumptions W4S_C13_sampler_crng_rule.
