#!/usr/bin/env python3
"""usage: flipfinding.py <Cnn> <finding_id> <commit>  — mark a finding as fixed in findings.d/<Cnn>.jsonl"""
import json, sys
prop, fid, commit = sys.argv[1:4]
fn = f"/verif/findings.d/{prop}.jsonl"
out = []; hit = False
for l in open(fn):
    if not l.strip():
        continue
    j = json.loads(l)
    if j["finding_id"] == fid and j.get("status") != "fixed":
        j["status"] = "fixed"; j["fixed_commit"] = commit; hit = True
    out.append(json.dumps(j))
open(fn, "w").write("\n".join(out) + "\n")
print("flipped" if hit else "NOT FOUND / already fixed", prop, fid)
