(* Proofs/C02TuckerProofs.v — ttensor.ttm (single mode and list form, plain and transposed): replacing factor n by M U_n (resp. M^T U_n)
   gives the Tucker tensor that denotes spec_ttm of the array the operand denotes; for all shapes, core sizes and ring values. *)
From Coq Require Import List Arith Lia Bool Permutation Ring.
From PV Require Import Base.Index Base.Perm Base.Sum Np.Array Model.Sparse Model.Repr Model.C02Spec Model.C02Dense Model.C02Tucker
                       Proofs.C02DenseProofs Proofs.C02ModesProofs.
Import ListNotations.

Lemma nth_map_seq_gen {T} (d : T) (F : nat -> T) n a : a < n -> nth a (map F (seq 0 n)) d = F a.
Proof.
  intros H. rewrite (nth_indep _ d (F 0)) by (now rewrite map_length, seq_length).
  rewrite (map_nth F). now rewrite seq_nth.
Qed.

Lemma map_upd {A B} (f : A -> B) (l : list A) : forall n x, map f (upd l n x) = upd (map f l) n (f x).
Proof. induction l as [|y l IH]; intros [|n] x; cbn [upd map]; try reflexivity. now rewrite IH. Qed.

Lemma inb_upd_in s n J (i : idx) k : n < length s -> inb (upd s n J) i = true -> k < nth n s 0 ->
  inb s (upd i n k) = true.
Proof.
  intros Hn Hi Hk. pose proof (inb_length _ _ Hi) as HL. rewrite upd_length in HL.
  rewrite (inb_split (upd s n J) n i) in Hi by (rewrite ?upd_length; auto).
  rewrite remove_at_upd in Hi. apply andb_true_iff in Hi as [_ Hi].
  rewrite (inb_split s n (upd i n k)) by (rewrite ?upd_length; auto).
  rewrite nth_upd_same by lia. rewrite remove_at_upd, Hi. apply Nat.ltb_lt in Hk. now rewrite Hk.
Qed.

Section P.
Variable V : Type.
Variables (v0 v1 : V) (vadd vmul vsub : V -> V -> V) (vopp : V -> V).
Hypothesis Vring : ring_theory v0 v1 vadd vmul vsub vopp (@eq V).
Add Ring Vr11 : Vring.

Local Notation "x + y" := (vadd x y).
Local Notation "x * y" := (vmul x y).
Local Notation Sn := (sum_n v0 vadd).
Local Notation So := (sum_over v0 vadd).
Local Notation tp := (tprod v0 v1 vmul).
Local Notation dent := (den_t v0 v1 vadd vmul).

Lemma mget_mm M U J K C tr x y : x < J -> y < C ->
  mget v0 (mm v0 vadd vmul M U J K C tr) x y =
  Sn K (fun k => (if tr then mget v0 M k x else mget v0 M x k) * mget v0 U k y).
Proof.
  intros Hx Hy. unfold mget at 1, mm.
  rewrite (nth_map_seq_gen [] _ J x Hx). now rewrite (nth_map_seq_gen v0 _ C y Hy).
Qed.

(* summing mode n of the row subscript against coefficients c = replacing factor n *)
Lemma tprod_upd_sum (c : nat -> V) K : forall (Us : list (@matrix V)) n (U' : @matrix V) (i j : idx),
  n < length Us -> n < length i -> n < length j ->
  mget v0 U' (nth n i 0) (nth n j 0) = Sn K (fun k => c k * mget v0 (nth n Us []) k (nth n j 0)) ->
  Sn K (fun k => c k * tp Us (upd i n k) j) = tp (upd Us n U') i j.
Proof.
  induction Us as [|U Us IH]; intros n U' i j Hn Hi Hj HU; cbn [length] in Hn; [lia|].
  destruct i as [|x i]; [cbn in Hi; lia|]. destruct j as [|y j]; [cbn in Hj; lia|].
  cbn [length] in Hi, Hj. destruct n as [|n].
  - cbn [upd tprod nth] in *. rewrite HU. unfold sum_n.
    rewrite <- (sum_over_scale_r _ _ _ _ _ _ _ Vring). apply sum_over_ext. intros k _. ring.
  - cbn [upd tprod nth] in *. rewrite <- (IH n U' i j) by (auto; lia).
    unfold sum_n. rewrite <- (sum_over_scale_l _ _ _ _ _ _ _ Vring). apply sum_over_ext. intros k _. ring.
Qed.

Lemma tshape_ttm_t1 (T : ttensor V) n M J tr : n < length (tfactors T) ->
  tshape (impl_ttm_t1 v0 vadd vmul T n M J tr) = upd (tshape T) n J.
Proof.
  intros Hn. unfold impl_ttm_t1, tshape. cbn [tfactors]. rewrite map_upd. f_equal.
  unfold nrows, mm. now rewrite map_length, seq_length.
Qed.

(* ---- ttensor.ttm, one mode ---- *)
Theorem impl_ttm_t1_correct (T : ttensor V) n M J tr i :
  n < length (tfactors T) -> n < length (dshape (tcore T)) ->
  inb (upd (tshape T) n J) i = true ->
  dent (impl_ttm_t1 v0 vadd vmul T n M J tr) i = spec_ttm v0 vadd vmul (dent T) (tshape T) n M tr i.
Proof.
  intros Hn Hc Hi.
  assert (HnS : n < length (tshape T)) by (unfold tshape; now rewrite map_length).
  pose proof (inb_length _ _ Hi) as HLi. rewrite upd_length in HLi.
  unfold den_t at 1. rewrite tshape_ttm_t1 by exact Hn. rewrite Hi.
  unfold impl_ttm_t1. cbn [tcore tfactors]. unfold spec_ttm.
  set (Us := tfactors T). set (U := nth n Us []). set (cs := dshape (tcore T)).
  set (c := fun k => if tr then mget v0 M k (nth n i 0) else mget v0 M (nth n i 0) k).
  assert (HK : nth n (tshape T) 0 = nrows U).
  { unfold tshape, U, Us. change 0 with (nrows (@nil (list V))). now rewrite map_nth. }
  transitivity (Sn (nth n (tshape T) 0) (fun k => So (allsubs cs) (fun j => den_dense v0 (tcore T) j * (c k * tp Us (upd i n k) j)))).
  2:{ apply sum_n_ext. intros k Hk. unfold den_t. rewrite (inb_upd_in (tshape T) n J i k HnS Hi Hk).
      fold cs Us. fold (c k). rewrite <- (sum_over_scale_l _ _ _ _ _ _ _ Vring). apply sum_over_ext. intros j _. ring. }
  unfold sum_n. rewrite (sum_over_swap _ _ _ _ _ _ _ Vring).
  apply sum_over_ext. intros j Hj. apply in_allsubs in Hj.
  rewrite (sum_over_scale_l _ _ _ _ _ _ _ Vring). f_equal. symmetry.
  fold (Sn (nth n (tshape T) 0) (fun k => c k * tp Us (upd i n k) j)).
  apply tprod_upd_sum.
  - exact Hn.
  - lia.
  - apply inb_length in Hj. unfold cs in *. lia.
  - rewrite HK. fold U. unfold c. apply mget_mm.
    + rewrite (inb_split (upd (tshape T) n J) n i) in Hi by (rewrite ?upd_length; auto).
      rewrite nth_upd_same in Hi by exact HnS. apply andb_true_iff in Hi as [Hx _]. now apply Nat.ltb_lt in Hx.
    + rewrite (inb_split cs n j) in Hj by (auto; now apply inb_length in Hj). apply andb_true_iff in Hj as [Hy _]. now apply Nat.ltb_lt in Hy.
Qed.

(* ---- ttensor.ttm, list form (every selected mode's factor replaced in turn) ---- *)
Theorem impl_ttm_t_correct nUs : forall (T : ttensor V) tr,
  Forall (fun p => fst p < length (tfactors T)) nUs -> length (dshape (tcore T)) = length (tfactors T) ->
  let Y := impl_ttm_t v0 vadd vmul T nUs tr in
  tshape Y = ttm_list_shape (tshape T) nUs /\
  forall i, inb (ttm_list_shape (tshape T) nUs) i = true ->
    dent Y i = spec_ttm_list v0 vadd vmul (dent T) (tshape T) nUs tr i.
Proof.
  induction nUs as [|[n [J M]] r IH]; intros T tr HF HC; cbn [impl_ttm_t spec_ttm_list ttm_list_shape].
  - cbn zeta. auto.
  - inversion HF as [|? ? Hn HF']; subst. cbn [fst] in Hn.
    set (T1 := impl_ttm_t1 v0 vadd vmul T n M J tr).
    assert (S1 : tshape T1 = upd (tshape T) n J) by (now apply tshape_ttm_t1).
    assert (L1 : length (tfactors T1) = length (tfactors T)) by (unfold T1, impl_ttm_t1; cbn [tfactors]; now rewrite upd_length).
    specialize (IH T1 tr). rewrite L1 in IH. specialize (IH HF' HC). cbn zeta in IH. rewrite S1 in IH.
    destruct IH as [S2 D2]. cbn zeta. split; [exact S2|].
    intros i Hi. rewrite D2 by exact Hi.
    apply (spec_ttm_list_ext V v0 vadd vmul); auto.
    + unfold tshape. rewrite upd_length, map_length. exact HF'.
    + intros j Hj. apply impl_ttm_t1_correct; auto. lia.
Qed.

End P.
