(* Props/C07w5.v — C07, fifth wave: the repairs of N-C07-3 / N-C07-4 (/repo b27c529), N-C07-5 (9c8fdd5), N-C07-6 (649a706) as
   positive theorems.  sptensor.reshape as written (mode-number test, size-sign test, size check, empty branch, the GENERATED
   tt_sub2ind / tt_ind2sub) is the request-level specification; requests with a mode number outside 0..N-1 or a negative size
   are refused; tensor.squeeze on EVERY shape, size-0 modes included; boolean orders on the five holders.
   Proofs: Proofs/C07W5.v, Proofs/C07Proofs.v. *)
From Coq Require Import List ZArith Arith Bool.
From PV Require Import Base.Index Base.Perm Np.NpZ Np.NpZ2 Np.NpZ3 Np.NpZ3b Gen.GenUtils Gen.GenUtils3b Np.Array Model.Sparse
  Model.Repr Model.C07Ops Model.C07Ops2 Model.C07Gen Model.C07Req Model.C07Impl Model.C07W5 Proofs.C07Proofs Proofs.C07Reshape Proofs.C07W5.
Import ListNotations.

Section C07w5.
Context {V : Type} (v0 : V).

(* ---------------- tensor.squeeze, every shape (N-C07-6 repaired): modes of size 1 are dropped, a mode of size 0 is kept *)
Theorem C07_squeeze_dense_any_shape : forall T : dense V, wf_dense T ->
  match squeeze_d v0 T with
  | SqT R => wf_dense R /\ dshape R = sqn (dshape T) (dshape T) /\ ddata R = ddata T /\
             (forall i, inb (dshape T) i = true ->
                inb (dshape R) (sqn (dshape T) i) = true /\ den_dense v0 R (sqn (dshape T) i) = den_dense v0 T i)
  | SqScalar v => sqn (dshape T) (dshape T) = [] /\ (forall i, inb (dshape T) i = true -> v = den_dense v0 T i)
  end.
Proof. exact (squeeze_dense_any v0). Qed.

Theorem C07_squeeze_dense_zero_mode : forall T : dense V, wf_dense T -> In 0 (dshape T) ->
  exists R, squeeze_d v0 T = SqT R /\ wf_dense R /\ dshape R = sqn (dshape T) (dshape T) /\ In 0 (dshape R) /\
            ddata R = [] /\ ddata T = [].
Proof. exact (squeeze_dense_zero_mode v0). Qed.

(* on positive sizes nothing changed: sqn is sqz *)
Theorem C07_squeeze_sizes_positive : forall (s : shape) (l : list nat), forallb (Nat.ltb 0) s = true -> sqn s l = sqz s l.
Proof. exact (fun s l => sqn_sqz s l). Qed.

(* ---------------- sptensor.squeeze as the property demands it on every shape (squeeze_sp_any; finding N-C07-7, the sparse sibling of
   N-C07-6: /repo up to 6e4bb42 tests `shape > 1`, the repair fixes/C07-N-C07-7.diff tests `shape != 1`.  What the text regenerated on
   the run does on holders with a size-0 mode is stated over the generated method in Props/C07Gen4.v:
   C07_squeeze_sparse_zero_mode_generated / C07_squeeze_sparse_zero_mode_code) *)
Theorem C07_squeeze_sparse_any_shape : forall (isz : V -> bool) (S : sparse V),
  Forall (fun j => inb (sshape S) j = true) (ssubs S) ->
  match squeeze_sp_any v0 S with
  | SqT R => sshape R = sqn (sshape S) (sshape S) /\ svals R = svals S /\ nnz R = nnz S /\
             (wf_sp isz S -> wf_sp isz R) /\
             (forall i, inb (sshape S) i = true ->
                inb (sshape R) (sqn (sshape S) i) = true /\ den_sp v0 R (sqn (sshape S) i) = den_sp v0 S i)
  | SqScalar v => sqn (sshape S) (sshape S) = [] /\ (forall i, inb (sshape S) i = true -> v = den_sp v0 S i)
  end.
Proof. exact (squeeze_sparse_any v0). Qed.

Theorem C07_squeeze_sparse_positive_is_code : forall S : sparse V, forallb (Nat.ltb 0) (sshape S) = true ->
  squeeze_sp_any v0 S = squeeze_sp v0 S.
Proof. exact (squeeze_sp_any_pos v0). Qed.

Theorem C07_squeeze_sparse_zero_mode : forall S : sparse V,
  Forall (fun j => inb (sshape S) j = true) (ssubs S) -> In 0 (sshape S) ->
  ssubs S = [] /\ exists R, squeeze_sp_any v0 S = SqT R /\ sshape R = sqn (sshape S) (sshape S) /\ In 0 (sshape R) /\ ssubs R = [].
Proof. exact (squeeze_sparse_zero_mode v0). Qed.

Theorem C07_repr_agree_squeeze_any_shape : forall (T : dense V) (S : sparse V), wf_dense T -> sshape S = dshape T ->
  Forall (fun j => inb (sshape S) j = true) (ssubs S) ->
  (forall i, inb (dshape T) i = true -> den_sp v0 S i = den_dense v0 T i) ->
  match squeeze_d v0 T, squeeze_sp_any v0 S with
  | SqT T', SqT S' => sshape S' = dshape T' /\
       forall i, inb (dshape T) i = true -> den_sp v0 S' (sqn (dshape T) i) = den_dense v0 T' (sqn (dshape T) i)
  | SqScalar a, SqScalar b => a = b
  | _, _ => False
  end.
Proof. exact (squeeze_agree_any v0). Qed.

(* ---------------- sptensor.reshape as written after b27c529 *)
Theorem C07_reshape_sparse_code : forall (S : sparse V) (x : pyshp) (oldz : list Z), ok_store S -> oldz <> [] ->
  res_opt (reshape_sp_code S x (Some oldz)) = reshape_sp_req S x oldz.
Proof. exact reshape_sp_code_req. Qed.

Theorem C07_reshape_sparse_code_all_modes : forall (S : sparse V) (x : pyshp), ok_store S -> sshape S <> [] ->
  res_opt (reshape_sp_code S x None) = reshape_sp_all_req S x.
Proof. exact reshape_sp_code_all. Qed.

Theorem C07_reshape_sparse_refuses_bad_mode : forall (S : sparse V) x oldz z, In z oldz ->
  (z < 0 \/ Z.of_nat (length (sshape S)) <= z)%Z -> reshape_sp_code S x (Some oldz) = Err.
Proof. exact reshape_sp_code_bad_mode. Qed.

Theorem C07_reshape_sparse_refuses_negative_size : forall (S : sparse V) x o nz d, parse_shape x = Ok nz -> In d nz -> (d < 0)%Z ->
  reshape_sp_code S x o = Err.
Proof. exact reshape_sp_code_negative_size. Qed.

Theorem C07_reshape_refuses_empty_target : forall (T : dense V) (S : sparse V) x oldz o, parse_shape x = Ok [] ->
  reshape_d_req v0 T x = None /\ reshape_sp_all_req S x = None /\ reshape_sp_req S x oldz = None /\
  reshape_sp_code S x o = Err.
Proof. exact (reshape_empty_target_refused v0). Qed.

Theorem C07_reshape_sparse_code_sound : forall (S : sparse V) x oldz R, ok_store S -> oldz <> [] ->
  reshape_sp_code S x (Some oldz) = Ok R ->
  exists old s', oldz = map Z.of_nat old /\ Forall (fun k => k < length (sshape S)) old /\
    parse_shape x = Ok (map Z.of_nat s') /\ reshape_sp S s' old = Some R.
Proof. exact reshape_sp_code_sound. Qed.

Theorem C07_reshape_sparse_code_law : forall (isz : V -> bool) (S : sparse V) x oldz R, ok_store S -> oldz <> [] -> NoDup oldz ->
  reshape_sp_code S x (Some oldz) = Ok R ->
  exists old s', oldz = map Z.of_nat old /\ parse_shape x = Ok (map Z.of_nat s') /\
    let s := sshape S in
    sshape R = pick 0 (keep_modes (length s) old) s ++ s' /\ svals R = svals S /\ nnz R = nnz S /\
    (wf_sp isz S -> wf_sp isz R) /\
    (forall i, inb s i = true -> inb (sshape R) (reshape_row s s' old i) = true /\
                                 den_sp v0 R (reshape_row s s' old i) = den_sp v0 S i) /\
    (forall j, den_sp v0 R j = if inb (sshape R) j then den_sp v0 S (unreshape_row s s' old j) else v0) /\
    (forall i, inb s i = true -> unreshape_row s s' old (reshape_row s s' old i) = i).
Proof. exact (reshape_sp_code_law v0). Qed.

(* ---------------- boolean orders (N-C07-5 repaired) *)
Theorem C07_bool_order_refused : forall (S : sparse V) (T : ttensor V) (Ts : sttensor V) x pz, bool_order_of x = Some pz ->
  permute_sp_req S x = None /\ permute_t_req v0 T x = None /\ permute_st_req Ts x = None /\ permute_d_req v0 (tcore T) x = None.
Proof. exact (bool_order_refused v0). Qed.

Theorem C07_bool_order_dense : forall (T : dense V) x pz R, bool_order_of x = Some pz -> permute_d_req5 v0 T x = Some R ->
  R = T /\ length (dshape T) = 1 /\ pz = [1%Z].
Proof. exact (bool_order_dense v0). Qed.

Theorem C07_bool_order_kruskal : forall (K : ktensor V) x pz R, bool_order_of x = Some pz -> permute_k_req5 K x = Some R ->
  exists p, pz = map Z.of_nat p /\ is_perm p (length (kfactors K)) /\ permute_k K p = Some R.
Proof. exact bool_order_kruskal. Qed.

Theorem C07_request5_integer_orders : forall (T : dense V) (K : ktensor V) x, bool_order_of x = None ->
  permute_d_req5 v0 T x = permute_d_req v0 T x /\ permute_k_req5 K x = permute_k_req K x.
Proof. exact (req5_integer v0). Qed.

End C07w5.

Print Assumptions C07_squeeze_dense_any_shape.
Print Assumptions C07_squeeze_dense_zero_mode.
Print Assumptions C07_squeeze_sizes_positive.
Print Assumptions C07_squeeze_sparse_any_shape.
Print Assumptions C07_squeeze_sparse_positive_is_code.
Print Assumptions C07_squeeze_sparse_zero_mode.
Print Assumptions C07_repr_agree_squeeze_any_shape.
Print Assumptions C07_reshape_sparse_code.
Print Assumptions C07_reshape_sparse_code_all_modes.
Print Assumptions C07_reshape_sparse_refuses_bad_mode.
Print Assumptions C07_reshape_sparse_refuses_negative_size.
Print Assumptions C07_reshape_refuses_empty_target.
Print Assumptions C07_reshape_sparse_code_sound.
Print Assumptions C07_reshape_sparse_code_law.
Print Assumptions C07_bool_order_refused.
Print Assumptions C07_bool_order_dense.
Print Assumptions C07_bool_order_kruskal.
Print Assumptions C07_request5_integer_orders.

(* ---------------- non-vacuity: concrete, non-symmetric instances *)
Example C07_example_squeeze_zero_mode :
  squeeze_d 0%Z (mkDense [1; 0] (@nil Z)) = SqT (mkDense [0] []) /\
  squeeze_d 0%Z (mkDense [1; 0; 1; 3] (@nil Z)) = SqT (mkDense [0; 3] []) /\
  squeeze_d 0%Z (mkDense [0] (@nil Z)) = SqT (mkDense [0] []) /\
  squeeze_d 0%Z (mkDense [2; 0; 1] (@nil Z)) = SqT (mkDense [2; 0] []) /\
  squeeze_d 0%Z (mkDense [2; 1; 3] [1; 2; 3; 4; 5; 6]%Z) = SqT (mkDense [2; 3] [1; 2; 3; 4; 5; 6]%Z) /\
  squeeze_d 0%Z (mkDense [1; 1] [9%Z]) = SqScalar 9%Z.
Proof. repeat split; reflexivity. Qed.

Example C07_example_squeeze_sparse_zero_mode :
  squeeze_sp_any 0%Z (mkSp [2; 0; 1] [] (@nil Z)) = SqT (mkSp [2; 0] [] []) /\
  squeeze_sp_any 0%Z (mkSp [1; 0] [] (@nil Z)) = SqT (mkSp [0] [] []) /\
  squeeze_sp_any 0%Z (mkSp [0] [] (@nil Z)) = SqT (mkSp [0] [] []) /\
  squeeze_sp_any 0%Z (mkSp [2; 1; 3] [[1; 0; 2]] [4%Z]) = SqT (mkSp [2; 3] [[1; 2]] [4%Z]) /\
  squeeze_sp_any 0%Z (mkSp [1; 1] [] (@nil Z)) = SqScalar 0%Z /\
  (* the return statements with the test `shape > 1` (Model/C07Impl.v; /repo up to 6e4bb42) drop the size-0 mode / answer with a
     scalar: N-C07-7; with `shape != 1` (Model/C07Gen4.v squeeze_sp_impl_ne) they are squeeze_sp_any: Props/C07Gen4.v *)
  squeeze_sp_impl 0%Z (mkSp [2; 0; 1] [] (@nil Z)) = Some (SqT (mkSp [2] [] [])) /\
  squeeze_sp_impl 0%Z (mkSp [1; 0] [] (@nil Z)) = Some (SqScalar 0%Z).
Proof. repeat split; reflexivity. Qed.

Example C07_example_reshape_code :
  let S := mkSp [2; 3; 4] [[1; 2; 3]; [0; 1; 2]] [5; -7]%Z in
  (* modes (2, 0) folded with mode 2 fastest, into (4, 2): kept mode 1 first *)
  reshape_sp_code S (STuple [EInt 4; EInt 2]) (Some [2; 0]%Z) = Ok (mkSp [3; 4; 2] [[2; 3; 1]; [1; 2; 0]] [5; -7]%Z) /\
  reshape_sp_code S (STuple [EInt 4; EInt 2]) (Some [0; 2]%Z) = Ok (mkSp [3; 4; 2] [[2; 3; 1]; [1; 0; 1]] [5; -7]%Z) /\
  (* the witnesses of N-C07-3 / N-C07-4 *)
  reshape_sp_code (mkSp [2; 3] [[0; 1]; [1; 2]] [5; 6]%Z) (STuple [EInt 3]) (Some [-1]%Z) = Err /\
  reshape_sp_code (mkSp [2; 3] [[0; 1]; [1; 2]] [5; 6]%Z) (STuple [EInt 3]) (Some [2]%Z) = Err /\
  reshape_sp_code (mkSp [2; 3] [] (@nil Z)) (STuple [EInt (-2); EInt (-3)]) None = Err /\
  reshape_sp_code (mkSp [2; 3] [] (@nil Z)) (STuple [EInt 3; EInt 2]) None = Ok (mkSp [3; 2] [] []) /\
  (* a target without modes: folding the singleton mode 0 of a 1 x 3 x 2 tensor away is refused *)
  reshape_sp_code (mkSp [1; 3; 2] [[0; 1; 1]] [5%Z]) (STuple []) (Some [0%Z]) = Err /\
  reshape_sp_req (mkSp [1; 3; 2] [[0; 1; 1]] [5%Z]) (STuple []) [0%Z] = None /\
  reshape_d_req 0%Z (mkDense [1; 1] [9%Z]) (STuple []) = None.
Proof. repeat split; reflexivity. Qed.

Example C07_example_bool_orders :
  let tf := SArr (mknd [2%Z] DBool [NFin 1; NFin 0]) in
  let col := SArr (mknd [2%Z; 1%Z] DBool [NFin 0; NFin 1]) in
  bool_order_of tf = Some [1; 0]%Z /\ bool_order_of col = Some [0; 1]%Z /\
  bool_order_of (SArr (mknd [2%Z] DInt [NFin 1; NFin 0])) = None /\
  permute_sp_req (mkSp [2; 3] [[0; 1]; [1; 2]] [5; 6]%Z) tf = None /\
  permute_d_req5 0%Z (mkDense [2; 3] [1; 2; 3; 4; 5; 6]%Z) tf = None /\
  permute_d_req5 0%Z (mkDense [3] [1; 2; 3]%Z) (SArr (mknd [1%Z] DBool [NFin 1])) = Some (mkDense [3] [1; 2; 3]%Z) /\
  permute_d_req5 0%Z (mkDense [3] [1; 2; 3]%Z) (SArr (mknd [1%Z] DBool [NFin 0])) = None /\
  permute_k_req5 (mkK [2; 3]%Z [[[1; 2]; [3; 4]]; [[5; 6]; [7; 8]; [9; 10]]]%Z) tf
    = Some (mkK [2; 3]%Z [[[5; 6]; [7; 8]; [9; 10]]; [[1; 2]; [3; 4]]]%Z) /\
  permute_k_req5 (mkK [2; 3]%Z [[[1; 2]; [3; 4]]; [[5; 6]; [7; 8]; [9; 10]]]%Z) (SArr (mknd [2%Z] DBool [NFin 1; NFin 1])) = None.
Proof. repeat split; reflexivity. Qed.
