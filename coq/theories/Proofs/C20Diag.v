(* Proofs/C20Diag.v — wave 5: the line-by-line transliterations of tendiag / sptendiag (Model/C20Diag.v, over the GENERATED
   parse_one_d / parse_shape / tt_subscheck / tt_valscheck / tt_sizecheck) equal the request models of Model/C20Harness.v
   (ztendiag_req / zsptendiag_req, for which C20_tendiag_request / C20_sptendiag_request / C20_tendiag / C20_sptendiag are
   proved), and the dense and the sparse diagonal generator denote THE SAME ARRAY on every request both accept. *)
From Coq Require Import List Arith ZArith Bool Lia.
From PV Require Import Np.NpZ Np.NpZ2 Np.NpZ3 Np.NpZ3b Gen.GenUtils3 Gen.GenUtils3b Model.W3Utils Proofs.W3Bridge Proofs.W3Laws
  Proofs.W3ShapeArgs.
From PV Require Import Base.Index Base.Sum Np.Array Model.Sparse Model.Repr Model.Harness Model.C20Gen Model.C20Harness Model.C20Diag.
From PV Require Import Proofs.C20Proofs Proofs.C20Guards Proofs.C20W3 Proofs.C20GenTie.
Import ListNotations.

(* ---------------------------------------------------------------- the two subscript expressions are the same array *)
Lemma tile_column_diag N M : tile_column (np_arange N) M = diag_subs N M.
Proof. reflexivity. Qed.

Lemma column_of_tile_row N M k : k < N -> map (fun r => nth k r 0) (tile_row (np_arange N) M) = repeat k M.
Proof.
  intros Hk. unfold tile_row, np_arange. induction M as [|M IH]; cbn [repeat map]; [reflexivity|].
  rewrite IH. f_equal. rewrite seq_nth by exact Hk. reflexivity.
Qed.

(* sptendiag's np.tile(np.arange(0,N).transpose(), (M,1)).transpose() = tendiag's np.tile(np.arange(0,N)[:,None], (M,)) *)
Theorem transpose_tile_row N M : np_transpose2 N (tile_row (np_arange N) M) = tile_column (np_arange N) M.
Proof.
  unfold np_transpose2, tile_column, np_arange. apply map_ext_in. intros k Hk. apply in_seq in Hk.
  apply column_of_tile_row. lia.
Qed.

(* ---------------------------------------------------------------- the constructed shape *)
(* the request after parse_shape: no shape, or the parsed integer sizes *)
Definition shape_parsed (sp : option pyshp) (so : option (list Z)) : Prop :=
  match sp, so with
  | None, None => True
  | Some sh, Some s => parse_shape sh = Ok s
  | _, _ => False
  end.
Definition csz (N : nat) (so : option (list Z)) : list Z :=
  match so with None => repeat (Z.of_nat N) N | Some s => map (Z.max (Z.of_nat N)) s end.

Lemma constructed_shape_parsed N sp so : shape_parsed sp so -> constructed_shape N sp = Ok (csz N so).
Proof.
  destruct sp as [sh|], so as [s|]; cbn; try contradiction; [|reflexivity]. intros ->. reflexivity.
Qed.
Lemma constructed_shape_err N sh : parse_shape sh = Err -> constructed_shape N (Some sh) = Err.
Proof. cbn. intros ->. reflexivity. Qed.

Lemma to_shape_csz N so : to_shape (csz N so) = diag_shape_z N so.
Proof.
  destruct so as [s|]; cbn.
  - unfold to_shape, pyttb_diag_shape. rewrite map_map. reflexivity.
  - unfold to_shape. induction N as [|n IH] at 2 4; cbn [repeat map]; [reflexivity|]. rewrite IH, Nat2Z.id. reflexivity.
Qed.
Lemma csz_length N so : length (csz N so) = length (diag_shape_z N so).
Proof. rewrite <- to_shape_csz. unfold to_shape. now rewrite map_length. Qed.
Lemma csz_nonneg N so : Forall (fun d => (0 <= d)%Z) (csz N so).
Proof.
  rewrite Forall_forall. intros d Hd. destruct so as [s|]; cbn in Hd.
  - apply in_map_iff in Hd as (x & <- & _). lia.
  - apply repeat_spec in Hd. lia.
Qed.
(* the shape rule over naturals (C20Gen.diag_shape) applied to the clamped request *)
Lemma diag_shape_z_nat N so : diag_shape_z N so = diag_shape N (option_map to_shape so).
Proof. destruct so as [s|]; cbn; [apply diag_shape_z_eq|reflexivity]. Qed.

(* ---------------------------------------------------------------- tendiag *)
Lemma py_tenzeros_eq cs : Forall (fun d => (0 <= d)%Z) cs ->
  py_tenzeros cs = match cs with
                   | [] => Err
                   | _ => Ok (mkDense (to_shape cs) (repeat 0%Z (size (to_shape cs))))
                   end.
Proof.
  intros Hc. unfold py_tenzeros. rewrite (proj1 (parse_shape_ints cs)). cbn [bind].
  destruct cs as [|d cs]; [reflexivity|].
  destruct (tenones_chk_spec (d :: cs)) as (_ & _ & _ & H).
  destruct H as (T & E & Hs & Hd).
  { apply dense_gen_guard_spec. split; [discriminate|exact Hc]. }
  rewrite E. cbn [res_of]. destruct T as [ts td]. cbn in Hs, Hd. now subst.
Qed.

Lemma set_subs_full s subs e :
  set_subs (mkDense s (repeat 0%Z (size s))) subs e = full 0%Z (mkSp s subs e).
Proof. reflexivity. Qed.

(* tendiag line by line = the request model, for every element argument the generated parse_one_d accepts and every
   shape argument the generated parse_shape accepts; a shape argument parse_shape rejects is rejected *)
Theorem py_tendiag_lines el a sp so :
  parse_one_d el = Ok a -> nd_ndim a = 1%Z -> shape_parsed sp so ->
  py_tendiag el sp = res_of (ztendiag_req (nd_ints a) so).
Proof.
  intros Ha H1 Hs. unfold py_tendiag. rewrite Ha. cbn [bind]. rewrite H1. change (negb (1 =? 1)%Z) with false. cbv iota. set (e := nd_ints a). set (N := length e).
  rewrite (constructed_shape_parsed N sp so Hs). cbn [bind].
  rewrite py_tenzeros_eq by apply csz_nonneg.
  unfold ztendiag_req. fold N. rewrite csz_length, <- to_shape_csz.
  destruct (csz N so) as [|d cs] eqn:E; [reflexivity|]. rewrite <- E. cbn [bind].
  assert (Hne : to_shape (csz N so) <> []) by (rewrite E; discriminate).
  destruct (to_shape (csz N so)) as [|d' cs'] eqn:E2; [contradiction|]. rewrite <- E2. cbn [res_of].
  assert (X : ztendiag_z e so = set_subs (mkDense (to_shape (csz N so)) (repeat 0%Z (size (to_shape (csz N so)))))
                                         (tile_column (np_arange N) (length (to_shape (csz N so)))) e).
  { rewrite set_subs_full, tile_column_diag. unfold ztendiag_z, ztendiag, tendiag. fold N.
    rewrite to_shape_csz, diag_shape_z_nat. reflexivity. }
  rewrite X. destruct (Nat.ltb 0 N) eqn:EN; [reflexivity|].
  apply Nat.ltb_ge in EN. assert (N0 : N = 0) by lia. rewrite N0. reflexivity.
Qed.

Theorem py_tendiag_rejects el a sh :
  (parse_one_d el = Err -> forall sp, py_tendiag el sp = Err) /\
  (parse_one_d el = Ok a -> parse_shape sh = Err -> py_tendiag el (Some sh) = Err).
Proof.
  split.
  - intros H sp. unfold py_tendiag. rewrite H. reflexivity.
  - intros H1 H2. unfold py_tendiag. rewrite H1. cbn [bind]. destruct (negb _); [reflexivity|].
    rewrite (constructed_shape_err _ sh H2). reflexivity.
Qed.

(* ---------------------------------------------------------------- sptendiag *)
Lemma forallb_map' {A B} (f : A -> B) (g : B -> bool) l : forallb g (map f l) = forallb (fun x => g (f x)) l.
Proof. induction l as [|x l IH]; cbn; [reflexivity|]. now rewrite IH. Qed.

(* the aggregating constructor as sptendiag calls it, on the diagonal subscripts: every generated check passes or is the
   size check; the rest is the sparse diagonal of C20Gen.sptendiag *)
Lemma aggregator_on_diagonal (e : list Z) (so : option shape) :
  let cs := diag_shape (length e) so in
  zaggregator (Some cs) (length cs) (diag_subs (length e) (length cs)) e RSum = Some (zsptendiag e so).
Proof.
  intros cs. unfold zaggregator, from_aggregator_chk. rewrite diag_subs_length, Nat.eqb_refl. cbn [negb].
  assert (F : forallb (inb cs) (diag_subs (length e) (length cs)) = true).
  { apply forallb_forall. intros i Hi. pose proof (diag_subs_inb (length e) so) as H. rewrite Forall_forall in H.
    apply H. exact Hi. }
  rewrite F. reflexivity.
Qed.

Lemma py_from_aggregator_sum_diag (e : list Z) (so : option (list Z)) :
  let N := length e in let cs := csz N so in let M := length cs in
  py_from_aggregator_sum (diag_subs N M) M e cs =
  if forallb (fun d => (0 <? d)%Z) cs then Ok (zsptendiag_z e so) else Err.
Proof.
  intros N cs M. unfold py_from_aggregator_sum.
  rewrite subscheck_nat_gen. cbn [bind]. unfold int_array at 1. rewrite valscheck_column_gen. cbn [bind].
  rewrite (proj1 (parse_shape_ints cs)). cbn [bind]. rewrite gen_sizecheck_ints.
  destruct (forallb (fun d => (0 <? d)%Z) cs); [|reflexivity]. cbn [bind].
  unfold M, cs. rewrite csz_length, to_shape_csz, diag_shape_z_nat. fold N.
  unfold N. rewrite aggregator_on_diagonal. reflexivity.
Qed.

Theorem py_sptendiag_lines el a sp so :
  parse_one_d el = Ok a -> nd_ndim a = 1%Z -> shape_parsed sp so ->
  py_sptendiag el sp = res_of (zsptendiag_req (nd_ints a) so).
Proof.
  intros Ha H1 Hs. unfold py_sptendiag. rewrite Ha. cbn [bind]. rewrite H1. change (negb (1 =? 1)%Z) with false. cbv iota. set (e := nd_ints a). set (N := length e).
  rewrite (constructed_shape_parsed N sp so Hs). cbn [bind].
  rewrite transpose_tile_row, tile_column_diag.
  pose proof (py_from_aggregator_sum_diag e so) as PA. cbv zeta in PA. fold N in PA. rewrite PA. clear PA.
  unfold zsptendiag_req. fold N. rewrite csz_length.
  destruct so as [s|].
  - (* a shape was given *)
    cbn [diag_shape_z csz]. unfold zsptendiag_chk. fold N. rewrite forallb_map'.
    destruct (pyttb_diag_shape N s) as [|d cs] eqn:E.
    + assert (s = []) as -> by (destruct s; [reflexivity|discriminate]).
      cbn [length Nat.eqb andb forallb]. rewrite andb_true_r.
      destruct e as [|x e']; [reflexivity|]. reflexivity.
    + cbn [length Nat.eqb]. rewrite andb_false_r.
      destruct (forallb _ s); reflexivity.
  - (* no shape: (N,) * N *)
    cbn [diag_shape_z csz].
    assert (F : forall n, forallb (fun d => (0 <? d)%Z) (repeat (Z.of_nat n) n) = true).
    { intros n. destruct n as [|n]; [reflexivity|]. apply forallb_forall. intros d Hd. apply repeat_spec in Hd.
      subst d. apply Z.ltb_lt. lia. }
    rewrite F. unfold N. clearbody e. destruct e as [|x e']; reflexivity.
Qed.

Theorem py_sptendiag_rejects el a sh :
  (parse_one_d el = Err -> forall sp, py_sptendiag el sp = Err) /\
  (parse_one_d el = Ok a -> parse_shape sh = Err -> py_sptendiag el (Some sh) = Err).
Proof.
  split.
  - intros H sp. unfold py_sptendiag. rewrite H. reflexivity.
  - intros H1 H2. unfold py_sptendiag. rewrite H1. cbn [bind]. destruct (negb _); [reflexivity|].
    rewrite (constructed_shape_err _ sh H2). reflexivity.
Qed.

(* what parse_one_d returns is 1-d for every argument but a nested list (W3ShapeArgs.parse_one_d_spec); 2-d elements are rejected *)
Theorem py_diag_2d_rejected el a sp :
  parse_one_d el = Ok a -> nd_ndim a <> 1%Z -> py_tendiag el sp = Err /\ py_sptendiag el sp = Err.
Proof.
  intros Ha H1. apply Z.eqb_neq in H1. unfold py_tendiag, py_sptendiag. rewrite Ha. cbn [bind]. rewrite H1. split; reflexivity.
Qed.
Theorem parse_one_d_1d :
  (forall k a, parse_one_d (SInt k) = Ok a -> nd_ndim a = 1%Z) /\
  (forall l a, parse_one_d (SList (ints l)) = Ok a -> nd_ndim a = 1%Z) /\
  (forall shp k d a, parse_one_d (SArr (mknd shp k d)) = Ok a -> nd_ndim a = 1%Z).
Proof.
  destruct parse_one_d_spec as (P1 & P2 & P3 & P4 & P5). repeat split.
  - intros k a H. rewrite P1 in H. injection H as <-. reflexivity.
  - intros l a H. destruct (P2 l) as [E1 E2]. rewrite E1 in H. injection H as <-. exact E2.
  - intros shp k d a H. destruct (filter (fun d0 => negb (d0 =? 1)%Z) shp) as [|x [|y r]] eqn:E.
    + rewrite (P4 shp k d E) in H. injection H as <-. reflexivity.
    + rewrite (P3 shp k d x E) in H. injection H as <-. reflexivity.
    + rewrite (P5 shp k d x y r E) in H. discriminate.
Qed.

(* ---------------------------------------------------------------- dense and sparse diagonal generator: the same array *)
Section Agree.
Context {V : Type} (v0 : V) (vadd : V -> V -> V) (isz : V -> bool).
Hypothesis isz_spec : forall v, isz v = true <-> v = v0.
Hypothesis vadd_0_r : forall x, vadd x v0 = x.

(* over an arbitrary value type: same shape, same entry at EVERY subscript (inside or outside the shape) *)
Theorem diag_dense_sparse_agree (e : list V) (so : option shape) :
  1 <= length (diag_shape (length e) so) ->
  dshape (tendiag v0 e so) = sshape (sptendiag v0 vadd isz e so) /\
  wf_dense (tendiag v0 e so) /\ wf_sp isz (sptendiag v0 vadd isz e so) /\
  forall i, den_dense v0 (tendiag v0 e so) i = den_sp v0 (sptendiag v0 vadd isz e so) i.
Proof.
  intros HM.
  destruct (tendiag_ok v0 e so HM) as (D1 & D2 & D3 & D4).
  destruct (sptendiag_ok v0 vadd isz isz_spec vadd_0_r e so HM) as (S1 & S2 & S3 & S4 & _).
  split; [now rewrite D1, S1|]. split; [exact D2|]. split; [exact S2|]. intros i.
  set (N := length e) in *. set (M := length (diag_shape N so)) in *.
  destruct (existsb (fun k => idx_eqb i (repeat k M)) (seq 0 N)) eqn:E.
  - apply existsb_exists in E as (k & Hk & Ek). apply in_seq in Hk. apply idx_eqb_spec in Ek. subst i.
    rewrite D3, S3 by lia. reflexivity.
  - assert (H : forall k, k < N -> i <> repeat k M).
    { intros k Hk Ei. apply Bool.not_true_iff_false in E. apply E. apply existsb_exists. exists k. split.
      - apply in_seq. lia.
      - apply idx_eqb_spec. exact Ei. }
    rewrite D4, S4 by exact H. reflexivity.
Qed.
End Agree.

Lemma zisz_spec20 : forall v, zisz v = true <-> v = 0%Z.
Proof. intros v. unfold zisz. apply Z.eqb_eq. Qed.

(* the two transliterations, on every request BOTH accept: same shape, both well-formed, same entry everywhere *)
Theorem py_diag_agree el sp T S :
  py_tendiag el sp = Ok T -> py_sptendiag el sp = Ok S ->
  dshape T = sshape S /\ wf_dense T /\ wf_sp zisz S /\ forall i, den_dense 0%Z T i = den_sp 0%Z S i.
Proof.
  intros HT HS.
  destruct (parse_one_d el) as [a|] eqn:Ha; [|unfold py_tendiag in HT; rewrite Ha in HT; discriminate].
  assert (H1 : nd_ndim a = 1%Z).
  { unfold py_tendiag in HT. rewrite Ha in HT. cbn [bind] in HT. destruct (nd_ndim a =? 1)%Z eqn:E1.
    - now apply Z.eqb_eq. - discriminate. }
  assert (exists so, shape_parsed sp so) as (so & Hso).
  { destruct sp as [sh|]; [|exists None; exact I].
    destruct (parse_shape sh) as [s|] eqn:Es; [exists (Some s); exact Es|].
    rewrite (proj2 (py_tendiag_rejects el a sh) Ha Es) in HT. discriminate. }
  rewrite (py_tendiag_lines el a sp so Ha H1 Hso) in HT. rewrite (py_sptendiag_lines el a sp so Ha H1 Hso) in HS.
  set (e := nd_ints a) in *.
  destruct (ztendiag_req e so) as [T'|] eqn:ET; [|discriminate]. injection HT as ->.
  destruct (zsptendiag_req e so) as [S'|] eqn:ES; [|discriminate]. injection HS as ->.
  destruct (tendiag_req_spec e so) as (_ & HT2). destruct (HT2 T ET) as (-> & Hsh & HM).
  assert (S = zsptendiag_z e so) as ->.
  { unfold zsptendiag_req in ES. clearbody e.
    assert (Q : match so with Some s0 => zsptendiag_chk e s0 | None => Some (zsptendiag e None) end = Some S).
    { destruct (diag_shape_z (length e) so); [destruct e; [exact ES|discriminate]|exact ES]. }
    destruct so as [s0|].
    - unfold zsptendiag_chk in Q. destruct (forallb _ s0); [injection Q as <-; reflexivity|discriminate].
    - injection Q as <-. reflexivity. }
  unfold ztendiag_z, zsptendiag_z, ztendiag, zsptendiag.
  apply (diag_dense_sparse_agree 0%Z Z.add zisz zisz_spec20 Z.add_0_r e (option_map to_shape so)).
  rewrite <- diag_shape_z_nat, <- Hsh. exact HM.
Qed.

(* with at least one element the two generators accept exactly the same requests *)
Theorem py_diag_accept_same el a sp so :
  parse_one_d el = Ok a -> nd_ndim a = 1%Z -> nd_ints a <> [] -> shape_parsed sp so ->
  (py_tendiag el sp = Err <-> py_sptendiag el sp = Err) /\ (py_tendiag el sp = Err <-> so = Some []).
Proof.
  intros Ha H1 Hne Hso. rewrite (py_tendiag_lines el a sp so Ha H1 Hso), (py_sptendiag_lines el a sp so Ha H1 Hso).
  set (e := nd_ints a) in *.
  assert (R : forall A (o : option A), res_of o = Err <-> o = None).
  { intros A [x|]; cbn; split; congruence. }
  rewrite !R. destruct (tendiag_req_spec e so) as (HT & _). rewrite HT, sptendiag_req_spec. split; split.
  - intros [H|[_ H]]; [left; now split|contradiction].
  - intros [[_ H]|[H _]]; [now left|contradiction].
  - intros [H|[_ H]]; [exact H|contradiction].
  - intros H. now left.
Qed.

(* non-vacuity: a float-free request through the generated parsers - elements [5; 0; 7] as a list, shape (2, 4) as a tuple:
   constructed shape (3, 4); the zero element is written by tendiag and not stored by sptendiag *)
Example py_diag_example :
  py_tendiag (SList (ints [5; 0; 7]%Z)) (Some (STuple (ints [2; 4]%Z))) =
    Ok (mkDense [3; 4] [5; 0; 0; 0; 0; 0; 0; 0; 7; 0; 0; 0]%Z) /\
  py_sptendiag (SList (ints [5; 0; 7]%Z)) (Some (STuple (ints [2; 4]%Z))) = Ok (mkSp [3; 4] [[0; 0]; [2; 2]] [5; 7]%Z) /\
  py_tendiag (SInt 4) None = Ok (mkDense [1] [4%Z]) /\
  py_sptendiag (SList (ints [1; 2]%Z)) (Some (STuple [])) = Err /\
  py_tendiag (SList (ints [1; 2]%Z)) (Some (STuple [])) = Err /\
  py_tendiag (SList (ints [1; 2]%Z)) (Some (SList [EInt 2; EList [3%Z]])) = Err /\
  py_sptendiag (SList []) (Some (STuple (ints [2; 0]%Z))) = Err /\
  py_tendiag (SList []) (Some (STuple (ints [2; 0]%Z))) = Ok (mkDense [2; 0] []).
Proof. repeat split; vm_compute; reflexivity. Qed.
