(* Model/C04AsIs.v — C04, wave 4: the AS-IS behaviour of sptensor._set_subtensor with a sparse right-hand side inside the input
   class of the open finding C04-N04 (a slice with a step or a negative bound in the key), built from the translator-GENERATED
   tt_irenumber (Gen/GenUtils3.v, regenerated from /repo on every run).  Executable; used by the correspondence check so that,
   inside the trigger class, pyttb must show EITHER the specified behaviour (check_sparse) OR exactly this faithful model
   (asis_history_ok) — a third behaviour is a violation, nothing is attributed blindly.
   pyttb: self.shape = newsz ; rmloc = self.subdims(key) (Python slice semantics, correct) ; kept = entries outside the region,
   in stored order ; addsubs = tt_irenumber(value, self.shape, key) (as-is: slice entries are renumbered by
   np.arange(start or 0, (stop or shape) + 1), the step is never read) ; subs = vstack(kept, addsubs), vals = vstack(kept, value.vals).
   An IndexError inside tt_irenumber leaves the receiver with the new shape and its old entries. *)
From Coq Require Import List Arith ZArith Bool.
From PV Require Import Base.Index Np.Array Model.Sparse Model.Harness Np.NpZ Np.NpZ2 Np.NpZ3 Gen.GenUtils3.
From PV Require Import Model.C04Model Model.C04Harness Proofs.C04GenBridge Proofs.C04GenRegion.
Import ListNotations.

(* keys of integers and slices only (the class generated for C04-N04); an index list has its own as-is filtering *)
Definition key_plain (es : list C04Model.kelem) : bool :=
  forallb (fun e => match e with C04Model.KList _ => false | _ => true end) es.

(* a raw observed sparse state: subscripts are integers (the as-is code can store negative ones) *)
Record rawsp := mkRaw { rshape : list Z; rsubs : list (list Z); rvals : list Z }.

Definition raw_eqb (a b : rawsp) : bool :=
  vec_eqb (rshape a) (rshape b) && mat_eqb (rsubs a) (rsubs b) && vec_eqb (rvals a) (rvals b).

(* (state after the call, did the call raise?) *)
Definition asis_set (S : sparse Z) (es : list C04Model.kelem) (Y : sparse Z) : option (rawsp * bool) :=
  let s := sshape S in
  if key_plain es && Nat.eqb (length es) (length s) && region_ok s es then
    let s' := grow s (map elem_need es) in
    match region_lists s' es with
    | Some ls =>
        let region := cartF (map snd ls) in
        let kept := filter (fun e : idx * Z => negb (memb (fst e) region)) (entries S) in
        match tt_irenumber (mkspt (map zs (ssubs Y)) (svals Y) (zs (sshape Y))) (zs s') (zkeys s' es) with
        | Ok rows => Some (mkRaw (zs s') (map zs (map fst kept) ++ rows) (map snd kept ++ svals Y), false)
        | Err => Some (mkRaw (zs s') (map zs (ssubs S)) (svals S), true)
        end
    | None => None
    end
  else None.

Definition asis_ok (S : sparse Z) (es : list C04Model.kelem) (Y : sparse Z) (obs : rawsp) (raised : bool) : bool :=
  match asis_set S es Y with
  | Some (R, r) => Bool.eqb r raised && raw_eqb R obs
  | None => false
  end.

(* the history up to the C04-N04-class step follows the specification; that step is the as-is model; later steps are not compared
   (the receiver no longer denotes the specified array) *)
Definition asis_history_ok (S : sparse Z) (pre : list zop) (preobs : list (sparse Z * option xout))
    (es : list C04Model.kelem) (Y : sparse Z) (obs : rawsp) (raised : bool) : bool :=
  check_sparse S pre preobs &&
  match run zstep_sparse S pre with
  | Some (Sk, _) => asis_ok Sk es Y obs raised
  | None => false
  end.

(* the C04-N04 witness: S[0, 0:3:2] = <7, 8> on a 2x3 sptensor storing (1,1)=1, (0,0)=2, (0,2)=3 out of order: the specified
   result stores 7 at (0,0) and 8 at (0,2); the as-is code puts 8 at (0,1) — (0,2) is emptied, (0,1) is not part of the region *)
Example asis_witness :
  asis_set (mkSp [2; 3] [[1; 1]; [0; 0]; [0; 2]] [1; 2; 3]%Z) [C04Model.KInt 0; C04Model.KSlice (Some 0%Z) (Some 3%Z) (Some 2%Z)]
           (mkSp [2] [[0]; [1]] [7; 8]%Z)
  = Some (mkRaw [2; 3]%Z [[1; 1]; [0; 0]; [0; 1]]%Z [1; 7; 8]%Z, false).
Proof. vm_compute. reflexivity. Qed.

(* negative start: S[0, -2:] = <7, 8>: as-is stores NEGATIVE subscripts *)
Example asis_negative :
  asis_set (mkSp [2; 3] [[1; 1]] [1]%Z) [C04Model.KInt 0; C04Model.KSlice (Some (-2)%Z) None None] (mkSp [2] [[0]; [1]] [7; 8]%Z)
  = Some (mkRaw [2; 3]%Z [[1; 1]; [0; -2]; [0; -1]]%Z [1; 7; 8]%Z, false).
Proof. vm_compute. reflexivity. Qed.
