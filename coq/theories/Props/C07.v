(* Props/C07.v — permute, reshape and squeeze are exact index maps. Only statements, `exact`, Print Assumptions.
   Conventions: [pick 0 p l] is numpy's l[p]; [invperm p] = argsort p; sub2ind/ind2sub are F-order (first index fastest);
   den_* is the array an object denotes (v0 outside the shape). Operations return [option]: None = request rejected. *)
From Coq Require Import List Arith Bool ZArith Ring.
From PV Require Import Base.Index Base.Perm Base.Sum Np.Array Model.Sparse Model.Repr Model.C07Ops Model.C07Ops2
  Proofs.C07Proofs Proofs.C07Reshape Proofs.C07Tucker Proofs.C07Holders.
Import ListNotations.

Section C07.
Variable V : Type.
Variables (v0 v1 : V) (vadd vmul vsub : V -> V -> V) (vopp : V -> V) (isz : V -> bool).
Hypothesis Vring : ring_theory v0 v1 vadd vmul vsub vopp (@eq V).

(* dense: entry at i of the result is the entry at i∘p⁻¹ of the argument; shape permuted; inverse order undoes it *)
Theorem C07_permute_dense : forall (T : dense V) p, wf_dense T -> is_perm p (length (dshape T)) ->
  exists R, permute_d v0 T p = Some R /\ wf_dense R /\ dshape R = pick 0 p (dshape T) /\
    (forall i, length i = length (dshape T) -> den_dense v0 R i = den_dense v0 T (pick 0 (invperm p) i)) /\
    permute_d v0 R (invperm p) = Some T.
Proof. exact (permute_dense_correct v0). Qed.

(* sparse: same index law for every coordinate list with rows of the right width (duplicates included);
   values untouched, nnz kept, well-formedness preserved, inverse order returns the identical object *)
Theorem C07_permute_sparse : forall (S : sparse V) p,
  is_perm p (length (sshape S)) -> Forall (fun j => length j = length (sshape S)) (ssubs S) ->
  exists R, permute_sp S p = Some R /\ sshape R = pick 0 p (sshape S) /\ svals R = svals S /\ nnz R = nnz S /\
    (forall i, length i = length (sshape S) -> den_sp v0 R i = den_sp v0 S (pick 0 (invperm p) i)) /\
    (wf_sp isz S -> wf_sp isz R) /\
    permute_sp R (invperm p) = Some S.
Proof. exact (permute_sparse_correct v0 isz). Qed.

Theorem C07_permute_kruskal : forall (K : ktensor V) p, is_perm p (length (kfactors K)) ->
  exists R, permute_k K p = Some R /\ kweights R = kweights K /\ kshape R = pick 0 p (kshape K) /\
    (forall i, length i = length (kfactors K) ->
       den_k v0 v1 vadd vmul R i = den_k v0 v1 vadd vmul K (pick 0 (invperm p) i)) /\
    permute_k R (invperm p) = Some K.
Proof. exact (permute_kruskal_correct V v0 v1 vadd vmul vsub vopp Vring). Qed.

Theorem C07_permute_tucker : forall (T : ttensor V) p,
  wf_dense (tcore T) -> length (dshape (tcore T)) = length (tfactors T) -> is_perm p (length (tfactors T)) ->
  exists R, permute_t v0 T p = Some R /\ tshape R = pick 0 p (tshape T) /\
    dshape (tcore R) = pick 0 p (dshape (tcore T)) /\ wf_dense (tcore R) /\
    (forall i, length i = length (tfactors T) ->
       den_t v0 v1 vadd vmul R i = den_t v0 v1 vadd vmul T (pick 0 (invperm p) i)) /\
    permute_t v0 R (invperm p) = Some T.
Proof. exact (permute_tucker_correct V v0 v1 vadd vmul vsub vopp Vring). Qed.

(* dense reshape: the F-order data list is unchanged; the entry at i moves to ind2sub s' (sub2ind s i); reshaping back
   returns the identical tensor *)
Theorem C07_reshape_dense : forall (T : dense V) s', wf_dense T -> size s' = size (dshape T) ->
  exists R, reshape_d v0 T s' = Some R /\ wf_dense R /\ dshape R = s' /\ ddata R = ddata T /\
    (forall i, inb s' i = true -> den_dense v0 R i = den_dense v0 T (ind2sub (dshape T) (sub2ind s' i))) /\
    (forall i, inb (dshape T) i = true ->
        inb s' (ind2sub s' (sub2ind (dshape T) i)) = true /\
        den_dense v0 R (ind2sub s' (sub2ind (dshape T) i)) = den_dense v0 T i) /\
    reshape_d v0 R (dshape T) = Some T.
Proof. exact (reshape_dense_correct v0). Qed.

(* sparse reshape of the modes [old] (any order, in range): result modes = kept modes (ascending) ++ new modes; the entry at i
   moves to  i[keep] ++ ind2sub s' (sub2ind s[old] i[old]);  nothing else is stored *)
Theorem C07_reshape_sparse : forall (S : sparse V) s' old,
  Forall (fun k => k < length (sshape S)) old -> size s' = size (pick 0 old (sshape S)) ->
  Forall (fun j => inb (sshape S) j = true) (ssubs S) ->
  exists R, reshape_sp S s' old = Some R /\
    sshape R = pick 0 (keep_modes (length (sshape S)) old) (sshape S) ++ s' /\
    svals R = svals S /\ nnz R = nnz S /\ (wf_sp isz S -> wf_sp isz R) /\
    (forall i, inb (sshape S) i = true ->
       inb (sshape R) (reshape_row (sshape S) s' old i) = true /\
       den_sp v0 R (reshape_row (sshape S) s' old i) = den_sp v0 S i) /\
    (forall i', (forall i, inb (sshape S) i = true -> reshape_row (sshape S) s' old i <> i') -> den_sp v0 R i' = v0).
Proof. exact (reshape_sparse_correct v0 isz). Qed.

(* sparse reshape of all modes, with the round trip *)
Theorem C07_reshape_sparse_all : forall (S : sparse V) s',
  size s' = size (sshape S) -> Forall (fun j => inb (sshape S) j = true) (ssubs S) ->
  exists R, reshape_sp_all S s' = Some R /\ sshape R = s' /\ svals R = svals S /\ nnz R = nnz S /\
    (wf_sp isz S -> wf_sp isz R) /\
    (forall i', inb s' i' = true -> den_sp v0 R i' = den_sp v0 S (ind2sub (sshape S) (sub2ind s' i'))) /\
    (forall i, inb (sshape S) i = true -> den_sp v0 R (ind2sub s' (sub2ind (sshape S) i)) = den_sp v0 S i) /\
    Forall (fun j => inb s' j = true) (ssubs R) /\
    reshape_sp_all R (sshape S) = Some S.
Proof. exact (reshape_sparse_all_correct v0 isz). Qed.

(* squeeze: singleton positions are dropped from shape and subscripts, values untouched; scalar when every mode is 1 *)
Theorem C07_squeeze_dense : forall T : dense V, wf_dense T -> forallb (Nat.ltb 0) (dshape T) = true ->
  match squeeze_d v0 T with
  | SqT R => wf_dense R /\ dshape R = sqz (dshape T) (dshape T) /\ ddata R = ddata T /\
             (forall i, inb (dshape T) i = true ->
                inb (dshape R) (sqz (dshape T) i) = true /\ den_dense v0 R (sqz (dshape T) i) = den_dense v0 T i)
  | SqScalar v => sqz (dshape T) (dshape T) = [] /\ (forall i, inb (dshape T) i = true -> v = den_dense v0 T i)
  end.
Proof. exact (squeeze_dense_correct v0). Qed.

Theorem C07_squeeze_sparse : forall S : sparse V,
  Forall (fun j => inb (sshape S) j = true) (ssubs S) ->
  match squeeze_sp v0 S with
  | SqT R => sshape R = sqz (sshape S) (sshape S) /\ svals R = svals S /\ nnz R = nnz S /\
             (wf_sp isz S -> wf_sp isz R) /\
             (forall i, inb (sshape S) i = true ->
                inb (sshape R) (sqz (sshape S) i) = true /\ den_sp v0 R (sqz (sshape S) i) = den_sp v0 S i)
  | SqScalar v => sqz (sshape S) (sshape S) = [] /\ (forall i, inb (sshape S) i = true -> v = den_sp v0 S i)
  end.
Proof. exact (squeeze_sparse_correct v0 isz). Qed.

(* the four holders of the same array stay holders of the same array under permute; dense/sparse under reshape, squeeze *)
Theorem C07_repr_agree_permute : forall (T : dense V) (S : sparse V) (K : ktensor V) (Tk : ttensor V) p N,
  wf_dense T -> length (dshape T) = N -> length (sshape S) = N ->
  Forall (fun j => length j = N) (ssubs S) -> length (kfactors K) = N ->
  wf_dense (tcore Tk) -> length (dshape (tcore Tk)) = N -> length (tfactors Tk) = N ->
  is_perm p N ->
  (forall i, length i = N -> den_sp v0 S i = den_dense v0 T i /\ den_k v0 v1 vadd vmul K i = den_dense v0 T i /\
                             den_t v0 v1 vadd vmul Tk i = den_dense v0 T i) ->
  exists T' S' K' Tk', permute_d v0 T p = Some T' /\ permute_sp S p = Some S' /\ permute_k K p = Some K' /\
    permute_t v0 Tk p = Some Tk' /\
    (forall i, length i = N -> den_sp v0 S' i = den_dense v0 T' i /\ den_k v0 v1 vadd vmul K' i = den_dense v0 T' i /\
                               den_t v0 v1 vadd vmul Tk' i = den_dense v0 T' i).
Proof. exact (permute_repr_agree V v0 v1 vadd vmul vsub vopp Vring). Qed.

Theorem C07_repr_agree_reshape : forall (T : dense V) (S : sparse V) s', wf_dense T -> sshape S = dshape T ->
  Forall (fun j => inb (sshape S) j = true) (ssubs S) -> size s' = size (dshape T) ->
  (forall i, inb (dshape T) i = true -> den_sp v0 S i = den_dense v0 T i) ->
  exists T' S', reshape_d v0 T s' = Some T' /\ reshape_sp_all S s' = Some S' /\
    forall i, inb s' i = true -> den_sp v0 S' i = den_dense v0 T' i.
Proof. exact (reshape_repr_agree v0). Qed.

Theorem C07_repr_agree_squeeze : forall (T : dense V) (S : sparse V), wf_dense T -> sshape S = dshape T ->
  forallb (Nat.ltb 0) (dshape T) = true ->
  Forall (fun j => inb (sshape S) j = true) (ssubs S) ->
  (forall i, inb (dshape T) i = true -> den_sp v0 S i = den_dense v0 T i) ->
  match squeeze_d v0 T, squeeze_sp v0 S with
  | SqT T', SqT S' => sshape S' = dshape T' /\
       forall i, inb (dshape T) i = true -> den_sp v0 S' (sqz (dshape T) i) = den_dense v0 T' (sqz (dshape T) i)
  | SqScalar a, SqScalar b => a = b
  | _, _ => False
  end.
Proof. exact (squeeze_repr_agree v0). Qed.

(* ---------------------------------------------------------------- second wave *)

(* sparse reshape of a mode SUBSET (distinct modes, any order) is a bijection of index sets with an explicit inverse
   [unreshape_row]: every index j of the result shape (kept ++ new) has exactly one source index, the result denotes
   exactly the re-indexed array (v0 outside the shape), its stored subscripts are in range, and reshaping the trailing
   new modes back to the sizes of the removed modes followed by the permutation argsort(keep ++ old) that restores the
   mode order returns the identical stored object *)
Theorem C07_reshape_sparse_subset : forall (S : sparse V) s' old,
  Forall (fun k => k < length (sshape S)) old -> NoDup old -> size s' = size (pick 0 old (sshape S)) ->
  Forall (fun j => inb (sshape S) j = true) (ssubs S) ->
  let s := sshape S in
  let keep := keep_modes (length s) old in
  exists R, reshape_sp S s' old = Some R /\ sshape R = pick 0 keep s ++ s' /\
    (forall j, inb (sshape R) j = true ->
       inb s (unreshape_row s s' old j) = true /\ reshape_row s s' old (unreshape_row s s' old j) = j /\
       (forall i, inb s i = true -> reshape_row s s' old i = j -> i = unreshape_row s s' old j)) /\
    (forall i, inb s i = true -> unreshape_row s s' old (reshape_row s s' old i) = i) /\
    (forall j, den_sp v0 R j = if inb (sshape R) j then den_sp v0 S (unreshape_row s s' old j) else v0) /\
    Forall (fun j => inb (sshape R) j = true) (ssubs R) /\
    exists R2, reshape_sp R (pick 0 old s) (seq (length keep) (length s')) = Some R2 /\
      sshape R2 = pick 0 (rs_order (length s) old) s /\
      permute_sp R2 (invperm (rs_order (length s) old)) = Some S.
Proof. exact (reshape_sparse_subset_bijection v0 isz). Qed.

(* ttensor.permute with a SPARSE core: same index law, core values / nnz / well-formedness kept, inverse order returns
   the identical object; and the sparse-core holder denotes the same array as the holder with the expanded core *)
Theorem C07_permute_tucker_sparse_core : forall (T : sttensor V) p,
  length (sshape (stcore T)) = length (stfactors T) ->
  Forall (fun j => length j = length (stfactors T)) (ssubs (stcore T)) ->
  is_perm p (length (stfactors T)) ->
  exists R, permute_st T p = Some R /\ stshape R = pick 0 p (stshape T) /\
    sshape (stcore R) = pick 0 p (sshape (stcore T)) /\ svals (stcore R) = svals (stcore T) /\
    nnz (stcore R) = nnz (stcore T) /\ (wf_sp isz (stcore T) -> wf_sp isz (stcore R)) /\
    (forall i, length i = length (stfactors T) ->
       den_st v0 v1 vadd vmul R i = den_st v0 v1 vadd vmul T (pick 0 (invperm p) i)) /\
    permute_st R (invperm p) = Some T.
Proof. exact (permute_stucker_correct V v0 v1 vadd vmul vsub vopp isz Vring). Qed.

Theorem C07_tucker_sparse_core_expand : forall (T : sttensor V) i,
  Forall (fun j => inb (sshape (stcore T)) j = true) (ssubs (stcore T)) ->
  den_t v0 v1 vadd vmul (st_dense v0 T) i = den_st v0 v1 vadd vmul T i.
Proof. exact (den_st_dense V v0 v1 vadd vmul). Qed.

Theorem C07_repr_agree_permute_sparse_core : forall (T : dense V) (Ts : sttensor V) p N,
  wf_dense T -> length (dshape T) = N -> length (sshape (stcore Ts)) = N -> length (stfactors Ts) = N ->
  Forall (fun j => length j = N) (ssubs (stcore Ts)) -> is_perm p N ->
  (forall i, length i = N -> den_st v0 v1 vadd vmul Ts i = den_dense v0 T i) ->
  exists T' Ts', permute_d v0 T p = Some T' /\ permute_st Ts p = Some Ts' /\
    (forall i, length i = N -> den_st v0 v1 vadd vmul Ts' i = den_dense v0 T' i).
Proof. exact (permute_repr_agree_st V v0 v1 vadd vmul vsub vopp isz Vring). Qed.

(* dense and sparse holders agree on a subset reshape: the dense route is permute(keep ++ old) ; reshape(kept ++ new) *)
Theorem C07_repr_agree_reshape_subset : forall (T : dense V) (S : sparse V) s' old,
  wf_dense T -> sshape S = dshape T ->
  Forall (fun k => k < length (dshape T)) old -> NoDup old -> size s' = size (pick 0 old (dshape T)) ->
  Forall (fun j => inb (sshape S) j = true) (ssubs S) ->
  (forall i, inb (dshape T) i = true -> den_sp v0 S i = den_dense v0 T i) ->
  let s := dshape T in
  exists T1 T2 S', permute_d v0 T (rs_order (length s) old) = Some T1 /\
    reshape_d v0 T1 (pick 0 (keep_modes (length s) old) s ++ s') = Some T2 /\
    reshape_sp S s' old = Some S' /\ sshape S' = dshape T2 /\
    forall j, inb (dshape T2) j = true -> den_sp v0 S' j = den_dense v0 T2 j.
Proof. exact (reshape_subset_repr_agree v0). Qed.

(* pyttb offers reshape / squeeze only on tensor and sptensor; Kruskal / Tucker (dense or sparse core) holders go through
   full().  Holders of one array give the identical reshaped / squeezed dense tensor, re-indexed by the same formulas. *)
Theorem C07_repr_agree_reshape_holders : forall (K : ktensor V) (T : ttensor V) (Ts : sttensor V) s',
  tshape T = kshape K -> stshape Ts = kshape K -> size s' = size (kshape K) ->
  (forall i, inb (kshape K) i = true ->
     den_t v0 v1 vadd vmul T i = den_k v0 v1 vadd vmul K i /\ den_st v0 v1 vadd vmul Ts i = den_k v0 v1 vadd vmul K i) ->
  exists R, reshape_d v0 (full_k v0 v1 vadd vmul K) s' = Some R /\ reshape_d v0 (full_t v0 v1 vadd vmul T) s' = Some R /\
    reshape_d v0 (full_st v0 v1 vadd vmul Ts) s' = Some R /\ dshape R = s' /\
    (forall i, inb s' i = true -> den_dense v0 R i = den_k v0 v1 vadd vmul K (ind2sub (kshape K) (sub2ind s' i))) /\
    (forall i, inb (kshape K) i = true -> den_dense v0 R (ind2sub s' (sub2ind (kshape K) i)) = den_k v0 v1 vadd vmul K i) /\
    reshape_d v0 R (kshape K) = Some (full_k v0 v1 vadd vmul K).
Proof. exact (reshape_holders_agree V v0 v1 vadd vmul). Qed.

Theorem C07_repr_agree_squeeze_holders : forall (K : ktensor V) (T : ttensor V) (Ts : sttensor V),
  tshape T = kshape K -> stshape Ts = kshape K -> forallb (Nat.ltb 0) (kshape K) = true ->
  (forall i, inb (kshape K) i = true ->
     den_t v0 v1 vadd vmul T i = den_k v0 v1 vadd vmul K i /\ den_st v0 v1 vadd vmul Ts i = den_k v0 v1 vadd vmul K i) ->
  squeeze_d v0 (full_t v0 v1 vadd vmul T) = squeeze_d v0 (full_k v0 v1 vadd vmul K) /\
  squeeze_d v0 (full_st v0 v1 vadd vmul Ts) = squeeze_d v0 (full_k v0 v1 vadd vmul K) /\
  match squeeze_d v0 (full_k v0 v1 vadd vmul K) with
  | SqT R => wf_dense R /\ dshape R = sqz (kshape K) (kshape K) /\
             (forall i, inb (kshape K) i = true ->
                inb (dshape R) (sqz (kshape K) i) = true /\ den_dense v0 R (sqz (kshape K) i) = den_k v0 v1 vadd vmul K i)
  | SqScalar v => sqz (kshape K) (kshape K) = [] /\ (forall i, inb (kshape K) i = true -> v = den_k v0 v1 vadd vmul K i)
  end.
Proof. exact (squeeze_holders_agree V v0 v1 vadd vmul). Qed.
End C07.

Print Assumptions C07_permute_dense.
Print Assumptions C07_permute_sparse.
Print Assumptions C07_permute_kruskal.
Print Assumptions C07_permute_tucker.
Print Assumptions C07_reshape_dense.
Print Assumptions C07_reshape_sparse.
Print Assumptions C07_reshape_sparse_all.
Print Assumptions C07_squeeze_dense.
Print Assumptions C07_squeeze_sparse.
Print Assumptions C07_repr_agree_permute.
Print Assumptions C07_repr_agree_reshape.
Print Assumptions C07_repr_agree_squeeze.
Print Assumptions C07_reshape_sparse_subset.
Print Assumptions C07_permute_tucker_sparse_core.
Print Assumptions C07_tucker_sparse_core_expand.
Print Assumptions C07_repr_agree_permute_sparse_core.
Print Assumptions C07_repr_agree_reshape_subset.
Print Assumptions C07_repr_agree_reshape_holders.
Print Assumptions C07_repr_agree_squeeze_holders.

(* non-vacuity on non-symmetric instances: 2x3x4 with the non-involutive order [2;0;1] *)
Example C07_example_permute :
  let T := mkDense [2; 3; 4] (map Z.of_nat (seq 0 24)) in
  is_permb [2; 0; 1] 3 = true /\ wf_denseb T = true /\
  option_map (@dshape Z) (permute_d 0%Z T [2; 0; 1]) = Some [4; 2; 3] /\
  option_map (fun R => den_dense 0%Z R [3; 1; 2]) (permute_d 0%Z T [2; 0; 1]) = Some (den_dense 0%Z T [1; 2; 3]) /\
  den_dense 0%Z T [1; 2; 3] = 23%Z /\ invperm [2; 0; 1] = [1; 2; 0].
Proof. repeat split; reflexivity. Qed.

Example C07_example_sparse :
  let S := mkSp [2; 3; 4] [[1; 2; 3]; [0; 1; 0]] [5; 7]%Z in
  permute_sp S [2; 0; 1] = Some (mkSp [4; 2; 3] [[3; 1; 2]; [0; 0; 1]] [5; 7]%Z) /\
  reshape_sp_all S [4; 6] = Some (mkSp [4; 6] [[3; 5]; [2; 0]] [5; 7]%Z) /\
  reshape_sp S [2; 4] [2; 0] = Some (mkSp [3; 2; 4] [[2; 1; 3]; [1; 0; 0]] [5; 7]%Z) /\
  squeeze_sp 0%Z (mkSp [2; 1; 3] [[1; 0; 2]] [4%Z]) = SqT (mkSp [2; 3] [[1; 2]] [4%Z]) /\
  squeeze_sp 0%Z (mkSp [1; 1] [] (@nil Z)) = SqScalar 0%Z.
Proof. repeat split; reflexivity. Qed.

Example C07_example_reshape_squeeze :
  let T := mkDense [2; 3; 4] (map Z.of_nat (seq 0 24)) in
  option_map (fun R => (dshape R, den_dense 0%Z R [3; 5])) (reshape_d 0%Z T [4; 6]) = Some ([4; 6], 23%Z) /\
  ind2sub [4; 6] (sub2ind [2; 3; 4] [1; 2; 3]) = [3; 5] /\
  squeeze_d 0%Z (mkDense [2; 1; 3] [1; 2; 3; 4; 5; 6]%Z) = SqT (mkDense [2; 3] [1; 2; 3; 4; 5; 6]%Z) /\
  squeeze_d 0%Z (mkDense [1; 1] [9%Z]) = SqScalar 9%Z.
Proof. repeat split; reflexivity. Qed.

Example C07_example_kt :
  let K := mkK [2; 3]%Z [[[1; 2]; [3; 4]]; [[5; 6]; [7; 8]; [9; 1]]]%Z in
  let Tk := mkT (mkDense [2; 1] [2; 3]%Z) [[[1; 2]; [3; 4]; [0; 5]]; [[5]; [7]]]%Z in
  option_map (fun R => den_k 0%Z 1%Z Z.add Z.mul R [2; 1]) (permute_k K [1; 0]) = Some (den_k 0%Z 1%Z Z.add Z.mul K [1; 2]) /\
  den_k 0%Z 1%Z Z.add Z.mul K [1; 2] = 66%Z /\
  option_map (fun R => den_t 0%Z 1%Z Z.add Z.mul R [1; 2]) (permute_t 0%Z Tk [1; 0]) = Some (den_t 0%Z 1%Z Z.add Z.mul Tk [2; 1]) /\
  den_t 0%Z 1%Z Z.add Z.mul Tk [2; 1] = 105%Z.
Proof. repeat split; reflexivity. Qed.

(* second wave: subset reshape with the non-ascending mode list [2;0] on 2x3x4 (kept mode 1, new shape 2x4):
   forward map, inverse map, denotation through the inverse, and the round trip back to the stored object *)
Example C07_example_reshape_subset :
  let S := mkSp [2; 3; 4] [[1; 2; 3]; [0; 1; 0]] [5; 7]%Z in
  let R := mkSp [3; 2; 4] [[2; 1; 3]; [1; 0; 0]] [5; 7]%Z in
  reshape_sp S [2; 4] [2; 0] = Some R /\
  keep_modes 3 [2; 0] = [1] /\ rs_order 3 [2; 0] = [1; 2; 0] /\ invperm (rs_order 3 [2; 0]) = [2; 0; 1] /\
  reshape_row [2; 3; 4] [2; 4] [2; 0] [1; 2; 3] = [2; 1; 3] /\
  unreshape_row [2; 3; 4] [2; 4] [2; 0] [2; 1; 3] = [1; 2; 3] /\
  unreshape_row [2; 3; 4] [2; 4] [2; 0] [0; 1; 2] = [1; 0; 1] /\
  reshape_row [2; 3; 4] [2; 4] [2; 0] [1; 0; 1] = [0; 1; 2] /\
  den_sp 0%Z R [2; 1; 3] = 5%Z /\ den_sp 0%Z S (unreshape_row [2; 3; 4] [2; 4] [2; 0] [2; 1; 3]) = 5%Z /\
  reshape_sp R [4; 2] [1; 2] = Some (mkSp [3; 4; 2] [[2; 3; 1]; [1; 0; 0]] [5; 7]%Z) /\
  permute_sp (mkSp [3; 4; 2] [[2; 3; 1]; [1; 0; 0]] [5; 7]%Z) [2; 0; 1] = Some S.
Proof. repeat split; reflexivity. Qed.

(* the dense route of the same request: permute by keep ++ old = [1;2;0], then reshape to 3x2x4 *)
Example C07_example_reshape_subset_dense :
  let T := mkDense [2; 3; 4] (map Z.of_nat (seq 0 24)) in
  option_map (fun R => (dshape R, den_dense 0%Z R [2; 1; 3]))
    (match permute_d 0%Z T [1; 2; 0] with Some T1 => reshape_d 0%Z T1 [3; 2; 4] | None => None end)
  = Some ([3; 2; 4], den_dense 0%Z T [1; 2; 3]) /\ den_dense 0%Z T [1; 2; 3] = 23%Z.
Proof. repeat split; reflexivity. Qed.

(* Tucker with a sparse 2x1x2 core, factors 3x2, 2x1, 2x2, non-involutive order [2;0;1] *)
Example C07_example_tucker_sparse_core :
  let Ts := mkST (mkSp [2; 1; 2] [[1; 0; 0]; [0; 0; 1]] [2; 3]%Z)
                 [[[1; 2]; [3; 4]; [0; 5]]; [[5]; [7]]; [[1; -1]; [2; 3]]]%Z in
  option_map (fun R => (stshape R, sshape (stcore R), ssubs (stcore R))) (permute_st Ts [2; 0; 1])
    = Some ([2; 3; 2], [2; 2; 1], [[0; 1; 0]; [1; 0; 0]]) /\
  option_map (fun R => den_st 0%Z 1%Z Z.add Z.mul R [1; 2; 0]) (permute_st Ts [2; 0; 1])
    = Some (den_st 0%Z 1%Z Z.add Z.mul Ts [2; 0; 1]) /\
  den_st 0%Z 1%Z Z.add Z.mul Ts [2; 0; 1] = 100%Z /\
  den_t 0%Z 1%Z Z.add Z.mul (st_dense 0%Z Ts) [2; 0; 1] = 100%Z.
Proof. repeat split; reflexivity. Qed.

(* reshape / squeeze through full() of a Kruskal holder: 2x1x3 of rank 2 *)
Example C07_example_holders :
  let K := mkK [2; 3]%Z [[[1; 2]; [3; 4]]; [[5; 6]]; [[1; 0]; [0; 1]; [2; 2]]]%Z in
  option_map (fun R => den_dense 0%Z R [2; 1]) (reshape_d 0%Z (full_k 0%Z 1%Z Z.add Z.mul K) [3; 2])
    = Some (den_k 0%Z 1%Z Z.add Z.mul K (ind2sub [2; 1; 3] (sub2ind [3; 2] [2; 1]))) /\
  ind2sub [2; 1; 3] (sub2ind [3; 2] [2; 1]) = [1; 0; 2] /\ den_k 0%Z 1%Z Z.add Z.mul K [1; 0; 2] = 204%Z /\
  match squeeze_d 0%Z (full_k 0%Z 1%Z Z.add Z.mul K) with
  | SqT R => dshape R = [2; 3] /\ den_dense 0%Z R [1; 2] = 204%Z
  | SqScalar _ => False
  end.
Proof. repeat split; reflexivity. Qed.
