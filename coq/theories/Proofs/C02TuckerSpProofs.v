(* Proofs/C02TuckerSpProofs.v — ttensor.innerprod(sptensor) (ttensor.py: same two branches as for a dense operand):
   prod(shape) < prod(core.shape): self.full().innerprod(other)  [tensor.innerprod(sptensor) reverses to sptensor.innerprod(tensor)];
   otherwise Z = other.ttm(self.factor_matrices, transpose=True) [sptensor.ttm, list form: first mode on the coordinate list, the
   others through tensor.ttm]; Z.innerprod(self.core).  Both branches equal the defining sum <den T, den S>; all shapes, core
   sizes, stored orders, values of a commutative ring. *)
From Coq Require Import List Arith Lia Bool Permutation Ring.
From PV Require Import Base.Index Base.Perm Base.Sum Np.Array Model.Sparse Model.Repr Model.C02Spec Model.C02Dense Model.C02Sparse Model.C02Modes
                       Model.C02Tucker Model.C02TuckerFull Model.C02SpMore
                       Proofs.C02DenseProofs Proofs.C02SparseProofs Proofs.C02MttkrpProofs Proofs.C02KruskalProofs Proofs.C02ModesProofs
                       Proofs.C02TenmatProofs Proofs.C02PermProofs Proofs.C02TuckerProofs Proofs.C02TuckerFullProofs Proofs.C02SpTtmListProofs.
Import ListNotations.

Section P.
Variable V : Type.
Variables (v0 v1 : V) (vadd vmul vsub : V -> V -> V) (vopp : V -> V).
Hypothesis Vring : ring_theory v0 v1 vadd vmul vsub vopp (@eq V).
Add Ring Vr41 : Vring.
Variable isz : V -> bool.

Local Notation "x + y" := (vadd x y).
Local Notation "x * y" := (vmul x y).
Local Notation So := (sum_over v0 vadd).
Local Notation tp := (tprod v0 v1 vmul).
Local Notation dent := (den_t v0 v1 vadd vmul).
Local Notation den := (den_dense v0).

Definition impl_innerprod_t_sp (T : ttensor V) (S : sparse V) : V :=
  let cs := dshape (tcore T) in
  if size (tshape T) <? size cs
  then impl_innerprod_sp_dense v0 vadd vmul S (impl_full_t v0 vadd vmul T)
  else impl_innerprod_dense v0 vadd vmul (impl_ttm_sp_list V v0 vadd vmul S (all_modes cs (tfactors T)) true) (tcore T).

Theorem impl_innerprod_t_sp_correct (T : ttensor V) (S : sparse V) :
  wf_dense (tcore T) -> length (dshape (tcore T)) = length (tfactors T) -> 1 <= length (tfactors T) ->
  wf_sp isz S -> sshape S = tshape T ->
  impl_innerprod_t_sp T S = spec_innerprod v0 vadd vmul (dent T) (den_sp v0 S) (tshape T).
Proof.
  intros W HC H1 WS HS. unfold impl_innerprod_t_sp.
  set (Us := tfactors T) in *. set (cs := dshape (tcore T)) in *.
  assert (HN : length (tshape T) = length Us) by (unfold tshape; now rewrite map_length).
  destruct (size (tshape T) <? size cs).
  - destruct (impl_full_t_correct V v0 v1 vadd vmul vsub vopp Vring T W HC) as (S1 & W1 & D1).
    rewrite (impl_innerprod_sp_dense_correct V v0 v1 vadd vmul vsub vopp Vring isz S _ WS).
    rewrite HS. rewrite (spec_innerprod_comm V v0 v1 vadd vmul vsub vopp Vring).
    unfold spec_innerprod. apply sum_over_ext. intros i Hi. apply in_allsubs in Hi. now rewrite D1.
  - assert (HF : Forall (fun p : nat * (nat * @matrix V) => fst p < length (sshape S)) (all_modes cs Us)).
    { apply (all_modes_range V). rewrite HS. exact HN. }
    destruct (all_modes cs Us) as [|[n [J U]] r] eqn:EA.
    { exfalso. unfold all_modes in EA. apply (f_equal (@length _)) in EA. rewrite !combine_length, seq_length in EA. fold cs in HC.
      cbn [length] in EA. lia. }
    destruct (impl_ttm_sp_list_correct V v0 v1 vadd vmul vsub vopp Vring isz S n J U r true WS HF) as (S1 & W1 & D1).
    rewrite <- EA in *. rewrite HS in S1, D1. rewrite (ttm_all_shape V Us cs (tshape T) HC HN) in S1, D1.
    rewrite (impl_innerprod_dense_correct V v0 vadd vmul _ (tcore T) W1 W) by exact S1.
    rewrite S1. unfold spec_innerprod.
    transitivity (So (allsubs cs) (fun c => So (allsubs (tshape T)) (fun a => den_sp v0 S a * tp Us a c * den (tcore T) c))).
    { apply sum_over_ext. intros c Hc. apply in_allsubs in Hc. rewrite D1 by exact Hc.
      rewrite (ttm_all V v0 v1 vadd vmul vsub vopp Vring); auto.
      - unfold cT. now rewrite (sum_over_scale_r _ _ _ _ _ _ _ Vring).
      - apply inb_length in Hc. fold cs in Hc. lia. }
    rewrite (sum_over_swap _ _ _ _ _ _ _ Vring). apply sum_over_ext. intros a Ha. apply in_allsubs in Ha.
    unfold den_t. rewrite Ha. fold cs Us. rewrite <- (sum_over_scale_r _ _ _ _ _ _ _ Vring).
    apply sum_over_ext. intros c _. ring.
Qed.
End P.
