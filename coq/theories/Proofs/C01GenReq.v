(* Proofs/C01GenReq.v — fourth wave: the matricisation REQUEST theorems stated over the translator-generated gather_wrap_dims.
   tensor.to_tenmat / sptensor.to_sptenmat call pyttb_utils.gather_wrap_dims(ndims, rdims, cdims, cdims_cyclic) and then permute /
   reshape (dense) or compute per-side linear indices (sparse). Gen/GenUtils2.v holds gather_wrap_dims GENERATED from the current
   pyttb_utils.py. Here: for every admissible request (rdims only, cdims only, both, fc / bc / t) on a well-formed dense tensor,
   the GENERATED function answers Ok (r, c) with (r, c) an ordered partition of the modes, the tenmat built along (r, c) has the
   position law and converts back to the identical tensor; the same for sparse tensors; and a request the generated function
   rejects gives no tenmat / sptenmat in the model either. *)
From Coq Require Import List ZArith Arith Bool Lia.
From PV Require Import Base.Index Base.Perm Np.Array Model.Sparse Model.Repr Model.C07Ops Model.C01Conv
  Np.NpZ Np.NpZ2 Gen.GenUtils2 Proofs.NpZProofs Proofs.C01Proofs Proofs.C01GenBridge.
Import ListNotations.
Local Open Scope nat_scope.

Section Req.
Context {V : Type} (v0 : V) (isz : V -> bool).

Notation gen_gwd N rd cd cy :=
  (GenUtils2.gather_wrap_dims (Z.of_nat N) (option_map zv rd) (option_map zv cd) (option_map cyc_gen cy)).

Theorem to_tenmat_request_generated (T : dense V) rd cd cy : wf_dense T -> request_ok (length (dshape T)) rd cd ->
  exists r c M, gen_gwd (length (dshape T)) rd cd cy = Ok (zv r, zv c) /\ is_perm (r ++ c) (length (dshape T)) /\
    to_tenmat_req v0 T rd cd cy = Some M /\ to_tenmat v0 T r c = Some M /\
    tm_r M = r /\ tm_c M = c /\ tm_tshape M = dshape T /\
    wf_dense (tm_data M) /\ dshape (tm_data M) = [size (pick 0 r (dshape T)); size (pick 0 c (dshape T))] /\
    (forall i, inb (dshape T) i = true -> den_tenmat v0 M i = den_dense v0 T i) /\
    tenmat_to_tensor v0 M = T.
Proof.
  intros W Hreq.
  destruct (gather_wrap_dims_partition (length (dshape T)) rd cd cy Hreq) as (r & c & Eg & Hp & _).
  destruct (to_tenmat_correct v0 T r c W Hp) as (M & EM & Er & Ec & Ets & WM & HsM & HdM & Hback).
  exists r, c, M. rewrite gather_wrap_dims_generated, Eg. split; [reflexivity|]. split; [exact Hp|].
  split; [unfold to_tenmat_req; now rewrite Eg|]. split; [exact EM|].
  repeat (split; [assumption|]). split; [|exact Hback]. intros i Hi. exact (proj2 (HdM i Hi)).
Qed.

Theorem to_sptenmat_request_generated (S : sparse V) rd cd cy : request_ok (length (sshape S)) rd cd ->
  Forall (fun j => inb (sshape S) j = true) (ssubs S) ->
  exists r c M, gen_gwd (length (sshape S)) rd cd cy = Ok (zv r, zv c) /\ is_perm (r ++ c) (length (sshape S)) /\
    to_sptenmat_req S rd cd cy = Some M /\ to_sptenmat S r c = Some M /\
    stm_r M = r /\ stm_c M = c /\ stm_tshape M = sshape S /\ stm_vals M = svals S /\ length (stm_subs M) = nnz S /\
    (wf_sp isz S -> wf_sp isz (stm_sp M)) /\
    (forall i, inb (sshape S) i = true -> den_sptenmat v0 M i = den_sp v0 S i) /\
    sptenmat_to_sptensor M = S.
Proof.
  intros Hreq Hb.
  destruct (gather_wrap_dims_partition (length (sshape S)) rd cd cy Hreq) as (r & c & Eg & Hp & _).
  destruct (to_sptenmat_correct v0 isz S r c Hp Hb) as (M & EM & Er & Ec & Ets & Ev & En & _ & Hwf & Hden & _ & Hback).
  exists r, c, M. rewrite gather_wrap_dims_generated, Eg. split; [reflexivity|]. split; [exact Hp|].
  split; [unfold to_sptenmat_req; now rewrite Eg|]. split; [exact EM|].
  repeat (split; [assumption|]). exact Hback.
Qed.

(* a request the GENERATED function rejects yields no object in the model (and conversely) *)
Theorem request_rejected_generated (T : dense V) (S : sparse V) rd cd cy :
  (gen_gwd (length (dshape T)) rd cd cy = Err <-> C01Conv.gather_wrap_dims (length (dshape T)) rd cd cy = None) /\
  (gen_gwd (length (dshape T)) rd cd cy = Err -> to_tenmat_req v0 T rd cd cy = None) /\
  (gen_gwd (length (sshape S)) rd cd cy = Err -> to_sptenmat_req S rd cd cy = None).
Proof.
  assert (H : forall N, gen_gwd N rd cd cy = Err <-> C01Conv.gather_wrap_dims N rd cd cy = None).
  { intros N. rewrite gather_wrap_dims_generated. destruct (C01Conv.gather_wrap_dims N rd cd cy) as [[r c]|]; split; congruence. }
  split; [apply H|]. split; intros E; apply H in E.
  - unfold to_tenmat_req. now rewrite E.
  - unfold to_sptenmat_req. now rewrite E.
Qed.
End Req.

Example c01_gen_req_example :
  let T := mkDense [2; 3; 2] [1; 2; 3; 4; 5; 6; 7; 8; 9; 10; 11; 12]%Z in
  GenUtils2.gather_wrap_dims 3%Z (Some [1%Z]) None (Some CycBC) = Ok ([1%Z], [0; 2]%Z) /\
  option_map (fun M => (tm_r M, tm_c M, ddata (tm_data M))) (to_tenmat_req 0%Z T (Some [1]) None (Some C01Conv.CycBC))
    = Some ([1], [0; 2], [1; 3; 5; 2; 4; 6; 7; 9; 11; 8; 10; 12]%Z) /\
  GenUtils2.gather_wrap_dims 3%Z None None None = Err /\ to_tenmat_req 0%Z T None None None = None.
Proof. repeat split; vm_compute; reflexivity. Qed.
