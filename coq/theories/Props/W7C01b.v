(* Props/W7C01b.v — sptenmat.__init__ (argument checks, summation of duplicates, stored fields) as GENERATED from the pyttb source
   tree under test on every run (Gen/GenSptenmat7.v, translator option "m7"): bridge to the hand reference of Model/W7Sptenmat.v
   and laws.  Only statements, `exact`, Print Assumptions. *)
From Coq Require Import List ZArith Bool.
From PV Require Import Np.NpZ Np.NpZ2 Np.NpZ3 Np.NpZ7 Np.NpZ7b Gen.GenUtils Gen.GenUtils2 Gen.GenSptenmat7
  Model.W7Tenmat Model.W7Sptenmat Proofs.W7Sptenmat.
Import ListNotations.
Local Open Scope Z_scope.

Theorem C01_gen_sptenmat_init_bridge : forall (subs : option mat) (vals rdims cdims : option vec) (tshape : vec) (copy : bool),
  sptenmat_init subs vals rdims cdims tshape copy = H_sptenmat_init subs vals rdims cdims tshape copy.
Proof. exact sptenmat_init_bridge. Qed.
Print Assumptions C01_gen_sptenmat_init_bridge.

(* neither rdims nor cdims: the empty sptenmat, and only without subs and vals *)
Theorem C01_gen_sptenmat_init_empty : forall (subs : option mat) (vals : option vec) (tshape : vec) (copy : bool),
  sptenmat_init subs vals None None tshape copy =
  if negb (is_some subs) && negb (is_some vals) then Ok H_stm_empty else Err.
Proof. exact gen_sptenmat_init_empty. Qed.
Print Assumptions C01_gen_sptenmat_init_empty.

(* accepted: tshape kept, rdims ++ cdims a permutation of the modes, every row / column index below the size of its side *)
Theorem C01_gen_sptenmat_init_accept : forall (subs : option mat) (vals rdims cdims : option vec) (tshape : vec) (copy : bool) (M : stmz),
  is_some rdims || is_some cdims = true ->
  sptenmat_init subs vals rdims cdims tshape copy = Ok M ->
  stm7_tshape M = tshape /\
  np_sort (stm7_rdims M ++ stm7_cdims M) = np_arange 0 (zlen tshape) /\
  H_side_ok (match subs with None => [[]] | Some s => s end) tshape (stm7_rdims M) 0 = true /\
  H_side_ok (match subs with None => [[]] | Some s => s end) tshape (stm7_cdims M) 1 = true.
Proof. exact gen_sptenmat_init_accept. Qed.
Print Assumptions C01_gen_sptenmat_init_accept.

Theorem C01_gen_sptenmat_init_nocopy : forall (subs : option mat) (vals rdims cdims : option vec) (tshape : vec) (M : stmz),
  is_some rdims || is_some cdims = true ->
  zlen (match vals with None => [] | Some v => v end) <> 0 ->
  sptenmat_init subs vals rdims cdims tshape false = Ok M ->
  stm7_subs M = (match subs with None => [[]] | Some s => s end) /\
  stm7_vals M = (match vals with None => [] | Some v => v end).
Proof. exact gen_sptenmat_init_nocopy. Qed.
Print Assumptions C01_gen_sptenmat_init_nocopy.

Theorem C01_gen_sptenmat_init_out_of_range_rejected : forall (subs : option mat) (vals rdims cdims : option vec) (tshape : vec)
    (copy : bool) (s : mat),
  subs = Some s -> np_size2 s <> 0 -> is_some rdims || is_some cdims = true ->
  (forall r c, gather_wrap_dims (zlen tshape) rdims cdims None = Ok (r, c) ->
     np_take_ok tshape r = true -> (zprod (np_take 0 tshape r) >? np7_max (np7_col s 0)) = false) ->
  sptenmat_init subs vals rdims cdims tshape copy = Err.
Proof. exact gen_sptenmat_init_out_of_range_rejected. Qed.
Print Assumptions C01_gen_sptenmat_init_out_of_range_rejected.
