(* Proofs/C02SparseProofs.v — sparse inner product / norm equal the spec on den_sp (sum over stored entries = sum over
   all subscripts), and Kruskal single-mode ttv.  All shapes, all values of a commutative ring. *)
From Coq Require Import List Arith Lia Bool Permutation Ring.
From PV Require Import Base.Index Base.Perm Base.Sum Np.Array Model.Sparse Model.Repr Model.C02Spec Model.C02Dense Model.C02Sparse
                       Proofs.C02DenseProofs.
Import ListNotations.

Section P.
Variable V : Type.
Variables (v0 v1 : V) (vadd vmul vsub : V -> V -> V) (vopp : V -> V).
Hypothesis Vring : ring_theory v0 v1 vadd vmul vsub vopp (@eq V).
Add Ring Vr3 : Vring.
Variable isz : V -> bool.

Local Notation "x + y" := (vadd x y).
Local Notation "x * y" := (vmul x y).
Local Notation So := (sum_over v0 vadd).

(* Σ_i den(i) g(i) over all subscripts = Σ over the stored entries, for distinct in-bounds stored subscripts *)
Lemma sum_last_match (s : shape) (g : idx -> V) : forall es : list (idx * V),
  NoDup (map fst es) -> (forall e, In e es -> inb s (fst e) = true) ->
  So (allsubs s) (fun i => last_match i es v0 * g i) = So es (fun e => snd e * g (fst e)).
Proof.
  induction es as [|[j v] r IH]; intros Hn Hb.
  - cbn [last_match]. rewrite sum_over_nil. apply (sum_over_zero _ _ _ _ _ _ _ Vring). intros; ring.
  - cbn [map fst] in Hn. inversion Hn as [|? ? Hj Hn']; subst.
    rewrite sum_over_cons. cbn [fst snd].
    rewrite <- IH by (auto; intros; apply Hb; cbn; auto).
    assert (Hjr : forall e, In e r -> fst e <> j).
    { intros e He E. apply Hj. rewrite <- E. now apply in_map. }
    assert (E : forall i, In i (allsubs s) ->
                last_match i ((j, v) :: r) v0 * g i =
                (if idx_eqb i j then v * g j else v0) + last_match i r v0 * g i).
    { intros i _. cbn [last_match]. destruct (idx_eqb i j) eqn:Eij.
      - apply idx_eqb_spec in Eij. subst i. rewrite !last_match_notin by auto. ring.
      - ring. }
    rewrite (sum_over_ext _ _ _ _ _ _ E). rewrite (sum_over_add _ _ _ _ _ _ _ Vring). f_equal.
    rewrite (sum_over_single _ _ _ _ _ _ _ Vring (allsubs s) j).
    + now rewrite idx_eqb_refl.
    + apply allsubs_NoDup.
    + apply in_allsubs. apply (Hb (j, v)). cbn; auto.
    + intros a _ Ha. now rewrite idx_eqb_neq.
Qed.

Lemma sparse_sum (S : sparse V) (g : idx -> V) : wf_sp isz S ->
  So (allsubs (sshape S)) (fun i => den_sp v0 S i * g i) = So (entries S) (fun e => snd e * g (fst e)).
Proof.
  intros (HL & Hn & Hb & _). unfold den_sp. apply sum_last_match.
  - now rewrite map_fst_entries.
  - intros [j v] He. cbn. unfold entries in He. apply in_combine_l in He.
    rewrite Forall_forall in Hb. auto.
Qed.

Theorem impl_innerprod_sp_dense_correct (S : sparse V) (T : dense V) : wf_sp isz S ->
  impl_innerprod_sp_dense v0 vadd vmul S T =
  spec_innerprod v0 vadd vmul (den_sp v0 S) (den_dense v0 T) (sshape S).
Proof.
  intros W. unfold impl_innerprod_sp_dense, spec_innerprod. rewrite (sparse_sum S _ W).
  apply sum_over_ext. intros; ring.
Qed.

Theorem impl_innerprod_sp_sp_correct (A B : sparse V) : wf_sp isz A -> wf_sp isz B -> sshape A = sshape B ->
  impl_innerprod_sp_sp v0 vadd vmul A B =
  spec_innerprod v0 vadd vmul (den_sp v0 A) (den_sp v0 B) (sshape A).
Proof.
  intros WA WB Hs. unfold impl_innerprod_sp_sp, spec_innerprod. destruct (nnz A <? nnz B).
  - rewrite (sparse_sum A _ WA). apply sum_over_ext. intros; ring.
  - rewrite Hs. rewrite <- (sparse_sum B (den_sp v0 A) WB). apply sum_over_ext. intros; ring.
Qed.

Theorem impl_normsq_sp_correct (S : sparse V) : wf_sp isz S ->
  impl_normsq_sp v0 vadd vmul S = spec_normsq v0 vadd vmul (den_sp v0 S) (sshape S).
Proof.
  intros W. unfold impl_normsq_sp, spec_normsq, spec_innerprod. rewrite (sparse_sum S _ W).
  apply sum_over_ext. intros [j v] He. cbn [fst snd]. now rewrite (den_sp_in v0 isz S j v W He).
Qed.

(* ---------------------------------------------------------------- Kruskal: ttv in one mode *)

Local Notation Sn := (sum_n v0 vadd).
Local Notation kp := (kprod v0 v1 vmul).

Lemma remove_at_cons' {A} n (x : A) l : remove_at (S n) (x :: l) = x :: remove_at n l.
Proof. reflexivity. Qed.

Lemma insert_at_cons n k x (i : idx) : insert_at (S n) k (x :: i) = x :: insert_at n k i.
Proof. reflexivity. Qed.

Lemma map_remove_at {A B} (f : A -> B) n l : map f (remove_at n l) = remove_at n (map f l).
Proof. unfold remove_at. now rewrite map_app, firstn_map, skipn_map. Qed.

Lemma kprod_insert : forall (As : list (@matrix V)) n k i' r, n < length As -> length i' = length (remove_at n As) ->
  kp As (insert_at n k i') r = mget v0 (nth n As []) k r * kp (remove_at n As) i' r.
Proof.
  induction As as [|A As IH]; intros n k i' r Hn HL; cbn [length] in Hn; [lia|].
  destruct n as [|n].
  - unfold insert_at, remove_at. cbn [firstn skipn app nth kprod]. reflexivity.
  - rewrite remove_at_cons' in *. destruct i' as [|x i']; [discriminate|].
    rewrite insert_at_cons. cbn [kprod nth]. rewrite IH by (cbn in HL; lia). ring.
Qed.

Lemma inb_insert : forall (s : shape) n k i', n < length s ->
  inb s (insert_at n k i') = (k <? nth n s 0) && inb (remove_at n s) i'.
Proof.
  induction s as [|d s IH]; intros n k i' Hn; cbn [length] in Hn; [lia|].
  destruct n as [|n].
  - unfold insert_at, remove_at. cbn [firstn skipn app nth inb]. reflexivity.
  - rewrite remove_at_cons'. destruct i' as [|x i'].
    + unfold insert_at. cbn [firstn skipn app]. destruct s as [|d2 s]; [cbn [length] in Hn; lia|].
      cbn [inb]. now rewrite !andb_false_r.
    + rewrite insert_at_cons. cbn [inb nth]. rewrite IH by lia.
      destruct (x <? d), (k <? nth n s 0); reflexivity.
Qed.

Theorem impl_ttv_k1_correct (K : ktensor V) n v i' :
  n < length (kfactors K) -> inb (remove_at n (kshape K)) i' = true ->
  den_k v0 v1 vadd vmul (impl_ttv_k1 v0 vadd vmul K n v) i' =
  spec_ttv1 v0 vadd vmul (den_k v0 v1 vadd vmul K) (kshape K) n v i'.
Proof.
  intros Hn Hi. unfold den_k at 1. unfold impl_ttv_k1. cbn [kfactors kweights krank kshape].
  unfold kshape at 1. cbn [kfactors]. unfold nrows. rewrite map_remove_at.
  change (inb (remove_at n (map (fun A : @matrix V => length A) (kfactors K))) i')
    with (inb (remove_at n (kshape K)) i'). rewrite Hi.
  unfold krank at 1. cbn [kweights]. rewrite map_length, seq_length. unfold spec_ttv1.
  assert (HIn : nth n (kshape K) 0 = length (nth n (kfactors K) [])).
  { unfold kshape, nrows. change 0 with (length (@nil (list V))). now rewrite map_nth. }
  set (R := krank K). set (A := nth n (kfactors K) []). set (rest := remove_at n (kfactors K)).
  assert (HLi : length i' = length rest).
  { apply inb_length in Hi. unfold rest. rewrite Hi. unfold kshape. rewrite <- map_remove_at. now rewrite map_length. }
  (* right-hand side: expand den_k at every k, swap the two sums *)
  transitivity (Sn (nth n (kshape K) 0) (fun k =>
                 Sn R (fun r => (nth r (kweights K) v0 * (mget v0 A k r * kp rest i' r)) * nth k v v0))).
  2:{ apply sum_n_ext. intros k Hk. unfold den_k.
      rewrite inb_insert by (unfold kshape; now rewrite map_length).
      rewrite Hi. apply Nat.ltb_lt in Hk. rewrite Hk. cbn [andb]. fold R.
      unfold sum_n. rewrite <- (sum_over_scale_r _ _ _ _ _ _ _ Vring). apply sum_over_ext. intros r _.
      rewrite kprod_insert by auto. reflexivity. }
  unfold sum_n. rewrite (sum_over_swap _ _ _ _ _ _ _ Vring).
  apply sum_over_ext. intros r Hr. apply in_seq in Hr.
  set (F := fun r0 => nth r0 (kweights K) v0 * atv v0 vadd vmul A v r0).
  rewrite (nth_indep _ v0 (F 0)) by (rewrite map_length, seq_length; lia).
  rewrite (map_nth F). rewrite seq_nth by lia. unfold F, atv. cbn [Nat.add].
  rewrite HIn. fold A. unfold sum_n.
  rewrite <- (sum_over_scale_l _ _ _ _ _ _ _ Vring), <- (sum_over_scale_r _ _ _ _ _ _ _ Vring).
  apply sum_over_ext. intros k _. ring.
Qed.

(* ---------------------------------------------------------------- representation independence (instance) *)
Theorem repr_indep_innerprod (S : sparse V) (X T : dense V) :
  wf_sp isz S -> wf_dense X -> wf_dense T -> sshape S = dshape X -> dshape X = dshape T ->
  (forall i, den_sp v0 S i = den_dense v0 X i) ->
  impl_innerprod_sp_dense v0 vadd vmul S T = impl_innerprod_dense v0 vadd vmul X T.
Proof.
  intros WS WX WT H1 H2 Hden.
  rewrite (impl_innerprod_sp_dense_correct S T WS).
  rewrite (impl_innerprod_dense_correct V v0 vadd vmul X T WX WT H2).
  unfold spec_innerprod. rewrite H1. apply sum_over_ext. intros i _. now rewrite Hden.
Qed.

End P.
