(* Props/C10W5k.v — wave 5: the mode-product kernel contracts of Props/C10W5.v (k_ttm_excl X U n true = excl X U n; k_ttm_core Z U n true =
   Z x_n U_n^T) are the REAL instance of the value-generic model Model/C10KernelCheck.v (excl_g, core_g) whose Qc instance the correspondence op
   `tals_kernels` compares with pyttb's tensor.ttm exactly as tucker_als calls it (exclude_dims=n / single mode n, transpose=True, list of factors,
   entry n = None in the first sweep).  Only statements, `exact`, Print Assumptions. *)
From Coq Require Import List Arith Bool Reals.
From PV Require Import Base.Index Np.Array Np.NpR Model.Sparse Model.Repr Model.C10Tucker Model.C10KernelCheck Proofs.C10GenT Proofs.C10Kernel.
Import ListNotations.

Theorem C10_excl_is_model : forall (X : dense R) (Us : list (@matrix R)) (n : nat), excl X Us n = excl_g 0%R Rplus Rmult X Us n.
Proof. exact excl_is_model. Qed.

Theorem C10_core_is_model : forall (Z : dense R) (Us : list (@matrix R)) (n : nat),
  ttm 0%R Rplus Rmult Z n (mtrans 0%R (nth n Us []) (nrows (nth n Us [])) (ncols (nth n Us []))) = core_g 0%R Rplus Rmult Z Us n.
Proof. exact core_is_model. Qed.
Print Assumptions C10_excl_is_model.
Print Assumptions C10_core_is_model.
