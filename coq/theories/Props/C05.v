(* Props/C05.v — no mutation of operands, no aliasing.  Only statements, `exact`, Print Assumptions.
   Level "other": these theorems hold for every store, object, value type and write history, but their
   hypothesis `disjoint (locs r) (locs a)` is MEASURED per (operation, parameter class) on pyttb by
   tools/props/c05.py (np.shares_memory + cross-writes), not proved for pyttb's code. *)
From Coq Require Import List Arith Bool.
From Coq Require Import ZArith.
From PV Require Import Model.C05Store Model.C05View Model.C05View2 Model.C05Frame Model.C05ViewZ.
Import ListNotations.

Section C05.
Context {V : Type}.

(* writes through r are invisible through a disjoint object a ... *)
Theorem C05_frame : forall (s : @store V) (r a : obj) (h : list (@wr V)),
  disjoint (locs r) (locs a) -> (forall w, In w h -> In (wloc w) (locs r)) ->
  observe (run s h) a = observe s a.
Proof. exact frame. Qed.

(* ... and symmetrically, writes through a are invisible through r *)
Theorem C05_frame_sym : forall (s : @store V) (r a : obj) (h : list (@wr V)),
  disjoint (locs r) (locs a) -> (forall w, In w h -> In (wloc w) (locs a)) ->
  observe (run s h) r = observe s r.
Proof. exact frame_sym. Qed.

(* any interleaved history that never writes a location of a leaves a unchanged *)
Theorem C05_frame_any : forall (s : @store V) (a : obj) (h : list (@wr V)),
  (forall w, In w h -> ~ In (wloc w) (locs a)) -> observe (run s h) a = observe s a.
Proof. exact frame_any. Qed.

(* a documented in-place operation, modelled as a write history through its receiver, changes no location
   outside the receiver, and changes no buffer length *)
Theorem C05_inplace_footprint : forall (h : list (@wr V)) (s : store) (r : obj),
  (forall w, In w h -> In (wloc w) (locs r)) -> forall l, ~ In l (locs r) -> run s h l = s l.
Proof. exact inplace_footprint. Qed.

Theorem C05_inplace_lengths : forall (h : list (@wr V)) (s : store) l, length (run s h l) = length (s l).
Proof. exact run_length. Qed.

(* copy(): only fresh locations, same contents, every existing object unchanged *)
Theorem C05_copy : forall (h : @heap V) (o : obj),
  (forall l, l < hnext h -> ~ In l (locs (snd (copy h o)))) /\
  (forall a, wf_obj h a -> disjoint (locs (snd (copy h o))) (locs a)) /\
  observe (hst (fst (copy h o))) (snd (copy h o)) = observe (hst h) o /\
  (forall a, wf_obj h a -> observe (hst (fst (copy h o))) a = observe (hst h) a) /\
  wf_obj (fst (copy h o)) (snd (copy h o)).
Proof. exact copy_spec. Qed.

(* copy followed by any writes through the copy: every pre-existing object (the original included) is unchanged;
   any writes through a pre-existing object: the copy still shows the original's old contents *)
Theorem C05_copy_independent : forall (h : @heap V) (o a : obj) (ws : list (@wr V)),
  wf_obj h a -> (forall w, In w ws -> In (wloc w) (locs (snd (copy h o)))) ->
  observe (run (hst (fst (copy h o))) ws) a = observe (hst h) a.
Proof. exact copy_independent. Qed.

Theorem C05_copy_independent_sym : forall (h : @heap V) (o a : obj) (ws : list (@wr V)),
  wf_obj h a -> (forall w, In w ws -> In (wloc w) (locs a)) ->
  observe (run (hst (fst (copy h o))) ws) (snd (copy h o)) = observe (hst h) o.
Proof. exact copy_independent_sym. Qed.
End C05.

(* the measured-row checker used by the correspondence: a passing row has the bits the property demands *)
Theorem C05_row_check_sound : forall r, row_check r = true ->
  r_unchanged r = true /\
  (r_kind r <> KNoCopy -> r_disjoint r = true /\ r_vis_result r = false /\ r_vis_operand r = false) /\
  (r_kind r = KNoCopy -> r_extra_ok r = true).
Proof. exact row_check_sound. Qed.

Theorem C05_disjointb_spec : forall l1 l2, disjointb l1 l2 = true <-> disjoint l1 l2.
Proof. exact disjointb_spec. Qed.

Print Assumptions C05_frame.
Print Assumptions C05_frame_sym.
Print Assumptions C05_frame_any.
Print Assumptions C05_inplace_footprint.
Print Assumptions C05_inplace_lengths.
Print Assumptions C05_copy.
Print Assumptions C05_copy_independent.
Print Assumptions C05_copy_independent_sym.
Print Assumptions C05_row_check_sound.
Print Assumptions C05_disjointb_spec.

(* ==== numpy view model (Model/C05View.v): which numpy operations allocate, which alias ======================== *)
Section C05View.
Context {V : Type}.

(* ndarray.copy (either order), advanced indexing and computed results live in a buffer newer than every existing
   array's, and leave every existing buffer as it was *)
Theorem C05_view_copy_fresh : forall (h : @heap V) a,
  (ext h (fst (copyC h a)) /\ fresh_res h (fst (copyC h a)) (snd (copyC h a))) /\
  (ext h (fst (copyF h a)) /\ fresh_res h (fst (copyF h a)) (snd (copyF h a))).
Proof. exact copy_fresh_both. Qed.

(* ... and a copy shows, element for element, what the original showed *)
Theorem C05_view_copy_contents : forall (h : @heap V) a, inb (hst h) a ->
  read (hst (fst (copyC h a))) (snd (copyC h a)) = read (hst h) a /\
  readF (hst (fst (copyF h a))) (snd (copyF h a)) = readF (hst h) a.
Proof. exact copy_contents_both. Qed.

Theorem C05_view_fancy_fresh : forall (h : @heap V) a s ks,
  ext h (fst (fancy h a s ks)) /\ fresh_res h (fst (fancy h a s ks)) (snd (fancy h a s ks)).
Proof. exact fancy_fresh. Qed.

Theorem C05_view_fresh_not_old : forall (h h' : @heap V) r a, fresh_res h h' r -> wf_arr h a -> abuf r <> abuf a.
Proof. exact fresh_not_old. Qed.

(* np.reshape(order="F"): alias of the argument in an untouched heap, or fresh; a view whenever the shape is unchanged
   or the argument is F-contiguous *)
Theorem C05_view_reshape : forall (h : @heap V) a s,
  alias_or_fresh h a (reshapeF h a s) /\
  ((list_eqb s (ashape a) = true \/ is_fcontig a = true) -> fst (reshapeF h a s) = h /\ abuf (snd (reshapeF h a s)) = abuf a).
Proof. exact reshapeF_spec. Qed.

(* np.asfortranarray returns its argument iff that is already F-contiguous *)
Theorem C05_view_asfortran_alias_iff : forall (h : @heap V) a, wf_arr h a ->
  (abuf (snd (asfortran h a)) = abuf a <-> is_fcontig a = true).
Proof. exact asfortran_alias_iff. Qed.

(* a result in buffers disjoint from the operands' may be written at will: no operand array shows a difference *)
Theorem C05_view_read_frame : forall (s : @store V) (opds res : list arr) (ws : list (@wr V)),
  aliases opds res = false -> (forall w, In w ws -> In (wloc w) (map abuf res)) ->
  forall a, In a opds -> read (run s ws) a = read s a.
Proof. exact read_frame. Qed.

(* ---- may-alias verdicts of the transliterated pyttb return paths, for all heaps / arrays / parameters ---------- *)
Theorem C05_tensor_copy_verdict : forall (h : @heap V) X, wf_arr h X -> aliases [X] [snd (tensor_copy h X)] = false.
Proof. exact tensor_copy_verdict. Qed.
Theorem C05_tensor_permute_verdict : forall (h : @heap V) X p, wf_arr h X -> aliases [X] [snd (tensor_permute h X p)] = false.
Proof. exact tensor_permute_verdict. Qed.
Theorem C05_tensor_reshape_verdict : forall (h : @heap V) X s, wf_arr h X -> aliases [X] [snd (tensor_reshape h X s)] = false.
Proof. exact tensor_reshape_verdict. Qed.
Theorem C05_tensor_squeeze_verdict : forall (h : @heap V) X, wf_arr h X -> aliases [X] [snd (tensor_squeeze h X)] = false.
Proof. exact tensor_squeeze_verdict. Qed.
Theorem C05_tensor_getitem_verdict : forall (h : @heap V) X k shape ks, wf_arr h X ->
  aliases [X] [snd (tensor_getitem_basic h X k)] = false /\ aliases [X] [snd (tensor_getitem_fancy h X shape ks)] = false.
Proof. exact tensor_getitem_verdict. Qed.
Theorem C05_tensor_init_nocopy_verdict : forall (h : @heap V) d, wf_arr h d ->
  aliases [d] [snd (tensor_init h d (ashape d) false)] = is_fcontig d.
Proof. exact tensor_init_nocopy_verdict. Qed.
Theorem C05_tensor_to_tenmat_copy_verdict : forall (h : @heap V) X dims r c, wf_arr h X ->
  aliases [X] [snd (tensor_to_tenmat h X dims r c true)] = false.
Proof. exact tensor_to_tenmat_copy_verdict. Qed.
Theorem C05_tensor_to_tenmat_nocopy_verdict : forall (h : @heap V) X dims r c, wf_arr h X ->
  aliases [X] [snd (tensor_to_tenmat h X dims r c false)] = is_fcontig (v_transpose X dims).
Proof. exact tensor_to_tenmat_nocopy_verdict. Qed.
Theorem C05_tenmat_getitem_verdict : forall (h : @heap V) D k shape ks, wf_arr h D ->
  aliases [D] [snd (tenmat_getitem_basic h D k)] = false /\ aliases [D] [snd (tenmat_getitem_fancy h D shape ks)] = false.
Proof. exact tenmat_getitem_verdict. Qed.
Theorem C05_sptensor_find_verdict : forall (h : @heap V) subs vals, wf_arr h subs -> wf_arr h vals ->
  aliases [subs; vals] (snd (sptensor_find h subs vals)) = false.
Proof. exact sptensor_find_verdict. Qed.
Theorem C05_sptensor_copy_verdict : forall (h : @heap V) subs vals, wf_arr h subs -> wf_arr h vals ->
  aliases [subs; vals] (snd (sptensor_copy h subs vals)) = false.
Proof. exact sptensor_copy_verdict. Qed.
Theorem C05_sptensor_init_nocopy_verdict : forall (h : @heap V) subs vals,
  aliases [subs; vals] (snd (sptensor_init h subs vals false)) = true.
Proof. exact sptensor_init_nocopy_verdict. Qed.
Theorem C05_tenmat_copy_verdict : forall (h : @heap V) D, wf_arr h D -> aliases [D] [snd (tenmat_copy h D)] = false.
Proof. exact tenmat_copy_verdict. Qed.
Theorem C05_tenmat_init_nocopy_verdict : forall (h : @heap V) d, wf_arr h d ->
  aliases [d] [snd (tenmat_init h d false)] = is_fcontig d.
Proof. exact tenmat_init_nocopy_verdict. Qed.
Theorem C05_ktensor_copy_verdict : forall (h : @heap V) fms w, (forall a, In a (w :: fms) -> wf_arr h a) ->
  aliases (w :: fms) (snd (ktensor_copy h fms w)) = false.
Proof. exact ktensor_copy_verdict. Qed.
Theorem C05_ktensor_extract_verdict : forall (h : @heap V) fms w n ks, (forall a, In a (w :: fms) -> wf_arr h a) ->
  aliases (w :: fms) (snd (ktensor_extract h fms w n ks)) = false.
Proof. exact ktensor_extract_verdict. Qed.
Theorem C05_ktensor_tolist_verdict : forall (h : @heap V) fms w u, (forall a, In a (w :: fms) -> wf_arr h a) ->
  aliases (w :: fms) (snd (ktensor_tolist h fms u)) = false.
Proof. exact ktensor_tolist_verdict. Qed.
Theorem C05_ktensor_init_nocopy_factors_verdict : forall (h : @heap V) fms w, (forall a, In a (w :: fms) -> wf_arr h a) -> fms <> [] ->
  aliases fms (tl (snd (ktensor_init h fms w false))) = forallb is_fcontig fms.
Proof. exact ktensor_init_nocopy_factors_verdict. Qed.
Theorem C05_khatrirao_single_verdict : forall (h : @heap V) A, wf_arr h A -> aliases [A] [snd (khatrirao_single h A)] = false.
Proof. exact khatrirao_single_verdict. Qed.
End C05View.

(* transpose, basic slicing, integer indexing and squeeze are windows onto the same buffer *)
Theorem C05_view_alias : forall a p k i j,
  abuf (v_transpose a p) = abuf a /\ abuf (v_slice a k) = abuf a /\ abuf (v_int a i j) = abuf a /\ abuf (v_squeeze a) = abuf a.
Proof. exact view_alias. Qed.

Print Assumptions C05_view_copy_fresh.
Print Assumptions C05_view_copy_contents.
Print Assumptions C05_view_fancy_fresh.
Print Assumptions C05_sptensor_copy_verdict.
Print Assumptions C05_sptensor_init_nocopy_verdict.
Print Assumptions C05_tenmat_copy_verdict.
Print Assumptions C05_tenmat_init_nocopy_verdict.
Print Assumptions C05_view_fresh_not_old.
Print Assumptions C05_view_reshape.
Print Assumptions C05_view_asfortran_alias_iff.
Print Assumptions C05_view_read_frame.
Print Assumptions C05_view_alias.
Print Assumptions C05_tensor_copy_verdict.
Print Assumptions C05_tensor_permute_verdict.
Print Assumptions C05_tensor_reshape_verdict.
Print Assumptions C05_tensor_squeeze_verdict.
Print Assumptions C05_tensor_getitem_verdict.
Print Assumptions C05_tensor_init_nocopy_verdict.
Print Assumptions C05_tensor_to_tenmat_copy_verdict.
Print Assumptions C05_tensor_to_tenmat_nocopy_verdict.
Print Assumptions C05_tenmat_getitem_verdict.
Print Assumptions C05_sptensor_find_verdict.
Print Assumptions C05_ktensor_copy_verdict.
Print Assumptions C05_ktensor_extract_verdict.
Print Assumptions C05_ktensor_tolist_verdict.
Print Assumptions C05_ktensor_init_nocopy_factors_verdict.
Print Assumptions C05_khatrirao_single_verdict.

(* non-vacuity of the view model: a 2x3 F-ordered matrix exF in buffer 0 of a heap with one buffer; its transpose exT
   (a C-ordered window on the same buffer); a row-strided window exS *)
Example C05_view_examples :
  is_fcontig exF = true /\ is_fcontig exT = false /\ is_ccontig exT = true /\ is_fcontig exS = false /\ is_ccontig exS = false /\
  addrsC exF = [0; 2; 4; 1; 3; 5] /\ addrsC exT = [0; 1; 2; 3; 4; 5] /\
  (* the no-copy constructor shares an F-ordered argument and copies the others *)
  aliases [exF] [snd (tensor_init (h0 1) exF [2; 3] false)] = true /\
  aliases [exT] [snd (tensor_init (h0 1) exT [3; 2] false)] = false /\
  aliases [exS] [snd (tensor_init (h0 1) exS [2; 3] false)] = false /\
  (* the copy made for the C-ordered argument holds the same elements, now F-ordered in a new buffer *)
  read (hst (fst (tensor_init (h0 1) exT [3; 2] false))) (snd (tensor_init (h0 1) exT [3; 2] false)) = read (hst (h0 1)) exT /\
  abuf (snd (tensor_init (h0 1) exT [3; 2] false)) = 1 /\
  inb (hst (h0 1)) exT /\
  (* permute with the identity order, reshape to the same shape, a full-range region read: all fresh *)
  aliases [exF] [snd (tensor_permute (h0 1) exF [0; 1])] = false /\
  aliases [exF] [snd (tensor_reshape (h0 1) exF [2; 3])] = false /\
  aliases [exF] [snd (tensor_getitem_basic (h0 1) exF [KSlice (0, 2, 1); KSlice (0, 3, 1)])] = false /\
  (* to_tenmat(copy=False) with all modes as rows in order shares; with the modes swapped it cannot *)
  aliases [exF] [snd (tensor_to_tenmat (h0 1) exF [0; 1] 6 1 false)] = true /\
  aliases [exF] [snd (tensor_to_tenmat (h0 1) exF [1; 0] 6 1 false)] = false /\
  (* a window is NOT independent: writing element (0,1) of the transposed window changes exF's element (1,0) *)
  read (run (hst (h0 1)) [(0, 1, 77)]) exF <> read (hst (h0 1)) exF.
Proof.
  vm_compute. repeat split; try reflexivity; try discriminate.
  intros k [H|H]; repeat (destruct H as [H|H]; [subst k; repeat constructor|]); destruct H.
Qed.

(* ---- non-vacuity: concrete instances ---------------------------------------------------- *)
(* store with three buffers; r = {0,1}, a = {2}; r and a disjoint; writing through r changes r, not a *)
(* ex_s / ex_r / ex_a / ex_h are defined at the end of Model/C05Store.v *)

Example C05_frame_example :
  disjointb (locs ex_r) (locs ex_a) = true /\
  observe (run ex_s ex_h) ex_r = [[1; 20; 30]; [40; 5]] /\
  observe (run ex_s ex_h) ex_a = [[6; 7; 8]].
Proof. repeat split; reflexivity. Qed.

(* an aliasing object (a view: shares location 1 with r) DOES see the write: the hypothesis is needed *)
Example C05_frame_needs_disjoint :
  let v := mkObj [1; 2] in
  disjointb (locs ex_r) (locs v) = false /\ observe (run ex_s ex_h) v <> observe ex_s v.
Proof. split; [reflexivity | discriminate]. Qed.

(* copy of r in a heap with next = 3: locations {3,4}, same contents; writing through the copy leaves r alone *)
Example C05_copy_example :
  let h := mkHeap ex_s 3 in
  let c := snd (copy h ex_r) in
  locs c = [3; 4] /\ observe (hst (fst (copy h ex_r))) c = [[1; 2; 3]; [4; 5]] /\
  observe (run (hst (fst (copy h ex_r))) [(3, 0, 77); (4, 1, 88)]) c = [[77; 2; 3]; [4; 88]] /\
  observe (run (hst (fst (copy h ex_r))) [(3, 0, 77); (4, 1, 88)]) ex_r = [[1; 2; 3]; [4; 5]].
Proof. repeat split; reflexivity. Qed.

(* the table checker: a clean pure row passes; a view-returning row (identity permute) fails; a no-copy
   construction may share but must not modify *)
Example C05_rows_example :
  row_check (mkRow KPure true true false false true) = true /\
  row_check (mkRow KPure true false true true true) = false /\
  row_check (mkRow KPure false true false false true) = false /\
  row_check (mkRow KInplace true true false false true) = true /\
  row_check (mkRow KInplace false true false false true) = false /\
  row_check (mkRow KNoCopy true false true true true) = true /\
  row_check (mkRow KNoCopy false false true true true) = false /\
  row_check (mkRow KNoCopy true false true true false) = false /\
  sim_visible true = false /\ sim_visible false = true.
Proof. repeat split; reflexivity. Qed.

(* ================================================================================================================
   wave 4: in-place writes THROUGH VIEWS (Model/C05Frame.v) and completeness of the table checker
   ================================================================================================================ *)
Section C05_views.
Context {V : Type}.

(* a write history through the window v (buffer abuf v, addresses cells v) changes no cell outside {abuf v} x cells v *)
Theorem C05_view_footprint : forall (s : @store V) (v : arr) (h : list (@wr V)),
  (forall w, In w h -> wloc w = abuf v /\ In (wpos w) (cells v)) ->
  forall l k, (l <> abuf v \/ ~ In k (cells v)) -> nth_error (run s h l) k = nth_error (s l) k.
Proof. exact view_footprint. Qed.

(* frame theorem for views: windows that are separated - different buffers, or the SAME buffer without a common cell
   (two rows, two disjoint slices of one array) - do not see each other's writes, whatever the history *)
Theorem C05_view_frame : forall (s : @store V) (v a : arr) (h : list (@wr V)),
  (abuf v <> abuf a \/ forall k, In k (cells v) -> ~ In k (cells a)) ->
  (forall w, In w h -> wloc w = abuf v /\ In (wpos w) (cells v)) ->
  read (run s h) a = read s a.
Proof. exact view_frame. Qed.

Theorem C05_view_frame_sym : forall (s : @store V) (v a : arr) (h : list (@wr V)),
  (abuf v <> abuf a \/ forall k, In k (cells v) -> ~ In k (cells a)) ->
  (forall w, In w h -> wloc w = abuf a /\ In (wpos w) (cells a)) ->
  read (run s h) v = read s v.
Proof. exact view_frame_sym. Qed.

(* a result in a buffer allocated by the call, and every window later cut from it, can be written without any
   pre-existing array noticing *)
Theorem C05_fresh_views_frame : forall (h h' : @heap V) (r v a : arr) (ws : list (@wr V)),
  fresh_res h h' r -> wf_arr h a -> abuf v = abuf r ->
  (forall w, In w ws -> wloc w = abuf v /\ In (wpos w) (cells v)) ->
  read (run (hst h') ws) a = read (hst h') a.
Proof. exact fresh_views_frame. Qed.

(* the converse (why the harness' sentinel writes detect sharing): windows with a common in-range cell DO see a write of a
   new value to that cell; in particular every write through a view is seen through the base array *)
Theorem C05_view_write_visible : forall (s : @store V) (v a : arr) k x,
  abuf v = abuf a -> In k (cells v) -> In k (cells a) -> k < length (s (abuf v)) -> nth_error (s (abuf v)) k <> Some x ->
  read (write s (abuf v) k x) a <> read s a.
Proof. exact view_write_visible. Qed.

Theorem C05_view_write_visible_in_base : forall (s : @store V) (v : arr) k x,
  In k (cells v) -> k < length (s (abuf v)) -> nth_error (s (abuf v)) k <> Some x ->
  read (write s (abuf v) k x) (base_arr (abuf v) (length (s (abuf v)))) <> read s (base_arr (abuf v) (length (s (abuf v)))).
Proof. exact view_write_visible_in_base. Qed.
End C05_views.
Print Assumptions C05_view_footprint.
Print Assumptions C05_view_frame.
Print Assumptions C05_view_frame_sym.
Print Assumptions C05_fresh_views_frame.
Print Assumptions C05_view_write_visible.
Print Assumptions C05_view_write_visible_in_base.

(* a single-mode selection (integer index i on mode k: a row, a column, a slab) shows only cells of its parent ... *)
Theorem C05_int_selection_subwin : forall a k i, i < nth k (ashape a) 0 -> length (astr a) = length (ashape a) ->
  abuf (v_int a k i) = abuf a /\ incl (cells (v_int a k i)) (cells a).
Proof. exact int_selection_subwin. Qed.
Print Assumptions C05_int_selection_subwin.

(* ... so it inherits every separation of its parent: the frame theorem for an array extends to all its selections *)
Theorem C05_int_selection_separated : forall a b k i,
  (abuf a <> abuf b \/ forall c, In c (cells a) -> ~ In c (cells b)) ->
  i < nth k (ashape a) 0 -> length (astr a) = length (ashape a) ->
  (abuf (v_int a k i) <> abuf b \/ forall c, In c (cells (v_int a k i)) -> ~ In c (cells b)).
Proof. exact int_selection_separated. Qed.
Print Assumptions C05_int_selection_separated.

(* the executable separation test decides the hypothesis of C05_view_frame *)
Theorem C05_separatedb_spec : forall v a,
  separatedb v a = true <-> (abuf v <> abuf a \/ forall k, In k (cells v) -> ~ In k (cells a)).
Proof. exact separatedb_spec. Qed.
Print Assumptions C05_separatedb_spec.

(* the table checker is COMPLETE as well as sound: a row passes exactly when it has the bits the property demands *)
Theorem C05_row_check_iff : forall r, row_check r = true <->
  (r_unchanged r = true /\
   (r_kind r <> KNoCopy -> r_disjoint r = true /\ r_vis_result r = false /\ r_vis_operand r = false) /\
   (r_kind r = KNoCopy -> r_extra_ok r = true)).
Proof. exact row_check_iff. Qed.
Print Assumptions C05_row_check_iff.

(* non-vacuity: the two rows of the 2x3 matrix exF live in ONE buffer and are separated at cell level (the buffer-level
   frame theorem says nothing here); a write through row 0 is invisible through row 1 but visible through exF and its
   transposed window exT *)
Example C05_view_frame_example :
  abuf exRow0 = abuf exRow1 /\ cells exRow0 = [0; 2; 4] /\ cells exRow1 = [1; 3; 5] /\
  separatedb exRow0 exRow1 = true /\ separatedb exRow0 exF = false /\ separatedb exRow0 exT = false /\
  read (run (hst (h0 1)) [(0, 2, 77); (0, 4, 78)]) exRow1 = read (hst (h0 1)) exRow1 /\
  read (run (hst (h0 1)) [(0, 2, 77); (0, 4, 78)]) exRow0 = [Some 0; Some 77; Some 78] /\
  read (run (hst (h0 1)) [(0, 2, 77)]) exF <> read (hst (h0 1)) exF /\
  read (run (hst (h0 1)) [(0, 2, 77)]) exT <> read (hst (h0 1)) exT.
Proof. vm_compute. repeat split; try reflexivity; discriminate. Qed.

(* ================================================================================================================
   wave 4: more transliterated return paths (Model/C05View2.v); verdicts for all heaps / arrays / parameters
   ================================================================================================================ *)
Section C05_view2.
Context {V : Type}.

(* tenmat.to_tensor(copy=True): never a window onto the tenmat's data, whatever layout / permutation *)
Theorem C05_tenmat_to_tensor_copy_verdict : forall (h : @heap V) D pshape inv tshape multi, wf_arr h D ->
  aliases [D] [snd (tenmat_to_tensor h D pshape inv tshape multi true)] = false.
Proof. exact tenmat_to_tensor_copy_verdict. Qed.

(* tenmat.to_tensor(copy=False): a window onto the tenmat's own buffer or a new buffer - never a third existing one;
   and for F-contiguous data whose un-permutation keeps the F layout it IS the tenmat's buffer (documented sharing) *)
Theorem C05_tenmat_to_tensor_nocopy_aof : forall (h : @heap V) D pshape inv tshape multi,
  alias_or_fresh h D (tenmat_to_tensor h D pshape inv tshape multi false).
Proof. exact tenmat_to_tensor_nocopy_aof. Qed.

Theorem C05_tenmat_to_tensor_nocopy_shared : forall (h : @heap V) D pshape inv tshape multi, wf_arr h D ->
  is_fcontig D = true ->
  (multi = true -> is_fcontig (v_transpose (mkArr (abuf D) (aoff D) pshape (fstrides pshape)) inv) = true) ->
  list_eqb pshape (ashape D) = false ->
  aliases [D] [snd (tenmat_to_tensor h D pshape inv tshape multi false)] = true.
Proof. exact tenmat_to_tensor_nocopy_shared. Qed.

Theorem C05_tenmat_ctranspose_verdict : forall (h : @heap V) D, wf_arr h D -> aliases [D] [snd (tenmat_ctranspose h D)] = false.
Proof. exact tenmat_ctranspose_verdict. Qed.

Theorem C05_tenmat_double_verdict : forall (h : @heap V) D, wf_arr h D -> aliases [D] [snd (tenmat_double h D)] = false.
Proof. exact tenmat_double_verdict. Qed.

Theorem C05_ttensor_copy_verdict : forall (h : @heap V) core fms, (forall a, In a (core :: fms) -> wf_arr h a) ->
  aliases (core :: fms) (snd (ttensor_copy h core fms)) = false.
Proof. exact ttensor_copy_verdict. Qed.

(* ttensor(copy=False): the core is the caller's; the factor matrices are the caller's exactly when ALL are F-contiguous *)
Theorem C05_ttensor_init_nocopy_verdict : forall (h : @heap V) core fms, (forall a, In a (core :: fms) -> wf_arr h a) -> fms <> [] ->
  aliases [core] [hd core (snd (ttensor_init h core fms false))] = true /\
  aliases fms (tl (snd (ttensor_init h core fms false))) = forallb is_fcontig fms.
Proof. exact ttensor_init_nocopy_verdict. Qed.

Theorem C05_sptenmat_copy_verdict : forall (h : @heap V) subs vals, wf_arr h subs -> wf_arr h vals ->
  aliases [subs; vals] (snd (sptenmat_copy h subs vals)) = false.
Proof. exact sptenmat_copy_verdict. Qed.

Theorem C05_sptenmat_init_nocopy_verdict : forall (h : @heap V) subs vals,
  aliases [subs; vals] (snd (sptenmat_init h subs vals false)) = true.
Proof. exact sptenmat_init_nocopy_verdict. Qed.
End C05_view2.
Print Assumptions C05_tenmat_to_tensor_copy_verdict.
Print Assumptions C05_tenmat_to_tensor_nocopy_aof.
Print Assumptions C05_tenmat_to_tensor_nocopy_shared.
Print Assumptions C05_tenmat_ctranspose_verdict.
Print Assumptions C05_tenmat_double_verdict.
Print Assumptions C05_ttensor_copy_verdict.
Print Assumptions C05_ttensor_init_nocopy_verdict.
Print Assumptions C05_sptenmat_copy_verdict.
Print Assumptions C05_sptenmat_init_nocopy_verdict.

(* non-vacuity: a 2x3 F-ordered tenmat of a (2,3) tensor with rows = mode 0: copy=False unwraps to a window onto the same buffer,
   copy=True does not; with rows = mode 1 (data 3x2, un-permutation [1;0]) even copy=False must re-lay-out: no sharing *)
Example C05_view2_examples :
  aliases [exF] [snd (tenmat_to_tensor (h0 1) exF [2; 3] [0; 1] [2; 3] true false)] = true /\
  aliases [exF] [snd (tenmat_to_tensor (h0 1) exF [2; 3] [0; 1] [2; 3] true true)] = false /\
  aliases [mkArr 0 0 [3; 2] [1; 3]] [snd (tenmat_to_tensor (h0 1) (mkArr 0 0 [3; 2] [1; 3]) [3; 2] [1; 0] [2; 3] true false)] = false /\
  aliases [exF] [snd (tenmat_ctranspose (h0 1) exF)] = false /\
  aliases [exF; exS] (tl (snd (ttensor_init (h0 2) exF [exF; exS] false))) = false /\
  aliases [exF; exF] (tl (snd (ttensor_init (h0 2) exF [exF; exF] false))) = true.
Proof. vm_compute. repeat split; reflexivity. Qed.

(* ================================================================================================================
   wave 4 (continued): strided slices, objects made of windows
   ================================================================================================================ *)
(* a strided slice (start, count, step) of mode k - "every other row", a sub-block - shows only cells of its parent and
   inherits its separations *)
Theorem C05_slice_selection_subwin : forall a k st cnt step,
  (forall j, j < cnt -> st + j * step < nth k (ashape a) 0) -> length (astr a) = length (ashape a) -> k < length (ashape a) ->
  abuf (v_slice1 a k (st, cnt, step)) = abuf a /\ incl (cells (v_slice1 a k (st, cnt, step))) (cells a).
Proof. exact slice_selection_subwin. Qed.
Print Assumptions C05_slice_selection_subwin.

Theorem C05_slice_selection_separated : forall a b k st cnt step,
  (abuf a <> abuf b \/ forall c, In c (cells a) -> ~ In c (cells b)) ->
  (forall j, j < cnt -> st + j * step < nth k (ashape a) 0) -> length (astr a) = length (ashape a) -> k < length (ashape a) ->
  (abuf (v_slice1 a k (st, cnt, step)) <> abuf b \/ forall c, In c (cells (v_slice1 a k (st, cnt, step))) -> ~ In c (cells b)).
Proof. exact slice_selection_separated. Qed.
Print Assumptions C05_slice_selection_separated.

(* objects made of windows (ktensor on views of the caller's arrays, tensor on a window): any history whose writes all go
   through windows of r, each separated from every window of o, leaves everything o shows unchanged *)
Theorem C05_vobj_frame : forall {V : Type} (s : @store V) (r o : list arr) (h : list (@wr V)),
  (forall v a, In v r -> In a o -> (abuf v <> abuf a \/ forall c, In c (cells v) -> ~ In c (cells a))) ->
  (forall w, In w h -> exists v, In v r /\ wloc w = abuf v /\ In (wpos w) (cells v)) ->
  map (read (run s h)) o = map (read s) o.
Proof. exact @vobj_frame. Qed.
Print Assumptions C05_vobj_frame.

(* non-vacuity: a 4x2 F-ordered matrix in buffer 0; its even rows and its odd rows (the harness' "strided" operand layout)
   are two windows onto one buffer without a common cell; writing all of the even-row window leaves the odd-row window alone *)
Example C05_slice_example :
  let m := mkArr 0 0 [4; 2] [1; 4] in
  let ev := v_slice1 m 0 (0, 2, 2) in let od := v_slice1 m 0 (1, 2, 2) in
  cells ev = [0; 4; 2; 6] /\ cells od = [1; 5; 3; 7] /\ separatedb ev od = true /\ separatedb ev m = false /\
  read (run (hst (h0 1)) [(0, 0, 70); (0, 4, 71); (0, 2, 72); (0, 6, 73)]) od = read (hst (h0 1)) od /\
  read (run (hst (h0 1)) [(0, 0, 70); (0, 4, 71); (0, 2, 72); (0, 6, 73)]) ev = [Some 70; Some 71; Some 72; Some 73].
Proof. vm_compute. repeat split; reflexivity. Qed.

(* ---- wave 5: negative strides (Model/C05ViewZ.v: windows with offset and strides in Z) -------------------------------- *)
(* the signed model extends the nat-stride model conservatively: same flags, same cells, same constructor results *)
Theorem C05_z_embed_flags : forall a, z_fcontig (embed a) = is_fcontig a /\ z_ccontig (embed a) = is_ccontig a /\ zcells (embed a) = cells a.
Proof. exact (fun a => conj (embed_fcontig a) (conj (embed_ccontig a) (zcells_embed a))). Qed.
Print Assumptions C05_z_embed_flags.

Theorem C05_z_tensor_init_embed : forall {V : Type} (h : @heap V) d s c,
  z_tensor_init h (embed d) s c = (fst (tensor_init h d s c), embed (snd (tensor_init h d s c))).
Proof. exact @z_tensor_init_embed. Qed.
Print Assumptions C05_z_tensor_init_embed.

Theorem C05_z_tenmat_init_embed : forall {V : Type} (h : @heap V) d c,
  z_tenmat_init h (embed d) c = (fst (tenmat_init h d c), embed (snd (tenmat_init h d c))).
Proof. exact @z_tenmat_init_embed. Qed.
Print Assumptions C05_z_tenmat_init_embed.

(* a[..., ::-1, ...] is a view: same buffer, exactly the cells of the base, the slice (size-1, size, -1); twice = identity *)
Theorem C05_z_flip_view : forall a k,
  zbuf (z_flip a k) = zbuf a /\ (forall x, In x (zaddrsC (z_flip a k)) <-> In x (zaddrsC a)).
Proof. exact (fun a k => conj eq_refl (z_flip_cells a k)). Qed.
Print Assumptions C05_z_flip_view.

Theorem C05_z_flip_is_slice : forall a k, k < length (zshape a) -> length (zstr a) = length (zshape a) ->
  z_flip a k = z_slice1 a k (Z.of_nat (nth k (zshape a) 0%nat) - 1)%Z (nth k (zshape a) 0%nat) (-1)%Z.
Proof. exact z_flip_is_slice. Qed.
Print Assumptions C05_z_flip_is_slice.

Theorem C05_z_flip_involutive : forall a k, (forall i, nth i (zshape a) 1 <> 0) -> z_flip (z_flip a k) k = a.
Proof. exact z_flip_involutive. Qed.
Print Assumptions C05_z_flip_involutive.

(* writes through the reversed view of a window land in cells of that window, and every cell of the window is shown by it *)
Theorem C05_z_flip_subwin : forall a k,
  zbuf (z_flip (embed a) k) = abuf a /\ incl (zcells (z_flip (embed a) k)) (cells a) /\ incl (cells a) (zcells (z_flip (embed a) k)).
Proof. exact (fun a k => conj (proj1 (z_flip_subwin a k)) (conj (proj2 (z_flip_subwin a k)) (z_flip_covers a k))). Qed.
Print Assumptions C05_z_flip_subwin.

(* a window walked backwards on a mode of size <> 1 is neither F- nor C-contiguous; asfortranarray of it allocates *)
Theorem C05_z_neg_not_contig : forall a, (exists k, nth k (zshape a) 1 <> 1 /\ (nth k (zstr a) 0 < 0)%Z) ->
  z_fcontig a = false /\ z_ccontig a = false.
Proof. exact neg_not_contig. Qed.
Print Assumptions C05_z_neg_not_contig.

Theorem C05_z_asfortran_neg : forall {V : Type} (h : @heap V) a, neg_mode a ->
  ext h (fst (z_asfortran h a)) /\ hnext h <= zbuf (snd (z_asfortran h a)) < hnext (fst (z_asfortran h a)).
Proof. exact @z_asfortran_neg. Qed.
Print Assumptions C05_z_asfortran_neg.

(* the constructors on a negative-stride argument, all heaps / windows / shapes *)
Theorem C05_z_tensor_init_verdict : forall {V : Type} (h : @heap V) d s, zbuf d < hnext h ->
  zaliases [d] [snd (z_tensor_init h d s true)] = false /\
  (neg_mode d -> zaliases [d] [snd (z_tensor_init h d s false)] = false) /\
  zaliases [d] [snd (z_tensor_init h d (zshape d) false)] = z_fcontig d.
Proof.
  exact (fun V h d s W => conj (z_tensor_init_copy_verdict h d s W)
                         (conj (z_tensor_init_nocopy_neg_verdict h d s W) (z_tensor_init_nocopy_verdict h d W))).
Qed.
Print Assumptions C05_z_tensor_init_verdict.

Theorem C05_z_tenmat_init_neg_verdict : forall {V : Type} (h : @heap V) d c, zbuf d < hnext h -> neg_mode d ->
  zaliases [d] [snd (z_tenmat_init h d c)] = false.
Proof. exact @z_tenmat_init_neg_verdict. Qed.
Print Assumptions C05_z_tenmat_init_neg_verdict.

Theorem C05_z_sptensor_init_verdict : forall {V : Type} (h : @heap V) s v,
  zaliases [s; v] (snd (z_sptensor_init h s v false)) = true /\
  (zbuf s < hnext h -> zbuf v < hnext h -> zaliases [s; v] (snd (z_sptensor_init h s v true)) = false).
Proof. exact (fun V h s v => conj (z_sptensor_init_nocopy_verdict h s v) (z_sptensor_init_copy_verdict h s v)). Qed.
Print Assumptions C05_z_sptensor_init_verdict.

Theorem C05_z_ktensor_init_verdict : forall {V : Type} (h : @heap V) fms w, zbuf w < hnext h -> (forall a, In a fms -> zbuf a < hnext h) ->
  zaliases (w :: fms) (snd (z_ktensor_init h fms w true)) = false /\
  ((exists f, In f fms /\ neg_mode f) ->
   zaliases fms (tl (snd (z_ktensor_init h fms w false))) = false /\
   (neg_mode w -> zaliases (w :: fms) (snd (z_ktensor_init h fms w false)) = false)).
Proof.
  exact (fun V h fms w Ww Wf => conj (z_ktensor_init_copy_verdict h fms w Ww Wf) (z_ktensor_init_nocopy_neg_verdict h fms w Ww Wf)).
Qed.
Print Assumptions C05_z_ktensor_init_verdict.

Theorem C05_z_khatrirao_single_verdict : forall {V : Type} (h : @heap V) A, zbuf A < hnext h ->
  zaliases [A] [snd (z_khatrirao_single h A)] = false.
Proof. exact @z_khatrirao_single_verdict. Qed.
Print Assumptions C05_z_khatrirao_single_verdict.

(* non-vacuity: a 2 x 3 C-ordered matrix and its row-reversed view M[::-1] (the harness' "negstride" operand layout) *)
Example C05_negstride_example :
  exMrev = mkZArr 0 3 [2; 3] [(-3)%Z; 1%Z] /\ zcells exMrev = [3; 4; 5; 0; 1; 2] /\ cells exM = [0; 1; 2; 3; 4; 5] /\
  z_fcontig exMrev = false /\ z_ccontig exMrev = false /\ z_ccontig (embed exM) = true /\
  zaliases [exMrev] [snd (z_tensor_init (hz0 1) exMrev [2; 3] false)] = false /\
  zaliases [embed (v_transpose exM [1; 0])] [snd (z_tensor_init (hz0 1) (embed (v_transpose exM [1; 0])) [3; 2] false)] = true /\
  hst (fst (z_copyF (hz0 1) exMrev)) 1 = [3; 0; 4; 1; 5; 2].
Proof. vm_compute. repeat split; reflexivity. Qed.
