(* Proofs/C04GenSubdims.v — C04, wave 5: the region FILTER of sptensor.__getitem__ / _set_subtensor is the translator-GENERATED
   sptensor.subdims (Gen/GenSptensor4.v, bridge Proofs/W4Subdims.v of the translator): on every stored state and every key of
   integers (negative allowed), slices (any bounds / step) and index lists that the specification resolves, the generated loop
   returns exactly the stored positions whose subscript lies in the region (insideb), ascending; hence the rows it selects are
   the rows the generated tt_renumber is applied to in C04_gen_sparse_region_read. *)
From Coq Require Import List Arith ZArith Lia Bool.
From PV Require Import Base.Index Np.Array Model.Sparse Np.NpZ Np.NpZ2 Np.NpZ3 Np.NpZ3c Np.NpZ3d Np.NpZ3e Np.NpZ4 Np.NpZ4b Proofs.NpZProofs.
From PV Require Import Model.W4Sptensor Proofs.W4Subdims Gen.GenSptensor4 Gen.GenUtils3.
From PV Require Import Model.C04Model Proofs.C04GenBridge Proofs.C04GenRegion.
Import ListNotations.

Lemma forallb_seq_shift (f : nat -> bool) n : forallb f (seq 0 (S n)) = f 0%nat && forallb (fun k => f (S k)) (seq 0 n).
Proof.
  cbn [seq forallb]. f_equal. rewrite <- seq_shift. induction (seq 0 n) as [|a l IH]; cbn; [reflexivity|]. now rewrite IH.
Qed.

Lemma forallb_map_nat (g : Z -> bool) (l : list nat) : forallb g (map Z.of_nat l) = forallb (fun k => g (Z.of_nat k)) l.
Proof. induction l; cbn; [reflexivity|]. now f_equal. Qed.

Lemma forallb_ext_seq (f g : nat -> bool) n : (forall k, (k < n)%nat -> f k = g k) -> forallb f (seq 0 n) = forallb g (seq 0 n).
Proof.
  intros H. assert (G : forall l, (forall k, In k l -> (k < n)%nat) -> forallb f l = forallb g l).
  { induction l as [|a l IH]; intros Hl; cbn; [reflexivity|]. rewrite H by (apply Hl; now left). f_equal. apply IH. intros; apply Hl; now right. }
  apply G. intros k Hk. apply in_seq in Hk. lia.
Qed.

Lemma insideb_modes ls : forall p, length p = length ls ->
  forallb (fun k => existsb (Nat.eqb (nth k p 0%nat)) (snd (nth k ls (false, [])))) (seq 0 (length ls)) = insideb ls p.
Proof.
  induction ls as [|kl ls IH]; intros [|x p] H; cbn [length] in H; try discriminate; [reflexivity|].
  cbn [length]. rewrite forallb_seq_shift. cbn [nth insideb]. f_equal. apply IH. lia.
Qed.

Lemma zmem_zs x l : zmem (Z.of_nat x) (zs l) = existsb (Nat.eqb x) l.
Proof.
  unfold zmem, zs. induction l as [|y l IH]; cbn; [reflexivity|]. rewrite IH. f_equal.
  destruct (Z.eqb_spec (Z.of_nat x) (Z.of_nat y)), (Nat.eqb_spec x y); try lia; reflexivity.
Qed.

Lemma elem_slice_ok d a b c kl : elem_indices d (C04Model.KSlice a b c) = Some kl -> slice_ok (mkslice a b c) = true.
Proof.
  cbn [elem_indices]. unfold C04Model.py_slice. cbv zeta. unfold slice_ok. cbn [sl_step].
  destruct c as [[| |]|]; try reflexivity. cbn. discriminate.
Qed.

Lemma key_sel_eq (s : shape) k e kept l x : (k < length s)%nat -> elem_indices (nth k s 0%nat) e = Some (kept, l) ->
  H_key_sel (zs s) (Z.of_nat k) (zkey (nth k s 0%nat) e) (Z.of_nat x) = existsb (Nat.eqb x) l.
Proof.
  intros Hk E. destruct e as [z|a b c|zl]; cbn [zkey].
  - cbn [elem_indices] in E. destruct (norm_index (nth k s 0%nat) z) as [k'|]; [|discriminate]. inversion E; subst.
    cbn [H_key_sel existsb]. rewrite orb_false_r. destruct (Z.eqb_spec (Z.of_nat x) (Z.of_nat k')), (Nat.eqb_spec x k'); try lia; reflexivity.
  - pose proof (elem_slice_ok _ _ _ _ _ E) as Hok. cbn [H_key_sel]. rewrite znth_zs by exact Hk.
    rewrite gen_slice_selection by exact Hok. rewrite zmem_zs.
    cbn [elem_indices] in E. destruct (C04Model.py_slice (nth k s 0%nat) a b c) as [|y l'] eqn:P; [discriminate|]. now inversion E.
  - cbn [elem_indices] in E. destruct zl as [|z0 zl]; [discriminate|].
    destruct (forallb (fun z => (0 <=? z)%Z && (z <? Z.of_nat (nth k s 0%nat))%Z) (z0 :: zl)) eqn:F; [|discriminate]. inversion E; subst.
    cbn [H_key_sel]. rewrite <- zmem_zs. f_equal. symmetry. apply (zs_of_nonneg (z0 :: zl)). intros z Hz.
    rewrite forallb_forall in F. specialize (F z Hz). apply andb_true_iff in F as [F _]. now apply Z.leb_le.
Qed.

Lemma key_ok_eq (s : shape) k e kl : (k < length s)%nat -> elem_indices (nth k s 0%nat) e = Some kl ->
  H_key_ok (zs s) (Z.of_nat k) (zkey (nth k s 0%nat) e) = true.
Proof.
  intros Hk E. destruct e as [z|a b c|zl]; cbn [zkey].
  - cbn [elem_indices] in E. destruct (norm_index (nth k s 0%nat) z); [reflexivity|discriminate].
  - cbn [H_key_ok]. rewrite (elem_slice_ok _ _ _ _ _ E), andb_true_r. unfold idx_ok, zlen, zs. rewrite map_length.
    apply andb_true_iff. split; [apply Z.leb_le|apply Z.ltb_lt]; lia.
  - reflexivity.
Qed.

Theorem gen_subdims_filter (s : shape) (subs : list idx) (vals : vec) es ls :
  region_lists s es = Some ls -> subs <> [] -> s <> [] -> (forall p, In p subs -> length p = length s) ->
  sptensor_subdims (mkspt (map zs subs) vals (zs s)) (zkeys s es)
  = Ok (map Z.of_nat (filter (fun l => insideb ls (nth l subs [])) (seq 0 (length subs)))).
Proof.
  intros RL Hsubs Hs Hlen. destruct (region_lists_len _ _ _ RL) as [Les Lls].
  rewrite subdims_bridge. unfold H_subdims. cbn [spt_shape spt_subs]. cbv zeta.
  assert (Ln : zlen (zs s) = Z.of_nat (length s)) by (unfold zlen, zs; now rewrite map_length).
  assert (Lk : zlen (zkeys s es) = Z.of_nat (length s)) by (unfold zlen; now rewrite zkeys_len).
  rewrite Ln, Lk, Z.eqb_refl. cbn [negb].
  assert (Hsz : (np_size2 (map zs subs) =? 0)%Z = false).
  { destruct subs as [|p0 subs]; [congruence|]. apply (np_size2_pos _ (zs p0)); [now left|].
    specialize (Hlen p0 (or_introl eq_refl)). destruct p0; [|discriminate]. destruct s; [congruence|discriminate]. }
  rewrite Hsz.
  assert (Ear : np_arange 0 (Z.of_nat (length s)) = map Z.of_nat (seq 0 (length s))).
  { unfold np_arange. rewrite Z.sub_0_r, Nat2Z.id. apply map_ext. intros; lia. }
  assert (Hkey : forall k, (k < length s)%nat -> znth IxNone (zkeys s es) (Z.of_nat k) = zkey (nth k s 0%nat) (nth k es (C04Model.KInt 0))).
  { intros k Hk. rewrite znth_nat. now apply nth_zkeys. }
  rewrite Ear.
  assert (Hall : forallb (fun i : Z => H_key_ok (zs s) i (znth IxNone (zkeys s es) i) && np_col_ok (map zs subs) i)
                         (map Z.of_nat (seq 0 (length s))) = true).
  { apply forallb_forall. intros i Hi. apply in_map_iff in Hi as (k & <- & Hk). apply in_seq in Hk. cbn [Nat.add] in Hk.
    rewrite Hkey by lia. rewrite (key_ok_eq s k _ _ (proj2 Hk) (region_lists_nth _ _ _ _ RL (proj2 Hk))). cbn [andb].
    unfold np_col_ok. apply forallb_forall. intros r Hr. apply in_map_iff in Hr as (p & <- & Hp).
    unfold idx_ok, zlen, zs. rewrite map_length, (Hlen p Hp). apply andb_true_iff. split; [apply Z.leb_le|apply Z.ltb_lt]; lia. }
  rewrite Hall. f_equal.
  unfold zlen. rewrite map_length. unfold np_arange. rewrite Z.sub_0_r, Nat2Z.id.
  rewrite (map_ext (fun k : nat => (0 + Z.of_nat k)%Z) Z.of_nat) by (intros; lia).
  (* filter over positions *)
  assert (FM : forall (g : Z -> bool) (h : nat -> bool) (l : list nat), (forall x, In x l -> g (Z.of_nat x) = h x) ->
                 filter g (map Z.of_nat l) = map Z.of_nat (filter h l)).
  { intros g h l. induction l as [|x l IH]; intros H; cbn; [reflexivity|]. rewrite (H x (or_introl eq_refl)).
    destruct (h x); cbn; rewrite IH by (intros; apply H; now right); reflexivity. }
  apply FM. intros l Hl. apply in_seq in Hl. cbn [Nat.add] in Hl. destruct Hl as [_ Hl].
  unfold H_row_in. cbn [spt_shape spt_subs]. change (map Z.of_nat s) with (zs s). rewrite Ln, Ear.
  set (p := nth l subs []).
  assert (Hp : length p = length s) by (apply Hlen; unfold p; now apply nth_In).
  assert (Erow : znth [] (map zs subs) (Z.of_nat l) = zs p).
  { rewrite znth_nat. unfold p. change (@nil Z) with (zs []). now rewrite map_nth. }
  rewrite Erow. rewrite <- (insideb_modes ls p) by lia. rewrite Lls.
  rewrite forallb_map_nat. apply forallb_ext_seq. intros k Hk.
  rewrite Hkey by exact Hk. rewrite znth_zs by lia.
  pose proof (region_lists_nth _ _ _ _ RL Hk) as E. destruct (nth k ls (false, [])) as [kept l'] eqn:EN.
  rewrite (key_sel_eq s k _ kept l' _ Hk E). reflexivity.
Qed.

(* ------------------------------------------------------------------------------------------------ *)
(* sptensor.__getitem__(region), both generated functions inside                                      *)
(*   loc = self.subdims(region) ; subs = self.subs[loc] ; vals = self.vals[loc] ;                     *)
(*   newsubs, newsiz = tt_renumber(subs, self.shape, region) ; kept columns                           *)
(* ------------------------------------------------------------------------------------------------ *)
Lemma take_filter_entries {V} (d : V) (P : idx -> bool) (subs : list idx) (vals : list V) : length subs = length vals ->
  map (fun l => (nth l subs [], nth l vals d)) (filter (fun l => P (nth l subs [])) (seq 0 (length subs)))
  = filter (fun e : idx * V => P (fst e)) (combine subs vals).
Proof.
  intros HL.
  assert (E : combine subs vals = map (fun l => (nth l subs [], nth l vals d)) (seq 0 (length subs))).
  { apply (nth_ext _ _ ([], d) ([], d)).
    - rewrite combine_length, map_length, seq_length. lia.
    - intros k Hk. rewrite combine_length in Hk. rewrite combine_nth by exact HL.
      assert (Hk' : (k < length (map (fun l => (nth l subs [], nth l vals d)) (seq 0 (length subs))))%nat) by (rewrite map_length, seq_length; lia).
      rewrite (nth_indep _ ([], d) ((fun l => (nth l subs [], nth l vals d)) 0%nat) Hk').
      rewrite (map_nth (fun l => (nth l subs [], nth l vals d))). rewrite seq_nth by lia. reflexivity. }
  rewrite E at 1. clear E. induction (seq 0 (length subs)) as [|a l IH]; cbn; [reflexivity|].
  destruct (P (nth a subs [])); cbn; now rewrite IH.
Qed.

Section GI.
Context {V : Type} (v0 : V).

Theorem gen_getitem_region (S : sparse V) es ls (zv : vec) loc ns nsh :
  length (ssubs S) = length (svals S) -> (forall p, In p (ssubs S) -> length p = length (sshape S)) ->
  region_lists (sshape S) es = Some ls ->
  Forall (fun x : bool * list nat => NoDup (snd x)) ls ->
  sshape S <> [] ->
  sptensor_subdims (mkspt (map zs (ssubs S)) zv (zs (sshape S))) (zkeys (sshape S) es) = Ok loc ->
  loc <> [] ->
  tt_renumber (np_take [] (map zs (ssubs S)) loc) (zs (sshape S)) (zkeys (sshape S) es) = Ok (ns, nsh) ->
  let R := mkSp (unzs (keepc ls nsh)) (map (fun r => unzs (keepc ls r)) ns) (np_take v0 (svals S) loc) in
  loc = map Z.of_nat (filter (fun l => insideb ls (nth l (ssubs S) [])) (seq 0 (length (ssubs S)))) /\
  sp_region_get S es = Some R /\
  sshape R = kept_shape ls /\
  (forall j, inb (kept_shape ls) j = true -> den_sp v0 R j = den_sp v0 S (select ls j)).
Proof.
  intros HL Hlen RL Hnd Hs Hsub Hloc Hren R.
  destruct (region_lists_len _ _ _ RL) as [Les Lls].
  assert (Hsubs : ssubs S <> []).
  { intros E. rewrite E in Hsub. cbn [map] in Hsub. rewrite gen_subdims_empty in Hsub.
    - inversion Hsub. congruence.
    - cbn [spt_shape]. unfold zlen. rewrite zkeys_len by exact Les. unfold zs. now rewrite map_length.
    - reflexivity. }
  rewrite (gen_subdims_filter (sshape S) (ssubs S) zv es ls RL Hsubs Hs Hlen) in Hsub. injection Hsub as Eloc. subst loc.
  split; [reflexivity|].
  set (js := filter (fun l => insideb ls (nth l (ssubs S) [])) (seq 0 (length (ssubs S)))) in *.
  set (F := filter (fun e : idx * V => insideb ls (fst e)) (entries S)).
  pose proof (take_filter_entries v0 (insideb ls) (ssubs S) (svals S) HL) as TF. fold js in TF. fold (entries S) in TF. fold F in TF.
  assert (E1 : np_take [] (map zs (ssubs S)) (map Z.of_nat js) = map zs (map fst F)).
  { rewrite <- TF. unfold np_take. rewrite !map_map. apply map_ext. intros l. cbn [fst]. rewrite znth_nat.
    change (@nil Z) with (zs []). now rewrite map_nth. }
  assert (E2 : np_take v0 (svals S) (map Z.of_nat js) = map snd F).
  { rewrite <- TF. unfold np_take. rewrite !map_map. apply map_ext. intros l. cbn [snd]. now rewrite znth_nat. }
  subst R. rewrite E1 in Hren. rewrite E2.
  apply (gen_sparse_region_read v0 S es ls ns nsh RL Hnd Hs); [|exact Hren].
  fold F. intros EF. rewrite EF in E1. cbn in E1. destruct js; [apply Hloc; reflexivity|discriminate].
Qed.
End GI.

(* non-vacuity: the example tensor of C04_gen_sparse_region_read_example, now with the GENERATED filter in front *)
Example gen_getitem_region_example :
  let es := [C04Model.KList [3; 1]%Z; C04Model.KInt (-1); C04Model.KSlice (Some 4%Z) None (Some (-2)%Z)] in
  sptensor_subdims (mkspt (map zs [[3; 2; 4]; [0; 2; 0]; [1; 1; 4]; [3; 0; 2]]%nat) [7; 8; 9; 6]%Z (zs [4; 3; 5]%nat)) (zkeys [4; 3; 5]%nat es) = Ok [0%Z] /\
  tt_renumber (np_take [] (map zs [[3; 2; 4]; [0; 2; 0]; [1; 1; 4]; [3; 0; 2]]%nat) [0%Z]) (zs [4; 3; 5]%nat) (zkeys [4; 3; 5]%nat es)
    = Ok ([[0; 0; 0]%Z], [2; 0; 3]%Z).
Proof. split; vm_compute; reflexivity. Qed.

(* ------------------------------------------------------------------------------------------------ *)
(* "Delete what currently occupies the specified range" (sptensor._set_subtensor, zero and sparse     *)
(* right-hand sides):  rmloc = self.subdims(key) ; kploc = np.setdiff1d(range(0, self.nnz), rmloc) ;   *)
(* subs = subs[kploc, :] ; vals = vals[kploc]   — with the GENERATED subdims inside                    *)
(* ------------------------------------------------------------------------------------------------ *)
Lemma mem_filter_seq (P : nat -> bool) n a : (a < n)%nat -> existsb (Nat.eqb a) (filter P (seq 0 n)) = P a.
Proof.
  intros Ha. destruct (P a) eqn:E.
  - apply existsb_exists. exists a. split; [|apply Nat.eqb_refl]. apply filter_In. split; [apply in_seq; lia|exact E].
  - apply Bool.not_true_is_false. intros H. apply existsb_exists in H as (x & Hx & Ex). apply Nat.eqb_eq in Ex. subst x.
    apply filter_In in Hx as [_ Hx]. congruence.
Qed.

Lemma zmem_nats a (js : list nat) : zmem (Z.of_nat a) (map Z.of_nat js) = existsb (Nat.eqb a) js.
Proof.
  unfold zmem. induction js as [|j js IH]; cbn; [reflexivity|]. rewrite IH. f_equal.
  destruct (Z.eqb_spec (Z.of_nat a) (Z.of_nat j)), (Nat.eqb_spec a j); try lia; reflexivity.
Qed.

Lemma filter_map_nats (g : Z -> bool) (h : nat -> bool) (l : list nat) : (forall x, In x l -> g (Z.of_nat x) = h x) ->
  filter g (map Z.of_nat l) = map Z.of_nat (filter h l).
Proof.
  induction l as [|x l IH]; intros H; cbn; [reflexivity|]. rewrite (H x (or_introl eq_refl)).
  destruct (h x); cbn; rewrite IH by (intros; apply H; now right); reflexivity.
Qed.

Section Del.
Context {V : Type} (v0 : V).

Theorem gen_delete_region (s : shape) (subs : list idx) (vals : list V) (zv : vec) es ls :
  region_lists s es = Some ls -> subs <> [] -> s <> [] -> (forall p, In p subs -> length p = length s) ->
  length subs = length vals ->
  exists rmloc, sptensor_subdims (mkspt (map zs subs) zv (zs s)) (zkeys s es) = Ok rmloc /\
    let kploc := np_setdiff1d (np_arange 0 (Z.of_nat (length subs))) rmloc in
    let kept := filter (fun e : idx * V => negb (insideb ls (fst e))) (combine subs vals) in
    np_take [] (map zs subs) kploc = map zs (map fst kept) /\ np_take v0 vals kploc = map snd kept.
Proof.
  intros RL Hsubs Hs Hlen HL. eexists. split; [apply (gen_subdims_filter s subs zv es ls RL Hsubs Hs Hlen)|]. cbv zeta.
  set (P := fun l => insideb ls (nth l subs [])).
  assert (Ekp : np_setdiff1d (np_arange 0 (Z.of_nat (length subs))) (map Z.of_nat (filter P (seq 0 (length subs))))
                = map Z.of_nat (filter (fun l => negb (P l)) (seq 0 (length subs)))).
  { rewrite setdiff_arange. unfold np_arange. rewrite Z.sub_0_r, Nat2Z.id.
    change (fun k : nat => (0 + Z.of_nat k)%Z) with Z.of_nat.
    apply filter_map_nats. intros x Hx. apply in_seq in Hx. rewrite zmem_nats, mem_filter_seq by lia. reflexivity. }
  rewrite Ekp.
  pose proof (take_filter_entries v0 (fun p => negb (insideb ls p)) subs vals HL) as TF. cbv beta in TF.
  split.
  - rewrite <- TF. unfold np_take. rewrite !map_map. apply map_ext. intros l. cbn [fst]. rewrite znth_nat.
    change (@nil Z) with (zs []). now rewrite map_nth.
  - rewrite <- TF. unfold np_take. rewrite !map_map. apply map_ext. intros l. cbn [snd]. now rewrite znth_nat.
Qed.
End Del.

(* ------------------------------------------------------------------------------------------------ *)
(* S[region] = 0 : what the sparse model does = that deletion on the padded, resized state           *)
(* ------------------------------------------------------------------------------------------------ *)
From PV Require Import Proofs.C04Dense Proofs.C04Sparse Proofs.C04SpSetImpl.

Section Zero.
Context {V : Type} (v0 : V) (isz : V -> bool).
Hypothesis isz0 : isz v0 = true.
Notation keys := (map (@fst idx V)).

Lemma model_zero_region (S S' : sparse V) es out :
  length (ssubs S) = length (svals S) ->
  step_sparse v0 isz S (OSet (KRegion es) (RScalar v0)) = Some (S', out) ->
  exists ls, region_lists (sshape S') es = Some ls /\ sshape S' = grow (sshape S) (map elem_need es) /\
    region_ok (sshape S) es = true /\
    ssubs S' = map fst (filter (fun e : idx * V => negb (insideb ls (fst e))) (combine (map (sp_pad (length (sshape S'))) (ssubs S)) (svals S))) /\
    svals S' = map snd (filter (fun e : idx * V => negb (insideb ls (fst e))) (combine (map (sp_pad (length (sshape S'))) (ssubs S)) (svals S))).
Proof.
  intros HL H. cbn [step_sparse] in H.
  destruct (resolve_set cartC (sshape S) (KRegion es) (RScalar v0)) as [[s' asg]|] eqn:R; [|discriminate].
  destruct (sp_set isz S s' (dedupe_last asg) false) as [S1|] eqn:P; [|discriminate]. inversion H; subst S1 out. clear H.
  cbn [resolve_set] in R. destruct (region_ok (sshape S) es) eqn:OK; [|discriminate]. cbv zeta in R.
  destruct (region_lists (grow (sshape S) (map elem_need es)) es) as [ls|] eqn:RL; [|discriminate].
  unfold finish_set in R. cbn [rhs_values] in R.
  destruct (forallb (inb (grow (sshape S) (map elem_need es))) (cartC (map snd ls))); [|discriminate].
  inversion R; subst s' asg. clear R.
  unfold sp_set in P. destruct (nodupb (keys (dedupe_last (combine (cartC (map snd ls)) (repeat v0 (length (cartC (map snd ls)))))))); [|discriminate].
  set (s' := grow (sshape S) (map elem_need es)) in *.
  set (es0 := map (fun e : idx * V => (sp_pad (length s') (fst e), snd e)) (entries S)) in *.
  destruct (forallb (inb s') (keys es0)); [|discriminate]. inversion P; subst S'. clear P.
  cbn [sshape ssubs svals of_entries]. exists ls. split; [exact RL|]. split; [reflexivity|]. split; [reflexivity|].
  set (asg := combine (cartC (map snd ls)) (repeat v0 (length (cartC (map snd ls))))) in *.
  assert (Hes0 : es0 = combine (map (sp_pad (length s')) (ssubs S)) (svals S)).
  { unfold es0, entries. clear -HL. revert HL. generalize (svals S). induction (ssubs S) as [|i l IH]; intros [|v vs] H; cbn in *; try discriminate; [reflexivity|].
    f_equal. apply IH. lia. }
  rewrite <- Hes0.
  assert (Hzero : forall e, In e (dedupe_last asg) -> isz (snd e) = true).
  { intros [k w] He. apply dedupe_last_in in He. unfold asg in He. apply in_combine_r in He. apply repeat_spec in He. cbn [snd]. now rewrite He. }
  assert (Hkeys : forall p, lookup p (dedupe_last asg) = None <-> insideb ls p = false).
  { intros p. rewrite lookup_dedupe_last, lookup_none. rewrite map_rev, <- in_rev.
    assert (Ek : keys asg = cartC (map snd ls)) by (unfold asg; apply map_fst_combine; now rewrite repeat_length).
    rewrite Ek, in_cartC.
    assert (Hi : inside ls p <-> Forall2 (fun x l => In x l) p (map snd ls)).
    { unfold inside. clear. revert p. induction ls as [|kl ls IH]; intros p; split; intros H; inversion H; subst; constructor; auto; now apply IH. }
    rewrite <- Hi, <- insideb_spec. destruct (insideb ls p); split; intros; congruence. }
  assert (HR : sp_apply isz es0 (dedupe_last asg) = filter (fun e : idx * V => negb (insideb ls (fst e))) es0).
  { rewrite sp_apply_eq.
    assert (F2 : filter (fun a : idx * V => negb (isz (snd a)) && negb (memb (fst a) (keys es0))) (dedupe_last asg) = []).
    { assert (G : forall l : list (idx * V), (forall e, In e l -> isz (snd e) = true) ->
                  filter (fun a : idx * V => negb (isz (snd a)) && negb (memb (fst a) (keys es0))) l = []).
      { induction l as [|a l IH]; intros Hl; [reflexivity|]. cbn [filter]. rewrite (Hl a (or_introl eq_refl)). cbn. apply IH. intros; apply Hl; now right. }
      apply G. exact Hzero. }
    rewrite F2, app_nil_r. generalize es0. intros l0. induction l0 as [|e l IH]; [reflexivity|]. cbn [flat_map filter]. rewrite IH. unfold ap1.
    destruct (lookup (fst e) (dedupe_last asg)) as [v|] eqn:L.
    - assert (Hin : insideb ls (fst e) = true).
      { destruct (insideb ls (fst e)) eqn:E; [reflexivity|]. apply Hkeys in E. congruence. }
      rewrite Hin. cbn [negb]. apply lookup_some_in in L. apply Hzero in L. cbn [snd] in L. now rewrite L.
    - apply Hkeys in L. rewrite L. reflexivity. }
  rewrite HR. split; reflexivity.
Qed.

Theorem gen_set_region_zero (S S' : sparse V) es out (zv : vec) :
  wf_sp isz S -> ssubs S <> [] ->
  step_sparse v0 isz S (OSet (KRegion es) (RScalar v0)) = Some (S', out) ->
  let s' := sshape S' in
  let subs1 := map (sp_pad (length s')) (ssubs S) in
  s' = grow (sshape S) (map elem_need es) /\
  exists rmloc, sptensor_subdims (mkspt (map zs subs1) zv (zs s')) (zkeys s' es) = Ok rmloc /\
    let kploc := np_setdiff1d (np_arange 0 (Z.of_nat (length subs1))) rmloc in
    np_take [] (map zs subs1) kploc = map zs (ssubs S') /\ np_take v0 (svals S) kploc = svals S'.
Proof.
  intros (HL & Hnd & Hin & Hnz) Hne Hstep. cbv zeta.
  destruct (model_zero_region S S' es out HL Hstep) as (ls & RL & Es' & OK & Esubs & Evals).
  split; [exact Es'|].
  set (s' := sshape S') in *. set (subs1 := map (sp_pad (length s')) (ssubs S)).
  assert (Hlen_s : (length (sshape S) <= length s')%nat) by (rewrite Es', grow_len; lia).
  assert (Hs' : s' <> []).
  { unfold region_ok in OK. apply andb_true_iff in OK as [OK _]. apply andb_true_iff in OK as [O1 O2].
    apply Nat.leb_le in O1, O2. destruct (region_lists_len _ _ _ RL) as [Les _]. intros E. rewrite E in Les. cbn in Les. lia. }
  assert (Hrows : forall p, In p subs1 -> length p = length s').
  { intros p Hp. unfold subs1 in Hp. apply in_map_iff in Hp as (i & <- & Hi). unfold sp_pad. rewrite app_length, repeat_length.
    rewrite Forall_forall in Hin. specialize (Hin i Hi). apply inb_length in Hin. lia. }
  assert (Hsubs1 : subs1 <> []) by (unfold subs1; destruct (ssubs S); [congruence|discriminate]).
  assert (HL1 : length subs1 = length (svals S)) by (unfold subs1; now rewrite map_length).
  destruct (gen_delete_region v0 s' subs1 (svals S) zv es ls RL Hsubs1 Hs' Hrows HL1) as (rmloc & Hsub & Hk).
  exists rmloc. split; [exact Hsub|]. cbv zeta in Hk. destruct Hk as [K1 K2]. cbv zeta.
  fold subs1 in Esubs, Evals. rewrite Esubs, Evals. split; [exact K1|exact K2].
Qed.
End Zero.
