(* Proofs/W4SCpAprMu.v — bookkeeping of pyttb/cp_apr.py::tt_cp_apr_mu proved directly over the GENERATED skeleton Gen/GenCpAprMu.v
   (outer loop `for iteration in range(maxiters)`, mode loop, inner loop with the KKT break, convergence / time-limit breaks,
   the four per-iteration arrays and their slices [: iteration + 1] in the output dictionary).  All numeric kernels and the clock
   are arbitrary.  Statement (C11): whenever the function returns, at least one and at most maxiters outer iterations were
   performed and kktViolations / nInnerIters / nViolations / times have exactly one entry per outer iteration performed. *)
From Coq Require Import String List Arith Bool Lia.
From PV Require Import Model.W4SPrelude Gen.GenCpAprMu.
Import ListNotations.
Local Open Scope nat_scope.

Lemma sk_set_length {A} (l l' : list A) i v : sk_set l i v = Some l' -> length l' = length l.
Proof.
  unfold sk_set. destruct (i <? length l) eqn:E; [|discriminate]. apply Nat.ltb_lt in E. intros H.
  assert (H' : l' = firstn i l ++ v :: skipn (S i) l) by congruence. subst l'.
  rewrite app_length, firstn_length. cbn [length]. rewrite skipn_length. lia.
Qed.

Lemma sk_slice_length {A} (l : list A) n : n <= length l -> length (sk_slice 0 n l) = n.
Proof. intros H. unfold sk_slice. cbn [skipn]. rewrite Nat.sub_0_r, firstn_length. lia. Qed.

(* case analysis on every `match` / `if` of a hypothesis `... = Some _` *)
Ltac dm H :=
  repeat match type of H with
         | match ?x with _ => _ end = Some _ => let E := fresh "E" in destruct x eqn:E; try discriminate
         | (if ?x then _ else _) = Some _ => let E := fresh "E" in destruct x eqn:E; try discriminate
         end.
Ltac dmall :=
  repeat match goal with
         | Hx : match ?x with _ => _ end = Some _ |- _ => let E := fresh "E" in destruct x eqn:E; try discriminate
         | Hx : (if ?x then _ else _) = Some _ |- _ => let E := fresh "E" in destruct x eqn:E; try discriminate
         end.
Ltac invs :=
  repeat match goal with
         | E : Some _ = Some _ |- _ => inversion E; clear E; subst
         | E : (_, _) = (_, _) |- _ => inversion E; clear E; subst
         end.
Ltac lens :=
  repeat match goal with E : sk_set _ _ _ = Some _ |- _ => apply sk_set_length in E end.

Section MU.
Variables T_W T_F T_Mat T_Mask T_K T_X T_Pi : Type.
Variable c_leF : T_F -> T_F -> bool.
Variable c_zeroF c_m1F : T_F.
Variable c_subF : T_F -> T_F -> T_F.
Variable k_normalize : T_K -> nat -> T_K.
Variable k_zeros_like_factor : T_K -> nat -> T_Mat.
Variable k_time : T_W -> T_W * T_F.
Variable k_violation_mask : list T_Mat -> nat -> T_K -> T_F -> T_Mask.
Variable k_any : T_Mask -> bool.
Variable k_add_kappa : T_K -> nat -> T_Mask -> T_F -> T_K.
Variable k_redistribute : T_K -> nat -> T_K.
Variable k_calculate_pi : T_X -> T_K -> nat -> nat -> nat -> T_Pi.
Variable k_calculate_phi : T_W -> T_X -> T_K -> nat -> nat -> T_Pi -> T_F -> T_W * T_Mat.
Variable k_kkt_mode : T_K -> nat -> list T_Mat -> T_F.
Variable k_mult_update : T_K -> nat -> list T_Mat -> T_K.
Variable k_normalize_mode : T_K -> nat -> nat -> T_K.
Variable k_max : list T_F -> T_F.
Variable k_normalize_sort : T_K -> nat -> bool -> T_K.
Variable k_loglikelihood : T_X -> T_K -> T_F.

Notation gloop4 := (GenCpAprMu.cp_apr_mu_loop4 T_W T_F T_Mat T_K T_X T_Pi c_leF k_calculate_phi k_kkt_mode k_mult_update).
Notation gloop3 := (GenCpAprMu.cp_apr_mu_loop3 T_W T_F T_Mat T_Mask T_K T_X T_Pi c_leF k_violation_mask k_any k_add_kappa k_redistribute
  k_calculate_pi k_calculate_phi k_kkt_mode k_mult_update k_normalize_mode).
Notation gloop2 := (GenCpAprMu.cp_apr_mu_loop2 T_W T_F T_Mat T_Mask T_K T_X T_Pi c_leF c_subF k_time k_violation_mask k_any k_add_kappa
  k_redistribute k_calculate_pi k_calculate_phi k_kkt_mode k_mult_update k_normalize_mode k_max).
Notation gmu := (GenCpAprMu.cp_apr_mu T_W T_F T_Mat T_Mask T_K T_X T_Pi c_leF c_zeroF c_m1F c_subF k_normalize k_zeros_like_factor k_time
  k_violation_mask k_any k_add_kappa k_redistribute k_calculate_pi k_calculate_phi k_kkt_mode k_mult_update k_normalize_mode k_max
  k_normalize_sort k_loglikelihood).

Lemma sk_set_nth_error {A} (l l' : list A) i v : sk_set l i v = Some l' -> nth_error l' i = Some v.
Proof.
  unfold sk_set. destruct (i <? length l) eqn:E; [|discriminate]. apply Nat.ltb_lt in E. intros H.
  assert (H' : l' = firstn i l ++ v :: skipn (S i) l) by congruence. subst l'.
  rewrite nth_error_app2; rewrite firstn_length; [|lia]. replace (i - Nat.min i (length l)) with 0 by lia. reflexivity.
Qed.

(* ONE inner iteration (the stop rule of the mode subproblem): the inner-iteration counter of the current outer iteration is
   incremented, Phi[n] and the mode's KKT violation are recomputed; the loop is left WITHOUT updating the model iff that
   violation is < stoptol, otherwise the model is multiplied by Phi[n], isConverged is cleared and the loop goes on *)
Lemma mu_inner_step Pi eps X it n rank tol : forall fuel i M Phi cv km ni w c ni1 w1 ph Phi1 km1,
  nth_error ni it = Some c -> sk_set ni it (c + 1) = Some ni1 ->
  k_calculate_phi w X M rank n Pi eps = (w1, ph) -> sk_set Phi n ph = Some Phi1 ->
  sk_set km n (k_kkt_mode M n Phi1) = Some km1 ->
  gloop4 Pi eps X it n rank tol (S fuel) i (M, Phi, cv, km, ni, w) =
    if negb (c_leF tol (k_kkt_mode M n Phi1))
    then Some (M, Phi1, cv, km1, ni1, w1)
    else gloop4 Pi eps X it n rank tol fuel (S i) (k_mult_update M n Phi1, Phi1, false, km1, ni1, w1).
Proof.
  intros fuel i M Phi cv km ni w c ni1 w1 ph Phi1 km1 H1 H2 H3 H4 H5.
  cbn [GenCpAprMu.cp_apr_mu_loop4]. rewrite H1, H2, H3, H4, H5, (sk_set_nth_error _ _ _ _ H5). reflexivity.
Qed.

(* ONE outer iteration (the exit rules): after the sweep over the modes the iteration's KKT violation (max over the modes) and
   time stamp are stored; the loop is left iff every mode subproblem converged at once (isConverged) or the time limit is
   exceeded; `iteration` keeps the index of the last iteration *)
Lemma mu_outer_step N eps X kappa kappatol maxinner rank start stoptime tol :
  forall fuel i M Phi it km kv n ni nt nv w M1 Phi1 cv1 km1 n1 ni1 nv1 w1 kv1 w2 t nt1,
  gloop3 N eps X i kappa kappatol maxinner rank tol N 0 (M, Phi, true, km, n, ni, nv, w) = Some (M1, Phi1, cv1, km1, n1, ni1, nv1, w1) ->
  sk_set kv i (k_max km1) = Some kv1 -> k_time w1 = (w2, t) -> sk_set nt i (c_subF t start) = Some nt1 ->
  gloop2 N eps X kappa kappatol maxinner rank start stoptime tol (S fuel) i (M, Phi, it, km, kv, n, ni, nt, nv, w) =
    if cv1 then Some (M1, Phi1, Some i, km1, kv1, n1, ni1, nt1, nv1, w2)
    else if negb (c_leF (c_subF t start) stoptime) then Some (M1, Phi1, Some i, km1, kv1, n1, ni1, nt1, nv1, w2)
    else gloop2 N eps X kappa kappatol maxinner rank start stoptime tol fuel (S i) (M1, Phi1, Some i, km1, kv1, n1, ni1, nt1, nv1, w2).
Proof.
  intros fuel i M Phi it km kv n ni nt nv w M1 Phi1 cv1 km1 n1 ni1 nv1 w1 kv1 w2 t nt1 H1 H2 H3 H4.
  cbn [GenCpAprMu.cp_apr_mu_loop2]. rewrite H1, H2, H3, H4, (sk_set_nth_error _ _ _ _ H4). reflexivity.
Qed.

(* the inner loop keeps the length of nInnerIters *)
Lemma loop4_len Pi eps X it n rank tol : forall fuel i M Phi cv km ni w M' Phi' cv' km' ni' w',
  gloop4 Pi eps X it n rank tol fuel i (M, Phi, cv, km, ni, w) = Some (M', Phi', cv', km', ni', w') -> length ni' = length ni.
Proof.
  induction fuel as [|fuel IH]; intros i M Phi cv km ni w M' Phi' cv' km' ni' w' H.
  - cbn in H. inversion H. reflexivity.
  - cbn [GenCpAprMu.cp_apr_mu_loop4] in H. dm H.
    + inversion H. subst. lens. congruence.
    + apply IH in H. lens. congruence.
Qed.

(* the mode loop keeps the lengths of nInnerIters and nViolations *)
Lemma loop3_len N eps X it kappa kappatol maxinner rank tol : forall fuel i M Phi cv km n ni nv w M' Phi' cv' km' n' ni' nv' w',
  gloop3 N eps X it kappa kappatol maxinner rank tol fuel i (M, Phi, cv, km, n, ni, nv, w) = Some (M', Phi', cv', km', n', ni', nv', w') ->
  length ni' = length ni /\ length nv' = length nv.
Proof.
  induction fuel as [|fuel IH]; intros i M Phi cv km n ni nv w M' Phi' cv' km' n' ni' nv' w' H.
  - cbn in H. inversion H. split; reflexivity.
  - cbn [GenCpAprMu.cp_apr_mu_loop3] in H. dmall;
      repeat match goal with p : (_ * _)%type |- _ => destruct p end; invs;
      match goal with E : gloop4 _ _ _ _ _ _ _ _ _ _ = Some _ |- _ => apply loop4_len in E end;
      match goal with E : gloop3 _ _ _ _ _ _ _ _ _ _ _ _ = Some _ |- _ => apply IH in E; destruct E as [H1 H2] end;
      lens; split; congruence.
Qed.

(* the outer loop: array lengths are kept; the last iteration index is below the bound *)
Lemma loop2_len N eps X kappa kappatol maxinner rank start stoptime tol : forall fuel i M Phi it km kv n ni nt nv w M' Phi' it' km' kv' n' ni' nt' nv' w',
  gloop2 N eps X kappa kappatol maxinner rank start stoptime tol fuel i (M, Phi, it, km, kv, n, ni, nt, nv, w)
    = Some (M', Phi', it', km', kv', n', ni', nt', nv', w') ->
  length kv' = length kv /\ length ni' = length ni /\ length nt' = length nt /\ length nv' = length nv /\
  (fuel = 0 -> it' = it) /\ (0 < fuel -> exists j, it' = Some j /\ i <= j < i + fuel).
Proof.
  induction fuel as [|fuel IH]; intros i M Phi it km kv n ni nt nv w M' Phi' it' km' kv' n' ni' nt' nv' w' H.
  - cbn in H. inversion H. repeat split; try reflexivity. lia.
  - cbn [GenCpAprMu.cp_apr_mu_loop2] in H. dm H;
      repeat match goal with p : (_ * _)%type |- _ => destruct p end;
      match goal with E : gloop3 _ _ _ _ _ _ _ _ _ _ _ _ = Some _ |- _ => apply loop3_len in E; destruct E as [L1 L2] end.
    + inversion H. subst. lens. repeat split; try congruence; try lia. intros _. exists i. split; [reflexivity|lia].
    + inversion H. subst. lens. repeat split; try congruence; try lia. intros _. exists i. split; [reflexivity|lia].
    + apply IH in H. destruct H as (LA & LB & LC & LD & LE & LF). lens. repeat split; try congruence; try lia.
      intros _. destruct fuel as [|fuel'].
      * exists i. split; [rewrite (LE eq_refl); reflexivity|lia].
      * destruct (LF ltac:(lia)) as (j & -> & Hj). exists j. split; [reflexivity|lia].
Qed.

Theorem mu_bookkeeping : forall w X rank init stoptol stoptime maxiters maxinner eps printitn printinner kappa kappatol N
                                M kkt ninner nviol ntotal times tstop obj w',
  gmu w X rank init stoptol stoptime maxiters maxinner eps printitn printinner kappa kappatol N
    = Some (M, (kkt, ninner, nviol, ntotal, times, tstop, obj), w') ->
  1 <= length kkt <= maxiters /\ length ninner = length kkt /\ length nviol = length kkt /\ length times = length kkt.
Proof.
  intros until w'. intros H. unfold GenCpAprMu.cp_apr_mu in H. dm H;
    repeat match goal with p : (_ * _)%type |- _ => destruct p end.
  match goal with E : gloop2 _ _ _ _ _ _ _ _ _ _ _ _ _ = Some _ |- _ => apply loop2_len in E; destruct E as (LA & LB & LC & LD & LE & LF) end.
  rewrite !repeat_length in *.
  destruct maxiters as [|m].
  - specialize (LE eq_refl). discriminate.
  - destruct (LF ltac:(lia)) as (j & Ej & Hj). inversion Ej. subst.
    inversion H. subst. rewrite !sk_slice_length by lia. lia.
Qed.
End MU.
