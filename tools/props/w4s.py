"""W4S — control-flow SKELETONS of the algorithm drivers (wave 4, tools/pyx2v_skel.py).

Tie A: Gen/GenSolver.v (StochasticSolver.solve), Gen/GenHosvd.v (mode loop of hosvd: rank rule + column slice), Gen/GenCpAls.v
(main part of cp_als: maxiters == 0 block, outer loop, stop rule, epilogue) are regenerated from the source of this run; the bridge
lemmas to the hand models (Alg/C13Solver.v, Model/C10Tucker.v, Model/C09Loop.v) and the theorems of Props/W4SC13.v, W4SC10.v,
W4SC09.v are re-checked over the regenerated text.
Differential stream: the real driver runs with the numeric kernels recorded by the harness (objective estimates per epoch
boundary, eigenvalues per mode, residual / fit per sweep); the recorded oracle answers are replayed through the GENERATED
skeleton in Coq (Model/W4SHarness.v) and iteration counts / returned best index / traces / ranks are compared exactly.
Wave 5: Gen/GenSampler.v (GCPSampler constructor: default-count table, bridge to Alg/C13Config.v, Props/W4SC13b.v, op sk_sampler),
Gen/GenHosvdFull.v (whole hosvd, Props/W4SC10c.v, op sk_hosvd_full), Gen/GenCpAlsPre.v (prologue of cp_als, Props/W4SC09b.v, op
sk_cpals_pre), Gen/GenGcpOpt.v (gcp_opt + _get_initial_guess, Props/W4SC13c.v, op sk_gcp_opt with stub solvers).
Wave 7: Gen/GenCpAprPdnr.v, Gen/GenCpAprPqnr.v (row-subproblem drivers of cp_apr, Props/W4SC11b.v, ops sk_pdnr / sk_pqnr: generators, recorder,
model check and oracle live in tools/props/w4s_c11b.py and are delegated to)."""
import math
from fractions import Fraction

from vcheck import Case, gz, gzlist, gnat, gnlist, gnmat, gbool

PROP = "W4S"
LEVEL = "proof"
GEN_UNITS = ["GenSolver", "GenHosvd", "GenCpAls", "GenTuckerAls", "GenCpAprMu", "GenSampler", "GenHosvdFull", "GenCpAlsPre", "GenGcpOpt", "GenCpAprPdnr", "GenCpAprPqnr"]
COQ_TARGETS = ["Props/W4SC13.vo", "Props/W4SC10.vo", "Props/W4SC10b.vo", "Props/W4SC09.vo", "Props/W4SC11.vo", "Props/W4SC13b.vo", "Props/W4SC10c.vo", "Props/W4SC09b.vo", "Props/W4SC13c.vo", "Props/W4SC13d.vo", "Props/W4SC11b.vo", "Model/W4SHarness.vo", "Model/W4SHarnessPdnr.vo", "Model/W4SHarnessPqnr.vo"]
THEOREM_FILES = ["Props/W4SC13.v", "Props/W4SC10.v", "Props/W4SC10b.v", "Props/W4SC09.v", "Props/W4SC11.v", "Props/W4SC13b.v", "Props/W4SC10c.v", "Props/W4SC09b.v", "Props/W4SC13c.v", "Props/W4SC13d.v", "Props/W4SC11b.v"]
COQ_IMPORTS = ("From Coq Require Import List ZArith Bool.\n"
               "From PV Require Import Model.W4SHarness Model.W4SPreludeZ Gen.GenSampler Model.W4SHarnessPdnr Model.W4SHarnessPqnr.\n")
RULE = ("solve: SGD/Adam on 2x2..3x2x2 problems, rates 1e-3..30 (failing epochs), max_fails 0..2, max_iters 0..5, epoch_iters 0..3, "
        "tolerances; hosvd: dense integer data incl. exactly low-rank, scaled by 2^-30..2^30, tolerances 1e-8..0.9, given / automatic "
        "/ mixed ranks, both truncation modes, all mode orders; cp_als: small dense data, maxiters 0..6, stoptol 0..1, printitn 0/1/2, "
        "fixsigns, mode orders and optdims subsets; GCPSampler: dense / sparse tensors of 6 .. 10^9 entries (incl. no nonzeros, no zeros, "
        "a zero-length mode), every sampler kind and None on both sides, counts None / int (0, negative, bool) / StratifiedCount / a float, "
        "max_iters 0 .. 1000, every math.ceil call recorded and replayed. non-trivial = at least one loop iteration is executed / the "
        "constructor computes a default or rejects")
EXPLANATION = ("The generated skeletons keep every control-flow decision of the source (loop bounds, stop rules, rollback, trace "
               "writes and slices, rank cut-off); all numerics are Section parameters. Theorems are stated for ALL instantiations of "
               "the parameters; the stream instantiates them with the answers recorded from the real run.")
CORRESPONDENCE_ONLY = []
TRUSTED_EXTRA = ["skeleton translator tools/pyx2v_skel.py (statement-level control flow; kernels recognised by dotted name or exact source text; trusted rewritings: np.arange(d) = seq 0 d, np.zeros((d,), dtype=int) = repeat 0 d, [np.empty(1)] * d = repeat c d, parse_one_d(x) = x on int sequences; Optional[Union[int, C]] arguments as the four-way value sk_dyn; exceptions raised INSIDE a kernel are not modelled; dropped statements (print / logging / warnings calls, assignments to drop variables) are dropped together with their argument / right-hand-side expressions: a side effect inside them is invisible to the skeleton)"]
SHARD = 100


def _fr(x):
    return Fraction(float(x))


def _scale(vals):
    """list of Fractions -> (ints, scale function) over their common denominator"""
    L = 1
    for f in vals:
        L = L * f.denominator // math.gcd(L, f.denominator)
    return (lambda f: int(Fraction(f) * L))


# ------------------------------------------------------------------------------------------------- generators
def gen_cases(rng, tier):
    import props.c13_util as U
    big = tier == "thorough"
    cases = []
    # ---- stochastic solves
    for k in range(90 if big else 30):
        shp = rng.choice([(2, 2), (2, 3), (3, 2, 2), (3, 3)])
        a = U.rand_problem(rng, shp)
        a.update({"opt": rng.choice(["sgd", "adam"]), "rate": rng.choice([0.001, 0.01, 0.125, 0.5, 2.0, 30.0]),
                  "decay": rng.choice([0.1, 0.5]), "max_fails": rng.randint(0, 2), "epoch_iters": rng.choice([1, 1, 2, 3, 0]),
                  "max_iters": rng.choice([0, 1, 2, 3, 5]), "tol": rng.choice([None, None, None, 0.5, 1e6]),
                  "printitn": rng.choice([0, 0, 1, 2])})
        cases.append(Case("sk_solve", a, a["max_iters"] > 0))
    # ---- hosvd
    shapes = [(2, 2), (2, 3), (3, 2), (2, 3, 2), (3, 3, 2), (4, 2), (2, 2, 2), (3, 1, 2), (4,)]
    for k in range(120 if big else 40):
        shp = rng.choice(shapes)
        d = len(shp)
        n = math.prod(shp)
        kind = rng.choice(["rand", "rand", "lowrank", "sparseish"])
        if kind == "lowrank":
            vs = [[rng.randint(1, 4) for _ in range(s)] for s in shp]
            data = []
            for lin in range(n):          # rank-1 outer product, F order
                r, v = lin, 1
                for m, s in enumerate(shp):
                    v *= vs[m][r % s]
                    r //= s
                data.append(v)
            if rng.random() < 0.5:
                data[rng.randrange(n)] += 1
        elif kind == "sparseish":
            data = [rng.choice([0, 0, 0, 1, 5]) for _ in range(n)]
            data[0] = 3
        else:
            data = [rng.randint(-4, 9) for _ in range(n)]
            data[0] = data[0] or 1
        order = list(range(d))
        rng.shuffle(order)
        rk = rng.choice(["auto", "auto", "given", "mixed"])
        ranks = None if rk == "auto" else [(rng.randint(1, s) if (rk == "given" or rng.random() < 0.5) else 0) for s in shp]
        a = {"shape": list(shp), "data": data, "tol": rng.choice([1e-8, 1e-4, 0.01, 0.1, 0.3, 0.5, 0.9]),
             "dimorder": rng.choice([None, order]), "sequential": rng.random() < 0.6, "ranks": ranks,
             "dscale": rng.choice([0, 0, 0, -30, 30, 7])}
        cases.append(Case("sk_hosvd", a, True))
    # ---- cp_als
    for k in range(120 if big else 40):
        shp = rng.choice([(2, 2), (2, 3), (3, 2, 2), (3, 3), (2, 2, 2)])
        d = len(shp)
        n = math.prod(shp)
        R = rng.randint(1, 2)
        data = [rng.randint(0, 6) for _ in range(n)]
        data[0] = data[0] or 2
        init = [[[rng.randint(1, 8) / 4.0 for _ in range(R)] for _ in range(s)] for s in shp]
        order = list(range(d))
        rng.shuffle(order)
        optd = rng.choice([None, None, sorted(rng.sample(range(d), rng.randint(1, d)))])
        a = {"shape": list(shp), "data": data, "R": R, "init": init, "maxiters": rng.choice([0, 1, 2, 3, 4, 6]),
             "stoptol": rng.choice([0.0, 1e-6, 1e-3, 0.01, 0.05, 0.3, 1.0]), "printitn": rng.choice([0, 0, 1, 2]),
             "fixsigns": rng.random() < 0.5, "dimorder": rng.choice([None, order]), "optdims": optd}
        cases.append(Case("sk_cpals", a, a["maxiters"] > 0))
    # ---- tucker_als
    for k in range(90 if big else 30):
        shp = rng.choice([(2, 2), (2, 3), (3, 2, 2), (3, 3), (2, 2, 2), (4, 3)])
        d = len(shp)
        n = math.prod(shp)
        data = [rng.randint(-3, 6) for _ in range(n)]
        data[0] = data[0] or 2
        rank = [rng.randint(1, s) for s in shp]
        init = [[[rng.randint(1, 8) / 4.0 for _ in range(rank[m])] for _ in range(s)] for m, s in enumerate(shp)]
        order = list(range(d))
        rng.shuffle(order)
        a = {"shape": list(shp), "data": data, "rank": rank, "init": init, "maxiters": rng.choice([0, 1, 2, 3, 4, 6]),
             "stoptol": rng.choice([0.0, 1e-6, 1e-3, 0.01, 0.05, 0.3, 1.0]), "printitn": rng.choice([0, 0, 1, 2]),
             "dimorder": rng.choice([None, order])}
        cases.append(Case("sk_tucker", a, a["maxiters"] > 0))
    # ---- cp_apr, multiplicative update
    for k in range(90 if big else 30):
        shp = rng.choice([(2, 2), (2, 3), (3, 2, 2), (3, 3)])
        n = math.prod(shp)
        R = rng.randint(1, 2)
        data = [rng.choice([0, 0, 1, 2, 5]) for _ in range(n)]
        data[0] = data[0] or 1
        init = [[[rng.randint(1, 8) / 4.0 for _ in range(R)] for _ in range(s)] for s in shp]
        a = {"shape": list(shp), "data": data, "R": R, "init": init, "maxiters": rng.choice([1, 2, 3, 5]),
             "maxinner": rng.choice([1, 2, 3, 10]), "stoptol": rng.choice([1e-6, 1e-3, 0.01, 0.1, 0.5]), "printitn": rng.choice([0, 0, 1])}
        cases.append(Case("sk_mu", a, True))
    cases += _sampler_cases(rng, big)
    cases += _hosvd_full_cases(rng, big)
    cases += _cpals_pre_cases(rng, big)
    cases += _gcp_opt_cases(rng, big)
    from props import w4s_c11b as _c11b          # (wave 7; appended last: the earlier cases keep their random draws)
    cases += _c11b.gen_cases(rng, tier)
    return cases


def _gcp_opt_cases(rng, big):
    """the driver gcp_opt with stub solvers: every accepted combination class + every rejected row"""
    cases = []
    for k in range(200 if big else 80):
        valid = rng.random() < 0.55
        data = rng.choice(["dense", "dense", "sparse"]) if valid else rng.choice(["dense", "dense", "sparse", "sparse", "other"])
        shape = rng.choice([[2, 2], [2, 3], [3, 2, 2]])
        if valid:
            opt = "sgd" if data == "sparse" else rng.choice(["sgd", "lbfgsb", "lbfgsb", "adam"])
            mask = rng.choice([None, "tensor", "ndarray"]) if (data == "dense" and opt == "lbfgsb") else None
            objective = rng.choice(["enum", "tuple3"])
            init = rng.choice(["random", "random", "k_good", "seq_good"])
        else:
            opt = rng.choice(["sgd", "lbfgsb", "adam", "other"])
            mask = rng.choice([None, None, "tensor", "ndarray"])
            objective = rng.choice(["enum", "tuple3", "tuple2", "tuple4"])
            init = rng.choice(["random", "k_good", "k_shape", "k_ncomp", "seq_good", "seq_ncomp", "foo", "Random"])
        cases.append(Case("sk_gcp_opt", {"data": data, "shape": shape, "rank": rng.choice([1, 2]), "opt": opt, "mask": mask, "objective": objective,
                                         "init": init}, True))
    return cases


def _cpals_pre_cases(rng, big):
    """prologue of cp_als: valid calls of every init kind + each rejected class (rank 0, dimorder / optdims malformed, unsupported init,
    nvecs on a sumtensor, ktensor guess with wrong ndims / ncomponents / factor shape)"""
    cases = []
    shapes = [(2, 2), (2, 3), (3, 2, 2), (3, 3), (4, 2)]
    for k in range(180 if big else 70):
        shp = rng.choice(shapes)
        N = len(shp)
        rank = rng.choice([1, 2, 2])
        order = list(range(N))
        rng.shuffle(order)
        dimorder = rng.choice([None, order])
        optdims = rng.choice([None, None, sorted(rng.sample(range(N), rng.randint(1, N))), order[:rng.randint(1, N)]])
        kind = rng.choice(["random", "random", "nvecs", "ktensor", "ktensor"])
        if kind == "ktensor":
            init = ["k", [[s_, rank] for s_ in shp]]
        else:
            init = ["s", rng.choice([kind, kind, kind.upper(), kind.capitalize()])]
        sumt = False
        bad = None
        if rng.random() < 0.45:
            bad = rng.choice(["rank0", "order_dup", "order_range", "order_short", "opt_dup", "opt_range", "init_name", "init_other", "nvecs_sum",
                              "k_ndims", "k_ncomp", "k_shape", "random_sum"])
            if bad == "rank0":
                rank = 0
                if init[0] == "k":
                    init = ["k", [[s_, 1] for s_ in shp]]
            elif bad == "order_dup":
                dimorder = list(order)
                dimorder[0] = dimorder[-1]
            elif bad == "order_range":
                dimorder = list(order)
                dimorder[rng.randrange(N)] = N
            elif bad == "order_short":
                dimorder = order[:-1]
            elif bad == "opt_dup":
                optdims = [order[0], order[0]]
            elif bad == "opt_range":
                optdims = [0, N]
            elif bad == "init_name":
                init = ["s", rng.choice(["foo", "", "randomm", "nvec"])]
            elif bad == "init_other":
                init = ["o"]
            elif bad == "nvecs_sum":
                init, sumt = ["s", "nvecs"], True
            elif bad == "random_sum":          # accepted: a sumtensor with a random start
                init, sumt = ["s", "random"], True
            elif bad == "k_ndims":
                shp2 = list(shp) + [2] if rng.random() < 0.5 else list(shp)[:-1]
                init = ["k", [[s_, rank] for s_ in shp2]] if shp2 else ["k", [[2, rank]]]
            elif bad == "k_ncomp":
                init = ["k", [[s_, rank + 1] for s_ in shp]]
            elif bad == "k_shape":
                fs = [[s_, rank] for s_ in shp]
                fs[rng.randrange(N)][0] += 1
                init = ["k", fs]
        a = {"shape": list(shp), "rank": rank, "dimorder": dimorder, "optdims": optdims, "init": init, "sum": sumt, "bad": bad}
        cases.append(Case("sk_cpals_pre", a, True))
    return cases


def _hosvd_full_cases(rng, big):
    """the whole function hosvd: the mode-loop classes of sk_hosvd (own draws) + malformed ranks / dimorder requests"""
    cases = []
    shapes = [(2, 2), (2, 3), (3, 2), (2, 3, 2), (3, 3, 2), (4, 2), (2, 2, 2), (3, 1, 2), (4,)]
    for k in range(90 if big else 30):
        shp = rng.choice(shapes)
        d = len(shp)
        n = math.prod(shp)
        data = [rng.randint(-4, 9) for _ in range(n)] if rng.random() < 0.7 else [rng.choice([0, 0, 0, 1, 5]) for _ in range(n)]
        data[0] = data[0] or 3
        order = list(range(d))
        rng.shuffle(order)
        rk = rng.choice(["auto", "auto", "given", "mixed"])
        ranks = None if rk == "auto" else [(rng.randint(1, s) if (rk == "given" or rng.random() < 0.5) else 0) for s in shp]
        a = {"shape": list(shp), "data": data, "tol": rng.choice([1e-8, 1e-4, 0.01, 0.1, 0.3, 0.5, 0.9]),
             "dimorder": rng.choice([None, order]), "sequential": rng.random() < 0.6, "ranks": ranks, "dscale": rng.choice([0, 0, -30, 7]),
             "malformed": None}
        cases.append(Case("sk_hosvd_full", a, True))
    for k in range(36 if big else 14):
        shp = rng.choice(shapes[:8])
        d = len(shp)
        n = math.prod(shp)
        data = [rng.randint(1, 9) for _ in range(n)]
        ranks = [rng.randint(1, s) for s in shp]
        order = list(range(d))
        rng.shuffle(order)
        kind = rng.choice(["ranks_long", "ranks_short", "order_dup", "order_range", "order_short", "order_long"])
        dimorder = rng.choice([None, order])
        if kind == "ranks_long":
            ranks = ranks + [1]
        elif kind == "ranks_short":
            ranks = ranks[:-1]
        elif kind == "order_dup":
            dimorder = list(order)
            dimorder[0] = dimorder[-1]
        elif kind == "order_range":
            dimorder = list(order)
            dimorder[rng.randrange(d)] = d
        elif kind == "order_short":
            dimorder = order[:-1]
        else:
            dimorder = order + [order[0]]
        a = {"shape": list(shp), "data": data, "tol": 0.1, "dimorder": dimorder, "sequential": rng.random() < 0.5, "ranks": ranks, "dscale": 0,
             "malformed": kind}
        cases.append(Case("sk_hosvd_full", a, True))
    return cases


_SMP_TENSORS = [(False, [2, 3], 3), (True, [2, 3], 5), (True, [2, 3], 0), (True, [2, 3], 6), (False, [15, 10, 10], 1500),
                (True, [1000, 1000, 1000], 1500), (True, [1000, 1000, 1000], 120000), (True, [40, 50], 2000), (False, [120, 100, 100], 7),
                (False, [0, 3], 0), (False, [2, 3], 0)]          # (an sptensor with a zero-length mode cannot be constructed)
_SMP_KINDS = [None, "UNIFORM", "STRATIFIED", "SEMISTRATIFIED"]
_SMP_REQS = [None, None, 4, 0, -2, True, [2, 3], [0, 1], [7, 0], 2.5]


def _sampler_cases(rng, big):
    cases = []
    tensors = list(_SMP_TENSORS) + ([(False, [300, 200, 200], 12000000), (True, [700, 30], 20990)] if big else [])
    # every row of the table once per tensor class (the other side all defaults), then random pairs
    for (sparse, shape, nnz) in tensors[:5] if not big else tensors:
        for side in ("f", "g"):
            for kind in _SMP_KINDS:
                for req in [None, 4, [2, 3], 2.5]:
                    a = {"sparse": sparse, "shape": shape, "nnz": nnz, "max_iters": rng.choice([1000, 7, 1]), "fkind": None, "freq": None,
                         "gkind": None, "greq": None}
                    a[side + "kind"], a[side + "req"] = kind, req
                    cases.append(Case("sk_sampler", a, True))
    for k in range(400 if big else 120):
        sparse, shape, nnz = rng.choice(tensors)
        if rng.random() < 0.7:          # mostly accepted requests (a request rejected on one side hides the other side)
            fk = rng.choice([None, "STRATIFIED"] if sparse else [None, "UNIFORM"])
            gk = rng.choice([None, "STRATIFIED", "SEMISTRATIFIED", "UNIFORM"] if sparse else [None, "UNIFORM", "SEMISTRATIFIED"])
            ints, cnts = [None, None, 4, 0, -2, True], [None, None, 4, 0, True, [2, 3], [0, 1], [7, 0]]
            a = {"sparse": sparse, "shape": shape, "nnz": nnz, "max_iters": rng.choice([1000, 1000, 7, 3, 1]),
                 "fkind": fk, "freq": rng.choice(ints if (fk or ("STRATIFIED" if sparse else "UNIFORM")) == "UNIFORM" else cnts),
                 "gkind": gk, "greq": rng.choice(ints if (gk or ("STRATIFIED" if sparse else "UNIFORM")) == "UNIFORM" else cnts)}
        else:
            a = {"sparse": sparse, "shape": shape, "nnz": nnz, "max_iters": rng.choice([1000, 1000, 7, 3, 1, 0]),
                 "fkind": rng.choice(_SMP_KINDS + [None]), "freq": rng.choice(_SMP_REQS), "gkind": rng.choice(_SMP_KINDS + [None]),
                 "greq": rng.choice(_SMP_REQS)}
        cases.append(Case("sk_sampler", a, True))
    # negative counts are taken as they are (np.arange of a negative count is empty): fixed cases, no draws
    for sparse, shape, nnz, gk, greq in [(False, [2, 3], 3, "SEMISTRATIFIED", -2), (True, [2, 3], 5, "SEMISTRATIFIED", [-1, 2]),
                                         (True, [2, 3], 5, "STRATIFIED", -3), (True, [40, 50], 2000, "SEMISTRATIFIED", [0, -4])]:
        cases.append(Case("sk_sampler", {"sparse": sparse, "shape": shape, "nnz": nnz, "max_iters": 1000, "fkind": None, "freq": None, "gkind": gk,
                                         "greq": greq}, True))
    return cases


# ------------------------------------------------------------------------------------------------- pyttb runners
def _run_solve(a):
    import numpy as np
    import props.c13_util as U
    X, M0, smp = U._mk_problem(a)
    fh, gh, lb = U._objective(a)
    opt = U._mk_opt(a)
    np.random.seed(a["seed"])
    with U.EstCapture() as cap:
        result, info = opt.solve(M0, X, fh, gh, lb, smp)
    ests = [v for _, v in cap.rec]
    if any(not math.isfinite(v) for v in ests):
        return {"skip": "non-finite estimate"}
    cands = [k for k, (fm, _) in enumerate(cap.rec) if all(np.array_equal(x, y) for x, y in zip(fm, result.factor_matrices))]
    steps = []
    for v in info["step_trace"]:
        v = float(v)
        tok = -1
        if v == 0.0:
            tok = 0
        else:
            for nf in range(0, 12):
                if a["decay"] ** nf * a["rate"] == v:
                    tok = nf + 1
                    break
        steps.append(tok)
    return {"ests": [str(_fr(v)) for v in ests], "trace": [str(_fr(v)) for v in info["f_est_trace"]], "n_epoch": int(info["n_epoch"]),
            "nfails": int(opt._nfails), "ret_cands": cands, "steps": steps, "keys": sorted(info.keys())}


def _run_hosvd(a):
    import numpy as np
    import scipy.linalg
    import pyttb as ttb
    shp = tuple(a["shape"])
    data = np.array(a["data"], dtype=float).reshape(shp, order="F") * (2.0 ** a["dscale"])
    X = ttb.tensor(data.copy())
    rec = []
    orig = scipy.linalg.eigh

    def wrapped(Z, *args, **kw):
        D, V = orig(Z, *args, **kw)
        rec.append((np.array(D, dtype=float).copy(), np.array(V, dtype=float).copy()))
        return D, V
    scipy.linalg.eigh = wrapped
    try:
        T = ttb.hosvd(X, a["tol"], verbosity=0, dimorder=a["dimorder"], sequential=a["sequential"], ranks=a["ranks"])
    finally:
        scipy.linalg.eigh = orig
    d = len(shp)
    order = list(range(d)) if a["dimorder"] is None else list(a["dimorder"])
    if len(rec) != d:
        return {"exc": "Harness", "msg": f"{len(rec)} eigh calls for {d} modes"}
    normxsqr = float(np.sum(X.double().flatten(X.order) ** 2))
    thresh = ((a["tol"] ** 2) * normxsqr) / d
    Ds, pis, cols = [], [], [None] * d
    tie = False
    ranks_in = [0] * d if a["ranks"] is None else list(a["ranks"])
    for k, (D, V) in zip(order, rec):
        pi = np.argsort(-D, kind="quicksort")
        Ds.append([k, [str(_fr(v)) for v in D]])
        pis.append([[str(_fr(v)) for v in D], [int(i) for i in pi]])
        eigvec = D[pi]
        fsum = np.cumsum(eigvec[::-1])[::-1]
        exact = [sum((_fr(v) for v in eigvec[i:]), Fraction(0)) for i in range(len(eigvec))]
        if ranks_in[k] == 0 and any((float(f) > thresh) != (e > _fr(thresh)) for f, e in zip(fsum, exact)):
            tie = True          # the float comparison and the exact comparison disagree: the replay is not meaningful
        U = T.factor_matrices[k]
        c = []
        for j in range(U.shape[1]):
            hit = [i for i in range(V.shape[1]) if np.array_equal(V[:, i], U[:, j])]
            c.append(hit[0] if hit else 999)
        cols[k] = c
    return {"Ds": Ds, "pis": pis, "thresh": str(_fr(thresh)), "ranks_obs": [int(s) for s in T.core.shape], "cols": cols,
            "order": order, "ranks_in": ranks_in, "tie": tie}


def _run_cpals(a):
    import contextlib
    import io
    import numpy as np
    import pyttb as ttb
    shp = tuple(a["shape"])
    X = ttb.tensor(np.array(a["data"], dtype=float).reshape(shp, order="F"))
    init = ttb.ktensor([np.array(f, dtype=float) for f in a["init"]])

    def run(maxiters, stoptol, printitn):
        with contextlib.redirect_stdout(io.StringIO()):
            M, Mi, out = ttb.cp_als(X, a["R"], stoptol=stoptol, maxiters=maxiters, dimorder=a["dimorder"], optdims=a["optdims"],
                                    init=init.copy(), printitn=printitn, fixsigns=a["fixsigns"])
        return M, out
    resids, fits = [], []
    for m in range(a["maxiters"] + 1):
        _, out = run(m, 0.0, 0)
        if int(out["iters"]) != max(m - 1, 0):
            return {"exc": "Harness", "msg": "trace run stopped early"}
        resids.append(float(out["normresidual"]))
        fits.append(float(out["fit"]))
    M, out = run(a["maxiters"], a["stoptol"], a["printitn"])
    tie = False
    for j in range(1, len(fits) - 1):          # fits[j] = fit after j sweeps = fit of iteration j - 1
        fc = abs(fits[j] - fits[j + 1])
        ex = abs(_fr(fits[j]) - _fr(fits[j + 1]))
        if (np.abs(fits[j] - fits[j + 1]) < a["stoptol"]) != (ex < _fr(a["stoptol"])):
            tie = True
    return {"resids": [str(_fr(v)) for v in resids], "fits": [str(_fr(v)) for v in fits], "iters": int(out["iters"]),
            "normresidual": str(_fr(out["normresidual"])), "fit": str(_fr(out["fit"])), "tie": tie, "keys": sorted(out.keys())}


def _run_tucker(a):
    import contextlib
    import io
    import numpy as np
    import pyttb as ttb
    shp = tuple(a["shape"])
    X = ttb.tensor(np.array(a["data"], dtype=float).reshape(shp, order="F"))

    def run(maxiters, stoptol, printitn):
        with contextlib.redirect_stdout(io.StringIO()):
            T, Ui, out = ttb.tucker_als(X, list(a["rank"]), stoptol=stoptol, maxiters=maxiters, dimorder=a["dimorder"],
                                        init=[np.array(f, dtype=float) for f in a["init"]], printitn=printitn)
        return T, out
    # the fit trace of THIS run: tensor.norm is recorded (first call = normX, then core.norm() once per iteration); nvecs goes
    # through ARPACK with a random start vector, so separate runs do not reproduce the trace bit for bit
    rec = []
    orig = ttb.tensor.norm

    def wrapped(self_):
        r = orig(self_)
        rec.append(float(r))
        return r
    ttb.tensor.norm = wrapped
    try:
        T, out = run(a["maxiters"], a["stoptol"], a["printitn"])
    finally:
        ttb.tensor.norm = orig
    normX = rec[0]
    resids = [float(np.sqrt(abs(normX ** 2 - cn ** 2))) for cn in rec[1:]]
    fits = [float(1 - (nr / normX)) for nr in resids]
    tie = False
    prev = 0.0
    for j in range(len(fits)):
        if (abs(prev - fits[j]) < a["stoptol"]) != (abs(_fr(prev) - _fr(fits[j])) < _fr(a["stoptol"])):
            tie = True
        prev = fits[j]
    return {"resids": [str(_fr(v)) for v in resids], "fits": [str(_fr(v)) for v in fits], "iters": int(out["iters"]),
            "normresidual": str(_fr(out["normresidual"])), "fit": str(_fr(out["fit"])), "tie": tie, "keys": sorted(out.keys())}


def _run_mu(a):
    import contextlib
    import io
    import numpy as np
    import pyttb as ttb
    import sys
    mod = sys.modules["pyttb.cp_apr"]
    shp = tuple(a["shape"])
    X = ttb.tensor(np.array(a["data"], dtype=float).reshape(shp, order="F"))
    init = ttb.ktensor([np.array(f, dtype=float) for f in a["init"]])
    rec = []
    orig = mod.vectorize_for_mu

    def wrapped(m):
        r = orig(m)
        rec.append(float(np.max(np.abs(r))))
        return r
    mod.vectorize_for_mu = wrapped
    try:
        with contextlib.redirect_stdout(io.StringIO()):
            M, Mi, out = ttb.cp_apr(X, a["R"], algorithm="mu", stoptol=a["stoptol"], stoptime=1e6, maxiters=a["maxiters"], init=init.copy(),
                                    maxinneriters=a["maxinner"], printitn=a["printitn"], printinneritn=0)
    finally:
        mod.vectorize_for_mu = orig
    return {"kkts": [str(_fr(v)) for v in rec], "kkt_obs": [str(_fr(v)) for v in out["kktViolations"]],
            "ninner": [int(v) for v in out["nInnerIters"]], "nviol": [int(v) for v in out["nViolations"]], "ntotal": int(out["nTotalIters"]),
            "ntimes": int(len(out["times"])), "keys": sorted(out.keys())}


_SMP_DATA = {}


def _sampler_data(np, ttb, sparse, shape, nnz):
    key = (sparse, tuple(shape), nnz)
    if key not in _SMP_DATA:
        size = math.prod(shape)
        step = max(1, size // max(nnz, 1))
        lin = np.arange(nnz, dtype=np.int64) * step
        if sparse:
            if nnz:
                subs = np.array(np.unravel_index(lin, tuple(shape), order="F")).T.copy()
                X = ttb.sptensor(subs, np.ones((nnz, 1)), tuple(shape))
            else:
                X = ttb.sptensor(shape=tuple(shape))
        else:
            arr = np.zeros(size)
            arr[lin] = 1.0
            X = ttb.tensor(arr.reshape(tuple(shape), order="F"))
        if len(_SMP_DATA) > 3:
            _SMP_DATA.clear()
        _SMP_DATA[key] = X
    return _SMP_DATA[key]


def _sampler_readback(fn):
    """what the constructor stored, read back from the object: partial keywords / the lambda's closure cells"""
    import functools
    if isinstance(fn, functools.partial):
        kw, name = fn.keywords, fn.func.__name__
        if fn.args:
            return ["bad", "positional arguments"]
        if name == "uniform" and sorted(kw) == ["samples"] and isinstance(kw["samples"], int):
            return ["uniform", int(kw["samples"])]
        if name == "stratified" and sorted(kw) == ["num_nonzeros", "num_zeros", "nz_idx", "over_sample_rate"]:
            return ["stratified", int(kw["num_nonzeros"]), int(kw["num_zeros"])]
        if name == "semistrat" and sorted(kw) == ["num_nonzeros", "num_zeros"]:
            return ["semistrat", int(kw["num_nonzeros"]), int(kw["num_zeros"])]
        return ["bad", name]
    cells = dict(zip(fn.__code__.co_freevars, [c.cell_contents for c in (fn.__closure__ or ())]))
    if not {"exp_nonzeros", "exp_zeros"} <= set(cells):
        return ["bad", "closure " + ",".join(sorted(cells))]
    en, ez = Fraction(float(cells["exp_nonzeros"])), Fraction(float(cells["exp_zeros"]))
    return ["poisson", [en.numerator, en.denominator], [ez.numerator, ez.denominator]]


def _run_sampler(a):
    import numpy as np
    import pyttb as ttb
    from pyttb.gcp import samplers
    X = _sampler_data(np, ttb, a["sparse"], a["shape"], a["nnz"])
    size, nnz, mi = int(np.prod(X.shape)), int(X.nnz), a["max_iters"]

    def req(r):
        return samplers.StratifiedCount(num_nonzeros=r[0], num_zeros=r[1]) if isinstance(r, list) else r

    def kind(k):
        return None if k is None else getattr(samplers.Samplers, k)
    quotients = [(nnz, 100), (size, 10), (3 * nnz, mi), (10 * size, mi)]
    calls, unknown = [], []
    o_ceil = samplers.ceil

    def w_ceil(x):          # math.ceil of a float quotient: which of the source's four quotients, and the answer
        r = o_ceil(x)
        hit = [(n, d) for n, d in quotients if d != 0 and n / d == x]
        if hit:          # distinct quotients of the source can be the same float (size = nnz, max_iters = 1000): the answer serves all of them
            for n_, d_ in hit:
                if [n_, d_, int(r)] not in calls:
                    calls.append([n_, d_, int(r)])
        else:
            unknown.append(float(x))
        return r
    samplers.ceil = w_ceil
    try:
        try:
            g = samplers.GCPSampler(X, function_sampler=kind(a["fkind"]), function_samples=req(a["freq"]), gradient_sampler=kind(a["gkind"]),
                                    gradient_samples=req(a["greq"]), max_iters=mi)
        finally:
            samplers.ceil = o_ceil
    except (ValueError, ZeroDivisionError) as ex:
        return {"exc": type(ex).__name__, "msg": str(ex)[:120], "raised": True, "size": size, "nnz": nnz, "calls": calls, "unknown": unknown}
    crng = [int(x) for x in g.crng]
    return {"f": _sampler_readback(g._fsampler), "g": _sampler_readback(g._gsampler), "crng_len": len(crng),
            "crng": crng if len(crng) <= 64 else None, "crng_is_arange": crng == list(range(len(crng))),
            "size": size, "nnz": nnz, "calls": calls, "unknown": unknown}


def _run_cpals_pre(a):
    import contextlib
    import io
    import warnings
    import numpy as np
    import pyttb as ttb
    shp = tuple(a["shape"])
    n = math.prod(shp)
    X = ttb.tensor(np.arange(1, n + 1, dtype=float).reshape(shp, order="F"))
    if a["sum"]:
        X = ttb.sumtensor([X, X.copy()])
    it = a["init"]
    if it[0] == "k":
        init = ttb.ktensor([np.full((r, c), 0.5) + np.arange(r * c, dtype=float).reshape((r, c)) / 8 for r, c in it[1]])
    elif it[0] == "s":
        init = it[1]
    else:
        init = 3.5
    draws, nv = [], []
    o_uniform, o_nvecs = np.random.uniform, ttb.tensor.nvecs

    def w_uniform(lo, hi, size=None):
        draws.append([int(x) for x in size])
        return o_uniform(lo, hi, size)

    def w_nvecs(self_, n_, r_, *args, **kw):
        nv.append([int(n_), int(r_)])
        return o_nvecs(self_, n_, r_, *args, **kw)
    np.random.uniform, ttb.tensor.nvecs = w_uniform, w_nvecs
    try:
        with contextlib.redirect_stdout(io.StringIO()), warnings.catch_warnings():
            warnings.simplefilter("ignore")
            M, Minit, out = ttb.cp_als(X, a["rank"], maxiters=0, dimorder=a["dimorder"], optdims=a["optdims"], init=init, printitn=0)
    finally:
        np.random.uniform, ttb.tensor.nvecs = o_uniform, o_nvecs
    return {"order": [int(x) for x in out["params"]["dimorder"]], "optdims": [int(x) for x in out["params"]["optdims"]], "draws": draws,
            "nvecs": nv, "same": bool(Minit is init), "minit_shapes": [list(f.shape) for f in Minit.factor_matrices]}


def _run_gcp_opt(a):
    import logging
    import numpy as np
    import pyttb as ttb
    from pyttb.gcp import optimizers
    from pyttb.gcp.fg_setup import setup
    from pyttb.gcp.handles import Objectives
    shp = tuple(a["shape"])
    n = math.prod(shp)
    arr = (np.arange(1, n + 1, dtype=float) % 4 + 1).reshape(shp, order="F")
    dense = ttb.tensor(arr.copy())
    if a["data"] == "dense":
        data = dense
    elif a["data"] == "sparse":
        z = arr.copy()
        z.flat[1::2] = 0
        data = ttb.tensor(z).to_sptensor() if hasattr(ttb.tensor, "to_sptensor") else ttb.sptensor.from_tensor_type(ttb.tensor(z))
    else:
        data = arr.copy()
    h0 = setup(Objectives.GAUSSIAN, dense)
    handles = (lambda *x: h0[0](*x), lambda *x: h0[1](*x), h0[2])          # own callables: told apart from setup()'s by identity
    objective = {"enum": Objectives.GAUSSIAN, "tuple3": tuple(handles), "tuple2": tuple(handles)[:2], "tuple4": tuple(handles) + (0.0,)}[a["objective"]]
    opt = {"sgd": lambda: optimizers.SGD(max_iters=1, epoch_iters=1, printitn=0), "adam": lambda: optimizers.Adam(max_iters=1, epoch_iters=1, printitn=0),
           "lbfgsb": lambda: optimizers.LBFGSB(maxiter=1), "other": lambda: "sgd"}[a["opt"]]()
    R = a["rank"]
    fac = lambda shp_, r_: [np.full((s_, r_), 0.5) + np.arange(s_ * r_, dtype=float).reshape((s_, r_)) / 8 for s_ in shp_]
    init = {"random": lambda: "random", "Random": lambda: "Random", "foo": lambda: "foo", "k_good": lambda: ttb.ktensor(fac(shp, R)),
            "k_shape": lambda: ttb.ktensor(fac(tuple(s_ + 1 for s_ in shp), R)), "k_ncomp": lambda: ttb.ktensor(fac(shp, R + 1)),
            "seq_good": lambda: fac(shp, R), "seq_ncomp": lambda: fac(shp, R + 1)}[a["init"]]()
    mask_arr = np.ones(shp)
    mask_arr.flat[0] = 0
    mask_t = ttb.tensor(mask_arr.copy())
    mask = {None: None, "tensor": mask_t, "ndarray": mask_arr}[a["mask"]]
    rec, draws = [], []
    o_uniform = np.random.uniform
    o_s, o_l = optimizers.StochasticSolver.solve, optimizers.LBFGSB.solve

    def w_uniform(lo, hi, size=None):
        draws.append([int(x) for x in size])
        return o_uniform(lo, hi, size)

    def stub(which):
        def solve(self_, M0, data_, fh, gh, lb, last=None):
            masked = bool(float(data_.data.flat[0]) == 0.0) if isinstance(data_, ttb.tensor) else False
            lastk = 0 if last is None else (3 if last is mask_t.data else (2 if last is mask_arr else (1 if last is mask_t else 9)))
            rec.append({"which": which, "m0": M0, "masked": masked, "same_data": data_ is data, "fh": 2 if fh is handles[0] else 1, "last": lastk,
                        "draws": len(draws), "lb_tuple": lb is handles[2] or lb == handles[2]})
            return M0, {}
        return solve
    np.random.uniform = w_uniform
    optimizers.StochasticSolver.solve, optimizers.LBFGSB.solve = stub("s"), stub("l")
    lvl = logging.getLogger().level
    try:
        result, M0, info = ttb.gcp_opt(data, R, objective, opt, init=init, mask=mask, printitn=0)
    finally:
        np.random.uniform = o_uniform
        optimizers.StochasticSolver.solve, optimizers.LBFGSB.solve = o_s, o_l
    if len(rec) != 1:
        return {"exc": "Harness", "msg": f"{len(rec)} solve calls"}
    r = rec[0]
    if isinstance(init, ttb.ktensor):
        kind = "same" if M0 is init else "other"
    elif isinstance(init, list):
        kind = "fromseq" if isinstance(M0, ttb.ktensor) and all(np.shape(x) == np.shape(y) for x, y in zip(M0.factor_matrices, init)) else "other"
    else:
        kind = "built"
    return {"which": r["which"], "masked": r["masked"], "same_data": r["same_data"], "fh": r["fh"], "last": r["last"], "draws": r["draws"],
            "draw_sizes": draws[:r["draws"]], "m0_kind": kind, "m0_is_start": r["m0"] is M0, "result_is_m0": result is M0,
            "main_time": "main_time" in info, "m0_shapes": [list(f.shape) for f in M0.factor_matrices]}


def run_impl(c):
    if c.op in ("sk_pdnr", "sk_pqnr"):
        from props import w4s_c11b as _c11b
        return _c11b.run_impl(c)
    try:
        if c.op == "sk_gcp_opt":
            return _run_gcp_opt(c.args)
        if c.op == "sk_cpals_pre":
            return _run_cpals_pre(c.args)
        if c.op == "sk_sampler":
            return _run_sampler(c.args)
        if c.op == "sk_mu":
            return _run_mu(c.args)
        if c.op == "sk_tucker":
            return _run_tucker(c.args)
        if c.op == "sk_solve":
            return _run_solve(c.args)
        if c.op in ("sk_hosvd", "sk_hosvd_full"):
            return _run_hosvd(c.args)
        if c.op == "sk_cpals":
            return _run_cpals(c.args)
    except Exception as ex:
        return {"exc": type(ex).__name__, "msg": str(ex)[:200]}
    raise ValueError(c.op)


# ------------------------------------------------------------------------------------------------- model checks
def _glz(l):
    return gzlist(l)


def _pairs_nat_zlist(ps, z):
    if not ps:
        return "(@nil (nat * list Z))"
    return "[" + "; ".join(f"({gnat(k)}, {gzlist([z(v) for v in D])})" for k, D in ps) + "]"


def _pairs_zlist_nlist(ps, z):
    if not ps:
        return "(@nil (list Z * list nat))"
    return "[" + "; ".join(f"({gzlist([z(v) for v in D])}, {gnlist(p)})" for D, p in ps) + "]"


def coq_check(c, o):
    if c.op in ("sk_pdnr", "sk_pqnr"):
        from props import w4s_c11b as _c11b
        return _c11b.coq_check(c, o)
    a = c.args
    if o.get("skip"):
        return None
    if c.op == "sk_solve":
        if "exc" in o:
            if "Infinite gradient" in o.get("msg", ""):
                return None
            if o["exc"] == "ValueError" and "broadcast" in o.get("msg", "") and a.get("sparse"):
                return None          # short zero supply of the stratified sampler (open finding C13-S1, attributed by c13.py): the sampler KERNEL raises
            if o["exc"] in ("UnboundLocalError", "NameError") and a["epoch_iters"] == 0 and a["max_iters"] > 0:
                return f"zsk_solve_raises [0%Z] {gnat(a['max_iters'])} 0%nat {gnat(a['max_fails'])} 0%Z"
            return "false"
        fr = [Fraction(x) for x in o["ests"]] + [Fraction(x) for x in o["trace"]]
        tol = None if a["tol"] is None else _fr(a["tol"])
        z = _scale(fr + ([tol] if tol is not None else []))
        ests = [z(Fraction(x)) for x in o["ests"]]
        trace = [z(Fraction(x)) for x in o["trace"]]
        tolz = (min(ests + [0]) - 1) if tol is None else z(tol)
        if any(s < 0 for s in o["steps"]) or o["keys"] != ["f_est_trace", "n_epoch", "step_trace", "time_trace"]:
            return "false"
        return (f"zsk_solve_ok {_glz(ests)} {gnat(a['max_iters'])} {gnat(a['epoch_iters'])} {gnat(a['max_fails'])} {gz(tolz)} "
                f"{gnlist(o['ret_cands'])} {gnat(o['nfails'])} {gnat(o['n_epoch'])} {_glz(trace)} {gnlist(o['steps'])}")
    if c.op == "sk_hosvd":
        if "exc" in o:
            return "false"
        if o["tie"]:
            return None
        fr = [Fraction(v) for _, D in o["Ds"] for v in D] + [Fraction(o["thresh"])]
        z = _scale(fr)
        order = o["order"]
        d = len(a["shape"])
        return (f"zsk_hosvd_ok {_pairs_nat_zlist(o['Ds'], z)} {_pairs_zlist_nlist(o['pis'], z)} {gnlist(order)} {gnlist(o['ranks_in'])} "
                f"{gz(z(Fraction(o['thresh'])))} {gbool(a['sequential'])} {gnlist(o['ranks_obs'])} {gnmat(o['cols'])}")
    if c.op == "sk_gcp_opt":
        shp, R = a["shape"], a["rank"]
        dk = {"dense": 0, "sparse": 1, "other": 2}[a["data"]]
        ok_ = {"enum": 0, "tuple3": 3, "tuple2": 2, "tuple4": 4}[a["objective"]]
        op_ = {"sgd": 0, "adam": 0, "lbfgsb": 1, "other": 2}[a["opt"]]
        mk = {None: 0, "tensor": 1, "ndarray": 2}[a["mask"]]
        zi = {"random": "(ZGStr true)", "Random": "(ZGStr false)", "foo": "(ZGStr false)", "k_good": "(ZGK false false 0)", "k_shape": "(ZGK true false 0)",
              "k_ncomp": "(ZGK false true 0)", "seq_good": "(ZGSeq false false)", "seq_ncomp": "(ZGSeq false true)"}[a["init"]]
        head = f"({gnat(dk)}, {gnat(len(shp))}, false) {gnat(ok_)} {gnat(op_)} {zi} {gnat(mk)}"
        if "exc" in o:
            return f"zsk_gcp_opt_raises {head}" if o["exc"] == "ValueError" else "false"
        if not (o["m0_is_start"] and o["result_is_m0"] and o["main_time"]) or o["m0_shapes"] != [[s_, R] for s_ in shp]:
            return "false"
        masked_model = dk == 0 and mk == 1          # the mask product is applied to dense data with a tensor mask (token: data third component)
        if o["masked"] != masked_model or o["same_data"] == masked_model:          # `data *= mask` rebinds (tensor has no __imul__): a new object
            return "false"
        if o["m0_kind"] == "same" or o["m0_kind"] == "fromseq":
            m0 = "(ZGK false false 1)"
        elif o["m0_kind"] == "built":
            m0 = "(ZGBuilt " + gnlist([100 + k if d_ == [shp[k] if k < len(shp) else -1, R] else 999 for k, d_ in enumerate(o["draw_sizes"])]) + " 11)"
        else:
            return "false"
        info = (10 + o["fh"] if o["which"] == "s" else 20 + 10 * o["last"] + o["fh"]) + 100
        return f"zsk_gcp_opt_ok {head} {m0} {gnat(info)} {gnat(o['draws'])}"
    if c.op == "sk_cpals_pre":
        shp, rank = a["shape"], a["rank"]
        N = len(shp)

        def optl(l):
            return "None" if l is None else f"(Some {gnlist(l)})"
        it = a["init"]
        if it[0] == "k":          # the shape test of the source, evaluated by the harness on the request
            badm = [m for m in range(min(N, len(it[1]))) if tuple(it[1][m]) != (shp[m], rank)]
            zi = f"(ZK {gnat(len(it[1]))} {gnat(it[1][0][1])} {gnlist(badm)} 7)"
        elif it[0] == "s":
            zi = f"(ZStr {dict(random=0, nvecs=1).get(it[1].lower(), 2)})"
        else:
            zi = "ZOther"
        head = f"({gnat(N)}, {gbool(a['sum'])}) {gnat(rank)} {optl(a['dimorder'])} {optl(a['optdims'])} {zi}"
        if "exc" in o:
            return f"zsk_cpals_pre_raises {head}" if o["exc"] == "AssertionError" else "false"
        if it[0] == "k":
            obs = zi if o["same"] else "ZOther"
        elif o["draws"]:
            obs = "(ZBuilt " + gnlist([100 + k if d_ == [shp[k] if k < N else -1, rank] else 999 for k, d_ in enumerate(o["draws"])]) + ")"
        else:
            obs = "(ZBuilt " + gnlist([200 + n_ if r_ == rank else 999 for n_, r_ in o["nvecs"]]) + ")"
        if it[0] != "k" and o["minit_shapes"] != [[s_, rank] for s_ in shp]:
            return "false"
        return f"zsk_cpals_pre_ok {head} {gnlist(o['order'])} {gnlist(o['optdims'])} {obs} {gnat(len(o['draws']))}"
    if c.op == "sk_hosvd_full":
        d = len(a["shape"])

        def optl(l):
            return "None" if l is None else f"(Some {gnlist(l)})"
        if "exc" in o:
            # a malformed request must be rejected by the argument checks (given ranks >= 1: the loop itself cannot fail on the empty tables)
            if a["malformed"] and o["exc"] == "ValueError":
                return f"zsk_hosvd_full_raises (@nil (nat * list Z)) (@nil (list Z * list nat)) {gnat(d)} {optl(a['dimorder'])} {optl(a['ranks'])} 0%Z {gbool(a['sequential'])}"
            return "false"
        if a["malformed"]:
            return "false"
        if o["tie"]:
            return None
        z = _scale([Fraction(v) for _, D in o["Ds"] for v in D] + [Fraction(o["thresh"])])
        return (f"zsk_hosvd_full_ok {_pairs_nat_zlist(o['Ds'], z)} {_pairs_zlist_nlist(o['pis'], z)} {gnat(d)} {optl(a['dimorder'])} {optl(a['ranks'])} "
                f"{gz(z(Fraction(o['thresh'])))} {gbool(a['sequential'])} {gnlist(o['ranks_obs'])} {gnmat(o['cols'])}")
    if c.op == "sk_cpals":
        if "exc" in o:
            if o["exc"] == "LinAlgError":
                return None          # singular normal equations (rank-deficient data, R above the unfolding rank): the solve kernel raises — outside the skeleton
            return "false"
        if o["tie"]:
            return None
        fr = [Fraction(x) for x in o["resids"] + o["fits"] + [o["normresidual"], o["fit"]]] + [_fr(a["stoptol"])]
        z = _scale(fr)
        resids = [z(Fraction(x)) for x in o["resids"]]
        fits = [z(Fraction(x)) for x in o["fits"]]
        table = list(zip(resids, fits)) + [(z(Fraction(o["normresidual"])), z(Fraction(o["fit"])))]
        tab = "[" + "; ".join(f"({gz(r)}, {gz(f)})" for r, f in table) + "]"
        d = len(a["shape"])
        order = list(range(d)) if a["dimorder"] is None else a["dimorder"]
        optd = list(range(d)) if a["optdims"] is None else a["optdims"]
        if o["keys"] != ["fit", "iters", "normresidual", "params"]:
            return "false"
        return (f"zsk_cpals_ok {_glz(resids)} {tab} {gz(z(Fraction(o['normresidual'])))} {gnat(d)} {gnlist(order)} {gnlist(optd)} "
                f"{gnat(a['maxiters'])} {gz(z(_fr(a['stoptol'])))} {gnat(max(a['printitn'], 0))} {gbool(a['fixsigns'])} "
                f"{gnat(o['iters'])} {gz(z(Fraction(o['normresidual'])))} {gz(z(Fraction(o['fit'])))}")
    if c.op == "sk_mu":
        if "exc" in o:
            return "false"
        if any(o["nviol"]):
            return None          # kappa adjustments happened: outside the replay instantiation (k_any = false)
        if [k for k in o["keys"] if k != "algorithm"] != ["kktViolations", "nInnerIters", "nTotalIters", "nViolations", "obj", "params", "times", "totalTime"]:
            return "false"
        fr = [Fraction(x) for x in o["kkts"] + o["kkt_obs"]] + [_fr(a["stoptol"])]
        z = _scale(fr)
        return (f"zsk_mu_ok {_glz([z(Fraction(x)) for x in o['kkts']])} {gnat(len(a['shape']))} {gnat(a['maxiters'])} {gnat(a['maxinner'])} "
                f"{gz(z(_fr(a['stoptol'])))} {_glz([z(Fraction(x)) for x in o['kkt_obs']])} {gnlist(o['ninner'])} {gnat(o['ntotal'])} {gnat(o['ntimes'])}")
    if c.op == "sk_sampler":
        if o.get("unknown") or ("exc" in o and not o.get("raised")):
            return "false"
        calls = "(@nil (Z * Z * Z))" if not o["calls"] else "[" + "; ".join(f"({gz(n)}, {gz(d)}, {gz(r)})" for n, d, r in o["calls"]) + "]"

        def kd(k):
            return "None" if k is None else f"(Some Samplers_{k})"

        def rq(r):
            if r is None:
                return "SkNone"
            if isinstance(r, (bool, int)):
                return f"(SkInt {gz(int(r))})"
            if isinstance(r, list):
                return f"(SkObj {{| StratifiedCount_num_zeros := {gz(r[1])}; StratifiedCount_num_nonzeros := {gz(r[0])} |}})"
            return "SkOther"
        head = (f"{calls} ({gbool(a['sparse'])}, {gz(o['size'])}, {gz(o['nnz'])}) {kd(a['fkind'])} {rq(a['freq'])} {kd(a['gkind'])} {rq(a['greq'])} "
                f"{gz(a['max_iters'])}")
        if "exc" in o:
            return f"zsk_sampler_raises {head}"

        def ob(c_):
            if c_[0] == "uniform":
                return f"(OUniform {gz(c_[1])})"
            if c_[0] == "stratified":
                return f"(OStratified {gz(c_[1])} {gz(c_[2])})"
            if c_[0] == "semistrat":
                return f"(OSemistrat {gz(c_[1])} {gz(c_[2])})"
            if c_[0] == "poisson":
                return f"(OPoisson ({gz(c_[1][0])}, {gz(c_[1][1])}) ({gz(c_[2][0])}, {gz(c_[2][1])}))"
            return None
        fo, go = ob(o["f"]), ob(o["g"])
        if fo is None or go is None or not o["crng_is_arange"]:
            return "false"
        ent = "None" if o["crng"] is None else f"(Some {gzlist(o['crng'])})"
        return f"zsk_sampler_ok {head} {fo} {go} {gz(o['crng_len'])} {ent}"
    if c.op == "sk_tucker":
        d = len(a["shape"])
        order = list(range(d)) if a["dimorder"] is None else a["dimorder"]
        if "exc" in o:
            if o["exc"] in ("UnboundLocalError", "NameError") and a["maxiters"] == 0:      # finding C10-N01 (known): `core` unbound
                return f"zsk_tucker_raises {gnat(d)} {gnlist(order)} 0%nat"
            return "false"
        if o["tie"]:
            return None
        fr = [Fraction(x) for x in o["resids"] + o["fits"] + [o["normresidual"], o["fit"]]] + [_fr(a["stoptol"])]
        z = _scale(fr)
        resids = [z(Fraction(x)) for x in o["resids"]]
        fits = [z(Fraction(x)) for x in o["fits"]]
        tab = "[" + "; ".join(f"({gz(r)}, {gz(f)})" for r, f in zip(resids, fits)) + "]" if resids else "(@nil (Z * Z))"
        if o["keys"] != ["fit", "iters", "normresidual", "params"]:
            return "false"
        return (f"zsk_tucker_ok {_glz(resids)} {tab} {gnat(d)} {gnlist(order)} {gnat(a['maxiters'])} {gz(z(_fr(a['stoptol'])))} "
                f"{gnat(o['iters'])} {gz(z(Fraction(o['normresidual'])))} {gz(z(Fraction(o['fit'])))}")
    raise ValueError(c.op)


# ------------------------------------------------------------------------------------------------- oracle
def oracle(c, o):
    """brute force on pyttb's own observations: does the statement of C13 / C10 / C09 about the control flow hold? (pure Python)"""
    if c.op in ("sk_pdnr", "sk_pqnr"):
        from props import w4s_c11b as _c11b
        return _c11b.oracle(c, o)
    a = c.args
    if c.op == "sk_sampler":
        # C13 about the defaults: no default count exceeds what the tensor holds (pure Python on the read-back)
        if "exc" in o:
            return None
        for side, conf in (("f", o["f"]), ("g", o["g"])):
            if a[side + "req"] is not None:
                continue
            if conf[0] == "uniform" and not (0 <= conf[1] <= o["size"]):
                return f"default uniform count {conf[1]} outside 0..{o['size']}"
            if conf[0] in ("stratified", "semistrat") and not (0 <= conf[1] <= o["nnz"] and 0 <= conf[2] <= o["size"] - o["nnz"]):
                return f"default stratified counts {conf[1:]} exceed nonzeros {o['nnz']} / zeros {o['size'] - o['nnz']}"
        return None
    if c.op == "sk_gcp_opt":
        return None if ("exc" not in o or o["exc"] == "ValueError") else f"raised {o['exc']}: {o.get('msg')}"
    if c.op == "sk_cpals_pre":
        rejected = a["bad"] not in (None, "random_sum")
        if rejected != (o.get("exc") == "AssertionError") or ("exc" in o and o["exc"] != "AssertionError"):
            return f"request class {a['bad']}: outcome {o.get('exc', 'returned')}"
        return None
    if c.op == "sk_hosvd_full" and ("exc" in o or a["malformed"]):
        return None if (a["malformed"] and o.get("exc") == "ValueError") else f"malformed={a['malformed']} outcome={o.get('exc', 'returned')}"
    if c.op == "sk_cpals" and o.get("exc") == "LinAlgError":
        return None
    if "exc" in o or o.get("skip"):
        return None if (a.get("epoch_iters") == 0 or (c.op == "sk_tucker" and a["maxiters"] == 0)) else (f"raised {o.get('exc')}: {o.get('msg')}" if "exc" in o else None)
    if c.op == "sk_solve":
        ests = [Fraction(x) for x in o["ests"]]
        trace = [Fraction(x) for x in o["trace"]]
        if trace != ests:
            return f"reported trace {len(trace)} values is not the start value + one value per completed epoch ({len(ests)})"
        if not any(ests[k] == min(trace) for k in o["ret_cands"]):
            return "returned model is not a model whose estimate is the smallest value of the trace"
        if len(trace) - 1 > a["max_iters"]:
            return "more epochs than max_iters"
        return None
    if c.op in ("sk_hosvd", "sk_hosvd_full"):
        th = Fraction(o["thresh"])
        for (k, D), (_, p) in zip(o["Ds"], o["pis"]):
            if o["ranks_in"][k] != 0:
                if o["ranks_obs"][k] != min(o["ranks_in"][k], len(D)):
                    return f"mode {k}: {o['ranks_obs'][k]} columns kept, {o['ranks_in'][k]} requested"
                continue
            eig = sorted((Fraction(v) for v in D), reverse=True)
            r = o["ranks_obs"][k]
            if sum(eig[r:], Fraction(0)) > th:
                return f"mode {k}: discarded eigenvalue energy exceeds the budget with {r} columns"
            if r >= 1 and sum(eig[r - 1:], Fraction(0)) <= th and r > 1:
                return f"mode {k}: {r} columns kept although {r - 1} meet the budget"
        return None
    if c.op == "sk_mu":
        n = len(o["kkt_obs"])
        if not (1 <= n <= a["maxiters"]) or len(o["ninner"]) != n or o["ntimes"] != n:
            return "reported arrays do not have one entry per outer iteration performed / iteration limit exceeded"
        if any(Fraction(x) < 0 for x in o["kkt_obs"]):
            return "negative KKT violation reported"
        return None
    if c.op == "sk_tucker":
        fits = [Fraction(x) for x in o["fits"]]
        st = _fr(a["stoptol"])
        exp = a["maxiters"] - 1
        prev = Fraction(0)
        for it in range(a["maxiters"]):
            if abs(prev - fits[it]) < st:
                exp = it
                break
            prev = fits[it]
        return None if o["iters"] == exp else f"iters = {o['iters']} but the stop rule on the fit trace gives {exp}"
    if c.op == "sk_cpals":
        fits = [Fraction(x) for x in o["fits"]]
        st = _fr(a["stoptol"])
        exp = max(a["maxiters"] - 1, 0)
        for it in range(1, a["maxiters"]):
            if abs(fits[it] - fits[it + 1]) < st:
                exp = it
                break
        if o["iters"] != exp:
            return f"iters = {o['iters']} but the stop rule on the fit trace gives {exp}"
        if o["iters"] + 1 > max(a["maxiters"], 1):
            return "iteration limit exceeded"
        return None
    return None
