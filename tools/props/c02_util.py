"""helpers for tools/props/c02.py: operands in five representations (JSON-able), pure-Python brute-force
evaluation (oracle side, no numpy), pyttb object builders, observation extractors, Gallina writers."""
import itertools
import math

from vcheck import gz, gzlist, gnlist, gnmat
import tgen


# ---------------------------------------------------------------- operands (JSON-able dicts)
def X_dense(shape, data):
    return {"rep": "dense", "shape": list(shape), "data": list(data)}


def X_sparse(shape, subs, vals):
    return {"rep": "sparse", "shape": list(shape), "subs": [list(s) for s in subs], "vals": list(vals)}


def X_k(weights, factors):
    return {"rep": "k", "weights": list(weights), "factors": factors}


def X_t(core_shape, core_data, factors):
    return {"rep": "t", "core_shape": list(core_shape), "core_data": list(core_data), "factors": factors}


def X_sum(parts):
    return {"rep": "sum", "parts": parts}


def shape_of(x):
    r = x["rep"]
    if r in ("dense", "sparse"):
        return list(x["shape"])
    if r in ("k", "t"):
        return [len(f) for f in x["factors"]]
    return shape_of(x["parts"][0])


def all_subs(shape):
    return tgen.all_subs(shape)


def pdense(x):
    """F-order value list of the array the operand denotes (pure Python loops)"""
    r = x["rep"]
    shp = shape_of(x)
    if r == "dense":
        return list(x["data"])
    if r == "sparse":
        d = {}
        for s, v in zip(x["subs"], x["vals"]):
            d[tuple(s)] = v
        return [d.get(tuple(i), 0) for i in all_subs(shp)]
    if r == "k":
        R = len(x["weights"])
        out = []
        for i in all_subs(shp):
            t = 0
            for c in range(R):
                p = x["weights"][c]
                for n, f in enumerate(x["factors"]):
                    p *= f[i[n]][c]
                t += p
            out.append(t)
        return out
    if r == "t":
        cs = all_subs(x["core_shape"])
        out = []
        for i in all_subs(shp):
            t = 0
            for j, g in zip(cs, x["core_data"]):
                if g == 0:
                    continue
                p = g
                for n, f in enumerate(x["factors"]):
                    p *= f[i[n]][j[n]]
                t += p
            out.append(t)
        return out
    if r == "sum":
        ps = [pdense(p) for p in x["parts"]]
        return [sum(col) for col in zip(*ps)]
    raise ValueError(r)


def pfun(x):
    """dict subscript-tuple -> value"""
    return dict(zip(map(tuple, all_subs(shape_of(x))), pdense(x)))


def mat_np(np, m, ncols=None):
    a = np.array(m, dtype=float)
    if a.ndim != 2:
        a = a.reshape((len(m), ncols if ncols is not None else 0))
    return a


def relayout(np, a, lay):
    """the same array values in another memory layout: 0 as built (C order), 1 Fortran order, 2 a strided (non-contiguous)
    view into a larger buffer, 3 a transposed view of the C-ordered transpose (F-contiguous, not owning its data)"""
    a = np.asarray(a)
    if lay == 1:
        return np.asfortranarray(a)
    if lay == 2:
        big = np.zeros(tuple(2 * d for d in a.shape), dtype=a.dtype)
        view = big[tuple(slice(None, None, 2) for _ in a.shape)]
        view[...] = a
        return view
    if lay == 3 and a.ndim == 2:
        return np.ascontiguousarray(a.T).T
    return np.ascontiguousarray(a)


def grow_dense(ttb, np, T, hist):
    """the same dense tensor reached through a HISTORY of public operations that leaves `data` in another memory layout: the tensor starts
    as its leading block (one less along every mode longer than 1) and is ENLARGED by an assignment past its bounds - hist 'entry': the
    last entry alone (tensor.__setitem__ with a subscript), 'block': the whole array (sub-tensor assignment) - which rebuilds `data` with
    np.zeros(newshape) (C-ordered); the remaining entries are then written in bounds.  None / nothing to grow: T itself."""
    shp = tuple(int(d) for d in T.shape)
    if not hist or not shp or max(shp) < 2:
        return T
    full = np.array(T.data, order="F", copy=True)
    X = ttb.tensor(np.array(full[tuple(slice(0, max(1, d - 1)) for d in shp)], order="F", copy=True))
    whole = tuple(slice(0, d) for d in shp)
    if hist == "entry":
        last = tuple(d - 1 for d in shp)
        X[last] = full[last]
    X[whole] = full
    if tuple(int(d) for d in X.shape) != shp or not np.array_equal(X.data, full):
        raise RuntimeError("harness: growth history did not reproduce the operand")
    return X


def mk_obj(ttb, np, x):
    """pyttb object of an operand literal.  Optional keys: dense `hist` / Tucker `corehist` ('entry' | 'block': see grow_dense); sparse `origin` ('shape_only': sptensor(shape=...) for an operand without
    stored entry; 'cancel': the operand arises from a computation, (S + T) - T with the auxiliary sparse tensor x['aux']);
    Kruskal / Tucker `lay`: after construction the factor matrices are re-assigned in the given memory layout (as a user may do, or as
    normalize / arrange leave them): list of layout codes, one per factor."""
    r = x["rep"]
    if r == "dense":
        return grow_dense(ttb, np, tgen.mk_tensor(ttb, np, x["shape"], x["data"]), x.get("hist"))
    if r == "sparse":
        org = x.get("origin")
        if org == "shape_only" and not x["subs"]:
            return ttb.sptensor(shape=tuple(x["shape"]))
        S = tgen.mk_sptensor(ttb, np, x["shape"], x["subs"], x["vals"])
        if org == "cancel":
            T = tgen.mk_sptensor(ttb, np, x["shape"], x["aux"][0], x["aux"][1])
            S = (S + T) - T
            if not isinstance(S, ttb.sptensor):
                raise TypeError("sptensor + sptensor - sptensor is not an sptensor")
        return S
    if r == "k":
        R = len(x["weights"])
        K = ttb.ktensor([mat_np(np, f, R) for f in x["factors"]], np.array(x["weights"], dtype=float), copy=True)
        for n, lay in enumerate(x.get("lay") or []):
            K.factor_matrices[n] = relayout(np, K.factor_matrices[n], lay)
        return K
    if r == "t":
        core = grow_dense(ttb, np, tgen.mk_tensor(ttb, np, x["core_shape"], x["core_data"]), x.get("corehist"))
        # corehist: the core was enlarged by assignment before and is kept BY REFERENCE (copy=False; factors Fortran-ordered as that path demands)
        T = ttb.ttensor(core, [np.asfortranarray(mat_np(np, f, c)) for f, c in zip(x["factors"], x["core_shape"])], copy=not x.get("corehist"))
        for n, lay in enumerate(x.get("lay") or []):
            T.factor_matrices[n] = relayout(np, T.factor_matrices[n], lay)
        return T
    if r == "sum":
        return ttb.sumtensor([mk_obj(ttb, np, p) for p in x["parts"]], copy=True)
    raise ValueError(r)


# ---------------------------------------------------------------- observations
def obs_any(np, ttb, r):
    if isinstance(r, ttb.tensor):
        return dict(k="dense", **tgen.obs_dense(np, r))
    if isinstance(r, ttb.sptensor):
        return dict(k="sparse", **tgen.obs_sparse(np, r))
    if isinstance(r, ttb.ktensor):
        return dict(k="ktensor", **tgen.obs_ktensor(np, r))
    if isinstance(r, ttb.ttensor):
        return {"k": "ttensor", "core": obs_any(np, ttb, r.core), "factors": [tgen.obs_matrix(np, f) for f in r.factor_matrices]}
    if isinstance(r, ttb.sumtensor):
        return {"k": "sum", "parts": [obs_any(np, ttb, p) for p in r.parts]}
    if isinstance(r, np.ndarray):
        return dict(k="array", **tgen.obs_dense(np, r))
    if isinstance(r, (list, tuple)):
        return {"k": "list", "items": [obs_any(np, ttb, p) for p in r]}
    return {"k": "scalar", "v": tgen.exact(r)}


def obs_ints(o):
    """all numbers in an observation are exact integers"""
    k = o["k"]
    if k == "scalar":
        return isinstance(o["v"], int)
    if k in ("dense", "array"):
        return tgen.all_int(o["data"])
    if k == "sparse":
        return tgen.all_int(o["vals"])
    if k == "ktensor":
        return tgen.all_int(o["weights"]) and all(tgen.all_int(r) for f in o["factors"] for r in f)
    if k == "ttensor":
        return obs_ints(o["core"]) and all(tgen.all_int(r) for f in o["factors"] for r in f)
    if k in ("sum", "list"):
        return all(obs_ints(p) for p in o.get("parts", o.get("items")))
    return False


def obs_pdense(o):
    """(shape, F-order values) of a tensor-like observation, pure Python (oracle side)"""
    k = o["k"]
    if k == "scalar":
        return [], [o["v"]]
    if k in ("dense", "array"):
        return o["shape"], o["data"]
    if k == "sparse":
        return o["shape"], pdense(X_sparse(o["shape"], o["subs"], o["vals"]))
    if k == "ktensor":
        x = X_k(o["weights"], o["factors"])
        return shape_of(x), pdense(x)
    if k == "ttensor":
        cs, cd = obs_pdense(o["core"])
        x = X_t(cs, cd, o["factors"])
        return shape_of(x), pdense(x)
    if k == "sum":
        ps = [obs_pdense(p) for p in o["parts"]]
        return ps[0][0], [sum(col) for col in zip(*[p[1] for p in ps])]
    raise ValueError(k)


# ---------------------------------------------------------------- Gallina writers
def gmat(m):
    return tgen.gmatrix(m)


def gden(x):
    """Gallina expression : idx -> Z, the denotation of the operand literal"""
    r = x["rep"]
    shp = gnlist(shape_of(x))
    if r == "dense":
        return f"(zden {tgen.gdense(x['shape'], x['data'])})"
    if r == "sparse":
        return f"(zmemo {shp} (zden_sp {tgen.gsparse(x['shape'], x['subs'], x['vals'])}))"
    if r == "k":
        return f"(zmemo {shp} (zden_k {tgen.gktensor(x['weights'], x['factors'])}))"
    if r == "t":
        return f"(zmemo {shp} (zden_t {tgen.gttensor(x['core_shape'], x['core_data'], x['factors'])}))"
    if r == "sum":
        return f"(zmemo {shp} (zden_sum [" + "; ".join(gden(p) for p in x["parts"]) + "]))"
    raise ValueError(r)


def gobs(o):
    """(wf bool expr, shape nat-list expr, den expr) of a tensor-like observation"""
    k = o["k"]
    if k in ("dense", "array"):
        d = tgen.gdense(o["shape"], o["data"])
        return f"wf_denseb {d}", gnlist(o["shape"]), f"(zden {d})"
    if k == "sparse":
        s = tgen.gsparse(o["shape"], o["subs"], o["vals"])
        ok = "true" if o["nnz"] == len(o["subs"]) == len(o["vals"]) else "false"
        return f"(sp_okb {s} && {ok})", gnlist(o["shape"]), f"(zden_sp {s})"
    if k == "ktensor":
        kk = tgen.gktensor(o["weights"], o["factors"])
        return (f"forallb (fun A => forallb (fun r => Nat.eqb (length r) (krank {kk})) A) (kfactors {kk})",
                f"(kshape {kk})", f"(zden_k {kk})")
    if k == "ttensor":
        wf, cs, cden = gobs(o["core"])
        core = f"(ztab {cs} {cden})"
        tt = f"(mkT {core} [" + "; ".join(gmat(f) for f in o["factors"]) + "])"
        return wf, f"(tshape {tt})", f"(zden_t {tt})"
    if k == "sum":
        ps = [gobs(p) for p in o["parts"]]
        wf = " && ".join([p[0] for p in ps] + [f"nvec_eqb {p[1]} {ps[0][1]}" for p in ps[1:]])
        return f"({wf})", ps[0][1], "(zden_sum [" + "; ".join(p[2] for p in ps) + "])"
    raise ValueError(k)


def gmatch(shape, fexpr, o):
    """bool expr: the observation is well formed, has this shape and denotes fexpr (scalar: shape must be [])"""
    if not obs_ints(o):
        return "false"
    if o["k"] == "scalar":
        if shape:
            return "false"
        return f"({fexpr} (@nil nat) =? {gz(o['v'])})%Z"
    wf, s, d = gobs(o)
    return f"({wf} && nvec_eqb {s} {gnlist(shape)} && fun_matches {gnlist(shape)} {fexpr} {d})"


def gvecs(vs):
    if not vs:
        return "(@nil (list Z))"
    return "[" + "; ".join(gzlist(v) for v in vs) + "]"


# ---------------------------------------------------------------- mode designations
def designate(N, dims, excl, M):
    """the (mode, multiplicand position) pairs the caller means, in the caller's order — independent of tt_dimscheck"""
    if excl is not None:
        modes = [m for m in range(N) if m not in excl]
    elif dims is not None:
        modes = list(dims)
    else:
        modes = list(range(N))
    if M == len(modes):
        return [(m, j) for j, m in enumerate(modes)]
    if M == N:
        return [(m, m) for m in modes]
    raise ValueError("inadmissible multiplicand count")


# ---------------------------------------------------------------- random data
def rand_matrix(rng, m, n, lo=-2, hi=2):
    return [[rng.randint(lo, hi) for _ in range(n)] for _ in range(m)]


def rand_vec(rng, n, lo=-3, hi=3):
    return [rng.randint(lo, hi) for _ in range(n)]


def rand_k(rng, shape, R=None, unit=False):
    R = R or rng.randint(1, 2)
    w = [1] * R if unit else [rng.choice([-2, -1, 2, 3]) for _ in range(R)]
    x = X_k(w, [rand_matrix(rng, d, R, -1, 2) for d in shape])
    if rng.random() < 0.5:          # factor matrices held C-ordered / as strided or transposed views (normalize, user assignment)
        x["lay"] = [rng.randrange(4) for _ in shape]
    return x


def rand_t(rng, shape):
    cs = [rng.randint(1, 2) for _ in shape]
    core = tgen.rand_dense(rng, cs, 0.8, -2, 2)
    x = X_t(cs, core, [rand_matrix(rng, d, c, -1, 2) for d, c in zip(shape, cs)])
    if rng.random() < 0.5:
        x["lay"] = [rng.randrange(4) for _ in shape]
    elif rng.random() < 0.3:
        x["corehist"] = rng.choice(["entry", "block"])
    return x


def family(rng, shape, fill=None):
    """one random integer array held in every representation that can hold it: returns dict rep -> operand"""
    base = rng.choice(["dense", "dense", "k", "t"])
    out = {}
    if base == "k":
        out["k"] = rand_k(rng, shape)
        data = pdense(out["k"])
    elif base == "t":
        out["t"] = rand_t(rng, shape)
        data = pdense(out["t"])
    else:
        data = tgen.rand_dense(rng, shape, fill)
    out["dense"] = X_dense(shape, data)
    if len(shape) >= 2 and rng.random() < 0.25:      # the dense holder was enlarged by assignment: `data` is C-ordered
        out["dense"]["hist"] = rng.choice(["entry", "block"])
    subs, vals = tgen.dense_to_sparse(shape, data, rng, rng.choice(["sorted", "reversed", "random"]))
    out["sparse"] = X_sparse(shape, subs, vals)
    return out


def rand_sum(rng, shape):
    kinds = [rng.choice(["dense", "sparse", "k", "t"]) for _ in range(rng.randint(1, 3))]
    parts = []
    for kd in kinds:
        if kd == "k":
            parts.append(rand_k(rng, shape))
        elif kd == "t":
            parts.append(rand_t(rng, shape))
        else:
            data = tgen.rand_dense(rng, shape, rng.choice([0.3, 0.7, 1.0]))
            if kd == "dense":
                parts.append(X_dense(shape, data))
            else:
                subs, vals = tgen.dense_to_sparse(shape, data, rng, "random")
                parts.append(X_sparse(shape, subs, vals))
    return X_sum(parts)


def degenerate_sparse(rng, shape):
    """sparse operands at the edge: no stored entry (built from empty arrays, built from the shape alone, arising from an exact
    cancellation) and exactly one stored entry (built directly, arising from a cancellation)"""
    n = math.prod(shape)
    out = []
    aux_d = tgen.rand_dense(rng, shape, 0.5)
    if not any(aux_d):
        aux_d[rng.randrange(n)] = 2
    aux = list(tgen.dense_to_sparse(shape, aux_d, rng, "random"))
    out.append(X_sparse(shape, [], []))
    e = X_sparse(shape, [], []); e["origin"] = "shape_only"; out.append(e)
    e = X_sparse(shape, [], []); e["origin"] = "cancel"; e["aux"] = aux; out.append(e)
    for org in (None, "cancel"):
        data = [0] * n
        data[rng.randrange(n)] = rng.choice([-2, 3])
        e = X_sparse(shape, *tgen.dense_to_sparse(shape, data))
        if org:
            e["origin"] = org; e["aux"] = aux
        out.append(e)
    return out


def rand_t_struct(rng, shape, kind, wide=False):
    """Tucker operands with structured INTEGER factors: 'selection' - every factor column is +-e_i, rows drawn with repetition (unit-length
    columns that are not orthogonal: repeated columns coupled by the core); 'orthonormal' - distinct rows (signed partial permutation);
    wide=True makes the core at least as large as the tensor (the other side of ttensor.norm's size switch: columns then repeat)."""
    cs, factors = [], []
    for d in shape:
        c = rng.randint(d, d + 1) if wide else rng.randint(1, min(d, 2) if kind == "orthonormal" else 2)
        if kind == "orthonormal" and c > d:
            c = d
        if kind == "orthonormal":
            rows = rng.sample(range(d), c)
        else:
            rows = [rng.randrange(d) for _ in range(c)]
            if c >= 2 and rng.random() < 0.7:
                rows[1] = rows[0]                      # a repeated column
        f = [[0] * c for _ in range(d)]
        for col, rw in enumerate(rows):
            f[rw][col] = rng.choice([1, 1, -1])
        cs.append(c)
        factors.append(f)
    core = tgen.rand_dense(rng, cs, 1.0, -2, 2)
    if not any(core):
        core[0] = 1
    return X_t(cs, core, factors)


def sparse_colliding(rng, shp, keep, nnz=None):
    """a VERY sparse operand whose stored entries collide once the modes other than `keep` are summed out: at most half as many stored
    entries as mode `keep` is long (so a vector-valued product over the other modes stays far below the 50% fill mark) and at least two
    of them share their subscript in mode `keep` (their terms must be ADDED in the result); stored in random order"""
    N = len(shp)
    others = [m for m in range(N) if m != keep]
    kmax = max(2, shp[keep] // 2)
    k = nnz or rng.randint(2, kmax)
    a = rng.randrange(shp[keep])
    pool = [i for i in all_subs(shp)]
    same = [i for i in pool if i[keep] == a]
    if len(same) < 2:
        return None
    chosen = rng.sample(same, 2 if k < 3 or len(same) < 3 or rng.random() < 0.6 else 3)
    rest = [i for i in pool if i not in chosen]
    rng.shuffle(rest)
    chosen += rest[:max(0, k - len(chosen))]
    rng.shuffle(chosen)
    vals = [rng.choice([-3, -2, -1, 1, 2, 3, 4]) for _ in chosen]
    return X_sparse(shp, chosen, vals)
