(* Model/C14CpTucker.v — a CP model written in Tucker form (wave 5; the input class of seeded change C14-J): the superdiagonal
   R x ... x R core  sum_k w_k e_k o ... o e_k  next to the Kruskal tensor's own factor matrices.  Definitions only; proofs in
   Proofs/C14CpTucker.v. *)
From Coq Require Import List Arith Bool.
From PV Require Import Base.Index Base.Sum Np.Array Model.Repr.
Import ListNotations.

Section CpTucker.
Context {V : Type} (v0 : V) (vadd : V -> V -> V).

(* entry j of the superdiagonal core: the sum of w_k over the k with j = (k, ..., k) — w_k on the diagonal, v0 elsewhere *)
Definition sdiag_entry (w : list V) (j : idx) : V :=
  sum_n v0 vadd (length w) (fun k => if forallb (Nat.eqb k) j then nth k w v0 else v0).
Definition sdiag_core (d : nat) (w : list V) : dense V := tabulate (repeat (length w) d) (sdiag_entry w).
(* ttb.ttensor(superdiagonal core of K.weights, K.factor_matrices) *)
Definition cp_as_tucker (K : ktensor V) : ttensor V := mkT (sdiag_core (length (kfactors K)) (kweights K)) (kfactors K).
End CpTucker.
