(* Proofs/C09W8Whole.v — wave 8: the WHOLE cp_als = generated prologue (Gen/GenCpAlsPre.v) ; generated main (Gen/GenCpAls.v), composed:
   the main is started on exactly what the prologue hands over (N, normX, dimorder, optdims, the guess) with the caller's other arguments.
   For all kernels: (1) the composition as a closed formula (admissibility test `pre_okb`, the guess `pre_guess`); (2) totality of the
   generated main when the guess has N factor matrices and the restricted update order is non-empty and in range, hence the composition
   rejects EXACTLY on the prologue's checks; (3) a returning call ran the main on the prologue's guess and returns that guess. *)
From Coq Require Import String List Arith Bool Lia.
From PV Require Import Model.W4SPrelude Model.Sparse Gen.GenCpAlsPre Gen.GenCpAls Proofs.W4SCpAlsPre Proofs.W4SCpAls Proofs.C09GenSweep Proofs.C09GenReport.
Import ListNotations.
Local Open Scope nat_scope.

Section Whole.
Variables T_W T_F T_Mat T_UtU T_Wt T_K T_X : Type.
(* kernels of the prologue (T_Init := T_K: the guess is a Kruskal tensor object or a string, as in the source) *)
Variable k_ndims : T_X -> nat.
Variable k_norm : T_X -> T_F.
Variable k_not_permutation : nat -> list nat -> bool.
Variable k_optdims_invalid : list nat -> nat -> bool.
Variable k_init_is_ktensor : T_K -> bool.
Variable k_init_ndims : T_K -> nat.
Variable k_init_ncomponents : T_K -> nat.
Variable k_init_factor_misshaped : T_K -> nat -> T_X -> nat -> bool.
Variable k_init_is_str : T_K -> bool.
Variable k_init_names_random : T_K -> bool.
Variable k_append_random_factor : T_W -> list T_Mat -> T_X -> nat -> nat -> T_W * list T_Mat.
Variable k_ktensor_of_factors : list T_Mat -> T_K.
Variable k_init_names_nvecs : T_K -> bool.
Variable k_is_sumtensor : T_X -> bool.
Variable k_nvecs : T_X -> nat -> nat -> T_Mat.
(* kernels of the main *)
Variable c_leF : T_F -> T_F -> bool.
Variable c_zeroF : T_F.
Variable k_init_factors : T_K -> list T_Mat.
Variable k_restrict_dims : list nat -> list nat -> list nat.
Variable k_zeros_mttkrp : T_X -> list nat -> nat -> T_Mat.
Variable k_zeros_utu : nat -> nat -> T_UtU.
Variable k_set_gram : T_UtU -> nat -> list T_Mat -> T_UtU.
Variable k_ktensor_init : list T_Mat -> T_K -> T_K.
Variable k_innerprod : T_X -> T_K -> T_F.
Variable k_is_zero : T_F -> bool.
Variable k_resid0 : T_K -> T_F -> T_F.
Variable k_resid : T_F -> T_K -> T_F -> T_F.
Variable k_fit : T_F -> T_F -> T_F.
Variable k_mttkrp : T_X -> list T_Mat -> nat -> T_Mat.
Variable k_hadamard_others : T_UtU -> nat -> nat -> T_Mat.
Variable k_all_zero_mat : T_Mat -> bool.
Variable k_zeros_like : T_Mat -> T_Mat.
Variable k_solve : T_Mat -> T_Mat -> T_Mat.
Variable k_norm2_cols : T_Mat -> T_Wt.
Variable k_normmax_cols : T_Mat -> T_Wt.
Variable k_all_zero_wt : T_Wt -> bool.
Variable k_scale_cols : T_Mat -> T_Wt -> T_Mat.
Variable k_ktensor : list T_Mat -> T_Wt -> T_K.
Variable k_iprod : T_K -> list nat -> T_Mat -> T_Wt -> T_F.
Variable k_absdiff : T_F -> T_F -> T_F.
Variable k_arrange : T_K -> T_K.
Variable k_fixsigns : T_K -> T_K.

Notation gpre := (GenCpAlsPre.cp_als_prologue T_W T_F T_Mat T_K T_X k_ndims k_norm k_not_permutation k_optdims_invalid k_init_is_ktensor
  k_init_ndims k_init_ncomponents k_init_factor_misshaped k_init_is_str k_init_names_random k_append_random_factor k_ktensor_of_factors
  k_init_names_nvecs k_is_sumtensor k_nvecs).
Notation gmain := (GenCpAls.cp_als_main T_F T_Mat T_UtU T_Wt T_K T_X c_leF c_zeroF k_init_factors k_restrict_dims k_zeros_mttkrp k_zeros_utu
  k_set_gram k_ktensor_init k_innerprod k_is_zero k_resid0 k_resid k_fit k_mttkrp k_hadamard_others k_all_zero_mat k_zeros_like k_solve
  k_norm2_cols k_normmax_cols k_all_zero_wt k_scale_cols k_ktensor k_iprod k_absdiff k_arrange k_fixsigns).
Notation gloop1 := (GenCpAls.cp_als_main_loop1 T_Mat T_UtU k_set_gram).
Notation gloop3 := (GenCpAls.cp_als_main_loop3 T_Mat T_UtU T_Wt T_X k_set_gram k_mttkrp k_hadamard_others k_all_zero_mat k_zeros_like k_solve
  k_norm2_cols k_normmax_cols k_all_zero_wt k_scale_cols).
Notation gloop2 := (GenCpAls.cp_als_main_loop2 T_F T_Mat T_UtU T_Wt T_K T_X c_leF k_set_gram k_is_zero k_resid0 k_resid k_fit k_mttkrp
  k_hadamard_others k_all_zero_mat k_zeros_like k_solve k_norm2_cols k_normmax_cols k_all_zero_wt k_scale_cols k_ktensor k_iprod k_absdiff).
Notation hpre := (h_prologue T_W T_F T_Mat T_K T_X k_ndims k_norm k_not_permutation k_optdims_invalid k_init_is_ktensor
  k_init_ndims k_init_ncomponents k_init_factor_misshaped k_init_is_str k_init_names_random k_append_random_factor k_ktensor_of_factors
  k_init_names_nvecs k_is_sumtensor k_nvecs).
Notation hrandom := (h_random T_W T_Mat T_X k_append_random_factor).
Notation hshapes := (h_shapes_ok T_K T_X k_init_factor_misshaped).

(* ---- the composition: cp_als = prologue ; main (the world after the guess is returned as well) ---- *)
Definition cp_als_whole (w : T_W) (X : T_X) (rank : nat) (stoptol : T_F) (maxiters : nat) (dimorder optdims : option (list nat))
    (init : T_K) (printitn : nat) (fixsigns : bool) : option (T_K * T_K * (nat * T_F * T_F) * T_W) :=
  match gpre w X rank stoptol maxiters dimorder optdims init printitn fixsigns with
  | None => None
  | Some (N, normX, o, od, init', w') =>
    match gmain X init' normX N rank o od maxiters stoptol printitn fixsigns with
    | None => None
    | Some (M, initret, out) => Some (M, initret, out, w')
    end
  end.

(* ---- what the prologue decides and produces, as closed formulas of the request ---- *)
Definition pre_order (X : T_X) (dimorder : option (list nat)) : list nat :=
  match dimorder with None => seq 0 (k_ndims X) | Some o => o end.
Definition pre_optdims (X : T_X) (optdims : option (list nat)) : list nat :=
  match optdims with None => seq 0 (k_ndims X) | Some od => od end.
(* the prologue's checks *)
Definition pre_guess_okb (X : T_X) (rank : nat) (o : list nat) (init : T_K) : bool :=
  if k_init_is_ktensor init
  then (k_init_ndims init =? k_ndims X) && (k_init_ncomponents init =? rank) && hshapes init X rank o
  else k_init_is_str init && (k_init_names_random init || (k_init_names_nvecs init && negb (k_is_sumtensor X))).
Definition pre_okb (X : T_X) (rank : nat) (dimorder optdims : option (list nat)) (init : T_K) : bool :=
  negb (k_not_permutation (k_ndims X) (pre_order X dimorder))
  && match optdims with None => true | Some od => negb (k_optdims_invalid od (k_ndims X)) end
  && (0 <? rank)
  && pre_guess_okb X rank (pre_order X dimorder) init.
(* the guess and the world after it: a ktensor is kept; "random" = N draws through the world; otherwise ("nvecs") one nvecs call per mode *)
Definition pre_guess (w : T_W) (X : T_X) (rank : nat) (init : T_K) : T_K * T_W :=
  if k_init_is_ktensor init then (init, w)
  else if k_init_is_str init && k_init_names_random init
       then (k_ktensor_of_factors (snd (hrandom w [] X rank (k_ndims X) 0)), fst (hrandom w [] X rank (k_ndims X) 0))
       else (k_ktensor_of_factors (map (fun n => k_nvecs X n rank) (seq 0 (k_ndims X))), w).

Lemma hpre_closed w X rank dimorder optdims init :
  hpre w X rank dimorder optdims init
  = if pre_okb X rank dimorder optdims init
    then Some (k_ndims X, k_norm X, pre_order X dimorder, pre_optdims X optdims, fst (pre_guess w X rank init), snd (pre_guess w X rank init))
    else None.
Proof.
  unfold h_prologue, pre_okb, pre_guess_okb, pre_guess, h_optdims, h_dispatch, h_nvecs. fold (pre_order X dimorder).
  destruct (k_not_permutation (k_ndims X) (pre_order X dimorder)); cbn [negb andb]; [reflexivity|].
  destruct optdims as [od|]; cbn [pre_optdims].
  - destruct (k_optdims_invalid od (k_ndims X)); cbn [negb andb]; [reflexivity|].
    destruct (0 <? rank); cbn [andb]; [|reflexivity].
    destruct (k_init_is_ktensor init).
    + destruct (_ && _ && _); reflexivity.
    + destruct (k_init_is_str init); cbn [andb]; [|reflexivity].
      destruct (k_init_names_random init); cbn [orb].
      * destruct (hrandom w [] X rank (k_ndims X) 0); reflexivity.
      * destruct (k_init_names_nvecs init); cbn [andb]; [|reflexivity]. destruct (k_is_sumtensor X); reflexivity.
  - destruct (0 <? rank); cbn [andb]; [|reflexivity].
    destruct (k_init_is_ktensor init).
    + destruct (_ && _ && _); reflexivity.
    + destruct (k_init_is_str init); cbn [andb]; [|reflexivity].
      destruct (k_init_names_random init); cbn [orb].
      * destruct (hrandom w [] X rank (k_ndims X) 0); reflexivity.
      * destruct (k_init_names_nvecs init); cbn [andb]; [|reflexivity]. destruct (k_is_sumtensor X); reflexivity.
Qed.

(* the composition in closed form: admissibility test, then the generated main on the prologue's products *)
Theorem whole_closed w X rank stoptol maxiters dimorder optdims init printitn fixsigns :
  cp_als_whole w X rank stoptol maxiters dimorder optdims init printitn fixsigns
  = if pre_okb X rank dimorder optdims init
    then match gmain X (fst (pre_guess w X rank init)) (k_norm X) (k_ndims X) rank (pre_order X dimorder) (pre_optdims X optdims)
                     maxiters stoptol printitn fixsigns with
         | None => None
         | Some (M, initret, out) => Some (M, initret, out, snd (pre_guess w X rank init))
         end
    else None.
Proof.
  unfold cp_als_whole. rewrite prologue_bridge, hpre_closed. destruct (pre_okb X rank dimorder optdims init); reflexivity.
Qed.

(* ---- totality of the generated main ---- *)
Lemma gloop1_total U : forall fuel i st, gloop1 U fuel i st <> None.
Proof. induction fuel as [|fuel IH]; intros i [u n]; cbn [GenCpAls.cp_als_main_loop1]; [discriminate|apply IH]. Qed.

Lemma gloop3_total N dims X it t : sk_last dims = Some t ->
  forall xs U Um UtU n wt, (forall x, In x xs -> x < length U) ->
  exists U' Um' UtU' n' wt', gloop3 N dims X it xs (U, Um, UtU, n, wt) = Some (U', Um', UtU', n', wt') /\ length U' = length U /\
    (xs <> [] -> wt' <> None).
Proof.
  intros HL. induction xs as [|x xs IH]; intros U Um UtU n wt Hin.
  - exists U, Um, UtU, n, wt. cbn. repeat split; congruence.
  - cbn [GenCpAls.cp_als_main_loop3]. rewrite HL.
    assert (Hx : x < length U) by (apply Hin; now left).
    match goal with |- context [sk_set U x ?v] => rewrite (sk_set_upd U x v Hx); set (U1 := upd U x v) end.
    assert (HU1 : length U1 = length U) by (unfold U1; apply upd_length).
    match goal with |- context [gloop3 N dims X it xs (U1, ?a, ?b, ?c, ?d)] =>
      destruct (IH U1 a b c d) as (U' & Um' & UtU' & n' & wt' & E & HLn & Hw) end.
    { intros y Hy. rewrite HU1. apply Hin. now right. }
    exists U', Um', UtU', n', wt'. split; [exact E|]. split; [congruence|]. intros _.
    destruct xs as [|y ys]; [|apply Hw; discriminate].
    cbn in E. inversion E. discriminate.
Qed.

Definition lenok (dims : list nat) (st : (option T_K) * (list T_Mat) * T_Mat * T_UtU * T_F * (option T_F) * (option nat) * (option nat) * (option T_F)) : Prop :=
  let '(_, U, _, _, _, _, _, _, _) := st in forall x, In x dims -> x < length U.
Definition bound (st : (option T_K) * (list T_Mat) * T_Mat * T_UtU * T_F * (option T_F) * (option nat) * (option nat) * (option T_F)) : Prop :=
  let '(M, _, _, _, _, _, it, _, nr) := st in M <> None /\ it <> None /\ nr <> None.

Lemma gloop2_total N dims X normX stoptol t : sk_last dims = Some t ->
  forall fuel i st, lenok dims st ->
  exists st', gloop2 N dims X normX stoptol fuel i st = Some st' /\ (fuel = 0 -> st' = st) /\ (0 < fuel -> bound st').
Proof.
  intros HL. assert (Hne : dims <> []) by (intros ->; discriminate).
  induction fuel as [|fuel IH]; intros i st Hok.
  - exists st. split; [reflexivity|]. split; [reflexivity|lia].
  - destruct st as [[[[[[[[M U] Um] UtU] fit] ip] it] n] nr]. cbn [lenok] in Hok.
    cbn [GenCpAls.cp_als_main_loop2].
    destruct (gloop3_total N dims X i t HL dims U Um UtU n None Hok) as (U' & Um' & UtU' & n' & wt' & E & HLn & Hw).
    rewrite E. destruct wt' as [wt|]; [|exfalso; now apply (Hw Hne)].
    cbv zeta.
    match goal with |- context [if k_is_zero normX then ?a else ?b] => destruct (if k_is_zero normX then a else b) as [ft nrv] end.
    match goal with |- context [(?c =? 0)] => destruct (c =? 0) end.
    + eexists. split; [reflexivity|]. split; [discriminate|]. intros _. cbn. repeat split; discriminate.
    + match goal with |- context [gloop2 N dims X normX stoptol fuel (S i) ?s] => destruct (IH (S i) s) as (st' & E' & H0 & H1) end.
      { cbn [lenok]. intros x Hx. rewrite HLn. now apply Hok. }
      exists st'. split; [exact E'|]. split; [discriminate|]. intros _.
      destruct fuel as [|fuel]; [|apply H1; lia]. rewrite (H0 eq_refl). cbn. repeat split; discriminate.
Qed.

Theorem gmain_total X init normX N rank dimorder optdims maxiters stoptol printitn dofix t :
  N = length (k_init_factors init) ->
  sk_last (k_restrict_dims dimorder optdims) = Some t -> (forall x, In x (k_restrict_dims dimorder optdims) -> x < N) ->
  gmain X init normX N rank dimorder optdims maxiters stoptol printitn dofix <> None.
Proof.
  intros HN HL Hin. unfold GenCpAls.cp_als_main.
  destruct (gloop1 (k_init_factors init) N 0 (k_zeros_utu rank N, None)) as [[UtU n]|] eqn:E1; [|now apply gloop1_total in E1].
  set (dims := k_restrict_dims dimorder optdims) in *. set (U := k_init_factors init) in *.
  destruct maxiters as [|m].
  - cbn [Nat.eqb GenCpAls.cp_als_main_loop2].
    destruct (k_is_zero normX); destruct dofix; destruct (0 <? printitn); discriminate.
  - cbn [Nat.eqb].
    match goal with |- context [gloop2 N dims X normX stoptol (S m) 0 ?s] =>
      destruct (gloop2_total N dims X normX stoptol t HL (S m) 0 s) as (st' & E & _ & Hb) end.
    { cbn [lenok]. intros x Hx. rewrite <- HN. now apply Hin. }
    rewrite E. destruct st' as [[[[[[[[M' U'] Um'] UtU'] fit'] ip'] it'] n'] nr']. destruct (Hb ltac:(lia)) as (HM & Hit & Hnr).
    destruct M' as [M'|]; [|congruence]. destruct it' as [it'|]; [|congruence]. destruct nr' as [nr'|]; [|congruence].
    destruct (k_is_zero normX); destruct dofix; destruct (0 <? printitn); discriminate.
Qed.

(* ---- the composed function rejects EXACTLY on the prologue's checks ---- *)
Theorem whole_rejects_iff w X rank stoptol maxiters dimorder optdims init printitn fixsigns t :
  let g := fst (pre_guess w X rank init) in
  let dims := k_restrict_dims (pre_order X dimorder) (pre_optdims X optdims) in
  (pre_okb X rank dimorder optdims init = true ->
   k_ndims X = length (k_init_factors g) /\ sk_last dims = Some t /\ forall x, In x dims -> x < k_ndims X) ->
  (cp_als_whole w X rank stoptol maxiters dimorder optdims init printitn fixsigns = None <-> pre_okb X rank dimorder optdims init = false).
Proof.
  intros g dims Hmain. rewrite whole_closed. destruct (pre_okb X rank dimorder optdims init) eqn:Eok.
  - destruct (Hmain eq_refl) as (H1 & H2 & H3).
    pose proof (gmain_total X g (k_norm X) (k_ndims X) rank (pre_order X dimorder) (pre_optdims X optdims) maxiters stoptol printitn fixsigns t
                  H1 H2 H3) as Hne.
    fold g. destruct (gmain X g (k_norm X) (k_ndims X) rank (pre_order X dimorder) (pre_optdims X optdims) maxiters stoptol printitn fixsigns)
      as [[[M i] out]|]; [|congruence]. split; discriminate.
  - split; reflexivity.
Qed.

(* ---- a returning call: admissible, the main ran on the prologue's guess, returned guess = guess used ---- *)
Theorem whole_result w X rank stoptol maxiters dimorder optdims init printitn fixsigns Mret initret out w' :
  cp_als_whole w X rank stoptol maxiters dimorder optdims init printitn fixsigns = Some (Mret, initret, out, w') ->
  let g := fst (pre_guess w X rank init) in
  pre_okb X rank dimorder optdims init = true /\
  gmain X g (k_norm X) (k_ndims X) rank (pre_order X dimorder) (pre_optdims X optdims) maxiters stoptol printitn fixsigns = Some (Mret, g, out) /\
  initret = g /\ w' = snd (pre_guess w X rank init).
Proof.
  rewrite whole_closed. intros H g. destruct (pre_okb X rank dimorder optdims init); [|discriminate]. fold g in H.
  destruct (gmain X g (k_norm X) (k_ndims X) rank (pre_order X dimorder) (pre_optdims X optdims) maxiters stoptol printitn fixsigns)
    as [[[M i] [[it nr] ft]]|] eqn:E; [|discriminate].
  inversion H. subst M i out w'. clear H.
  destruct (cpals_bridge _ _ _ _ _ _ _ _ _ _ _ _ _ _ _ _ _ _ _ _ _ _ _ _ _ _ _ _ _ _ _ _ _ _ _ _ _ _ _ _ _ _ _ _ _ _ _ _ _ E)
    as (_ & _ & _ & _ & _ & _ & _ & _ & _ & Hi).
  subst initret. repeat split; reflexivity.
Qed.

(* the guess by cases (read off pre_guess) *)
Lemma pre_guess_cases w X rank init :
  (k_init_is_ktensor init = true -> pre_guess w X rank init = (init, w)) /\
  (k_init_is_ktensor init = false -> k_init_is_str init = true -> k_init_names_random init = true ->
   pre_guess w X rank init = (k_ktensor_of_factors (snd (hrandom w [] X rank (k_ndims X) 0)), fst (hrandom w [] X rank (k_ndims X) 0))) /\
  (k_init_is_ktensor init = false -> k_init_names_random init = false ->
   pre_guess w X rank init = (k_ktensor_of_factors (map (fun n => k_nvecs X n rank) (seq 0 (k_ndims X))), w)).
Proof.
  unfold pre_guess. repeat split; intros.
  - now rewrite H.
  - now rewrite H, H0, H1.
  - rewrite H, H0. now rewrite andb_false_r.
Qed.

(* the checks by cases (read off pre_okb): the accepted requests *)
Lemma pre_okb_true_iff X rank dimorder optdims init :
  pre_okb X rank dimorder optdims init = true <->
  k_not_permutation (k_ndims X) (pre_order X dimorder) = false /\
  (forall od, optdims = Some od -> k_optdims_invalid od (k_ndims X) = false) /\
  0 < rank /\
  (k_init_is_ktensor init = true ->
   k_init_ndims init = k_ndims X /\ k_init_ncomponents init = rank /\
   forall n, In n (pre_order X dimorder) -> k_init_factor_misshaped init n X rank = false) /\
  (k_init_is_ktensor init = false ->
   k_init_is_str init = true /\ (k_init_names_random init = true \/ (k_init_names_nvecs init = true /\ k_is_sumtensor X = false))).
Proof.
  unfold pre_okb, pre_guess_okb, h_shapes_ok. rewrite !andb_true_iff, negb_true_iff, Nat.ltb_lt. split.
  - intros [[[H1 H2] H3] H4]. split; [exact H1|]. split.
    { intros od ->. now apply negb_true_iff in H2. }
    split; [exact H3|]. split; intros Hk; rewrite Hk in H4.
    + rewrite !andb_true_iff, !Nat.eqb_eq, forallb_forall in H4. destruct H4 as [[Ha Hb] Hc]. repeat split; auto.
      intros n Hn. specialize (Hc n Hn). now apply negb_true_iff in Hc.
    + rewrite andb_true_iff, orb_true_iff, andb_true_iff, negb_true_iff in H4. exact H4.
  - intros (H1 & H2 & H3 & H4 & H5). repeat split; auto.
    + destruct optdims as [od|]; [|reflexivity]. apply negb_true_iff. now apply H2.
    + destruct (k_init_is_ktensor init).
      * destruct (H4 eq_refl) as (Ha & Hb & Hc). rewrite !andb_true_iff, !Nat.eqb_eq, forallb_forall. repeat split; auto.
        intros n Hn. apply negb_true_iff. now apply Hc.
      * rewrite andb_true_iff, orb_true_iff, andb_true_iff, negb_true_iff. now apply H5.
Qed.

(* printing runs of the whole: the reported pair is the code's formula pair on innerprod(X, returned model), normX = X.norm() *)
Theorem whole_print_report w X rank stoptol maxiters dimorder optdims init printitn fixsigns Mret initret iters nr fit w' :
  cp_als_whole w X rank stoptol maxiters dimorder optdims init printitn fixsigns = Some (Mret, initret, (iters, nr, fit), w') ->
  0 < printitn ->
  (nr, fit) = h_formulas T_F T_K k_is_zero k_resid0 k_resid k_fit (k_norm X) Mret (k_innerprod X Mret).
Proof.
  intros H Hp. destruct (whole_result _ _ _ _ _ _ _ _ _ _ _ _ _ _ H) as (_ & Hm & _ & _).
  exact (gen_print_report T_F T_Mat T_UtU T_Wt T_K T_X c_leF c_zeroF k_init_factors k_restrict_dims k_zeros_mttkrp k_zeros_utu
    k_set_gram k_ktensor_init k_innerprod k_is_zero k_resid0 k_resid k_fit k_mttkrp k_hadamard_others k_all_zero_mat k_zeros_like k_solve
    k_norm2_cols k_normmax_cols k_all_zero_wt k_scale_cols k_ktensor k_iprod k_absdiff k_arrange k_fixsigns
    _ _ _ _ _ _ _ _ _ _ _ _ _ _ _ _ Hm Hp).
Qed.

End Whole.
