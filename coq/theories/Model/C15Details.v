(* Model/C15Details.v — wave 4: the OLD symmetry test WITH its detail outputs (tensor.issymmetric, version != None or
   return_details=True), transliterated:

     for dims in grps: for j in dims[1:]: if sz[j] != sz[dims[0]]: return False          (a bare False, no details)
     for a_group in grps:  for group_perm in itertools.permutations(a_group):
         perm = arange(n); perm[a_group] = group_perm;  all_perms[p_idx] = perm
         Y = self.permute(perm)
         all_diffs[p_idx] = 0 if array_equal(self.data, Y.data) else max(abs(self.data - Y.data))
     return (all_diffs == 0).all(), all_diffs, all_perms

   itertools.permutations enumerates in lexicographic order of POSITIONS (first position slowest): [iperms].
   [vdist a b] stands for abs(a - b), [vmax] for the maximum (np.max over the flattened array, started from the first entry;
   on values >= 0 the same as a maximum started from 0). Definitions only; proofs in Proofs/C15Details.v. *)
From Coq Require Import List Arith Lia Bool.
From PV Require Import Base.Index Base.Perm Base.Sum Np.Array Model.Repr Model.C15Sym Model.C15Impl.
Import ListNotations.

Fixpoint remove_at (k : nat) (l : list nat) : list nat :=
  match l, k with
  | [], _ => []
  | _ :: l', 0 => l'
  | x :: l', S k' => x :: remove_at k' l'
  end.
(* itertools.permutations(l) *)
Fixpoint iperms_f (fuel : nat) (l : list nat) : list (list nat) :=
  match fuel with
  | 0 => [[]]
  | S f => match l with
           | [] => [[]]
           | _ => flat_map (fun k => map (cons (nth k l 0)) (iperms_f f (remove_at k l))) (seq 0 (length l))
           end
  end.
Definition iperms (l : list nat) : list (list nat) := iperms_f (length l) l.

(* the rows of all_perms, in the order of the code *)
Definition old_rows (N : nat) (G : list (list nat)) : list (list nat) :=
  flat_map (fun g => map (mode_perm N g) (iperms g)) G.

Section Det15.
Context {V : Type} (v0 : V) (veqb : V -> V -> bool) (vdist vmax : V -> V -> V).

(* all_diffs[p_idx] *)
Definition old_diff (s : shape) (X : idx -> V) (p : list nat) : V :=
  fold_left vmax (map (fun j => vdist (X j) (permuted X p j)) (allsubs s)) v0.
Definition old_diffs (s : shape) (X : idx -> V) (G : list (list nat)) : list V :=
  map (old_diff s X) (old_rows (length s) G).

(* None = the bare False of the size check; Some (answer, all_diffs, all_perms) *)
Definition impl_issym_old_details (s : shape) (X : idx -> V) (G : list (list nat))
  : option (bool * list V * list (list nat)) :=
  if forallb (group_cubical s) G
  then let d := old_diffs s X G in Some (forallb (fun x => veqb x v0) d, d, old_rows (length s) G)
  else None.
(* the answer alone (what the caller sees with return_details=False) *)
Definition details_answer (r : option (bool * list V * list (list nat))) : bool :=
  match r with Some (b, _, _) => b | None => false end.
End Det15.
