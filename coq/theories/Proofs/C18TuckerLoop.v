(* Proofs/C18TuckerLoop.v — C18 "relabelling the modes" for the WHOLE main loop of tucker_als (sweeps, fit, convergence test
   abs(fitold - fit) < stoptol, iteration count) on dense real arrays: Proofs/C18Tucker.v's als_loop instantiated with the concrete
   mode update and core of Proofs/C18TuckerPerm.v (products with U_m^T in increasing mode order on the denotation; eigen step = any
   function of (mode parameter, Gram matrix of Utilde)), normX^2 and core.norm()^2 = sums of squares.  The abstract
   tucker_als_relabel_loop (Proofs/C18TuckerRel.v) has its upd_perm / A_perm / nrm_perm / innerF_perm contracts discharged here. *)
From Coq Require Import List Arith Lia Bool Reals Lra Ring RealField Permutation.
From PV Require Import Base.Index Base.Perm Base.Sum Np.Array Np.NpR Model.Sparse Model.Repr Model.C10Tucker Model.C14Nvecs
                       Proofs.C10Proofs Proofs.C18Tucker Proofs.C18TuckerPerm Proofs.C18HosvdRel.
Import ListNotations.
Local Open Scope R_scope.

Notation rmatrix := (list (list R)).
(* <x, y> over the subscripts of x (x.innerprod(y) for equal shapes); <x, x> = (x ** 2).collapse() *)
Definition dinnerR (x y : dense R) : R := sum_over 0 Rplus (allsubs (dshape x)) (fun i => den_dense 0 x i * den_dense 0 y i).
Definition updR := upd_c R 0 Rplus Rmult.
Definition coreR := core_c R 0 Rplus Rmult.

Lemma dinnerR_permute (x : dense R) p : is_perm p (length (dshape x)) ->
  dinnerR (np_transpose 0 x p) (np_transpose 0 x p) = dinnerR x x.
Proof. intros Hp. exact (normsq_permute R 0 1 Rplus Rmult Rminus Ropp RTheory x p Hp). Qed.

Lemma sweep_length s rk eig dimorder : forall (U : list rmatrix) (X : dense R),
  length (sweep (dense R) (list rmatrix) (updR s rk eig) dimorder U X) = length U.
Proof.
  unfold sweep. induction dimorder as [|n ms IH]; intros U X; cbn [fold_left]; [reflexivity|].
  rewrite IH. apply upd_c_length.
Qed.

Section Loop.
Variables (s rk : list nat) (eig eig' : nat -> rmatrix -> rmatrix) (p : list nat) (dimorder : list nat) (X : dense R) (stoptol : R).
Hypothesis HX : dshape X = s.
Hypothesis Hp : is_perm p (length s).
Hypothesis Hrk : length rk = length s.
Hypothesis Hd : Forall (fun n => (n < length s)%nat) dimorder.
Hypothesis He : forall n, In n dimorder -> eig' (index_of n p) = eig n.

Local Notation LOOP := (als_loop (dense R) dinnerR (list rmatrix) (dense R) (coreR s rk) dinnerR (updR s rk eig) stoptol dimorder).
Local Notation LOOP' := (als_loop (dense R) dinnerR (list rmatrix) (dense R) (coreR (pick 0%nat p s) (pick 0%nat p rk)) dinnerR
                                  (updR (pick 0%nat p s) (pick 0%nat p rk) eig') stoptol (map (fun n => index_of n p) dimorder)).

(* tucker_als(X.permute(p), rank permuted, init = permuted start list, dimorder mapped by q) runs the same number of iterations,
   reports the same fit and ends with the permuted factor list (hence, by C18_tucker_core_perm, the relabelled core) *)
Theorem tucker_als_loop_relabel_dense (maxiters : nat) : forall (U : list rmatrix) (fit0 : R), length U = length s ->
  let r := LOOP maxiters U fit0 X in
  let r' := LOOP' maxiters (pick [] p U) fit0 (np_transpose 0 X p) in
  fst (fst r') = pick [] p (fst (fst r)) /\ snd (fst r') = snd (fst r) /\ snd r' = snd r /\
  coreR (pick 0%nat p s) (pick 0%nat p rk) (fst (fst r')) (np_transpose 0 X p) = np_transpose 0 (coreR s rk (fst (fst r)) X) p.
Proof.
  induction maxiters as [|k IH]; intros U fit0 HU; cbv zeta; cbn [als_loop].
  - cbn [fst snd]. repeat split. now apply (core_perm_concrete R 0 1 Rplus Rmult Rminus Ropp RTheory).
  - destruct (tucker_als_relabel_dense R 0 1 Rplus Rmult Rminus Ropp RTheory s rk eig eig' p dimorder 1 U X HX Hp Hrk HU Hd He) as [E1 E2].
    cbn [sweeps] in E1, E2. fold updR coreR in E1, E2.
    set (U1 := sweep (dense R) (list rmatrix) (updR s rk eig) dimorder U X) in *.
    rewrite E2, E1.
    assert (HU1 : length U1 = length s) by (unfold U1; now rewrite sweep_length).
    assert (Hfit : fit_of (dense R) dinnerR (dense R) dinnerR (np_transpose 0 X p) (np_transpose 0 (coreR s rk U1 X) p)
                   = fit_of (dense R) dinnerR (dense R) dinnerR X (coreR s rk U1 X)).
    { unfold fit_of, resid2, nrm2.
      rewrite (dinnerR_permute X p) by (now rewrite HX).
      rewrite (dinnerR_permute (coreR s rk U1 X) p); [reflexivity|].
      unfold coreR, core_c. rewrite dshape_tabulate. now rewrite Hrk. }
    rewrite Hfit.
    destruct (Rltb _ stoptol).
    + cbn [fst snd]. repeat split. rewrite <- E1. exact E2.
    + specialize (IH U1 (fit_of (dense R) dinnerR (dense R) dinnerR X (coreR s rk U1 X)) HU1). cbv zeta in IH.
      destruct IH as (I1 & I2 & I3 & I4). cbn [fst snd]. repeat split; congruence.
Qed.
End Loop.

(* ---------- non-vacuity: 2 x 3 x 2 reals with integer values, ranks (2,2,1), p = [2;0;1], 3 iterations allowed ---------- *)
Module C18TuckerLoopExample.
Definition Xr := mkDense [2; 3; 2]%nat [1; 2; 3; 4; 5; 6; 7; 8; 9; 10; 11; 13].
Definition pr := [2; 0; 1]%nat.
Definition rkr := [2; 2; 1]%nat.
Definition U0r : list rmatrix := [[[1; 0]; [1; 2]]; [[1; 1]; [0; 1]; [2; 0]]; [[1]; [3]]].
Definition eigr (n : nat) (G : rmatrix) : rmatrix :=
  map (fun a => map (fun j => mget 0 G a j + INR n) (seq 0 (nth n rkr 0%nat))) (seq 0 (length G)).
Example tucker_loop_relabel_example :
  let r := als_loop (dense R) dinnerR (list rmatrix) (dense R) (coreR [2; 3; 2]%nat rkr) dinnerR (updR [2; 3; 2]%nat rkr eigr) (1 / 10)
                    [1; 0; 2]%nat 3 U0r 0 Xr in
  let r' := als_loop (dense R) dinnerR (list rmatrix) (dense R) (coreR (pick 0%nat pr [2; 3; 2]%nat) (pick 0%nat pr rkr)) dinnerR
                     (updR (pick 0%nat pr [2; 3; 2]%nat) (pick 0%nat pr rkr) (fun k => eigr (nth k pr 0%nat))) (1 / 10)
                     (map (fun n => index_of n pr) [1; 0; 2]%nat) 3 (pick [] pr U0r) 0 (np_transpose 0 Xr pr) in
  fst (fst r') = pick [] pr (fst (fst r)) /\ snd (fst r') = snd (fst r) /\ snd r' = snd r.
Proof.
  cbv zeta.
  assert (Hp : is_perm pr (length [2; 3; 2]%nat)) by (apply is_permb_spec; reflexivity).
  assert (Hd : Forall (fun n => (n < length [2; 3; 2]%nat)%nat) [1; 0; 2]%nat) by (repeat constructor).
  assert (He : forall n, In n [1; 0; 2]%nat -> eigr (nth (index_of n pr) pr 0%nat) = eigr n).
  { intros n Hn. cbn in Hn. destruct Hn as [<-|[<-|[<-|[]]]]; reflexivity. }
  destruct (tucker_als_loop_relabel_dense [2; 3; 2]%nat rkr eigr (fun k => eigr (nth k pr 0%nat)) pr [1; 0; 2]%nat Xr (1 / 10)
              eq_refl Hp eq_refl Hd He 3%nat U0r 0 eq_refl) as (H1 & H2 & H3 & _).
  auto.
Qed.
End C18TuckerLoopExample.
