(* Alg/C13Thm.v — the statements of Props/C13.v that are conjunctions / instances of several lemmas of Alg/C13*.v, proved
   here so that Props/C13.v contains only `exact`. *)
From Coq Require Import List ZArith Arith Bool QArith Qcanon.
From PV Require Import Base.Index Np.Array Model.Sparse Alg.C13Samplers Alg.C13Solver Alg.C13Steps Alg.C13Config Alg.C13Harness.
From PV Require Import Model.Repr Model.C08Kruskal Alg.C13Vec Model.Harness Alg.C13StepArith.
Import ListNotations.
Local Open Scope nat_scope.

(* ---- reuse of one solver object ---- *)
Section ReuseThm.
Variables M E : Type.
Variable leb : E -> E -> bool.
Variables (fest : M -> E) (max_fails : nat) (tol : option E).

Lemma thm_reuse_sgd : forall (epoch : nat -> nat -> unit -> M -> M * unit) on_fail obj1 obj2 max_iters m0,
  solve_obj M unit E leb fest epoch on_fail (fun o => o) max_fails tol obj1 max_iters m0 =
  solve_obj M unit E leb fest epoch on_fail (fun o => o) max_fails tol obj2 max_iters m0.
Proof.
  intros epoch on_fail. apply (reuse_reset M unit E leb fest epoch on_fail (fun o => o) max_fails tol).
  intros [] []. reflexivity.
Qed.

Lemma thm_reuse_adam : forall (V : Type) (epoch : nat -> nat -> adam_state V -> M -> M * adam_state V) on_fail obj1 obj2 max_iters m0,
  solve_obj M (adam_state V) E leb fest epoch on_fail (adam_reset V) max_fails tol obj1 max_iters m0 =
  solve_obj M (adam_state V) E leb fest epoch on_fail (adam_reset V) max_fails tol obj2 max_iters m0.
Proof.
  intros V epoch on_fail. apply (reuse_reset M (adam_state V) E leb fest epoch on_fail (adam_reset V) max_fails tol).
  exact (adam_reset_const V).
Qed.

Lemma thm_reuse_adagrad : forall (V : Type) (v0 : V) (epoch : nat -> nat -> V -> M -> M * V) on_fail obj1 obj2 max_iters m0,
  solve_obj M V E leb fest epoch on_fail (adagrad_reset V v0) max_fails tol obj1 max_iters m0 =
  solve_obj M V E leb fest epoch on_fail (adagrad_reset V v0) max_fails tol obj2 max_iters m0.
Proof.
  intros V v0 epoch on_fail. apply (reuse_reset M V E leb fest epoch on_fail (adagrad_reset V v0) max_fails tol).
  exact (adagrad_reset_const V v0).
Qed.

Lemma thm_reuse_sequence : forall (O : Type) (epoch : nat -> nat -> O -> M -> M * O) on_fail reset,
  (forall o1 o2 : O, reset o1 = reset o2) ->
  forall fresh reqs obj,
    solve_seq M O E leb fest epoch on_fail reset max_fails tol obj reqs =
    map (fun q => solve_obj M O E leb fest epoch on_fail reset max_fails tol fresh (fst q) (snd q)) reqs.
Proof. intros O epoch on_fail reset. exact (reuse_sequence M O E leb fest epoch on_fail reset max_fails tol). Qed.
End ReuseThm.

(* ---- L-BFGS-B wrapper ---- *)
Lemma thm_lbfgsb_final_f : forall (Mdl V F CB KW : Type) (leb : F -> F -> bool) (vle : V -> V -> Prop)
  (tovec : Mdl -> list V) (update : Mdl -> list V -> Mdl) (objective : Mdl -> F) (wf : Mdl -> Prop),
  (forall m, wf m -> update m (tovec m) = m) ->
  (forall m v, length v = length (tovec m) -> tovec (update m v) = v) ->
  forall scipy, scipy_contract V F CB KW leb vle scipy -> scipy_reports_value V F CB KW scipy -> forall cb other m0 lb, wf m0 ->
  Forall (within V vle lb) (tovec m0) ->
  let o := lbfgsb_solve Mdl V F CB KW tovec update objective scipy (mkKw CB KW (UserCb CB cb) other) m0 lb in
  objective (o_model _ _ _ _ _ o) = o_final_f _ _ _ _ _ o /\ leb (o_final_f _ _ _ _ _ o) (objective m0) = true.
Proof.
  intros Mdl V F CB KW leb vle tovec update objective wf H1 H2 scipy HC HR cb other m0 lb Hwf Hfeas.
  exact (conj (lbfgsb_final_f Mdl V F CB KW tovec update objective scipy HR (mkKw CB KW (UserCb CB cb) other) m0 lb)
              (lbfgsb_final_f_le Mdl V F CB KW leb vle tovec update objective wf H1 H2 scipy HC HR cb other m0 lb Hwf Hfeas)).
Qed.

(* ---- GCPSampler default-count rules, for every ceil oracle ---- *)
Local Open Scope Z_scope.
Lemma thm_sampler_defaults_feasible : forall cd sparse size nnz max_iters k, 0 <= nnz <= size -> 0 < max_iters ->
  (fn_config_o cd sparse size nnz k RNone <> CError -> conf_feasible size nnz (fn_config_o cd sparse size nnz k RNone)) /\
  (gr_config_o cd sparse size nnz max_iters k RNone <> CError -> conf_feasible size nnz (gr_config_o cd sparse size nnz max_iters k RNone)).
Proof.
  intros cd sparse size nnz max_iters k H Hm.
  exact (conj (fn_default_feasible cd sparse size nnz k H) (gr_default_feasible cd sparse size nnz max_iters k H Hm)).
Qed.

Lemma thm_sampler_defaults_small : forall cd size nnz max_iters, 0 <= nnz <= size -> 0 < max_iters ->
  (nnz <= 10 ^ 5 -> fn_config_o cd true size nnz None RNone = CStratified nnz (Z.min nnz (size - nnz))) /\
  (size <= 10 ^ 6 -> fn_config_o cd false size nnz None RNone = CUniform size) /\
  (nnz <= 1000 -> gr_config_o cd true size nnz max_iters None RNone = CStratified nnz (Z.min nnz (size - nnz))) /\
  (size <= 1000 -> gr_config_o cd false size nnz max_iters None RNone = CUniform size).
Proof.
  intros cd size nnz max_iters H Hm.
  exact (conj (proj1 (fn_default_small cd size nnz H)) (conj (proj2 (fn_default_small cd size nnz H)) (gr_default_small cd size nnz max_iters H Hm))).
Qed.

Lemma thm_sampler_table : forall cd sparse size nnz max_iters n nz z req,
  (fn_config_o cd sparse size nnz (Some Uniform) (RInt n) = CUniform n /\
   fn_config_o cd true size nnz (Some Stratified) (RInt n) = CStratified n n /\
   fn_config_o cd true size nnz (Some Stratified) (RStrat nz z) = CStratified nz z /\
   gr_config_o cd false size nnz max_iters (Some Uniform) (RInt n) = CUniform n /\
   gr_config_o cd true size nnz max_iters (Some Uniform) (RInt n) = CPoisson n size nnz /\
   gr_config_o cd true size nnz max_iters (Some Stratified) (RInt n) = CStratified n n /\
   gr_config_o cd true size nnz max_iters (Some Stratified) (RStrat nz z) = CStratified nz z /\
   gr_config_o cd sparse size nnz max_iters (Some Semistratified) (RInt n) = CSemistrat n n /\
   gr_config_o cd sparse size nnz max_iters (Some Semistratified) (RStrat nz z) = CSemistrat nz z) /\
  (fn_config_o cd false size nnz (Some Stratified) req = CError /\
   gr_config_o cd false size nnz max_iters (Some Stratified) req = CError /\
   fn_config_o cd sparse size nnz (Some Semistratified) req = CError /\
   fn_config_o cd sparse size nnz (Some Uniform) (RStrat nz z) = CError /\
   gr_config_o cd sparse size nnz max_iters (Some Uniform) (RStrat nz z) = CError) /\
  (default_kind sparse None = (if sparse then Stratified else Uniform) /\
   crng_len (fn_config_o cd sparse size nnz None req) = 0 /\
   crng_len (gr_config_o cd sparse size nnz max_iters None req) = 0 /\
   (forall nz z, gr_config_o cd sparse size nnz max_iters (Some Semistratified) req = CSemistrat nz z ->
                 crng_len (gr_config_o cd sparse size nnz max_iters (Some Semistratified) req) = nz)).
Proof.
  intros cd sparse size nnz max_iters n nz z req.
  exact (conj (explicit_requests cd sparse size nnz max_iters n nz z)
        (conj (rejected_requests cd size nnz max_iters req nz z sparse) (kind_defaults_and_crng cd sparse size nnz max_iters req))).
Qed.

(* the float ceil: the exact ceiling cdiv is the least c with a <= c * b; a configuration depends on the oracle only through the
   one quotient it asks for; explicit requests never call it *)
Lemma thm_sampler_ceil : 
  (forall a b, 0 < b -> (cdiv a b - 1) * b < a <= cdiv a b * b) /\
  (forall cd1 cd2 sparse size nnz max_iters k req,
     (cd1 nnz 100 = cd2 nnz 100 -> cd1 size 10 = cd2 size 10 ->
      fn_config_o cd1 sparse size nnz k req = fn_config_o cd2 sparse size nnz k req) /\
     (cd1 (10 * size) max_iters = cd2 (10 * size) max_iters -> cd1 (3 * nnz) max_iters = cd2 (3 * nnz) max_iters ->
      gr_config_o cd1 sparse size nnz max_iters k req = gr_config_o cd2 sparse size nnz max_iters k req)) /\
  (forall sparse k max_iters req, req <> RNone -> fn_ceil_calls sparse k req = 0%nat /\ gr_ceil_calls max_iters req = 0%nat).
Proof. exact (conj cdiv_spec (conj config_oracle_ext ceil_calls_only_for_defaults)). Qed.
Local Close Scope Z_scope.

(* ---- projected update steps ---- *)
Lemma thm_bounds_steps : forall (V : Type) (vle : V -> V -> Prop) (vmax : V -> V -> V),
  (forall a b, vle a (vmax a b)) ->
  forall (vadd vsub vmul vdiv : V -> V -> V) (vsqrt : V -> V) (vpow : V -> nat -> V) (v0 v1 : V) (vpos : V -> bool) (lb : option V),
  (forall rate decay nfails xs gs, Forall (above V vle lb) (sgd_step V vmax vsub vmul vpow rate decay nfails lb xs gs)) /\
  (forall rate decay b1 b2 eps ei nf o xs gs,
     Forall (above V vle lb) (fst (adam_step V vmax vadd vsub vmul vdiv vsqrt vpow v0 v1 rate decay b1 b2 eps ei nf lb o xs gs))) /\
  (forall gsum xs gs, Forall (above V vle lb) (fst (adagrad_step V vmax vadd vsub vmul vdiv vsqrt v0 v1 vpos lb gsum xs gs))).
Proof.
  intros V vle vmax H vadd vsub vmul vdiv vsqrt vpow v0 v1 vpos lb. repeat split; intros.
  - apply (sgd_step_above V vle vmax H).
  - apply (adam_step_above V vle vmax H).
  - apply (adagrad_step_above V vle vmax H).
Qed.

Local Open Scope Qc_scope.
Lemma thm_sgd_stepsize : forall rate decay nf,
  sgd_stepsize rate decay 0 = rate /\ sgd_stepsize rate decay (S nf) = decay * sgd_stepsize rate decay nf /\
  (0 <= rate -> 0 <= decay -> 0 <= sgd_stepsize rate decay nf).
Proof.
  intros rate decay nf.
  exact (conj (Qcmult_1_l rate) (conj (sgd_stepsize_fail rate decay nf) (sgd_stepsize_nonneg rate decay nf))).
Qed.
Local Close Scope Qc_scope.

Lemma thm_adam_failed_epoch : forall (V : Type) (vmax vadd vsub vmul vdiv : V -> V -> V) (vsqrt : V -> V) (vpow : V -> nat -> V) (v0 v1 : V)
  rate decay b1 b2 eps ei nf lb o xs gs,
  (atot V o <> 0 ->
   adam_failed V ei (snd (adam_step V vmax vadd vsub vmul vdiv vsqrt vpow v0 v1 rate decay b1 b2 eps ei nf lb o xs gs)) =
   mkAdam V (am V o) (av V o) (am V o) (av V o) (atot V o)) /\
  adam_failed V ei (snd (adam_step V vmax vadd vsub vmul vdiv vsqrt vpow v0 v1 rate decay b1 b2 eps ei nf lb (adam_reset V o) xs gs)) =
  mkAdam V (map (fun _ => v0) xs) (map (fun _ => v0) xs) (map (fun _ => v0) xs) (map (fun _ => v0) xs) 0.
Proof.
  intros V vmax vadd vsub vmul vdiv vsqrt vpow v0 v1 rate decay b1 b2 eps ei nf lb o xs gs.
  exact (conj (adam_failed_after_step V vmax vadd vsub vmul vdiv vsqrt vpow v0 v1 rate decay b1 b2 eps ei nf lb o xs gs)
              (adam_failed_after_first_step V vmax vadd vsub vmul vdiv vsqrt vpow v0 v1 rate decay b1 b2 eps ei nf lb o xs gs)).
Qed.

(* ---- samplers ---- *)
Local Open Scope Z_scope.
Lemma thm_draw_onto : forall D d, 0 < D -> 0 < d <= D ->
  (forall j, 0 <= j < d -> exists a, 0 <= a < D /\ draw_sub D a d = j) /\ draw_sub D 0 d = 0 /\ draw_sub D (D - 1) d = d - 1.
Proof.
  intros D d HD Hd.
  exact (conj (fun j => draw_sub_onto D HD d j Hd) (conj (draw_sub_first D HD d (proj1 Hd)) (draw_sub_last D d Hd))).
Qed.

Lemma thm_uniform : forall (V : Type) (v0 : V) D (X : dense V) draws, 0 < D ->
  pos_shape (dshape X) -> Forall (unit_draws D (dshape X)) draws ->
  length (uniform_subs D (dshape X) draws) = length draws /\ length (uniform_vals D v0 X draws) = length draws /\
  Forall2 (fun row v => exists i, row = zidx i /\ inb (dshape X) i = true /\ v = den_dense v0 X i)
          (uniform_subs D (dshape X) draws) (uniform_vals D v0 X draws).
Proof.
  intros V v0 D X draws HD Hs Hd.
  exact (conj (proj1 (uniform_lengths D v0 X draws)) (conj (proj2 (uniform_lengths D v0 X draws)) (uniform_values D HD v0 X draws Hs Hd))).
Qed.

Lemma thm_nonzero_samples : forall (V : Type) (v0 : V) (isz : V -> bool) (S : sparse V) nidx,
  wf_sp isz S -> Forall (fun k => (k < nnz S)%nat) nidx ->
  length (nz_subs S nidx) = length nidx /\ length (nz_vals v0 S nidx) = length nidx /\
  Forall2 (fun row v => exists i, row = zidx i /\ inb (sshape S) i = true /\ v = den_sp v0 S i /\ isz v = false)
          (nz_subs S nidx) (nz_vals v0 S nidx).
Proof.
  intros V v0 isz S nidx W Hk.
  exact (conj (proj1 (nz_lengths v0 S nidx)) (conj (proj2 (nz_lengths v0 S nidx)) (nz_values v0 isz S nidx W Hk))).
Qed.

Lemma thm_stratified_lengths : forall (V : Type) (v0 : V) D (S : sparse V) nzidx nidx draws num_zeros,
  (length (strat_subs D S nzidx nidx draws num_zeros) =
     (length nidx + Nat.min num_zeros (length (filter (is_zero_row (sshape S) nzidx) (map (draw_row D (sshape S)) draws))))%nat /\
   length (strat_vals v0 S nidx num_zeros) = (length nidx + num_zeros)%nat) /\
  length (strat_subs D S nzidx nidx draws num_zeros) = length (strat_vals_fixed D v0 S nzidx nidx draws num_zeros).
Proof.
  intros. exact (conj (strat_lengths D v0 S nzidx nidx draws num_zeros) (strat_fixed_lengths_agree D v0 S nzidx nidx draws num_zeros)).
Qed.

Lemma thm_semistrat : forall (V : Type) (v0 : V) D (S : sparse V) nidx draws, 0 < D ->
  (length (semi_subs D S nidx draws) = (length nidx + length draws)%nat /\
   length (semi_vals v0 S nidx draws) = (length nidx + length draws)%nat) /\
  (pos_shape (sshape S) -> Forall (unit_draws D (sshape S)) draws ->
   Forall (in_rangeZ (sshape S)) (map (draw_row D (sshape S)) draws)).
Proof.
  intros V v0 D S nidx draws HD. exact (conj (semi_lengths D v0 S nidx draws) (semi_in_range D HD S draws)).
Qed.

Lemma thm_stratified_weights : forall (nnzq zerosq : Qc) (cn cz : nat),
  length (strat_weights nnzq zerosq cn cz) = (cn + cz)%nat /\
  ((0 < cn)%nat -> wsum (firstn cn (strat_weights nnzq zerosq cn cz)) = nnzq) /\
  ((0 < cz)%nat -> wsum (skipn cn (strat_weights nnzq zerosq cn cz)) = zerosq) /\
  (forall (V : Type) (v0 : V) (S : sparse V) nidx, length nidx = cn ->
     length (strat_weights nnzq zerosq cn cz) = length (strat_vals v0 S nidx cz)).
Proof.
  intros nnzq zerosq cn cz.
  exact (conj (proj1 (strat_weights_total nnzq zerosq cn cz))
        (conj (proj1 (proj2 (strat_weights_total nnzq zerosq cn cz)))
        (conj (proj2 (proj2 (strat_weights_total nnzq zerosq cn cz)))
              (fun V v0 S nidx H => eq_trans (proj1 (strat_weights_total nnzq zerosq cn cz))
                 (eq_sym (eq_trans (proj2 (strat_lengths 1%Z v0 S nil nidx nil cz)) (f_equal (fun n => (n + cz)%nat) H))))))).
Qed.

Example thm_example_solve :     (* estimates 10, 7, 9 (failed), 4: best = epoch 3, the reported trace has all four values *)
  let s := zsolve [10; 7; 9; 4] 1 None 3 in
  cur _ _ _ s = 3%nat /\ zfull_trace [10; 7; 9; 4] s = [10; 7; 9; 4] /\ zreported_trace [10; 7; 9; 4] 3 s = [10; 7; 9; 4] /\
  nfails _ _ _ s = 1%nat.
Proof. repeat split; reflexivity. Qed.
Example thm_example_vec :
  tovec_f nat 0%nat (mkK (1 :: 1 :: nil)%nat (((1 :: 2 :: nil) :: (3 :: 4 :: nil) :: (5 :: 6 :: nil) :: nil) :: ((7 :: 8 :: nil) :: (9 :: 10 :: nil) :: nil) :: nil)%nat)
  = (1 :: 3 :: 5 :: 2 :: 4 :: 6 :: 7 :: 9 :: 8 :: 10 :: nil)%nat.
Proof. reflexivity. Qed.
