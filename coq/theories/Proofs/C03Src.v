(* Proofs/C03Src.v — wave 3: _compare as written in the source (operator + opposite_operator + include_zero + guards),
   over the generated row helpers, computes list for list the closed forms impl_cmp_scalar / impl_cmp / impl_cmp_dense
   (whose denotation is the element-wise comparison: Proofs/C03Proofs.v), provided `opposite_operator` satisfies the
   three "symmetry around zero" laws; the four triples pyttb passes satisfy them on Z. *)
From Coq Require Import List ZArith Arith Lia Bool Permutation.
From PV Require Import Base.Index Np.NpZ Np.Array Gen.GenUtils Model.Sparse Model.C03Ops Model.C03Gen Model.C03More Model.C03Src Model.Harness
                       Proofs.C03Rows Proofs.C03Lemmas Proofs.C03Proofs Proofs.C03GenProofs Proofs.C03More.
Import ListNotations.

Lemma filter_comm {X} (p q : X -> bool) (l : list X) : filter p (filter q l) = filter q (filter p l).
Proof.
  induction l as [|x l IH]; [reflexivity|]. cbn [filter].
  destruct (q x) eqn:Q, (p x) eqn:P; cbn [filter]; rewrite ?Q, ?P, IH; reflexivity.
Qed.

Lemma rows_inter_nil_r (l : list idx) : rows_inter l [] = [].
Proof. unfold rows_inter. induction l as [|i l IH]; [reflexivity|exact IH]. Qed.

Section Src.
Context {V : Type} (v0 : V) (isz : V -> bool).
Hypothesis isz_spec : forall v, isz v = true <-> v = v0.
Variable one : V.
Variables (cmp opp : V -> V -> bool) (include_zero : bool).
Hypothesis laws : opposite_laws v0 cmp opp include_zero.
Notation den := (den_sp v0).
Notation wf := (wf_sp isz).
Notation wfs := (@wf_struct V).

Theorem impl_cmp_scalar_src_eq (A : sparse V) c : wfs A -> sshape A <> [] ->
  impl_cmp_scalar_src v0 one cmp opp A c = Ok (impl_cmp_scalar v0 one cmp A c).
Proof.
  intros W Hne. destruct laws as (L0 & _). unfold impl_cmp_scalar_src. rewrite L0.
  exact (impl_cmp_scalar_gen_eq v0 one cmp A c W Hne).
Qed.

Theorem impl_cmp_src_eq (A B : sparse V) : wf A -> wf B -> sshape B = sshape A -> sshape A <> [] ->
  impl_cmp_src v0 one cmp opp include_zero A B = Ok (impl_cmp v0 one cmp A B).
Proof.
  intros WfA WfB Hs Hne. destruct laws as (L0 & L1 & L2 & L3).
  pose proof (wf_sp_struct isz A WfA) as WA. pose proof (wf_sp_struct isz B WfB) as WB.
  assert (HN : (0 < length (sshape A))%nat) by (destruct (sshape A); [contradiction|cbn; lia]).
  pose proof (width_subs A WA) as WdA. pose proof (width_subs B WB) as WdB. rewrite Hs in WdB.
  assert (HnA : NoDup (ssubs A)) by (now destruct WA as (_ & ? & _)).
  assert (HnB : NoDup (ssubs B)) by (now destruct WB as (_ & ? & _)).
  unfold impl_cmp_src, impl_cmp.
  (* group 1 *)
  assert (G1 : (if nonempty (ssubs A) then
                  bind (gen_diff (ssubs A) (ssubs B)) (fun d1 => Ok (filter (fun i => negb (opp (den A i) v0)) d1))
                else Ok []) = Ok (filter (fun i => cmp (den A i) v0) (rows_diff (ssubs A) (ssubs B)))).
  { rewrite (gen_diff_spec _ HN (ssubs A) (ssubs B)) by auto. cbn [bind].
    destruct (ssubs A) as [|a0 la] eqn:EA; [reflexivity|]. cbn [nonempty]. f_equal. apply filter_ext_in.
    intros i Hi. apply filter_In in Hi as [Hi _]. apply L1. rewrite <- EA in Hi. now apply (in_subs_iff v0 isz isz_spec A i WfA). }
  rewrite G1. cbn [bind].
  assert (G2 : (if nonempty (ssubs B) then
                  bind (gen_diff (ssubs B) (ssubs A)) (fun d2 => Ok (filter (fun i => negb (cmp (den B i) v0)) d2))
                else Ok []) = Ok (filter (fun i => cmp v0 (den B i)) (rows_diff (ssubs B) (ssubs A)))).
  { rewrite (gen_diff_spec _ HN (ssubs B) (ssubs A)) by auto. cbn [bind].
    destruct (ssubs B) as [|b0 lb] eqn:EB; [reflexivity|]. cbn [nonempty]. f_equal. apply filter_ext_in.
    intros i Hi. apply filter_In in Hi as [Hi _]. apply L2. rewrite <- EB in Hi. now apply (in_subs_iff v0 isz isz_spec B i WfB). }
  rewrite G2. cbn [bind].
  assert (G3 : (if nonempty (ssubs A) then
                  bind (gen_inter (ssubs A) (ssubs B)) (fun c3 => Ok (filter (fun i => cmp (den A i) (den B i)) c3))
                else Ok []) = Ok (filter (fun i => cmp (den A i) (den B i)) (rows_inter (ssubs B) (ssubs A)))).
  { rewrite (gen_inter_spec _ HN (ssubs A) (ssubs B)) by auto. cbn [bind].
    destruct (ssubs A) as [|a0 la] eqn:EA; [|reflexivity]. cbn [nonempty]. f_equal.
    now rewrite rows_inter_nil_r. }
  rewrite G3. cbn [bind]. rewrite L3.
  destruct (cmp v0 v0).
  - rewrite gen_zero_subs by auto. cbn [bind]. rewrite gen_zero_subs by (auto; congruence). cbn [bind].
    rewrite (gen_inter_spec _ HN (zero_subs A) (zero_subs B)); [reflexivity| | | |].
    + apply NoDup_zero_subs.
    + apply NoDup_zero_subs.
    + apply width_filter, width_allsubs.
    + unfold zero_subs. rewrite Hs. apply width_filter, width_allsubs.
  - now rewrite app_nil_r.
Qed.

Theorem impl_cmp_dense_src_eq (A : sparse V) (T : dense V) : wfs A -> sshape A <> [] ->
  impl_cmp_dense_src v0 one cmp opp A T = Ok (impl_cmp_dense v0 one cmp A T).
Proof.
  intros WA Hne. destruct laws as (L0 & _).
  assert (HN : (0 < length (sshape A))%nat) by (destruct (sshape A); [contradiction|cbn; lia]).
  assert (HnA : NoDup (ssubs A)) by (now destruct WA as (_ & ? & _)).
  unfold impl_cmp_dense_src, impl_cmp_dense.
  rewrite (gen_diff_spec _ HN) ; auto using width_subs.
  - cbn [bind]. f_equal. f_equal. f_equal. unfold zero_subs, rows_diff. rewrite filter_comm.
    apply filter_ext. intros i. apply L0.
  - apply NoDup_filter, allsubs_NoDup.
  - apply width_filter, width_allsubs.
Qed.

Theorem impl_eq_scalar_src_eq (veqb : V -> V -> bool) (A : sparse V) c : wfs A -> sshape A <> [] ->
  impl_eq_scalar_src isz one veqb A c = Ok (impl_eq_scalar isz one veqb A c).
Proof.
  intros W Hne. unfold impl_eq_scalar_src, impl_eq_scalar. destruct (isz c); [|reflexivity].
  exact (impl_not_gen_eq one A W Hne).
Qed.

(* end to end: the code as written returns a well-formed tensor that denotes the element-wise comparison *)
Hypothesis one_nz : one <> v0.
Notation bv := (bval v0 one).
Theorem impl_cmp_src_correct (A B : sparse V) : wf A -> wf B -> sshape B = sshape A -> sshape A <> [] ->
  exists R, impl_cmp_src v0 one cmp opp include_zero A B = Ok R /\ wf R /\ sshape R = sshape A /\
            forall i, inb (sshape A) i = true -> den R i = bv (cmp (den A i) (den B i)).
Proof.
  intros WA WB Hs Hne. eexists. split; [now apply impl_cmp_src_eq|].
  exact (impl_cmp_correct v0 isz isz_spec one one_nz cmp A B WA WB Hs).
Qed.
Theorem impl_cmp_scalar_src_correct (A : sparse V) c : wf A -> sshape A <> [] ->
  exists R, impl_cmp_scalar_src v0 one cmp opp A c = Ok R /\ wf R /\ sshape R = sshape A /\
            forall i, inb (sshape A) i = true -> den R i = bv (cmp (den A i) c).
Proof.
  intros WA Hne. eexists. split; [apply impl_cmp_scalar_src_eq; auto; now apply (wf_sp_struct isz)|].
  exact (impl_cmp_scalar_correct v0 isz isz_spec one one_nz cmp A c WA).
Qed.
Theorem impl_cmp_dense_src_correct (A : sparse V) (T : dense V) : wf A -> sshape A <> [] ->
  exists R, impl_cmp_dense_src v0 one cmp opp A T = Ok R /\ wf R /\ sshape R = sshape A /\
            forall i, inb (sshape A) i = true -> den R i = bv (cmp (den A i) (den_dense v0 T i)).
Proof.
  intros WA Hne. eexists. split; [apply impl_cmp_dense_src_eq; auto; now apply (wf_sp_struct isz)|].
  exact (impl_cmp_dense_correct v0 isz isz_spec one one_nz cmp A T WA).
Qed.
End Src.

(* ---- a two-step history at model level: (A + B) == c, zeros of the sum included (c = 0 marks every position where the
        operands cancel) — the sum is well-formed (no cancelled entry is kept), so the next operator may read its pattern ---- *)
Section Then.
Context {V : Type} (v0 : V) (isz : V -> bool).
Hypothesis isz_spec : forall v, isz v = true <-> v = v0.
Variables (one : V) (vadd : V -> V -> V) (veqb : V -> V -> bool).
Hypothesis one_nz : one <> v0.
Hypothesis vadd_0_l : forall x, vadd v0 x = x.
Hypothesis vadd_0_r : forall x, vadd x v0 = x.
Hypothesis veqb_spec : forall a b, veqb a b = true <-> a = b.
Theorem add_then_eq_scalar (A B : sparse V) (c : V) : wf_sp isz A -> wf_sp isz B -> sshape B = sshape A ->
  let R := impl_eq_scalar isz one veqb (impl_add v0 isz vadd A B) c in
  wf_sp isz R /\ sshape R = sshape A /\
  forall i, inb (sshape A) i = true -> den_sp v0 R i = bval v0 one (veqb (vadd (den_sp v0 A i) (den_sp v0 B i)) c).
Proof.
  intros WA WB Hs R.
  destruct (impl_add_correct v0 isz isz_spec vadd vadd_0_l vadd_0_r A B WA WB Hs) as (W1 & S1 & D1).
  destruct (impl_eq_scalar_correct v0 isz isz_spec one one_nz veqb veqb_spec (impl_add v0 isz vadd A B) c W1) as (W2 & S2 & D2).
  split; [exact W2|]. split; [unfold R; now rewrite S2|].
  intros i Hi. unfold R. rewrite D2 by (now rewrite S1). now rewrite D1.
Qed.
End Then.

(* the cancellation instance: A + (-A) == 0 is all ones *)
Example add_then_eq_example :
  let A := mkSp [2;2]%nat [[1;1];[0;0]]%nat [3; -2]%Z in
  let B := mkSp [2;2]%nat [[1;1];[0;0]]%nat [-3; 5]%Z in
  let R := impl_eq_scalar zisz 1%Z Z.eqb (impl_add 0%Z zisz Z.add A B) 0%Z in
  (ssubs (impl_add 0%Z zisz Z.add A B) = [[0;0]]%nat) /\ map (fun i => den_sp 0%Z R i) (allsubs [2;2]%nat) = [0; 1; 1; 1]%Z.
Proof. vm_compute. split; reflexivity. Qed.

(* the four triples of __le__ / __lt__ / __ge__ / __gt__ satisfy the laws on Z *)
Local Open Scope Z_scope.
Lemma laws_le : opposite_laws 0 zcmp_le zcmp_ge true.
Proof. unfold opposite_laws, zcmp_le, zcmp_ge. repeat split; intros; try reflexivity;
  repeat match goal with |- context [?a <=? ?b] => destruct (Z.leb_spec a b) end; cbn; try reflexivity; lia. Qed.
Lemma laws_ge : opposite_laws 0 zcmp_ge zcmp_le true.
Proof. unfold opposite_laws, zcmp_le, zcmp_ge. repeat split; intros; try reflexivity;
  repeat match goal with |- context [?a <=? ?b] => destruct (Z.leb_spec a b) end; cbn; try reflexivity; lia. Qed.
Lemma laws_lt : opposite_laws 0 zcmp_lt zcmp_gt false.
Proof. unfold opposite_laws, zcmp_lt, zcmp_gt. repeat split; intros; try reflexivity;
  repeat match goal with |- context [?a <? ?b] => destruct (Z.ltb_spec a b) end; cbn; try reflexivity; lia. Qed.
Lemma laws_gt : opposite_laws 0 zcmp_gt zcmp_lt false.
Proof. unfold opposite_laws, zcmp_lt, zcmp_gt. repeat split; intros; try reflexivity;
  repeat match goal with |- context [?a <? ?b] => destruct (Z.ltb_spec a b) end; cbn; try reflexivity; lia. Qed.

Theorem pyttb_compare_triples :
  opposite_laws 0 zcmp_le zcmp_ge true /\ opposite_laws 0 zcmp_lt zcmp_gt false /\
  opposite_laws 0 zcmp_ge zcmp_le true /\ opposite_laws 0 zcmp_gt zcmp_lt false.
Proof. exact (conj laws_le (conj laws_lt (conj laws_ge laws_gt))). Qed.

(* S <= S2, S < S2, S >= S2, S > S2 exactly as pyttb calls _compare, on integer tensors *)
Definition compare_as_called (cmp opp : Z -> Z -> bool) (incl : bool) : Prop :=
  forall A B : sparse Z, wf_sp zisz A -> wf_sp zisz B -> sshape B = sshape A -> sshape A <> [] ->
  exists R, impl_cmp_src 0 1 cmp opp incl A B = Ok R /\ wf_sp zisz R /\ sshape R = sshape A /\
            forall i, inb (sshape A) i = true -> den_sp 0 R i = zb (cmp (den_sp 0 A i) (den_sp 0 B i)).
Theorem pyttb_compare_sparse_Z :
  compare_as_called zcmp_le zcmp_ge true /\ compare_as_called zcmp_lt zcmp_gt false /\
  compare_as_called zcmp_ge zcmp_le true /\ compare_as_called zcmp_gt zcmp_lt false.
Proof.
  assert (H1 : (1 <> 0)%Z) by discriminate.
  repeat split; intros A B WA WB Hs Hne.
  - exact (impl_cmp_src_correct 0 zisz zisz_spec 1 _ _ _ laws_le H1 A B WA WB Hs Hne).
  - exact (impl_cmp_src_correct 0 zisz zisz_spec 1 _ _ _ laws_lt H1 A B WA WB Hs Hne).
  - exact (impl_cmp_src_correct 0 zisz zisz_spec 1 _ _ _ laws_ge H1 A B WA WB Hs Hne).
  - exact (impl_cmp_src_correct 0 zisz zisz_spec 1 _ _ _ laws_gt H1 A B WA WB Hs Hne).
Qed.

(* a wrong pairing is rejected by the laws: `lt` with opposite `ge` (plain logical negation) is NOT a valid triple *)
Example opposite_is_not_negation : ~ opposite_laws 0 zcmp_lt zcmp_ge false.
Proof. intros (L0 & _). specialize (L0 0). discriminate L0. Qed.

(* non-vacuity: S <= S2 on a 2x2 instance with different stored orders, through the generated helpers *)
Example cmp_src_example :
  let A := mkSp [2;2]%nat [[1;1];[0;0]]%nat [3; -2] in
  let B := mkSp [2;2]%nat [[0;0];[0;1]]%nat [-2; 5] in
  match impl_cmp_src 0 1 zcmp_le zcmp_ge true A B with
  | Ok R => map (fun i => den_sp 0 R i) (allsubs [2;2]%nat) = [1; 1; 1; 0]
  | Err => False
  end.
Proof. vm_compute. reflexivity. Qed.
