(* Model/C04Model.v — C04: entry reads and writes as a state machine (definitions only, executable).
   Abstract spec:  amap = (shape, f : idx -> V), spec_step.
   Concrete models: step_dense on (shape, F-order data)   — pyttb/tensor.py  __getitem__, __setitem__, _set_linear,
                                                            _set_subtensor, _set_subscripts
                    step_sparse on (shape, subs, vals)    — pyttb/sptensor.py __getitem__, __setitem__, extract, subdims,
                                                            _set_subscripts, _set_subtensor; pyttb_utils tt_renumber*, tt_irenumber
   Both concrete models describe the CORRECT behaviour demanded by the property (the open pyttb defects
   A-13, A-14, A-15, N-01, N-02 are listed in findings.d/C04.jsonl and attributed by trigger).
   The meaning of a key (which positions it denotes, to which shape the tensor grows) is part of the
   specification: resolve_get / resolve_set (Python slice semantics, negative integers count from the end,
   linear indices are F-order, a region is the Cartesian product of its per-mode index lists). *)
From Coq Require Import List Arith ZArith Lia Bool.
From PV Require Import Base.Index Np.Array Model.Sparse.
Import ListNotations.

Inductive kelem := KInt (z : Z) | KSlice (a b c : option Z) | KList (l : list Z).
Inductive key :=
| KLin (z : Z) | KLinList (l : list Z) | KLinSlice (a b c : option Z)
| KSubs (rows : list (list Z)) | KRegion (es : list kelem).

(* ------------------------------------------------------------------------------------------------ *)
(* key resolution (specification level, value-independent)                                            *)
(* ------------------------------------------------------------------------------------------------ *)
Local Open Scope Z_scope.

(* Python: range(len)[slice(a,b,c)]  (PySlice_Unpack + PySlice_AdjustIndices + range) ; step 0 -> [] *)
Definition py_slice (len : nat) (a b c : option Z) : list nat :=
  let n := Z.of_nat len in
  let step := match c with Some s => s | None => 1 end in
  if step =? 0 then [] else
  let neg := step <? 0 in
  let adj (x : Z) := if x <? 0 then (let y := x + n in if y <? 0 then (if neg then -1 else 0) else y)
                     else if n <=? x then (if neg then n - 1 else n) else x in
  let start := match a with Some x => adj x | None => if neg then n - 1 else 0 end in
  let stop := match b with Some x => adj x | None => if neg then -1 else n end in
  let cnt := if neg then (if stop <? start then (start - stop - 1) / (- step) + 1 else 0)
             else (if start <? stop then (stop - start - 1) / step + 1 else 0) in
  map (fun k => Z.to_nat (start + Z.of_nat k * step)) (seq 0 (Z.to_nat cnt)).

(* an integer index into an extent d: negative counts from the end; must land in [0,d) *)
Definition norm_index (d : nat) (z : Z) : option nat :=
  let k := if z <? 0 then z + Z.of_nat d else z in
  if (0 <=? k) && (k <? Z.of_nat d) then Some (Z.to_nat k) else None.

Local Close Scope Z_scope.

Fixpoint opt_all {A} (l : list (option A)) : option (list A) :=
  match l with
  | [] => Some []
  | None :: _ => None
  | Some x :: r => match opt_all r with Some r' => Some (x :: r') | None => None end
  end.

Definition nonneg_row (r : list Z) : option idx :=
  if forallb (fun z => (0 <=? z)%Z) r then Some (map Z.to_nat r) else None.

(* Cartesian product of per-mode index lists; F order (first mode fastest) and C order (last mode fastest) *)
Fixpoint cartF (ls : list (list nat)) : list idx :=
  match ls with [] => [[]] | l :: r => flat_map (fun t => map (fun x => x :: t) l) (cartF r) end.
Fixpoint cartC (ls : list (list nat)) : list idx :=
  match ls with [] => [[]] | l :: r => flat_map (fun x => map (cons x) (cartC r)) l end.

(* one region element on a mode of extent d: (is the mode kept in the result?, selected indices) *)
Definition elem_indices (d : nat) (e : kelem) : option (bool * list nat) :=
  match e with
  | KInt z => match norm_index d z with Some k => Some (false, [k]) | None => None end
  | KSlice a b c => match py_slice d a b c with [] => None | l => Some (true, l) end
  | KList l => match l with [] => None | _ =>
                 if forallb (fun z => (0 <=? z)%Z && (z <? Z.of_nat d)%Z) l then Some (true, map Z.to_nat l) else None end
  end.

Fixpoint region_lists (s : shape) (es : list kelem) : option (list (bool * list nat)) :=
  match s, es with
  | [], [] => Some []
  | d :: s', e :: es' =>
      match elem_indices d e, region_lists s' es' with
      | Some x, Some r => Some (x :: r) | _, _ => None end
  | _, _ => None
  end.

Definition kept_shape (ls : list (bool * list nat)) : shape :=
  map (fun x => length (snd x)) (filter (fun x => fst x) ls).

(* positions read by a key, in the order of the result, and the shape of the result *)
Definition resolve_get (s : shape) (k : key) : option (shape * list idx) :=
  match k with
  | KLin z => match norm_index (size s) z with Some n => Some ([], [ind2sub s n]) | None => None end
  | KLinList l => match l with [] => None | _ =>
      match opt_all (map (norm_index (size s)) l) with
      | Some ks => Some ([length ks], map (ind2sub s) ks) | None => None end end
  | KLinSlice a b c => match py_slice (size s) a b c with [] => None | ks => Some ([length ks], map (ind2sub s) ks) end
  | KSubs rows => match rows with [] => None | _ =>
      match opt_all (map nonneg_row rows) with
      | Some ps => if forallb (inb s) ps then Some ([length ps], ps) else None
      | None => None end end
  | KRegion es => match s with [] => None | _ =>
      match region_lists s es with
      | Some ls => Some (kept_shape ls, cartF (map snd ls)) | None => None end end
  end.

(* growth: the extent each key element demands *)
Definition elem_need (e : kelem) : nat :=
  match e with
  | KInt z => if (z <? 0)%Z then 0 else Z.to_nat (z + 1)
  | KSlice _ (Some b) _ => Z.to_nat b
  | KSlice _ None _ => 0
  | KList l => Z.to_nat (fold_right Z.max (-1)%Z l + 1)
  end.
(* a key element for a mode that does not exist yet must fix its extent *)
Definition elem_new_ok (e : kelem) : bool :=
  match e with
  | KInt z => (0 <=? z)%Z
  | KSlice _ (Some b) _ => (0 <? b)%Z
  | KSlice _ None _ => false
  | KList _ => true
  end.

Fixpoint grow (s : shape) (need : list nat) : shape :=
  match s, need with
  | d :: s', x :: n' => Nat.max d x :: grow s' n'
  | [], n => n
  | s, [] => s
  end.

Fixpoint col_need (rows : list idx) (m : nat) : list nat :=   (* per column: max + 1 *)
  match m with
  | O => []
  | S m' => fold_right Nat.max 0 (map (fun r => S (hd 0 r)) rows) :: col_need (map (@tl nat) rows) m'
  end.

Fixpoint shape_eqb (a b : list nat) : bool :=
  match a, b with [], [] => true | x :: a', y :: b' => Nat.eqb x y && shape_eqb a' b' | _, _ => false end.

Section M.
Context {V : Type} (v0 : V) (isz : V -> bool).

(* right-hand sides: one scalar for every position, or one value per position
   (per subscript row / per linear index / F-order data of an exactly shaped array or tensor) *)
Inductive rhs := RScalar (v : V) | RValues (l : list V).
Inductive op := OGet (k : key) | OSet (k : key) (r : rhs).

Definition rhs_values (r : rhs) (n : nat) : option (list V) :=
  match r with
  | RScalar v => Some (repeat v n)
  | RValues l => if Nat.eqb (length l) n then Some l else None
  end.

(* new shape and the list of (position, value) assignments, in assignment order.
   [cart] = enumeration order of a region (cartF: F order, the order of numpy's exactly-shaped right-hand side) *)
Definition finish_set (r : rhs) (s' : shape) (ps : list idx) : option (shape * list (idx * V)) :=
  match rhs_values r (length ps) with
  | Some vs => if forallb (inb s') ps then Some (s', combine ps vs) else None
  | None => None end.

Definition subs_ok (s : shape) (rows : list (list Z)) : bool :=
  match rows with [] => false | r0 :: _ =>
    let m := length r0 in
    Nat.leb 1 m && Nat.leb (length s) m && forallb (fun r => Nat.eqb (length r) m) rows end.

Definition region_ok (s : shape) (es : list kelem) : bool :=
  Nat.leb 1 (length es) && Nat.leb (length s) (length es) && forallb elem_new_ok (skipn (length s) es).

Definition resolve_set (cart : list (list nat) -> list idx) (s : shape) (k : key) (r : rhs)
  : option (shape * list (idx * V)) :=
  match k with
  | KLin _ | KLinList _ | KLinSlice _ _ _ =>        (* linear keys never resize *)
      match resolve_get s k with Some (_, ps) => finish_set r s ps | None => None end
  | KSubs rows =>
      if subs_ok s rows then
        match opt_all (map nonneg_row rows) with
        | Some ps => finish_set r (grow s (col_need ps (length (hd [] rows)))) ps
        | None => None end
      else None
  | KRegion es =>
      if region_ok s es then
        let s' := grow s (map elem_need es) in
        match region_lists s' es with
        | Some ls => finish_set r s' (cart (map snd ls))
        | None => None end
      else None
  end.

(* ------------------------------------------------------------------------------------------------ *)
(* abstract specification                                                                             *)
(* ------------------------------------------------------------------------------------------------ *)
Record amap := mkA { ashape : shape; af : idx -> V }.

Definition eq_amap (a b : amap) : Prop := ashape a = ashape b /\ forall i, af a i = af b i.

(* an array of order n seen as an array of order >= n: the old entries sit at index 0 of every new mode *)
Definition embed (n : nat) (f : idx -> V) (j : idx) : V :=
  if forallb (Nat.eqb 0) (skipn n j) then f (firstn n j) else v0.

(* value of the LAST assignment to i in the batch, else d  (Sparse.last_match) *)
Definition spec_set (a : amap) (s' : shape) (asg : list (idx * V)) : amap :=
  mkA s' (fun j => if inb s' j then last_match j asg (embed (length (ashape a)) (af a) j) else v0).

Definition outv := (shape * list V)%type.

Definition spec_step (a : amap) (o : op) : option (amap * outv) :=
  match o with
  | OGet k => match resolve_get (ashape a) k with
             | Some (os, ps) => Some (a, (os, map (af a) ps)) | None => None end
  | OSet k r => match resolve_set cartF (ashape a) k r with
               | Some (s', asg) => Some (spec_set a s' asg, ([], [])) | None => None end
  end.

(* ------------------------------------------------------------------------------------------------ *)
(* dense: tensor.__getitem__ / __setitem__                                                            *)
(* ------------------------------------------------------------------------------------------------ *)
Definition abs_dense (T : dense V) : amap := mkA (dshape T) (den_dense v0 T).

(* newData = zeros(newsiz); newData[:shape..., 0...] = data *)
Definition dense_resize (T : dense V) (s' : shape) : dense V :=
  tabulate s' (embed (length (dshape T)) (den_dense v0 T)).

(* data[positions] = values : numpy scatter, sequential, F-order offsets *)
Definition dense_assign (T : dense V) (s' : shape) (asg : list (idx * V)) : dense V :=
  mkDense s' (fold_left (fun d (e : idx * V) => upd d (sub2ind s' (fst e)) (snd e)) asg (ddata (dense_resize T s'))).

Definition step_dense (T : dense V) (o : op) : option (dense V * outv) :=
  match o with
  | OGet k => match resolve_get (dshape T) k with
             | Some (os, ps) => Some (T, (os, map (den_dense v0 T) ps)) | None => None end
  | OSet k r => match resolve_set cartF (dshape T) k r with
               | Some (s', asg) => Some (dense_assign T s' asg, ([], [])) | None => None end
  end.

(* ------------------------------------------------------------------------------------------------ *)
(* sparse: sptensor.__getitem__ / __setitem__                                                         *)
(* ------------------------------------------------------------------------------------------------ *)
Definition abs_sp (S : sparse V) : amap := mkA (sshape S) (den_sp v0 S).

Definition of_entries (s : shape) (es : list (idx * V)) : sparse V := mkSp s (map fst es) (map snd es).

Definition memb (i : idx) (l : list idx) : bool := existsb (idx_eqb i) l.

Fixpoint lookup (i : idx) (asg : list (idx * V)) : option V :=
  match asg with [] => None | (j, v) :: r => if idx_eqb i j then Some v else lookup i r end.

(* order growth: existing subscripts get a 0 in every new mode *)
Definition sp_pad (m : nat) (i : idx) : idx := i ++ repeat 0 (m - length i).

(* lexicographic row order of np.unique(axis=0) *)
Fixpoint row_ltb (a b : idx) : bool :=
  match a, b with
  | [], [] => false
  | [], _ => true
  | _, [] => false
  | x :: a', y :: b' => if Nat.ltb x y then true else if Nat.ltb y x then false else row_ltb a' b'
  end.
Fixpoint ins_row (p : idx * V) (l : list (idx * V)) : list (idx * V) :=
  match l with
  | [] => [p]
  | q :: r => if row_ltb (fst p) (fst q) then p :: l else q :: ins_row p r
  end.
(* keep, for every subscript, its LAST assignment in the batch *)
Definition dedupe_last (asg : list (idx * V)) : list (idx * V) :=
  fold_right (fun p acc => if memb (fst p) (map fst acc) then acc else p :: acc) [] asg.
Definition sort_dedupe (asg : list (idx * V)) : list (idx * V) := fold_right ins_row [] (dedupe_last asg).

(* _set_subscripts groups A (change), B (delete), C (append) / _set_subtensor scalar and zero right-hand sides *)
Definition sp_apply (es asg : list (idx * V)) : list (idx * V) :=
  flat_map (fun e : idx * V => match lookup (fst e) asg with
                     | Some v => if isz v then [] else [(fst e, v)]
                     | None => [e] end) es
  ++ filter (fun a : idx * V => negb (isz (snd a)) && negb (memb (fst a) (map fst es))) asg.

(* _set_subtensor with a (sparse) tensor right-hand side: delete the region, append the new nonzeros *)
Definition sp_replace (es asg : list (idx * V)) : list (idx * V) :=
  filter (fun e : idx * V => negb (memb (fst e) (map fst asg))) es
  ++ filter (fun a : idx * V => negb (isz (snd a))) asg.

Definition sp_set (S : sparse V) (s' : shape) (asg : list (idx * V)) (replace : bool) : option (sparse V) :=
  if nodupb (map fst asg) then
    let es := map (fun e : idx * V => (sp_pad (length s') (fst e), snd e)) (entries S) in
    if forallb (inb s') (map fst es) then
      Some (of_entries s' (if replace then sp_replace es asg else sp_apply es asg))
    else None
  else None.

Definition step_sparse (S : sparse V) (o : op) : option (sparse V * outv) :=
  match o with
  | OGet k => match resolve_get (sshape S) k with
             | Some (os, ps) => Some (S, (os, map (den_sp v0 S) ps)) | None => None end
  | OSet k r =>
      match k, r with
      | KSubs _, _ =>           (* np.unique rows (sorted), then groups A/B/C *)
          match resolve_set cartF (sshape S) k r with
          | Some (s', asg) => match sp_set S s' (sort_dedupe asg) false with
                              | Some S' => Some (S', ([], [])) | None => None end
          | None => None end
      | KRegion _, RScalar _ => (* khatrirao enumeration: first mode slowest; a position addressed twice (an index repeated
                                   inside a key list) is one position *)
          match resolve_set cartC (sshape S) k r with
          | Some (s', asg) => match sp_set S s' (dedupe_last asg) false with
                              | Some S' => Some (S', ([], [])) | None => None end
          | None => None end
      | KRegion _, RValues _ => (* tensor right-hand side; a position addressed twice keeps its LAST value (as numpy does) *)
          match resolve_set cartF (sshape S) k r with
          | Some (s', asg) => match sp_set S s' (dedupe_last asg) true with
                              | Some S' => Some (S', ([], [])) | None => None end
          | None => None end
      | _, _ => None           (* linear assignment is not supported by sptensor (documented) *)
      end
  end.

(* sptensor.__getitem__ with a region: keep the stored entries inside the region (subdims), renumber every kept
   mode by the position of the subscript in its index list (tt_renumber), drop the integer modes *)
Fixpoint index_of (x : nat) (l : list nat) : option nat :=
  match l with [] => None | y :: r => if Nat.eqb x y then Some 0 else option_map S (index_of x r) end.
Fixpoint renumber (ls : list (bool * list nat)) (i : idx) : option idx :=
  match ls, i with
  | [], [] => Some []
  | (kept, l) :: ls', x :: i' =>
      match index_of x l, renumber ls' i' with
      | Some k, Some r => Some (if kept then k :: r else r)
      | _, _ => None end
  | _, _ => None
  end.
(* wave 3b: an index list may name an index several times; the entry stored at that index then appears at EVERY position
   of the list that names it (numpy / the dense class return the row once per repetition).  positions_from k x l = the
   positions (counted from k) at which l holds x, ascending; renumber_all = every subscript of the result an entry lands on
   (first kept mode slowest: the order in which the repaired __getitem__ expands the filtered rows, mode by mode);
   select = the source position a result subscript reads. *)
Fixpoint positions_from (k x : nat) (l : list nat) : list nat :=
  match l with
  | [] => []
  | y :: r => if Nat.eqb x y then k :: positions_from (S k) x r else positions_from (S k) x r
  end.
Fixpoint renumber_all (ls : list (bool * list nat)) (i : idx) : list idx :=
  match ls, i with
  | [], [] => [[]]
  | (kept, l) :: ls', x :: i' =>
      flat_map (fun k => map (fun r => if kept then k :: r else r) (renumber_all ls' i')) (positions_from 0 x l)
  | _, _ => []
  end.
Fixpoint select (ls : list (bool * list nat)) (j : idx) : idx :=
  match ls with
  | [] => []
  | (true, l) :: ls' => nth (hd 0 j) l 0 :: select ls' (tl j)
  | (false, l) :: ls' => hd 0 l :: select ls' j
  end.
Definition region_sel_all (ls : list (bool * list nat)) (es : list (idx * V)) : list (idx * V) :=
  flat_map (fun e : idx * V => map (fun j => (j, snd e)) (renumber_all ls (fst e))) es.
Definition sp_region_get (S : sparse V) (es : list kelem) : option (sparse V) :=
  match region_lists (sshape S) es with
  | Some ls => Some (of_entries (kept_shape ls) (region_sel_all ls (entries S)))
  | None => None
  end.

(* ------------------------------------------------------------------------------------------------ *)
(* histories                                                                                          *)
(* ------------------------------------------------------------------------------------------------ *)
Section Run.
Context {St : Type} (step : St -> op -> option (St * outv)).
Fixpoint run (s : St) (ops : list op) : option (St * list outv) :=
  match ops with
  | [] => Some (s, [])
  | o :: r => match step s o with
              | Some (s', out) => match run s' r with Some (s'', outs) => Some (s'', out :: outs) | None => None end
              | None => None end
  end.
(* every intermediate state, for the correspondence stream *)
Fixpoint trace (s : St) (ops : list op) : list (option (St * outv)) :=
  match ops with
  | [] => []
  | o :: r => match step s o with
              | Some (s', out) => Some (s', out) :: trace s' r
              | None => [None] end
  end.
End Run.

End M.

Arguments rhs V : clear implicits.
Arguments op V : clear implicits.
Arguments amap V : clear implicits.
