(* Proofs/C04SpSetImpl.v — C04, wave 5: the transliteration of sptensor._set_subscripts (Model/C04SpSetImpl.v, over the GENERATED
   tt_ismember_rows) produces exactly the raw state of the executable sparse model (groups A / B / C = sp_apply). *)
From Coq Require Import List Arith ZArith Lia Bool Permutation Sorted.
From PV Require Import Base.Index Np.Array Model.Sparse Np.NpZ Gen.GenUtils Proofs.NpZProofs Proofs.RowsProofs.
From PV Require Import Model.C04Model Proofs.C04Dense Proofs.C04Sparse Proofs.C04Region Model.C04SpSetImpl Proofs.C17Dup.
Import ListNotations.

(* ------------------------------------------------------------------------------------------------ *)
(* rows: nat <-> Z                                                                                   *)
(* ------------------------------------------------------------------------------------------------ *)
Lemma zrow_inj a b : zrow a = zrow b -> a = b.
Proof.
  revert b; induction a as [|x a IH]; intros [|y b] H; cbn in H; try discriminate; auto.
  inversion H. f_equal; [lia|auto].
Qed.

Lemma nrow_zrow a : nrow (zrow a) = a.
Proof. unfold nrow, zrow. rewrite map_map. rewrite <- (map_id a) at 2. apply map_ext. intros; apply Nat2Z.id. Qed.

Lemma nrows_zrows l : nrows (zrows l) = l.
Proof. unfold nrows, zrows. rewrite map_map. rewrite <- (map_id l) at 2. apply map_ext. intros; apply nrow_zrow. Qed.

Lemma nth_zrows j l : nth j (zrows l) [] = zrow (nth j l []).
Proof. unfold zrows. now rewrite <- (map_nth zrow). Qed.

(* find_last on converted rows *)
Definition tfn (ssubs : list idx) (r : idx) : option nat := find_last (zrow r) (zrows ssubs).
Definition tfz (ssubs : list idx) (r : idx) : Z := match tfn ssubs r with Some j => Z.of_nat j | None => (-1)%Z end.

Lemma tfn_some ssubs r j : tfn ssubs r = Some j -> (j < length ssubs)%nat /\ nth j ssubs [] = r.
Proof.
  unfold tfn. intros H. pose proof (find_last_spec (zrow r) (zrows ssubs)) as S. rewrite H in S.
  destruct S as (Hj & Hn & _). unfold zrows in Hj. rewrite map_length in Hj. split; [exact Hj|].
  rewrite nth_zrows in Hn. now apply zrow_inj.
Qed.

Lemma tfn_none ssubs r : tfn ssubs r = None -> ~ In r ssubs.
Proof.
  unfold tfn. intros H Hin. pose proof (find_last_spec (zrow r) (zrows ssubs)) as S. rewrite H in S.
  apply In_nth with (d := []) in Hin as (j & Hj & Hn).
  apply (S j); [unfold zrows; now rewrite map_length|]. rewrite nth_zrows. now rewrite Hn.
Qed.

Lemma tfn_at ssubs j : NoDup ssubs -> (j < length ssubs)%nat -> tfn ssubs (nth j ssubs []) = Some j.
Proof.
  intros Hn Hj. destruct (tfn ssubs (nth j ssubs [])) as [j'|] eqn:E.
  - apply tfn_some in E as (Hj' & E). f_equal. now apply (proj1 (NoDup_nth ssubs []) Hn).
  - apply tfn_none in E. exfalso. apply E. now apply nth_In.
Qed.

Lemma tfn_memb ssubs r : is_some (tfn ssubs r) = memb r ssubs.
Proof.
  destruct (tfn ssubs r) as [j|] eqn:E; cbn.
  - apply tfn_some in E as (Hj & <-). symmetry. apply memb_spec. now apply nth_In.
  - apply tfn_none in E. symmetry. now apply memb_false.
Qed.

Lemma tfz_nonneg ssubs r : (0 <=? tfz ssubs r)%Z = is_some (tfn ssubs r).
Proof. unfold tfz. destruct (tfn ssubs r); cbn; [|reflexivity]. apply Z.leb_le. lia. Qed.

Lemma tfz_at ssubs j : NoDup ssubs -> (j < length ssubs)%nat -> tfz ssubs (nth j ssubs []) = Z.of_nat j.
Proof. intros Hn Hj. unfold tfz. now rewrite tfn_at. Qed.

Lemma tfz_eq ssubs r j : tfz ssubs r = Z.of_nat j -> (j < length ssubs)%nat /\ nth j ssubs [] = r.
Proof.
  unfold tfz. destruct (tfn ssubs r) as [j'|] eqn:E; [|lia]. intros H. apply Nat2Z.inj in H. subst. now apply tfn_some.
Qed.

(* ------------------------------------------------------------------------------------------------ *)
(* the generated tt_ismember_rows on every pair of row lists that occurs                             *)
(* ------------------------------------------------------------------------------------------------ *)
Lemma size2_pos (m : mat) : m <> [] -> (forall r, In r m -> r <> []) -> np_size2 m <> 0%Z.
Proof.
  destruct m as [|r m]; [congruence|]. intros _ H. unfold np_size2. cbn [map fold_right].
  assert (Hr : (0 < zlen r)%Z). { specialize (H r (or_introl eq_refl)). destruct r; [congruence|]. unfold zlen. cbn. lia. }
  assert (Hs : (0 <= fold_right Z.add 0 (map zlen m))%Z).
  { clear. induction m as [|q m IH]; cbn; [lia|]. unfold zlen at 1. lia. }
  lia.
Qed.

Lemma full_map {A B} (l : list B) (x : A) : np_full (zlen l) x = map (fun _ => x) l.
Proof. unfold np_full, zlen. rewrite Nat2Z.id. induction l; cbn; [reflexivity|]. now f_equal. Qed.

Lemma ismember_any (search source : mat) :
  search <> [] -> (forall r, In r search -> r <> []) -> (forall r, In r source -> r <> []) ->
  tt_ismember_rows search source = Ok (H_ismember search source).
Proof.
  intros Hs Hr Hq. destruct source as [|q source].
  - unfold tt_ismember_rows, H_ismember. cbn [np_size2 map fold_right].
    destruct (Z.eqb_spec (np_size2 search) 0) as [E|_]; [exfalso; revert E; now apply size2_pos|].
    cbn [Z.eqb]. unfold np_nrows. rewrite !full_map, map_map. f_equal.
  - apply tt_ismember_rows_bridge; apply size2_pos; auto. discriminate.
Qed.

(* ------------------------------------------------------------------------------------------------ *)
(* numpy-layer facts, value type generic                                                             *)
(* ------------------------------------------------------------------------------------------------ *)
Lemma bmap2_map {X} (f : bool -> bool -> bool) (p q : X -> bool) (l : list X) :
  bmap2 f (map p l) (map q l) = map (fun x => f (p x) (q x)) l.
Proof. induction l; cbn; [reflexivity|]. now f_equal. Qed.

Lemma mask_map {X Y} (g : X -> Y) (p : X -> bool) (l : list X) : np_mask (map g l) (map p l) = map g (filter p l).
Proof. induction l as [|x l IH]; cbn; [reflexivity|]. destruct (p x); cbn; now rewrite IH. Qed.

Lemma any_map {X} (p : X -> bool) (l : list X) : np_any (map p l) = existsb p l.
Proof. unfold np_any. induction l; cbn; [reflexivity|]. now f_equal. Qed.

Lemma filter_none {X} (p : X -> bool) (l : list X) : existsb p l = false -> filter p l = [].
Proof. induction l as [|x l IH]; cbn; [reflexivity|]. destruct (p x); cbn; [discriminate|exact IH]. Qed.

Lemma take_nats {A} (d : A) (l : list A) (js : list nat) : np_take d l (map Z.of_nat js) = map (fun j => nth j l d) js.
Proof. unfold np_take. rewrite map_map. apply map_ext. intros. apply znth_nat. Qed.

Lemma arange_seq n : np_arange 0 (Z.of_nat n) = map Z.of_nat (seq 0 n).
Proof. unfold np_arange. rewrite Z.sub_0_r, Nat2Z.id. apply map_ext. intros; lia. Qed.

Lemma filter_map_comm {X Y} (g : X -> Y) (p : Y -> bool) (l : list X) : filter p (map g l) = map g (filter (fun x => p (g x)) l).
Proof. induction l as [|x l IH]; cbn; [reflexivity|]. destruct (p (g x)); cbn; now rewrite IH. Qed.

Lemma seq_nth_map {A} (d : A) (l : list A) : l = map (fun j => nth j l d) (seq 0 (length l)).
Proof.
  apply (nth_ext _ _ d d).
  - now rewrite map_length, seq_length.
  - intros k Hk.
    assert (Hk' : (k < length (map (fun j => nth j l d) (seq 0 (length l))))%nat) by (now rewrite map_length, seq_length).
    rewrite (nth_indep _ d ((fun j => nth j l d) 0%nat) Hk').
    rewrite (map_nth (fun j => nth j l d)). now rewrite seq_nth.
Qed.

Lemma map_filter_flat {X Y} (h : X -> Y) (p : X -> bool) (l : list X) :
  map h (filter p l) = flat_map (fun x => if p x then [h x] else []) l.
Proof. induction l as [|x l IH]; cbn; [reflexivity|]. destruct (p x); cbn; now rewrite IH. Qed.

Lemma flat_map_map {X Y Z} (g : X -> Y) (f : Y -> list Z) (l : list X) : flat_map f (map g l) = flat_map (fun x => f (g x)) l.
Proof. induction l; cbn; [reflexivity|]. now f_equal. Qed.

Lemma map_flat_map {X Y Z} (k : Y -> Z) (f : X -> list Y) (l : list X) : map k (flat_map f l) = flat_map (fun x => map k (f x)) l.
Proof. induction l; cbn; [reflexivity|]. rewrite map_app. now f_equal. Qed.

Lemma flat_map_ext_in {X Y} (f g : X -> list Y) (l : list X) : (forall x, In x l -> f x = g x) -> flat_map f l = flat_map g l.
Proof. induction l as [|x l IH]; intros H; cbn; [reflexivity|]. rewrite H by (cbn; auto). f_equal. apply IH. intros; apply H; cbn; auto. Qed.

Lemma filter_all {X} (f : X -> bool) l : (forall x, f x = true) -> filter f l = l.
Proof. intros H. induction l as [|x l IH]; cbn; [reflexivity|]. rewrite H. now f_equal. Qed.

Lemma combine_fst_snd_gen {X Y} (l : list (X * Y)) : combine (map fst l) (map snd l) = l.
Proof. induction l as [|[x y] l IH]; cbn; [reflexivity|]. now f_equal. Qed.

Lemma combine_map2 {X A B} (g : X -> A) (h : X -> B) (l : list X) : combine (map g l) (map h l) = map (fun x => (g x, h x)) l.
Proof. induction l; cbn; [reflexivity|]. now f_equal. Qed.

Section G.
Context {V : Type} (v0 : V) (isz : V -> bool).
Notation keys := (map (@fst idx V)).

Fixpoint last_assocV (k : Z) (ps : list (Z * V)) (d : V) : V :=
  match ps with
  | [] => d
  | (i, v) :: r => last_assocV k r (if (i =? k)%Z then v else d)
  end.

Lemma scatter_nthV (a : list V) idx vals k d :
  length idx = length vals -> (forall i, In i idx -> (0 <= i < zlen a)%Z) -> (k < length a)%nat ->
  nth k (np_scatter a idx vals) d = last_assocV (Z.of_nat k) (combine idx vals) (nth k a d).
Proof.
  revert a vals; induction idx as [|i idx IH]; intros a [|v vals] HL Hin Hk; cbn in HL; try discriminate; [reflexivity|].
  cbn [np_scatter combine last_assocV].
  assert (Hi : (0 <= i < zlen a)%Z) by (apply Hin; cbn; auto).
  rewrite IH.
  - f_equal. unfold zlen in Hi. rewrite upd_nth_Z by lia.
    destruct (Z.eqb_spec i (Z.of_nat k)) as [->|Hne].
    + now rewrite Nat2Z.id, Nat.eqb_refl.
    + destruct (Nat.eqb_spec k (Z.to_nat i)); [lia|reflexivity].
  - lia.
  - intros j Hj. unfold zlen. rewrite upd_len. apply Hin. cbn; auto.
  - now rewrite upd_len.
Qed.

Lemma scatter_len (a : list V) idx vals : length (np_scatter a idx vals) = length a.
Proof. revert a vals; induction idx as [|i idx IH]; intros a [|v vals]; cbn; auto. now rewrite IH, upd_len. Qed.

(* ---- the three groups, read back per stored position ---- *)
Variable ssubs : list idx.
Hypothesis ssubs_nodup : NoDup ssubs.

Definition pa (a : idx * V) : bool := (0 <=? tfz ssubs (fst a))%Z && negb (isz (snd a)).
Definition pb (a : idx * V) : bool := (0 <=? tfz ssubs (fst a))%Z && negb (negb (isz (snd a))).
Definition pc (a : idx * V) : bool := negb (0 <=? tfz ssubs (fst a))%Z && negb (isz (snd a)).

Lemma no_hit_assoc j (p : idx * V -> bool) (l : list (idx * V)) d :
  (forall a, In a l -> fst a <> nth j ssubs []) ->
  last_assocV (Z.of_nat j) (map (fun a => (tfz ssubs (fst a), snd a)) (filter p l)) d = d.
Proof.
  revert d; induction l as [|a l IH]; intros d H; cbn; [reflexivity|].
  destruct (p a); cbn [map last_assocV].
  - destruct (Z.eqb_spec (tfz ssubs (fst a)) (Z.of_nat j)) as [E|_].
    + apply tfz_eq in E as (_ & E). exfalso. apply (H a); cbn; auto.
    + apply IH. intros; apply H; cbn; auto.
  - apply IH. intros; apply H; cbn; auto.
Qed.

Lemma no_hit_zmem j (p : idx * V -> bool) (l : list (idx * V)) :
  (forall a, In a l -> fst a <> nth j ssubs []) ->
  zmem (Z.of_nat j) (map (fun a => tfz ssubs (fst a)) (filter p l)) = false.
Proof.
  induction l as [|a l IH]; intros H; cbn; [reflexivity|].
  destruct (p a); cbn.
  - destruct (Z.eqb_spec (Z.of_nat j) (tfz ssubs (fst a))) as [E|_].
    + symmetry in E. apply tfz_eq in E as (_ & E). exfalso. apply (H a); cbn; auto.
    + apply IH. intros; apply H; cbn; auto.
  - apply IH. intros; apply H; cbn; auto.
Qed.

Lemma keys_notin (l : list (idx * V)) r : ~ In r (keys l) -> forall a, In a l -> fst a <> r.
Proof. intros H a Ha E. apply H. rewrite <- E. now apply in_map. Qed.

Lemma groupA_nth j (asg : list (idx * V)) d : NoDup (keys asg) -> (j < length ssubs)%nat ->
  last_assocV (Z.of_nat j) (map (fun a => (tfz ssubs (fst a), snd a)) (filter pa asg)) d
  = match lookup (nth j ssubs []) asg with Some v => if isz v then d else v | None => d end.
Proof.
  intros Hn Hj. revert d; induction asg as [|[r v] asg IH]; intros d; [reflexivity|].
  cbn [map fst] in Hn. inversion Hn as [|? ? Hr Hn']; subst.
  cbn [lookup filter]. destruct (idx_eqb (nth j ssubs []) r) eqn:E.
  - apply idx_eqb_spec in E. subst r.
    unfold pa at 1. cbn [fst snd]. rewrite tfz_nonneg, tfn_at by auto. cbn [is_some andb].
    destruct (isz v); cbn [negb map last_assocV].
    + apply no_hit_assoc. now apply keys_notin.
    + cbn [fst snd]. rewrite tfz_at by auto. rewrite Z.eqb_refl. apply no_hit_assoc. now apply keys_notin.
  - destruct (pa (r, v)) eqn:P; [|now apply IH].
    cbn [map last_assocV fst snd].
    destruct (Z.eqb_spec (tfz ssubs r) (Z.of_nat j)) as [E2|_]; [|now apply IH].
    apply tfz_eq in E2 as (_ & E2). subst r. now rewrite idx_eqb_refl in E.
Qed.

Lemma groupB_zmem j (asg : list (idx * V)) : NoDup (keys asg) -> (j < length ssubs)%nat ->
  zmem (Z.of_nat j) (map (fun a => tfz ssubs (fst a)) (filter pb asg))
  = match lookup (nth j ssubs []) asg with Some v => isz v | None => false end.
Proof.
  intros Hn Hj. induction asg as [|[r v] asg IH]; [reflexivity|].
  cbn [map fst] in Hn. inversion Hn as [|? ? Hr Hn']; subst.
  cbn [lookup filter]. destruct (idx_eqb (nth j ssubs []) r) eqn:E.
  - apply idx_eqb_spec in E. subst r.
    unfold pb at 1. cbn [fst snd]. rewrite tfz_nonneg, tfn_at by auto. cbn [is_some andb]. rewrite negb_involutive.
    destruct (isz v); cbn [map].
    + unfold zmem. cbn [existsb fst]. rewrite tfz_at by auto. now rewrite Z.eqb_refl.
    + apply no_hit_zmem. now apply keys_notin.
  - destruct (pb (r, v)) eqn:P; [|now apply IH].
    cbn [map fst]. unfold zmem. cbn [existsb].
    destruct (Z.eqb_spec (Z.of_nat j) (tfz ssubs r)) as [E2|_]; [|now apply IH].
    symmetry in E2. apply tfz_eq in E2 as (_ & E2). subst r. now rewrite idx_eqb_refl in E.
Qed.

End G.

(* ------------------------------------------------------------------------------------------------ *)
(* T1: groups A / B / C over the generated tt_ismember_rows = sp_apply, raw                          *)
(* ------------------------------------------------------------------------------------------------ *)
Section T1.
Context {V : Type} (v0 : V) (isz : V -> bool).
Notation keys := (map (@fst idx V)).

Lemma groupA_if (c : bool) (a : list V) (I : vec) (W : list V) :
  (c = false -> I = []) -> (if c then np_scatter a I W else a) = np_scatter a I W.
Proof. destruct c; [reflexivity|]. intros H. now rewrite H. Qed.

Lemma keep_all {A} (d : A) (l : list A) n : n = length l ->
  np_take d l (np_setdiff1d (np_arange 0 (Z.of_nat n)) []) = l.
Proof.
  intros ->. rewrite setdiff_arange, arange_seq. cbn [zmem existsb negb].
  rewrite filter_map_comm, take_nats.
  rewrite (filter_all (fun _ => true)) by reflexivity. symmetry. apply seq_nth_map.
Qed.

Lemma groupB_if (c : bool) (subs : mat) (vals1 : list V) (removes : vec) :
  (c = false -> removes = []) -> length vals1 = length subs ->
  (if c then (np_take [] subs (np_setdiff1d (np_arange 0 (zlen subs)) removes),
              np_take v0 vals1 (np_setdiff1d (np_arange 0 (zlen subs)) removes)) else (subs, vals1))
  = (np_take [] subs (np_setdiff1d (np_arange 0 (zlen subs)) removes),
     np_take v0 vals1 (np_setdiff1d (np_arange 0 (zlen subs)) removes)).
Proof.
  destruct c; [reflexivity|]. intros H HL. rewrite H by reflexivity. unfold zlen.
  rewrite keep_all by reflexivity. rewrite keep_all by (now symmetry). reflexivity.
Qed.

Lemma groupC_if {A B} (c : bool) (a x : list A) (b y : list B) :
  (c = false -> x = [] /\ y = []) ->
  (if c then Ok (a ++ x, b ++ y) else Ok (a, b)) = Ok (a ++ x, b ++ y).
Proof. destruct c; [reflexivity|]. intros H. destruct H as [-> ->]; [reflexivity|]. now rewrite !app_nil_r. Qed.

Theorem set_groups_sp_apply (es asg : list (idx * V)) :
  NoDup (keys es) -> NoDup (keys asg) -> asg <> [] ->
  (forall r, In r (keys es) -> r <> []) -> (forall r, In r (keys asg) -> r <> []) ->
  set_groups v0 isz (zrows (keys es)) (map snd es) (zrows (keys asg)) (map snd asg)
  = Ok (zrows (keys (sp_apply isz es asg)), map snd (sp_apply isz es asg)).
Proof.
  intros Hne Hna Hnil Hre Hra.
  set (ssubs := keys es). set (n := length es).
  assert (Hlen : length ssubs = n) by (unfold ssubs; now rewrite map_length).
  unfold set_groups. rewrite ismember_any.
  2:{ destruct asg; [congruence|discriminate]. }
  2:{ intros r Hr. unfold zrows in Hr. apply in_map_iff in Hr as (r' & <- & Hr'). specialize (Hra r' Hr'). destruct r'; [congruence|discriminate]. }
  2:{ intros r Hr. unfold zrows in Hr. apply in_map_iff in Hr as (r' & <- & Hr'). specialize (Hre r' Hr'). destruct r'; [congruence|discriminate]. }
  cbn [bind].
  assert (Htf : snd (H_ismember (zrows (keys asg)) (zrows ssubs)) = map (fun a => tfz ssubs (fst a)) asg).
  { unfold H_ismember, zrows. cbn [snd]. rewrite !map_map. reflexivity. }
  destruct (H_ismember (zrows (keys asg)) (zrows ssubs)) as [m0 tf]. cbn [snd] in Htf. subst tf.
  cbv zeta.
  rewrite !map_map.
  change (map (fun x : idx * V => negb (negb (isz (snd x)))) asg) with (map (fun x : idx * V => negb (negb (isz (snd x)))) asg).
  rewrite !bmap2_map.
  change (fun x : idx * V => (0 <=? tfz ssubs (fst x))%Z && negb (isz (snd x))) with (pa isz ssubs).
  change (fun x : idx * V => (0 <=? tfz ssubs (fst x))%Z && negb (negb (isz (snd x)))) with (pb isz ssubs).
  change (fun x : idx * V => negb (0 <=? tfz ssubs (fst x))%Z && negb (isz (snd x))) with (pc isz ssubs).
  rewrite !any_map.
  replace (zrows (keys asg)) with (map (fun a : idx * V => zrow (fst a)) asg) by (unfold zrows; now rewrite map_map).
  rewrite !mask_map.
  rewrite groupA_if by (intros E; now rewrite (filter_none _ _ E)).
  set (vals1 := np_scatter (map snd es) (map (fun a : idx * V => tfz ssubs (fst a)) (filter (pa isz ssubs) asg))
                           (map snd (filter (pa isz ssubs) asg))).
  assert (HL1 : length vals1 = length (zrows ssubs)).
  { unfold vals1. rewrite scatter_len. unfold zrows, ssubs. now rewrite !map_length. }
  rewrite groupB_if by (auto; intros E; now rewrite (filter_none _ _ E)).
  rewrite groupC_if by (intros E; now rewrite (filter_none _ _ E)).
  (* per stored position *)
  assert (HA : forall j, (j < n)%nat -> nth j vals1 v0 =
             match lookup (nth j ssubs []) asg with Some v => if isz v then nth j (map snd es) v0 else v | None => nth j (map snd es) v0 end).
  { intros j Hj. unfold vals1. rewrite scatter_nthV.
    - rewrite combine_map2. apply groupA_nth; auto. now rewrite Hlen.
    - now rewrite !map_length.
    - intros i Hi. apply in_map_iff in Hi as (a & <- & Ha). apply filter_In in Ha as (_ & Pa). unfold pa in Pa.
      apply andb_true_iff in Pa as (Pa & _). unfold tfz in *. destruct (tfn ssubs (fst a)) as [j'|] eqn:E; [|discriminate].
      apply tfn_some in E as (Hj' & _). unfold zlen. rewrite map_length. fold n. lia.
    - now rewrite map_length. }
  unfold zlen, zrows. rewrite !map_length, Hlen.
  rewrite setdiff_arange, arange_seq, filter_map_comm, !take_nats.
  rewrite sp_apply_eq, !map_app, !map_map.
  set (KEEP := fun x : nat => negb (zmem (Z.of_nat x) (map (fun a : idx * V => tfz ssubs (fst a)) (filter (pb isz ssubs) asg)))).
  assert (Ees : flat_map (ap1 isz asg) es = flat_map (fun j => ap1 isz asg (nth j es ([], v0))) (seq 0 n)).
  { rewrite <- (flat_map_map (fun j => nth j es ([], v0)) (ap1 isz asg)). unfold n. now rewrite <- seq_nth_map. }
  assert (Ekey : forall j, (j < n)%nat -> fst (nth j es ([], v0)) = nth j ssubs []).
  { intros j Hj. unfold ssubs. rewrite (nth_indep (map fst es) [] (fst (@nil nat, v0))) by (rewrite map_length; exact Hj). now rewrite map_nth. }
  assert (E1 : map (fun j => nth j (map zrow ssubs) []) (filter KEEP (seq 0 n))
               = map (fun x : idx * V => zrow (fst x)) (flat_map (ap1 isz asg) es)).
  { rewrite Ees, map_flat_map, map_filter_flat.
    apply flat_map_ext_in. intros j Hj. apply in_seq in Hj. cbn [Nat.add] in Hj. destruct Hj as [_ Hj].
    unfold KEEP. rewrite groupB_zmem by (auto; lia).
    rewrite (nth_indep _ [] (zrow [])) by (rewrite map_length, Hlen; lia).
    rewrite (map_nth zrow).
    unfold ap1. rewrite (Ekey j Hj).
    destruct (lookup (nth j ssubs []) asg) as [v|]; [destruct (isz v)|]; cbn; rewrite ?(Ekey j Hj); reflexivity. }
  assert (E2 : filter (pc isz ssubs) asg
               = filter (fun a : idx * V => negb (isz (snd a)) && negb (memb (fst a) (keys es))) asg).
  { apply filter_ext. intros a. unfold pc. rewrite tfz_nonneg, tfn_memb. apply andb_comm. }
  assert (E3 : map (fun j => nth j vals1 v0) (filter KEEP (seq 0 n)) = map snd (flat_map (ap1 isz asg) es)).
  { rewrite Ees, map_flat_map, map_filter_flat.
    apply flat_map_ext_in. intros j Hj. apply in_seq in Hj. cbn [Nat.add] in Hj. destruct Hj as [_ Hj].
    unfold KEEP. rewrite groupB_zmem by (auto; lia). rewrite HA by lia.
    assert (Ev : nth j (map snd es) v0 = snd (nth j es ([], v0))).
    { change v0 with (snd (@nil nat, v0)) at 1. now rewrite map_nth. }
    unfold ap1. rewrite (Ekey j Hj).
    destruct (lookup (nth j ssubs []) asg) as [v|]; [destruct (isz v)|]; cbn; rewrite ?Ev; reflexivity. }
  rewrite E2. f_equal. f_equal; (f_equal; [exact E1 || exact E3]).

Qed.
End T1.

(* ------------------------------------------------------------------------------------------------ *)
(* T2: np.unique(newsubs[::-1], axis=0, return_index=True) ; newvals[::-1][idx]  =  sort_dedupe      *)
(* ------------------------------------------------------------------------------------------------ *)
Lemma row_ltb_z a b : C04Model.row_ltb a b = NpZ.row_ltb (zrow a) (zrow b).
Proof.
  revert b; induction a as [|x a IH]; intros [|y b]; cbn [C04Model.row_ltb NpZ.row_ltb zrow map]; try reflexivity.
  fold (zrow a). fold (zrow b).
  destruct (Nat.ltb_spec x y), (Z.ltb_spec (Z.of_nat x) (Z.of_nat y)); try lia; try reflexivity.
  destruct (Nat.ltb_spec y x), (Z.eqb_spec (Z.of_nat x) (Z.of_nat y)); try lia; try reflexivity. apply IH.
Qed.

Lemma idx_eqb_z a b : idx_eqb a b = row_eqb (zrow a) (zrow b).
Proof.
  revert b; induction a as [|x a IH]; intros [|y b]; cbn [idx_eqb row_eqb zrow map]; try reflexivity.
  fold (zrow a). fold (zrow b). rewrite IH. f_equal. destruct (Nat.eqb_spec x y), (Z.eqb_spec (Z.of_nat x) (Z.of_nat y)); try lia; reflexivity.
Qed.

Lemma nrow_ltb_irrefl r : C04Model.row_ltb r r = false.
Proof. rewrite row_ltb_z. apply C17Dup.row_ltb_irrefl. Qed.
Lemma nrow_ltb_trans a b c : C04Model.row_ltb a b = true -> C04Model.row_ltb b c = true -> C04Model.row_ltb a c = true.
Proof. rewrite !row_ltb_z. apply C17Dup.row_ltb_trans. Qed.
Lemma nrow_tricho a b : C04Model.row_ltb a b = false -> idx_eqb a b = false -> C04Model.row_ltb b a = true.
Proof. rewrite !row_ltb_z, idx_eqb_z. apply C17Dup.row_tricho. Qed.

Section T2.
Context {V : Type} (v0 : V).
Notation keys := (map (@fst idx V)).

Definition rltN (p q : idx * V) : Prop := C04Model.row_ltb (fst p) (fst q) = true.

(* insertion into a sorted association list; an equal key gets the value of the newcomer *)
Fixpoint ins_uvalN (p : idx * V) (l : list (idx * V)) : list (idx * V) :=
  match l with
  | [] => [p]
  | q :: r => if C04Model.row_ltb (fst p) (fst q) then p :: l
              else if idx_eqb (fst p) (fst q) then (fst q, snd p) :: r
              else q :: ins_uvalN p r
  end.

Lemma lookup_ins_uvalN r p l : lookup r (ins_uvalN p l) = if idx_eqb r (fst p) then Some (snd p) else lookup r l.
Proof.
  induction l as [|[k w] l IH]; cbn [ins_uvalN].
  - destruct p as [kp vp]. cbn. reflexivity.
  - cbn [fst]. destruct (C04Model.row_ltb (fst p) k).
    + destruct p as [kp vp]. cbn. reflexivity.
    + destruct (idx_eqb (fst p) k) eqn:E.
      * apply idx_eqb_spec in E. subst k. cbn [lookup fst snd]. destruct (idx_eqb r (fst p)); reflexivity.
      * cbn [lookup]. rewrite IH. destruct (idx_eqb r k) eqn:E2; [|reflexivity].
        apply idx_eqb_spec in E2. subst k. destruct (idx_eqb r (fst p)) eqn:E3; [|reflexivity].
        apply idx_eqb_spec in E3. subst r. now rewrite idx_eqb_refl in E.
Qed.

Lemma ins_uvalN_fst p l x : In x (ins_uvalN p l) -> fst x = fst p \/ exists q, In q l /\ fst x = fst q.
Proof.
  induction l as [|q l IH]; cbn [ins_uvalN].
  - intros [<-|[]]. now left.
  - destruct (C04Model.row_ltb (fst p) (fst q)).
    + intros [E|H]; [left; now subst x|]. right. exists x. split; [exact H|reflexivity].
    + destruct (idx_eqb (fst p) (fst q)).
      * intros [E|H]; right; [exists q; subst x; cbn; auto|exists x; cbn; auto].
      * intros [E|H]; [right; exists x; subst x; cbn; auto|].
        destruct (IH H) as [E|(q' & Hq' & E)]; [now left|right; exists q'; cbn; auto].
Qed.

Lemma ins_uvalN_sorted p l : StronglySorted rltN l -> StronglySorted rltN (ins_uvalN p l).
Proof.
  induction l as [|q l IH]; intros Hs; cbn [ins_uvalN]; [repeat constructor|].
  inversion Hs as [|? ? Hs' Hq]; subst. rewrite Forall_forall in Hq.
  destruct (C04Model.row_ltb (fst p) (fst q)) eqn:E1.
  - constructor; [exact Hs|]. constructor; [exact E1|]. rewrite Forall_forall. intros x Hx.
    unfold rltN in *. eapply nrow_ltb_trans; [exact E1|]. now apply Hq.
  - destruct (idx_eqb (fst p) (fst q)) eqn:E2.
    + constructor; [exact Hs'|]. rewrite Forall_forall. intros x Hx. unfold rltN. cbn [fst]. now apply Hq.
    + constructor; [now apply IH|]. rewrite Forall_forall. intros x Hx. unfold rltN.
      destruct (ins_uvalN_fst _ _ _ Hx) as [E|(q' & Hq' & E)]; rewrite E.
      * apply nrow_tricho; [exact E1|exact E2].
      * now apply Hq.
Qed.

Lemma fold_uvalN_sorted l : StronglySorted rltN (fold_right ins_uvalN [] l).
Proof. induction l; cbn; [constructor|]. now apply ins_uvalN_sorted. Qed.

Lemma lookup_fold_uvalN r l : lookup r (fold_right ins_uvalN [] l) = lookup r l.
Proof. induction l as [|[k w] l IH]; cbn [fold_right]; [reflexivity|]. rewrite lookup_ins_uvalN. cbn. now rewrite IH. Qed.

(* insertion sort of distinct keys *)
Lemma ins_row_sorted p (l : list (idx * V)) : StronglySorted rltN l -> ~ In (fst p) (keys l) -> StronglySorted rltN (ins_row p l).
Proof.
  induction l as [|q l IH]; intros Hs Hn; cbn [ins_row]; [repeat constructor|].
  inversion Hs as [|? ? Hs' Hq]; subst. rewrite Forall_forall in Hq.
  destruct (C04Model.row_ltb (fst p) (fst q)) eqn:E1.
  - constructor; [exact Hs|]. constructor; [exact E1|]. rewrite Forall_forall. intros x Hx.
    unfold rltN in *. eapply nrow_ltb_trans; [exact E1|]. now apply Hq.
  - assert (E2 : idx_eqb (fst p) (fst q) = false).
    { apply idx_eqb_neq. intros E. apply Hn. cbn. now left. }
    constructor; [apply IH; auto; intros H; apply Hn; cbn; now right|].
    rewrite Forall_forall. intros x Hx.
    apply (Permutation_in _ (Permutation_sym (ins_row_perm p l))) in Hx. destruct Hx as [<-|Hx].
    + apply nrow_tricho; [exact E1|exact E2].
    + now apply Hq.
Qed.

Lemma sort_sorted (l : list (idx * V)) : NoDup (keys l) -> StronglySorted rltN (fold_right ins_row [] l).
Proof.
  induction l as [|p l IH]; intros Hn; cbn [fold_right]; [constructor|].
  cbn [map] in Hn. inversion Hn as [|? ? Hp Hn']; subst.
  apply ins_row_sorted; [now apply IH|]. intros H. apply Hp.
  eapply Permutation_in; [apply Permutation_map, Permutation_sym, sort_perm|exact H].
Qed.

Lemma lookup_perm r (a b : list (idx * V)) : NoDup (keys a) -> Permutation a b -> lookup r a = lookup r b.
Proof.
  intros Hn Hp.
  assert (Hnb : NoDup (keys b)) by (eapply Permutation_NoDup; [apply Permutation_map; eauto|auto]).
  destruct (lookup r a) as [v|] eqn:Ea, (lookup r b) as [w|] eqn:Eb; auto.
  - apply lookup_some_in in Ea, Eb. eapply Permutation_in in Ea; eauto.
    f_equal. clear -Hnb Ea Eb. induction b as [|[k x] b IH]; [contradiction|].
    cbn [map fst] in Hnb. inversion Hnb as [|? ? Hk Hnb']; subst.
    destruct Ea as [Ea|Ea], Eb as [Eb|Eb].
    + congruence.
    + inversion Ea; subst. exfalso. apply Hk. apply in_map_iff. exists (r, w). auto.
    + inversion Eb; subst. exfalso. apply Hk. apply in_map_iff. exists (r, v). auto.
    + auto.
  - apply lookup_some_in in Ea. eapply Permutation_in in Ea; eauto.
    apply lookup_none in Eb. exfalso. apply Eb. apply in_map_iff. exists (r, v). auto.
  - apply lookup_some_in in Eb. apply Permutation_sym in Hp. eapply Permutation_in in Eb; eauto.
    apply lookup_none in Ea. exfalso. apply Ea. apply in_map_iff. exists (r, w). auto.
Qed.

Lemma lookup_dedupe_last r (asg : list (idx * V)) : lookup r (dedupe_last asg) = lookup r (rev asg).
Proof.
  induction asg as [|p asg IH]; [reflexivity|]. cbn [rev]. rewrite lookup_app, <- IH.
  cbn [dedupe_last fold_right]. fold (dedupe_last asg).
  destruct (memb (fst p) (keys (dedupe_last asg))) eqn:M.
  - destruct (lookup r (dedupe_last asg)) eqn:E; [reflexivity|]. destruct p as [k w]. cbn [lookup fst] in *.
    destruct (idx_eqb r k) eqn:E2; [|reflexivity]. apply idx_eqb_spec in E2. subst k.
    apply lookup_none in E. apply memb_spec in M. contradiction.
  - destruct p as [k w]. cbn [lookup fst] in *. destruct (idx_eqb r k) eqn:E2.
    + apply idx_eqb_spec in E2. subst k. apply memb_false in M. apply lookup_none in M. now rewrite M.
    + destruct (lookup r (dedupe_last asg)); reflexivity.
Qed.

(* two strictly sorted association lists with the same lookup function are equal *)
Lemma sorted_head_none (p : idx * V) l r : StronglySorted rltN (p :: l) -> C04Model.row_ltb r (fst p) = true \/ r = fst p -> lookup r l = None.
Proof.
  intros Hs Hr. inversion Hs as [|? ? _ Hq]; subst. rewrite Forall_forall in Hq.
  apply lookup_none. intros Hin. apply in_map_iff in Hin as (q & <- & Hq').
  specialize (Hq q Hq'). unfold rltN in Hq. destruct Hr as [Hr|Hr].
  - pose proof (nrow_ltb_trans _ _ _ Hr Hq) as C. now rewrite nrow_ltb_irrefl in C.
  - rewrite Hr in Hq. now rewrite nrow_ltb_irrefl in Hq.
Qed.

Lemma sorted_lookup_ext (l1 l2 : list (idx * V)) : StronglySorted rltN l1 -> StronglySorted rltN l2 ->
  (forall r, lookup r l1 = lookup r l2) -> l1 = l2.
Proof.
  revert l2; induction l1 as [|[k1 w1] l1 IH]; intros [|[k2 w2] l2] H1 H2 HL; [reflexivity| | |].
  - specialize (HL k2). cbn in HL. now rewrite idx_eqb_refl in HL.
  - specialize (HL k1). cbn in HL. now rewrite idx_eqb_refl in HL.
  - assert (Ek : k1 = k2).
    { destruct (idx_eqb k1 k2) eqn:E; [now apply idx_eqb_spec|]. exfalso.
      destruct (C04Model.row_ltb k1 k2) eqn:L.
      - pose proof (HL k1) as H. cbn [lookup] in H. rewrite idx_eqb_refl, E in H.
        rewrite (sorted_head_none (k2, w2) l2 k1 H2) in H by (left; exact L). discriminate.
      - pose proof (nrow_tricho _ _ L E) as L'. pose proof (HL k2) as H. cbn [lookup] in H. rewrite idx_eqb_refl in H.
        assert (E' : idx_eqb k2 k1 = false) by (apply idx_eqb_neq; intros ->; now rewrite idx_eqb_refl in E).
        rewrite E' in H. rewrite (sorted_head_none (k1, w1) l1 k2 H1) in H by (left; exact L'). discriminate. }
    subst k2. pose proof (HL k1) as Hw. cbn [lookup] in Hw. rewrite idx_eqb_refl in Hw. inversion Hw; subst w2.
    f_equal. apply IH.
    + now inversion H1.
    + now inversion H2.
    + intros r. destruct (idx_eqb r k1) eqn:E.
      * apply idx_eqb_spec in E. subst r.
        rewrite (sorted_head_none (k1, w1) l1 k1 H1), (sorted_head_none (k1, w1) l2 k1 H2) by (right; reflexivity). reflexivity.
      * specialize (HL r). cbn [lookup] in HL. now rewrite E in HL.
Qed.

Theorem unique_last_sort_dedupe (asg : list (idx * V)) : fold_right ins_uvalN [] (rev asg) = sort_dedupe asg.
Proof.
  apply sorted_lookup_ext.
  - apply fold_uvalN_sorted.
  - unfold sort_dedupe. apply sort_sorted. apply dedupe_last_nodup.
  - intros r. rewrite lookup_fold_uvalN. unfold sort_dedupe.
    rewrite <- (lookup_perm r _ _ (dedupe_last_nodup asg) (sort_perm (dedupe_last asg))).
    symmetry. apply lookup_dedupe_last.
Qed.
End T2.

Lemma seqz_sorted' o n : StronglySorted Z.lt (map Z.of_nat (seq o n)).
Proof.
  revert o; induction n as [|n IH]; intros o; cbn; constructor; [apply IH|].
  rewrite Forall_forall. intros x Hx. apply in_map_iff in Hx as (j & <- & Hj). apply in_seq in Hj. lia.
Qed.

(* ---- from the index vector of np.unique to the values it selects ---- *)
Section T2Z.
Context {V : Type} (v0 : V).
Notation keys := (map (@fst idx V)).

Definition zpair (p : idx * V) : vec * V := (zrow (fst p), snd p).

Fixpoint ins_uvalZ (p : vec * V) (l : list (vec * V)) : list (vec * V) :=
  match l with
  | [] => [p]
  | q :: r => if NpZ.row_ltb (fst p) (fst q) then p :: l
              else if row_eqb (fst p) (fst q) then (fst q, snd p) :: r
              else q :: ins_uvalZ p r
  end.

Lemma ins_uvalZ_N p l : ins_uvalZ (zpair p) (map zpair l) = map zpair (ins_uvalN p l).
Proof.
  induction l as [|q l IH]; cbn [map ins_uvalZ ins_uvalN]; [reflexivity|].
  unfold zpair in *. cbn [fst snd]. rewrite <- row_ltb_z, <- idx_eqb_z.
  destruct (C04Model.row_ltb (fst p) (fst q)); [reflexivity|].
  destruct (idx_eqb (fst p) (fst q)); [reflexivity|]. cbn [map]. f_equal. exact IH.
Qed.

Lemma fold_uvalZ_N l : fold_right ins_uvalZ [] (map zpair l) = map zpair (fold_right ins_uvalN [] l).
Proof. induction l as [|p l IH]; cbn [map fold_right]; [reflexivity|]. rewrite IH. apply ins_uvalZ_N. Qed.

Lemma ins_urow_snd p l x : In x (ins_urow p l) -> snd x = snd p \/ exists q, In q l /\ snd x = snd q.
Proof.
  induction l as [|q l IH]; cbn [ins_urow].
  - intros [<-|[]]. now left.
  - destruct (NpZ.row_ltb (fst p) (fst q)).
    + intros [E|H]; [left; now subst x|]. right. exists x. split; [exact H|reflexivity].
    + destruct (row_eqb (fst p) (fst q)).
      * intros [E|H]; [|right; exists x; cbn; auto]. subst x. cbn [snd].
        destruct (Z.min_spec (snd p) (snd q)) as [[_ ->]|[_ ->]]; [now left|right; exists q; cbn; auto].
      * intros [E|H]; [right; exists x; subst x; cbn; auto|].
        destruct (IH H) as [E|(q' & Hq' & E)]; [now left|right; exists q'; cbn; auto].
Qed.

Lemma fold_urow_snd ps x : In x (fold_right ins_urow [] ps) -> In (snd x) (map snd ps).
Proof.
  revert x; induction ps as [|p ps IH]; intros x; cbn [fold_right map]; [intros []|].
  intros H. apply ins_urow_snd in H as [E|(q & Hq & E)]; [left; now symmetry|right; rewrite E; now apply IH].
Qed.

Lemma ins_urow_val (val : Z -> V) p l : (forall q, In q l -> (snd p < snd q)%Z) ->
  map (fun p => (fst p, val (snd p))) (ins_urow p l) = ins_uvalZ (fst p, val (snd p)) (map (fun p => (fst p, val (snd p))) l).
Proof.
  induction l as [|q l IH]; intros H; cbn [ins_urow map ins_uvalZ fst snd]; [reflexivity|].
  destruct (NpZ.row_ltb (fst p) (fst q)); [reflexivity|].
  destruct (row_eqb (fst p) (fst q)).
  - cbn [map fst snd]. rewrite Z.min_l by (specialize (H q (or_introl eq_refl)); lia). reflexivity.
  - cbn [map]. f_equal. apply IH. intros; apply H; cbn; auto.
Qed.

Lemma fold_urow_val (val : Z -> V) ps : StronglySorted Z.lt (map snd ps) ->
  map (fun p => (fst p, val (snd p))) (fold_right ins_urow [] ps)
  = fold_right ins_uvalZ [] (map (fun p => (fst p, val (snd p))) ps).
Proof.
  induction ps as [|p ps IH]; intros Hs; cbn [fold_right map]; [reflexivity|].
  cbn [map] in Hs. inversion Hs as [|? ? Hs' Hp]; subst. rewrite Forall_forall in Hp.
  rewrite ins_urow_val.
  - now rewrite IH.
  - intros q Hq. apply Hp. now apply fold_urow_snd.
Qed.

Theorem unique_step (asg : list (idx * V)) :
  let u := np_unique_rows (rev (zrows (keys asg))) in
  (fst u, np_take v0 (rev (map snd asg)) (snd u))
  = (zrows (keys (sort_dedupe asg)), map snd (sort_dedupe asg)).
Proof.
  cbv zeta. unfold np_unique_rows. cbn [fst snd].
  set (A := rev asg). set (W := map snd A).
  assert (Em : rev (zrows (keys asg)) = map (fun a : idx * V => zrow (fst a)) A).
  { unfold zrows, A. rewrite <- !map_rev, map_map. reflexivity. }
  assert (EW : rev (map snd asg) = W) by (unfold W, A; now rewrite map_rev).
  rewrite Em, EW. rewrite map_length.
  set (ps := combine (map (fun a : idx * V => zrow (fst a)) A) (map Z.of_nat (seq 0 (length A)))).
  set (F := fun p : vec * Z => (fst p, znth v0 W (snd p))).
  assert (HF : map F (fold_right ins_urow [] ps) = map zpair (sort_dedupe asg)).
  { unfold F. rewrite fold_urow_val.
    - assert (E : map (fun p : vec * Z => (fst p, znth v0 W (snd p))) ps = map zpair A).
      { unfold ps. clear. assert (G : forall (l : list (idx * V)) (ts : list nat),
            map (fun p : vec * Z => (fst p, znth v0 W (snd p))) (combine (map (fun a : idx * V => zrow (fst a)) l) (map Z.of_nat ts))
            = combine (map (fun a : idx * V => zrow (fst a)) l) (map (fun j => nth j W v0) ts)).
        { induction l as [|a l IH]; intros [|t ts]; cbn; try reflexivity. rewrite znth_nat. f_equal. apply IH. }
        rewrite G. replace (length A) with (length W) by (unfold W; now rewrite map_length).
        rewrite <- seq_nth_map. unfold W. now rewrite combine_map2. }
      rewrite E, fold_uvalZ_N. unfold A. now rewrite unique_last_sort_dedupe.
    - unfold ps. rewrite map_snd_combine by (now rewrite !map_length, seq_length). apply seqz_sorted'. }
  f_equal.
  - transitivity (map fst (map F (fold_right ins_urow [] ps))); [now rewrite map_map|].
    rewrite HF. unfold zrows. now rewrite !map_map.
  - unfold np_take. transitivity (map snd (map F (fold_right ins_urow [] ps))); [now rewrite !map_map|].
    rewrite HF. now rewrite map_map.
Qed.
End T2Z.

(* ------------------------------------------------------------------------------------------------ *)
(* T3: the resize loop = grow / col_need                                                              *)
(* ------------------------------------------------------------------------------------------------ *)
Lemma grow_nth s need n : nth n (grow s need) 0%nat = Nat.max (nth n s 0%nat) (nth n need 0%nat).
Proof.
  revert need n; induction s as [|d s IH]; intros [|x need] [|n]; cbn [grow nth]; rewrite ?Nat.max_0_r; try reflexivity; try lia.
  apply IH.
Qed.

Lemma grow_len s need : length (grow s need) = Nat.max (length s) (length need).
Proof. revert need; induction s as [|d s IH]; intros [|x need]; cbn [grow length]; try reflexivity. now rewrite IH. Qed.

Lemma col_need_len rows m : length (col_need rows m) = m.
Proof. revert rows; induction m as [|m IH]; intros rows; cbn; [reflexivity|]. now rewrite IH. Qed.

Lemma col_need_nth m : forall rows n, (n < m)%nat ->
  nth n (col_need rows m) 0%nat = fold_right Nat.max 0%nat (map (fun r => S (nth n r 0%nat)) rows).
Proof.
  induction m as [|m IH]; intros rows n Hn; [lia|]. cbn [col_need]. destruct n as [|n]; cbn [nth].
  - f_equal. apply map_ext. intros [|x r]; reflexivity.
  - rewrite IH by lia. rewrite map_map. f_equal. apply map_ext. intros [|x r]; cbn; [now destruct n|reflexivity].
Qed.

Lemma nmax_spec (l : list nat) : l <> [] -> In (fold_right Nat.max 0%nat l) l /\ forall y, In y l -> (y <= fold_right Nat.max 0%nat l)%nat.
Proof.
  induction l as [|x l IH]; [congruence|]. intros _. destruct l as [|x' l].
  - cbn. split; [left; lia|]. intros y [<-|[]]. lia.
  - destruct IH as [Hin Hle]; [discriminate|]. cbn [fold_right] in *. split.
    + destruct (Nat.max_spec x (Nat.max x' (fold_right Nat.max 0%nat l))) as [[_ ->]|[_ ->]]; [right; exact Hin|now left].
    + intros y [<-|Hy]; [lia|]. specialize (Hle y Hy). lia.
Qed.

Lemma zmax_spec (x : Z) (r : vec) : In (fold_left Z.max r x) (x :: r) /\ forall y, In y (x :: r) -> (y <= fold_left Z.max r x)%Z.
Proof.
  revert x; induction r as [|z r IH]; intros x; cbn [fold_left].
  - split; [now left|]. intros y [<-|[]]. lia.
  - destruct (IH (Z.max x z)) as [Hin Hle]. split.
    + destruct Hin as [E|Hin]; [|right; right; exact Hin]. rewrite <- E.
      destruct (Z.max_spec x z) as [[_ ->]|[_ ->]]; [right; now left|now left].
    + intros y [<-|[<-|Hy]]; [specialize (Hle (Z.max x z) (or_introl eq_refl)); lia
                              |specialize (Hle (Z.max x z) (or_introl eq_refl)); lia|apply Hle; now right].
Qed.

Lemma nth_repeat_lt {A} (x d : A) n k : (k < n)%nat -> nth k (repeat x n) d = x.
Proof. revert k; induction n as [|n IH]; intros [|k] H; cbn; try lia; auto. apply IH. lia. Qed.

Lemma res_all_ok {A B} (g : A -> B) (l : list A) : res_all (map (fun x => Ok (g x)) l) = Ok (map g l).
Proof. induction l as [|x l IH]; cbn; [reflexivity|]. now rewrite IH. Qed.

Lemma colmax_eq (Q ps : list idx) n : Q <> [] -> (forall x, In x Q <-> In x ps) ->
  exists q0 qr, map (fun r => (nth n r 0 + 1)%Z) (zrows Q) = q0 :: qr /\
     fold_left Z.max qr q0 = Z.of_nat (fold_right Nat.max 0%nat (map (fun r => S (nth n r 0%nat)) ps)).
Proof.
  intros HQ Heq. destruct Q as [|q Q]; [congruence|]. cbn [zrows map]. eexists; eexists; split; [reflexivity|].
  set (L := map (fun r : vec => (nth n r 0 + 1)%Z) (map zrow Q)).
  set (x0 := (nth n (zrow q) 0 + 1)%Z).
  assert (Hps : map (fun r => S (nth n r 0%nat)) ps <> []).
  { assert (In q ps) as Hq by (apply Heq; now left). destruct ps; [contradiction|discriminate]. }
  destruct (zmax_spec x0 L) as [Zin Zle]. destruct (nmax_spec _ Hps) as [Nin Nle].
  change (fold_left Z.max L x0 = Z.of_nat (fold_right Nat.max 0%nat (map (fun r => S (nth n r 0%nat)) ps))).
  remember (fold_left Z.max L x0) as M eqn:EM0. remember (fold_right Nat.max 0%nat (map (fun r => S (nth n r 0%nat)) ps)) as N eqn:EN0.
  assert (Hel : forall y, In y (x0 :: L) <-> exists r, In r (q :: Q) /\ y = Z.of_nat (S (nth n r 0%nat))).
  { intros y. change (x0 :: L) with (map (fun r : vec => (nth n r 0 + 1)%Z) (map zrow (q :: Q))). rewrite map_map, in_map_iff.
    split; intros (r & H1 & H2); exists r.
    - split; [exact H2|]. rewrite <- H1. unfold zrow. change 0%Z with (Z.of_nat 0). rewrite map_nth. lia.
    - split; [|exact H1]. rewrite H2. unfold zrow. change 0%Z with (Z.of_nat 0). rewrite map_nth. lia. }
  apply Z.le_antisymm.
  - apply Hel in Zin as (r & Hr & ->). apply Heq in Hr. apply inj_le. apply Nle. apply in_map_iff. exists r. auto.
  - apply in_map_iff in Nin as (r & E & Hr). apply Heq in Hr. rewrite <- E. apply Zle. apply Hel. exists r. auto.
Qed.

Lemma set_resize_grow (s : shape) (Q ps : list idx) m : (length s <= m)%nat -> Q <> [] -> (forall x, In x Q <-> In x ps) ->
  set_resize (zrow s ++ repeat 1%Z (m - length s)) (zrows Q) = Ok (zrow (grow s (col_need ps m))).
Proof.
  intros Hm HQ Heq. unfold set_resize.
  set (shape1 := zrow s ++ repeat 1%Z (m - length s)).
  assert (Hl1 : length shape1 = m).
  { unfold shape1, zrow. rewrite app_length, map_length, repeat_length. lia. }
  set (g := fun nd : nat * Z => Z.max (snd nd) (Z.of_nat (fold_right Nat.max 0%nat (map (fun r => S (nth (fst nd) r 0%nat)) ps)))).
  rewrite (map_ext _ (fun nd => Ok (g nd))).
  2:{ intros [n dim]. cbn [fst snd]. destruct (colmax_eq Q ps n HQ Heq) as (q0 & qr & -> & E). cbn [zmax_list bind]. unfold g. cbn [fst snd]. now rewrite E. }
  rewrite res_all_ok. f_equal. rewrite Hl1.
  apply (nth_ext _ _ 0%Z 0%Z).
  - unfold zrow. rewrite !map_length, combine_length, seq_length, Hl1, grow_len, col_need_len. lia.
  - intros k Hk. rewrite map_length, combine_length, seq_length, Hl1 in Hk. assert (Hkm : (k < m)%nat) by lia.
    rewrite (nth_indep _ 0%Z (g (0%nat, 0%Z))) by (rewrite map_length, combine_length, seq_length, Hl1; lia).
    rewrite map_nth, combine_nth by (now rewrite seq_length). rewrite seq_nth by lia. cbn [Nat.add].
    unfold g. cbn [fst snd].
    replace (nth k (zrow (grow s (col_need ps m))) 0%Z) with (Z.of_nat (nth k (grow s (col_need ps m)) 0%nat))
      by (unfold zrow; now rewrite <- (map_nth Z.of_nat)).
    rewrite grow_nth, col_need_nth by lia.
    set (N := fold_right Nat.max 0%nat (map (fun r => S (nth k r 0%nat)) ps)).
    assert (HN : (1 <= N)%nat).
    { destruct Q as [|q Q]; [congruence|]. assert (In q ps) as Hq by (apply Heq; now left).
      destruct (nmax_spec (map (fun r => S (nth k r 0%nat)) ps)) as [_ Hle]; [destruct ps; [contradiction|discriminate]|].
      specialize (Hle (S (nth k q 0%nat))). fold N in Hle. assert (S (nth k q 0%nat) <= N)%nat by (apply Hle; apply in_map_iff; eauto). lia. }
    unfold shape1. destruct (Nat.lt_ge_cases k (length s)) as [Hks|Hks].
    + rewrite app_nth1 by (unfold zrow; now rewrite map_length). unfold zrow. change 0%Z with (Z.of_nat 0). rewrite map_nth. lia.
    + rewrite app_nth2 by (unfold zrow; rewrite map_length; lia). rewrite (nth_overflow s) by lia.
      rewrite nth_repeat_lt by (unfold zrow; rewrite map_length; lia). cbn [nth]. lia.
Qed.

(* ------------------------------------------------------------------------------------------------ *)
(* the whole method = the sparse model's step, raw                                                    *)
(* ------------------------------------------------------------------------------------------------ *)
Section Full.
Context {V : Type} (v0 : V) (isz : V -> bool).
Notation keys := (map (@fst idx V)).

Lemma nonneg_row_z r i : nonneg_row r = Some i -> r = zrow i /\ forallb (fun x => (0 <=? x)%Z) r = true.
Proof.
  unfold nonneg_row. destruct (forallb (fun z => (0 <=? z)%Z) r) eqn:E; [|discriminate]. intros H. inversion H; subst. split; [|reflexivity].
  unfold zrow. rewrite map_map. rewrite <- (map_id r) at 1. apply map_ext_in. intros x Hx.
  rewrite forallb_forall in E. specialize (E x Hx). apply Z.leb_le in E. lia.
Qed.

Lemma opt_all_rows rows ps : opt_all (map nonneg_row rows) = Some ps ->
  rows = zrows ps /\ forallb (fun r => forallb (fun x => (0 <=? x)%Z) r) rows = true.
Proof.
  revert ps; induction rows as [|r rows IH]; intros ps H; cbn in H.
  - inversion H. split; reflexivity.
  - destruct (nonneg_row r) as [i|] eqn:E; [|discriminate]. destruct (opt_all (map nonneg_row rows)) as [ps'|]; [|discriminate].
    inversion H; subst. destruct (IH ps' eq_refl) as [-> Hf]. apply nonneg_row_z in E as [-> E]. cbn. rewrite E, Hf. split; reflexivity.
Qed.

Lemma set_newvals_model (r : rhs V) n vs : rhs_values r n = Some vs -> set_newvals r n = Ok vs.
Proof.
  unfold rhs_values, set_newvals. destruct r as [v|l].
  - intros H. inversion H. reflexivity.
  - destruct (Nat.eqb_spec (length l) n) as [E|]; [|discriminate]. intros H. inversion H; subst vs. subst n.
    destruct l as [|v [|w l]]; reflexivity.
Qed.

Lemma sort_dedupe_nonempty (asg : list (idx * V)) : asg <> [] -> sort_dedupe asg <> [].
Proof.
  intros H E. destruct asg as [|[k w] asg]; [congruence|].
  assert (L : lookup k (sort_dedupe ((k, w) :: asg)) = lookup k (rev ((k, w) :: asg))).
  { unfold sort_dedupe. rewrite <- (lookup_perm k _ _ (dedupe_last_nodup _) (sort_perm _)). apply lookup_dedupe_last. }
  rewrite E in L. cbn [rev lookup] in L. rewrite lookup_app in L. cbn [lookup] in L. rewrite idx_eqb_refl in L.
  destruct (lookup k (rev asg)); discriminate.
Qed.

Lemma sort_dedupe_keys (asg : list (idx * V)) x : In x (keys (sort_dedupe asg)) <-> In x (keys asg).
Proof.
  assert (H : forall l : list (idx * V), In x (keys l) <-> lookup x l <> None).
  { intros l. split.
    - intros Hin E. apply lookup_none in E. auto.
    - intros Hne. destruct (memb x (keys l)) eqn:M; [now apply memb_spec in M|].
      apply memb_false in M. apply lookup_none in M. contradiction. }
  rewrite (H (sort_dedupe asg)). unfold sort_dedupe.
  rewrite <- (lookup_perm x _ _ (dedupe_last_nodup _) (sort_perm _)), lookup_dedupe_last.
  rewrite <- H. rewrite map_rev, <- in_rev. tauto.
Qed.

Theorem impl_set_subscripts_model (S S' : sparse V) rows (r : rhs V) out :
  wf_sp isz S ->
  step_sparse v0 isz S (OSet (KSubs rows) r) = Some (S', out) ->
  impl_set_subscripts v0 isz (of_sparse S) rows r = Ok (of_sparse S').
Proof.
  intros (HL & Hnd & Hin & Hnz) Hstep. cbn [step_sparse] in Hstep.
  destruct (resolve_set cartF (sshape S) (KSubs rows) r) as [[s' asg]|] eqn:R; [|discriminate].
  destruct (sp_set isz S s' (sort_dedupe asg) false) as [S1|] eqn:P; [|discriminate]. inversion Hstep; subst S1 out. clear Hstep.
  cbn [resolve_set] in R. destruct (subs_ok (sshape S) rows) eqn:OK; [|discriminate].
  destruct (opt_all (map nonneg_row rows)) as [ps|] eqn:OA; [|discriminate].
  unfold finish_set in R. destruct (rhs_values r (length ps)) as [vs|] eqn:RV; [|discriminate].
  destruct (forallb (inb (grow (sshape S) (col_need ps (length (hd [] rows))))) ps) eqn:INB; [|discriminate].
  inversion R; subst s' asg. clear R.
  destruct (opt_all_rows _ _ OA) as [-> Hnn].
  set (s := sshape S) in *. set (m := length (hd [] (zrows ps))) in *.
  (* what subs_ok says *)
  assert (Hps : ps <> []) by (intros ->; discriminate).
  assert (Hm : (1 <= m)%nat /\ (length s <= m)%nat /\ forall p, In p ps -> length p = m).
  { unfold subs_ok in OK. fold s in OK. destruct (zrows ps) as [|r0 rest] eqn:EZ; [discriminate|]. fold m in OK.
    apply andb_true_iff in OK as [OK Hf]. apply andb_true_iff in OK as [H1 H2].
    apply Nat.leb_le in H1, H2. repeat split; auto. intros p Hp. rewrite forallb_forall in Hf.
    assert (Hz : In (zrow p) (r0 :: rest)) by (rewrite <- EZ; now apply in_map).
    specialize (Hf _ Hz). apply Nat.eqb_eq in Hf. unfold zrow in Hf. now rewrite map_length in Hf. }
  destruct Hm as (Hm1 & Hsm & Hrows).
  assert (Hvs : length vs = length ps).
  { unfold rhs_values in RV. destruct r as [v|l]; [inversion RV; now rewrite repeat_length|].
    destruct (Nat.eqb_spec (length l) (length ps)) as [E|]; [|discriminate]. inversion RV; subst vs. exact E. }
  set (asg := combine ps vs) in *.
  assert (Kasg : keys asg = ps) by (unfold asg; now rewrite map_fst_combine).
  assert (Vasg : map snd asg = vs) by (unfold asg; now rewrite map_snd_combine).
  set (s' := grow s (col_need ps m)) in *.
  assert (Ls' : length s' = m) by (unfold s'; rewrite grow_len, col_need_len; lia).
  (* what sp_set says *)
  unfold sp_set in P. destruct (nodupb (keys (sort_dedupe asg))); [|discriminate].
  set (es := map (fun e : idx * V => (sp_pad (length s') (fst e), snd e)) (entries S)) in *.
  destruct (forallb (inb s') (keys es)) eqn:INE; [|discriminate]. inversion P; subst S'. clear P.
  set (SD := sort_dedupe asg) in *.
  assert (Hlen_i : forall i, In i (ssubs S) -> length i = length s).
  { intros i Hi. rewrite Forall_forall in Hin. now apply inb_length, Hin. }
  assert (Kes : keys es = map (fun i => i ++ repeat 0%nat (m - length s)) (ssubs S)).
  { unfold es. rewrite map_map. cbn [fst]. rewrite <- (map_fst_entries _ HL). rewrite map_map.
    apply map_ext_in. intros e He. unfold sp_pad. rewrite Ls'. f_equal. f_equal. f_equal.
    apply Hlen_i. rewrite <- (map_fst_entries _ HL). now apply in_map. }
  assert (Ves : map snd es = svals S).
  { unfold es. rewrite map_map. cbn [snd]. unfold entries. now rewrite map_snd_combine. }
  assert (Nes : NoDup (keys es)).
  { rewrite Kes. apply NoDup_map_inj; auto. intros a b Ha Hb E. apply app_inv_tail in E. exact E. }
  assert (Res : forall x, In x (keys es) -> x <> []).
  { intros x Hx. rewrite forallb_forall in INE. apply INE, inb_length in Hx. intros ->. cbn in Hx. lia. }
  assert (RSD : forall x, In x (keys SD) -> x <> []).
  { intros x Hx. apply (proj1 (sort_dedupe_keys asg x)) in Hx. rewrite Kasg in Hx. apply Hrows in Hx. intros ->. cbn in Hx. lia. }
  assert (Hasg : asg <> []).
  { unfold asg. destruct ps; [congruence|]. destruct vs; [discriminate|discriminate]. }
  (* the transliteration, line by line *)
  change (of_sparse S) with (mkZsp (zrow s) (zrows (ssubs S)) (svals S)).
  unfold impl_set_subscripts. cbn [zshape zsubs zvals]. fold m.
  assert (SC : subscheck (zrows ps) = true).
  { unfold subscheck. fold m. apply forallb_forall. intros x Hx. rewrite forallb_forall in Hnn. rewrite (Hnn x Hx). cbn [andb].
    unfold zrows in Hx. apply in_map_iff in Hx as (p & <- & Hp). unfold zrow. rewrite map_length. apply Nat.eqb_eq. now apply Hrows. }
  rewrite SC. cbn [negb].
  assert (Lz : length (zrow s) = length s) by (unfold zrow; now rewrite map_length).
  rewrite Lz. destruct (Nat.ltb_spec m (length s)) as [Hc|_]; [lia|].
  assert (Lk : length (zrows ps) = length ps) by (unfold zrows; now rewrite map_length).
  rewrite Lk, (set_newvals_model _ _ _ RV). cbn [bind].
  pose proof (unique_step v0 asg) as HU. cbv zeta in HU. rewrite Kasg, Vasg in HU. fold SD in HU.
  pose proof (f_equal fst HU) as HU1. pose proof (f_equal snd HU) as HU2. cbn [fst snd] in HU1, HU2. clear HU.
  assert (E5 : (if Nat.ltb (length s) m then zrow s ++ repeat 1%Z (m - length s) else zrow s) = zrow s ++ repeat 1%Z (m - length s)).
  { destruct (Nat.ltb_spec (length s) m); [reflexivity|]. replace (m - length s)%nat with 0%nat by lia. cbn. now rewrite app_nil_r. }
  assert (E6 : (if Nat.ltb (length s) m
                then match zrows (ssubs S) with [] => [] | _ :: _ => map (fun r0 : list Z => r0 ++ repeat 0%Z (m - length s)) (zrows (ssubs S)) end
                else zrows (ssubs S)) = zrows (keys es)).
  { rewrite Kes. unfold zrows. rewrite !map_map.
    assert (G : map (fun x : idx => zrow x ++ repeat 0%Z (m - length s)) (ssubs S) = map (fun x : idx => zrow (x ++ repeat 0%nat (m - length s))) (ssubs S)).
    { apply map_ext. intros x. unfold zrow. rewrite map_app. f_equal. generalize (m - length s)%nat. intros k. induction k as [|k IHk]; cbn [repeat map]; [reflexivity|]. rewrite IHk. reflexivity. }
    destruct (Nat.ltb_spec (length s) m).
    - transitivity (map (fun x : idx => zrow x ++ repeat 0%Z (m - length s)) (ssubs S)); [destruct (ssubs S); reflexivity|exact G].
    - replace (m - length s)%nat with 0%nat by lia. apply map_ext. intros x. cbn. now rewrite app_nil_r. }
  rewrite HU1, HU2, E5, E6. rewrite <- Ves.
  rewrite (set_groups_sp_apply v0 isz es SD Nes (sort_dedupe_nodup asg) (sort_dedupe_nonempty asg Hasg) Res RSD).
  cbn [bind].
  assert (HQ : keys SD <> []) by (intros E; apply map_eq_nil in E; revert E; now apply sort_dedupe_nonempty).
  assert (HQP : forall x, In x (keys SD) <-> In x ps) by (intros x; unfold SD; rewrite sort_dedupe_keys, Kasg; tauto).
  rewrite (set_resize_grow s (keys SD) ps m Hsm HQ HQP).
  cbn [bind]. reflexivity.
Qed.
End Full.

(* ------------------------------------------------------------------------------------------------ *)
(* hence: the transliteration refines the specification, in total form                               *)
(* ------------------------------------------------------------------------------------------------ *)
Section Ref.
Context {V : Type} (v0 : V) (isz : V -> bool).
Hypothesis isz_spec : forall v, isz v = true <-> v = v0.

Lemma to_of_sparse (S : sparse V) : to_sparse (of_sparse S) = S.
Proof. destruct S as [s subs vals]. unfold to_sparse, of_sparse. cbn. now rewrite nrow_zrow, nrows_zrows. Qed.

Theorem impl_set_subscripts_refines (S : sparse V) rows (r : rhs V) a' out :
  wf_sp isz S -> spec_step v0 (abs_sp v0 S) (OSet (KSubs rows) r) = Some (a', out) ->
  exists R, impl_set_subscripts v0 isz (of_sparse S) rows r = Ok R /\
            eq_amap (abs_sp v0 (to_sparse R)) a' /\ wf_sp isz (to_sparse R).
Proof.
  intros W Hs.
  destruct (refine_sparse_total v0 isz isz_spec S (OSet (KSubs rows) r) a' out W I Hs) as (S' & Hst & Hq & W').
  exists (of_sparse S'). split; [eapply impl_set_subscripts_model; eauto|]. now rewrite to_of_sparse.
Qed.
End Ref.
