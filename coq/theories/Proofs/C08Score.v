(* Proofs/C08Score.v — the greedy matching loop of ktensor.score (Model/C08More.v, Section Score):
   for every RA x RB matrix whose entries all exceed the blanking value (-10 in the source; the entries are products of
   |cosines| and penalties in [0,1]) and every total, transitive comparison:
     * every pick lands on a row and a column not used before (the blanked cells never win the argmax),
     * each pick is a largest entry among the cells still free (greedy choice),
     * the completed best_perm is a permutation of range(RA), its first RB entries are the matched rows,
     * best_score * RB is the sum of the ORIGINAL entries C0[best_perm[j], j] over the picks. *)
From Coq Require Import List Arith Lia Bool Permutation.
From PV Require Import Base.Index Base.Perm Model.Repr Model.C08Kruskal Model.C08More.
Import ListNotations.

Section ScoreProofs.
Context {V : Type} (v0 : V) (vadd : V -> V -> V) (sent : V) (leb : V -> V -> bool).
Hypothesis leb_total : forall a b, leb a b = true \/ leb b a = true.
Hypothesis leb_trans : forall a b c, leb a b = true -> leb b c = true -> leb a c = true.

Notation ltb := (ltb leb).
Notation argmax_from := (argmax_from leb).
Notation argmax_cell := (argmax_cell leb).
Notation gstep := (gstep vadd sent leb).
Notation greedy := (greedy v0 vadd sent leb).
Notation score_perm := (score_perm v0 vadd sent leb).
Notation score_sum := (score_sum v0 vadd sent leb).
Notation fmat := (@fmat V).

Lemma leb_refl a : leb a a = true.
Proof. destruct (leb_total a a); auto. Qed.

Lemma in_cells RA RB i j : In (i, j) (cells RA RB) <-> i < RA /\ j < RB.
Proof.
  unfold cells. rewrite in_flat_map. split.
  - intros [x [Hx Hin]]. apply in_map_iff in Hin. destruct Hin as [y [Heq Hy]].
    inversion Heq; subst. apply in_seq in Hx. apply in_seq in Hy. lia.
  - intros [Hi Hj]. exists j. split. { apply in_seq; lia. }
    apply in_map_iff. exists i. split; auto. apply in_seq; lia.
Qed.

Lemma argmax_from_spec (C : fmat) : forall l best,
  In (argmax_from C best l) (best :: l) /\
  forall p, In p (best :: l) -> leb (cval C p) (cval C (argmax_from C best l)) = true.
Proof.
  induction l as [|q l IH]; intros best.
  - simpl. split; [left; auto|]. intros p [Hp|[]]. subst. apply leb_refl.
  - simpl argmax_from.
    set (b' := if ltb (cval C best) (cval C q) then q else best).
    destruct (IH b') as [Hin Hmax].
    assert (Hb : leb (cval C best) (cval C b') = true /\ leb (cval C q) (cval C b') = true).
    { unfold b', C08More.ltb. destruct (leb (cval C q) (cval C best)) eqn:E; simpl.
      - split; auto. apply leb_refl.
      - split; [|apply leb_refl]. destruct (leb_total (cval C best) (cval C q)); auto. congruence. }
    split.
    + destruct Hin as [H|H].
      * unfold b' in H. destruct (ltb _ _); [right; left|left]; auto.
      * right; right; auto.
    + intros p [Hp|[Hp|Hp]].
      * subst p. eapply leb_trans. { apply Hb. } apply Hmax. left; auto.
      * subst p. eapply leb_trans. { apply (proj2 Hb). } apply Hmax. left; auto.
      * apply Hmax. right; auto.
Qed.

Lemma argmax_cell_spec (C : fmat) RA RB : 0 < RA -> 0 < RB ->
  (fst (argmax_cell C RA RB) < RA /\ snd (argmax_cell C RA RB) < RB) /\
  forall i j, i < RA -> j < RB -> leb (C i j) (cval C (argmax_cell C RA RB)) = true.
Proof.
  intros HA HB. unfold C08More.argmax_cell.
  destruct (cells RA RB) as [|p l] eqn:E.
  - exfalso. assert (H : In (0, 0) (cells RA RB)) by (apply in_cells; lia). rewrite E in H. inversion H.
  - destruct (argmax_from_spec C l p) as [Hin Hmax]. split.
    + rewrite <- E in Hin. destruct (argmax_from C p l) as [i j] eqn:Er. apply in_cells in Hin. simpl. exact Hin.
    + intros i j Hi Hj. apply (Hmax (i, j)). rewrite <- E. apply in_cells. lia.
Qed.

(* ---- the invariant of the loop ---- *)
Definition used (ps : list (nat * nat)) (a b : nat) : bool := existsb (fun p => (fst p =? a) || (snd p =? b)) ps.

Lemma used_true ps a b : used ps a b = true <-> In a (map fst ps) \/ In b (map snd ps).
Proof.
  unfold used. rewrite existsb_exists. split.
  - intros [p [Hp Hb]]. apply orb_true_iff in Hb. destruct Hb as [Hb|Hb]; apply Nat.eqb_eq in Hb; subst.
    + left. apply in_map; auto.
    + right. apply in_map; auto.
  - intros [H|H]; apply in_map_iff in H; destruct H as [p [Heq Hp]]; exists p; split; auto; subst;
      rewrite Nat.eqb_refl; auto using orb_true_r.
Qed.

Lemma used_false ps a b : ~ In a (map fst ps) -> ~ In b (map snd ps) -> used ps a b = false.
Proof.
  intros Ha Hb. destruct (used ps a b) eqn:E; auto. apply used_true in E. tauto.
Qed.

Fixpoint greedy_ok (RA RB : nat) (C0 : fmat) (ps : list (nat * nat)) : Prop :=
  match ps with
  | [] => True
  | p :: old => (forall a b, a < RA -> b < RB -> used old a b = false -> leb (C0 a b) (cval C0 p) = true)
                /\ greedy_ok RA RB C0 old
  end.

Definition row_of (ps : list (nat * nat)) (j : nat) : option nat :=
  match find (fun p => snd p =? j) ps with Some p => Some (fst p) | None => None end.

Record Inv (RA RB : nat) (C0 : fmat) (st : gstate) : Prop := mkInv {
  inv_rows : NoDup (map fst (gpicks st));
  inv_cols : NoDup (map snd (gpicks st));
  inv_bnd  : forall p, In p (gpicks st) -> fst p < RA /\ snd p < RB;
  inv_C    : forall a b, gC st a b = if used (gpicks st) a b then sent else C0 a b;
  inv_len  : length (gperm st) = RA;
  inv_perm : forall j, nth j (gperm st) None = row_of (gpicks st) j;
  inv_sum  : gscore st = fold_right (fun p s => vadd s (cval C0 p)) v0 (gpicks st);
  inv_ok   : greedy_ok RA RB C0 (gpicks st)
}.

Lemma nth_repeat_none {A} n j : nth j (repeat (@None A) n) None = None.
Proof. revert j; induction n; intros [|j]; simpl; auto. Qed.

Lemma length_upd_nth' {A} n (f : A -> A) l : length (upd_nth n f l) = length l.
Proof. revert n; induction l as [|x l IH]; intros [|n]; simpl; auto. Qed.

Lemma nth_upd_nth_set {A} (l : list A) n x d j :
  n < length l -> nth j (upd_nth n (fun _ => x) l) d = if j =? n then x else nth j l d.
Proof.
  revert n j; induction l as [|y l IH]; intros n j Hn; simpl in Hn; [lia|].
  destruct n as [|n]; destruct j as [|j]; simpl; auto.
  apply IH. lia.
Qed.

Lemma fresh n (l : list nat) : length l < n -> exists x, x < n /\ ~ In x l.
Proof.
  intros Hl. destruct (find (fun x => negb (existsb (Nat.eqb x) l)) (seq 0 n)) as [x|] eqn:E.
  - apply find_some in E. destruct E as [Hin Hb]. exists x. split. { apply in_seq in Hin; lia. }
    intro HI. rewrite negb_true_iff in Hb.
    assert (Hx : existsb (Nat.eqb x) l = true) by (apply existsb_exists; exists x; split; auto; apply Nat.eqb_refl).
    congruence.
  - exfalso. assert (Hinc : incl (seq 0 n) l).
    { intros x Hx. pose proof (find_none _ _ E x Hx) as Hn. simpl in Hn. rewrite negb_false_iff in Hn.
      apply existsb_exists in Hn. destruct Hn as [y [Hy Heq]]. apply Nat.eqb_eq in Heq. subst; auto. }
    pose proof (NoDup_incl_length (seq_NoDup n 0) Hinc) as Hle. rewrite seq_length in Hle. lia.
Qed.

Lemma inv_init RA RB C0 : Inv RA RB C0 (mkG C0 (repeat None RA) v0 []).
Proof.
  constructor; simpl.
  - constructor.
  - constructor.
  - intros p [].
  - reflexivity.
  - apply repeat_length.
  - intros j. apply nth_repeat_none.
  - reflexivity.
  - exact I.
Qed.

Section Step.
Variables (RA RB : nat) (C0 : fmat).
Hypothesis HRA : RB <= RA.
Hypothesis Hpos : forall i j, i < RA -> j < RB -> ltb sent (C0 i j) = true.

Lemma inv_step st : Inv RA RB C0 st -> length (gpicks st) < RB ->
  Inv RA RB C0 (gstep RA RB st) /\ length (gpicks (gstep RA RB st)) = S (length (gpicks st)).
Proof.
  intros [Hrows Hcols Hbnd HC Hlen Hperm Hsum Hok] Hk.
  assert (HposA : 0 < RA) by lia. assert (HposB : 0 < RB) by lia.
  set (ps := gpicks st) in *.
  destruct (argmax_cell_spec (gC st) RA RB HposA HposB) as [[Hi Hj] Hmax].
  set (p := argmax_cell (gC st) RA RB) in *.
  destruct (fresh RA (map fst ps)) as [a [Ha Hna]]. { rewrite map_length. lia. }
  destruct (fresh RB (map snd ps)) as [b [Hb Hnb]]. { rewrite map_length. lia. }
  assert (Hfree : used ps (fst p) (snd p) = false).
  { destruct (used ps (fst p) (snd p)) eqn:E; auto. exfalso.
    pose proof (Hmax a b Ha Hb) as Hm. unfold cval in Hm. rewrite (HC (fst p) (snd p)), E in Hm.
    rewrite (HC a b), (used_false ps a b Hna Hnb) in Hm.
    pose proof (Hpos a b Ha Hb) as Hp. unfold C08More.ltb in Hp. rewrite Hm in Hp. discriminate. }
  assert (Hpv : cval (gC st) p = cval C0 p). { unfold cval. rewrite HC, Hfree. reflexivity. }
  assert (Hnr : ~ In (fst p) (map fst ps)).
  { intro H. assert (used ps (fst p) (snd p) = true) by (apply used_true; auto). congruence. }
  assert (Hnc : ~ In (snd p) (map snd ps)).
  { intro H. assert (used ps (fst p) (snd p) = true) by (apply used_true; auto). congruence. }
  split; [|reflexivity].
  constructor; unfold C08More.gstep; fold p; simpl; fold ps.
  - constructor; auto.
  - constructor; auto.
  - intros q [Hq|Hq]; [subst q; auto|apply Hbnd; auto].
  - intros a' b'. unfold blank. rewrite HC.
    rewrite (Nat.eqb_sym a' (fst p)), (Nat.eqb_sym b' (snd p)).
    destruct ((fst p =? a') || (snd p =? b')); reflexivity.
  - rewrite length_upd_nth'. exact Hlen.
  - intros j. rewrite nth_upd_nth_set by lia. unfold row_of. simpl.
    rewrite (Nat.eqb_sym j (snd p)). destruct (snd p =? j) eqn:E; auto.
    rewrite Hperm. reflexivity.
  - rewrite Hsum, Hpv. reflexivity.
  - split; auto. intros a' b' Ha' Hb' Hu.
    pose proof (Hmax a' b' Ha' Hb') as Hm. rewrite Hpv in Hm. rewrite HC, Hu in Hm. exact Hm.
Qed.

Lemma inv_iter k : k <= RB ->
  Inv RA RB C0 (Nat.iter k (gstep RA RB) (mkG C0 (repeat None RA) v0 [])) /\
  length (gpicks (Nat.iter k (gstep RA RB) (mkG C0 (repeat None RA) v0 []))) = k.
Proof.
  induction k as [|k IH]; intros Hk.
  - split; [apply inv_init|reflexivity].
  - destruct IH as [HI HL]; [lia|]. simpl Nat.iter.
    destruct (inv_step _ HI) as [HI' HL']; [lia|]. split; auto. lia.
Qed.

Lemma greedy_inv : Inv RA RB C0 (greedy RA RB C0) /\ length (gpicks (greedy RA RB C0)) = RB.
Proof. apply inv_iter. lia. Qed.

(* ---- consequences ---- *)
Lemma NoDup_fst_inj (ps : list (nat * nat)) p q :
  NoDup (map fst ps) -> In p ps -> In q ps -> fst p = fst q -> p = q.
Proof.
  induction ps as [|x ps IH]; intros Hnd Hp Hq Heq; [inversion Hp|].
  simpl in Hnd. inversion Hnd as [|? ? Hnx Hnd']; subst.
  destruct Hp as [Hp|Hp]; destruct Hq as [Hq|Hq]; subst; auto.
  - exfalso. apply Hnx. rewrite Heq. apply in_map; auto.
  - exfalso. apply Hnx. rewrite <- Heq. apply in_map; auto.
Qed.

Lemma NoDup_snd_inj (ps : list (nat * nat)) p q :
  NoDup (map snd ps) -> In p ps -> In q ps -> snd p = snd q -> p = q.
Proof.
  induction ps as [|x ps IH]; intros Hnd Hp Hq Heq; [inversion Hp|].
  simpl in Hnd. inversion Hnd as [|? ? Hnx Hnd']; subst.
  destruct Hp as [Hp|Hp]; destruct Hq as [Hq|Hq]; subst; auto.
  - exfalso. apply Hnx. rewrite Heq. apply in_map; auto.
  - exfalso. apply Hnx. rewrite <- Heq. apply in_map; auto.
Qed.

Lemma nth_firstn_lt {A} (l : list A) n k d : k < n -> nth k (firstn n l) d = nth k l d.
Proof.
  revert n k; induction l as [|a l IH]; intros [|n] [|k] H; simpl; auto; try lia. apply IH. lia.
Qed.

Lemma NoDup_map_in {A B} (f : A -> B) l :
  (forall x y, In x l -> In y l -> f x = f y -> x = y) -> NoDup l -> NoDup (map f l).
Proof.
  induction l as [|a l IH]; intros Hinj Hnd; simpl; [constructor|].
  inversion Hnd as [|? ? Hna Hnd']; subst. constructor.
  - intro H. apply in_map_iff in H. destruct H as [y [Heq Hy]].
    assert (y = a) by (apply Hinj; simpl; auto). subst. auto.
  - apply IH; auto. intros x y Hx Hy. apply Hinj; simpl; auto.
Qed.

Lemma row_of_some ps j : In j (map snd ps) -> exists p, In p ps /\ snd p = j /\ row_of ps j = Some (fst p).
Proof.
  intros H. unfold row_of. destruct (find (fun p => snd p =? j) ps) as [p|] eqn:E.
  - apply find_some in E. destruct E as [Hin Hb]. apply Nat.eqb_eq in Hb. exists p. auto.
  - exfalso. apply in_map_iff in H. destruct H as [p [Heq Hp]].
    pose proof (find_none _ _ E p Hp) as Hn. simpl in Hn. rewrite Heq, Nat.eqb_refl in Hn. discriminate.
Qed.

Lemma row_of_in ps j i : row_of ps j = Some i -> In (i, j) ps.
Proof.
  unfold row_of. destruct (find (fun p => snd p =? j) ps) as [p|] eqn:E; [|discriminate].
  intros H. inversion H; subst. apply find_some in E. destruct E as [Hin Hb]. apply Nat.eqb_eq in Hb.
  destruct p; simpl in *; subst; auto.
Qed.

Lemma NoDup_app_disj {A} (l m : list A) :
  NoDup l -> NoDup m -> (forall x, In x l -> ~ In x m) -> NoDup (l ++ m).
Proof.
  induction l as [|a l IH]; intros Hl Hm Hd; simpl; auto.
  inversion Hl as [|? ? Hna Hl']; subst. constructor.
  - intro H. apply in_app_iff in H. destruct H as [H|H]; auto. apply (Hd a); simpl; auto.
  - apply IH; auto. intros x Hx. apply Hd. simpl; auto.
Qed.

Lemma complement_perm n (l : list nat) :
  NoDup l -> (forall x, In x l -> x < n) ->
  Permutation (l ++ filter (fun a => negb (existsb (Nat.eqb a) l)) (seq 0 n)) (seq 0 n).
Proof.
  intros Hnd Hb. apply NoDup_Permutation.
  - apply NoDup_app_disj; auto.
    + apply NoDup_filter, seq_NoDup.
    + intros x Hx Hf. apply filter_In in Hf. destruct Hf as [_ Hf]. rewrite negb_true_iff in Hf.
      assert (Hx' : existsb (Nat.eqb x) l = true) by (apply existsb_exists; exists x; split; auto; apply Nat.eqb_refl).
      congruence.
  - apply seq_NoDup.
  - intros x. rewrite in_app_iff, filter_In, in_seq. split.
    + intros [H|[H _]]; [apply Hb in H|]; lia.
    + intros Hx. destruct (existsb (Nat.eqb x) l) eqn:E.
      * left. apply existsb_exists in E. destruct E as [y [Hy Heq]]. apply Nat.eqb_eq in Heq. subst; auto.
      * right. split; [lia|]. reflexivity.
Qed.

(* the completed best_perm is a permutation of range(RA) *)
Theorem score_perm_is_perm : is_perm (score_perm RA RB C0) RA.
Proof.
  destruct greedy_inv as [[Hrows Hcols Hbnd HC Hlen Hperm Hsum Hok] HL].
  unfold is_perm, C08More.score_perm.
  set (st := greedy RA RB C0) in *. set (ps := gpicks st) in *. set (bp := gperm st) in *.
  (* every column below RB has been matched *)
  assert (Hall : forall j, j < RB -> In j (map snd ps)).
  { intros j Hj. apply (@NoDup_length_incl nat (map snd ps) (seq 0 RB) Hcols).
    - rewrite seq_length, map_length. lia.
    - intros x Hx. apply in_map_iff in Hx. destruct Hx as [q [Heq Hq]]. subst x. apply in_seq. apply Hbnd in Hq. lia.
    - apply in_seq. lia. }
  set (l := map (oget RA) (firstn RB bp)).
  assert (Hl : l = map (fun j => oget RA (row_of ps j)) (seq 0 RB)).
  { unfold l. apply nth_ext with (d := oget RA None) (d' := oget RA None).
    - rewrite !map_length, firstn_length, seq_length. fold bp in Hlen. lia.
    - intros k Hk. rewrite map_length, firstn_length in Hk. fold bp in Hlen.
      assert (HkB : k < RB) by lia.
      rewrite (map_nth (oget RA)). rewrite nth_firstn_lt by lia. fold bp in Hperm. rewrite Hperm.
      replace (oget RA None) with ((fun j => oget RA (row_of ps j)) RB).
      2:{ simpl. unfold row_of. destruct (find (fun p => snd p =? RB) ps) as [q|] eqn:E; auto.
          apply find_some in E. destruct E as [Hq Hb]. apply Nat.eqb_eq in Hb. apply Hbnd in Hq. lia. }
      rewrite (map_nth (fun j => oget RA (row_of ps j))). rewrite seq_nth by lia. reflexivity. }
  assert (Hmem : forall a, existsb (oeqb a) bp = existsb (Nat.eqb a) l).
  { intros a. apply eq_true_iff_eq. rewrite !existsb_exists. split.
    - intros [o [Ho Hb]]. destruct o as [i|]; [|discriminate]. simpl in Hb. apply Nat.eqb_eq in Hb. subst i.
      apply In_nth with (d := None) in Ho. destruct Ho as [j [Hj Hn]]. fold bp in Hperm. rewrite Hperm in Hn.
      apply row_of_in in Hn. pose proof (Hbnd _ Hn) as Hb2. simpl in Hb2.
      exists a. split; [|apply Nat.eqb_refl]. rewrite Hl. apply in_map_iff. exists j. split; [|apply in_seq; lia].
      destruct (row_of_some ps j) as [q [Hq [Hs Hr]]]. { apply Hall. lia. }
      rewrite Hr. simpl. assert (q = (a, j)).
      { apply (NoDup_snd_inj ps); auto. }
      subst q. reflexivity.
    - intros [x [Hx Hb]]. apply Nat.eqb_eq in Hb. subst x. rewrite Hl in Hx. apply in_map_iff in Hx.
      destruct Hx as [j [Heq Hj]]. apply in_seq in Hj.
      destruct (row_of_some ps j) as [q [Hq [Hs Hr]]]. { apply Hall. lia. }
      rewrite Hr in Heq. simpl in Heq. exists (Some a). split; [|simpl; apply Nat.eqb_refl].
      rewrite <- Heq, <- Hr. fold bp in Hperm. rewrite <- Hperm. apply nth_In. fold bp in Hlen. lia. }
  fold l. rewrite (filter_ext _ _ (fun a => f_equal negb (Hmem a))).
  apply complement_perm.
  - rewrite Hl. apply NoDup_map_in; [|apply seq_NoDup].
    intros x y Hx Hy Heq. apply in_seq in Hx. apply in_seq in Hy.
    destruct (row_of_some ps x) as [q1 [Hq1 [Hs1 Hr1]]]. { apply Hall. lia. }
    destruct (row_of_some ps y) as [q2 [Hq2 [Hs2 Hr2]]]. { apply Hall. lia. }
    rewrite Hr1, Hr2 in Heq. simpl in Heq.
    assert (Hqq : q1 = q2) by (apply (NoDup_fst_inj ps); auto). rewrite <- Hs1, <- Hs2, Hqq. reflexivity.
  - intros x Hx. rewrite Hl in Hx. apply in_map_iff in Hx. destruct Hx as [j [Heq Hj]]. apply in_seq in Hj.
    destruct (row_of_some ps j) as [q [Hq [Hs Hr]]]. { apply Hall. lia. }
    rewrite Hr in Heq. simpl in Heq. subst x. apply Hbnd in Hq. lia.
Qed.

(* the matched pairs: one per column of the reference, distinct rows, each a largest entry among the cells still free,
   recorded in best_perm; best_score * RB is the sum of the ORIGINAL entries at the matched pairs *)
Theorem score_greedy_matching :
  let ps := gpicks (greedy RA RB C0) in
  Permutation (map snd ps) (seq 0 RB) /\ NoDup (map fst ps) /\ (forall p, In p ps -> fst p < RA) /\
  greedy_ok RA RB C0 ps /\
  (forall p, In p ps -> nth (snd p) (score_perm RA RB C0) RA = fst p) /\
  score_sum RA RB C0 = fold_right (fun p s => vadd s (C0 (fst p) (snd p))) v0 ps.
Proof.
  destruct greedy_inv as [[Hrows Hcols Hbnd HC Hlen Hperm Hsum Hok] HL]. cbv zeta.
  set (st := greedy RA RB C0) in *. set (ps := gpicks st) in *.
  split; [|split; [|split; [|split; [|split]]]]; auto.
  - apply NoDup_Permutation_bis; auto using seq_NoDup.
    + rewrite seq_length, map_length. lia.
    + intros x Hx. apply in_map_iff in Hx. destruct Hx as [q [Heq Hq]]. subst x. apply in_seq. apply Hbnd in Hq. lia.
  - intros p Hp. apply Hbnd; auto.
  - intros p Hp. unfold C08More.score_perm. fold st. pose proof (Hbnd p Hp) as [Hi Hj].
    rewrite app_nth1 by (rewrite map_length, firstn_length; lia).
    replace RA with (oget RA None) at 2 by reflexivity. rewrite (map_nth (oget RA)).
    rewrite nth_firstn_lt by lia. rewrite Hperm.
    destruct (row_of_some ps (snd p)) as [q [Hq [Hs Hr]]]. { apply in_map; auto. }
    rewrite Hr. simpl. f_equal. apply (NoDup_snd_inj ps); auto.
Qed.

End Step.
End ScoreProofs.

(* the hypotheses on the comparison are satisfiable: <= on exact rationals (the instance the correspondence check runs) *)
From Coq Require Import QArith Qcanon.
From PV Require Import Model.Harness.
Lemma qleb_total (a b : Qc) : qleb a b = true \/ qleb b a = true.
Proof.
  unfold qleb. rewrite !Qle_bool_iff. destruct (Qlt_le_dec a b) as [H|H]; [left; apply Qlt_le_weak|right]; auto.
Qed.
Lemma qleb_trans (a b c : Qc) : qleb a b = true -> qleb b c = true -> qleb a c = true.
Proof. unfold qleb. rewrite !Qle_bool_iff. apply Qle_trans. Qed.
Theorem score_perm_is_perm_Qc (sent : Qc) (RA RB : nat) (C0 : nat -> nat -> Qc) : (RB <= RA)%nat ->
  (forall i j : nat, (i < RA)%nat -> (j < RB)%nat -> ltb qleb sent (C0 i j) = true) ->
  is_perm (score_perm q0 Qcplus sent qleb RA RB C0) RA.
Proof. apply (score_perm_is_perm q0 Qcplus sent qleb qleb_total qleb_trans). Qed.
