(* Proofs/C06Squash.v — squash (Model/C06Ops.v: every mode renumbered by the rank of each index among the distinct indices used
   in that mode; the shape becomes the number of distinct indices per mode): the result of a well-formed tensor is well-formed,
   keeps the stored values and their number, and two stored orders of one tensor give the same result. *)
From Coq Require Import List Arith Lia Bool Permutation Sorting.Sorted.
From PV Require Import Base.Index Np.Array Model.Sparse Model.C03Ops Model.C06Ops
                       Proofs.C03Lemmas Proofs.C03Proofs Proofs.C06Proofs Proofs.C06Other.
Import ListNotations.

(* ---- sorted duplicate-free list of the values of a column ---- *)
Lemma in_ins_nat x y l : In y (ins_nat x l) <-> y = x \/ In y l.
Proof.
  induction l as [|z l IH]; cbn [ins_nat].
  - cbn [In]. split; intros [H|[]]; subst; auto.
  - destruct (x <? z) eqn:E1.
    + cbn [In]. split; intros [H|H]; [left; now symmetry|right; exact H|left; now symmetry|right; exact H].
    + destruct (Nat.eqb x z) eqn:E2.
      * apply Nat.eqb_eq in E2. subst. cbn [In]. split; [intros H; now right|intros [H|H]; [left; now symmetry|exact H]].
      * cbn [In]. rewrite IH.
        split; intros [H|[H|H]]; [right; now left|now left|right; now right|right; now left|now left|right; now right].
Qed.

Lemma sorted_ins_nat x l : StronglySorted lt l -> StronglySorted lt (ins_nat x l).
Proof.
  induction l as [|z l IH]; cbn [ins_nat]; intros H.
  - constructor; constructor.
  - inversion H as [|? ? Hs Hf]; subst. destruct (x <? z) eqn:E1.
    + apply Nat.ltb_lt in E1. constructor; auto. constructor; auto.
      rewrite Forall_forall in *. intros y Hy. specialize (Hf y Hy). lia.
    + apply Nat.ltb_ge in E1. destruct (Nat.eqb x z) eqn:E2; auto.
      apply Nat.eqb_neq in E2. constructor; auto.
      rewrite Forall_forall in *. intros y Hy. apply in_ins_nat in Hy. destruct Hy as [->|Hy]; [lia|auto].
Qed.

Lemma in_uniq_nat y l : In y (uniq_nat l) <-> In y l.
Proof. induction l as [|x l IH]; cbn [uniq_nat fold_right In]; [tauto|]. fold (uniq_nat l). rewrite in_ins_nat, IH. split; intros [H|H]; [left; now symmetry|now right|left; now symmetry|now right]. Qed.

Lemma sorted_uniq_nat l : StronglySorted lt (uniq_nat l).
Proof. induction l as [|x l IH]; cbn [uniq_nat fold_right]; [constructor|now apply sorted_ins_nat]. Qed.

Lemma sorted_ext (l1 l2 : list nat) : StronglySorted lt l1 -> StronglySorted lt l2 ->
  (forall y, In y l1 <-> In y l2) -> l1 = l2.
Proof.
  revert l2. induction l1 as [|a l1 IH]; intros [|b l2] H1 H2 E.
  - reflexivity.
  - destruct (proj2 (E b)); cbn; auto.
  - destruct (proj1 (E a)); cbn; auto.
  - inversion H1 as [|? ? S1 F1]; inversion H2 as [|? ? S2 F2]; subst.
    rewrite Forall_forall in F1, F2.
    assert (a = b).
    { destruct (proj1 (E a)) as [->|Ha]; [now left|auto|]. destruct (proj2 (E b)) as [->|Hb]; [now left|auto|].
      specialize (F1 b Hb). specialize (F2 a Ha). lia. }
    subst b. f_equal. apply IH; auto. intros y. split; intros Hy.
    + destruct (proj1 (E y)) as [->|]; [now right| |auto]. specialize (F1 y Hy). lia.
    + destruct (proj2 (E y)) as [->|]; [now right| |auto]. specialize (F2 y Hy). lia.
Qed.

Lemma uniq_nat_ext l l' : (forall y, In y l <-> In y l') -> uniq_nat l = uniq_nat l'.
Proof. intros E. apply sorted_ext; auto using sorted_uniq_nat. intros y. now rewrite !in_uniq_nat. Qed.

Lemma rank_of_lt x l : In x l -> rank_of x l < length l.
Proof.
  induction l as [|y l IH]; cbn; [tauto|]. intros H. destruct (Nat.eqb x y) eqn:E; [lia|].
  apply Nat.eqb_neq in E. destruct H as [->|H]; [congruence|]. specialize (IH H). lia.
Qed.
Lemma nth_rank_of x l : In x l -> nth (rank_of x l) l 0 = x.
Proof.
  induction l as [|y l IH]; cbn; [tauto|]. intros H. destruct (Nat.eqb x y) eqn:E.
  - apply Nat.eqb_eq in E. now subst.
  - apply Nat.eqb_neq in E. destruct H as [->|H]; [congruence|auto].
Qed.

(* ---- renumbering of one subscript row ---- *)
Definition ren (maps : list (list nat)) (i : idx) : idx := map (fun p => rank_of (fst p) (snd p)) (combine i maps).

Lemma ren_inb maps : forall i, Forall2 (fun x m => In x m) i maps -> inb (map (@length nat) maps) (ren maps i) = true.
Proof.
  unfold ren. induction maps as [|m maps IH]; intros i H; inversion H; subst; cbn; auto.
  rewrite IH by auto. rewrite andb_true_r. apply Nat.ltb_lt. now apply rank_of_lt.
Qed.

Lemma ren_inj maps : forall i j, Forall2 (fun x m => In x m) i maps -> Forall2 (fun x m => In x m) j maps ->
  ren maps i = ren maps j -> i = j.
Proof.
  unfold ren. induction maps as [|m maps IH]; intros i j Hi Hj E; inversion Hi; inversion Hj; subst; auto.
  cbn in E. inversion E as [[E1 E2]]. f_equal; [|now apply IH].
  rewrite <- (nth_rank_of x m) by auto. rewrite <- (nth_rank_of x0 m) by auto. now rewrite E1.
Qed.

Lemma forall2_seq (f : nat -> list nat) : forall (i : idx) k, (forall n, n < length i -> In (nth n i 0) (f (k + n))) ->
  Forall2 (fun x m => In x m) i (map f (seq k (length i))).
Proof.
  induction i as [|x i IH]; intros k H; cbn; constructor.
  - specialize (H 0). cbn in H. rewrite Nat.add_0_r in H. apply H. lia.
  - apply IH. intros n Hn. specialize (H (S n)). cbn in H. rewrite <- Nat.add_succ_comm in H. apply H. lia.
Qed.

Section Squash.
Context {V : Type} (v0 : V) (isz : V -> bool).
Hypothesis isz_spec : forall v, isz v = true <-> v = v0.
Notation wf := (wf_sp isz).

Lemma squash_eq (S : sparse V) : squash S = mkSp (map (@length nat) (squash_maps S)) (map (ren (squash_maps S)) (ssubs S)) (svals S).
Proof. reflexivity. Qed.

Lemma stored_in_maps (S : sparse V) i : wf S -> In i (ssubs S) -> Forall2 (fun x m => In x m) i (squash_maps S).
Proof.
  intros (_ & _ & HB & _) Hi. rewrite Forall_forall in HB. pose proof (inb_length _ _ (HB i Hi)) as HL.
  unfold squash_maps. rewrite <- HL. apply forall2_seq. intros n _. cbn. apply in_uniq_nat. unfold column.
  apply in_map_iff. now exists i.
Qed.

Theorem squash_wf (S : sparse V) : wf S ->
  wf (squash S) /\ nnz (squash S) = nnz S /\ svals (squash S) = svals S /\
  sshape (squash S) = map (fun n => length (uniq_nat (column n (ssubs S)))) (seq 0 (length (sshape S))).
Proof.
  intros W. pose proof W as (HL & HN & HB & HZ). rewrite squash_eq. split; [|split; [|split]].
  - unfold wf_sp. cbn [ssubs svals sshape]. split; [now rewrite map_length|]. split; [|split; [|exact HZ]].
    + (* pairwise distinct: the renumbering is injective on the stored rows *)
      assert (Hin : forall l, incl l (ssubs S) -> NoDup l -> NoDup (map (ren (squash_maps S)) l)).
      { induction l as [|i l IH]; cbn; intros Hi Hn; [constructor|]. inversion Hn; subst. constructor.
        - intros C. apply in_map_iff in C. destruct C as (j & Ej & Hj).
          assert (j = i); [|now subst].
          apply (ren_inj (squash_maps S)); auto; apply stored_in_maps; auto; apply Hi; cbn; auto.
        - apply IH; auto. intros x Hx. apply Hi. now right. }
      apply Hin; auto. apply incl_refl.
    + rewrite Forall_forall. intros j Hj. apply in_map_iff in Hj. destruct Hj as (i & <- & Hi).
      apply ren_inb. now apply stored_in_maps.
  - unfold nnz. cbn. now rewrite map_length.
  - reflexivity.
  - cbn [sshape]. unfold squash_maps. now rewrite map_map.
Qed.

Lemma entries_squash (S : sparse V) : entries (squash S) = map (fun e => (ren (squash_maps S) (fst e), snd e)) (entries S).
Proof.
  rewrite squash_eq. unfold entries. cbn [ssubs svals]. generalize (svals S). induction (ssubs S) as [|j l IH]; intros [|v vs]; cbn; auto.
  now rewrite IH.
Qed.

(* the same result for every stored order *)
Theorem indep_squash (S S' : sparse V) : wf S -> wf S' -> sshape S' = sshape S -> Permutation (entries S) (entries S') ->
  same_result v0 isz (squash S) (squash S').
Proof.
  intros W W' Hs P.
  assert (PS : Permutation (ssubs S) (ssubs S')).
  { destruct W as (HL & _). destruct W' as (HL' & _).
    replace (ssubs S) with (map fst (entries S)); [replace (ssubs S') with (map fst (entries S'))|].
    - now apply Permutation_map.
    - unfold entries. clear - HL'. revert HL'. generalize (svals S'). induction (ssubs S') as [|j l IH]; intros [|v vs] H; cbn in *; try lia; auto.
      f_equal. apply IH. lia.
    - unfold entries. clear - HL. revert HL. generalize (svals S). induction (ssubs S) as [|j l IH]; intros [|v vs] H; cbn in *; try lia; auto.
      f_equal. apply IH. lia. }
  assert (M : squash_maps S' = squash_maps S).
  { unfold squash_maps. rewrite Hs. apply map_ext. intros n. apply uniq_nat_ext. intros y. unfold column.
    split; intros Hy; apply in_map_iff in Hy; destruct Hy as (i & <- & Hi); apply in_map_iff; exists i; (split; [reflexivity|]);
      (eapply Permutation_in; [|exact Hi]); [now symmetry|exact PS]. }
  destruct (squash_wf S W) as (W1 & _). destruct (squash_wf S' W') as (W2 & _).
  assert (PE : Permutation (entries (squash S)) (entries (squash S'))).
  { rewrite !entries_squash, M. now apply Permutation_map. }
  split; [exact W1|]. split; [exact W2|]. split; [|exact PE].
  apply (canon_of_perm v0 isz); auto. rewrite !squash_eq. cbn [sshape]. now rewrite M.
Qed.
End Squash.
