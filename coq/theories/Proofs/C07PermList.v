(* Proofs/C07PermList.v — a history of ANY number of permutes on one holder is the single permute by the composed order
   (Model/C07Req.v run_perm / compose_all), for the five holders; generic induction over the list from the two-step laws of
   Proofs/C07Compose.v. *)
From Coq Require Import List Arith Lia Bool.
From PV Require Import Base.Index Base.Perm Np.Array Model.Sparse Model.Repr Model.C07Ops Model.C07Ops2 Model.C07Req
  Proofs.C07Index Proofs.C07Proofs Proofs.C07Compose.
Import ListNotations.

Lemma compose_all_perm N p l : is_perm p N -> Forall (fun q => is_perm q N) l -> is_perm (compose_all p l) N.
Proof.
  revert p. induction l as [|q l IH]; intros p Hp Hl; [exact Hp|].
  inversion Hl as [|? ? Hq Hl']; subst. cbn [compose_all]. apply pick_compose_perm; [exact Hp|now apply IH].
Qed.

Section Generic.
Context {X : Type} (perm : X -> list nat -> option X) (ok : nat -> X -> Prop).
Hypothesis compose : forall N x p q, ok N x -> is_perm p N -> is_perm q N ->
  exists R1, perm x p = Some R1 /\ ok N R1 /\ perm R1 q = perm x (pick 0 q p).

Theorem run_perm_compose N l : forall x p, ok N x -> is_perm p N -> Forall (fun q => is_perm q N) l ->
  run_perm perm x (p :: l) = perm x (compose_all p l).
Proof.
  induction l as [|q l IH]; intros x p Hok Hp Hl.
  - cbn. destruct (perm x p); reflexivity.
  - inversion Hl as [|? ? Hq Hl']; subst.
    pose proof (compose_all_perm N q l Hq Hl') as Hc.
    destruct (compose N x p (compose_all q l) Hok Hp Hc) as (R1 & E & HokR & Hcomp).
    change (run_perm perm x (p :: q :: l)) with (match perm x p with Some R => run_perm perm R (q :: l) | None => None end).
    rewrite E, (IH R1 q HokR Hq Hl'). exact Hcomp.
Qed.
End Generic.

Section Holders.
Context {V : Type} (v0 : V).

Definition ok_d (N : nat) (T : dense V) : Prop := wf_dense T /\ length (dshape T) = N.
Definition ok_s (N : nat) (S : sparse V) : Prop := length (sshape S) = N.
Definition ok_k (N : nat) (K : ktensor V) : Prop := length (kfactors K) = N.
Definition ok_t (N : nat) (T : ttensor V) : Prop :=
  wf_dense (tcore T) /\ length (dshape (tcore T)) = N /\ length (tfactors T) = N.
Definition ok_st (N : nat) (T : sttensor V) : Prop := length (sshape (stcore T)) = N /\ length (stfactors T) = N.

Lemma compose_d N (T : dense V) p q : ok_d N T -> is_perm p N -> is_perm q N ->
  exists R1, permute_d v0 T p = Some R1 /\ ok_d N R1 /\ permute_d v0 R1 q = permute_d v0 T (pick 0 q p).
Proof.
  intros [W HN] Hp Hq. subst N.
  destruct (permute_dense_compose v0 T p q W Hp Hq) as (R1 & E & _ & HC). exists R1. split; [exact E|]. split; [|exact HC].
  rewrite (permute_d_perm v0 T p W Hp) in E. injection E as <-. split; [apply wf_tabulate|].
  unfold np_transpose. rewrite dshape_tabulate, pick_length. now apply is_perm_length.
Qed.

Lemma compose_s N (S : sparse V) p q : ok_s N S -> is_perm p N -> is_perm q N ->
  exists R1, permute_sp S p = Some R1 /\ ok_s N R1 /\ permute_sp R1 q = permute_sp S (pick 0 q p).
Proof.
  unfold ok_s. intros HN Hp Hq. subst N.
  destruct (permute_sparse_compose S p q Hp Hq) as (R1 & E & _ & HC). exists R1. split; [exact E|]. split; [|exact HC].
  unfold permute_sp in E. rewrite (proj2 (is_permb_spec _ _) Hp) in E. injection E as <-. cbn [sshape].
  rewrite pick_length. now apply is_perm_length.
Qed.

Lemma compose_k N (K : ktensor V) p q : ok_k N K -> is_perm p N -> is_perm q N ->
  exists R1, permute_k K p = Some R1 /\ ok_k N R1 /\ permute_k R1 q = permute_k K (pick 0 q p).
Proof.
  unfold ok_k. intros HN Hp Hq. subst N.
  destruct (permute_kruskal_compose K p q Hp Hq) as (R1 & E & HC). exists R1. split; [exact E|]. split; [|exact HC].
  unfold permute_k in E. rewrite (proj2 (is_permb_spec _ _) Hp) in E. injection E as <-. cbn [kfactors].
  rewrite pick_length. now apply is_perm_length.
Qed.

Lemma compose_t N (T : ttensor V) p q : ok_t N T -> is_perm p N -> is_perm q N ->
  exists R1, permute_t v0 T p = Some R1 /\ ok_t N R1 /\ permute_t v0 R1 q = permute_t v0 T (pick 0 q p).
Proof.
  intros (W & HN & HF) Hp Hq. subst N.
  assert (Hp' : is_perm p (length (tfactors T))) by now rewrite HF.
  assert (Hq' : is_perm q (length (tfactors T))) by now rewrite HF.
  destruct (permute_tucker_compose v0 T p q W (eq_sym HF) Hp' Hq') as (R1 & E & HC).
  exists R1. split; [exact E|]. split; [|exact HC].
  unfold permute_t in E. rewrite (proj2 (is_permb_spec _ _) Hp'), (permute_d_perm v0 (tcore T) p W Hp) in E.
  injection E as <-. cbn [tcore tfactors]. split; [apply wf_tabulate|].
  cbn [tcore tfactors]. unfold np_transpose, tabulate. cbn [dshape]. rewrite !pick_length. split; now apply is_perm_length.
Qed.

Lemma compose_st N (T : sttensor V) p q : ok_st N T -> is_perm p N -> is_perm q N ->
  exists R1, permute_st T p = Some R1 /\ ok_st N R1 /\ permute_st R1 q = permute_st T (pick 0 q p).
Proof.
  intros (HN & HF) Hp Hq. subst N.
  assert (Hp' : is_perm p (length (stfactors T))) by now rewrite HF.
  assert (Hq' : is_perm q (length (stfactors T))) by now rewrite HF.
  destruct (permute_stucker_compose T p q (eq_sym HF) Hp' Hq') as (R1 & E & HC).
  exists R1. split; [exact E|]. split; [|exact HC].
  unfold permute_st, permute_sp in E. rewrite (proj2 (is_permb_spec _ _) Hp'), (proj2 (is_permb_spec _ _) Hp) in E.
  injection E as <-. split; cbn [stcore stfactors sshape]; rewrite pick_length; now apply is_perm_length.
Qed.

(* any number of permutes = one permute by the composed order, on the five holders *)
Theorem permute_list_holders N p l : is_perm p N -> Forall (fun q => is_perm q N) l ->
  is_perm (compose_all p l) N /\
  (forall T : dense V, ok_d N T -> run_perm (permute_d v0) T (p :: l) = permute_d v0 T (compose_all p l)) /\
  (forall S : sparse V, ok_s N S -> run_perm permute_sp S (p :: l) = permute_sp S (compose_all p l)) /\
  (forall K : ktensor V, ok_k N K -> run_perm permute_k K (p :: l) = permute_k K (compose_all p l)) /\
  (forall T : ttensor V, ok_t N T -> run_perm (permute_t v0) T (p :: l) = permute_t v0 T (compose_all p l)) /\
  (forall T : sttensor V, ok_st N T -> run_perm permute_st T (p :: l) = permute_st T (compose_all p l)).
Proof.
  intros Hp Hl. split; [now apply compose_all_perm|].
  split; [intros T H; apply (run_perm_compose (permute_d v0) ok_d (fun N x p q => compose_d N x p q) N l T p H Hp Hl)|].
  split; [intros S H; apply (run_perm_compose permute_sp ok_s (fun N x p q => compose_s N x p q) N l S p H Hp Hl)|].
  split; [intros K H; apply (run_perm_compose permute_k ok_k (fun N x p q => compose_k N x p q) N l K p H Hp Hl)|].
  split; [intros T H; apply (run_perm_compose (permute_t v0) ok_t (fun N x p q => compose_t N x p q) N l T p H Hp Hl)|].
  intros T H; apply (run_perm_compose permute_st ok_st (fun N x p q => compose_st N x p q) N l T p H Hp Hl).
Qed.

End Holders.
